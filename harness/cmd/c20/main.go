// c20: translator (extract) and correspondence/oracle harness for property C20
// (every documented backend option switches exactly its own feature).
package main

import (
	"encoding/json"
	"flag"
	"fmt"
	"io"
	"log"
	"os"
	"path/filepath"
	"reflect"
	"regexp"
	"sort"
	"strings"

	"github.com/cloudwego/thriftgo/args"
	"github.com/cloudwego/thriftgo/generator/backend"
	"github.com/cloudwego/thriftgo/generator/golang"
	"github.com/cloudwego/thriftgo/generator/golang/styles"
	"github.com/cloudwego/thriftgo/generator/golang/templates"
	"github.com/cloudwego/thriftgo/plugin"

	"verifharness/internal/vl"
)

var special = map[string]string{
	"thrift_import_path": ".thriftImportPath",
	"use_package":        ".usePackage",
	"naming_style":       ".namingStyle",
	"ignore_initialisms": ".ignoreInitialisms",
	"package_prefix":     ".packagePrefix",
	"template":           ".template",
}

type tableEntry struct {
	Name string
	Kind string // lean term
	Idx  int    // feature index or -1
}

func featureTags() []string {
	t := reflect.TypeOf(golang.Features{})
	var out []string
	for i := 0; i < t.NumField(); i++ {
		out = append(out, strings.SplitN(string(t.Field(i).Tag), ":", 2)[0])
	}
	return out
}

func table() ([]tableEntry, error) {
	tags := featureTags()
	idx := map[string]int{}
	for i, n := range tags {
		idx[n] = i
	}
	var out []tableEntry
	for _, o := range new(golang.GoBackend).Options() {
		if k, ok := special[o.Name]; ok {
			out = append(out, tableEntry{o.Name, k, -1})
		} else if i, ok := idx[o.Name]; ok {
			out = append(out, tableEntry{o.Name, fmt.Sprintf(".feature %d", i), i})
		} else {
			return nil, fmt.Errorf("option %q is neither a CodeUtils parameter known to the model nor a Features tag", o.Name)
		}
	}
	return out, nil
}

func resetStyles() {
	for _, n := range styles.NamingStyles() {
		styles.NewNamingStyle(n).UseInitialisms(true)
	}
}

func featBits(f golang.Features) string {
	v := reflect.ValueOf(f)
	var sb strings.Builder
	for i := 0; i < v.NumField(); i++ {
		if v.Field(i).Bool() {
			sb.WriteByte('1')
		} else {
			sb.WriteByte('0')
		}
	}
	return sb.String()
}

func effInit(cu *golang.CodeUtils) bool {
	s, _ := cu.NamingStyle().Identify("user_url")
	return strings.Contains(s, "URL")
}

func templateNames() []string {
	out := []string{"default"}
	var ks []string
	for k := range templates.Alternative() {
		ks = append(ks, k)
	}
	sort.Strings(ks)
	return append(out, ks...)
}

func replDump(cu *golang.CodeUtils) string {
	f := reflect.ValueOf(cu).Elem().FieldByName("importReplace")
	if !f.IsValid() || f.Kind() != reflect.Map {
		return "?"
	}
	var kv []string
	it := f.MapRange()
	for it.Next() {
		kv = append(kv, vl.Hex(it.Key().String())+"="+vl.Hex(it.Value().String()))
	}
	sort.Strings(kv)
	if len(kv) == 0 {
		return "none"
	}
	return strings.Join(kv, ",")
}

// runImpl runs the real HandleOptions on a fresh CodeUtils and prints the canonical observation.
func runImpl(args []string) (line string, cu *golang.CodeUtils) {
	resetStyles()
	cu = golang.NewCodeUtils(backend.DummyLogFunc())
	var err error
	func() {
		defer func() {
			if r := recover(); r != nil {
				err = fmt.Errorf("panic: %v", r)
				line = "panic"
			}
		}()
		err = cu.HandleOptions(args)
	}()
	if line == "panic" {
		return
	}
	if err != nil {
		return "err", cu
	}
	return fmt.Sprintf("ok %s %s %s %s %s %s", featBits(cu.Features()), vl.Hex(cu.NamingStyle().Name()),
		vl.B(effInit(cu)), vl.Hex(cu.GetPackagePrefix()), vl.Hex(cu.Template()), replDump(cu)), cu
}

func opLine(args []string) string {
	parts := make([]string, len(args))
	for i, a := range args {
		parts[i] = vl.Hex(a)
	}
	return "H " + fmt.Sprint(len(args)) + " " + strings.Join(parts, " ")
}

// runCmd takes the command-line path: `thriftgo -g go:<opts> x.thrift` parsed by args.Arguments, Targets()
// (ParseCompactArguments + checkOptions), plugin.Pack, and the backend's HandleOptions on a fresh CodeUtils in the
// same process (the naming-style objects are shared with checkOptions' scratch run, as in the compiler).
func runCmd(g string) (line string, cu *golang.CodeUtils) {
	resetStyles()
	log.SetOutput(io.Discard)
	var params []string
	var err error
	func() {
		defer func() {
			if r := recover(); r != nil {
				err = fmt.Errorf("panic: %v", r)
				line = "panic"
			}
		}()
		var a args.Arguments
		if err = a.Parse([]string{"thriftgo", "-g", g, "x.thrift"}); err != nil {
			return
		}
		specs, e := a.Targets()
		if e != nil {
			err = e
			return
		}
		if len(specs) != 1 || specs[0].Language != "go" {
			err = fmt.Errorf("targets: %d", len(specs))
			return
		}
		params = plugin.Pack(specs[0].Options)
		cu = golang.NewCodeUtils(backend.DummyLogFunc())
		err = cu.HandleOptions(params)
	}()
	if line == "panic" {
		return
	}
	if err != nil {
		return "err", cu
	}
	return fmt.Sprintf("ok %s %s %s %s %s %s", featBits(cu.Features()), vl.Hex(cu.NamingStyle().Name()),
		vl.B(effInit(cu)), vl.Hex(cu.GetPackagePrefix()), vl.Hex(cu.Template()), replDump(cu)), cu
}

// ---------------------------------------------------------------- README

type docRow struct {
	Name    string
	Default *bool
}

func readmeRows(repo string) ([]docRow, error) {
	b, err := os.ReadFile(filepath.Join(repo, "README.md"))
	if err != nil {
		return nil, err
	}
	s := string(b)
	i := strings.Index(s, "### Go backend options")
	if i < 0 {
		return nil, fmt.Errorf("README: Go backend options section not found")
	}
	s = s[i:]
	if j := strings.Index(s[5:], "\n## "); j >= 0 {
		s = s[:j+5]
	}
	re := regexp.MustCompile("(?m)^\\| `([a-z_0-9]+)[^`]*` \\|([^|]*)\\|")
	var rows []docRow
	for _, m := range re.FindAllStringSubmatch(s, -1) {
		r := docRow{Name: m[1]}
		d := strings.TrimSpace(m[2])
		switch d {
		case "**true**", "true":
			t := true
			r.Default = &t
		case "false":
			f := false
			r.Default = &f
		}
		rows = append(rows, r)
	}
	if len(rows) == 0 {
		return nil, fmt.Errorf("README: no option rows parsed")
	}
	return rows, nil
}

// ---------------------------------------------------------------- extract

func extract(repo string) error {
	tab, err := table()
	if err != nil {
		return err
	}
	tags := featureTags()
	idx := func(n string) int {
		for i, t := range tags {
			if t == n {
				return i
			}
		}
		return 9999
	}
	resetStyles()
	cu := golang.NewCodeUtils(backend.DummyLogFunc())
	defs := featBits(cu.Features())
	defStyle := cu.NamingStyle().Name()
	defTpl := cu.Template()
	// behavioural extraction of the initial doInitialisms: what an explicit naming_style leaves behind
	cu2 := golang.NewCodeUtils(backend.DummyLogFunc())
	_ = cu2.HandleOptions([]string{"naming_style=" + defStyle})
	doInit0 := effInit(cu2)
	resetStyles()
	rows, err := readmeRows(repo)
	if err != nil {
		return err
	}
	w := &strings.Builder{}
	p := func(f string, a ...interface{}) { fmt.Fprintf(w, f, a...) }
	p("/- GENERATED by harness/cmd/c20 extract from /repo (Options(), Features tags, defaults, README). Do not edit. -/\n")
	p("import ThriftVerif.Lib.Options\nnamespace Generated.C20\nopen Options\n\n")
	p("def table : List Entry := [\n")
	for i, e := range tab {
		sep := ","
		if i == len(tab)-1 {
			sep = ""
		}
		p("  ⟨%s, %s⟩%s -- %s\n", vl.LeanBytes(e.Name), e.Kind, sep, e.Name)
	}
	p("]\n\n")
	p("def featureNames : List Bytes := [\n")
	for i, n := range tags {
		sep := ","
		if i == len(tags)-1 {
			sep = ""
		}
		p("  %s%s -- %d %s\n", vl.LeanBytes(n), sep, i, n)
	}
	p("]\n\n")
	p("def defaults : List Bool := [")
	for i, c := range defs {
		if i > 0 {
			p(", ")
		}
		p("%s", vl.LeanBool(c == '1'))
	}
	p("]\n\n")
	p("def styles : List Bytes := [")
	for i, n := range styles.NamingStyles() {
		if i > 0 {
			p(", ")
		}
		p("%s", vl.LeanBytes(n))
	}
	p("]\n")
	p("def templates : List Bytes := [")
	for i, n := range templateNames() {
		if i > 0 {
			p(", ")
		}
		p("%s", vl.LeanBytes(n))
	}
	p("]\n\n")
	p("def env : Env := {\n  table := table, defaults := defaults, styles := styles, templates := templates,\n")
	p("  defaultStyle := %s, defaultTemplate := %s, slimName := %s,\n", vl.LeanBytes(defStyle), vl.LeanBytes(defTpl), vl.LeanBytes("slim"))
	p("  thriftLib := %s,\n  doInit0 := %s,\n", vl.LeanBytes(golang.DefaultThriftLib), vl.LeanBool(doInit0))
	p("  iDeepEqual := %d, iApacheWarning := %d, iApacheAdaptor := %d, iWithFieldMask := %d, iWithReflection := %d,\n",
		idx("gen_deep_equal"), idx("apache_warning"), idx("apache_adaptor"), idx("with_field_mask"), idx("with_reflection"))
	p("  iSnake := %d, iLowerCamel := %d, iGenJSON := %d, iAlwaysJSON := %d }\n\n",
		idx("snake_style_json_tag"), idx("lower_camel_style_json_tag"), idx("gen_json_tag"), idx("always_gen_json_tag"))
	// the command-line path (args.checkOptions): the literals it compares with and appends, read from the source
	asrc, err := os.ReadFile(filepath.Join(repo, "args", "args.go"))
	if err != nil {
		return err
	}
	mName := regexp.MustCompile(`opt\.Name == "([a-z_]+)"`).FindSubmatch(asrc)
	mApp := regexp.MustCompile(`append\(opts, plugin\.Option\{Name: "([a-z_]+)", Desc: "([a-z_]+)"\}\)`).FindSubmatch(asrc)
	if mName == nil || mApp == nil || string(mName[1]) != string(mApp[1]) || !strings.Contains(string(asrc), "cu.Features().EnableNestedStruct") {
		return fmt.Errorf("args.checkOptions: the nested-struct template adaptation does not have the expected shape")
	}
	if string(mApp[2]) != "slim" {
		return fmt.Errorf("args.checkOptions appends template %q, the model knows slim", mApp[2])
	}
	// does checkOptions return the error of its scratch HandleOptions (repair 4394ad6) or drop it?
	errReturned := regexp.MustCompile(`if err := cu\.HandleOptions\(params\); err != nil \{\s*return nil, err\s*\}`).Match(asrc)
	if !errReturned && !regexp.MustCompile(`(?m)^\s*cu\.HandleOptions\(params\)\s*$`).Match(asrc) {
		return fmt.Errorf("args.checkOptions: the scratch HandleOptions call has neither known shape")
	}
	p("def cmdEnv : CmdEnv := { iNested := %d, templateName := %s, probeErrReturned := %s }\n\n", idx("enable_nested_struct"), vl.LeanBytes(string(mName[1])), vl.LeanBool(errReturned))
	p("/-- rows of the README option table: name, documented boolean default (none for valued options) -/\n")
	p("def documented : List (Bytes × Option Bool) := [\n")
	for i, r := range rows {
		sep := ","
		if i == len(rows)-1 {
			sep = ""
		}
		d := "none"
		if r.Default != nil {
			d = "some " + vl.LeanBool(*r.Default)
		}
		p("  (%s, %s)%s -- %s\n", vl.LeanBytes(r.Name), d, sep, r.Name)
	}
	p("]\n\nend Generated.C20\n")
	fmt.Print(w.String())
	return nil
}

// ---------------------------------------------------------------- generation

type gen struct {
	r     *vl.Rng
	tab   []tableEntry
	names []string
	out   *vl.Out
	defs  string
	rows  map[string]docRow
}

func (g *gen) emit(args []string, class string) {
	g.emitCmd(args, class)
	impl, cu := runImpl(args)
	g.out.Case(opLine(args), impl, true)
	g.out.Count("class:" + class)
	g.out.Count("outcome:" + strings.SplitN(impl, " ", 2)[0])
	g.out.Count(fmt.Sprintf("len:%d", len(args)))
	if g.out.Evals%997 == 1 {
		g.out.Sample(map[string]interface{}{"args": args, "impl": impl})
	}
	if f := g.oracle(args, impl, cu, false); f != nil {
		// shrink: drop options while the same kind of failure persists
		cur := append([]string(nil), args...)
		for changed := true; changed; {
			changed = false
			for i := range cur {
				cand := append(append([]string(nil), cur[:i]...), cur[i+1:]...)
				ci, ccu := runImpl(cand)
				if f2 := g.oracle(cand, ci, ccu, false); f2 != nil {
					cur, f, changed = cand, f2, true
					break
				}
			}
		}
		g.out.Fail(*f)
	}
}

// emitCmd: the same list through the command line (`-g go:a,b,c`): op `A <hex of the text after "go:">`.
func (g *gen) emitCmd(args []string, class string) {
	text := strings.Join(args, ",")
	impl, cu := runCmd("go:" + text)
	g.out.Case("A "+vl.Hex(text), impl, true)
	g.out.Count("class:cmd-" + class)
	g.out.Count("cmd-outcome:" + strings.SplitN(impl, " ", 2)[0])
	if g.out.Evals%997 == 2 {
		g.out.Sample(map[string]interface{}{"g": "go:" + text, "impl": impl})
	}
	eff := func(l []string) []string { return strings.Split(strings.Join(l, ","), ",") } // what the split on ',' makes of it
	if f := g.oracle(eff(args), impl, cu, true); f != nil {
		cur := append([]string(nil), args...)
		for changed := true; changed && len(cur) > 1; {
			changed = false
			for i := range cur {
				cand := append(append([]string(nil), cur[:i]...), cur[i+1:]...)
				ci, ccu := runCmd("go:" + strings.Join(cand, ","))
				if f2 := g.oracle(eff(cand), ci, ccu, true); f2 != nil {
					cur, f, changed = cand, f2, true
					break
				}
			}
		}
		g.out.Fail(*f)
	}
}

// oracle: the property, stated on the implementation alone (no model):
// for lists made only of documented names with boolean spellings, each boolean feature equals the
// last setting given for its own name, else its documented default (README), the naming style and the
// initialisms switch stay at their documented defaults unless their own options were given; the only
// cross effects are slim => no deep-equal and the documented invalid combinations => error.
// With cmd, args are the options as written after `-g go:` and the documented implication of args.checkOptions
// applies: nested structs switch to the slim template unless a template option is given.
func (g *gen) oracle(args []string, impl string, cu *golang.CodeUtils, cmd bool) (res *vl.OracleFail) {
	fail := func(f vl.OracleFail) {
		if res == nil {
			res = &f
		}
	}
	type setting struct {
		name string
		val  bool
	}
	last := map[string]bool{}
	mustReject := ""
	tpl := "default"
	tplGiven := false
	style := "thriftgo"
	ignoreInit := false
	repl := map[string]string{}
	for _, a := range args {
		parts := strings.SplitN(a, "=", 2)
		name, val := parts[0], ""
		if len(parts) == 2 {
			val = parts[1]
		}
		row, ok := g.rows[name]
		if !ok {
			return nil // not a purely documented list: outside this oracle
		}
		switch name {
		case "template":
			tplGiven = true
			if val != "slim" && val != "raw_struct" && val != "default" {
				if mustReject == "" {
					mustReject = "unknown template " + val
				}
				continue
			}
			tpl = val
			continue
		case "naming_style":
			if val != "golint" && val != "apache" && val != "thriftgo" {
				if mustReject == "" {
					mustReject = "unknown naming style " + val
				}
				continue
			}
			style = val
			continue
		case "thrift_import_path":
			repl[golang.DefaultThriftLib] = val
			continue
		case "package_prefix":
			continue
		case "use_package":
			if !strings.Contains(val, "=") {
				if mustReject == "" {
					mustReject = "use_package without '='"
				}
			} else if mustReject == "" {
				kv := strings.SplitN(val, "=", 2)
				repl[kv[0]] = kv[1]
			}
			continue
		}
		_ = row
		var b bool
		switch val {
		case "", "true":
			b = true
		case "false":
			b = false
		default:
			if mustReject == "" {
				mustReject = "non-boolean value for " + name
			}
			continue
		}
		if name == "ignore_initialisms" {
			ignoreInit = b
			continue
		}
		last[name] = b
	}
	get := func(n string) bool {
		if v, ok := last[n]; ok {
			return v
		}
		if r, ok := g.rows[n]; ok && r.Default != nil {
			return *r.Default
		}
		return false
	}
	invalid := (get("apache_warning") && get("apache_adaptor")) || (get("with_field_mask") && !get("with_reflection")) ||
		(get("snake_style_json_tag") && get("lower_camel_style_json_tag")) || (!get("gen_json_tag") && get("always_gen_json_tag"))
	key := "args:" + strings.Join(args, ",")
	var input interface{} = args
	if cmd {
		key = "cmdline:go:" + strings.Join(args, ",")
		input = map[string]interface{}{"g": "go:" + strings.Join(args, ",")}
		if get("enable_nested_struct") && !tplGiven && mustReject == "" && !invalid {
			tpl = "slim" // README: thriftgo automatically switches to slim if this option is set and no template is specified
		}
	}
	if mustReject != "" {
		if impl != "err" {
			fail(vl.OracleFail{Key: key, What: "option list accepted although it must be rejected: " + mustReject, Input: input, Expected: "error", Observed: impl})
		}
		return res
	}
	if invalid {
		if impl != "err" {
			fail(vl.OracleFail{Key: key, What: "documented invalid combination accepted", Input: input, Expected: "error", Observed: impl})
		}
		return res
	}
	if impl == "err" || impl == "panic" {
		fail(vl.OracleFail{Key: key, What: "valid documented option list rejected", Input: input, Expected: "accepted", Observed: impl})
		return res
	}
	tags := featureTags()
	bits := featBits(cu.Features())
	for i, n := range tags {
		want := get(n)
		if n == "gen_deep_equal" && tpl == "slim" {
			want = false
		}
		if _, documented := g.rows[n]; !documented {
			// undocumented feature (e.g. always_gen_json_tag): must stay at its code default unless named
			if _, named := last[n]; !named {
				want = g.defs[i] == '1'
			}
		}
		if (bits[i] == '1') != want {
			fail(vl.OracleFail{Key: key, What: fmt.Sprintf("feature %s is %v, the option list prescribes %v", n, bits[i] == '1', want),
				Input: input, Expected: want, Observed: bits[i] == '1'})
			return res
		}
	}
	if cu.NamingStyle().Name() != style {
		fail(vl.OracleFail{Key: key, What: "naming style differs from the one given", Input: input, Expected: style, Observed: cu.NamingStyle().Name()})
	}
	if cu.Template() != tpl {
		fail(vl.OracleFail{Key: key, What: "template differs from the one given", Input: input, Expected: tpl, Observed: cu.Template()})
	}
	var kv []string
	for k, v := range repl {
		kv = append(kv, vl.Hex(k)+"="+vl.Hex(v))
	}
	sort.Strings(kv)
	wantRepl := "none"
	if len(kv) > 0 {
		wantRepl = strings.Join(kv, ",")
	}
	if got := replDump(cu); got != wantRepl {
		fail(vl.OracleFail{Key: key, What: "import replacements differ from the use_package / thrift_import_path options given", Input: input, Expected: wantRepl, Observed: got})
	}
	if effInit(cu) != !ignoreInit {
		fail(vl.OracleFail{Key: key, What: fmt.Sprintf("initialisms correction is %v although ignore_initialisms is %v (documented default false)", effInit(cu), ignoreInit),
			Input: input, Expected: !ignoreInit, Observed: effInit(cu)})
	}
	return res
}

func (g *gen) spellings(e tableEntry) []string {
	n := e.Name
	switch n {
	case "thrift_import_path":
		return []string{n + "=example.com/t", n, n + "="}
	case "use_package":
		return []string{n + "=a/b=c/d", n + "=a/b", n, n + "=x=y=z"}
	case "naming_style":
		return []string{n + "=golint", n + "=apache", n + "=thriftgo", n + "=nosuch", n}
	case "package_prefix":
		return []string{n + "=pre/fix", n}
	case "template":
		return []string{n + "=slim", n + "=raw_struct", n + "=default", n + "=nosuch", n}
	}
	return []string{n, n + "=true", n + "=false", n + "=garbage", n + "=", n + "=1", n + "=0", n + "=t", n + "=f", n + "=T", n + "=F",
		n + "=TRUE", n + "=FALSE", n + "=True", n + "=False", n + "=yes", n + "=on", n + "= true", n + "=true "}
}

func (g *gen) randomOpt() string {
	e := g.tab[g.r.Intn(len(g.tab))]
	switch g.r.Intn(12) {
	case 0: // extension of a name
		return e.Name + g.r.Pick([]string{"X", "_slim", "_", "2"}) + g.r.Pick([]string{"", "=true", "=false"})
	case 1: // strict prefix of a name
		k := 1 + g.r.Intn(len(e.Name))
		return e.Name[:k] + g.r.Pick([]string{"", "=true", "=false"})
	case 2:
		return g.r.Pick([]string{"", "=", "=true", "nosuch", "nosuch=1", "Gen_setter", " gen_setter", "gen_setter =true", "gen_setter= true", "gen_setter=TRUE", "gen_setter=1", "gen_setter=true=false"})
	}
	sp := g.spellings(e)
	return sp[g.r.Intn(len(sp))]
}

func run(repo, dir string, seed uint64, tier string) error {
	tab, err := table()
	if err != nil {
		return err
	}
	rows, err := readmeRows(repo)
	if err != nil {
		return err
	}
	resetStyles()
	g := &gen{r: vl.NewRng(seed), tab: tab, out: vl.NewOut(dir), rows: map[string]docRow{}}
	g.defs = featBits(golang.NewCodeUtils(backend.DummyLogFunc()).Features())
	for _, r := range rows {
		g.rows[r.Name] = r
	}
	// exhaustive: empty list, all singles in all spellings
	g.emit(nil, "empty")
	for _, e := range tab {
		for _, s := range g.spellings(e) {
			g.emit([]string{s}, "single")
		}
	}
	// exhaustive: all ordered pairs x {bare,=true,=false} spellings (boolean) / first two valid spellings (valued)
	three := func(e tableEntry) []string {
		sp := g.spellings(e)
		if len(sp) > 3 {
			sp = sp[:3]
		}
		return sp
	}
	for _, a := range tab {
		for _, b := range tab {
			for _, sa := range three(a) {
				for _, sb := range three(b) {
					g.emit([]string{sa, sb}, "pair")
				}
			}
		}
	}
	n := 20000
	if tier == "thorough" {
		n = 1000000
	}
	for i := 0; i < n; i++ {
		l := 1 + g.r.Intn(12)
		args := make([]string, l)
		for j := range args {
			args[j] = g.randomOpt()
		}
		g.emit(args, "random")
	}
	// documented-only random lists (feeds the oracle)
	for i := 0; i < n/4; i++ {
		l := 1 + g.r.Intn(10)
		args := make([]string, l)
		for j := range args {
			e := tab[g.r.Intn(len(tab))]
			sp := g.spellings(e)
			if len(sp) > 3 {
				sp = sp[:3]
			}
			args[j] = sp[g.r.Intn(len(sp))]
		}
		g.emit(args, "documented-random")
	}
	g.out.Close()
	return nil
}

func replay(repo, file string) error {
	b, err := os.ReadFile(file)
	if err != nil {
		return err
	}
	var doc struct {
		Input []string `json:"input"`
	}
	var cdoc struct {
		Input struct {
			G string `json:"g"`
		} `json:"input"`
	}
	if err := json.Unmarshal(b, &doc); err != nil {
		if err2 := json.Unmarshal(b, &cdoc); err2 != nil || !strings.HasPrefix(cdoc.Input.G, "go:") {
			return err
		}
	}
	dir, _ := os.MkdirTemp("", "c20replay")
	defer os.RemoveAll(dir)
	rows, err := readmeRows(repo)
	if err != nil {
		return err
	}
	tab, _ := table()
	g := &gen{r: vl.NewRng(1), tab: tab, out: vl.NewOut(dir), rows: map[string]docRow{}}
	g.defs = featBits(golang.NewCodeUtils(backend.DummyLogFunc()).Features())
	for _, r := range rows {
		g.rows[r.Name] = r
	}
	if cdoc.Input.G != "" {
		g.emitCmd(strings.Split(strings.TrimPrefix(cdoc.Input.G, "go:"), ","), "replay")
	} else {
		g.emit(doc.Input, "replay")
	}
	g.out.Close()
	js, _ := json.Marshal(g.out.Oracle)
	fmt.Println(string(js))
	return nil
}

func main() {
	repo := flag.String("repo", "/repo", "")
	dir := flag.String("dir", ".", "")
	seed := flag.Uint64("seed", 1, "")
	tier := flag.String("tier", "quick", "")
	file := flag.String("file", "", "")
	if len(os.Args) < 2 {
		fmt.Fprintln(os.Stderr, "usage: c20 extract|run|replay [flags]")
		os.Exit(3)
	}
	flag.CommandLine.Parse(os.Args[2:])
	var err error
	switch os.Args[1] {
	case "extract":
		err = extract(*repo)
	case "run":
		err = run(*repo, *dir, *seed, *tier)
	case "replay":
		err = replay(*repo, *file)
	default:
		err = fmt.Errorf("usage: c20 extract|run|replay")
	}
	if err != nil {
		fmt.Fprintln(os.Stderr, "c20:", err)
		os.Exit(3)
	}
}
