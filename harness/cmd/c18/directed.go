package main

import (
	"fmt"
	"strings"

	"verifharness/internal/idlgen"
	"verifharness/internal/values"
	"verifharness/internal/vl"
)

// The DIRECTED program: the smallest types on which the known defects show, plus one struct with every field
// shape the templates distinguish. It is part of every run (whatever the seed), so the minimal witnesses
// below are replayed on the implementation every time and give the defects their seed-independent keys.

func ty(k idlgen.Kind) *idlgen.Type { return &idlgen.Type{Kind: k} }
func named(n string) *idlgen.Type  { return &idlgen.Type{Kind: idlgen.Named, Named: &idlgen.NamedRef{File: 0, Name: n}} }
func listOf(e *idlgen.Type) *idlgen.Type { return &idlgen.Type{Kind: idlgen.List, Elem: e} }
func setOf(e *idlgen.Type) *idlgen.Type  { return &idlgen.Type{Kind: idlgen.Set, Elem: e} }
func mapOf(k, v *idlgen.Type) *idlgen.Type {
	return &idlgen.Type{Kind: idlgen.Map, Key: k, Elem: v}
}

func fld(id int16, req idlgen.Req, t *idlgen.Type, name string) *idlgen.Field {
	return &idlgen.Field{ID: id, HasID: true, Name: name, Req: req, Type: t}
}

func directedProgram() *idlgen.Program {
	i32, str, bin, dbl := ty(idlgen.I32), ty(idlgen.String), ty(idlgen.Binary), ty(idlgen.Double)
	f := &idlgen.File{Path: "d.thrift", GoNS: "dirc"}
	f.Enums = []*idlgen.Enum{{Name: "E", Values: []idlgen.EnumValue{{Name: "A", Value: 0}, {Name: "B", Value: 1}}}}
	withDefault := fld(3, idlgen.Optional, i32, "odf")
	withDefault.Default = &idlgen.Const{Kind: idlgen.CInt, Text: "5", Val: values.Int(5)}
	f.Structs = []*idlgen.Struct{
		{Kind: 's', Name: "K", Fields: []*idlgen.Field{fld(1, idlgen.Default, i32, "x")}},                                 // 0
		{Kind: 's', Name: "D0", Fields: []*idlgen.Field{fld(1, idlgen.Default, mapOf(i32, i32), "m")}},                    // 1
		{Kind: 's', Name: "D1", Fields: []*idlgen.Field{fld(1, idlgen.Default, mapOf(named("K"), i32), "m")}},             // 2
		{Kind: 's', Name: "D2", Fields: []*idlgen.Field{fld(1, idlgen.Optional, bin, "b")}},                               // 3
		{Kind: 's', Name: "D3", Fields: []*idlgen.Field{fld(1, idlgen.Default, setOf(mapOf(i32, i32)), "s")}},             // 4
		{Kind: 's', Name: "D4", Fields: []*idlgen.Field{fld(1, idlgen.Default, listOf(i32), "l"), fld(2, idlgen.Default, setOf(named("K")), "sk")}}, // 5
		{Kind: 'u', Name: "U", Fields: []*idlgen.Field{fld(1, idlgen.Default, i32, "a"), fld(2, idlgen.Default, str, "b")}}, // 6
		{Kind: 's', Name: "All", Fields: []*idlgen.Field{ // 7
			fld(1, idlgen.Default, i32, "a"), fld(2, idlgen.Optional, i32, "oa"), withDefault,
			fld(4, idlgen.Default, str, "s"), fld(5, idlgen.Optional, str, "os"),
			fld(6, idlgen.Default, bin, "b"), fld(7, idlgen.Optional, bin, "ob"),
			fld(8, idlgen.Default, dbl, "d"), fld(9, idlgen.Optional, dbl, "od"),
			fld(10, idlgen.Default, named("E"), "e"), fld(11, idlgen.Optional, named("E"), "oe"),
			fld(12, idlgen.Default, named("K"), "k"), fld(13, idlgen.Optional, named("K"), "ok"),
			fld(14, idlgen.Default, listOf(i32), "li"), fld(15, idlgen.Optional, listOf(i32), "oli"),
			fld(16, idlgen.Default, setOf(str), "ss"),
			fld(17, idlgen.Default, mapOf(str, named("K")), "msk"),
			fld(18, idlgen.Default, mapOf(named("K"), named("K")), "mkk"),
			fld(19, idlgen.Default, listOf(listOf(named("K"))), "llk"),
			fld(20, idlgen.Default, mapOf(bin, bin), "mbb"),
			fld(21, idlgen.Default, setOf(listOf(dbl)), "sld"),
			fld(22, idlgen.Default, mapOf(i32, mapOf(i32, listOf(bin))), "deep"),
			fld(23, idlgen.Required, ty(idlgen.Bool), "rb"),
			fld(24, idlgen.Default, named("U"), "u"),
			fld(25, idlgen.Default, mapOf(dbl, setOf(i32)), "mds"),
			fld(26, idlgen.Optional, named("All"), "rec"),
		}},
		{Kind: 's', Name: "D5", Fields: []*idlgen.Field{ // 8: containers of struct-typed elements (aliasing, nil elements)
			fld(1, idlgen.Default, listOf(named("K")), "l"), fld(2, idlgen.Default, mapOf(str, named("K")), "m"),
			fld(3, idlgen.Default, listOf(listOf(named("K"))), "ll"), fld(4, idlgen.Default, listOf(named("U")), "lu"),
			fld(5, idlgen.Default, setOf(named("K")), "sk"),
		}},
		// 9, 10: fields named like the generated helpers and methods (scope_internal.go reserves Field<id>DeepEqual, DeepEqual,
		// Get*/IsSet*): they must be renamed (trailing underscore), the package must compile, DeepEqual must still be
		// structural equality
		{Kind: 's', Name: "N0", Fields: []*idlgen.Field{
			fld(1, idlgen.Default, i32, "field1_deep_equal"), fld(2, idlgen.Optional, str, "Field3DeepEqual"),
			fld(3, idlgen.Default, listOf(i32), "field2_deep_equal"), fld(4, idlgen.Default, i32, "deep_equal"),
			fld(5, idlgen.Optional, i32, "DeepEqual"), fld(6, idlgen.Optional, i32, "x"),
			fld(7, idlgen.Default, ty(idlgen.Bool), "is_set_x"), fld(8, idlgen.Default, str, "get_x"),
			fld(9, idlgen.Default, mapOf(i32, i32), "field9_deep_equal"), fld(10, idlgen.Default, named("K"), "field7_deep_equal"),
			fld(11, idlgen.Optional, named("K"), "Field11DeepEqual"),
		}},
		{Kind: 'u', Name: "NU", Fields: []*idlgen.Field{fld(1, idlgen.Default, i32, "field2_deep_equal"), fld(2, idlgen.Default, str, "Field1DeepEqual")}},
	}
	return &idlgen.Program{Files: []*idlgen.File{f}}
}

// helperLikeNames renames some fields of some structs of a generated program to names that collide with the methods
// thriftgo generates for the struct (Field<N>DeepEqual for N among the struct's own ids and others, DeepEqual, Get<F>,
// IsSet<F>). Only for programs generated WITHOUT struct literals (a literal refers to fields by name).
func helperLikeNames(r *vl.Rng, p *idlgen.Program, count func(string)) {
	for _, f := range p.Files {
		for _, st := range f.Structs {
			if len(st.Fields) == 0 || !r.Chance(60) {
				continue
			}
			used := map[string]bool{}
			for _, fd := range st.Fields {
				used[fd.Name] = true
			}
			for n := 0; n < 3; n++ {
				fd := st.Fields[r.Intn(len(st.Fields))]
				other := st.Fields[r.Intn(len(st.Fields))]
				id := int(other.ID)
				if id < 0 {
					id = -id
				}
				if r.Chance(30) {
					id = 1 + r.Intn(12)
				}
				var name, kind string
				switch r.Intn(6) {
				case 0:
					name, kind = fmt.Sprintf("field%d_deep_equal", id), "field<N>_deep_equal"
				case 1:
					name, kind = fmt.Sprintf("Field%dDeepEqual", id), "Field<N>DeepEqual"
				case 2:
					name, kind = "deep_equal", "deep_equal"
				case 3:
					name, kind = "DeepEqual", "DeepEqual"
				case 4:
					name, kind = "is_set_"+other.Name, "is_set_<f>"
				case 5:
					name, kind = "get_"+other.Name, "get_<f>"
				}
				if used[name] || other == fd && (strings.HasPrefix(name, "is_set_") || strings.HasPrefix(name, "get_")) {
					continue
				}
				used[name] = true
				delete(used, fd.Name)
				fd.Name = name
				count("helper-like-name." + kind)
			}
		}
	}
}

// directedValueProgram: no container holds a struct, so `value_type_in_container,gen_deep_equal` compiles (BATCH-notes D14)
// and must behave exactly like gen_deep_equal alone.
func directedValueProgram() *idlgen.Program {
	i32, str, bin, dbl := ty(idlgen.I32), ty(idlgen.String), ty(idlgen.Binary), ty(idlgen.Double)
	f := &idlgen.File{Path: "v.thrift", GoNS: "dirv"}
	f.Structs = []*idlgen.Struct{
		{Kind: 's', Name: "VK", Fields: []*idlgen.Field{fld(1, idlgen.Default, i32, "x"), fld(2, idlgen.Optional, str, "s")}},
		{Kind: 's', Name: "V0", Fields: []*idlgen.Field{
			fld(1, idlgen.Default, listOf(i32), "l"), fld(2, idlgen.Default, mapOf(str, listOf(dbl)), "m"),
			fld(3, idlgen.Default, named("VK"), "k"), fld(4, idlgen.Optional, named("VK"), "ok"),
			fld(5, idlgen.Default, setOf(bin), "sb"), fld(6, idlgen.Default, mapOf(i32, mapOf(i32, i32)), "mm"),
			fld(7, idlgen.Optional, bin, "ob"), fld(8, idlgen.Default, setOf(listOf(i32)), "sl"),
		}},
	}
	return &idlgen.Program{Files: []*idlgen.File{f}}
}

const (
	dK = iota
	dD0
	dD1
	dD2
	dD3
	dD4
	dU
	dAll
	dD5
	dN0
	dNU
)

type witness struct {
	sidx int
	op   string // "E", "ES" or "W"
	x, y *values.Value
	note string
}

func i(n int64) *values.Value { return values.Int(n) }

// n0 is a value of N0 with field 1 = a and field 9 = {1: b}
func n0(a, b int64) *values.Value {
	n := values.Nil
	return values.Record(i(a), n(), values.List(i(3)), i(4), n(), i(6), values.Bool(true), values.Str("g"), values.Map(i(1), i(b)), values.Record(i(7)), n())
}

// directedWitnesses: minimal inputs of the suspected defects first, then boundary pairs that must be fine.
func directedWitnesses() []witness {
	R := values.Record
	M := values.Map
	k := func(n int64) *values.Value { return R(i(n)) }
	L := values.List
	n := values.Nil
	return []witness{
		// DESIGN §7: {1:0} vs {2:0}: equal length, the missing key reads as the zero value
		{dD0, "E", R(M(i(1), i(0))), R(M(i(2), i(0))), "map<i32,i32> {1:0} vs {2:0}"},
		// the asymmetric residue: {1:0} vs {2:5}
		{dD0, "E", R(M(i(1), i(0))), R(M(i(2), i(5))), "map<i32,i32> {1:0} vs {2:5} (asymmetric)"},
		// struct-typed map keys are pointers: a deep copy is not found
		{dD1, "E", R(M(k(1), i(7))), R(M(k(1), i(7))), "map<K,i32> {K{1}:7} vs its deep copy"},
		{dD1, "E", R(M(k(1), i(0))), R(M(k(2), i(0))), "map<K,i32> {K{1}:0} vs {K{2}:0}"},
		// optional binary: unset vs set-to-empty
		{dD2, "E", R(values.Nil()), R(&values.Value{K: values.KBytes, X: []byte{}}), "optional binary: unset vs empty"},
		// validate_set through the same comparison: two different maps taken for duplicates
		{dD3, "W", R(values.Set(M(i(1), i(0)), M(i(2), i(0)))), nil, "set<map<i32,i32>> [{1:0},{2:0}]"},
		// fine on the current tree
		{dD0, "E", R(M(i(1), i(0))), R(M(i(1), i(0))), "equal maps"},
		{dD0, "E", R(M(i(1), i(3))), R(M(i(2), i(3))), "same size, other key, non-zero value"},
		{dD0, "E", R(values.Nil()), R(M()), "nil vs empty map"},
		{dD0, "E", R(M(i(1), i(0))), R(M(i(1), i(0), i(2), i(0))), "map size"},
		{dD1, "E", R(values.Nil()), R(M()), "nil vs empty struct-keyed map"},
		{dD2, "E", R(values.Nil()), R(values.Nil()), "both unset"},
		{dD2, "E", R(values.Str("a")), R(values.Str("a")), "optional binary equal"},
		{dD3, "W", R(values.Set(M(i(1), i(0)), M(i(1), i(0)))), nil, "set with a true duplicate"},
		{dD3, "W", R(values.Set(M(i(1), i(1)), M(i(1), i(2)))), nil, "set without duplicates"},
		{dD4, "E", R(values.List(i(1), i(2)), values.Nil()), R(values.List(i(1)), values.Nil()), "list length"},
		{dD4, "E", R(values.List(i(1), i(2)), values.Nil()), R(values.List(i(2), i(1)), values.Nil()), "list order"},
		{dD4, "E", R(values.Nil(), values.Set(k(1))), R(values.Nil(), values.Set(k(1))), "set<K> equal"},
		{dD4, "W", R(values.Nil(), values.Set(k(1), k(1))), nil, "set<K> duplicate"},
		{dD4, "W", R(values.Nil(), values.Set(k(1), k(2))), nil, "set<K> distinct"},
		// elements that are the same pointer (ES) or nil on both sides, followed by a differing element: the comparison
		// must go on after the first element pair
		{dD5, "ES", R(L(k(1), k(2)), n(), n(), n(), n()), R(L(k(1), k(3)), n(), n(), n(), n()), "list<K> [shared,{2}] vs [shared,{3}]"},
		{dD5, "E", R(L(n(), k(2)), n(), n(), n(), n()), R(L(n(), k(3)), n(), n(), n(), n()), "list<K> [nil,{2}] vs [nil,{3}]"},
		{dD5, "ES", R(n(), n(), L(L(k(1)), L(k(7))), n(), n()), R(n(), n(), L(L(k(1)), L(k(8))), n(), n()), "list<list<K>> [[shared],[{7}]] vs [[shared],[{8}]]"},
		{dD5, "ES", R(n(), n(), n(), L(R(i(5), n()), R(i(1), n())), n()), R(n(), n(), n(), L(R(i(5), n()), R(i(2), n())), n()), "list<U> [shared,{a:1}] vs [shared,{a:2}]"},
		{dD5, "ES", R(n(), M(values.Str("a"), k(1), values.Str("b"), k(2)), n(), n(), n()), R(n(), M(values.Str("a"), k(1), values.Str("b"), k(3)), n(), n(), n()), "map<string,K> {a:shared,b:{2}} vs {a:shared,b:{3}}"},
		{dD5, "ES", R(n(), n(), n(), n(), values.Set(k(1), k(2))), R(n(), n(), n(), n(), values.Set(k(1), k(3))), "set<K> [shared,{2}] vs [shared,{3}]"},
		{dD5, "ES", R(L(k(1), k(2)), n(), n(), n(), n()), R(L(k(1), k(2)), n(), n(), n(), n()), "list<K> all shared"},
		// fields named like the generated helpers
		{dN0, "E", n0(1, 5), n0(1, 5), "helper-like field names: equal"},
		{dN0, "E", n0(1, 5), n0(2, 5), "helper-like field names: field1_deep_equal differs"},
		{dN0, "E", n0(1, 5), n0(1, 6), "helper-like field names: field9_deep_equal differs"},
		{dNU, "E", R(i(1), n()), R(i(2), n()), "helper-like member names (union)"},
	}
}
