package main

import (
	"verifharness/internal/idlgen"
	"verifharness/internal/values"
	"verifharness/internal/vl"
)

// A site is one node of a (cloned) value tree together with its static context; set replaces the node.
type site struct {
	t     *idlgen.RType
	f     *idlgen.SField // non-nil: the node is a field slot
	v     *values.Value
	set   func(*values.Value)
	inKey bool // inside a map key or set element (Go equality matters; no NaN, no nil)
	depth int
	// map context (the node is a map): nothing extra. For an entry value: parent map and pair index
}

func walk(s *idlgen.Schema, t *idlgen.RType, f *idlgen.SField, v *values.Value, set func(*values.Value), inKey bool, depth int, out *[]site) {
	*out = append(*out, site{t: t, f: f, v: v, set: set, inKey: inKey, depth: depth})
	if v.IsNil() {
		return
	}
	switch t.Kind {
	case idlgen.RStruct:
		st := s.Structs[t.Sidx]
		for i, fd := range st.Fields {
			i := i
			walk(s, fd.Type, fd, v.E[i], func(x *values.Value) { v.E[i] = x }, inKey, depth+1, out)
		}
	case idlgen.RList, idlgen.RSet:
		for i := range v.E {
			i := i
			walk(s, t.Elem, nil, v.E[i], func(x *values.Value) { v.E[i] = x }, inKey || t.Kind == idlgen.RSet, depth+1, out)
		}
	case idlgen.RMap:
		for i := 0; i+1 < len(v.E); i += 2 {
			i := i
			walk(s, t.Key, nil, v.E[i], func(x *values.Value) { v.E[i] = x }, true, depth+1, out)
			walk(s, t.Elem, nil, v.E[i+1], func(x *values.Value) { v.E[i+1] = x }, inKey, depth+1, out)
		}
	}
}

func sites(s *idlgen.Schema, sidx int, root *values.Value) []site {
	var out []site
	st := s.Structs[sidx]
	for i, fd := range st.Fields {
		i := i
		walk(s, fd.Type, fd, root.E[i], func(x *values.Value) { root.E[i] = x }, false, 1, &out)
	}
	return out
}

func pick(r *vl.Rng, ss []site, ok func(site) bool) *site {
	var c []int
	for i := range ss {
		if ok(ss[i]) {
			c = append(c, i)
		}
	}
	if len(c) == 0 {
		return nil
	}
	return &ss[c[r.Intn(len(c))]]
}

// otherLeaf returns a value of base type t that differs from v under the specification.
func otherLeaf(r *vl.Rng, t *idlgen.RType, v *values.Value) *values.Value {
	switch t.Kind {
	case idlgen.RBool:
		return values.Bool(!v.B)
	case idlgen.RByte:
		return values.Int(int64(int8(v.I + 1)))
	case idlgen.RI16:
		return values.Int(int64(int16(v.I + 1)))
	case idlgen.RI32, idlgen.REnum:
		return values.Int(int64(int32(v.I + 1 + int64(r.Intn(3)))))
	case idlgen.RI64:
		return values.Int(v.I + 1)
	case idlgen.RDouble:
		for _, b := range []uint64{0x3ff0000000000000, 0x4004000000000000, 0} {
			if !dblEq(b, v.D) {
				return values.Double(b)
			}
		}
	case idlgen.RString, idlgen.RBinary:
		x := append(append([]byte{}, v.X...), byte('a'+r.Intn(26)))
		if len(v.X) > 0 && r.Bool() {
			x = append([]byte{}, v.X...)
			x[r.Intn(len(x))] ^= 1 << uint(r.Intn(7))
		}
		return values.Bytes(x)
	}
	return values.Int(v.I + 1)
}

func baseValue(r *vl.Rng, t *idlgen.RType) *values.Value {
	switch t.Kind {
	case idlgen.RBool:
		return values.Bool(r.Bool())
	case idlgen.RByte:
		return values.Int(int64(int8(r.U64())))
	case idlgen.RI16:
		return values.Int(int64(int16(r.U64())))
	case idlgen.RI32, idlgen.REnum:
		return values.Int(int64(int32(r.U64())))
	case idlgen.RI64:
		return values.Int(int64(r.U64()))
	case idlgen.RDouble:
		return values.Double(0x3ff0000000000000 + uint64(r.Intn(1000))<<40)
	case idlgen.RString, idlgen.RBinary:
		n := 1 + r.Intn(4)
		x := make([]byte, n)
		for i := range x {
			x[i] = byte('a' + r.Intn(26))
		}
		return values.Bytes(x)
	}
	return nil
}

// freshKey returns a key of base type t that no entry of m has (nil: none found).
func freshKey(r *vl.Rng, t *idlgen.RType, m *values.Value) *values.Value {
	for try := 0; try < 20; try++ {
		k := baseValue(r, t)
		if k != nil && index(m, k) == nil {
			return k
		}
	}
	return nil
}

func emptyOf(t *idlgen.RType) *values.Value {
	switch t.Kind {
	case idlgen.RSet:
		return &values.Value{K: values.KSet, E: []*values.Value{}}
	case idlgen.RMap:
		return &values.Value{K: values.KMap, E: []*values.Value{}}
	case idlgen.RBinary, idlgen.RString:
		return &values.Value{K: values.KBytes, X: []byte{}}
	}
	return &values.Value{K: values.KList, E: []*values.Value{}}
}

func nillableSlot(s site) bool {
	if s.f != nil {
		return s.f.Nillable()
	}
	return s.t.IsContainer() || s.t.Kind == idlgen.RBinary || s.t.Kind == idlgen.RStruct
}

// mutation kinds
const (
	mLeaf = iota
	mNilEmpty
	mPresence
	mMapSize
	mMapKey
	mMapKeyZero
	mListLen
	mKinds
)

var kindNames = [...]string{"leaf", "nil-vs-empty", "presence", "map-size", "map-key", "map-key-zero", "list-len"}

// mutate returns a pair (x, y) derived from v by one mutation of the given kind, or ok=false when v offers
// no site for it. x is v itself except for mMapKeyZero (which also zeroes the value under the exchanged key).
func mutate(r *vl.Rng, s *idlgen.Schema, sidx int, v *values.Value, kind int, nilElems bool) (x, y *values.Value, depth int, ok bool) {
	x = v.Clone()
	y = v.Clone()
	ys := sites(s, sidx, y)
	switch kind {
	case mLeaf:
		st := pick(r, ys, func(c site) bool { return c.t.IsBase() && !c.v.IsNil() })
		if st == nil {
			return nil, nil, 0, false
		}
		n := otherLeaf(r, st.t, st.v)
		if st.inKey {
			// keep Go-map invariants simple: a changed key must stay distinct from its siblings; taken care of by
			// the caller's well-formedness filter (wfKeys)
		}
		st.set(n)
		depth = st.depth
	case mNilEmpty:
		st := pick(r, ys, func(c site) bool {
			if !(c.t.IsContainer() || c.t.Kind == idlgen.RBinary) || c.inKey || lenOf(c.v) != 0 {
				return false
			}
			if c.f == nil && c.t.Kind == idlgen.RBinary && !nilElems {
				return false
			}
			return true
		})
		if st == nil {
			return nil, nil, 0, false
		}
		if st.v.IsNil() {
			st.set(emptyOf(st.t))
		} else {
			st.set(values.Nil())
		}
		depth = st.depth
	case mPresence:
		st := pick(r, ys, func(c site) bool {
			return c.f != nil && c.f.Req == idlgen.Optional && c.f.Nillable() && !c.t.IsContainer()
		})
		if st == nil {
			return nil, nil, 0, false
		}
		if st.v.IsNil() {
			switch {
			case st.t.Kind == idlgen.RStruct:
				st.set(s.Structs[st.t.Sidx].Zero())
			case st.t.Kind == idlgen.RBinary:
				st.set(emptyOf(st.t))
			default:
				st.set(idlgen.ZeroOf(st.t)) // set to the zero value: presence is the only difference
			}
		} else {
			st.set(values.Nil())
		}
		depth = st.depth
	case mMapSize:
		st := pick(r, ys, func(c site) bool { return c.t.Kind == idlgen.RMap && !c.inKey && (lenOf(c.v) > 0 || c.t.Key.IsBase()) })
		if st == nil {
			return nil, nil, 0, false
		}
		m := st.v
		if m.IsNil() {
			m = emptyOf(st.t)
		}
		if lenOf(m) > 0 && (r.Bool() || !st.t.Key.IsBase()) {
			i := r.Intn(m.NPairs())
			n := &values.Value{K: values.KMap, E: append(append([]*values.Value{}, m.E[:2*i]...), m.E[2*i+2:]...)}
			st.set(n)
		} else {
			k := freshKey(r, st.t.Key, m)
			if k == nil {
				return nil, nil, 0, false
			}
			var val *values.Value
			if lenOf(m) > 0 && r.Bool() {
				val = m.Val(r.Intn(m.NPairs())).Clone()
			} else {
				val = idlgen.ZeroOf(st.t.Elem) // the added entry holds the zero value
				if val.IsNil() && st.t.Elem.Kind == idlgen.RStruct && !nilElems {
					val = s.Structs[st.t.Elem.Sidx].Zero()
				}
				if val.IsNil() && st.t.Elem.Kind == idlgen.RBinary && !nilElems {
					val = emptyOf(st.t.Elem)
				}
			}
			n := &values.Value{K: values.KMap, E: append(append([]*values.Value{}, m.E...), k, val)}
			st.set(n)
		}
		depth = st.depth
	case mMapKey, mMapKeyZero:
		// same size, one key exchanged for a fresh one; mMapKeyZero also puts the zero value under it (both sides)
		xs := sites(s, sidx, x)
		var idx []int
		for i := range ys {
			c := ys[i]
			if c.t.Kind == idlgen.RMap && !c.inKey && lenOf(c.v) > 0 && c.t.Key.IsBase() {
				idx = append(idx, i)
			}
		}
		if len(idx) == 0 {
			return nil, nil, 0, false
		}
		i := idx[r.Intn(len(idx))]
		my, mx := ys[i].v, xs[i].v
		k := freshKey(r, ys[i].t.Key, my)
		if k == nil {
			return nil, nil, 0, false
		}
		j := r.Intn(my.NPairs())
		my.E[2*j] = k
		if kind == mMapKeyZero {
			z := idlgen.ZeroOf(ys[i].t.Elem)
			if z.IsNil() && ys[i].t.Elem.Kind == idlgen.RBinary && !nilElems {
				z = emptyOf(ys[i].t.Elem)
			}
			if z.IsNil() && ys[i].t.Elem.Kind == idlgen.RStruct && !nilElems {
				return nil, nil, 0, false
			}
			my.E[2*j+1] = z.Clone()
			mx.E[2*j+1] = z.Clone()
			if r.Bool() {
				// every value zero: the comparison cannot see any difference in either direction
				for p := 0; p < my.NPairs(); p++ {
					my.E[2*p+1] = z.Clone()
					mx.E[2*p+1] = z.Clone()
				}
			}
		}
		depth = ys[i].depth
	case mListLen:
		st := pick(r, ys, func(c site) bool { return (c.t.Kind == idlgen.RList) && !c.inKey && lenOf(c.v) > 0 })
		if st == nil {
			return nil, nil, 0, false
		}
		m := st.v
		if r.Bool() {
			i := r.Intn(len(m.E))
			st.set(&values.Value{K: m.K, E: append(append([]*values.Value{}, m.E[:i]...), m.E[i+1:]...)})
		} else if len(m.E) > 1 && r.Bool() {
			// same elements, two of them swapped
			n := &values.Value{K: m.K, E: append([]*values.Value{}, m.E...)}
			i, j := r.Intn(len(n.E)), r.Intn(len(n.E))
			n.E[i], n.E[j] = n.E[j], n.E[i]
			st.set(n)
		} else {
			st.set(&values.Value{K: m.K, E: append(append([]*values.Value{}, m.E...), m.E[r.Intn(len(m.E))].Clone())})
		}
		depth = st.depth
	}
	return x, y, depth, true
}

// wfKeys: every map of the value has pairwise distinct keys under Go's == (struct keys are pointers: always
// distinct) and every set's base-typed... sets are slices: no constraint. A mutated value that breaks this
// cannot be built as a Go map faithfully (entries would collapse), so such pairs are dropped.
func wfKeys(s *idlgen.Schema, t *idlgen.RType, v *values.Value) bool {
	if v.IsNil() {
		return true
	}
	switch t.Kind {
	case idlgen.RStruct:
		for i, f := range s.Structs[t.Sidx].Fields {
			if !wfKeys(s, f.Type, v.E[i]) {
				return false
			}
		}
	case idlgen.RList, idlgen.RSet:
		for _, e := range v.E {
			if !wfKeys(s, t.Elem, e) {
				return false
			}
		}
	case idlgen.RMap:
		for i := 0; i < v.NPairs(); i++ {
			if t.Key.Kind != idlgen.RStruct {
				if hasNaN(v.Key(i)) {
					return false
				}
				for j := 0; j < i; j++ {
					if keyEqGo(v.Key(i), v.Key(j)) {
						return false
					}
				}
			}
			if !wfKeys(s, t.Key, v.Key(i)) || !wfKeys(s, t.Elem, v.Val(i)) {
				return false
			}
		}
	}
	return true
}

// dupSet returns a copy of v in which one set (at any depth, reached through written fields or not) repeats one
// of its elements; ok=false when v holds no non-empty set.
func dupSet(r *vl.Rng, s *idlgen.Schema, sidx int, v *values.Value) (*values.Value, *idlgen.RType, *values.Value, bool) {
	y := v.Clone()
	st := pick(r, sites(s, sidx, y), func(c site) bool { return c.t.Kind == idlgen.RSet && !c.inKey && lenOf(c.v) > 0 })
	if st == nil {
		return nil, nil, nil, false
	}
	m := st.v
	e := m.E[r.Intn(len(m.E))].Clone()
	pos := r.Intn(len(m.E) + 1)
	n := &values.Value{K: m.K, E: append(append(append([]*values.Value{}, m.E[:pos]...), e), m.E[pos:]...)}
	st.set(n)
	return y, st.t.Elem, e, true
}

// laterElement returns (x, y): in one list / set / map (base-typed keys) of struct-typed elements with at least two
// elements, y differs from x in ONE leaf of an element that is not the first; every element before it is equal on both
// sides (and, with nilLead, nil on both sides). Shared through op ES the equal elements become the same pointer.
func laterElement(r *vl.Rng, s *idlgen.Schema, sidx int, v *values.Value, nilLead bool) (x, y *values.Value, ok bool) {
	x = v.Clone()
	y = v.Clone()
	xs, ys := sites(s, sidx, x), sites(s, sidx, y)
	var idx []int
	for i := range ys {
		c := ys[i]
		if c.inKey || c.v.IsNil() || c.t.Elem == nil || c.t.Elem.Kind != idlgen.RStruct {
			continue
		}
		if c.t.Kind == idlgen.RMap && c.t.Key.Kind == idlgen.RStruct {
			continue
		}
		if lenOf(c.v) >= 2 {
			idx = append(idx, i)
		}
	}
	if len(idx) == 0 {
		return nil, nil, false
	}
	i := idx[r.Intn(len(idx))]
	cy, cx := ys[i], xs[i]
	n := lenOf(cy.v)
	elem := func(c site, j int) (*values.Value, func(*values.Value)) {
		if c.t.Kind == idlgen.RMap {
			return c.v.E[2*j+1], func(n *values.Value) { c.v.E[2*j+1] = n }
		}
		return c.v.E[j], func(n *values.Value) { c.v.E[j] = n }
	}
	for try := 0; try < 8; try++ {
		j := 1 + r.Intn(n-1)
		ey, _ := elem(cy, j)
		if ey.IsNil() {
			continue
		}
		var leaves []site
		walk(s, cy.t.Elem, nil, ey, func(*values.Value) {}, false, 0, &leaves)
		st := pick(r, leaves[1:], func(c site) bool { return c.t.IsBase() && !c.v.IsNil() && !c.inKey })
		if st == nil {
			continue
		}
		st.set(otherLeaf(r, st.t, st.v))
		if nilLead {
			if cy.t.Kind == idlgen.RSet {
				return nil, nil, false
			}
			for p := 0; p < j; p++ {
				_, sy := elem(cy, p)
				_, sx := elem(cx, p)
				sy(values.Nil())
				sx(values.Nil())
			}
		}
		return x, y, true
	}
	return nil, nil, false
}

// dropZeroSizeKeys empties (in place) every map whose KEY type is a struct without fields. Such a key is a pointer to a
// zero-size object, and Go leaves it unspecified whether pointers to distinct zero-size variables are equal (the runtime
// gives them all one address): whether `src[k]` finds the key of a deep copy is then the Go runtime's choice, not
// thriftgo's. These values are kept out of the correspondence and the oracle. Returns the number of maps emptied.
func dropZeroSizeKeys(s *idlgen.Schema, t *idlgen.RType, v *values.Value) int {
	if v.IsNil() {
		return 0
	}
	n := 0
	switch t.Kind {
	case idlgen.RStruct:
		for i, f := range s.Structs[t.Sidx].Fields {
			n += dropZeroSizeKeys(s, f.Type, v.E[i])
		}
	case idlgen.RList, idlgen.RSet:
		for _, e := range v.E {
			n += dropZeroSizeKeys(s, t.Elem, e)
		}
	case idlgen.RMap:
		if t.Key.Kind == idlgen.RStruct && len(s.Structs[t.Key.Sidx].Fields) == 0 && len(v.E) > 0 {
			v.E = []*values.Value{}
			return 1
		}
		for i := 0; i < v.NPairs(); i++ {
			n += dropZeroSizeKeys(s, t.Key, v.Key(i)) + dropZeroSizeKeys(s, t.Elem, v.Val(i))
		}
	}
	return n
}
