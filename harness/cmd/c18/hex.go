package main

import "encoding/hex"

func hexDecode(s string) ([]byte, error) { return hex.DecodeString(s) }
func hexEncode(b []byte) string         { return hex.EncodeToString(b) }
