package main

import (
	"bytes"
	"math"

	"verifharness/internal/idlgen"
	"verifharness/internal/refcodec"
	"verifharness/internal/values"
)

// ---------------------------------------------------------------------------------------------------------
// The ORACLE: structural equality of two Go objects of an IDL type, written from the property's wording
// (not from the template), the Go twin of Lean `Gen.DeepEq.valEq` (the two are compared line by line through
// the `V` op): per field; lists/sets element-wise; maps key-wise (same size, same key set, equal values);
// nil and empty containers / byte strings alike; an unset optional scalar or struct differs from every set
// one; doubles by Go `==`.
// ---------------------------------------------------------------------------------------------------------

// shared: op ES — struct-typed container elements with identical descriptions are ONE object on both sides
type spec struct {
	s      *idlgen.Schema
	shared bool
}

// sharedElem mirrors the driver's / the model's sharing rule.
func sharedElem(et *idlgen.RType, a, b *values.Value) bool {
	return et.Kind == idlgen.RStruct && !a.IsNil() && !b.IsNil() && a.String() == b.String()
}

func isNil(v *values.Value) bool { return v.IsNil() }

func lenOf(v *values.Value) int {
	if v.IsNil() {
		return 0
	}
	switch v.K {
	case values.KList, values.KSet:
		return len(v.E)
	case values.KMap:
		return len(v.E) / 2
	case values.KBytes:
		return len(v.X)
	}
	return 0
}

func bytesOf(v *values.Value) []byte {
	if v.IsNil() || v.K != values.KBytes {
		return nil
	}
	return v.X
}

func dblEq(a, b uint64) bool { return math.Float64frombits(a) == math.Float64frombits(b) }

func scalarEq(t *idlgen.RType, a, b *values.Value) bool {
	if t.Kind == idlgen.RBinary {
		return bytes.Equal(bytesOf(a), bytesOf(b))
	}
	if a.IsNil() || b.IsNil() || a.K != b.K {
		return false
	}
	switch t.Kind {
	case idlgen.RBool:
		return a.K == values.KBool && a.B == b.B
	case idlgen.RDouble:
		return a.K == values.KDouble && dblEq(a.D, b.D)
	case idlgen.RString:
		return a.K == values.KBytes && bytes.Equal(a.X, b.X)
	}
	return a.K == values.KInt && a.I == b.I
}

// keyEqGo is Go's == on map keys of a base type (strings for binary keys).
func keyEqGo(a, b *values.Value) bool {
	if a.IsNil() || b.IsNil() {
		return a.IsNil() && b.IsNil()
	}
	if a.K != b.K {
		return false
	}
	switch a.K {
	case values.KBool:
		return a.B == b.B
	case values.KInt:
		return a.I == b.I
	case values.KDouble:
		return dblEq(a.D, b.D)
	case values.KBytes:
		return bytes.Equal(a.X, b.X)
	}
	return false
}

func index(m *values.Value, k *values.Value) *values.Value {
	if m.IsNil() {
		return nil
	}
	for i := 0; i < m.NPairs(); i++ {
		if keyEqGo(m.Key(i), k) {
			return m.Val(i)
		}
	}
	return nil
}

func presenceSlot(f *idlgen.SField) bool {
	return f.Req == idlgen.Optional && f.Default == nil && (f.Type.IsBase() || f.Type.Kind == idlgen.RStruct)
}

func (c *spec) valEq(t *idlgen.RType, a, b *values.Value) bool {
	switch t.Kind {
	case idlgen.RStruct:
		if a.IsNil() || b.IsNil() {
			return a.IsNil() && b.IsNil()
		}
		st := c.s.Structs[t.Sidx]
		if a.K != values.KRecord || b.K != values.KRecord || len(a.E) != len(st.Fields) || len(b.E) != len(st.Fields) {
			return false
		}
		for i, f := range st.Fields {
			if !c.fieldEq(f, a.E[i], b.E[i]) {
				return false
			}
		}
		return true
	case idlgen.RList, idlgen.RSet:
		if lenOf(a) != lenOf(b) {
			return false
		}
		for i := 0; i < lenOf(a); i++ {
			if c.shared && sharedElem(t.Elem, a.E[i], b.E[i]) {
				continue
			}
			if !c.valEq(t.Elem, a.E[i], b.E[i]) {
				return false
			}
		}
		return true
	case idlgen.RMap:
		if lenOf(a) != lenOf(b) {
			return false
		}
		if lenOf(a) == 0 {
			return true
		}
		if t.Key.Kind == idlgen.RStruct {
			sub := func(x, y *values.Value) bool {
				for i := 0; i < x.NPairs(); i++ {
					found := false
					for j := 0; j < y.NPairs() && !found; j++ {
						found = c.valEq(t.Key, x.Key(i), y.Key(j)) && c.valEq(t.Elem, x.Val(i), y.Val(j))
					}
					if !found {
						return false
					}
				}
				return true
			}
			return sub(a, b) && sub(b, a)
		}
		for i := 0; i < a.NPairs(); i++ {
			w := index(b, a.Key(i))
			if w == nil {
				return false
			}
			if c.shared && sharedElem(t.Elem, a.Val(i), w) {
				continue
			}
			if !c.valEq(t.Elem, a.Val(i), w) {
				return false
			}
		}
		for j := 0; j < b.NPairs(); j++ {
			if index(a, b.Key(j)) == nil {
				return false
			}
		}
		return true
	}
	return scalarEq(t, a, b)
}

func (c *spec) fieldEq(f *idlgen.SField, a, b *values.Value) bool {
	if presenceSlot(f) && (a.IsNil() || b.IsNil()) {
		return a.IsNil() && b.IsNil()
	}
	return c.valEq(f.Type, a, b)
}

// ---------------------------------------------------------------------------------------------------------
// The defect-parametrised comparator: the same equality with the KNOWN defects of the template switched on
// one by one. It is used only to CLASSIFY an oracle failure (does the implementation's answer coincide with
// the answer under the known defects? which of them matter?) so that failures found at random fold into the
// stable keys of the directed minimal witnesses. With no defect switched on it must coincide with valEq
// (self-check of the harness).
// ---------------------------------------------------------------------------------------------------------

type defects struct {
	missingKey bool // m[k] of a missing key reads as the zero value instead of "different"
	structKey  bool // struct-typed map keys are pointers: never found in the other map
	optBinary  bool // optional binary: nil (unset) and empty (set) compare equal
}

var allDefects = defects{true, true, true}

const (
	keyMissing   = "deepequal-map-missing-key:map<i32,i32>"
	keyStructKey = "deepequal-struct-key-map"
	keyOptBinary = "deepequal-optional-binary-nil-vs-empty"
)

type quirk struct {
	s      *idlgen.Schema
	d      defects
	shared bool
}

func (q *quirk) eq(t *idlgen.RType, a, b *values.Value) bool {
	switch t.Kind {
	case idlgen.RStruct:
		if a.IsNil() || b.IsNil() {
			return a.IsNil() && b.IsNil()
		}
		st := q.s.Structs[t.Sidx]
		for i, f := range st.Fields {
			if !q.field(f, a.E[i], b.E[i]) {
				return false
			}
		}
		return true
	case idlgen.RList, idlgen.RSet:
		if lenOf(a) != lenOf(b) {
			return false
		}
		for i := 0; i < lenOf(a); i++ {
			if q.shared && sharedElem(t.Elem, a.E[i], b.E[i]) {
				continue
			}
			if !q.eq(t.Elem, a.E[i], b.E[i]) {
				return false
			}
		}
		return true
	case idlgen.RMap:
		if lenOf(a) != lenOf(b) {
			return false
		}
		for i := 0; i < lenOf(a); i++ {
			var w *values.Value
			if t.Key.Kind == idlgen.RStruct {
				if !q.d.structKey {
					for j := 0; j < b.NPairs() && w == nil; j++ {
						if q.eq(t.Key, a.Key(i), b.Key(j)) && q.eq(t.Elem, a.Val(i), b.Val(j)) {
							w = b.Val(j)
						}
					}
				}
			} else {
				w = index(b, a.Key(i))
			}
			if w == nil {
				if !q.d.missingKey {
					return false
				}
				w = idlgen.ZeroOf(t.Elem)
			} else if q.shared && t.Key.Kind != idlgen.RStruct && sharedElem(t.Elem, a.Val(i), w) {
				continue
			}
			if !q.eq(t.Elem, a.Val(i), w) {
				return false
			}
		}
		return true
	}
	if t.Kind == idlgen.RString || t.Kind == idlgen.RBinary {
		return bytes.Equal(bytesOf(a), bytesOf(b))
	}
	return scalarEq(t, a, b)
}

func (q *quirk) field(f *idlgen.SField, a, b *values.Value) bool {
	if presenceSlot(f) && (a.IsNil() || b.IsNil()) {
		if f.Type.Kind == idlgen.RBinary && q.d.optBinary {
			return bytes.Equal(bytesOf(a), bytesOf(b))
		}
		return a.IsNil() && b.IsNil()
	}
	return q.eq(f.Type, a, b)
}

// classify: which known defects make `got` (the implementation's answer) explainable? nil = not explainable.
func classify(s *idlgen.Schema, shared bool, eval func(eq func(*idlgen.RType, *values.Value, *values.Value) bool) bool, got bool) []string {
	all := &quirk{s, allDefects, shared}
	if eval(all.eq) != got {
		return nil
	}
	var out []string
	for i, k := range []string{keyMissing, keyStructKey, keyOptBinary} {
		d := allDefects
		switch i {
		case 0:
			if !d.missingKey {
				continue
			}
			d.missingKey = false
		case 1:
			d.structKey = false
		case 2:
			d.optBinary = false
		}
		if eval((&quirk{s, d, shared}).eq) != got {
			out = append(out, k)
		}
	}
	if len(out) == 0 {
		// only a combination explains it: name every defect
		out = []string{keyStructKey, keyOptBinary}
		if allDefects.missingKey {
			out = append(out, keyMissing)
		}
	}
	return out
}

// reflEq is reflect.DeepEqual on the Go objects two Values stand for (the comparison validate_set uses
// WITHOUT gen_deep_equal): strict about nil vs empty, doubles by ==, pointers by pointee.
func reflEq(t *idlgen.RType, a, b *values.Value) bool {
	if a.IsNil() || b.IsNil() {
		return a.IsNil() && b.IsNil()
	}
	if a.K != b.K || len(a.E) != len(b.E) {
		return false
	}
	switch a.K {
	case values.KBool:
		return a.B == b.B
	case values.KInt:
		return a.I == b.I
	case values.KDouble:
		return dblEq(a.D, b.D)
	case values.KBytes:
		return bytes.Equal(a.X, b.X)
	}
	for i := range a.E {
		if !reflEq(nil, a.E[i], b.E[i]) {
			return false
		}
	}
	return true
}

// expectWriteErr: must Write refuse the value because some set that gets written holds two elements that are
// equal under eq? (validate_set on). Fields that Write skips (optional and not set) are not looked at.
func expectWriteErr(s *idlgen.Schema, t *idlgen.RType, v *values.Value, eq func(*idlgen.RType, *values.Value, *values.Value) bool) bool {
	if v.IsNil() {
		return false
	}
	switch t.Kind {
	case idlgen.RStruct:
		st := s.Structs[t.Sidx]
		for i, f := range st.Fields {
			if f.Req == idlgen.Optional && !refcodec.IsSet(f, v.E[i]) {
				continue
			}
			if expectWriteErr(s, f.Type, v.E[i], eq) {
				return true
			}
		}
	case idlgen.RSet:
		for i := range v.E {
			for j := i + 1; j < len(v.E); j++ {
				if eq(t.Elem, v.E[i], v.E[j]) {
					return true
				}
			}
		}
		fallthrough
	case idlgen.RList:
		for _, e := range v.E {
			if expectWriteErr(s, t.Elem, e, eq) {
				return true
			}
		}
	case idlgen.RMap:
		for i := 0; i < v.NPairs(); i++ {
			if expectWriteErr(s, t.Key, v.Key(i), eq) || expectWriteErr(s, t.Elem, v.Val(i), eq) {
				return true
			}
		}
	}
	return false
}

func hasNaN(v *values.Value) bool {
	if v.IsNil() {
		return false
	}
	if v.K == values.KDouble {
		return v.D&0x7ff0000000000000 == 0x7ff0000000000000 && v.D&0x000fffffffffffff != 0
	}
	for _, e := range v.E {
		if hasNaN(e) {
			return true
		}
	}
	return false
}

// hasStructKeyEntries: does the value hold a non-empty map with struct-typed keys?
func hasStructKeyEntries(s *idlgen.Schema, t *idlgen.RType, v *values.Value) bool {
	if v.IsNil() {
		return false
	}
	switch t.Kind {
	case idlgen.RStruct:
		for i, f := range s.Structs[t.Sidx].Fields {
			if hasStructKeyEntries(s, f.Type, v.E[i]) {
				return true
			}
		}
	case idlgen.RList, idlgen.RSet:
		for _, e := range v.E {
			if hasStructKeyEntries(s, t.Elem, e) {
				return true
			}
		}
	case idlgen.RMap:
		if t.Key.Kind == idlgen.RStruct && v.NPairs() > 0 {
			return true
		}
		for i := 0; i < v.NPairs(); i++ {
			if hasStructKeyEntries(s, t.Elem, v.Val(i)) {
				return true
			}
		}
	}
	return false
}
