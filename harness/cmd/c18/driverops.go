package main

// extra ops added to the generic reflection driver (package main of the batch):
//
//	EN <key> <v1> <v2>   DeepEqual where `n` stands for a nil *T on EITHER side (nil receivers)
//	EI <key> <v>         x.DeepEqual(x): the same pointer
//	EA <key> <v>         x.DeepEqual(y) with y := new(T); *y = *x (a shallow copy: every pointer/slice/map shared)
const driverOps = `package main

import "reflect"

func c18call(e *entry, a, b reflect.Value) string {
	pt := reflect.PtrTo(e.typ)
	m, ok := pt.MethodByName("DeepEqual")
	if !ok || m.Type.NumIn() != 2 || m.Type.In(1) != pt || m.Type.NumOut() != 1 || m.Type.Out(0).Kind() != reflect.Bool {
		return "nomethod"
	}
	if m.Func.Call([]reflect.Value{a, b})[0].Bool() {
		return "true"
	}
	return "false"
}

func init() {
	extraOps["EN"] = func(args []string) string {
		e := lookup(args[0])
		v1, rest := parseValue(args[1:])
		v2, _ := parseValue(rest)
		pt := reflect.PtrTo(e.typ)
		mk := func(v *value) reflect.Value {
			if v.k == 'n' {
				return reflect.Zero(pt)
			}
			return e.object(v)
		}
		return c18call(e, mk(v1), mk(v2))
	}
	extraOps["EI"] = func(args []string) string {
		e := lookup(args[0])
		v, _ := parseValue(args[1:])
		x := e.object(v)
		return c18call(e, x, x)
	}
	extraOps["EA"] = func(args []string) string {
		e := lookup(args[0])
		v, _ := parseValue(args[1:])
		x := e.object(v)
		y := reflect.New(e.typ)
		y.Elem().Set(x.Elem())
		return c18call(e, x, y)
	}
}
`
