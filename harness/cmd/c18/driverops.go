package main

// extra ops added to the generic reflection driver (package main of the batch):
//
//	EN <key> <v1> <v2>   DeepEqual where `n` stands for a nil *T on EITHER side (nil receivers)
//	EI <key> <v>         x.DeepEqual(x): the same pointer
//	EA <key> <v>         x.DeepEqual(y) with y := new(T); *y = *x (a shallow copy: every pointer/slice/map shared)
//	ES <key> <v1> <v2>   x.DeepEqual(y) after making every struct-typed ELEMENT of a list / set / map (base-typed keys) of y
//	                     the very pointer of x's element at the same index / key, whenever both are non-nil and their
//	                     descriptions (the op's tokens) are identical: values that ALIAS sub-objects
const driverOps = `package main

import "reflect"

func c18call(e *entry, a, b reflect.Value) string {
	pt := reflect.PtrTo(e.typ)
	m, ok := pt.MethodByName("DeepEqual")
	if !ok || m.Type.NumIn() != 2 || m.Type.In(1) != pt || m.Type.NumOut() != 1 || m.Type.Out(0).Kind() != reflect.Bool {
		return "nomethod"
	}
	if m.Func.Call([]reflect.Value{a, b})[0].Bool() {
		return "true"
	}
	return "false"
}

func c18same(a, b *value) bool {
	if a.k != b.k || a.b != b.b || a.i != b.i || a.d != b.d || string(a.x) != string(b.x) || len(a.e) != len(b.e) {
		return false
	}
	for i := range a.e {
		if !c18same(a.e[i], b.e[i]) {
			return false
		}
	}
	return true
}

func c18deref(v reflect.Value) reflect.Value {
	for v.Kind() == reflect.Ptr || v.Kind() == reflect.Interface {
		if v.IsNil() {
			return reflect.Value{}
		}
		v = v.Elem()
	}
	return v
}

// c18share walks the two descriptions and the two objects in lockstep and shares equal struct elements.
func c18share(e *entry, rt *rtype, va, vb *value, xa, xb reflect.Value) {
	if va.k == 'n' || vb.k == 'n' {
		return
	}
	xa, xb = c18deref(xa), c18deref(xb)
	if !xa.IsValid() || !xb.IsValid() {
		return
	}
	shareable := func(et *rtype, da, db *value, pa, pb reflect.Value) bool {
		return et.k == 'S' && pa.Kind() == reflect.Ptr && pb.Kind() == reflect.Ptr && !pa.IsNil() && !pb.IsNil() && da.k != 'n' && c18same(da, db)
	}
	switch rt.k {
	case 'S':
		st, idx := e.structOf(xa.Type(), rt.sidx)
		for i, f := range st.fields {
			fi, ok := idx[f.id]
			if !ok || i >= len(va.e) || i >= len(vb.e) {
				continue
			}
			c18share(e, f.typ, va.e[i], vb.e[i], xa.Field(fi), xb.Field(fi))
		}
	case 'L', 'T':
		for i := 0; i < xa.Len() && i < xb.Len() && i < len(va.e) && i < len(vb.e); i++ {
			if shareable(rt.elem, va.e[i], vb.e[i], xa.Index(i), xb.Index(i)) {
				xb.Index(i).Set(xa.Index(i))
			} else {
				c18share(e, rt.elem, va.e[i], vb.e[i], xa.Index(i), xb.Index(i))
			}
		}
	case 'M':
		if rt.key.k == 'S' {
			return
		}
		for p := 0; p+1 < len(va.e); p += 2 {
			k := e.build(rt.key, xa.Type().Key(), va.e[p])
			ea, eb := xa.MapIndex(k), xb.MapIndex(k)
			if !ea.IsValid() || !eb.IsValid() {
				continue
			}
			q := -1
			for j := 0; j+1 < len(vb.e); j += 2 {
				if e.build(rt.key, xa.Type().Key(), vb.e[j]).Interface() == k.Interface() {
					q = j
					break
				}
			}
			if q < 0 {
				continue
			}
			if shareable(rt.elem, va.e[p+1], vb.e[q+1], ea, eb) {
				xb.SetMapIndex(k, ea)
			} else if rt.elem.k != 'S' || (ea.Kind() == reflect.Ptr) {
				// map values are not addressable: share inside pointer / slice / map values (reached by reference)
				c18share(e, rt.elem, va.e[p+1], vb.e[q+1], ea, eb)
			}
		}
	}
}

func init() {
	extraOps["ES"] = func(args []string) string {
		e := lookup(args[0])
		v1, rest := parseValue(args[1:])
		v2, _ := parseValue(rest)
		x, y := e.object(v1), e.object(v2)
		c18share(e, &rtype{k: 'S', sidx: e.sidx}, v1, v2, x, y)
		return c18call(e, x, y)
	}
	extraOps["EN"] = func(args []string) string {
		e := lookup(args[0])
		v1, rest := parseValue(args[1:])
		v2, _ := parseValue(rest)
		pt := reflect.PtrTo(e.typ)
		mk := func(v *value) reflect.Value {
			if v.k == 'n' {
				return reflect.Zero(pt)
			}
			return e.object(v)
		}
		return c18call(e, mk(v1), mk(v2))
	}
	extraOps["EI"] = func(args []string) string {
		e := lookup(args[0])
		v, _ := parseValue(args[1:])
		x := e.object(v)
		return c18call(e, x, x)
	}
	extraOps["EA"] = func(args []string) string {
		e := lookup(args[0])
		v, _ := parseValue(args[1:])
		x := e.object(v)
		y := reflect.New(e.typ)
		y.Elem().Set(x.Elem())
		return c18call(e, x, y)
	}
}
`
