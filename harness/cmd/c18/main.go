// c18: harness for property C18 (generated DeepEqual is structural equality; validate_set rejects exactly the
// sets with two equal elements), built on the batch infrastructure (docs/BATCH.md):
// idlgen + a directed program -> batch.Build (thriftgo with gen_deep_equal + one go build) -> value PAIRS ->
// driver ops E/EN/EI/EA/W -> the ORACLE (valEq computed here on the two values, symmetry, reflexivity)
// -> ops.txt/impl.txt/stats.json for the correspondence with the Lean model (tv_c18).
//
//	c18 extract -repo R                     print Generated/C18.lean (skeleton facts of the templates)
//	c18 run     -repo R -dir D -seed N -tier T
//	c18 idl                                 print the directed program
package main

import (
	"errors"
	"flag"
	"fmt"
	"os"
	"path/filepath"
	"sort"
	"strings"
	"time"

	"verifharness/internal/batch"
	"verifharness/internal/idlgen"
	"verifharness/internal/refcodec"
	"verifharness/internal/values"
	"verifharness/internal/values/valgen"
	"verifharness/internal/vl"
)

func has(opts []string, o string) bool {
	for _, x := range opts {
		if x == o {
			return true
		}
	}
	return false
}

func main() {
	if len(os.Args) < 2 {
		fmt.Fprintln(os.Stderr, "usage: c18 extract|idl|run [flags]")
		os.Exit(2)
	}
	fs := flag.NewFlagSet(os.Args[1], flag.ExitOnError)
	repo := fs.String("repo", "/repo", "repository under test")
	dir := fs.String("dir", "", "output directory (ops.txt, impl.txt, stats.json; work files under <dir>/work)")
	seed := fs.Uint64("seed", 1, "seed")
	tier := fs.String("tier", "quick", "quick|thorough")
	nprog := fs.Int("programs", 0, "number of random programs (0 = by tier)")
	nvalues := fs.Int("values", 0, "values per struct (0 = by tier)")
	keep := fs.Bool("keep", false, "keep the work directory")
	fs.Parse(os.Args[2:])
	switch os.Args[1] {
	case "extract":
		if err := extract(*repo); err != nil {
			fmt.Fprintln(os.Stderr, "c18 extract:", err)
			os.Exit(3)
		}
	case "idl":
		p := directedProgram()
		for n, t := range p.Render() {
			fmt.Printf("==== %s\n%s", n, t)
		}
		for _, l := range p.Schema().Lines("u0", []string{"gen_deep_equal=1"}) {
			fmt.Println(l)
		}
	case "run":
		if *dir == "" {
			fmt.Fprintln(os.Stderr, "-dir is required")
			os.Exit(2)
		}
		if *nprog == 0 {
			*nprog = 5
			if *tier == "thorough" {
				*nprog = 40
			}
		}
		if *nvalues == 0 {
			*nvalues = 3
			if *tier == "thorough" {
				*nvalues = 12
			}
		}
		os.Exit(run(*repo, *dir, *seed, *nprog, *nvalues, *keep))
	default:
		fmt.Fprintln(os.Stderr, "unknown subcommand", os.Args[1])
		os.Exit(2)
	}
}

// option sets given to the random programs besides plain gen_deep_equal (rotating)
var secondSets = [][]string{
	{"gen_deep_equal", "validate_set=false"},
	{},
	{"gen_deep_equal", "keep_unknown_fields"},
	{"gen_deep_equal", "value_type_in_container"},
	{"gen_deep_equal", "enum_as_int_32", "nil_safe"},
}

// structInContainer: does the schema hold a container whose element / key / value type is a struct-like?
// (`value_type_in_container,gen_deep_equal` does not compile for those: C01's business, see docs/C18.md)
func structInContainer(s *idlgen.Schema) bool {
	var in func(t *idlgen.RType, inside bool) bool
	in = func(t *idlgen.RType, inside bool) bool {
		switch t.Kind {
		case idlgen.RStruct:
			return inside
		case idlgen.RList, idlgen.RSet:
			return in(t.Elem, true)
		case idlgen.RMap:
			return in(t.Key, true) || in(t.Elem, true)
		}
		return false
	}
	for _, st := range s.Structs {
		for _, f := range st.Fields {
			if in(f.Type, false) {
				return true
			}
		}
	}
	return false
}

// check is the oracle obligation attached to one op line.
type check struct {
	unit   *batch.UnitInfo
	sidx   int
	what   string // E EN EI EA W V
	kind   string // pair kind (distribution)
	x, y   *values.Value
	mirror int // index of the line with the arguments swapped (-1: none)
	de     bool
}

type lineSet struct {
	lines  []string
	checks []*check
}

func (l *lineSet) add(line string, c *check) int {
	l.lines = append(l.lines, line)
	l.checks = append(l.checks, c)
	return len(l.lines) - 1
}

func (l *lineSet) pair(u *batch.UnitInfo, de bool, sidx int, key, kind string, x, y *values.Value) {
	l.pairOp("E", u, de, sidx, key, kind, x, y)
}

// pairOp: op = "E" (two independently built objects) or "ES" (equal struct elements of containers shared)
func (l *lineSet) pairOp(op string, u *batch.UnitInfo, de bool, sidx int, key, kind string, x, y *values.Value) {
	a := l.add(op+" "+key+" "+x.String()+" "+y.String(), &check{unit: u, sidx: sidx, what: op, kind: kind, x: x, y: y, mirror: -1, de: de})
	b := l.add(op+" "+key+" "+y.String()+" "+x.String(), &check{unit: u, sidx: sidx, what: op, kind: kind + "(swapped)", x: y, y: x, mirror: a, de: de})
	l.checks[a].mirror = b
	if op != "E" {
		return
	}
	l.add("V "+key+" "+x.String()+" "+y.String(), &check{unit: u, sidx: sidx, what: "V", kind: kind, x: x, y: y, mirror: -1, de: de})
}

func run(repo, dir string, seed uint64, nprog, nvalues int, keep bool) int {
	t0 := time.Now()
	if err := os.MkdirAll(dir, 0o755); err != nil {
		fmt.Fprintln(os.Stderr, err)
		return 2
	}
	work := filepath.Join(dir, "work")
	os.RemoveAll(work)
	if !keep {
		defer os.RemoveAll(work)
	}
	out := vl.NewOut(dir)
	defer out.Close()
	r := vl.NewRng(vl.NewRng(seed).U64())
	// the classifier of known defects follows the template like the model does: once the element loop reads the
	// other map with the comma-ok form, "missing key reads as zero" is no longer a defect to fold failures into
	if _, commaOk := templateFacts(); commaOk {
		allDefects.missingKey = false
		out.Count("template.commaOk")
	}

	cfg := idlgen.DefaultConfig()
	cfg.Services, cfg.Consts, cfg.Annotations = false, false, false
	cfg.SetOfContainers = true
	cfg.MaxFiles = 2

	// ---- units: the directed program under three option sets, then random programs x 2 option sets
	dp := directedProgram()
	units := []batch.Unit{
		{Prog: dp, Recurse: true, Options: []string{"gen_deep_equal"}, Tag: "directed"},
		{Prog: dp, Recurse: true, Options: []string{"gen_deep_equal", "validate_set=false"}, Tag: "directed"},
		{Prog: dp, Recurse: true, Options: []string{}, Tag: "directed"},
		{Prog: directedValueProgram(), Recurse: true, Options: []string{"gen_deep_equal", "value_type_in_container"}, Tag: "directed-value"},
	}
	const ndirected = 3  // units of directedProgram (they get the witnesses)
	const nfixed = 4     // hand-written units (more values per struct: no extra compile cost)
	for i := 0; i < nprog; i++ {
		pcfg := cfg
		if i%2 == 1 {
			pcfg.StructLiterals = false // fields get renamed below; a struct literal refers to them by name
		}
		p := idlgen.Generate(r, pcfg)
		if i%2 == 1 {
			helperLikeNames(r, p, out.Count)
		}
		p.Stats(out.Count)
		units = append(units, batch.Unit{Prog: p, Recurse: true, Options: []string{"gen_deep_equal"}, Tag: fmt.Sprintf("prog%d", i)})
		o := secondSets[(i+int(seed))%len(secondSets)]
		if has(o, "value_type_in_container") && structInContainer(p.Schema()) {
			out.Count("unit.skipped.value_type_in_container+struct-in-container(uncompilable,C01)")
			o = secondSets[0]
		}
		units = append(units, batch.Unit{Prog: p, Recurse: true, Options: o, Tag: fmt.Sprintf("prog%d", i)})
	}
	b, err := batch.Build(work, repo, units, map[string]string{"c18ops.go": driverOps})
	if b != nil {
		fmt.Println(b.Summary())
	}
	if err != nil {
		fmt.Println("ERROR:", err)
		return 2
	}
	bad := 0
	for i := range b.Units {
		u := &b.Units[i]
		if u.OK() {
			continue
		}
		bad++
		// a unit thriftgo rejects or whose output does not compile is C01's business: counted, not reported here
		out.Count("unit.unusable")
		out.Sample(map[string]interface{}{"unusable_unit": u.Key, "tag": u.Tag, "options": u.Options, "exit": u.Exit, "build": firstN(u.BuildErrors, 3)})
		fmt.Printf("UNIT %s (%s %v) not usable: exit=%d %s %v\n", u.Key, u.Tag, u.Options, u.Exit, firstLine(u.Stderr), firstN(u.BuildErrors, 3))
		if i < nfixed && !has(u.Options, "gen_deep_equal") { // gen_deep_equal units: attributed below
			out.Fail(vl.OracleFail{Key: "directed-unit-unusable", What: "the directed program does not generate/compile", Input: map[string]interface{}{"options": u.Options, "idl": idlOf(u)},
				Expected: "compiles", Observed: fmt.Sprint(u.Exit, firstLine(u.Stderr), firstN(u.BuildErrors, 3))})
		}
	}
	// a gen_deep_equal unit that thriftgo accepts but whose output does not compile, while the same program and options
	// WITHOUT gen_deep_equal compile, is a violation of C18 (DeepEqual does not exist for an accepted program): never skipped
	var twins []batch.Unit
	var twinOf []int
	for i := range b.Units {
		u := &b.Units[i]
		if !u.OK() && has(u.Options, "gen_deep_equal") {
			var o []string
			for _, x := range u.Options {
				if x != "gen_deep_equal" {
					o = append(o, x)
				}
			}
			twins = append(twins, batch.Unit{Prog: units[i].Prog, Recurse: true, Options: o, Tag: u.Tag})
			twinOf = append(twinOf, i)
		}
	}
	if len(twins) > 0 {
		work2 := filepath.Join(dir, "work-twin")
		os.RemoveAll(work2)
		b2, err2 := batch.Build(work2, repo, twins, nil)
		for j, i := range twinOf {
			u := &b.Units[i]
			if err2 != nil || b2 == nil || !b2.Units[j].OK() {
				out.Count("unit.unusable.also-without-gen_deep_equal(C01)")
				continue
			}
			msg := firstLine(u.Stderr)
			if len(u.BuildErrors) > 0 {
				msg = u.BuildErrors[0]
			} else if len(u.ParseErrors) > 0 {
				msg = u.ParseErrors[0]
			}
			out.Count("unit.uncompilable-only-with-gen_deep_equal")
			fmt.Printf("ORACLE FAIL [%s %v] compiles without gen_deep_equal, not with it: %s\n", u.Key, u.Options, msg)
			out.Fail(vl.OracleFail{Key: "gen-deep-equal-uncompilable:" + normErr(msg),
				What: "a program that compiles without gen_deep_equal does not compile with it: DeepEqual does not exist for an accepted IDL program",
				Input: map[string]interface{}{"options": u.Options, "tag": u.Tag, "thriftgo": strings.Join(u.Cmd, " "), "idl": units[i].Prog.Render()},
				Expected: "thriftgo exit 0 and `go build` of the generated package succeeds", Observed: map[string]interface{}{"exit": u.Exit, "stderr": firstLine(u.Stderr), "go_build": firstN(u.BuildErrors, 6), "parse": firstN(u.ParseErrors, 3)}})
		}
		if !keep {
			os.RemoveAll(work2)
		}
	}
	if bad*2 > len(b.Units) {
		out.Fail(vl.OracleFail{Key: "units-unusable", What: fmt.Sprintf("%d of %d units were rejected or did not compile", bad, len(b.Units)), Expected: "generated code compiles", Observed: b.Summary()})
	}
	if chk, err := b.Check(); err != nil || !strings.Contains(chk, " bad 0") {
		fmt.Println("driver -check:", chk, err)
		out.Fail(vl.OracleFail{Key: "registry", What: "driver registry self check", Observed: chk})
	}

	// ---- ops
	ls := &lineSet{}
	for ui := range b.Units {
		u := &b.Units[ui]
		if !u.OK() {
			continue
		}
		for _, l := range u.SchemaLines() {
			ls.add(l, nil)
		}
		de := has(u.Options, "gen_deep_equal")
		out.Count("unit.options." + strings.Join(u.PLineOptions(), ","))
		if ui < ndirected {
			for _, w := range directedWitnesses() {
				key := fmt.Sprintf("%s:%d", u.Key, w.sidx)
				if w.op == "ES" {
					ls.pairOp("ES", u, de, w.sidx, key, "directed:"+w.note, w.x, w.y)
					ls.pair(u, de, w.sidx, key, "directed:"+w.note+" (not shared)", w.x, w.y)
				} else if w.op == "E" {
					ls.pair(u, de, w.sidx, key, "directed:"+w.note, w.x, w.y)
					if w.sidx == dD1 || w.sidx == dD0 {
						ls.add("EA "+key+" "+w.x.String(), &check{unit: u, sidx: w.sidx, what: "EA", kind: "directed:shallow-copy", x: w.x, y: w.x, mirror: -1, de: de})
					}
				} else {
					ls.add("W "+key+" "+w.x.String(), &check{unit: u, sidx: w.sidx, what: "W", kind: "directed:" + w.note, x: w.x, mirror: -1, de: de})
				}
			}
		}
		vcfg := valgen.Config{Count: out.Count}
		vcfg.NilElems = !has(u.Options, "value_type_in_container")
		for sidx := range u.Schema.Structs {
			key := fmt.Sprintf("%s:%d", u.Key, sidx)
			nv := nvalues
			if ui < nfixed {
				nv = nvalues * 4 // the directed program costs no extra compile time and holds every map shape
			}
			for k := 0; k < nv; k++ {
				v := valgen.Gen(r, u.Schema, sidx, 1+r.Intn(5), vcfg)
				if n := dropZeroSizeKeys(u.Schema, &idlgen.RType{Kind: idlgen.RStruct, Sidx: sidx}, v); n > 0 {
					out.Stats["avoided.map-with-zero-size-struct-key"] += n
				}
				out.Count(fmt.Sprintf("val.depth.%d", v.Depth()))
				genOps(r, u, de, sidx, key, v, vcfg, ls, out)
			}
		}
	}
	answers, err := b.RunLines(ls.lines)
	if err != nil {
		fmt.Println("ERROR:", err)
		return 2
	}

	// ---- oracle
	fails, known, unknownShrunk := 0, 0, 0
	for i, line := range ls.lines {
		ans := answers[i]
		c := ls.checks[i]
		impl := ans
		if c != nil && c.what == "V" {
			// the `V` lines tie the Go oracle to the Lean specification: "implementation" = this harness' valEq
			impl = boolStr((&spec{s: c.unit.Schema}).valEq(&idlgen.RType{Kind: idlgen.RStruct, Sidx: c.sidx}, c.x, c.y))
		}
		if strings.HasPrefix(line, "W ") {
			impl = canonW(ans)
		}
		out.Case(line, impl, c != nil)
		if c == nil {
			continue
		}
		out.Count("op." + c.what)
		out.Count("pair." + strings.SplitN(c.kind, ":", 2)[0] + "." + c.what + "=" + firstWord(impl))
		msg, exp := verdict(c, ans, answers)
		if msg == "" {
			out.Count("oracle.ok." + c.what)
			continue
		}
		// classification against the known defects of the template
		classes := classifyFail(c, ans, answers)
		input := map[string]interface{}{"go": goText(c), "unit": c.unit.Key, "options": c.unit.Options, "struct": c.unit.Schema.Structs[c.sidx].Name,
			"schema": c.unit.SchemaLines(), "op": line, "kind": c.kind, "idl": idlOf(c.unit)}
		if classes != nil {
			known++
			for _, k := range classes {
				out.Count("oracle.known-defect." + k)
				out.Fail(vl.OracleFail{Key: k, What: c.what + " (" + c.kind + "): " + msg, Input: input, Expected: exp, Observed: ans})
			}
			continue
		}
		fails++
		if fails <= 10 {
			fmt.Printf("ORACLE FAIL [%s %s] %s\n  op: %.400s\n  got: %.200s\n", c.unit.Key, strings.Join(c.unit.Options, ","), msg, line, ans)
		}
		if unknownShrunk < 4 {
			unknownShrunk++
			if sl, sans, smsg, sexp := shrinkFail(b, c, line); sl != "" {
				input["op"] = sl
				input["unshrunk_op"] = line
				line, ans, msg, exp = sl, sans, smsg, sexp
			}
		}
		out.Fail(vl.OracleFail{Key: line, What: c.what + " (" + c.kind + "): " + msg, Input: input, Expected: exp, Observed: ans})
		out.Sample(map[string]string{"op": line, "got": ans, "why": msg})
	}
	fmt.Printf("c18: seed %d, %d units (%d unusable), %d op lines, %d oracle failures outside the known defect classes, %d inside, %.1fs total\n",
		seed, len(b.Units), bad, len(ls.lines), fails, known, time.Since(t0).Seconds())
	for k, d := range b.Timing {
		out.Stats["timing_ms."+k] = int(d.Milliseconds())
	}
	for _, l := range ls.lines {
		if strings.HasPrefix(l, "E ") && len(out.Samples) < 8 && len(l) < 300 {
			out.Sample(l)
		}
	}
	if fails > 0 || known > 0 {
		return 1
	}
	return 0
}

// normErr strips the unit path, line and column from a compiler message ("u3/pkg/a.go:10:2: msg" -> "msg") and the
// identifiers that vary with the program, so that the key names the kind of failure.
func normErr(m string) string {
	if i := strings.Index(m, ".go:"); i >= 0 {
		rest := m[i+4:]
		parts := strings.SplitN(rest, ": ", 2)
		if len(parts) == 2 {
			m = parts[1]
		}
	}
	f := strings.Fields(m)
	for i, w := range f {
		if strings.ContainsAny(w, "0123456789_.") {
			f[i] = "X"
		}
	}
	if len(f) > 8 {
		f = f[:8]
	}
	return strings.Join(f, " ")
}

func firstN(xs []string, n int) []string {
	if len(xs) > n {
		return xs[:n]
	}
	return xs
}

func firstLine(s string) string {
	s = strings.TrimSpace(s)
	if i := strings.IndexByte(s, '\n'); i >= 0 {
		return s[:i]
	}
	return s
}

func firstWord(s string) string {
	if i := strings.IndexByte(s, ' '); i >= 0 {
		return s[:i]
	}
	return s
}

func boolStr(b bool) string {
	if b {
		return "true"
	}
	return "false"
}

// goText describes the failing call in Go terms.
func goText(c *check) string {
	st := c.unit.Schema.Structs[c.sidx]
	switch c.what {
	case "W":
		return fmt.Sprintf("x := <%s %s>; x.Write(binaryProtocol)   // thriftgo -g go:%s", st.Name, c.x.String(), strings.Join(c.unit.Options, ","))
	case "ES":
		return fmt.Sprintf("x := <%s %s>; y := <%s %s>; every struct-typed element of a list/set/map of y whose description equals x's element at the same index/key IS x's element (same pointer); x.DeepEqual(y)   // thriftgo -g go:%s",
			st.Name, c.x.String(), st.Name, c.y.String(), strings.Join(c.unit.Options, ","))
	case "EI":
		return fmt.Sprintf("x := <%s %s>; x.DeepEqual(x)", st.Name, c.x.String())
	case "EA":
		return fmt.Sprintf("x := <%s %s>; y := new(%s); *y = *x; x.DeepEqual(y)", st.Name, c.x.String(), st.Name)
	}
	return fmt.Sprintf("x := <%s %s>; y := <%s %s>; x.DeepEqual(y)   // thriftgo -g go:%s; values in VL notation (docs/BATCH.md §2), n = nil",
		st.Name, c.x.String(), st.Name, c.y.String(), strings.Join(c.unit.Options, ","))
}

func idlOf(u *batch.UnitInfo) interface{} {
	if u.Tag == "directed" {
		return directedProgram().Render()
	}
	if u.Tag == "directed-value" {
		return directedValueProgram().Render()
	}
	return u.IDLDir
}

// genOps emits the ops for one generated value v of struct sidx.
func genOps(r *vl.Rng, u *batch.UnitInfo, de bool, sidx int, key string, v *values.Value, vcfg valgen.Config, ls *lineSet, out *vl.Out) {
	s := u.Schema
	rt := &idlgen.RType{Kind: idlgen.RStruct, Sidx: sidx}
	// (1) a deep copy; the same with the equal struct elements of containers shared
	ls.pair(u, de, sidx, key, "copy", v, v.Clone())
	ls.pairOp("ES", u, de, sidx, key, "copy-shared", v, v.Clone())
	// (1b) a later element of a container of structs differs; the elements before it are shared / nil on both sides
	for _, nilLead := range []bool{false, true} {
		if nilLead && !vcfg.NilElems {
			continue
		}
		for rep := 0; rep < 2; rep++ {
			x, y, ok := laterElement(r, s, sidx, v, nilLead)
			if !ok {
				out.Count(fmt.Sprintf("later-element.nosite.nil=%t", nilLead))
				break
			}
			kind := "later-element"
			if nilLead {
				kind = "later-element-nil-lead"
				ls.pair(u, de, sidx, key, kind, x, y)
			}
			ls.pairOp("ES", u, de, sidx, key, kind+"-shared", x, y)
		}
	}
	// (2..) one mutation of each kind
	for kind := 0; kind < mKinds; kind++ {
		x, y, depth, ok := mutate(r, s, sidx, v, kind, vcfg.NilElems)
		if !ok {
			out.Count("mutate.nosite." + kindNames[kind])
			continue
		}
		if !wfKeys(s, rt, x) || !wfKeys(s, rt, y) {
			out.Count("mutate.dropped-keys-collide." + kindNames[kind])
			continue
		}
		out.Count(fmt.Sprintf("mutate.depth.%d", depth))
		ls.pair(u, de, sidx, key, kindNames[kind], x, y)
		if kind == mLeaf || kind == mListLen {
			ls.pairOp("ES", u, de, sidx, key, kindNames[kind]+"-shared", x, y)
		}
	}
	// (3) an independent second value
	v2 := valgen.Gen(r, s, sidx, 1+r.Intn(3), vcfg)
	if n := dropZeroSizeKeys(s, rt, v2); n > 0 {
		out.Stats["avoided.map-with-zero-size-struct-key"] += n
	}
	ls.pair(u, de, sidx, key, "independent", v, v2)
	// (4) nil receivers / nil arguments, identity, shallow copy
	n := values.Nil()
	ls.add("EN "+key+" n "+v.String(), &check{unit: u, sidx: sidx, what: "EN", kind: "nil-receiver", x: n, y: v, mirror: -1, de: de})
	ls.add("EN "+key+" "+v.String()+" n", &check{unit: u, sidx: sidx, what: "EN", kind: "nil-argument", x: v, y: n, mirror: -1, de: de})
	if r.Chance(25) {
		ls.add("EN "+key+" n n", &check{unit: u, sidx: sidx, what: "EN", kind: "nil-nil", x: n, y: n, mirror: -1, de: de})
	}
	ls.add("EI "+key+" "+v.String(), &check{unit: u, sidx: sidx, what: "EI", kind: "identity", x: v, y: v, mirror: -1, de: de})
	ls.add("EA "+key+" "+v.String(), &check{unit: u, sidx: sidx, what: "EA", kind: "shallow-copy", x: v, y: v, mirror: -1, de: de})
	// (5) Write: the value as generated (sets without duplicates) and with one set element repeated
	if _, err := refcodec.Encode(s, sidx, v); !errors.Is(err, refcodec.ErrNilUnion) {
		ls.add("W "+key+" "+v.String(), &check{unit: u, sidx: sidx, what: "W", kind: "write", x: v, mirror: -1, de: de})
		if d, et, e, ok := dupSet(r, s, sidx, v); ok {
			if !de && hasStructKeyEntries(s, et, e) {
				// reflect.DeepEqual looks pointer keys up by identity; Gen.goEq compares maps entry-wise: not generated
				out.Count("dupset.skipped.struct-key-entries(reflect)")
			} else {
				ls.add("W "+key+" "+d.String(), &check{unit: u, sidx: sidx, what: "W", kind: "write-dupset", x: d, mirror: -1, de: de})
			}
		} else {
			out.Count("dupset.noset")
		}
	} else {
		out.Count("write.skipped.nil-union")
	}
}

// canonW canonicalises the map order of the bytes of a `W` answer (as cmd/c02 does).
func canonW(ans string) string {
	if !strings.HasPrefix(ans, "ok ") {
		return ans
	}
	raw, err := hexDecode(strings.TrimPrefix(ans[3:], "-"))
	if err != nil {
		return "ok badhex"
	}
	cb, err := refcodec.Canon(raw)
	if err != nil {
		return "ok malformed:" + ans[3:]
	}
	return "ok " + hexEncode(cb)
}

// verdict evaluates the ORACLE for one answered op: "" = fine, else (what is wrong, what was expected).
func verdict(c *check, ans string, answers []string) (string, string) {
	s := c.unit.Schema
	sp := &spec{s: s}
	rt := &idlgen.RType{Kind: idlgen.RStruct, Sidx: c.sidx}
	switch c.what {
	case "V":
		return "", ""
	case "E", "ES", "EN", "EI", "EA":
		if !c.de {
			if ans != "nomethod" {
				return "DeepEqual exists without gen_deep_equal", "nomethod"
			}
			return "", ""
		}
		if ans != "true" && ans != "false" {
			return "DeepEqual did not answer (panic / missing method)", "true|false"
		}
	}
	switch c.what {
	case "E", "ES", "EN":
		sp.shared = c.what == "ES"
		exp := boolStr(sp.valEq(rt, c.x, c.y))
		if ans != exp {
			return "DeepEqual disagrees with structural equality", exp
		}
		if c.mirror >= 0 && answers[c.mirror] != ans && (answers[c.mirror] == "true" || answers[c.mirror] == "false") {
			return "DeepEqual is not symmetric: the swapped call answers " + answers[c.mirror], answers[c.mirror]
		}
	case "EI":
		if ans != "true" {
			return "x.DeepEqual(x) is not true", "true"
		}
	case "EA":
		if sp.valEq(rt, c.x, c.x) && ans != "true" {
			return "a shallow copy is not DeepEqual", "true"
		}
	case "W":
		if ans == "panic" || ans == "crash" || ans == "nomethod" {
			return "Write did not answer", "ok|err"
		}
		_, encErr := refcodec.Encode(s, c.sidx, c.x)
		if errors.Is(encErr, refcodec.ErrUnionCount) {
			if ans != "err" {
				return "Write of a union without exactly one member set must be refused", "err"
			}
			return "", ""
		}
		if encErr != nil {
			return "", ""
		}
		validate := !has(c.unit.Options, "validate_set=false")
		eq := sp.valEq
		if !c.de {
			eq = reflEq
		}
		wantErr := validate && expectWriteErr(s, rt, c.x, eq)
		if wantErr != (ans == "err") {
			if wantErr {
				return "Write accepts a set with two equal elements", "err"
			}
			return "Write refuses a set whose elements are pairwise different", "ok"
		}
	}
	return "", ""
}

// classifyFail: is the failing answer exactly what the known defects of the template produce? (nil = no)
func classifyFail(c *check, ans string, answers []string) []string {
	if !c.de {
		return nil
	}
	s := c.unit.Schema
	rt := &idlgen.RType{Kind: idlgen.RStruct, Sidx: c.sidx}
	shared := c.what == "ES"
	switch c.what {
	case "E", "ES", "EN":
		if ans != "true" && ans != "false" {
			return nil
		}
		cl := classify(s, shared, func(eq func(*idlgen.RType, *values.Value, *values.Value) bool) bool { return eq(rt, c.x, c.y) }, ans == "true")
		if cl == nil {
			return nil
		}
		if c.mirror >= 0 {
			// the swapped call must be explainable as well
			m := answers[c.mirror]
			if m != "true" && m != "false" {
				return nil
			}
			if (&quirk{s, allDefects, shared}).eq(rt, c.y, c.x) != (m == "true") {
				return nil
			}
			if (&spec{s, shared}).valEq(rt, c.x, c.y) == (ans == "true") {
				// only the symmetry failed: explained by the swapped direction
				cl = classify(s, shared, func(eq func(*idlgen.RType, *values.Value, *values.Value) bool) bool { return eq(rt, c.y, c.x) }, m == "true")
			}
		}
		return cl
	case "W":
		if ans != "err" && !strings.HasPrefix(ans, "ok ") {
			return nil
		}
		if has(c.unit.Options, "validate_set=false") {
			return nil
		}
		return classify(s, false, func(eq func(*idlgen.RType, *values.Value, *values.Value) bool) bool { return expectWriteErr(s, rt, c.x, eq) }, ans == "err")
	}
	return nil
}

// shrinkFail minimises a failing input outside the known classes by re-running the implementation.
func shrinkFail(b *batch.Built, c *check, line string) (string, string, string, string) {
	s := c.unit.Schema
	key := fmt.Sprintf("%s:%d", c.unit.Key, c.sidx)
	tries := 0
	bestM, bestE := "", ""
	failing := func(what string, x, y *values.Value) (string, string, bool) {
		tries++
		var l []string
		switch what {
		case "E", "ES":
			l = []string{what + " " + key + " " + x.String() + " " + y.String(), what + " " + key + " " + y.String() + " " + x.String()}
		case "W":
			l = []string{"W " + key + " " + x.String()}
		default:
			l = []string{what + " " + key + " " + x.String()}
		}
		ans, err := b.RunLines(l)
		if err != nil || len(ans) != len(l) {
			return "", "", false
		}
		cc := *c
		cc.x, cc.y = x, y
		cc.mirror = -1
		if what == "E" || what == "ES" {
			cc.mirror = 1
		}
		msg, exp := verdict(&cc, ans[0], ans)
		if msg == "" || classifyFail(&cc, ans[0], ans) != nil {
			return "", "", false
		}
		bestM, bestE = msg, exp
		return l[0], ans[0], true
	}
	bestL, bestA := "", ""
	switch c.what {
	case "E", "ES":
		x, y := c.x, c.y
		if values.Equal(x, y) {
			x = valgen.Shrink(s, c.sidx, x, func(v *values.Value) bool {
				l, a, ok := failing(c.what, v, v.Clone())
				if ok {
					bestL, bestA = l, a
				}
				return ok
			}, 120)
			y = x.Clone()
		}
		for round := 0; round < 2 && tries < 400; round++ {
			x = valgen.Shrink(s, c.sidx, x, func(v *values.Value) bool {
				l, a, ok := failing(c.what, v, y)
				if ok {
					bestL, bestA = l, a
				}
				return ok
			}, 100)
			y = valgen.Shrink(s, c.sidx, y, func(v *values.Value) bool {
				l, a, ok := failing(c.what, x, v)
				if ok {
					bestL, bestA = l, a
				}
				return ok
			}, 100)
		}
	case "W", "EI", "EA":
		valgen.Shrink(s, c.sidx, c.x, func(v *values.Value) bool {
			l, a, ok := failing(c.what, v, v)
			if ok {
				bestL, bestA = l, a
			}
			return ok
		}, 200)
	}
	return bestL, bestA, bestM, bestE
}

var _ = sort.Strings
