package main

import (
	"fmt"
	"math"
	"sort"

	"verifharness/internal/idlgen"
	"verifharness/internal/values"
)

// hand-written programs aimed at the shapes the property names (the random generator of idlgen covers
// them only by chance): optional fields with defaults of EVERY base type (incl. binary and enum), struct
// map keys, containers nested 4 deep, typedef'd structs, enums inside containers, cross-include types,
// negative / extreme ids, declaration order different from id order, > 8 and > 16 required fields (the
// required bitset of gen_fastread.go switches from one uint8 to an array), every fixed-size fast path of
// BLength (list/set of fixed, map fixed×fixed, fixed×var, var×fixed, var×var).

func tBase(k idlgen.Kind) *idlgen.Type    { return &idlgen.Type{Kind: k} }
func tList(e *idlgen.Type) *idlgen.Type   { return &idlgen.Type{Kind: idlgen.List, Elem: e} }
func tSet(e *idlgen.Type) *idlgen.Type    { return &idlgen.Type{Kind: idlgen.Set, Elem: e} }
func tMap(k, v *idlgen.Type) *idlgen.Type { return &idlgen.Type{Kind: idlgen.Map, Key: k, Elem: v} }
func tName(file int, n string) *idlgen.Type {
	return &idlgen.Type{Kind: idlgen.Named, Named: &idlgen.NamedRef{File: file, Name: n}}
}

func cInt(i int64) *idlgen.Const {
	return &idlgen.Const{Kind: idlgen.CInt, Text: fmt.Sprint(i), Val: values.Int(i)}
}
func cBool(b bool) *idlgen.Const {
	return &idlgen.Const{Kind: idlgen.CIdent, Text: fmt.Sprint(b), Val: values.Bool(b)}
}
func cDouble(text string, f float64) *idlgen.Const {
	return &idlgen.Const{Kind: idlgen.CDouble, Text: text, Val: values.Double(math.Float64bits(f))}
}
func cStr(s string) *idlgen.Const {
	return &idlgen.Const{Kind: idlgen.CString, Text: s, Quote: '"', Val: values.Str(s)}
}
func cEnum(text string, v int64) *idlgen.Const {
	return &idlgen.Const{Kind: idlgen.CIdent, Text: text, Val: values.Int(v)}
}

func cList(items ...*idlgen.Const) *idlgen.Const {
	c := &idlgen.Const{Kind: idlgen.CList, Sep: ",", Items: items, Val: &values.Value{K: values.KList, E: []*values.Value{}}}
	for _, it := range items {
		c.Val.E = append(c.Val.E, it.Val)
	}
	return c
}
func cSet(items ...*idlgen.Const) *idlgen.Const {
	c := cList(items...)
	c.Val.K = values.KSet
	return c
}
func cMap(kvs ...*idlgen.Const) *idlgen.Const {
	c := &idlgen.Const{Kind: idlgen.CMap, Sep: ",", Items: kvs, Val: &values.Value{K: values.KMap, E: []*values.Value{}}}
	for _, it := range kvs {
		c.Val.E = append(c.Val.E, it.Val)
	}
	return c
}

func fld(id int16, name string, req idlgen.Req, t *idlgen.Type, d *idlgen.Const) *idlgen.Field {
	return &idlgen.Field{ID: id, HasID: true, Name: name, Req: req, Type: t, Default: d}
}

const (
	rD = idlgen.Default
	rR = idlgen.Required
	rO = idlgen.Optional
)

// aimShapes: two files (the main file includes sub/base.thrift).
func aimShapes() *idlgen.Program {
	i32 := tBase(idlgen.I32)
	str := tBase(idlgen.String)
	base := &idlgen.File{
		Path: "sub/base.thrift", GoNS: "c10.base",
		Enums: []*idlgen.Enum{{Name: "Color", Values: []idlgen.EnumValue{{Name: "RED", Value: 1, HasValue: true}, {Name: "GREEN", Value: 2, HasValue: true}, {Name: "NEG", Value: -3, HasValue: true}}}},
		Structs: []*idlgen.Struct{
			{Kind: 's', Name: "Inner", Fields: []*idlgen.Field{
				fld(1, "x", rR, i32, nil),
				fld(2, "s", rO, str, nil),
				fld(3, "cs", rD, tList(tName(1, "Color")), nil),
				fld(4, "blob", rO, tBase(idlgen.Binary), nil), // the same inside nested / list-element / map-key structs
			}},
			{Kind: 'u', Name: "Choice", Fields: []*idlgen.Field{
				fld(1, "a", rO, i32, nil),
				fld(2, "b", rO, str, nil),
				fld(3, "c", rO, tName(1, "Inner"), nil),
				fld(4, "d", rO, tList(tBase(idlgen.I64)), nil),
			}},
			{Kind: 'e', Name: "Oops", Fields: []*idlgen.Field{
				fld(1, "msg", rD, str, nil),
				fld(2, "code", rO, i32, cInt(-1)),
			}},
		},
		Typedefs: []*idlgen.Typedef{{Name: "TInner", Type: tName(1, "Inner")}, {Name: "TColor", Type: tName(1, "Color")}, {Name: "TI", Type: i32}},
	}
	base.Order = []idlgen.DefRef{{Kind: 'e', Idx: 0}, {Kind: 's', Idx: 0}, {Kind: 's', Idx: 1}, {Kind: 's', Idx: 2}, {Kind: 't', Idx: 0}, {Kind: 't', Idx: 1}, {Kind: 't', Idx: 2}}
	inner := tName(1, "Inner")
	color := tName(1, "Color")
	main := &idlgen.File{
		Path: "aim.thrift", GoNS: "c10.aim", Includes: []int{1},
		Typedefs: []*idlgen.Typedef{{Name: "LocalInner", Type: tName(1, "TInner")}},
		Structs: []*idlgen.Struct{
			// optional fields with defaults of every base type; declaration order != id order; negative ids
			{Kind: 's', Name: "Defaults", Fields: []*idlgen.Field{
				fld(9, "ob", rO, tBase(idlgen.Bool), cBool(true)),
				fld(8, "oy", rO, tBase(idlgen.Byte), cInt(3)),
				fld(7, "oh", rO, tBase(idlgen.I16), cInt(-300)),
				fld(6, "oi", rO, i32, cInt(7)),
				fld(5, "ol", rO, tBase(idlgen.I64), cInt(1<<40)),
				fld(4, "od", rO, tBase(idlgen.Double), cDouble("1.5", 1.5)),
				fld(3, "os", rO, str, cStr("hi")),
				fld(2, "obin", rO, tBase(idlgen.Binary), cStr("abc")),
				fld(1, "oe", rO, color, cEnum("base.Color.GREEN", 2)),
				fld(-1, "neg", rO, i32, nil),
				fld(-32768, "lowest", rD, tBase(idlgen.Byte), nil),
				fld(32767, "highest", rD, tBase(idlgen.Bool), nil),
				fld(10, "dbin", rD, tBase(idlgen.Binary), cStr("xyz")),
				fld(11, "rbin", rR, tBase(idlgen.Binary), nil),
				fld(12, "pe", rO, color, nil),
				fld(13, "pd", rO, tBase(idlgen.Double), nil),
				fld(14, "pbin", rO, tBase(idlgen.Binary), nil), // optional binary WITHOUT default: the `!= nil` rule of isContainerType
				fld(15, "plb", rO, tList(tBase(idlgen.Binary)), nil),
			}},
			// every container shape of the BLength fast paths, struct map keys, nesting 4 deep
			{Kind: 's', Name: "Shapes", Fields: []*idlgen.Field{
				fld(1, "lfix", rD, tList(tBase(idlgen.I64)), nil),
				fld(2, "sfix", rD, tSet(tBase(idlgen.Byte)), nil),
				fld(3, "lbool", rO, tList(tBase(idlgen.Bool)), nil),
				fld(4, "lenum", rD, tList(color), nil),
				fld(5, "mff", rD, tMap(i32, tBase(idlgen.Double)), nil),
				fld(6, "mfv", rD, tMap(tBase(idlgen.I16), str), nil),
				fld(7, "mvf", rD, tMap(str, i32), nil),
				fld(8, "mvv", rD, tMap(str, tBase(idlgen.Binary)), nil),
				fld(9, "menum", rO, tMap(color, color), nil),
				fld(20, "mkey", rD, tMap(inner, tList(tSet(color))), nil),
				fld(21, "deep", rD, tList(tMap(str, tSet(tList(i32)))), nil),
				fld(22, "deep2", rO, tMap(i32, tList(tMap(tBase(idlgen.Byte), tList(tName(0, "LocalInner"))))), nil),
				fld(23, "ti", rD, tName(0, "LocalInner"), nil),
				fld(24, "ch", rO, tName(1, "Choice"), nil),
				fld(25, "lch", rD, tList(tName(1, "Choice")), nil),
				fld(26, "ex", rO, tName(1, "Oops"), nil),
				fld(27, "lstr", rD, tList(str), nil),
				fld(28, "rin", rR, inner, nil),
				fld(29, "ldbl", rD, tList(tBase(idlgen.Double)), nil),
				fld(30, "tc", rD, tName(1, "TColor"), nil),
				fld(31, "lti", rD, tList(tName(1, "TI")), nil),
			}},
		},
	}
	// 5, 8, 9, 14, 17 required fields: every shape of the bitset code (one uint8 with/without the `!= mask` wrapper,
	// an array with a full byte, a tail with/without wrapper)
	mkReq := func(name string, n int) *idlgen.Struct {
		st := &idlgen.Struct{Kind: 's', Name: name}
		kinds := []*idlgen.Type{i32, str, tBase(idlgen.Bool), tList(i32), tBase(idlgen.I64)}
		for i := 0; i < n; i++ {
			st.Fields = append(st.Fields, fld(int16(n-i), fmt.Sprintf("r%d", i), rR, kinds[i%len(kinds)], nil))
		}
		st.Fields = append(st.Fields, fld(int16(n+1), "opt", rO, i32, nil))
		return st
	}
	// container fields WITH IDL defaults (installed by NewT(), also for nested structs, list elements, map values): a
	// reader must REPLACE the default by what is on the wire (a subset, something else, nothing)
	main.Structs = append(main.Structs,
		&idlgen.Struct{Kind: 's', Name: "Limits", Fields: []*idlgen.Field{
			fld(1, "lim", rD, tMap(str, i32), cMap(cStr("cpu"), cInt(1), cStr("mem"), cInt(2))),
			fld(2, "li", rD, tList(i32), cList(cInt(1), cInt(2), cInt(3))),
			fld(3, "ss", rD, tSet(str), cSet(cStr("a"), cStr("b"))),
			fld(4, "om", rO, tMap(i32, str), cMap(cInt(1), cStr("x"))),
			fld(5, "n", rD, i32, nil),
			fld(6, "mm", rR, tMap(tBase(idlgen.I16), tList(i32)), cMap(cInt(7), cList(cInt(1)))),
		}},
		&idlgen.Struct{Kind: 's', Name: "Holder", Fields: []*idlgen.Field{
			fld(1, "one", rD, tName(0, "Limits"), nil),
			fld(2, "many", rD, tList(tName(0, "Limits")), nil),
			fld(3, "byName", rD, tMap(str, tName(0, "Limits")), nil),
			fld(4, "opt", rO, tName(0, "Limits"), nil),
		}})
	main.Structs = append(main.Structs, mkReq("Req5", 5), mkReq("Req8", 8), mkReq("Req9", 9), mkReq("Req14", 14), mkReq("Req17", 17), &idlgen.Struct{Kind: 's', Name: "Empty"})
	return &idlgen.Program{Files: []*idlgen.File{main, base}}
}

// reqCounts: the numbers of required fields of the aimed "required" unit, around the multiples of the word width w of
// the required-field bitset (regenerated from bitset.go / gen_fastread.go): 1, w±1, w, 2w±1, 2w, 3w…, 4w…, 8w….
func reqCounts(w int) []int {
	seen := map[int]bool{}
	var out []int
	add := func(n int) {
		if n >= 1 && !seen[n] {
			seen[n] = true
			out = append(out, n)
		}
	}
	add(1)
	for _, m := range []int{1, 2, 3, 4, 8} {
		add(m*w - 1)
		add(m * w)
		add(m*w + 1)
	}
	sort.Ints(out)
	return out
}

// aimRequired: one struct per count, n required fields with ids 1..n (declared in reverse order, so the bit of a field
// in the bitset, which follows the id order, is not its declaration index), kinds cycling, plus one optional field.
func aimRequired(w int) *idlgen.Program {
	kinds := []*idlgen.Type{tBase(idlgen.I32), tBase(idlgen.Bool), tBase(idlgen.String), tBase(idlgen.Byte)}
	f := &idlgen.File{Path: "req.thrift", GoNS: "c10.req"}
	for _, n := range reqCounts(w) {
		st := &idlgen.Struct{Kind: 's', Name: fmt.Sprintf("R%d", n)}
		for i := n; i >= 1; i-- {
			st.Fields = append(st.Fields, fld(int16(i), fmt.Sprintf("f%d", i), rR, kinds[i%len(kinds)], nil))
		}
		st.Fields = append(st.Fields, fld(int16(n+1), "opt", rO, tBase(idlgen.I32), nil))
		f.Structs = append(f.Structs, st)
	}
	return &idlgen.Program{Files: []*idlgen.File{f}}
}

// reqValue: every required field set to a small non-zero value, the optional one unset.
func reqValue(st *idlgen.SStruct) *values.Value {
	rec := &values.Value{K: values.KRecord, E: make([]*values.Value, len(st.Fields))}
	for i, fd := range st.Fields {
		switch {
		case fd.Req != idlgen.Required:
			rec.E[i] = values.Nil()
		case fd.Type.Kind == idlgen.RBool:
			rec.E[i] = values.Bool(true)
		case fd.Type.Kind == idlgen.RString:
			rec.E[i] = values.Str("s")
		default:
			rec.E[i] = values.Int(int64(fd.ID % 100))
		}
	}
	return rec
}

// probe programs: shapes the unchanged fastgo backend is known (docs/BATCH-notes.md) or suspected to
// mishandle. Each is its own unit; what happens (thriftgo exit status, compile errors) is reported in the
// statistics and in docs/C10.md as C10/C01 candidates, never as a C10 violation.
type probe struct {
	name string
	prog *idlgen.Program
	opts []string
}

func probes() []probe {
	i32 := tBase(idlgen.I32)
	str := tBase(idlgen.String)
	one := func(path, ns string, tds []*idlgen.Typedef, sts ...*idlgen.Struct) *idlgen.Program {
		return &idlgen.Program{Files: []*idlgen.File{{Path: path, GoNS: ns, Typedefs: tds, Structs: sts}}}
	}
	var ps []probe
	// typedef of a map used as a field type: nil dereference in genBLengthMap (t.KeyType of the typedef type)
	ps = append(ps, probe{name: "typedef_map", prog: one("a.thrift", "c10.p1",
		[]*idlgen.Typedef{{Name: "M", Type: tMap(str, i32)}},
		&idlgen.Struct{Kind: 's', Name: "S", Fields: []*idlgen.Field{fld(1, "m", rD, tName(0, "M"), nil)}})})
	// typedef of a list of a fixed-size type: BLength's slow loop declares an unused range variable
	ps = append(ps, probe{name: "typedef_list_fixed", prog: one("a.thrift", "c10.p2",
		[]*idlgen.Typedef{{Name: "L", Type: tList(i32)}},
		&idlgen.Struct{Kind: 's', Name: "S", Fields: []*idlgen.Field{fld(1, "l", rD, tName(0, "L"), nil)}})})
	// typedef of a list of a variable-size type: expected to work
	ps = append(ps, probe{name: "typedef_list_var", prog: one("a.thrift", "c10.p3",
		[]*idlgen.Typedef{{Name: "L", Type: tList(str)}},
		&idlgen.Struct{Kind: 's', Name: "S", Fields: []*idlgen.Field{fld(1, "l", rD, tName(0, "L"), nil)}})})
	// a package named like a local variable of the generated methods (b = the buffer)
	ps = append(ps, probe{name: "package_named_b", prog: &idlgen.Program{Files: []*idlgen.File{
		{Path: "a.thrift", GoNS: "c10.p4", Includes: []int{1}, Structs: []*idlgen.Struct{{Kind: 's', Name: "S", Fields: []*idlgen.Field{fld(1, "t", rD, tName(1, "T1"), nil), fld(2, "l", rD, tList(tName(1, "T1")), nil)}}}},
		{Path: "b.thrift", Structs: []*idlgen.Struct{{Kind: 's', Name: "T1", Fields: []*idlgen.Field{fld(1, "x", rD, i32, nil)}}}},
	}}})
	// value_type_in_container: FastRead assigns NewT() (a pointer) to a value slot
	ps = append(ps, probe{name: "value_type_in_container", opts: []string{"value_type_in_container"}, prog: one("a.thrift", "c10.p5", nil,
		&idlgen.Struct{Kind: 's', Name: "I", Fields: []*idlgen.Field{fld(1, "x", rD, i32, nil)}},
		&idlgen.Struct{Kind: 's', Name: "S", Fields: []*idlgen.Field{fld(1, "l", rD, tList(tName(0, "I")), nil)}})})
	// typedef of a set
	ps = append(ps, probe{name: "typedef_set_var", prog: one("a.thrift", "c10.p6",
		[]*idlgen.Typedef{{Name: "T", Type: tSet(str)}},
		&idlgen.Struct{Kind: 's', Name: "S", Fields: []*idlgen.Field{fld(1, "l", rO, tName(0, "T"), nil)}})})
	// map<binary, …>: the key variable is declared `string`, ReadBinary answers []byte
	ps = append(ps, probe{name: "binary_map_key", prog: one("a.thrift", "c10.p7", nil,
		&idlgen.Struct{Kind: 's', Name: "S", Fields: []*idlgen.Field{fld(1, "m", rD, tMap(tBase(idlgen.Binary), i32), nil)}})})
	// two files in one Go package
	ps = append(ps, probe{name: "shared_go_namespace", prog: &idlgen.Program{Files: []*idlgen.File{
		{Path: "a.thrift", GoNS: "c10.p8", Includes: []int{1}, Structs: []*idlgen.Struct{{Kind: 's', Name: "S", Fields: []*idlgen.Field{fld(1, "t", rD, tName(1, "T1"), nil)}}}},
		{Path: "b.thrift", GoNS: "c10.p8", Structs: []*idlgen.Struct{{Kind: 's', Name: "T1", Fields: []*idlgen.Field{fld(1, "x", rD, i32, nil)}}}},
	}}})
	// use_type_alias=false with a typedef'd struct
	ps = append(ps, probe{name: "use_type_alias_false", opts: []string{"use_type_alias=false"}, prog: one("a.thrift", "c10.p9",
		[]*idlgen.Typedef{{Name: "BB", Type: tName(0, "B")}},
		&idlgen.Struct{Kind: 's', Name: "B", Fields: []*idlgen.Field{fld(1, "x", rD, i32, nil)}},
		&idlgen.Struct{Kind: 's', Name: "S", Fields: []*idlgen.Field{fld(1, "b", rD, tName(0, "BB"), nil)}})})
	return ps
}
