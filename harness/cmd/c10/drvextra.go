package main

// extraDriver is added to the batch driver's package main (batch.Build extraDriverFiles): error-class ops.
//
//	FE <key> <hex>  FastRead: ok | err:required:<field> | err:other | panic
//	RE <key> <hex>  Read    : ok | err:required:<field> | err:other | panic | runaway
//	RG <key> <hex>  Read (as op R) over a guarded transport: ok <dump> | err | panic | runaway
//	                (apache thrift 0.13's Skip ignores read errors inside struct/map loops: on a corrupted input with
//	                a huge element count it spins for minutes at EOF; the guard gives up after 4096 failed reads)
//	HH <key> <m1m2> <hex1> <hex2>  HISTORY: one object (NewX()), first message read with m1, second with m2 into the SAME
//	                object (F = FastRead, R = standard Read): ok <dump> | err1 (first read failed) | err | panic
//	SK <ttype> <hex>  gopkg thrift.Binary.Skip: ok <n> | err   (n may exceed the input length: that is the point)
const extraDriver = `package main

import (
	"reflect"
	"strconv"
	"strings"

	"github.com/apache/thrift/lib/go/thrift"
	gthrift "github.com/cloudwego/gopkg/protocol/thrift"
)

func c10ErrClass(err error) string {
	if err == nil {
		return "ok"
	}
	m := err.Error()
	if i := strings.Index(m, "required field "); i >= 0 {
		rest := m[i+len("required field "):]
		if j := strings.Index(rest, " is not set"); j >= 0 {
			return "err:required:" + rest[:j]
		}
		return "err:required:?"
	}
	return "err:other"
}

// c10Guard counts failed reads of the transport and gives up (panic "runaway") after 4096 of them.
type c10Guard struct {
	*thrift.TMemoryBuffer
	fails int
}

type c10Runaway struct{}

func (g *c10Guard) note(err error) {
	if err != nil {
		g.fails++
		if g.fails > 4096 {
			panic(c10Runaway{})
		}
	}
}

func (g *c10Guard) Read(p []byte) (int, error) {
	n, err := g.TMemoryBuffer.Read(p)
	g.note(err)
	return n, err
}

func (g *c10Guard) ReadByte() (byte, error) {
	b, err := g.TMemoryBuffer.ReadByte()
	g.note(err)
	return b, err
}

// c10Read runs the standard generated Read over the guarded transport.
func c10Read(args []string) (e *entry, x interface{}, err error, status string) {
	defer func() {
		if r := recover(); r != nil {
			if _, ok := r.(c10Runaway); ok {
				status = "runaway"
				return
			}
			status = "panic"
		}
	}()
	e = lookup(args[0])
	b := hexIn(args[1])
	x = e.ctor()
	r, ok := x.(interface {
		Read(thrift.TProtocol) error
	})
	if !ok {
		return e, x, nil, "nomethod"
	}
	buf := thrift.NewTMemoryBuffer()
	buf.Write(b)
	err = r.Read(thrift.NewTBinaryProtocol(&c10Guard{TMemoryBuffer: buf}, true, true))
	return e, x, err, ""
}

func init() {
	extraOps["RG"] = func(args []string) string {
		e, x, err, status := c10Read(args)
		if status != "" {
			return status
		}
		if err != nil {
			return "err"
		}
		return "ok " + e.dumpObj(reflect.ValueOf(x))
	}
	extraOps["FE"] = func(args []string) string {
		_, _, _, err, ok := fastRead(args)
		if !ok {
			return "nomethod"
		}
		return c10ErrClass(err)
	}
	extraOps["RE"] = func(args []string) string {
		_, _, err, status := c10Read(args)
		if status != "" {
			return status
		}
		return c10ErrClass(err)
	}
	extraOps["HH"] = func(args []string) (out string) {
		defer func() {
			if r := recover(); r != nil {
				out = "panic"
			}
		}()
		e := lookup(args[0])
		mode := args[1]
		x := e.ctor()
		step := func(m byte, b []byte) error {
			if m == 'F' {
				_, err := x.(interface {
					FastRead([]byte) (int, error)
				}).FastRead(b)
				return err
			}
			buf := thrift.NewTMemoryBuffer()
			buf.Write(b)
			return x.(interface {
				Read(thrift.TProtocol) error
			}).Read(thrift.NewTBinaryProtocol(&c10Guard{TMemoryBuffer: buf}, true, true))
		}
		if err := step(mode[0], hexIn(args[2])); err != nil {
			return "err1"
		}
		if err := step(mode[1], hexIn(args[3])); err != nil {
			return "err"
		}
		return "ok " + e.dumpObj(reflect.ValueOf(x))
	}
	extraOps["SK"] = func(args []string) string {
		t, _ := strconv.Atoi(args[0])
		n, err := gthrift.Binary.Skip(hexIn(args[1]), gthrift.TType(t))
		if err != nil {
			return "err"
		}
		return "ok " + strconv.Itoa(n)
	}
}
`
