package main

// extraDriver is added to the batch driver's package main (batch.Build extraDriverFiles): error-class ops.
//
//	FE <key> <hex>  FastRead: ok | err:required:<field> | err:other | panic
//	RE <key> <hex>  Read    : ok | err:required:<field> | err:other | panic
//	SK <ttype> <hex>  gopkg thrift.Binary.Skip: ok <n> | err   (n may exceed the input length: that is the point)
const extraDriver = `package main

import (
	"strconv"
	"strings"

	"github.com/apache/thrift/lib/go/thrift"
	gthrift "github.com/cloudwego/gopkg/protocol/thrift"
)

func c10ErrClass(err error) string {
	if err == nil {
		return "ok"
	}
	m := err.Error()
	if i := strings.Index(m, "required field "); i >= 0 {
		rest := m[i+len("required field "):]
		if j := strings.Index(rest, " is not set"); j >= 0 {
			return "err:required:" + rest[:j]
		}
		return "err:required:?"
	}
	return "err:other"
}

func init() {
	extraOps["FE"] = func(args []string) string {
		_, _, _, err, ok := fastRead(args)
		if !ok {
			return "nomethod"
		}
		return c10ErrClass(err)
	}
	extraOps["RE"] = func(args []string) string {
		e := lookup(args[0])
		b := hexIn(args[1])
		x := e.ctor()
		r, ok := x.(interface {
			Read(thrift.TProtocol) error
		})
		if !ok {
			return "nomethod"
		}
		buf := thrift.NewTMemoryBuffer()
		buf.Write(b)
		return c10ErrClass(r.Read(thrift.NewTBinaryProtocol(buf, true, true)))
	}
	extraOps["SK"] = func(args []string) string {
		t, _ := strconv.Atoi(args[0])
		n, err := gthrift.Binary.Skip(hexIn(args[1]), gthrift.TType(t))
		if err != nil {
			return "err"
		}
		return "ok " + strconv.Itoa(n)
	}
}
`
