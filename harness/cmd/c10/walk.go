package main

import "fmt"

// tpos is the offset of one type byte inside a well-formed struct encoding.
type tpos struct {
	off  int
	kind string // field | elem | key | val
}

// typeBytes walks a well-formed binary-protocol struct (untyped) and returns the offsets of all type bytes:
// field type bytes at every nesting level (STOP bytes excluded) and the element / key / value type bytes of
// container headers.
func typeBytes(b []byte) ([]tpos, error) {
	var out []tpos
	n, err := walkStruct(b, 0, &out, 0)
	if err != nil {
		return nil, err
	}
	if n != len(b) {
		return nil, fmt.Errorf("trailing bytes")
	}
	return out, nil
}

func walkStruct(b []byte, off int, out *[]tpos, depth int) (int, error) {
	for {
		if off >= len(b) {
			return 0, fmt.Errorf("eof in struct")
		}
		t := b[off]
		if t == 0 {
			return off + 1, nil
		}
		*out = append(*out, tpos{off, "field"})
		off += 3
		var err error
		off, err = walkValue(b, off, t, out, depth+1)
		if err != nil {
			return 0, err
		}
	}
}

func walkValue(b []byte, off int, t byte, out *[]tpos, depth int) (int, error) {
	if depth > 80 {
		return 0, fmt.Errorf("too deep")
	}
	need := func(n int) error {
		if off+n > len(b) {
			return fmt.Errorf("eof")
		}
		return nil
	}
	switch t {
	case 2, 3:
		return off + 1, need(1)
	case 6:
		return off + 2, need(2)
	case 8:
		return off + 4, need(4)
	case 4, 10:
		return off + 8, need(8)
	case 11:
		if err := need(4); err != nil {
			return 0, err
		}
		n := int(b[off])<<24 | int(b[off+1])<<16 | int(b[off+2])<<8 | int(b[off+3])
		off += 4
		return off + n, need(n)
	case 12:
		return walkStruct(b, off, out, depth)
	case 13:
		if err := need(6); err != nil {
			return 0, err
		}
		kt, vt := b[off], b[off+1]
		*out = append(*out, tpos{off, "key"}, tpos{off + 1, "val"})
		n := int(b[off+2])<<24 | int(b[off+3])<<16 | int(b[off+4])<<8 | int(b[off+5])
		off += 6
		var err error
		for i := 0; i < n; i++ {
			if off, err = walkValue(b, off, kt, out, depth+1); err != nil {
				return 0, err
			}
			if off, err = walkValue(b, off, vt, out, depth+1); err != nil {
				return 0, err
			}
		}
		return off, nil
	case 14, 15:
		if err := need(5); err != nil {
			return 0, err
		}
		et := b[off]
		*out = append(*out, tpos{off, "elem"})
		n := int(b[off+1])<<24 | int(b[off+2])<<16 | int(b[off+3])<<8 | int(b[off+4])
		off += 5
		var err error
		for i := 0; i < n; i++ {
			if off, err = walkValue(b, off, et, out, depth+1); err != nil {
				return 0, err
			}
		}
		return off, nil
	}
	return 0, fmt.Errorf("bad type %d", t)
}
