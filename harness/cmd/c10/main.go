// c10: harness for property C10 (the fastgo codec agrees with the standard codec and BLength is exact).
//
//	c10 extract -repo R                                print Generated/C10.lean (tables of generator/fastgo/consts.go, utils.go)
//	c10 run     -repo R -dir D -seed N -tier T [-keep] units (fastgo backend) -> batch.Build -> ops -> oracle; ops.txt impl.txt stats.json
//	c10 replay  = run (the check filters on the key of the replay document; keys are seed independent where they
//	              stand for a class, and the seed is part of the replay document otherwise)
//	c10 idl                                            print the aimed program
//
// Ops sent to BOTH the generated code and the Lean model (tv_c10): FW, BL, FN, FR, FO, SK.
// Ops answered by the generated code only (oracle): RG (= R over a guarded transport), FE, RE.
package main

import (
	"encoding/hex"
	"errors"
	"flag"
	"fmt"
	"os"
	"path/filepath"
	"regexp"
	"sort"
	"strconv"
	"strings"
	"syscall"
	"time"

	"verifharness/internal/batch"
	"verifharness/internal/idlgen"
	"verifharness/internal/refcodec"
	"verifharness/internal/values"
	"verifharness/internal/values/valgen"
	"verifharness/internal/vl"
)

// option sets for the random fastgo units (the aimed unit uses none). All of them compile with fastgo on the
// unchanged tree; value_type_in_container and use_type_alias=false do not (see probes / docs/C10.md).
var optionSets = [][]string{
	{},
	{"keep_unknown_fields"},
	{"enum_as_int_32"},
	{"naming_style=golint", "gen_setter"},
	{"validate_set=false"},
	{"nil_safe", "frugal_tag", "reorder_fields"},
	{"gen_deep_equal", "compatible_names"},
}

func has(opts []string, o string) bool {
	for _, x := range opts {
		if x == o {
			return true
		}
	}
	return false
}

func main() {
	if len(os.Args) < 2 {
		fmt.Fprintln(os.Stderr, "usage: c10 extract|run|replay|idl [flags]")
		os.Exit(2)
	}
	fs := flag.NewFlagSet(os.Args[1], flag.ExitOnError)
	repo := fs.String("repo", "/repo", "repository under test")
	dir := fs.String("dir", "", "output directory")
	seed := fs.Uint64("seed", 1, "seed")
	tier := fs.String("tier", "quick", "quick|thorough")
	keep := fs.Bool("keep", false, "keep the work directory")
	nprog := fs.Int("programs", 0, "number of random programs (0 = by tier)")
	nval := fs.Int("values", 0, "values per struct (0 = by tier)")
	fs.Parse(os.Args[2:])
	switch os.Args[1] {
	case "extract":
		if err := extract(*repo); err != nil {
			fmt.Fprintln(os.Stderr, "c10 extract:", err)
			os.Exit(3)
		}
	case "idl":
		p := aimShapes()
		files := p.Render()
		var names []string
		for n := range files {
			names = append(names, n)
		}
		sort.Strings(names)
		for _, n := range names {
			fmt.Printf("==== %s\n%s", n, files[n])
		}
		for _, l := range p.Schema().Lines("u0", nil) {
			fmt.Println(l)
		}
	case "run", "replay":
		if *dir == "" {
			fmt.Fprintln(os.Stderr, "-dir is required")
			os.Exit(2)
		}
		cfg := runCfg{programs: 8, values: 2, truncCap: 80, corruptPer: 3, skOps: 1000}
		if *tier == "thorough" {
			cfg = runCfg{programs: 24, values: 5, truncCap: 200, corruptPer: 8, skOps: 10000, probes: true}
		}
		if *nprog > 0 {
			cfg.programs = *nprog
		}
		if *nval > 0 {
			cfg.values = *nval
		}
		os.Exit(run(*repo, *dir, *seed, cfg, *keep))
	default:
		fmt.Fprintln(os.Stderr, "unknown subcommand", os.Args[1])
		os.Exit(2)
	}
}

type runCfg struct {
	programs   int  // random programs (plus the aimed one)
	values     int  // values per struct
	truncCap   int  // at most this many truncation points per encoding (all of them when the encoding is shorter)
	corruptPer int  // replacement bytes tried per type byte
	skOps      int  // direct gopkg Skip ops
	probes     bool // run the probe units (known-bad shapes) in a second batch
}

// line classes
const (
	kFW      = "FW"
	kBL      = "BL"
	kFN      = "FN"
	kValid   = "valid"   // FR/R pair on a well-formed input: must agree exactly, and with the reference codec
	kTrunc   = "trunc"   // FR/R pair on a truncated input: both must fail
	kCorrupt = "corrupt" // FR/R pair on a type-corrupted input: no panic; both ok => same object
	kFO      = "FO"
	kErrCls  = "errclass" // FE/RE pair
	kSK      = "SK"
	kHist    = "history" // HH: two messages read into ONE object, every mix of FastRead / Read must leave the same object
	kDepth   = "depth" // FR/R pair on deeply nested unknown fields (divergences are counted, not violations)
)

type check struct {
	class   string
	unit    *batch.UnitInfo
	sidx    int
	value   *values.Value
	expect  *values.Value // valid: expected dump (nil with wantErr=false: no reference expectation)
	wantErr bool
	noRef   bool   // valid: compare FR with R only
	pair    int    // index of the partner line (R for FR, RE for FE, FW for BL/FN), -1 none
	wantOff int    // FO
	note    string // sub-class for statistics
	toModel bool
	ref     int  // history: index of the RG line of the second message on a fresh object
	covers  bool // history: the second message carries every top-level field the first one carries
}

type lineSet struct {
	lines  []string
	checks []*check
}

func (ls *lineSet) add(line string, c *check) int {
	ls.lines = append(ls.lines, line)
	ls.checks = append(ls.checks, c)
	return len(ls.lines) - 1
}

func run(repo, dir string, seed uint64, cfg runCfg, keep bool) int {
	t0 := time.Now()
	if err := os.MkdirAll(dir, 0o755); err != nil {
		fmt.Fprintln(os.Stderr, err)
		return 2
	}
	work := filepath.Join(dir, "work")
	os.RemoveAll(work)
	if !keep {
		defer os.RemoveAll(work)
	}
	out := vl.NewOut(dir)
	defer out.Close()
	r := vl.NewRng(vl.NewRng(seed).U64())

	// ---- units: the aimed program + random programs, all with the fastgo backend, ONE batch
	icfg := idlgen.DefaultConfig()
	icfg.SafeNames = true
	icfg.NoTypedefContainers = true // fastgo: typedef'd containers are probed separately (thriftgo panics / output does not compile)
	icfg.NoGoNS = false             // fastgo: a package named like a local variable (b, p, x, l) is probed separately
	icfg.SharedGoNS = false         // fastgo: two files in one Go package: self import / ThriftGoUnusedProtection redeclared (probed separately)
	icfg.BinaryMapKeys = false      // fastgo: FastRead of map<binary,…> does not compile (probed separately)
	var units []batch.Unit
	units = append(units, batch.Unit{Prog: aimShapes(), Backend: "fastgo", Recurse: true, Tag: "aim", NoSynth: true})
	wordBits, werr := issetWordBits(repo)
	if werr != nil {
		fmt.Println("ERROR: cannot read the bitset word width from the repo:", werr)
		return 2
	}
	out.Stats["isset_word_bits"] = wordBits
	// the fastgo unit holds BOTH codecs of the program (the fastgo backend runs the go backend first): FastRead and
	// the standard Read of the same generated type are compared side by side
	units = append(units, batch.Unit{Prog: aimRequired(wordBits), Backend: "fastgo", Recurse: true, Tag: "aimreq", NoSynth: true})
	for i := 0; i < cfg.programs; i++ {
		p := idlgen.Generate(r, icfg)
		p.Stats(out.Count)
		o := optionSets[(i+int(seed))%len(optionSets)]
		if i == 0 {
			o = optionSets[0]
		}
		units = append(units, batch.Unit{Prog: p, Backend: "fastgo", Recurse: true, Options: o, Tag: fmt.Sprintf("rand%d", i)})
	}
	b, err := batch.Build(work, repo, units, map[string]string{"c10extra.go": extraDriver})
	if b != nil {
		fmt.Println(b.Summary())
	}
	if err != nil {
		fmt.Println("ERROR:", err)
		return 2
	}
	bad := 0
	for i := range b.Units {
		u := &b.Units[i]
		if u.OK() {
			continue
		}
		bad++
		// a unit thriftgo rejects or whose output does not compile is C01's business: counted, described, not a C10 verdict
		out.Count("unit.unusable")
		out.Sample(map[string]interface{}{"unusable_unit": u.Key, "tag": u.Tag, "options": u.Options, "exit": u.Exit, "build": firstN(u.BuildErrors, 4), "stderr": firstLines(u.Stderr, 4)})
		fmt.Printf("UNIT %s (%s %v) not usable: exit=%d build=%v stderr=%s\n", u.Key, u.Tag, u.Options, u.Exit, firstN(u.BuildErrors, 3), firstLines(u.Stderr, 3))
	}
	// a unit that thriftgo rejects or whose output does not compile is REPORTED, never silently skipped (the shapes known
	// to break the unchanged fastgo backend are kept out of the generated programs and live in the probes): the FastRead /
	// FastWrite / BLength of that program cannot even be built. Keyed by unit kind and normalised first error.
	for i := range b.Units {
		u := &b.Units[i]
		if u.OK() {
			continue
		}
		first := "thriftgo exit " + strconv.Itoa(u.Exit)
		if u.Exit == 0 {
			first = "registry: generated types not found"
			if len(u.ParseErrors) > 0 {
				first = u.ParseErrors[0]
			} else if len(u.BuildErrors) > 0 {
				first = u.BuildErrors[0]
			}
		} else {
			first += ": " + firstLines(u.Stderr, 1)
		}
		kind := u.Tag
		if strings.HasPrefix(kind, "rand") {
			kind = "random"
		}
		out.Fail(vl.OracleFail{Key: "unit-unusable|" + kind + "|" + normErr(first),
			What: "the code generated by -g fastgo for this program does not build (unit " + u.Tag + ")",
			Input: map[string]interface{}{"tag": u.Tag, "options": u.Options, "cmd": u.Cmd, "idl": renderAll(units[i].Prog)},
			Expected: "thriftgo exit 0 and generated code that compiles",
			Observed: map[string]interface{}{"exit": u.Exit, "stderr": firstLines(u.Stderr, 6), "parse": firstN(u.ParseErrors, 4), "build": firstN(u.BuildErrors, 6)}})
	}
	if chk, err := b.Check(); err != nil || !strings.Contains(chk, " bad 0") {
		fmt.Println("driver -check:", chk, err)
		out.Fail(vl.OracleFail{Key: "registry", What: "driver registry self check", Observed: chk})
	}

	// ---- ops
	ls := &lineSet{}
	for i := range b.Units {
		u := &b.Units[i]
		if !u.OK() {
			continue
		}
		for _, l := range u.SchemaLines() {
			ls.add(l, &check{class: "schema", toModel: true, pair: -1})
		}
		out.Count("unit.options." + strings.Join(u.PLineOptions(), ","))
		vcfg := valgen.Config{Count: out.Count, NilElems: true, UnionAnyCount: true, NilUnions: true}
		vcfg.DupSets = true // FastAppend does not validate sets
		if u.Tag == "aim" {
			// regression items first: the fixed inputs that witnessed the three defects of the unguarded generator
			// (docs/C10.md) and the other aimed reads/values, before anything random
			for sidx, st := range u.Schema.Structs {
				key := fmt.Sprintf("%s:%d", u.Key, sidx)
				aimedReads(u, sidx, key, st, ls)
			}
			for sidx := range u.Schema.Structs {
				key := fmt.Sprintf("%s:%d", u.Key, sidx)
				avs := aimedValues(u.Schema, sidx)
				for _, v := range avs {
					genOps(r, cfg, u, sidx, key, v, ls, out)
				}
				for i := range avs { // object reuse: every ordered pair of neighbouring aimed values
					historyOps(u, sidx, key, avs[i], avs[(i+1)%len(avs)], ls)
					historyOps(u, sidx, key, avs[(i+1)%len(avs)], avs[i], ls)
				}
			}
		}
		if u.Tag == "aimreq" {
			for sidx, st := range u.Schema.Structs {
				requiredPatterns(u, sidx, fmt.Sprintf("%s:%d", u.Key, sidx), st, wordBits, ls, out)
			}
			continue
		}
		for sidx := range u.Schema.Structs {
			key := fmt.Sprintf("%s:%d", u.Key, sidx)
			nv := cfg.values
			if u.Tag == "aim" {
				nv = cfg.values * 2
			}
			var prev *values.Value
			for k := 0; k < nv; k++ {
				v := valgen.Gen(r, u.Schema, sidx, 1+r.Intn(6), vcfg)
				out.Count(fmt.Sprintf("val.depth.%d", v.Depth()))
				genOps(r, cfg, u, sidx, key, v, ls, out)
				if prev != nil {
					historyOps(u, sidx, key, prev, v, ls)
				}
				prev = v
			}
		}
	}
	skOps(r, cfg.skOps, ls)

	if p := os.Getenv("C10_DUMP_LINES"); p != "" { // debugging aid: the op lines before the driver sees them
		os.WriteFile(p, []byte(strings.Join(ls.lines, "\n")+"\n"), 0o644)
	}
	// Memory is outside the model: a type-corrupted input can misalign the parse so that garbage is read as a
	// container count, and BOTH generated readers allocate from the header (`make([]T, n)`, `make(map, n)`, up to
	// 2^31 elements). The driver runs under an address-space limit so that such an op ends in a quick fatal error
	// (answer `crash`, driver restarted) instead of swapping for minutes; lines are fed in chunks because
	// batch.RunLines gives up after 50 crashes.
	limitMemory(6 << 30)
	answers := make([]string, 0, len(ls.lines))
	for start := 0; start < len(ls.lines); start += 3000 {
		end := start + 3000
		if end > len(ls.lines) {
			end = len(ls.lines)
		}
		a, err := b.RunLines(ls.lines[start:end])
		if err != nil {
			fmt.Println("ERROR:", err)
			return 2
		}
		answers = append(answers, a...)
	}

	// ---- oracle + correspondence files
	fails := 0
	report := func(i int, key, what, expected string) {
		c := ls.checks[i]
		fails++
		if fails <= 12 {
			fmt.Printf("ORACLE FAIL [%s] %s\n  op: %.300s\n  got: %.300s\n", key, what, ls.lines[i], answers[i])
		}
		in := map[string]interface{}{"op": ls.lines[i]}
		if c.unit != nil {
			in["unit"], in["tag"], in["options"], in["backend"], in["schema"], in["idl"] = c.unit.Key, c.unit.Tag, c.unit.Options, c.unit.Backend, c.unit.SchemaLines(), renderAll(units[c.unit.Index].Prog)
		}
		if c.pair >= 0 {
			in["partner_op"], in["partner_answer"] = ls.lines[c.pair], answers[c.pair]
		}
		out.Fail(vl.OracleFail{Key: key, What: what, Input: in, Expected: expected, Observed: answers[i]})
		out.Sample(map[string]string{"op": trunc(ls.lines[i], 300), "got": trunc(answers[i], 200), "why": what})
	}
	var panics []int
	shrunk := 0
	for i, line := range ls.lines {
		c := ls.checks[i]
		ans := answers[i]
		if ans == "crash" && (c.class == kCorrupt || c.class == "R" || c.class == "RE" || c.class == kErrCls) {
			// resource exhaustion on a corrupted input (see limitMemory): outside the model, counted
			out.Count("outside.memory_crash." + strings.Fields(line)[0])
			continue
		}
		if c.toModel {
			impl := ans
			if (c.class == kFW || c.class == kFN) && strings.HasPrefix(ans, "ok ") {
				// Go map iteration order is random: map entries are canonicalised (sorted by encoded key) on both sides
				if raw, err := hex.DecodeString(strings.TrimPrefix(ans[3:], "-")); err == nil {
					if cb, err := refcodec.Canon(raw); err == nil {
						impl = "ok " + hx(cb)
					} else {
						impl = "ok malformed:" + ans[3:]
					}
				}
			}
			out.Case(line, impl, c.class != "schema")
		}
		out.Count("op." + c.class + "." + strings.Fields(line + " ?")[0])
		if ans == "crash" {
			report(i, line, "the driver process died on this op", "an answer")
			continue
		}
		key, what, exp := verdict(ls, answers, i, out.Count)
		if what != "" && key == "" && shrunk < 4 && (c.class == kFW || c.class == kBL || c.class == kFN) && c.value != nil {
			// minimise the value (greedy, type-directed) with the driver as the judge
			shrunk++
			ukey := fmt.Sprintf("%s:%d", c.unit.Key, c.sidx)
			judge := func(v *values.Value) (int, *lineSet, []string) {
				l2 := &lineSet{}
				genWriteOps(c.unit, c.sidx, ukey, v, l2)
				a2, err := b.RunLines(l2.lines)
				if err != nil {
					return -1, l2, a2
				}
				for j := range l2.lines {
					if l2.checks[j].class == c.class {
						if _, w2, _ := verdict(l2, a2, j, func(string) {}); w2 != "" {
							return j, l2, a2
						}
					}
				}
				return -1, l2, a2
			}
			small := valgen.Shrink(c.unit.Schema, c.sidx, c.value, func(v *values.Value) bool { j, _, _ := judge(v); return j >= 0 }, 120)
			if j, l2, a2 := judge(small); j >= 0 {
				out.Count("shrink.done")
				_, w2, e2 := verdict(l2, a2, j, func(string) {})
				fails++
				if fails <= 12 {
					fmt.Printf("ORACLE FAIL (shrunk from %d to %d nodes) %s\n  op: %.300s\n  got: %.300s\n", c.value.Size(), small.Size(), w2, l2.lines[j], a2[j])
				}
				in := map[string]interface{}{"op": l2.lines[j], "original_op": trunc(line, 2000), "unit": c.unit.Key, "tag": c.unit.Tag, "options": c.unit.Options,
					"backend": c.unit.Backend, "schema": c.unit.SchemaLines(), "idl": renderAll(units[c.unit.Index].Prog)}
				if p := l2.checks[j].pair; p >= 0 {
					in["partner_op"], in["partner_answer"] = l2.lines[p], a2[p]
				}
				out.Fail(vl.OracleFail{Key: l2.lines[j], What: w2, Input: in, Expected: e2, Observed: a2[j]})
				out.Sample(map[string]string{"op": trunc(l2.lines[j], 300), "got": trunc(a2[j], 200), "why": w2})
				continue
			}
		}
		if what != "" {
			if key == "FR-panic" {
				// many inputs, few causes: the check keys them by cause (asking the model why it panics, see checks/c10.py);
				// the shortest inputs are reported
				panics = append(panics, i)
				out.Count("oracle.fail.FR_panic." + c.class)
				fails++
				continue
			}
			if key == "" {
				key = line
			}
			report(i, key, what, exp)
		}
	}
	sort.SliceStable(panics, func(a, b int) bool {
		aa, ab := strings.HasPrefix(ls.checks[panics[a]].note, "aim_"), strings.HasPrefix(ls.checks[panics[b]].note, "aim_")
		if aa != ab {
			return aa // the fixed, seed-independent inputs first
		}
		return len(ls.lines[panics[a]]) < len(ls.lines[panics[b]])
	})
	for k, i := range panics {
		if k >= 60 {
			break
		}
		fails--
		report(i, "FR-panic|"+ls.lines[i], "FastRead panics ("+ls.checks[i].class+"/"+ls.checks[i].note+")", "err (or ok), never a panic")
	}
	// ---- probes (thorough): known-bad shapes in a second batch; outcome goes into the statistics only
	if cfg.probes {
		runProbes(filepath.Join(work, "probes"), repo, out)
	}
	fmt.Printf("c10: seed %d, %d units (%d unusable), %d op lines (%d to the model), %d oracle failures, %.1fs total\n",
		seed, len(b.Units), bad, len(ls.lines), out.Evals, fails, time.Since(t0).Seconds())
	for k, d := range b.Timing {
		out.Stats["timing_ms."+k] = int(d.Milliseconds())
	}
	if fails > 0 {
		return 1
	}
	return 0
}

func limitMemory(bytes uint64) {
	l := syscall.Rlimit{Cur: bytes, Max: bytes}
	if err := syscall.Setrlimit(syscall.RLIMIT_AS, &l); err != nil {
		fmt.Println("warning: cannot set RLIMIT_AS:", err)
	}
}

// normErr strips unit directories and positions from a compiler message so that the key does not depend on the batch.
var normErrRe = regexp.MustCompile(`(^|[\s(])(?:[\w./-]*/)?([\w-]+\.go):\d+:\d+:`)

func normErr(s string) string {
	s = normErrRe.ReplaceAllString(s, "$1$2:")
	s = regexp.MustCompile(`batch/u\d+/`).ReplaceAllString(s, "")
	return strings.TrimSpace(s)
}

func renderAll(p *idlgen.Program) map[string]string { return p.Render() }

func trunc(s string, n int) string {
	if len(s) > n {
		return s[:n] + "…"
	}
	return s
}

func firstN(xs []string, n int) []string {
	if len(xs) > n {
		return xs[:n]
	}
	return xs
}

func firstLines(s string, n int) string {
	l := strings.Split(strings.TrimSpace(s), "\n")
	if len(l) > n {
		l = l[:n]
	}
	return strings.Join(l, " | ")
}

func hx(b []byte) string {
	if len(b) == 0 {
		return "-"
	}
	return hex.EncodeToString(b)
}

// ---------------------------------------------------------------------------------------------- op generation

// addRead adds the pair (FR -> model, R -> oracle only) for one input.
func addRead(ls *lineSet, c check, key string, in []byte) {
	h := hx(in)
	rc := c
	rc.toModel, rc.pair, rc.class = false, -1, "R"
	ri := ls.add("RG "+key+" "+h, &rc)
	fc := c
	fc.toModel, fc.pair = true, ri
	ls.add("FR "+key+" "+h, &fc)
}

// genWriteOps adds FW / BL / FN for one value and returns the reference encoding and normal form.
func genWriteOps(u *batch.UnitInfo, sidx int, key string, v *values.Value, ls *lineSet) (enc []byte, encErr error, norm *values.Value, normErr error) {
	s := u.Schema
	vs := v.String()
	enc, encErr = refcodec.Encode(s, sidx, v)
	if encErr == nil {
		norm, normErr = refcodec.Decode(s, sidx, enc)
	}
	// (1) FastAppend / BLength / FastWrite
	fw := &check{class: kFW, unit: u, sidx: sidx, value: v, toModel: true, pair: -1}
	switch {
	case errors.Is(encErr, refcodec.ErrNilUnion):
		fw.noRef, fw.note = true, "nil_union" // standard Write panics on a nil union; FastAppend writes an empty struct
	case errors.Is(encErr, refcodec.ErrUnionCount):
		fw.noRef, fw.note = true, "union_count" // FastAppend has no union check (gen_fastwrite.go TODO)
	case encErr != nil:
		fw.noRef, fw.note = true, "encode_"+encErr.Error()
	case normErr != nil:
		fw.wantErr = true // no normal form (nil struct with required members): the bytes must not decode either
	default:
		fw.expect = norm
	}
	fwi := ls.add("FW "+key+" "+vs, fw)
	ls.add("BL "+key+" "+vs, &check{class: kBL, unit: u, sidx: sidx, value: v, toModel: true, pair: fwi})
	ls.add("FN "+key+" "+vs, &check{class: kFN, unit: u, sidx: sidx, value: v, toModel: true, pair: fwi})
	return
}

func genOps(r *vl.Rng, cfg runCfg, u *batch.UnitInfo, sidx int, key string, v *values.Value, ls *lineSet, out *vl.Out) {
	s := u.Schema
	st := s.Structs[sidx]
	enc, encErr, norm, normErr := genWriteOps(u, sidx, key, v, ls)
	if encErr != nil {
		return
	}
	// (2) reads of the reference encoding (= what the standard Write produces, schema order)
	rd := check{class: kValid, unit: u, sidx: sidx, value: v, expect: norm, wantErr: normErr != nil, note: "std_bytes"}
	addRead(ls, rd, key, enc)
	if normErr != nil {
		return
	}
	// trailing garbage: FastRead reports the bytes it consumed
	ls.add("FO "+key+" "+hx(append(append([]byte{}, enc...), 0xde, 0xad, 0x0c)), &check{class: kFO, unit: u, sidx: sidx, wantOff: len(enc), toModel: true, pair: -1})
	fields, err := refcodec.Split(enc)
	if err != nil {
		panic(err)
	}
	// (2b) the same fields in reverse order and sorted by id (what FastAppend emits)
	{
		rev := append([]refcodec.RawField{}, fields...)
		for i, j := 0, len(rev)-1; i < j; i, j = i+1, j-1 {
			rev[i], rev[j] = rev[j], rev[i]
		}
		c := rd
		c.note = "reversed"
		addRead(ls, c, key, refcodec.Join(rev))
	}
	// (3a) unknown fields inserted: nothing changes
	withUnknown := enc
	{
		fs := append([]refcodec.RawField{}, fields...)
		n := 1 + r.Intn(2)
		for k := 0; k < n; k++ {
			id := int16(r.Intn(300)) - 100
			for st.FieldByID(id) >= 0 || hasID(fs, id) {
				id++
			}
			t, val := unknownSample(r)
			pos := r.Intn(len(fs) + 1)
			fs = append(fs[:pos], append([]refcodec.RawField{{Type: t, ID: id, Value: val}}, fs[pos:]...)...)
		}
		withUnknown = refcodec.Join(fs)
		c := rd
		c.note = "unknown"
		addRead(ls, c, key, withUnknown)
	}
	// (3b) one field retagged: it keeps its initial value (or the read fails if it is required)
	if len(fields) > 0 {
		pos := r.Intn(len(fields))
		fi := st.FieldByID(fields[pos].ID)
		t := refcodec.AllTypes[r.Intn(len(refcodec.AllTypes))]
		for t == refcodec.WireType(st.Fields[fi].Type) {
			t = refcodec.AllTypes[r.Intn(len(refcodec.AllTypes))]
		}
		fs := append([]refcodec.RawField{}, fields...)
		fs[pos] = refcodec.RawField{Type: t, ID: fields[pos].ID, Value: refcodec.Sample(r, t, 0)}
		c := check{class: kValid, unit: u, sidx: sidx, value: v, note: "retag"}
		if st.Fields[fi].Req == idlgen.Required {
			c.wantErr = true
		} else {
			c.expect = norm.Clone()
			c.expect.E[fi] = st.Fields[fi].Initial()
		}
		addRead(ls, c, key, refcodec.Join(fs))
	}
	// (3c) a required field deleted: both fail, with the same error class
	var req []int
	for i, f := range fields {
		if st.Fields[st.FieldByID(f.ID)].Req == idlgen.Required {
			req = append(req, i)
		}
	}
	// each required field in turn
	for _, pos := range req {
		fs := append(append([]refcodec.RawField{}, fields[:pos]...), fields[pos+1:]...)
		in := refcodec.Join(fs)
		addRead(ls, check{class: kValid, unit: u, sidx: sidx, value: v, wantErr: true, note: "required_deleted"}, key, in)
		ri := ls.add("RE "+key+" "+hx(in), &check{class: "RE", unit: u, sidx: sidx, pair: -1})
		ls.add("FE "+key+" "+hx(in), &check{class: kErrCls, unit: u, sidx: sidx, pair: ri, note: "required_deleted"})
	}
	// (4) EVERY truncation point (of the encoding with unknown fields; capped by sampling for long encodings)
	cuts := make([]int, 0, len(withUnknown))
	if len(withUnknown) <= cfg.truncCap {
		for k := 0; k < len(withUnknown); k++ {
			cuts = append(cuts, k)
		}
		out.Count("trunc.all_points")
	} else {
		seen := map[int]bool{}
		for len(cuts) < cfg.truncCap {
			k := r.Intn(len(withUnknown))
			if !seen[k] {
				seen[k] = true
				cuts = append(cuts, k)
			}
		}
		sort.Ints(cuts)
		out.Count("trunc.sampled_points")
	}
	for _, k := range cuts {
		addRead(ls, check{class: kTrunc, unit: u, sidx: sidx, value: v, wantErr: true, note: "trunc"}, key, withUnknown[:k])
	}
	if len(cuts) > 0 {
		k := cuts[r.Intn(len(cuts))]
		ri := ls.add("RE "+key+" "+hx(withUnknown[:k]), &check{class: "RE", unit: u, sidx: sidx, pair: -1})
		ls.add("FE "+key+" "+hx(withUnknown[:k]), &check{class: kErrCls, unit: u, sidx: sidx, pair: ri, note: "trunc"})
	}
	// (5) single-byte corruption of EVERY type byte (field types at every level, element/key/value types)
	pos, werr := typeBytes(withUnknown)
	if werr != nil {
		panic("c10: walker failed on a well-formed encoding: " + werr.Error())
	}
	out.Count(fmt.Sprintf("corrupt.typebytes.%s", bucket(len(pos))))
	for _, p := range pos {
		per := cfg.corruptPer
		if u.Tag == "aim" && cfg.probes {
			per = len(replAll) // thorough tier: every replacement value for every type byte of the aimed unit
		}
		for _, nb := range replacements(r, withUnknown[p.off], per) {
			in := append([]byte{}, withUnknown...)
			in[p.off] = nb
			addRead(ls, check{class: kCorrupt, unit: u, sidx: sidx, value: v, note: p.kind}, key, in)
		}
	}
}

func bucket(n int) string {
	switch {
	case n == 0:
		return "0"
	case n <= 4:
		return "1-4"
	case n <= 16:
		return "5-16"
	case n <= 64:
		return "17-64"
	}
	return "65+"
}

func hasID(fs []refcodec.RawField, id int16) bool {
	for _, f := range fs {
		if f.ID == id {
			return true
		}
	}
	return false
}

// replacement bytes for a type byte: every valid wire type, STOP, VOID, the unused small codes, UTF8/UTF16, two
// high values. n >= 17: all of them; else STRUCT, MAP, STOP (the deep skippers / the terminator) plus random others.
var replAll = []byte{0, 1, 2, 3, 4, 5, 6, 8, 10, 11, 12, 13, 14, 15, 16, 0x40, 0xff}

func replacements(r *vl.Rng, orig byte, n int) []byte {
	var out []byte
	if n >= len(replAll) {
		for _, b := range replAll {
			if b != orig {
				out = append(out, b)
			}
		}
		return out
	}
	pick := map[byte]bool{}
	for _, b := range []byte{12, 13, 0} {
		if b != orig && len(pick) < n {
			pick[b] = true
		}
	}
	for len(pick) < n {
		b := replAll[r.Intn(len(replAll))]
		if b != orig {
			pick[b] = true
		}
	}
	for b := range pick {
		out = append(out, b)
	}
	sort.Slice(out, func(i, j int) bool { return out[i] < out[j] })
	return out
}

// unknownSample: a well-formed value for an inserted unknown field; half of them from shapes aimed at the Skip
// fast/slow paths of the runtime library (fixed-size elements, string keys with fixed-size values, ...).
func unknownSample(r *vl.Rng) (byte, []byte) {
	if r.Chance(50) {
		t := refcodec.AllTypes[r.Intn(len(refcodec.AllTypes))]
		return t, refcodec.Sample(r, t, 0)
	}
	be32 := func(n int) []byte { return []byte{byte(n >> 24), byte(n >> 16), byte(n >> 8), byte(n)} }
	str := func(s string) []byte { return append(be32(len(s)), s...) }
	cat := func(bs ...[]byte) []byte {
		var o []byte
		for _, b := range bs {
			o = append(o, b...)
		}
		return o
	}
	switch r.Intn(8) {
	case 0: // map<string,i32> 2 entries
		return refcodec.TMap, cat([]byte{refcodec.TString, refcodec.TI32}, be32(2), str("k"), be32(1), str(""), be32(-1))
	case 1: // map<i64,string>
		return refcodec.TMap, cat([]byte{refcodec.TI64, refcodec.TString}, be32(1), []byte{0, 0, 0, 0, 0, 0, 0, 9}, str("v"))
	case 2: // map<i32,double> (fast path)
		return refcodec.TMap, cat([]byte{refcodec.TI32, refcodec.TDouble}, be32(2), be32(1), make([]byte, 8), be32(2), make([]byte, 8))
	case 3: // list<map<string,byte>>
		return refcodec.TList, cat([]byte{refcodec.TMap}, be32(1), []byte{refcodec.TString, refcodec.TByte}, be32(1), str("ab"), []byte{7})
	case 4: // struct { 1: map<binary,bool> ; 2: i16 }
		return refcodec.TStruct, cat([]byte{refcodec.TMap, 0, 1, refcodec.TString, refcodec.TBool}, be32(1), str("x"), []byte{1}, []byte{refcodec.TI16, 0, 2, 0, 5}, []byte{0})
	case 5: // set<i16> fast path
		return refcodec.TSet, cat([]byte{refcodec.TI16}, be32(3), []byte{0, 1, 0, 2, 0, 3})
	case 6: // map<struct, i64>
		return refcodec.TMap, cat([]byte{refcodec.TStruct, refcodec.TI64}, be32(1), []byte{0}, []byte{1, 2, 3, 4, 5, 6, 7, 8})
	default: // empty containers with odd element types
		return refcodec.TList, cat([]byte{refcodec.TStruct}, be32(0))
	}
}

// aimedValues: fixed values for the aimed unit (seed independent): the initial object with every optional
// defaulted field (a) at its default, (b) nil where the Go type allows it, (c) at the zero value.
func aimedValues(s *idlgen.Schema, sidx int) []*values.Value {
	st := s.Structs[sidx]
	var out []*values.Value
	init := st.Initial()
	for i, f := range st.Fields { // required/default struct fields must be non-nil where the target has required members
		if f.Type.Kind == idlgen.RStruct && f.Req != idlgen.Optional && s.Structs[f.Type.Sidx].Kind != 'u' {
			init.E[i] = s.Structs[f.Type.Sidx].Initial()
		}
	}
	out = append(out, init)
	if st.Name == "Defaults" {
		a := init.Clone()
		z := init.Clone()
		for i, f := range st.Fields {
			if f.Req == idlgen.Optional && f.Default != nil {
				if f.Nillable() {
					a.E[i] = values.Nil()
				}
				z.E[i] = idlgen.ZeroOf(f.Type)
				if f.Type.Kind == idlgen.RBinary {
					z.E[i] = values.Bytes([]byte{})
				}
			}
		}
		out = append(out, a, z)
	}
	if st.Name == "Limits" {
		out = append(out, limitsVariants()...)
	}
	if st.Name == "Holder" {
		vs := limitsVariants()
		for k := range vs {
			h := values.Record(vs[k], values.List(vs...), values.Map(values.Str("a"), vs[(k+1)%len(vs)], values.Str("b"), vs[(k+2)%len(vs)]), vs[(k+3)%len(vs)])
			out = append(out, h)
		}
		out = append(out, values.Record(vs[0], values.List(), values.Map(), values.Nil()))
	}
	return out
}

// limitsVariants: objects of the aimed struct `Limits` (container fields with IDL defaults) whose containers hold a
// subset of / something different from / nothing of the default, or are nil.
func limitsVariants() []*values.Value {
	S, I := values.Str, values.Int
	return []*values.Value{
		values.Record(values.Map(S("cpu"), I(1)), values.List(I(2)), values.Set(S("a")), values.Map(), I(1), values.Map()),
		values.Record(values.Map(S("gpu"), I(8)), values.List(I(9), I(9)), values.Set(S("z")), values.Map(I(2), S("y")), I(2), values.Map(I(8), values.List(I(2), I(3)))),
		values.Record(values.Map(), values.List(), values.Set(), values.Map(), I(0), values.Map()),
		values.Record(values.Nil(), values.Nil(), values.Nil(), values.Nil(), I(3), values.Nil()),
		values.Record(values.Map(S("cpu"), I(1), S("mem"), I(2), S("gpu"), I(8)), values.List(I(1), I(2), I(3), I(4)), values.Set(S("a"), S("b"), S("c")), values.Map(I(1), S("x"), I(2), S("y")), I(4), values.Map(I(7), values.List(I(1)), I(8), values.List())),
	}
}

// historyOps: two messages read into ONE object (object reuse): FastRead/FastRead, Read/FastRead, FastRead/Read and
// Read/Read must leave the same object; when the second message carries every top-level field of the first, that object
// is the one a fresh Read of the second message builds.
func historyOps(u *batch.UnitInfo, sidx int, key string, v1, v2 *values.Value, ls *lineSet) {
	s := u.Schema
	e1, err1 := refcodec.Encode(s, sidx, v1)
	e2, err2 := refcodec.Encode(s, sidx, v2)
	if err1 != nil || err2 != nil {
		return
	}
	if _, err := refcodec.Decode(s, sidx, e1); err != nil {
		return
	}
	if _, err := refcodec.Decode(s, sidx, e2); err != nil {
		return
	}
	f1, _ := refcodec.Split(e1)
	f2, _ := refcodec.Split(e2)
	covers := true
	for _, a := range f1 {
		if !hasID(f2, a.ID) {
			covers = false
		}
	}
	ref := ls.add("RG "+key+" "+hx(e2), &check{class: "R", unit: u, sidx: sidx, pair: -1})
	first := -1
	for _, mode := range []string{"FF", "RF", "FR", "RR"} {
		c := &check{class: kHist, unit: u, sidx: sidx, value: v2, toModel: true, pair: first, ref: ref, covers: covers, note: mode}
		i := ls.add("HH "+key+" "+mode+" "+hx(e1)+" "+hx(e2), c)
		if first < 0 {
			first = i
			c.pair = i
		}
	}
}

// aimedReads: fixed inputs for the aimed unit.
func aimedReads(u *batch.UnitInfo, sidx int, key string, st *idlgen.SStruct, ls *lineSet) {
	if st.Name != "Empty" {
		return
	}
	be32 := func(n int) []byte { return []byte{byte(n >> 24), byte(n >> 16), byte(n >> 8), byte(n)} }
	// an unknown field map<string,i32>{"": 5}, cut inside the last value: gopkg's Skip answers a length beyond the buffer
	full := append(append([]byte{13, 0, 1, 11, 8}, be32(1)...), append(append(be32(0), be32(5)...), 0)...)
	addRead(ls, check{class: kValid, unit: u, sidx: sidx, expect: st.Initial(), note: "aim_skip_map"}, key, full)
	for k := 0; k < len(full); k++ {
		addRead(ls, check{class: kTrunc, unit: u, sidx: sidx, wantErr: true, note: "aim_skip_map_trunc"}, key, full[:k])
	}
	// an unknown field whose type byte is >= 0x80: gopkg's TType is int8, Skip indexes typeToSize with a negative number
	addRead(ls, check{class: kCorrupt, unit: u, sidx: sidx, note: "aim_negative_type"}, key, []byte{0x80, 0, 1, 0})
	addRead(ls, check{class: kCorrupt, unit: u, sidx: sidx, note: "aim_negative_type_eof"}, key, []byte{0xff, 0, 1})
	addRead(ls, check{class: kCorrupt, unit: u, sidx: sidx, note: "aim_negative_elem_type"}, key, []byte{15, 0, 1, 0x90, 0, 0, 0, 1, 0, 0})
	// unknown fields nested 63, 64, 65 lists deep around one i32 / around nothing: the two runtimes count depth differently
	for _, depth := range []int{62, 63, 64, 65, 66} {
		for _, leaf := range []bool{true, false} {
			var val []byte
			if leaf {
				val = append(append([]byte{8}, be32(1)...), be32(7)...) // list<i32>[7]
			} else {
				val = append([]byte{8}, be32(0)...) // list<i32>[]
			}
			for d := 1; d < depth; d++ {
				val = append(append([]byte{15}, be32(1)...), val...)
			}
			in := append(append([]byte{15, 0, 9}, val...), 0)
			addRead(ls, check{class: kDepth, unit: u, sidx: sidx, note: fmt.Sprintf("depth%d_leaf%v", depth, leaf)}, key, in)
		}
	}
}

// requiredPatterns: for a struct of the "required" unit, FastRead and the standard Read of the encoding with the
// required fields present according to each pattern: none/all missing, each single one missing, every prefix only,
// every suffix only, each whole word of the bitset missing, each whole word alone present. Both readers must fail
// (error class "required field … is not set") iff some required field is absent.
func requiredPatterns(u *batch.UnitInfo, sidx int, key string, st *idlgen.SStruct, w int, ls *lineSet, out *vl.Out) {
	v := reqValue(st)
	enc, encErr, norm, normErr := genWriteOps(u, sidx, key, v, ls)
	if encErr != nil || normErr != nil {
		panic("c10: the required unit's value does not encode")
	}
	fields, err := refcodec.Split(enc)
	if err != nil {
		panic(err)
	}
	var ids []int // required ids in bitset order (= sorted by id)
	for _, f := range st.Fields {
		if f.Req == idlgen.Required {
			ids = append(ids, int(f.ID))
		}
	}
	sort.Ints(ids)
	n := len(ids)
	type pat struct {
		present []bool
		note    string
	}
	var pats []pat
	seen := map[string]bool{}
	add := func(note string, pres func(i int) bool) {
		p := make([]bool, n)
		k := make([]byte, n)
		for i := range p {
			p[i] = pres(i)
			k[i] = '0'
			if p[i] {
				k[i] = '1'
			}
		}
		if !seen[string(k)] {
			seen[string(k)] = true
			pats = append(pats, pat{p, note})
		}
	}
	add("none_missing", func(int) bool { return true })
	add("all_missing", func(int) bool { return false })
	for j := 0; j < n; j++ {
		j := j
		add("single_missing", func(i int) bool { return i != j })
	}
	for k := 0; k <= n; k++ {
		k := k
		add("prefix_only", func(i int) bool { return i < k })
		add("suffix_only", func(i int) bool { return i >= k })
	}
	for j := 0; j*w < n; j++ {
		j := j
		add("word_missing", func(i int) bool { return i/w != j })
		add("word_only", func(i int) bool { return i/w == j })
	}
	pos := map[int]int{}
	for i, id := range ids {
		pos[id] = i
	}
	for _, p := range pats {
		var fs []refcodec.RawField
		missing := false
		for _, f := range fields {
			if i, ok := pos[int(f.ID)]; ok && !p.present[i] {
				missing = true
				continue
			}
			fs = append(fs, f)
		}
		in := refcodec.Join(fs)
		c := check{class: kValid, unit: u, sidx: sidx, value: v, wantErr: missing, note: "aim_req_" + p.note}
		if !missing {
			c.expect = norm
		}
		addRead(ls, c, key, in)
		ri := ls.add("RE "+key+" "+hx(in), &check{class: "RE", unit: u, sidx: sidx, pair: -1})
		ls.add("FE "+key+" "+hx(in), &check{class: kErrCls, unit: u, sidx: sidx, pair: ri, wantErr: missing, note: "req_" + p.note})
		out.Count("reqpattern." + p.note)
	}
}

// skOps: direct correspondence of the runtime library's Skip (the primitive the no-panic theorem assumes
// bounds-checked) with its Lean model: random well-formed values, their truncations and byte mutations.
func skOps(r *vl.Rng, n int, ls *lineSet) {
	for i := 0; i < n; i++ {
		t := refcodec.AllTypes[r.Intn(len(refcodec.AllTypes))]
		var val []byte
		if r.Chance(40) {
			t, val = unknownSample(r)
		} else {
			val = refcodec.Sample(r, t, 0)
		}
		in := append([]byte{}, val...)
		switch r.Intn(5) {
		case 0: // as is, with trailing bytes
			in = append(in, byte(r.U64()), 0)
		case 1: // truncated
			if len(in) > 0 {
				in = in[:r.Intn(len(in))]
			}
		case 2: // one byte mutated
			if len(in) > 0 {
				in[r.Intn(len(in))] = byte(r.U64())
			}
		case 3: // one byte mutated, truncated
			if len(in) > 0 {
				in[r.Intn(len(in))] = replAll[r.Intn(len(replAll))]
				in = in[:1+r.Intn(len(in))]
			}
		case 4: // wrong type
			t = replAll[r.Intn(len(replAll))]
		}
		ls.add(fmt.Sprintf("SK %d %s", t, hx(in)), &check{class: kSK, toModel: true, pair: -1})
	}
}

// ---------------------------------------------------------------------------------------------- oracle

// verdict evaluates the oracle for line i; returns (key, what, expected); what == "" means fine. key == "" means
// "use the op line".
func verdict(ls *lineSet, answers []string, i int, count func(string)) (string, string, string) {
	c := ls.checks[i]
	ans := answers[i]
	line := ls.lines[i]
	switch c.class {
	case "schema":
		if ans != "ok" {
			return "", "schema line not accepted by the driver", "ok"
		}
	case "R", "RE", kSK:
		// oracle-only partner lines and the runtime-library tie: nothing to judge here
	case kFW:
		return verdictFW(c, ans, count)
	case kBL:
		fw := answers[c.pair]
		if !strings.HasPrefix(ans, "ok ") {
			return "", "BLength failed", "ok <n>"
		}
		if strings.HasPrefix(fw, "ok ") {
			n := len(strings.TrimPrefix(fw[3:], "-")) / 2
			if ans != "ok "+strconv.Itoa(n) {
				return "", fmt.Sprintf("BLength differs from the %d bytes FastAppend wrote", n), "ok " + strconv.Itoa(n)
			}
		}
		count("oracle.ok.BL")
	case kFN:
		if canonAns(ans) != canonAns(answers[c.pair]) { // two calls iterate Go maps in different orders
			return "", "FastWrite into a BLength() buffer differs from FastAppend (or overflows)", answers[c.pair]
		}
		count("oracle.ok.FN")
	case kFO:
		if ans != "ok "+strconv.Itoa(c.wantOff) {
			return "", "FastRead does not report the length of the struct it consumed", "ok " + strconv.Itoa(c.wantOff)
		}
		count("oracle.ok.FO")
	case kErrCls:
		ra := answers[c.pair]
		if ans == "panic" {
			count("errclass.FE_panic") // the same input is judged by its FR line
			return "", "", ""
		}
		cls := func(s string) string {
			if strings.HasPrefix(s, "err:required:") {
				return "err:required"
			}
			return s
		}
		if cls(ans) != cls(ra) {
			return "", "FastRead and Read fail differently (error class; " + c.note + ")", ra
		}
		if c.wantErr && cls(ans) != "err:required" {
			return "", "a required field is absent but the error is not `required field … is not set` (" + c.note + ")", "err:required"
		}
		if strings.HasPrefix(c.note, "req_") && !c.wantErr && ans != "ok" {
			return "", "all required fields are present but the read fails (" + c.note + ")", "ok"
		}
		if ans != ra {
			count("errclass.required_name_differs")
		}
		count("oracle.ok.errclass." + c.note + "." + cls(ans))
	case kHist:
		if ans == "panic" {
			return "", "a read into a reused object panics (" + c.note + ")", answers[c.ref]
		}
		if ans != answers[c.pair] {
			return "", "object reuse: " + c.note + " (F = FastRead, R = Read, two messages into one object) leaves a different object than FF", answers[c.pair]
		}
		if c.covers && ans != answers[c.ref] {
			return "", "object reuse: the second message carries every field of the first, but after " + c.note + " the object differs from a fresh Read of the second message", answers[c.ref]
		}
		count("oracle.ok.history." + c.note)
	case kValid, kTrunc, kCorrupt, kDepth:
		ra := answers[c.pair]
		if ra == "crash" && c.class == kCorrupt {
			ra = "err" // the standard Read died of memory exhaustion on this corrupted input
		}
		if ans == "panic" {
			return "FR-panic", "FastRead panics (" + c.class + "/" + c.note + ")", ra
		}
		switch c.class {
		case kValid:
			if ans != ra {
				return "", "FastRead and Read disagree on a well-formed input (" + c.note + ")", ra
			}
			if c.wantErr {
				if ans != "err" {
					return "", "the read must fail (" + c.note + ")", "err"
				}
			} else if c.expect != nil {
				if !strings.HasPrefix(ans, "ok ") {
					return "", "the read failed (" + c.note + ")", "ok " + c.expect.String()
				}
				got, err := values.Parse(ans[3:])
				if err != nil {
					return "", "unparsable dump: " + err.Error(), ""
				}
				if !refcodec.Equal(got, c.expect) {
					return "", "FastRead (and Read) produce an object different from the reference decode (" + c.note + ")", "ok " + c.expect.String()
				}
			}
			count("oracle.ok.valid." + c.note)
		case kTrunc:
			if ans != "err" {
				return "", "FastRead accepts a truncated input", "err"
			}
			if ra != "err" {
				count("note.R_accepts_truncated")
			}
			count("oracle.ok.trunc")
		case kCorrupt:
			ok1, ok2 := strings.HasPrefix(ans, "ok "), strings.HasPrefix(ra, "ok ")
			switch {
			case ok1 && ok2 && ans != ra:
				return "", "FastRead and Read both accept a type-corrupted input but build different objects (" + c.note + ")", ra
			case ok1 != ok2:
				// the two runtimes' Skip differ on malformed data (apache's ignores some errors): counted, not judged
				if ok1 {
					count("divergence.corrupt.FR_ok_R_err." + c.note)
				} else {
					count("divergence.corrupt.FR_err_R_ok." + c.note)
				}
			}
			if ok1 {
				count("oracle.ok.corrupt.accepted")
			} else {
				count("oracle.ok.corrupt.rejected")
			}
		case kDepth:
			count("depth." + c.note + ".FR_" + strings.Fields(ans)[0] + ".R_" + strings.Fields(ra)[0])
		}
	default:
		return "", "unknown check class " + c.class, ""
	}
	_ = line
	return "", "", ""
}

// canonAns canonicalises the map entry order of an `ok <hex>` answer.
func canonAns(ans string) string {
	if !strings.HasPrefix(ans, "ok ") {
		return ans
	}
	raw, err := hex.DecodeString(strings.TrimPrefix(ans[3:], "-"))
	if err != nil {
		return ans
	}
	cb, err := refcodec.Canon(raw)
	if err != nil {
		return ans
	}
	return "ok " + hx(cb)
}

func verdictFW(c *check, ans string, count func(string)) (string, string, string) {
	s := c.unit.Schema
	if ans == "panic" {
		return "", "FastAppend panics", "ok <hex>"
	}
	if !strings.HasPrefix(ans, "ok ") {
		return "", "FastAppend failed", "ok <hex>"
	}
	raw, err := hex.DecodeString(strings.TrimPrefix(ans[3:], "-"))
	if err != nil {
		return "", "bad hex from driver", ""
	}
	if c.noRef {
		// no reference expectation (union count, nil union): the bytes must still be a well-formed struct
		if _, err := refcodec.Canon(raw); err != nil {
			return "", "FastAppend bytes are not a well-formed struct (" + c.note + "): " + err.Error(), "well-formed"
		}
		count("oracle.noref.FW." + c.note)
		return "", "", ""
	}
	got, derr := refcodec.Decode(s, c.sidx, raw)
	if c.wantErr {
		if derr == nil {
			return "", "bytes decode although the reference encoding does not", "undecodable"
		}
		count("oracle.ok.FW.no_normal_form")
		return "", "", ""
	}
	if derr != nil {
		return "", "FastAppend bytes do not decode under the reference codec: " + derr.Error(), "ok " + c.expect.String()
	}
	if !refcodec.Equal(got, c.expect) {
		// known class: an optional binary field WITH a default that holds nil -- the standard codec writes it
		// (string(nil) != string(default)), fastgo skips it (p.F != nil), so the reader keeps the default.
		if v2, changed := optBinNilToDefault(s, c.sidx, c.value); changed {
			if n2, err := refcodec.Normal(s, c.sidx, v2); err == nil && refcodec.Equal(got, n2) {
				return "FW-optional-binary-default-nil", "FastAppend skips an optional binary field (with a default) that holds nil; the standard Write emits it as empty: the two codecs round-trip the same object differently", "ok " + c.expect.String()
			}
		}
		return "", "FastAppend bytes decode to " + trunc(got.String(), 300) + ", not to the value", "ok " + c.expect.String()
	}
	count("oracle.ok.FW")
	return "", "", ""
}

// optBinNilToDefault replaces, at every depth, a nil in an optional binary field that has a default by the default.
func optBinNilToDefault(s *idlgen.Schema, sidx int, v *values.Value) (*values.Value, bool) {
	if v.IsNil() {
		return v, false
	}
	st := s.Structs[sidx]
	o := v.Clone()
	changed := false
	for i, f := range st.Fields {
		if i >= len(o.E) {
			break
		}
		if f.Req == idlgen.Optional && f.Default != nil && f.Type.Kind == idlgen.RBinary && o.E[i].IsNil() {
			o.E[i] = f.Default.Clone()
			changed = true
			continue
		}
		if nv, ch := optBinIn(s, f.Type, o.E[i]); ch {
			o.E[i] = nv
			changed = true
		}
	}
	return o, changed
}

func optBinIn(s *idlgen.Schema, t *idlgen.RType, v *values.Value) (*values.Value, bool) {
	if v.IsNil() {
		return v, false
	}
	switch t.Kind {
	case idlgen.RStruct:
		return optBinNilToDefault(s, t.Sidx, v)
	case idlgen.RList, idlgen.RSet:
		o := v.Clone()
		ch := false
		for i := range o.E {
			if nv, c := optBinIn(s, t.Elem, o.E[i]); c {
				o.E[i], ch = nv, true
			}
		}
		return o, ch
	case idlgen.RMap:
		o := v.Clone()
		ch := false
		for i := 0; i+1 < len(o.E); i += 2 {
			if nv, c := optBinIn(s, t.Key, o.E[i]); c {
				o.E[i], ch = nv, true
			}
			if nv, c := optBinIn(s, t.Elem, o.E[i+1]); c {
				o.E[i+1], ch = nv, true
			}
		}
		return o, ch
	}
	return v, false
}

// ---------------------------------------------------------------------------------------------- probes

func runProbes(work, repo string, out *vl.Out) {
	ps := probes()
	var units []batch.Unit
	for _, p := range ps {
		units = append(units, batch.Unit{Prog: p.prog, Backend: "fastgo", Recurse: true, Options: p.opts, Tag: p.name, NoSynth: true})
	}
	b, err := batch.Build(work, repo, units, nil)
	if b == nil {
		out.Count("probe.batch_failed")
		fmt.Println("probes: batch failed:", err)
		return
	}
	for i := range b.Units {
		u := &b.Units[i]
		outcome := "ok"
		switch {
		case u.Exit != 0:
			outcome = "thriftgo_exit_" + strconv.Itoa(u.Exit)
		case len(u.ParseErrors) > 0:
			outcome = "unparsable_go"
		case len(u.BuildErrors) > 0 || !u.Linked:
			outcome = "does_not_compile"
		}
		out.Count("probe." + u.Tag + "." + outcome)
		fmt.Printf("PROBE %s: %s %s %s\n", u.Tag, outcome, firstLines(u.Stderr, 2), strings.Join(firstN(u.BuildErrors, 2), " | "))
		out.Stats["probe_detail."+u.Tag+"."+outcome] = 1
	}
}
