package main

import (
	"fmt"
	"go/ast"
	goparser "go/parser"
	"go/token"
	"path/filepath"
	"strconv"
	"strings"

	gthrift "github.com/cloudwego/gopkg/protocol/thrift"
	"github.com/cloudwego/thriftgo/parser"
)

// categories in the order of parser.Category (numeric values come from the repo under test).
var categories = []struct {
	ident string // Go identifier in package parser
	lean  string // Lean name in Generated.C10
	val   int
}{
	{"Category_Bool", "catBool", int(parser.Category_Bool)},
	{"Category_Byte", "catByte", int(parser.Category_Byte)},
	{"Category_I16", "catI16", int(parser.Category_I16)},
	{"Category_I32", "catI32", int(parser.Category_I32)},
	{"Category_I64", "catI64", int(parser.Category_I64)},
	{"Category_Double", "catDouble", int(parser.Category_Double)},
	{"Category_String", "catString", int(parser.Category_String)},
	{"Category_Binary", "catBinary", int(parser.Category_Binary)},
	{"Category_Map", "catMap", int(parser.Category_Map)},
	{"Category_List", "catList", int(parser.Category_List)},
	{"Category_Set", "catSet", int(parser.Category_Set)},
	{"Category_Enum", "catEnum", int(parser.Category_Enum)},
	{"Category_Struct", "catStruct", int(parser.Category_Struct)},
	{"Category_Union", "catUnion", int(parser.Category_Union)},
	{"Category_Exception", "catException", int(parser.Category_Exception)},
}

// the TType constants of the runtime library the generated code is linked with (cloudwego/gopkg).
var gopkgConsts = map[string]int{
	"thrift.STOP": int(gthrift.STOP), "thrift.VOID": int(gthrift.VOID), "thrift.BOOL": int(gthrift.BOOL),
	"thrift.BYTE": int(gthrift.BYTE), "thrift.I08": int(gthrift.I08), "thrift.DOUBLE": int(gthrift.DOUBLE),
	"thrift.I16": int(gthrift.I16), "thrift.I32": int(gthrift.I32), "thrift.I64": int(gthrift.I64),
	"thrift.STRING": int(gthrift.STRING), "thrift.UTF7": int(gthrift.UTF7), "thrift.STRUCT": int(gthrift.STRUCT),
	"thrift.MAP": int(gthrift.MAP), "thrift.SET": int(gthrift.SET), "thrift.LIST": int(gthrift.LIST),
	"thrift.UTF8": int(gthrift.UTF8), "thrift.UTF16": int(gthrift.UTF16),
}

func catValue(e ast.Expr) (int, error) {
	sel, ok := e.(*ast.SelectorExpr)
	if !ok {
		return 0, fmt.Errorf("key is not parser.Category_X")
	}
	for _, c := range categories {
		if c.ident == sel.Sel.Name {
			return c.val, nil
		}
	}
	return 0, fmt.Errorf("unknown category %s", sel.Sel.Name)
}

// issetWordBits reads, from the repo under test, the word width of the required-field bitset of genFastRead:
// the type name given to newBitsetCodeGen in gen_fastread.go, looked up in the switch of bitset.go.
func issetWordBits(repo string) (int, error) {
	fset := token.NewFileSet()
	fr, err := goparser.ParseFile(fset, filepath.Join(repo, "generator", "fastgo", "gen_fastread.go"), nil, 0)
	if err != nil {
		return 0, err
	}
	typename := ""
	ast.Inspect(fr, func(n ast.Node) bool {
		if c, ok := n.(*ast.CallExpr); ok {
			if id, ok := c.Fun.(*ast.Ident); ok && id.Name == "newBitsetCodeGen" && len(c.Args) == 2 {
				if bl, ok := c.Args[1].(*ast.BasicLit); ok && bl.Kind == token.STRING {
					typename, _ = strconv.Unquote(bl.Value)
				}
			}
		}
		return true
	})
	if typename == "" {
		return 0, fmt.Errorf("gen_fastread.go: newBitsetCodeGen(…, \"<type>\") not found")
	}
	bs, err := goparser.ParseFile(fset, filepath.Join(repo, "generator", "fastgo", "bitset.go"), nil, 0)
	if err != nil {
		return 0, err
	}
	bits := 0
	ast.Inspect(bs, func(n ast.Node) bool {
		cc, ok := n.(*ast.CaseClause)
		if !ok {
			return true
		}
		match := false
		for _, e := range cc.List {
			if bl, ok := e.(*ast.BasicLit); ok && bl.Kind == token.STRING {
				if v, _ := strconv.Unquote(bl.Value); v == typename {
					match = true
				}
			}
		}
		if match {
			for _, st := range cc.Body {
				if as, ok := st.(*ast.AssignStmt); ok && len(as.Rhs) == 1 {
					if sel, ok := as.Lhs[0].(*ast.SelectorExpr); ok && sel.Sel.Name == "varbits" {
						if bl, ok := as.Rhs[0].(*ast.BasicLit); ok && bl.Kind == token.INT {
							bits, _ = strconv.Atoi(bl.Value)
						}
					}
				}
			}
		}
		return true
	})
	if bits == 0 {
		return 0, fmt.Errorf("bitset.go: no varbits for type %q", typename)
	}
	return bits, nil
}

// extract prints Generated/C10.lean from generator/fastgo/consts.go and utils.go (go/ast over the
// composite literals) of the repo under test.
func extract(repo string) error {
	fset := token.NewFileSet()
	f, err := goparser.ParseFile(fset, filepath.Join(repo, "generator", "fastgo", "consts.go"), nil, 0)
	if err != nil {
		return err
	}
	consts := map[string]int{}
	tables := map[string][]int{}
	strTables := map[string][]string{}
	for _, d := range f.Decls {
		gd, ok := d.(*ast.GenDecl)
		if !ok {
			continue
		}
		for _, sp := range gd.Specs {
			vs, ok := sp.(*ast.ValueSpec)
			if !ok {
				continue
			}
			for i, n := range vs.Names {
				if i >= len(vs.Values) {
					continue
				}
				switch v := vs.Values[i].(type) {
				case *ast.BasicLit:
					if gd.Tok == token.CONST && v.Kind == token.INT {
						x, err := strconv.ParseInt(v.Value, 0, 64)
						if err != nil {
							return err
						}
						consts[n.Name] = int(x)
					}
				case *ast.CompositeLit:
					at, ok := v.Type.(*ast.ArrayType)
					if !ok {
						continue
					}
					ln, ok := at.Len.(*ast.BasicLit)
					if !ok {
						return fmt.Errorf("%s: array length is not a literal", n.Name)
					}
					size, _ := strconv.Atoi(ln.Value)
					et, _ := at.Elt.(*ast.Ident)
					if et == nil {
						continue
					}
					ints := make([]int, size)
					strs := make([]string, size)
					for _, el := range v.Elts {
						kv, ok := el.(*ast.KeyValueExpr)
						if !ok {
							return fmt.Errorf("%s: positional element", n.Name)
						}
						k, err := catValue(kv.Key)
						if err != nil {
							return fmt.Errorf("%s: %v", n.Name, err)
						}
						if k >= size {
							return fmt.Errorf("%s: key %d out of range", n.Name, k)
						}
						switch val := kv.Value.(type) {
						case *ast.Ident:
							c, ok := consts[val.Name]
							if !ok {
								return fmt.Errorf("%s: unknown constant %s", n.Name, val.Name)
							}
							ints[k] = c
						case *ast.BasicLit:
							if val.Kind == token.INT {
								x, _ := strconv.ParseInt(val.Value, 0, 64)
								ints[k] = int(x)
							} else if val.Kind == token.STRING {
								s, _ := strconv.Unquote(val.Value)
								strs[k] = s
							}
						default:
							return fmt.Errorf("%s: unsupported element value", n.Name)
						}
					}
					if et.Name == "string" {
						strTables[n.Name] = strs
					} else {
						tables[n.Name] = ints
					}
				}
			}
		}
	}
	for _, want := range []string{"category2ThriftWireType", "category2WireSize"} {
		if _, ok := tables[want]; !ok {
			return fmt.Errorf("table %s not found in consts.go", want)
		}
	}
	gk, ok := strTables["category2GopkgConsts"]
	if !ok {
		return fmt.Errorf("table category2GopkgConsts not found in consts.go")
	}
	gkCodes := make([]int, len(gk))
	for i, s := range gk {
		if s == "" {
			continue
		}
		c, ok := gopkgConsts[s]
		if !ok {
			return fmt.Errorf("category2GopkgConsts[%d] = %q: not a TType constant of cloudwego/gopkg", i, s)
		}
		gkCodes[i] = c
	}
	// utils.go: isContainerType -- the categories whose case returns true
	uf, err := goparser.ParseFile(fset, filepath.Join(repo, "generator", "fastgo", "utils.go"), nil, 0)
	if err != nil {
		return err
	}
	var containerCats []int
	found := false
	for _, d := range uf.Decls {
		fd, ok := d.(*ast.FuncDecl)
		if !ok || fd.Name.Name != "isContainerType" {
			continue
		}
		found = true
		ast.Inspect(fd.Body, func(n ast.Node) bool {
			cc, ok := n.(*ast.CaseClause)
			if !ok {
				return true
			}
			ret := false
			for _, st := range cc.Body {
				if r, ok := st.(*ast.ReturnStmt); ok && len(r.Results) == 1 {
					if id, ok := r.Results[0].(*ast.Ident); ok && id.Name == "true" {
						ret = true
					}
				}
			}
			if ret {
				for _, e := range cc.List {
					if k, err := catValue(e); err == nil {
						containerCats = append(containerCats, k)
					}
				}
			}
			return true
		})
	}
	if !found {
		return fmt.Errorf("isContainerType not found in utils.go")
	}

	// facts about the code writers: which guards / tests the emitted text contains (string literals of the writer functions)
	lits := func(file, fn string) ([]string, error) {
		af, err := goparser.ParseFile(fset, filepath.Join(repo, "generator", "fastgo", file), nil, 0)
		if err != nil {
			return nil, err
		}
		var out []string
		ok := false
		for _, d := range af.Decls {
			fd, isf := d.(*ast.FuncDecl)
			if !isf || fd.Name.Name != fn || fd.Body == nil {
				continue
			}
			ok = true
			ast.Inspect(fd.Body, func(n ast.Node) bool {
				if bl, isl := n.(*ast.BasicLit); isl && bl.Kind == token.STRING {
					if v, err := strconv.Unquote(bl.Value); err == nil {
						out = append(out, v)
					}
				}
				return true
			})
		}
		if !ok {
			return nil, fmt.Errorf("%s: function %s not found", file, fn)
		}
		return out, nil
	}
	has := func(ls []string, sub string) bool {
		for _, l := range ls {
			if strings.Contains(l, sub) {
				return true
			}
		}
		return false
	}
	frl, err := lits("gen_fastread.go", "genFastRead")
	if err != nil {
		return err
	}
	bll, err := lits("gen_blength.go", "genBLengthField")
	if err != nil {
		return err
	}
	fal, err := lits("gen_fastwrite.go", "genFastAppendField")
	if err != nil {
		return err
	}
	if !has(frl, "x.Skip(b[off:], ftyp)") {
		return fmt.Errorf("gen_fastread.go: the skip call `x.Skip(b[off:], ftyp)` was not found in genFastRead")
	}
	facts := []struct {
		name, doc string
		val       bool
	}{
		{"guardNegativeType", "genFastRead emits `if ftyp < 0 { … goto SkipFieldError }` before the Skip of the default branch", has(frl, "if ftyp < 0")},
		{"guardRecover", "genFastRead wraps the Skip call in a function literal that recovers a panic into an error", has(frl, "recover()")},
		{"guardSkipLength", "genFastRead emits `if off > len(b) { … goto SkipFieldError }` after the Skip", has(frl, "if off > len(b)")},
		{"optBinDefaultCmpBLength", "genBLengthField guards an optional binary field WITH a default by `string(p.F) != string(default)`", has(bll, "if string(%s) != string(")},
		{"optBinDefaultCmpFastAppend", "genFastAppendField does the same", has(fal, "if string(%s) != string(")},
	}

	var sb strings.Builder
	sb.WriteString("/- GENERATED by harness/cmd/c10 extract from /repo (generator/fastgo/consts.go, utils.go; parser.Category values;\n   TType constants of cloudwego/gopkg). Do not edit. -/\nnamespace Generated.C10\n\n")
	for _, c := range categories {
		fmt.Fprintf(&sb, "def %s : Nat := %d\n", c.lean, c.val)
	}
	list := func(xs []int) string {
		p := make([]string, len(xs))
		for i, x := range xs {
			p[i] = strconv.Itoa(x)
		}
		return "[" + strings.Join(p, ", ") + "]"
	}
	sb.WriteString("\n/-- consts.go category2ThriftWireType, indexed by parser.Category (field headers, FastRead case keys) -/\n")
	fmt.Fprintf(&sb, "def category2ThriftWireType : List Nat := %s\n", list(tables["category2ThriftWireType"]))
	sb.WriteString("\n/-- consts.go category2GopkgConsts as TType codes (container headers written by FastAppend) -/\n")
	fmt.Fprintf(&sb, "def category2GopkgConsts : List Nat := %s\n", list(gkCodes))
	sb.WriteString("\n/-- consts.go category2WireSize (0 = not fixed-size) -/\n")
	fmt.Fprintf(&sb, "def category2WireSize : List Nat := %s\n", list(tables["category2WireSize"]))
	sb.WriteString("\n/-- utils.go isContainerType: categories answered `true` -/\n")
	fmt.Fprintf(&sb, "def containerCats : List Nat := %s\n", list(containerCats))
	wb, err := issetWordBits(repo)
	if err != nil {
		return err
	}
	fmt.Fprintf(&sb, "\n/-- word width of the required-field bitset of genFastRead (newBitsetCodeGen type in gen_fastread.go, varbits in bitset.go);\n    it drives the required-field counts and whole-word deletion patterns of the harness -/\ndef issetWordBits : Nat := %d\n", wb)
	sb.WriteString("\n/-! facts about the text the code writers emit -/\n")
	for _, f := range facts {
		fmt.Fprintf(&sb, "/-- %s -/\ndef %s : Bool := %v\n", f.doc, f.name, f.val)
	}
	sb.WriteString("\nend Generated.C10\n")
	fmt.Print(sb.String())
	return nil
}
