package main

// Seeded generator of multi-file programs and trimmer configurations.

import (
	"fmt"

	"verifharness/internal/vl"
)

type gen struct {
	r *vl.Rng
	p *ProgD
}

var baseTypes = []string{"bool", "byte", "i8", "i16", "i32", "i64", "double", "string", "binary"}
var fnNames = []string{"get", "getUser", "getUserInfo", "put", "putAll", "m0", "m1", "ping", "get_user"}
var preserveComments = []string{
	"// @preserve", "# @Preserve", "//@PRESERVE   ", "  //   @preserve", "// about this type\n// @preserve\n// more",
	// near misses: must not preserve
	"// @preserved", "// keep @preserve", "/* @preserve */", "// @preserve me", "// preserve",
}

func (g *gen) declsOfKinds(file int, kinds ...string) []string {
	var out []string
	for _, d := range g.p.Files[file].Decls {
		for _, k := range kinds {
			if d.Kind == k {
				out = append(out, d.Name)
			}
		}
	}
	return out
}

// visible files for references written in `from`
func (g *gen) visible(from int) []int {
	return append([]int{from}, g.p.Files[from].Includes...)
}

// typedefs may only point "downwards" (to an included file, or to an earlier declaration of the
// same file) so that typedef chains are finite
func (g *gen) refType(from int, declPos int, kinds []string) *TyD {
	type cand struct {
		file int
		name string
	}
	var cs []cand
	for _, f := range g.visible(from) {
		for i, d := range g.p.Files[f].Decls {
			ok := false
			for _, k := range kinds {
				if d.Kind == k {
					ok = true
				}
			}
			if !ok {
				continue
			}
			if d.Kind == "typedef" && f == from && declPos >= 0 && i >= declPos {
				continue
			}
			cs = append(cs, cand{f, d.Name})
		}
	}
	if len(cs) == 0 {
		return nil
	}
	// bias towards included files: cross-file reachability is what the include bookkeeping is about
	c := cs[g.r.Intn(len(cs))]
	if g.r.Chance(40) {
		for try := 0; try < 4 && c.file == from; try++ {
			c = cs[g.r.Intn(len(cs))]
		}
	}
	return &TyD{K: "ref", File: c.file, Decl: c.name}
}

var allRefKinds = []string{"struct", "union", "exception", "enum", "typedef"}

func (g *gen) ty(from, declPos, depth int) *TyD {
	x := g.r.Intn(100)
	switch {
	case x < 25:
		return &TyD{K: "base", Base: g.r.Pick(baseTypes)}
	case x < 45 && depth < 2:
		switch g.r.Intn(3) {
		case 0:
			return &TyD{K: "list", Val: g.ty(from, declPos, depth+1)}
		case 1:
			return &TyD{K: "set", Val: g.ty(from, declPos, depth+1)}
		}
		return &TyD{K: "map", Key: g.ty(from, declPos, depth+1), Val: g.ty(from, declPos, depth+1)}
	}
	if t := g.refType(from, declPos, allRefKinds); t != nil {
		return t
	}
	return &TyD{K: "base", Base: g.r.Pick(baseTypes)}
}

func (g *gen) fields(from, n int, names string) []FieldD {
	var out []FieldD
	for i := 0; i < n; i++ {
		out = append(out, FieldD{Name: fmt.Sprintf("%s%d", names, i), ID: i + 1, Ty: g.ty(from, -1, 0)})
	}
	return out
}

func genProg(r *vl.Rng) *ProgD {
	g := &gen{r: r, p: &ProgD{}}
	nf := 1 + r.Intn(5)
	if r.Chance(10) {
		nf = 6
	}
	// files and the include DAG (i includes j only if i < j)
	for i := 0; i < nf; i++ {
		g.p.Files = append(g.p.Files, FileD{Path: fmt.Sprintf("f%d.thrift", i)})
	}
	for j := 1; j < nf; j++ {
		k := 1
		if r.Chance(35) {
			k = 2 // diamonds
		}
		for ; k > 0; k-- {
			i := r.Intn(j)
			dup := false
			for _, x := range g.p.Files[i].Includes {
				if x == j {
					dup = true
				}
			}
			if !dup {
				g.p.Files[i].Includes = append(g.p.Files[i].Includes, j)
			}
		}
	}
	// shuffle each include list so that indices are not monotone in the file number
	for i := range g.p.Files {
		inc := g.p.Files[i].Includes
		for k := len(inc) - 1; k > 0; k-- {
			j := r.Intn(k + 1)
			inc[k], inc[j] = inc[j], inc[k]
		}
	}
	// declarations: names are drawn from one small pool per kind, so equal names in different files are common
	for i := range g.p.Files {
		used := map[string]bool{}
		add := func(kind, stem string, max int) {
			n := r.Intn(max + 1)
			for k := 0; k < n; k++ {
				name := fmt.Sprintf("%s%d", stem, r.Intn(4))
				if used[name] {
					continue
				}
				used[name] = true
				g.p.Files[i].Decls = append(g.p.Files[i].Decls, DeclD{Kind: kind, Name: name})
			}
		}
		add("struct", "S", 4)
		add("union", "U", 1)
		add("exception", "X", 2)
		add("enum", "E", 2)
		if r.Chance(45) {
			add("typedef", "T", 2)
		}
		if r.Chance(35) {
			add("const", "C", 2)
		}
		// shuffle the declaration order
		d := g.p.Files[i].Decls
		for k := len(d) - 1; k > 0; k-- {
			j := r.Intn(k + 1)
			d[k], d[j] = d[j], d[k]
		}
	}
	// types (all declarations exist now, so references may point anywhere visible)
	for i := nf - 1; i >= 0; i-- {
		for k := range g.p.Files[i].Decls {
			d := &g.p.Files[i].Decls[k]
			switch d.Kind {
			case "struct", "union", "exception":
				d.Fields = g.fields(i, r.Intn(4), "f")
				if r.Chance(22) {
					d.Comment = r.Pick(preserveComments)
				}
			case "typedef":
				d.Ty = g.ty(i, k, 0)
			case "const":
				d.Ty = g.ty(i, -1, 0)
			}
		}
	}
	// constants whose value (not type) names an enum value or a constant of the same or an included file
	for i := range g.p.Files {
		for k := range g.p.Files[i].Decls {
			d := &g.p.Files[i].Decls[k]
			if d.Kind != "const" || !r.Chance(40) {
				continue
			}
			type cand struct {
				f int
				n string
			}
			var cs []cand
			for _, f := range g.visible(i) {
				for _, e := range g.p.Files[f].Decls {
					if e.Kind == "enum" || (e.Kind == "const" && f != i && e.ValDecl == "" && e.Ty.K == "base" && e.Ty.Base == "i32") {
						cs = append(cs, cand{f, e.Name})
					}
				}
			}
			if len(cs) == 0 {
				continue
			}
			c := cs[r.Intn(len(cs))]
			d.Ty = &TyD{K: "base", Base: "i32"}
			d.ValFile, d.ValDecl = c.f, c.n
		}
	}
	// services: a service may extend an earlier service of its file or any service of an included file
	for i := nf - 1; i >= 0; i-- {
		ns := 0
		if i == 0 {
			ns = r.Intn(4)
			if ns == 0 && r.Chance(80) {
				ns = 1
			}
		} else if r.Chance(45) {
			ns = 1 + r.Intn(2)
		}
		for k := 0; k < ns; k++ {
			s := SvcD{Name: fmt.Sprintf("V%d%c", i, 'a'+k), ExtFile: -1}
			if r.Chance(20) {
				s.Name = fmt.Sprintf("V%c", 'a'+k) // the same service name in several files
			}
			type base struct {
				f int
				n string
			}
			var bases []base
			for _, prev := range g.p.Files[i].Services {
				if prev.Name != s.Name {
					bases = append(bases, base{i, prev.Name})
				}
			}
			for _, inc := range g.p.Files[i].Includes {
				for _, b := range g.p.Files[inc].Services {
					bases = append(bases, base{inc, b.Name})
				}
			}
			dupName := false
			for _, prev := range g.p.Files[i].Services {
				if prev.Name == s.Name {
					dupName = true
				}
			}
			if dupName {
				continue
			}
			if len(bases) > 0 && r.Chance(55) {
				b := bases[r.Intn(len(bases))]
				s.ExtFile, s.ExtName = b.f, b.n
			}
			nfn := r.Intn(4)
			usedFn := map[string]bool{}
			for q := 0; q < nfn; q++ {
				name := r.Pick(fnNames)
				if usedFn[name] {
					continue
				}
				usedFn[name] = true
				fn := FnD{Name: name, Args: g.fields(i, r.Intn(3), "a")}
				if r.Chance(60) {
					fn.Ret = g.ty(i, -1, 0)
				}
				if r.Chance(35) {
					if t := g.refType(i, -1, []string{"exception"}); t != nil {
						fn.Throws = []FieldD{{Name: "e0", ID: 1, Ty: t}}
					}
				}
				s.Fns = append(s.Fns, fn)
			}
			g.p.Files[i].Services = append(g.p.Files[i].Services, s)
		}
		// shuffle: a service may then extend one declared later in the same file (still acyclic)
		if r.Chance(50) {
			sv := g.p.Files[i].Services
			for k := len(sv) - 1; k > 0; k-- {
				j := r.Intn(k + 1)
				sv[k], sv[j] = sv[j], sv[k]
			}
		}
	}
	return g.p
}

type svcFn struct {
	file     int
	svc, fn  string
	rootSide bool
}

func allSvcFns(p *ProgD) []svcFn {
	var out []svcFn
	for _, fi := range p.order() {
		for _, s := range p.Files[fi].Services {
			for _, fn := range s.Fns {
				out = append(out, svcFn{fi, s.Name, fn.Name, fi == 0})
			}
		}
	}
	return out
}

func allStructNames(p *ProgD) []string {
	var out []string
	for _, fi := range p.order() {
		for _, d := range p.Files[fi].Decls {
			if d.Kind == "struct" || d.Kind == "union" || d.Kind == "exception" {
				out = append(out, d.Name)
			}
		}
	}
	return out
}

func bp(b bool) *bool { return &b }

// genCfg draws one configuration of the given family.
func genCfg(r *vl.Rng, p *ProgD, family int) (CfgD, string) {
	var c CfgD
	fns := allSvcFns(p)
	rootSvcs := p.Files[0].Services
	method := func() string {
		if len(fns) == 0 {
			return "Nope.none"
		}
		f := fns[r.Intn(len(fns))]
		svc := f.svc
		if len(rootSvcs) > 0 && r.Chance(50) {
			// name a (possibly inherited) method through a root service
			svc = rootSvcs[r.Intn(len(rootSvcs))].Name
		}
		switch r.Intn(8) {
		case 0: // unqualified
			return f.fn
		case 1: // regexp: every method of the service
			return svc + "\\..*"
		case 2: // regexp: prefix pattern
			n := f.fn
			if len(n) > 3 {
				n = n[:3]
			}
			return svc + "." + n + ".*"
		case 3: // strict prefix of a method name (the HasPrefix rule)
			n := f.fn
			if len(n) > 3 {
				n = n[:3]
			}
			return svc + "." + n
		case 4: // anchored
			return "^" + svc + "\\." + f.fn + "$"
		case 5: // alternation
			return svc + "\\.(get|put)"
		}
		return svc + "." + f.fn
	}
	switch family {
	case 0:
		return c, "plain"
	case 1:
		c.Preserve = bp(false)
		return c, "preserve=false"
	case 2:
		n := 1 + r.Intn(2)
		for i := 0; i < n; i++ {
			c.Methods = append(c.Methods, method())
		}
		return c, "methods"
	case 3:
		names := allStructNames(p)
		n := r.Intn(3)
		for i := 0; i < n && len(names) > 0; i++ {
			c.PreservedStructs = append(c.PreservedStructs, names[r.Intn(len(names))])
		}
		if r.Chance(30) {
			c.PreservedStructs = append(c.PreservedStructs, "Nosuch")
		}
		if r.Chance(50) {
			c.DisableComment = bp(r.Bool())
		}
		if r.Chance(20) {
			c.Preserve = bp(true)
		}
		return c, "preserved-structs"
	}
	// mixed
	if r.Chance(50) {
		c.Methods = append(c.Methods, method())
	}
	if r.Chance(30) {
		c.Preserve = bp(r.Bool())
	}
	if r.Chance(40) {
		c.DisableComment = bp(r.Bool())
	}
	if names := allStructNames(p); len(names) > 0 && r.Chance(40) {
		c.PreservedStructs = append(c.PreservedStructs, names[r.Intn(len(names))])
	}
	return c, "mixed"
}
