// c16: correspondence/oracle harness for property C16 (trimming keeps exactly what kept services
// need; meaning is unchanged).  Subcommands: extract (nothing to regenerate: prints the anchors'
// fingerprint), run, replay.
package main

import (
	"encoding/json"
	"flag"
	"fmt"
	"os"
	"os/exec"
	"path/filepath"
	"sort"
	"strings"

	"github.com/dlclark/regexp2"

	"github.com/cloudwego/thriftgo/parser"
	"github.com/cloudwego/thriftgo/sdk"
	"github.com/cloudwego/thriftgo/semantic"
	"github.com/cloudwego/thriftgo/tool/trimmer/dump"
	"github.com/cloudwego/thriftgo/tool/trimmer/trim"

	"verifharness/internal/vl"
)

// ---------------------------------------------------------------- running the implementation

func parseAndResolve(main string, texts map[string]string) (ast *parser.Thrift, err error) {
	defer func() {
		if r := recover(); r != nil {
			err = fmt.Errorf("panic: %v", r)
		}
	}()
	ast, err = parser.ParseBatchString(main, texts, nil)
	if err != nil {
		return nil, fmt.Errorf("parse: %w", err)
	}
	if path := parser.CircleDetect(ast); len(path) > 0 {
		return nil, fmt.Errorf("include circle: %s", path)
	}
	if _, err = semantic.NewChecker(semantic.Options{FixWarnings: true}).CheckAll(ast); err != nil {
		return nil, fmt.Errorf("check: %w", err)
	}
	if err = semantic.ResolveSymbols(ast); err != nil {
		return nil, fmt.Errorf("resolve: %w", err)
	}
	return ast, nil
}

func trimArg(ast *parser.Thrift, c *CfgD) *trim.TrimASTArg {
	return &trim.TrimASTArg{Ast: ast, TrimMethods: append([]string(nil), c.Methods...), Preserve: c.Preserve,
		DisablePreserveComment: c.DisableComment, PreserveStructs: append([]string(nil), c.PreservedStructs...)}
}

// statistics of the most recent TrimAST call
var lastTrim *trim.TrimResultInfo

func runTrim(arg *trim.TrimASTArg) (err error, panicked bool) {
	defer func() {
		if r := recover(); r != nil {
			err = fmt.Errorf("panic: %v", r)
			panicked = true
		}
	}()
	// TrimAST prints warnings ("method … not found") on stdout: silence them
	old := os.Stdout
	if devnull, e := os.OpenFile(os.DevNull, os.O_WRONLY, 0); e == nil {
		os.Stdout = devnull
		defer func() { devnull.Close(); os.Stdout = old }()
	}
	lastTrim, err = trim.TrimAST(arg)
	return err, false
}

func dumpAll(ast *parser.Thrift) (out map[string]string, err error) {
	defer func() {
		if r := recover(); r != nil {
			err = fmt.Errorf("panic: %v", r)
		}
	}()
	out = map[string]string{}
	seen := map[*parser.Thrift]bool{}
	var walk func(t *parser.Thrift) error
	walk = func(t *parser.Thrift) error {
		if seen[t] {
			return nil
		}
		seen[t] = true
		s, err := dump.DumpIDL(t)
		if err != nil {
			return err
		}
		out[t.Filename] = s
		for _, inc := range t.Includes {
			if err := walk(inc.Reference); err != nil {
				return err
			}
		}
		return nil
	}
	return out, walk(ast)
}

// ---------------------------------------------------------------- configuration on the wire

func qualifyD(p *ProgD, m string) string {
	if strings.Contains(m, ".") || len(p.Files[0].Services) == 0 {
		return m
	}
	ss := p.Files[0].Services
	return ss[len(ss)-1].Name + "." + m
}

// variant of the -m code paths the implementation has (see `probe`): three flags, "000" = before the repairs
var variant = "000"

func cfgVL(p *ProgD, c *CfgD) (string, error) {
	e := &enc{}
	for _, ch := range variant {
		e.b(ch == '1')
	}
	e.b(c.Preserve != nil && !*c.Preserve)
	e.b(c.DisableComment != nil && *c.DisableComment)
	e.n(len(c.PreservedStructs))
	for _, s := range c.PreservedStructs {
		e.str(s)
	}
	e.n(len(c.Methods))
	for _, m := range c.Methods {
		e.str(m)
	}
	// the regexp2 match table: every qualified pattern against every "<service>.<function>" of the program
	svcNames := map[string]bool{}
	fnNames := map[string]bool{}
	for _, fi := range p.order() {
		for _, sv := range p.Files[fi].Services {
			svcNames[sv.Name] = true
			for _, fn := range sv.Fns {
				fnNames[fn.Name] = true
			}
		}
	}
	var rows [][3]string
	seenPat := map[string]bool{}
	for _, m := range c.Methods {
		q := qualifyD(p, m)
		if seenPat[q] {
			continue
		}
		seenPat[q] = true
		re, err := regexp2.Compile(q, 0)
		if err != nil {
			return "", err
		}
		for s := range svcNames {
			for f := range fnNames {
				str := s + "." + f
				ok, _ := re.MatchString(str)
				if ok {
					rows = append(rows, [3]string{q, str, "1"})
				}
			}
		}
	}
	sort.Slice(rows, func(i, j int) bool { return rows[i][0]+"\x00"+rows[i][1] < rows[j][0]+"\x00"+rows[j][1] })
	e.n(len(rows))
	for _, r := range rows {
		e.str(r[0])
		e.str(r[1])
		e.tok(r[2])
	}
	return e.sb.String(), nil
}

// ---------------------------------------------------------------- one case

type result struct {
	out      *MProg
	op, impl string
	fails    []vl.OracleFail
	classes  []string
	shapes   []string
}

func cfgString(c *CfgD) string {
	b, _ := json.Marshal(c)
	return string(b)
}

func caseKey(class string, cs *Case) string {
	var sb strings.Builder
	sb.WriteString(class + " cfg=" + cfgString(&cs.Cfg))
	for _, fi := range cs.Prog.order() {
		sb.WriteString(" ## " + cs.Prog.Files[fi].Path + ": " + strings.Join(strings.Fields(cs.Prog.FileText(fi)), " "))
	}
	return sb.String()
}

// check runs one (program, configuration) through the implementation and evaluates the property
// on the implementation alone.  It returns the correspondence lines and the oracle failures.
func check(cs *Case) (res result) {
	p := &cs.Prog
	fail := func(class, what string, expected, observed interface{}) {
		res.classes = append(res.classes, class)
		res.fails = append(res.fails, vl.OracleFail{Key: caseKey(class, cs), What: what,
			Input: map[string]interface{}{"class": class, "case": cs, "idl": p.Texts()}, Expected: expected, Observed: observed})
	}
	texts := p.Texts()
	main := p.Files[0].Path
	ast, err := parseAndResolve(main, texts)
	if err != nil {
		fail("generator", "generated program rejected before trimming (harness defect or front-end change)", "accepted", err.Error())
		return
	}
	model := p.Model()
	if a, b := progFromAST(ast).VL(), model.VL(); a != b {
		fail("binding", "the resolved AST differs from the bindings the IDL prescribes", progFromAST(ast).Render(true, nil), model.Render(true, nil))
		return
	}
	cv, err := cfgVL(p, &cs.Cfg)
	if err != nil {
		fail("generator", "pattern does not compile", "valid regexp", err.Error())
		return
	}
	arg := trimArg(ast, &cs.Cfg)
	terr, panicked := runTrim(arg)
	nothingTrimmed := terr == nil && lastTrim != nil && lastTrim.StructsTrimmed == 0 && lastTrim.FieldsTrimmed == 0
	withRefs := terr == nil
	res.op = "T " + vl.B(withRefs) + cv + model.VL()
	if panicked {
		res.impl = "crash"
	} else {
		q := arg.TrimMethods
		res.impl = progFromAST(ast).Render(withRefs, q)
	}
	res.shapes = shapes(p, &cs.Cfg)
	if nothingTrimmed {
		res.shapes = append(res.shapes, "nothing-trimmed (TrimResultInfo reports 0 structures, 0 fields)")
	}
	if terr != nil {
		fail("trim-error", "TrimAST fails on an accepted program", "nil error", terr.Error())
		return
	}
	out := progFromAST(ast)
	res.out = out
	if e := resolvedAST(ast); e != nil {
		fail("unresolved-result", "the AST TrimAST returns is not a resolved AST", "every file resolved, every reference bound", e.Error())
		return
	}
	oracle(cs, out, fail)
	// validity of the result as IDL text, and idempotence
	dumped, err := dumpAll(ast)
	if err != nil {
		fail("dump", "the trimmed AST cannot be dumped", "IDL text", err.Error())
		return
	}
	ast2, err := parseAndResolve(main, dumped)
	if err != nil {
		fail("invalid-output", "the trimmed IDL set does not pass parse/check/resolve", "accepted", err.Error())
		return
	}
	once := progFromAST(ast2).Render(true, nil)
	if first := out.Render(true, nil); first != once {
		fail("dump-differs", "re-parsing the dumped result gives a different program", first, once)
		return
	}
	arg2 := trimArg(ast2, &cs.Cfg)
	if terr, _ := runTrim(arg2); terr != nil {
		fail("second-trim-error", "trimming the result again fails", "nil error", terr.Error())
		return
	}
	if twice := progFromAST(ast2).Render(true, nil); twice != once {
		fail("not-idempotent", "trimming the result again changes it", once, twice)
		return
	}
	// nothing was removed by that trim: the AST must come back as resolved as it went in
	if e := resolvedAST(ast2); e != nil {
		fail("unresolved-result", "trimming an already minimal program returns an AST that is not resolved", "every file resolved, every reference bound", e.Error())
		return
	}
	// second trim of the same AST object
	if terr, _ := runTrim(trimArg(ast, &cs.Cfg)); terr != nil {
		fail("second-trim-error", "trimming the same AST again fails", "nil error", terr.Error())
		return
	}
	if again := progFromAST(ast).Render(true, nil); again != out.Render(true, nil) {
		fail("not-idempotent", "trimming the same AST again changes it", out.Render(true, nil), again)
		return
	}
	if e := resolvedAST(ast); e != nil {
		fail("unresolved-result", "a second trim of the same AST returns an AST that is not resolved", "every file resolved, every reference bound", e.Error())
	}
	return
}

// ---------------------------------------------------------------- the oracle: Reach over the description

type nodeKey struct {
	file int
	name string
}

func oracle(cs *Case, out *MProg, fail func(class, what string, expected, observed interface{})) {
	p := &cs.Prog
	c := &cs.Cfg
	byPath := map[string]int{}
	for i, f := range p.Files {
		byPath[f.Path] = i
	}
	outFile := map[int]*MFile{}
	for i := range out.Files {
		outFile[byPath[out.Files[i].Name]] = &out.Files[i]
	}
	force := c.Preserve != nil && !*c.Preserve
	noComment := c.DisableComment != nil && *c.DisableComment
	preserved := func(d *DeclD) bool {
		if force {
			return false
		}
		for _, n := range c.PreservedStructs {
			if n == d.Name {
				return true
			}
		}
		return !noComment && expectPreserveComment(d.Comment)
	}
	// --- Reach: least set closed under the reference rules, computed over the description
	need := map[nodeKey]bool{}   // declarations (struct-likes, enums, typedefs)
	needInc := map[[2]int]bool{} // (from file, to file)
	var work []nodeKey
	var addTy func(from int, t *TyD)
	addTy = func(from int, t *TyD) {
		switch t.K {
		case "base":
			return
		case "list", "set":
			addTy(from, t.Val)
			return
		case "map":
			addTy(from, t.Key)
			addTy(from, t.Val)
			return
		}
		if t.File != from {
			needInc[[2]int{from, t.File}] = true
		}
		k := nodeKey{t.File, t.Decl}
		if !need[k] {
			need[k] = true
			work = append(work, k)
		}
	}
	// roots: the functions the trimmer kept (read from its output), every constant and typedef, preserved struct-likes
	for fi, of := range outFile {
		for _, s := range of.Services {
			var sd *SvcD
			for i := range p.Files[fi].Services {
				if p.Files[fi].Services[i].Name == s.Name {
					sd = &p.Files[fi].Services[i]
				}
			}
			if sd == nil {
				fail("invented", "a service in the output that the input does not have", nil, s.Name)
				return
			}
			for _, fn := range s.Fns {
				for _, fd := range sd.Fns {
					if fd.Name == fn.Name {
						for _, a := range fd.Args {
							addTy(fi, a.Ty)
						}
						for _, a := range fd.Throws {
							addTy(fi, a.Ty)
						}
						if fd.Ret != nil {
							addTy(fi, fd.Ret)
						}
					}
				}
			}
			if s.Ext != "" && sd.ExtFile >= 0 && sd.ExtFile != fi {
				needInc[[2]int{fi, sd.ExtFile}] = true
			}
		}
	}
	for _, fi := range p.order() {
		for i := range p.Files[fi].Decls {
			d := &p.Files[fi].Decls[i]
			switch d.Kind {
			case "const", "typedef":
				addTy(fi, d.Ty)
				if d.ValDecl != "" && d.ValFile != fi {
					needInc[[2]int{fi, d.ValFile}] = true
				}
			case "struct", "union", "exception":
				if preserved(d) {
					k := nodeKey{fi, d.Name}
					if !need[k] {
						need[k] = true
						work = append(work, k)
					}
				}
			}
		}
	}
	for len(work) > 0 {
		k := work[len(work)-1]
		work = work[:len(work)-1]
		d := p.decl(k.file, k.name)
		switch d.Kind {
		case "struct", "union", "exception":
			for _, f := range d.Fields {
				addTy(k.file, f.Ty)
			}
		case "typedef":
			addTy(k.file, d.Ty)
		}
	}
	// --- compare with the output
	has := func(of *MFile, d *DeclD) (bool, *MSL) {
		switch d.Kind {
		case "enum":
			for _, e := range of.Enums {
				if e == d.Name {
					return true, nil
				}
			}
		case "typedef":
			for _, t := range of.Typedefs {
				if t.Name == d.Name {
					return true, nil
				}
			}
		case "const":
			for _, t := range of.Consts {
				if t.Name == d.Name {
					return true, nil
				}
			}
		default:
			lst := of.Structs
			if d.Kind == "union" {
				lst = of.Unions
			} else if d.Kind == "exception" {
				lst = of.Exceptions
			}
			for i := range lst {
				if lst[i].Name == d.Name {
					return true, &lst[i]
				}
			}
		}
		return false, nil
	}
	model := p.Model()
	mpos := map[int]int{}
	for i, fi := range p.order() {
		mpos[fi] = i
	}
	for _, fi := range p.order() {
		of := outFile[fi]
		for i := range p.Files[fi].Decls {
			d := &p.Files[fi].Decls[i]
			present, sl := false, (*MSL)(nil)
			if of != nil {
				present, sl = has(of, d)
			}
			id := fmt.Sprintf("%s %s in %s", d.Kind, d.Name, p.Files[fi].Path)
			switch d.Kind {
			case "const", "typedef":
				if !present {
					fail("always-kept", "a constant or typedef was removed (or its file is no longer included): "+id, "kept", "missing")
					return
				}
			case "enum":
				if need[nodeKey{fi, d.Name}] && !present {
					fail("needed-removed", "a needed enum is gone: "+id, "kept", "missing")
					return
				}
				if of != nil && !present {
					fail("always-kept", "an enum was removed from a kept file: "+id, "kept", "missing")
					return
				}
			default:
				if need[nodeKey{fi, d.Name}] && !present {
					fail("needed-removed", "a needed struct-like is gone: "+id, "kept", "missing")
					return
				}
				if !need[nodeKey{fi, d.Name}] && present {
					fail("unneeded-kept", "a struct-like that nothing kept refers to survives: "+id, "removed", "kept")
					return
				}
				if present {
					// identical fields (names, ids, types as written)
					var want []MSL
					mf := model.Files[mpos[fi]]
					for _, l := range [][]MSL{mf.Structs, mf.Unions, mf.Exceptions} {
						for _, s := range l {
							if s.Name == d.Name {
								want = append(want, s)
							}
						}
					}
					if len(want) != 1 || rFields(false, want[0].Fields) != rFields(false, sl.Fields) {
						fail("fields-changed", "a kept struct-like does not have its original fields: "+id, rFields(false, want[0].Fields), rFields(false, sl.Fields))
						return
					}
				}
			}
		}
		if of == nil {
			continue
		}
		// needed includes present
		for _, to := range p.Files[fi].Includes {
			if needInc[[2]int{fi, to}] {
				found := false
				for _, inc := range of.Includes {
					if inc.Path == p.Files[to].Path {
						found = true
					}
				}
				if !found {
					fail("include-removed", fmt.Sprintf("a needed include is gone: %s in %s", p.Files[to].Path, p.Files[fi].Path), "kept", "missing")
					return
				}
			}
		}
	}
	// --- services and the method filter
	root := outFile[0]
	if len(c.Methods) == 0 {
		// every root service with all its functions, and the whole extends chain
		var chain func(fi int, name string, depth int)
		chain = func(fi int, name string, depth int) {
			if depth > 50 {
				return
			}
			var sd *SvcD
			for i := range p.Files[fi].Services {
				if p.Files[fi].Services[i].Name == name {
					sd = &p.Files[fi].Services[i]
				}
			}
			of := outFile[fi]
			var os *MSvc
			if of != nil {
				for i := range of.Services {
					if of.Services[i].Name == name {
						os = &of.Services[i]
					}
				}
			}
			if os == nil {
				fail("service-removed", fmt.Sprintf("a kept service (root service or base of one) is gone: %s in %s", name, p.Files[fi].Path), "kept", "missing")
				return
			}
			if len(os.Fns) != len(sd.Fns) {
				fail("function-removed", fmt.Sprintf("functions of %s removed without a method filter", name), len(sd.Fns), len(os.Fns))
				return
			}
			if sd.ExtFile >= 0 {
				if os.Ext == "" {
					fail("extends-removed", fmt.Sprintf("the base of %s was cut without a method filter", name), "extends", "none")
					return
				}
				chain(sd.ExtFile, sd.ExtName, depth+1)
			}
		}
		for _, s := range p.Files[0].Services {
			chain(0, s.Name, 0)
		}
	} else if root != nil {
		// only matching methods remain; a method named exactly by a pattern remains
		pats := []*regexp2.Regexp{}
		lits := []string{}
		for _, m := range c.Methods {
			q := qualifyD(p, m)
			re, _ := regexp2.Compile(q, 0)
			pats = append(pats, re)
			lits = append(lits, q)
		}
		// fathers of a service: every service that reaches it through extends (itself included)
		type sk struct {
			f int
			n string
		}
		fathers := map[sk][]string{}
		for _, fi := range p.order() {
			for _, s := range p.Files[fi].Services {
				cur, cf := s, fi
				for depth := 0; depth < 50; depth++ {
					fathers[sk{cf, cur.Name}] = append(fathers[sk{cf, cur.Name}], s.Name)
					if cur.ExtFile < 0 {
						break
					}
					nf := cur.ExtFile
					var nx *SvcD
					for i := range p.Files[nf].Services {
						if p.Files[nf].Services[i].Name == cur.ExtName {
							nx = &p.Files[nf].Services[i]
						}
					}
					if nx == nil {
						break
					}
					cur, cf = *nx, nf
				}
			}
		}
		// the selection rule of the documentation plus the prefix rule of the code: the regexp finds the
		// name and the pattern text is not a strict prefix of it
		rule := func(full string) bool {
			for i, re := range pats {
				if m, _ := re.MatchString(full); m && (full == lits[i] || !strings.HasPrefix(full, lits[i])) {
					return true
				}
			}
			return false
		}
		for fi, of := range outFile {
			for _, s := range of.Services {
				for _, fn := range s.Fns {
					ok := false
					for _, fa := range fathers[sk{fi, s.Name}] {
						if rule(fa + "." + fn.Name) {
							ok = true
						}
					}
					if !ok {
						fail("unmatched-method-kept", fmt.Sprintf("%s.%s survives although no -m pattern selects it (a pattern that is a strict prefix of the name does not count)", s.Name, fn.Name), "removed", "kept")
						return
					}
				}
			}
		}
		// a method selected through a root service (its own or an inherited one, under the name of any service
		// on the way) remains, and
		// the extends chain from the root service to the service that declares it stays intact
		findOut := func(fi int, name string) *MSvc {
			of := outFile[fi]
			if of == nil {
				return nil
			}
			for i := range of.Services {
				if of.Services[i].Name == name {
					return &of.Services[i]
				}
			}
			return nil
		}
		for _, rs := range p.Files[0].Services {
			cur, cf := rs, 0
			var path []sk
			for depth := 0; depth < 50; depth++ {
				path = append(path, sk{cf, cur.Name})
				for _, fn := range cur.Fns {
					selected := false
					for _, pn := range path {
						if rule(pn.n + "." + fn.Name) {
							selected = true
						}
					}
					for _, l := range []string{rs.Name + "." + fn.Name} {
						if !selected {
							continue
						}
						os := findOut(cf, cur.Name)
						found := false
						if os != nil {
							for _, ofn := range os.Fns {
								if ofn.Name == fn.Name {
									found = true
								}
							}
						}
						if !found {
							fail("named-method-removed", fmt.Sprintf("-m %s: the method %s.%s is gone", l, cur.Name, fn.Name), "kept", "missing")
							return
						}
						for k := 0; k+1 < len(path); k++ {
							link := findOut(path[k].f, path[k].n)
							if link == nil || link.Ext == "" {
								fail("named-method-chain-cut", fmt.Sprintf("-m %s: %s no longer inherits %s.%s (extends of %s cut)", l, rs.Name, cur.Name, fn.Name, path[k].n), "extends kept", "cut")
								return
							}
						}
					}
				}
				if cur.ExtFile < 0 {
					break
				}
				nf := cur.ExtFile
				var nx *SvcD
				for i := range p.Files[nf].Services {
					if p.Files[nf].Services[i].Name == cur.ExtName {
						nx = &p.Files[nf].Services[i]
					}
				}
				if nx == nil {
					break
				}
				cur, cf = *nx, nf
			}
		}
	}
}

// ---------------------------------------------------------------- shapes (for the statistics)

func shapes(p *ProgD, c *CfgD) []string {
	var out []string
	ord := p.order()
	out = append(out, fmt.Sprintf("files=%d", len(ord)))
	indeg := map[int]int{}
	crossExt, sameExtNonRoot, tdRef, contRef, crossRef, constValRef := false, false, false, false, false, false
	var scan func(from int, t *TyD, inCont bool)
	scan = func(from int, t *TyD, inCont bool) {
		switch t.K {
		case "list", "set":
			scan(from, t.Val, true)
		case "map":
			scan(from, t.Key, true)
			scan(from, t.Val, true)
		case "ref":
			if t.File != from {
				crossRef = true
			}
			if inCont {
				contRef = true
			}
			if p.decl(t.File, t.Decl).Kind == "typedef" {
				tdRef = true
			}
		}
	}
	for _, fi := range ord {
		for _, inc := range p.Files[fi].Includes {
			indeg[inc]++
		}
		for _, d := range p.Files[fi].Decls {
			for _, f := range d.Fields {
				scan(fi, f.Ty, false)
			}
			if d.Ty != nil {
				scan(fi, d.Ty, false)
			}
			if d.ValDecl != "" && d.ValFile != fi {
				constValRef = true
			}
		}
		for _, s := range p.Files[fi].Services {
			if s.ExtFile >= 0 && s.ExtFile != fi {
				crossExt = true
			}
			if s.ExtFile == fi && fi != 0 {
				sameExtNonRoot = true
			}
			for _, fn := range s.Fns {
				for _, a := range fn.Args {
					scan(fi, a.Ty, false)
				}
				for _, a := range fn.Throws {
					scan(fi, a.Ty, false)
				}
				if fn.Ret != nil {
					scan(fi, fn.Ret, false)
				}
			}
		}
	}
	for _, n := range indeg {
		if n > 1 {
			out = append(out, "diamond")
			break
		}
	}
	if crossExt {
		out = append(out, "extends-across-files")
	}
	if sameExtNonRoot {
		out = append(out, "extends-same-file-in-include")
	}
	if tdRef {
		out = append(out, "ref-to-typedef")
	}
	if contRef {
		out = append(out, "ref-in-container")
	}
	if crossRef {
		out = append(out, "ref-across-files")
	}
	if constValRef {
		out = append(out, "const-value-across-files")
	}
	for _, m := range c.Methods {
		switch {
		case !strings.Contains(m, "."):
			out = append(out, "m-unqualified")
		case strings.ContainsAny(m, "*^$|(\\"):
			out = append(out, "m-regexp")
		default:
			out = append(out, "m-exact")
		}
	}
	if len(c.PreservedStructs) > 0 {
		out = append(out, "preserved-list")
	}
	if c.Preserve != nil && !*c.Preserve {
		out = append(out, "preserve=false")
	}
	if c.DisableComment != nil && *c.DisableComment {
		out = append(out, "disable-comment")
	}
	for _, fi := range ord {
		for _, d := range p.Files[fi].Decls {
			if d.Comment != "" {
				if expectPreserveComment(d.Comment) {
					out = append(out, "@preserve")
				} else {
					out = append(out, "@preserve-near-miss")
				}
			}
		}
	}
	return out
}

// ---------------------------------------------------------------- run / replay

func hasClass(r result, class string) bool {
	for _, c := range r.classes {
		if c == class {
			return true
		}
	}
	return false
}

func run(repo, dir string, seed uint64, tier, trimmerBin, thriftgoBin string) error {
	// TrimAST reads trim_config.yaml from the working directory: run in an empty one
	wd := filepath.Join(dir, "cwd")
	os.MkdirAll(wd, 0o755)
	if err := os.Chdir(wd); err != nil {
		return err
	}
	out := vl.NewOut(dir)
	out.Count("variant:" + variant)
	// vl.NewRng(s) and vl.NewRng(s+1) produce the same stream shifted by one draw: decorrelate the seeds
	z := (seed + 0x632BE59BD9B4E019) * 0xD6E8FEB86659FD93
	z ^= z >> 32
	z *= 0xD6E8FEB86659FD93
	z ^= z >> 32
	r := vl.NewRng(z)
	n := 300
	if tier == "thorough" {
		n = 5000
	}
	perClass := map[string][]vl.OracleFail{}
	var classOrder []string
	// the corpus of past failures and seeded shapes runs first
	for _, cc := range corpus() {
		cs := cc.c.clone()
		res := check(cs)
		out.Count("corpus:" + cc.name)
		if res.op != "" {
			out.Case(res.op, res.impl, true)
		}
		for j, f := range res.fails {
			cl := res.classes[j]
			out.Count("oracle-fail:" + cl)
			if len(perClass[cl]) < 2 {
				perClass[cl] = append(perClass[cl], f)
				if len(perClass[cl]) == 1 {
					classOrder = append(classOrder, cl)
				}
			}
		}
	}
	attempts := map[string]int{}
	report := func(cs *Case, res result) {
		for _, cl := range res.classes {
			out.Count("oracle-fail:" + cl)
			if len(perClass[cl]) >= 2 || attempts[cl] >= 4 {
				continue
			}
			attempts[cl]++
			small := shrink(cs, cl)
			sres := check(small)
			for j, f := range sres.fails {
				if sres.classes[j] == cl {
					dup := false
					for _, g := range perClass[cl] {
						if g.Key == f.Key {
							dup = true
						}
					}
					if !dup {
						perClass[cl] = append(perClass[cl], f)
						if len(perClass[cl]) == 1 {
							classOrder = append(classOrder, cl)
						}
					}
					break
				}
			}
		}
	}
	var minimal []*ProgD
	maxE2E := 3
	if tier == "thorough" {
		maxE2E = 20
	}
	for _, cc := range corpus() {
		if cc.name == "fully-used-two-files" {
			q := cc.c.clone().Prog
			minimal = append(minimal, &q)
			maxE2E++
		}
	}
	var progs []*ProgD
	for i := 0; i < n; i++ {
		p := genProg(r)
		progs = append(progs, p)
		for k := 0; k < 4; k++ {
			family := k
			if k == 3 {
				family = 3 + r.Intn(2)
			}
			cfg, fam := genCfg(r, p, family)
			cs := &Case{Prog: *p, Cfg: cfg}
			res := check(cs)
			out.Count("config:" + fam)
			for _, s := range res.shapes {
				out.Count("shape:" + s)
			}
			if res.op != "" {
				out.Case(res.op, res.impl, len(p.order()) > 1 || len(allSvcFns(p)) > 0)
			}
			if i < 2 && k < 2 {
				out.Sample(map[string]interface{}{"cfg": cfg, "idl": p.Texts()})
			}
			report(cs, res)
			// an already minimal program: what the trimmer kept, trimmed again from scratch (nothing to remove)
			if len(res.classes) == 0 && res.out != nil && r.Chance(40) {
				q := project(p, res.out)
				cs2 := &Case{Prog: *q, Cfg: cfg}
				res2 := check(cs2)
				out.Count("config:minimal-program(" + fam + ")")
				for _, sh := range res2.shapes {
					if strings.HasPrefix(sh, "nothing-trimmed") {
						out.Count("minimal-program:" + sh)
					}
				}
				if res2.op != "" {
					out.Case(res2.op, res2.impl, true)
				}
				report(cs2, res2)
				if len(res2.classes) == 0 && len(minimal) < maxE2E && len(q.order()) > 1 && len(allSvcFns(q)) > 0 {
					minimal = append(minimal, q)
				}
			}
		}
	}
	// at most two minimised inputs per failure class; the first of every class comes first
	for round := 0; round < 2; round++ {
		for _, cl := range classOrder {
			if len(perClass[cl]) > round {
				out.Fail(perClass[cl][round])
			}
		}
	}
	// end to end, in process: `thriftgo -g go:trim_idl` on programs in which nothing can be trimmed
	for i, q := range minimal {
		generateTrimIDL(dir, out, i, q)
	}
	if trimmerBin != "" || thriftgoBin != "" {
		nb := 6
		if tier == "thorough" {
			nb = 40
		}
		if err := binaryLevel(dir, out, progs, nb, trimmerBin, thriftgoBin); err != nil {
			return err
		}
	}
	out.Close()
	return nil
}

// binaryLevel: `trimmer -r` on programs written to disk (outputs re-parsed, re-checked, compared with
// the in-process result) and `thriftgo -g go:trim_idl` (must exit 0 whenever plain `-g go` does).
func binaryLevel(dir string, out *vl.Out, progs []*ProgD, n int, trimmerBin, thriftgoBin string) error {
	done := 0
	for i, p := range progs {
		if done >= n {
			break
		}
		if len(p.order()) < 2 {
			continue
		}
		done++
		src := filepath.Join(dir, fmt.Sprintf("bin%d", i), "src")
		dst := filepath.Join(dir, fmt.Sprintf("bin%d", i), "out")
		os.MkdirAll(src, 0o755)
		for path, text := range p.Texts() {
			if err := os.WriteFile(filepath.Join(src, path), []byte(text), 0o644); err != nil {
				return err
			}
		}
		cs := &Case{Prog: *p}
		inproc := check(cs)
		if len(inproc.fails) > 0 {
			continue // reported by the in-process pass
		}
		main := filepath.Join(src, p.Files[0].Path)
		if trimmerBin != "" {
			cmd := exec.Command(trimmerBin, "-r", src, "-o", dst, main)
			cmd.Dir = filepath.Join(dir, "cwd")
			b, err := cmd.CombinedOutput()
			out.Count("binary:trimmer -r")
			fail := func(what string, exp, obs interface{}) {
				out.Fail(vl.OracleFail{Key: caseKey("binary-trimmer", cs), What: what,
					Input: map[string]interface{}{"class": "binary-trimmer", "case": cs, "idl": p.Texts()}, Expected: exp, Observed: obs})
			}
			if err != nil {
				fail("trimmer -r exits non-zero on an accepted program", "exit 0", string(b))
				continue
			}
			ast, err := parser.ParseFile(filepath.Join(dst, p.Files[0].Path), nil, true)
			if err == nil {
				_, err = semantic.NewChecker(semantic.Options{FixWarnings: true}).CheckAll(ast)
			}
			if err == nil {
				err = semantic.ResolveSymbols(ast)
			}
			if err != nil {
				fail("files written by trimmer -r do not parse/check/resolve", "accepted", err.Error())
				continue
			}
			got := progFromAST(ast)
			for k := range got.Files {
				got.Files[k].Name = filepath.Base(got.Files[k].Name)
			}
			// the in-process result, reconstructed from its rendering without the method list
			ast2, _ := parseAndResolve(p.Files[0].Path, p.Texts())
			runTrim(trimArg(ast2, &cs.Cfg))
			want := progFromAST(ast2).Render(true, nil)
			if g := got.Render(true, nil); g != want {
				fail("trimmer -r writes a different program than TrimAST computes in-process", want, g)
			}
		}
		if thriftgoBin != "" {
			gen := filepath.Join(dir, fmt.Sprintf("bin%d", i), "gen")
			plain := exec.Command(thriftgoBin, "-r", "-g", "go", "-o", gen+"-plain", main)
			plain.Dir = filepath.Join(dir, "cwd")
			if _, err := plain.CombinedOutput(); err != nil {
				out.Count("binary:thriftgo plain run fails (skipped)")
				continue
			}
			cmd := exec.Command(thriftgoBin, "-r", "-g", "go:trim_idl", "-o", gen, main)
			cmd.Dir = filepath.Join(dir, "cwd")
			b, err := cmd.CombinedOutput()
			out.Count("binary:thriftgo -g go:trim_idl")
			if err != nil {
				out.Fail(vl.OracleFail{Key: caseKey("binary-thriftgo", cs), What: "thriftgo -g go:trim_idl fails where plain -g go succeeds",
					Input: map[string]interface{}{"class": "binary-thriftgo", "case": cs, "idl": p.Texts()}, Expected: "exit 0", Observed: string(b)})
			}
		}
		os.RemoveAll(filepath.Join(dir, fmt.Sprintf("bin%d", i)))
	}
	return nil
}

// generateTrimIDL runs the compiler front to back (sdk.InvokeThriftgo) with and without trim_idl on a
// program written to disk; trim_idl must succeed whenever the plain run does.
func generateTrimIDL(dir string, out *vl.Out, i int, p *ProgD) {
	base := filepath.Join(dir, fmt.Sprintf("e2e%d", i))
	src := filepath.Join(base, "src")
	os.MkdirAll(src, 0o755)
	defer os.RemoveAll(base)
	for path, text := range p.Texts() {
		os.WriteFile(filepath.Join(src, path), []byte(text), 0o644)
	}
	main := filepath.Join(src, p.Files[0].Path)
	invoke := func(opt, outDir string) (err error) {
		defer func() {
			if r := recover(); r != nil {
				err = fmt.Errorf("panic: %v", r)
			}
		}()
		oldOut, oldErr := os.Stdout, os.Stderr
		if devnull, e := os.OpenFile(os.DevNull, os.O_WRONLY, 0); e == nil {
			os.Stdout, os.Stderr = devnull, devnull
			defer func() { devnull.Close(); os.Stdout, os.Stderr = oldOut, oldErr }()
		}
		return sdk.InvokeThriftgo(nil, "thriftgo", "-r", "-g", opt, "-o", outDir, main)
	}
	if err := invoke("go", filepath.Join(base, "plain")); err != nil {
		out.Count("e2e:plain -g go fails (skipped)")
		return
	}
	out.Count("e2e:thriftgo -g go:trim_idl (in process, nothing to trim)")
	if err := invoke("go:trim_idl", filepath.Join(base, "trim")); err != nil {
		cs := &Case{Prog: *p}
		out.Fail(vl.OracleFail{Key: caseKey("generate-trim-idl", cs), What: "thriftgo -g go:trim_idl fails where plain -g go succeeds",
			Input: map[string]interface{}{"class": "generate-trim-idl", "case": cs, "idl": p.Texts()}, Expected: "code generated", Observed: err.Error()})
	}
}

func replay(file string) error {
	b, err := os.ReadFile(file)
	if err != nil {
		return err
	}
	var doc struct {
		Input struct {
			Class string `json:"class"`
			Case  Case   `json:"case"`
		} `json:"input"`
	}
	if err := json.Unmarshal(b, &doc); err != nil {
		return err
	}
	dir, _ := os.MkdirTemp("", "c16replay")
	defer os.RemoveAll(dir)
	os.Chdir(dir)
	res := check(&doc.Input.Case)
	fails := res.fails
	if fails == nil {
		fails = []vl.OracleFail{}
	}
	js, _ := json.Marshal(fails)
	fmt.Println(string(js))
	return nil
}

func main() {
	repo := flag.String("repo", "/repo", "")
	dir := flag.String("dir", ".", "")
	seed := flag.Uint64("seed", 1, "")
	tier := flag.String("tier", "quick", "")
	file := flag.String("file", "", "")
	trimmerBin := flag.String("trimmer", "", "")
	thriftgoBin := flag.String("thriftgo", "", "")
	variantFlag := flag.String("variant", "", "")
	if len(os.Args) < 2 {
		fmt.Fprintln(os.Stderr, "usage: c16 run|replay [flags]")
		os.Exit(3)
	}
	flag.CommandLine.Parse(os.Args[2:])
	var err error
	if *variantFlag != "" {
		variant = *variantFlag
	} else if os.Args[1] != "probe" {
		func() {
			d, _ := os.MkdirTemp("", "c16probe")
			defer os.RemoveAll(d)
			wd, _ := os.Getwd()
			os.Chdir(d)
			defer os.Chdir(wd)
			variant = probe()
		}()
	}
	switch os.Args[1] {
	case "probe":
		d, _ := os.MkdirTemp("", "c16probe")
		defer os.RemoveAll(d)
		os.Chdir(d)
		fmt.Println(probe())
	case "run":
		var abs string
		abs, err = filepath.Abs(*dir)
		if err == nil {
			err = run(*repo, abs, *seed, *tier, *trimmerBin, *thriftgoBin)
		}
	case "replay":
		err = replay(*file)
	default:
		err = fmt.Errorf("usage: c16 run|replay")
	}
	if err != nil {
		fmt.Fprintln(os.Stderr, "c16:", err)
		os.Exit(3)
	}
}
