package main

// "The trimmed AST is a resolved AST": evaluated on the AST that TrimAST hands back, without
// re-resolving it first.  This is what every backend relies on (Name2Category, Type.Category,
// Type.Reference, Include.Used, semantic.Deref).

import (
	"fmt"
	"strings"

	"github.com/cloudwego/thriftgo/parser"
	"github.com/cloudwego/thriftgo/semantic"
)

func resolvedAST(root *parser.Thrift) (err error) {
	defer func() {
		if r := recover(); r != nil {
			err = fmt.Errorf("panic while inspecting the AST: %v", r)
		}
	}()
	seen := map[*parser.Thrift]bool{}
	var files []*parser.Thrift
	var walk func(t *parser.Thrift)
	walk = func(t *parser.Thrift) {
		if t == nil || seen[t] {
			return
		}
		seen[t] = true
		files = append(files, t)
		for _, inc := range t.Includes {
			walk(inc.Reference)
		}
	}
	walk(root)
	for _, t := range files {
		if t.Name2Category == nil {
			return fmt.Errorf("%s: Name2Category is nil (file not semantically resolved)", t.Filename)
		}
		declared := func(name string, want parser.Category) error {
			c, ok := t.Name2Category[name]
			if !ok || c != want {
				return fmt.Errorf("%s: Name2Category[%q] = %v,%v, want %v", t.Filename, name, c, ok, want)
			}
			return nil
		}
		for _, x := range t.Typedefs {
			if e := declared(x.Alias, parser.Category_Typedef); e != nil {
				return e
			}
		}
		for _, x := range t.Constants {
			if e := declared(x.Name, parser.Category_Constant); e != nil {
				return e
			}
		}
		for _, x := range t.Enums {
			if e := declared(x.Name, parser.Category_Enum); e != nil {
				return e
			}
		}
		for _, x := range t.Structs {
			if e := declared(x.Name, parser.Category_Struct); e != nil {
				return e
			}
		}
		for _, x := range t.Unions {
			if e := declared(x.Name, parser.Category_Union); e != nil {
				return e
			}
		}
		for _, x := range t.Exceptions {
			if e := declared(x.Name, parser.Category_Exception); e != nil {
				return e
			}
		}
		for _, x := range t.Services {
			if e := declared(x.Name, parser.Category_Service); e != nil {
				return e
			}
		}
		viaInclude := func(where, prefix, name string, ref *parser.Reference) error {
			if ref == nil {
				return fmt.Errorf("%s: %s: qualified name without Reference", t.Filename, where)
			}
			if ref.Index < 0 || int(ref.Index) >= len(t.Includes) {
				return fmt.Errorf("%s: %s: Reference.Index %d out of range (%d includes)", t.Filename, where, ref.Index, len(t.Includes))
			}
			inc := t.Includes[ref.Index]
			if semantic.IDLPrefix(inc.Path) != prefix || ref.Name != name {
				return fmt.Errorf("%s: %s: Reference {%s,%d} does not denote %s.%s (include %q)", t.Filename, where, ref.Name, ref.Index, prefix, name, inc.Path)
			}
			if inc.Reference == nil || inc.Reference.Name2Category == nil {
				return fmt.Errorf("%s: %s: include %q is not resolved", t.Filename, where, inc.Path)
			}
			if _, ok := inc.Reference.Name2Category[name]; !ok {
				return fmt.Errorf("%s: %s: %q does not define %q", t.Filename, where, inc.Path, name)
			}
			if inc.Used == nil || !*inc.Used {
				return fmt.Errorf("%s: %s: include %q is referenced but not marked Used", t.Filename, where, inc.Path)
			}
			return nil
		}
		var checkTy func(where string, ty *parser.Type) error
		checkTy = func(where string, ty *parser.Type) error {
			if ty == nil {
				return fmt.Errorf("%s: %s: nil type", t.Filename, where)
			}
			if ty.Category == parser.Category_Constant {
				return fmt.Errorf("%s: %s: type %q has no category", t.Filename, where, ty.Name)
			}
			switch ty.Name {
			case "map":
				if e := checkTy(where, ty.KeyType); e != nil {
					return e
				}
				return checkTy(where, ty.ValueType)
			case "list", "set":
				return checkTy(where, ty.ValueType)
			case "bool", "byte", "i8", "i16", "i32", "i64", "double", "string", "binary":
				return nil
			}
			if i := strings.LastIndex(ty.Name, "."); i >= 0 {
				if e := viaInclude(where, ty.Name[:i], ty.Name[i+1:], ty.Reference); e != nil {
					return e
				}
			} else if _, ok := t.Name2Category[ty.Name]; !ok {
				return fmt.Errorf("%s: %s: %q is not defined", t.Filename, where, ty.Name)
			}
			if _, _, e := semantic.Deref(t, ty); e != nil {
				return fmt.Errorf("%s: %s: semantic.Deref(%s): %v", t.Filename, where, ty.Name, e)
			}
			return nil
		}
		for _, x := range t.Typedefs {
			if e := checkTy("typedef "+x.Alias, x.Type); e != nil {
				return e
			}
		}
		for _, x := range t.Constants {
			if e := checkTy("const "+x.Name, x.Type); e != nil {
				return e
			}
		}
		for _, s := range t.GetStructLikes() {
			for _, f := range s.Fields {
				if e := checkTy(s.Name+"."+f.Name, f.Type); e != nil {
					return e
				}
			}
		}
		for _, s := range t.Services {
			if i := strings.LastIndex(s.Extends, "."); i >= 0 {
				if e := viaInclude("service "+s.Name+" extends", s.Extends[:i], s.Extends[i+1:], s.Reference); e != nil {
					return e
				}
			} else if s.Extends != "" {
				if c, ok := t.Name2Category[s.Extends]; !ok || c != parser.Category_Service {
					return fmt.Errorf("%s: base service %q of %q is not defined", t.Filename, s.Extends, s.Name)
				}
			}
			for _, fn := range s.Functions {
				for _, a := range fn.Arguments {
					if e := checkTy(s.Name+"."+fn.Name+"("+a.Name+")", a.Type); e != nil {
						return e
					}
				}
				for _, a := range fn.Throws {
					if e := checkTy(s.Name+"."+fn.Name+" throws "+a.Name, a.Type); e != nil {
						return e
					}
				}
				if !fn.Void {
					if e := checkTy(s.Name+"."+fn.Name+" result", fn.FunctionType); e != nil {
						return e
					}
				}
			}
		}
	}
	return nil
}

// project keeps of the description exactly what the trimmer kept: the result is a program in which
// nothing can be trimmed (an already minimal IDL).
func project(p *ProgD, out *MProg) *ProgD {
	byPath := map[string]*MFile{}
	for i := range out.Files {
		byPath[out.Files[i].Name] = &out.Files[i]
	}
	q := (&Case{Prog: *p}).clone().Prog
	for fi := range q.Files {
		f := &q.Files[fi]
		of := byPath[f.Path]
		if of == nil {
			f.Includes, f.Decls, f.Services = nil, nil, nil
			continue
		}
		var incs []int
		for _, to := range f.Includes {
			for _, oi := range of.Includes {
				if oi.Path == q.Files[to].Path {
					incs = append(incs, to)
				}
			}
		}
		f.Includes = incs
		has := func(kind, name string) bool {
			switch kind {
			case "enum":
				for _, e := range of.Enums {
					if e == name {
						return true
					}
				}
			case "typedef":
				for _, e := range of.Typedefs {
					if e.Name == name {
						return true
					}
				}
			case "const":
				for _, e := range of.Consts {
					if e.Name == name {
						return true
					}
				}
			case "struct":
				for _, e := range of.Structs {
					if e.Name == name {
						return true
					}
				}
			case "union":
				for _, e := range of.Unions {
					if e.Name == name {
						return true
					}
				}
			case "exception":
				for _, e := range of.Exceptions {
					if e.Name == name {
						return true
					}
				}
			}
			return false
		}
		var decls []DeclD
		for _, d := range f.Decls {
			if has(d.Kind, d.Name) {
				decls = append(decls, d)
			}
		}
		f.Decls = decls
		var svcs []SvcD
		for _, s := range f.Services {
			for _, os := range of.Services {
				if os.Name != s.Name {
					continue
				}
				var fns []FnD
				for _, fn := range s.Fns {
					for _, ofn := range os.Fns {
						if ofn.Name == fn.Name {
							fns = append(fns, fn)
						}
					}
				}
				s.Fns = fns
				if os.Ext == "" {
					s.ExtFile, s.ExtName = -1, ""
				}
				svcs = append(svcs, s)
			}
		}
		f.Services = svcs
	}
	compact(&q)
	return &q
}
