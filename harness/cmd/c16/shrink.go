package main

// Shrinking of a failing (program, configuration) on the description level, then canonical renaming,
// so that the same defect found from different seeds ends in the same minimal input.

import (
	"fmt"
	"regexp"
	"strings"
)

var i32 = TyD{K: "base", Base: "i32"}

// mapTypes rewrites every type position bottom-up; fn returning nil deletes the position where that
// is possible (throws), else it is replaced by i32.
func mapTypes(p *ProgD, fn func(from int, t *TyD) *TyD) {
	var rec func(from int, t *TyD) *TyD
	rec = func(from int, t *TyD) *TyD {
		if t == nil {
			return nil
		}
		c := *t
		if c.Key != nil {
			if k := rec(from, c.Key); k != nil {
				c.Key = k
			} else {
				x := i32
				c.Key = &x
			}
		}
		if c.Val != nil {
			if v := rec(from, c.Val); v != nil {
				c.Val = v
			} else {
				x := i32
				c.Val = &x
			}
		}
		return fn(from, &c)
	}
	or32 := func(t *TyD) *TyD {
		if t == nil {
			x := i32
			return &x
		}
		return t
	}
	for fi := range p.Files {
		f := &p.Files[fi]
		for di := range f.Decls {
			d := &f.Decls[di]
			for k := range d.Fields {
				d.Fields[k].Ty = or32(rec(fi, d.Fields[k].Ty))
			}
			if d.Ty != nil {
				d.Ty = or32(rec(fi, d.Ty))
			}
		}
		for si := range f.Services {
			for k := range f.Services[si].Fns {
				fnd := &f.Services[si].Fns[k]
				for a := range fnd.Args {
					fnd.Args[a].Ty = or32(rec(fi, fnd.Args[a].Ty))
				}
				var th []FieldD
				for _, t := range fnd.Throws {
					if nt := rec(fi, t.Ty); nt != nil && nt.K == "ref" {
						t.Ty = nt
						th = append(th, t)
					}
				}
				fnd.Throws = th
				if fnd.Ret != nil {
					fnd.Ret = or32(rec(fi, fnd.Ret))
				}
			}
		}
	}
}

func dropDecl(p *ProgD, fi int, name string) {
	mapTypes(p, func(from int, t *TyD) *TyD {
		if t.K == "ref" && t.File == fi && t.Decl == name {
			return nil
		}
		return t
	})
	for a := range p.Files {
		for b := range p.Files[a].Decls {
			d := &p.Files[a].Decls[b]
			if d.ValDecl == name && d.ValFile == fi {
				d.ValDecl, d.ValFile = "", 0
			}
		}
	}
	f := &p.Files[fi]
	for i := range f.Decls {
		if f.Decls[i].Name == name {
			f.Decls = append(f.Decls[:i:i], f.Decls[i+1:]...)
			return
		}
	}
}

func dropService(p *ProgD, fi int, name string) {
	for a := range p.Files {
		for b := range p.Files[a].Services {
			s := &p.Files[a].Services[b]
			if s.ExtFile == fi && s.ExtName == name {
				s.ExtFile, s.ExtName = -1, ""
			}
		}
	}
	f := &p.Files[fi]
	for i := range f.Services {
		if f.Services[i].Name == name {
			f.Services = append(f.Services[:i:i], f.Services[i+1:]...)
			return
		}
	}
}

func dropEdge(p *ProgD, from, to int) {
	mapTypes(p, func(f int, t *TyD) *TyD {
		if f == from && t.K == "ref" && t.File == to {
			return nil
		}
		return t
	})
	for b := range p.Files[from].Services {
		s := &p.Files[from].Services[b]
		if s.ExtFile == to {
			s.ExtFile, s.ExtName = -1, ""
		}
	}
	for b := range p.Files[from].Decls {
		d := &p.Files[from].Decls[b]
		if d.ValDecl != "" && d.ValFile == to {
			d.ValDecl, d.ValFile = "", 0
		}
	}
	inc := p.Files[from].Includes
	for i := range inc {
		if inc[i] == to {
			p.Files[from].Includes = append(inc[:i:i], inc[i+1:]...)
			return
		}
	}
}

// compact removes files unreachable from file 0 and renumbers
func compact(p *ProgD) {
	ord := p.order()
	keep := map[int]bool{}
	for _, f := range ord {
		keep[f] = true
	}
	if len(keep) == len(p.Files) {
		return
	}
	newIdx := map[int]int{}
	var files []FileD
	for i, f := range p.Files {
		if keep[i] {
			newIdx[i] = len(files)
			files = append(files, f)
		}
	}
	p.Files = files
	for fi := range p.Files {
		for k, inc := range p.Files[fi].Includes {
			p.Files[fi].Includes[k] = newIdx[inc]
		}
		for k := range p.Files[fi].Services {
			if e := p.Files[fi].Services[k].ExtFile; e >= 0 {
				p.Files[fi].Services[k].ExtFile = newIdx[e]
			}
		}
		for k := range p.Files[fi].Decls {
			if p.Files[fi].Decls[k].ValDecl != "" {
				p.Files[fi].Decls[k].ValFile = newIdx[p.Files[fi].Decls[k].ValFile]
			}
		}
	}
	mapTypes(p, func(from int, t *TyD) *TyD {
		if t.K == "ref" {
			t.File = newIdx[t.File]
		}
		return t
	})
}

func candidates(cs *Case) []func(c *Case) {
	var out []func(c *Case)
	add := func(f func(c *Case)) { out = append(out, f) }
	for i := range cs.Cfg.Methods {
		i := i
		add(func(c *Case) { c.Cfg.Methods = append(c.Cfg.Methods[:i:i], c.Cfg.Methods[i+1:]...) })
	}
	for i := range cs.Cfg.PreservedStructs {
		i := i
		add(func(c *Case) {
			c.Cfg.PreservedStructs = append(c.Cfg.PreservedStructs[:i:i], c.Cfg.PreservedStructs[i+1:]...)
		})
	}
	if cs.Cfg.Preserve != nil {
		add(func(c *Case) { c.Cfg.Preserve = nil })
	}
	if cs.Cfg.DisableComment != nil {
		add(func(c *Case) { c.Cfg.DisableComment = nil })
	}
	p := &cs.Prog
	for fi := range p.Files {
		fi := fi
		for _, to := range p.Files[fi].Includes {
			to := to
			add(func(c *Case) { dropEdge(&c.Prog, fi, to); compact(&c.Prog) })
		}
	}
	for fi := range p.Files {
		fi := fi
		for _, s := range p.Files[fi].Services {
			name := s.Name
			add(func(c *Case) { dropService(&c.Prog, fi, name) })
		}
		for _, d := range p.Files[fi].Decls {
			name := d.Name
			add(func(c *Case) { dropDecl(&c.Prog, fi, name) })
		}
	}
	for fi := range p.Files {
		fi := fi
		for si, s := range p.Files[fi].Services {
			si := si
			if s.ExtFile >= 0 {
				add(func(c *Case) { c.Prog.Files[fi].Services[si].ExtFile = -1; c.Prog.Files[fi].Services[si].ExtName = "" })
			}
			for k, fn := range s.Fns {
				k := k
				add(func(c *Case) {
					fns := c.Prog.Files[fi].Services[si].Fns
					c.Prog.Files[fi].Services[si].Fns = append(fns[:k:k], fns[k+1:]...)
				})
				for a := range fn.Args {
					a := a
					add(func(c *Case) {
						as := c.Prog.Files[fi].Services[si].Fns[k].Args
						c.Prog.Files[fi].Services[si].Fns[k].Args = append(as[:a:a], as[a+1:]...)
					})
				}
				if len(fn.Throws) > 0 {
					add(func(c *Case) { c.Prog.Files[fi].Services[si].Fns[k].Throws = nil })
				}
				if fn.Ret != nil {
					add(func(c *Case) { c.Prog.Files[fi].Services[si].Fns[k].Ret = nil })
				}
			}
		}
		for di, d := range p.Files[fi].Decls {
			di := di
			if d.Comment != "" {
				add(func(c *Case) { c.Prog.Files[fi].Decls[di].Comment = "" })
			}
			if d.ValDecl != "" {
				add(func(c *Case) { c.Prog.Files[fi].Decls[di].ValDecl = ""; c.Prog.Files[fi].Decls[di].ValFile = 0 })
			}
			for k := range d.Fields {
				k := k
				add(func(c *Case) {
					fs := c.Prog.Files[fi].Decls[di].Fields
					c.Prog.Files[fi].Decls[di].Fields = append(fs[:k:k], fs[k+1:]...)
				})
			}
		}
	}
	// canonical function names, literal patterns
	ident := regexp.MustCompile(`[A-Za-z_][A-Za-z0-9_]*`)
	canon := []string{"m0", "m1", "m2", "m3"}
	usedFn := map[string]bool{}
	var fnOrder []string
	type sf struct{ s, f string }
	var sfs []sf
	for _, fi := range p.order() {
		for _, s := range p.Files[fi].Services {
			for _, fn := range s.Fns {
				if !usedFn[fn.Name] {
					usedFn[fn.Name] = true
					fnOrder = append(fnOrder, fn.Name)
				}
				sfs = append(sfs, sf{s.Name, fn.Name})
			}
		}
	}
	for _, old := range fnOrder {
		old := old
		isCanon := old == "getUser"
		for _, c := range canon {
			if c == old {
				isCanon = true
			}
		}
		if isCanon {
			continue
		}
		for _, nw := range canon {
			if usedFn[nw] {
				continue
			}
			nw := nw
			add(func(c *Case) {
				for a := range c.Prog.Files {
					for b := range c.Prog.Files[a].Services {
						for k := range c.Prog.Files[a].Services[b].Fns {
							if c.Prog.Files[a].Services[b].Fns[k].Name == old {
								c.Prog.Files[a].Services[b].Fns[k].Name = nw
							}
						}
					}
				}
				for i, m := range c.Cfg.Methods {
					c.Cfg.Methods[i] = ident.ReplaceAllStringFunc(m, func(s string) string {
						if s == old {
							return nw
						}
						return s
					})
				}
			})
			break
		}
	}
	// the prefix-rule family: rename a function to getUser and name it by the prefix pattern <svc>.get
	for i := range cs.Cfg.Methods {
		i := i
		for _, x := range sfs {
			x := x
			if x.f == "getUser" || usedFn["getUser"] || x.f == "m0" || x.f == "m1" || x.f == "m2" || x.f == "m3" {
				continue
			}
			add(func(c *Case) {
				for a := range c.Prog.Files {
					for b := range c.Prog.Files[a].Services {
						for k := range c.Prog.Files[a].Services[b].Fns {
							if c.Prog.Files[a].Services[b].Fns[k].Name == x.f {
								c.Prog.Files[a].Services[b].Fns[k].Name = "getUser"
							}
						}
					}
				}
				c.Cfg.Methods[i] = x.s + ".get"
			})
		}
	}
	for i, m := range cs.Cfg.Methods {
		i := i
		literal := !strings.ContainsAny(m, "*^$|(\\[+?")
		if literal && strings.Contains(m, ".") {
			continue
		}
		for _, x := range sfs {
			lit := x.s + "." + x.f
			add(func(c *Case) { c.Cfg.Methods[i] = lit })
		}
	}
	// simplify types: a container becomes its element type
	nth := 0
	total := 0
	mapTypesRO(p, func(t *TyD) {
		if t.K == "list" || t.K == "set" || t.K == "map" {
			total++
		}
	})
	for ; nth < total; nth++ {
		target := nth
		add(func(c *Case) {
			seen := 0
			mapTypes(&c.Prog, func(from int, t *TyD) *TyD {
				if t.K == "list" || t.K == "set" || t.K == "map" {
					if seen == target {
						seen++
						return t.Val
					}
					seen++
				}
				return t
			})
		})
	}
	return out
}

func mapTypesRO(p *ProgD, fn func(t *TyD)) {
	q := Case{Prog: *p}
	c := q.clone()
	mapTypes(&c.Prog, func(from int, t *TyD) *TyD { fn(t); return t })
}

func shrink(cs *Case, class string) *Case {
	cur := cs.clone()
	budget := 600
	for changed := true; changed && budget > 0; {
		changed = false
		for _, cand := range candidates(cur) {
			if budget <= 0 {
				break
			}
			budget--
			next := cur.clone()
			func() {
				defer func() { recover() }()
				cand(next)
			}()
			if len(next.Prog.Files) == 0 {
				continue
			}
			ok := false
			func() {
				defer func() {
					if r := recover(); r != nil {
						ok = false
					}
				}()
				ok = hasClass(check(next), class)
			}()
			if ok {
				cur = next
				changed = true
				break
			}
		}
	}
	ren := canonical(cur)
	func() {
		defer func() { recover() }()
		if hasClass(check(ren), class) {
			cur = ren
		}
	}()
	return cur
}

// canonical renames files, declarations and services in order of appearance (equal old names stay equal)
func canonical(cs *Case) *Case {
	c := cs.clone()
	compact(&c.Prog)
	p := &c.Prog
	names := map[string]string{}
	count := map[string]int{}
	stem := map[string]string{"struct": "S", "union": "U", "exception": "X", "enum": "E", "typedef": "T", "const": "C"}
	get := func(old, st string) string {
		if n, ok := names[old]; ok {
			return n
		}
		n := fmt.Sprintf("%s%d", st, count[st])
		count[st]++
		names[old] = n
		return n
	}
	ord := p.order()
	// first pass: decide the names
	for _, fi := range ord {
		for _, d := range p.Files[fi].Decls {
			get(d.Name, stem[d.Kind])
		}
		for _, s := range p.Files[fi].Services {
			get(s.Name, "V")
		}
	}
	for k, fi := range ord {
		p.Files[fi].Path = fmt.Sprintf("f%d.thrift", k)
	}
	for fi := range p.Files {
		for di := range p.Files[fi].Decls {
			p.Files[fi].Decls[di].Name = names[p.Files[fi].Decls[di].Name]
			if v := p.Files[fi].Decls[di].ValDecl; v != "" {
				p.Files[fi].Decls[di].ValDecl = names[v]
			}
		}
		for si := range p.Files[fi].Services {
			s := &p.Files[fi].Services[si]
			s.Name = names[s.Name]
			if s.ExtFile >= 0 {
				s.ExtName = names[s.ExtName]
			}
		}
	}
	mapTypes(p, func(from int, t *TyD) *TyD {
		if t.K == "ref" {
			t.Decl = names[t.Decl]
		}
		return t
	})
	ident := regexp.MustCompile(`[A-Za-z_][A-Za-z0-9_]*`)
	for i, m := range c.Cfg.Methods {
		c.Cfg.Methods[i] = ident.ReplaceAllStringFunc(m, func(s string) string {
			if n, ok := names[s]; ok {
				return n
			}
			return s
		})
	}
	for i, s := range c.Cfg.PreservedStructs {
		if n, ok := names[s]; ok {
			c.Cfg.PreservedStructs[i] = n
		}
	}
	return c
}
