package main

// The harness' own description of a multi-file IDL program: rendering to IDL text, conversion to
// the model syntax (with the bindings the description prescribes), structural editing for shrinking.

import (
	"encoding/json"
	"fmt"
	"strings"
)

type TyD struct {
	K    string `json:"k"`              // base | list | set | map | ref
	Base string `json:"base,omitempty"` // base type name
	Key  *TyD   `json:"key,omitempty"`
	Val  *TyD   `json:"val,omitempty"`
	File int    `json:"file,omitempty"` // ref: file that declares the target
	Decl string `json:"decl,omitempty"` // ref: declared name
}

type FieldD struct {
	Name string `json:"name"`
	ID   int    `json:"id"`
	Ty   *TyD   `json:"ty"`
}

type DeclD struct {
	Kind    string   `json:"kind"` // struct | union | exception | enum | typedef | const
	Name    string   `json:"name"`
	Fields  []FieldD `json:"fields,omitempty"`
	Ty      *TyD     `json:"ty,omitempty"`      // typedef target / const type
	Comment string   `json:"comment,omitempty"` // comment line(s) in front of a struct-like
	// const only: the initialiser names an enum value (<enum>.V0) or another constant
	ValFile int    `json:"val_file,omitempty"`
	ValDecl string `json:"val_decl,omitempty"`
}

type FnD struct {
	Name   string   `json:"name"`
	Args   []FieldD `json:"args,omitempty"`
	Throws []FieldD `json:"throws,omitempty"`
	Ret    *TyD     `json:"ret,omitempty"`
}

type SvcD struct {
	Name    string `json:"name"`
	ExtFile int    `json:"ext_file"` // -1: no base
	ExtName string `json:"ext_name,omitempty"`
	Fns     []FnD  `json:"fns,omitempty"`
}

type FileD struct {
	Path     string  `json:"path"`
	Includes []int   `json:"includes,omitempty"`
	Decls    []DeclD `json:"decls,omitempty"`
	Services []SvcD  `json:"services,omitempty"`
}

type ProgD struct {
	Files []FileD `json:"files"`
}

type CfgD struct {
	Methods          []string `json:"methods,omitempty"`
	Preserve         *bool    `json:"preserve,omitempty"`
	DisableComment   *bool    `json:"disable_comment,omitempty"`
	PreservedStructs []string `json:"preserved_structs,omitempty"`
}

type Case struct {
	Prog ProgD `json:"prog"`
	Cfg  CfgD  `json:"cfg"`
}

func (c *Case) clone() *Case {
	b, _ := json.Marshal(c)
	var d Case
	if err := json.Unmarshal(b, &d); err != nil {
		panic(err)
	}
	return &d
}

func prefixOf(path string) string {
	b := path
	if i := strings.LastIndex(b, "/"); i >= 0 {
		b = b[i+1:]
	}
	return strings.TrimSuffix(b, ".thrift")
}

func (p *ProgD) decl(file int, name string) *DeclD {
	for i := range p.Files[file].Decls {
		if p.Files[file].Decls[i].Name == name {
			return &p.Files[file].Decls[i]
		}
	}
	return nil
}

// ---------------------------------------------------------------- IDL text

func (p *ProgD) tyText(from int, t *TyD) string {
	switch t.K {
	case "base":
		return t.Base
	case "list":
		return "list<" + p.tyText(from, t.Val) + ">"
	case "set":
		return "set<" + p.tyText(from, t.Val) + ">"
	case "map":
		return "map<" + p.tyText(from, t.Key) + "," + p.tyText(from, t.Val) + ">"
	}
	if t.File == from {
		return t.Decl
	}
	return prefixOf(p.Files[t.File].Path) + "." + t.Decl
}

// a constant initialiser of the given type
func (p *ProgD) constText(from int, t *TyD) string {
	switch t.K {
	case "base":
		switch t.Base {
		case "bool":
			return "true"
		case "string", "binary":
			return `"x"`
		case "double":
			return "1.5"
		}
		return "1"
	case "list", "set":
		return "[]"
	case "map":
		return "{}"
	}
	d := p.decl(t.File, t.Decl)
	switch d.Kind {
	case "enum":
		q := d.Name + ".V0"
		if t.File != from {
			if p.incIndex(from, t.File) < 0 {
				return "0" // reached through a typedef of a file that `from` does not include
			}
			q = prefixOf(p.Files[t.File].Path) + "." + q
		}
		return q
	case "typedef":
		return p.constText(from, d.Ty)
	}
	return "{}"
}

func (p *ProgD) fieldsText(from int, fs []FieldD, sep string) string {
	var out []string
	for _, f := range fs {
		out = append(out, fmt.Sprintf("%d: %s %s", f.ID, p.tyText(from, f.Ty), f.Name))
	}
	return strings.Join(out, sep)
}

func (p *ProgD) FileText(fi int) string {
	f := p.Files[fi]
	var sb strings.Builder
	fmt.Fprintf(&sb, "namespace go g%d\n", fi)
	for _, inc := range f.Includes {
		fmt.Fprintf(&sb, "include \"%s\"\n", p.Files[inc].Path)
	}
	for _, d := range f.Decls {
		switch d.Kind {
		case "enum":
			fmt.Fprintf(&sb, "enum %s { V0 = 0, V1 = 1 }\n", d.Name)
		case "typedef":
			fmt.Fprintf(&sb, "typedef %s %s\n", p.tyText(fi, d.Ty), d.Name)
		case "const":
			val := p.constText(fi, d.Ty)
			if d.ValDecl != "" {
				val = d.ValDecl
				if t := p.decl(d.ValFile, d.ValDecl); t != nil && t.Kind == "enum" {
					val += ".V0"
				}
				if d.ValFile != fi {
					val = prefixOf(p.Files[d.ValFile].Path) + "." + val
				}
			}
			fmt.Fprintf(&sb, "const %s %s = %s\n", p.tyText(fi, d.Ty), d.Name, val)
		default:
			if d.Comment != "" {
				sb.WriteString(d.Comment + "\n")
			}
			var fs []string
			for _, fd := range d.Fields {
				opt := "optional "
				if d.Kind == "union" {
					opt = ""
				}
				fs = append(fs, fmt.Sprintf("  %d: %s%s %s\n", fd.ID, opt, p.tyText(fi, fd.Ty), fd.Name))
			}
			fmt.Fprintf(&sb, "%s %s {\n%s}\n", d.Kind, d.Name, strings.Join(fs, ""))
		}
	}
	for _, s := range f.Services {
		ext := ""
		if s.ExtFile >= 0 {
			if s.ExtFile == fi {
				ext = " extends " + s.ExtName
			} else {
				ext = " extends " + prefixOf(p.Files[s.ExtFile].Path) + "." + s.ExtName
			}
		}
		fmt.Fprintf(&sb, "service %s%s {\n", s.Name, ext)
		for _, fn := range s.Fns {
			ret := "void"
			if fn.Ret != nil {
				ret = p.tyText(fi, fn.Ret)
			}
			th := ""
			if len(fn.Throws) > 0 {
				th = " throws (" + p.fieldsText(fi, fn.Throws, ", ") + ")"
			}
			fmt.Fprintf(&sb, "  %s %s(%s)%s\n", ret, fn.Name, p.fieldsText(fi, fn.Args, ", "), th)
		}
		sb.WriteString("}\n")
	}
	return sb.String()
}

func (p *ProgD) Texts() map[string]string {
	m := map[string]string{}
	for _, fi := range p.order() {
		m[p.Files[fi].Path] = p.FileText(fi)
	}
	return m
}

// files in first-visit preorder from file 0 (the order in which the parser meets them)
func (p *ProgD) order() []int {
	var seen []int
	var walk func(f int)
	walk = func(f int) {
		for _, s := range seen {
			if s == f {
				return
			}
		}
		seen = append(seen, f)
		for _, inc := range p.Files[f].Includes {
			walk(inc)
		}
	}
	walk(0)
	return seen
}

// ---------------------------------------------------------------- description -> model syntax

var baseCat = map[string]int{"bool": 1, "byte": 2, "i8": 2, "i16": 3, "i32": 4, "i64": 5, "double": 6, "string": 7, "binary": 8}
var kindCat = map[string]int{"enum": 12, "struct": 13, "union": 14, "exception": 15}

// finalCat follows typedefs to the category ResolveTypedefs leaves in Type.Category
func (p *ProgD) finalCat(t *TyD, depth int) int {
	switch t.K {
	case "base":
		return baseCat[t.Base]
	case "map":
		return 9
	case "list":
		return 10
	case "set":
		return 11
	}
	d := p.decl(t.File, t.Decl)
	if d.Kind == "typedef" {
		if depth > 50 {
			return 16
		}
		return p.finalCat(d.Ty, depth+1)
	}
	return kindCat[d.Kind]
}

func (p *ProgD) incIndex(from, to int) int {
	// ResolveType takes the first include whose prefix matches and that defines the name;
	// generated paths have distinct prefixes, so it is the first include of that file.
	for i, inc := range p.Files[from].Includes {
		if inc == to {
			return i
		}
	}
	return -1
}

func (p *ProgD) tyModel(from int, t *TyD) *MTy {
	switch t.K {
	case "base":
		return &MTy{Name: t.Base, Cat: baseCat[t.Base]}
	case "list":
		return &MTy{Name: "list", Cat: 10, Val: p.tyModel(from, t.Val)}
	case "set":
		return &MTy{Name: "set", Cat: 11, Val: p.tyModel(from, t.Val)}
	case "map":
		return &MTy{Name: "map", Cat: 9, Key: p.tyModel(from, t.Key), Val: p.tyModel(from, t.Val)}
	}
	d := p.decl(t.File, t.Decl)
	m := &MTy{Name: p.tyText(from, t), Cat: p.finalCat(t, 0), IsTd: d.Kind == "typedef"}
	if t.File != from {
		m.Ref = &MRef{t.Decl, p.incIndex(from, t.File)}
	}
	return m
}

func (p *ProgD) fieldsModel(from int, fs []FieldD) []MField {
	var out []MField
	for _, f := range fs {
		out = append(out, MField{f.Name, f.ID, p.tyModel(from, f.Ty)})
	}
	return out
}

func (p *ProgD) Model() *MProg {
	ord := p.order()
	pos := map[int]int{}
	for i, f := range ord {
		pos[f] = i
	}
	m := &MProg{}
	for _, fi := range ord {
		f := p.Files[fi]
		mf := MFile{Name: f.Path}
		for _, inc := range f.Includes {
			mf.Includes = append(mf.Includes, MInc{p.Files[inc].Path, pos[inc]})
		}
		for _, d := range f.Decls {
			switch d.Kind {
			case "enum":
				mf.Enums = append(mf.Enums, d.Name)
			case "typedef":
				mf.Typedefs = append(mf.Typedefs, MNamedTy{d.Name, p.tyModel(fi, d.Ty)})
			case "const":
				mf.Consts = append(mf.Consts, MNamedTy{d.Name, p.tyModel(fi, d.Ty)})
			default:
				sl := MSL{Name: d.Name, PC: expectPreserveComment(d.Comment), Fields: p.fieldsModel(fi, d.Fields)}
				switch d.Kind {
				case "struct":
					mf.Structs = append(mf.Structs, sl)
				case "union":
					mf.Unions = append(mf.Unions, sl)
				default:
					mf.Exceptions = append(mf.Exceptions, sl)
				}
			}
		}
		for _, s := range f.Services {
			ms := MSvc{Name: s.Name}
			if s.ExtFile >= 0 {
				if s.ExtFile == fi {
					ms.Ext = s.ExtName
				} else {
					ms.Ext = prefixOf(p.Files[s.ExtFile].Path) + "." + s.ExtName
					ms.Ref = &MRef{s.ExtName, p.incIndex(fi, s.ExtFile)}
				}
			}
			for _, fn := range s.Fns {
				mfn := MFn{Name: fn.Name, Args: p.fieldsModel(fi, fn.Args), Throws: p.fieldsModel(fi, fn.Throws)}
				if fn.Ret != nil {
					mfn.Ret = p.tyModel(fi, fn.Ret)
				}
				ms.Fns = append(ms.Fns, mfn)
			}
			mf.Services = append(mf.Services, ms)
		}
		m.Files = append(m.Files, mf)
	}
	return m
}

// what the documentation of @preserve promises for a comment block: some line is exactly
// `// @preserve` or `# @preserve` (any case, surrounding blanks allowed).  Written independently of
// the regular expression in trimmer.go.
func expectPreserveComment(c string) bool {
	for _, line := range strings.Split(c, "\n") {
		l := strings.ToLower(strings.TrimSpace(line))
		var rest string
		switch {
		case strings.HasPrefix(l, "//"):
			rest = l[2:]
		case strings.HasPrefix(l, "#"):
			rest = l[1:]
		default:
			continue
		}
		if strings.TrimSpace(rest) == "@preserve" {
			return true
		}
	}
	return false
}
