package main

// Fixed cases that run before the generated ones: the minimised witnesses of the defects found so
// far (regression items) and the shapes of the seeded changes.  Also the behavioural probe that tells
// which variant of the -m code paths the implementation has.

func svc(name string, extFile int, extName string, fns ...string) SvcD {
	s := SvcD{Name: name, ExtFile: extFile, ExtName: extName}
	for _, f := range fns {
		s.Fns = append(s.Fns, FnD{Name: f})
	}
	return s
}

func file(path string, includes []int, svcs ...SvcD) FileD {
	return FileD{Path: path, Includes: includes, Services: svcs}
}

func strct(name string, fields ...FieldD) DeclD {
	return DeclD{Kind: "struct", Name: name, Fields: fields}
}

func ref(file int, decl string) *TyD { return &TyD{K: "ref", File: file, Decl: decl} }

type corpusCase struct {
	name string
	c    Case
}

func corpus() []corpusCase {
	m := func(ms ...string) CfgD { return CfgD{Methods: ms} }
	var out []corpusCase
	add := func(name string, cfg CfgD, files ...FileD) {
		out = append(out, corpusCase{name, Case{Prog: ProgD{Files: files}, Cfg: cfg}})
	}
	// defect 1 (fixed by 9f1b8cf): same-file base of a kept service of an included file
	add("d1-base-before", CfgD{}, file("f0.thrift", []int{1}, svc("V0", 1, "V2")),
		file("f1.thrift", nil, svc("V1", -1, ""), svc("V2", 1, "V1")))
	add("d1-base-after", CfgD{}, file("f0.thrift", []int{1}, svc("V0", 1, "V1")),
		file("f1.thrift", nil, svc("V1", 1, "V2"), svc("V2", -1, "")))
	add("d1-three-files", CfgD{}, file("f0.thrift", []int{1}, svc("V0", 1, "V1")),
		file("f1.thrift", []int{2}, svc("V1", 2, "V3")),
		file("f2.thrift", nil, svc("V2", -1, ""), svc("V3", 2, "V2")))
	add("d1-chain-of-three", CfgD{}, file("f0.thrift", []int{1}, svc("V0", 1, "V3")),
		file("f1.thrift", nil, svc("V1", -1, "", "m0"), svc("V2", 1, "V1", "m1"), svc("V3", 1, "V2")))
	// defect 2: prefix rule in traceExtendMethod
	add("d2-prefix", m("V1.get"), file("f0.thrift", nil, svc("V0", -1, ""), svc("V1", 0, "V0", "getUser")))
	add("d2-prefix-unqualified", m("get"), file("f0.thrift", nil, svc("V0", -1, ""), svc("V1", 0, "V0", "getUser")))
	// defect 3: extServices cuts a chain a later root service needs
	add("d3-chain-cut", m("^V1\\.m0$"), file("f0.thrift", []int{1}, svc("V0", 1, "V2"), svc("V1", 0, "V0")),
		file("f1.thrift", nil, svc("V2", -1, "", "m0")))
	add("d3-chain-cut-two-roots", m("^V1\\.m0$"), file("f0.thrift", []int{1}, svc("V0", 1, "V3"), svc("V1", 1, "V3")),
		file("f1.thrift", nil, svc("V2", -1, "", "m0"), svc("V3", 1, "V2")))
	add("d3-unqualified", m("m0"), file("f0.thrift", nil, svc("V0", -1, "", "m0"), svc("V1", 0, "V0"), svc("V2", 0, "V1")))
	// defect 4: include of a cut base
	add("d4-include-of-cut-base", m("V0.m0"), file("f0.thrift", []int{1}, svc("V0", 1, "V1", "m0")),
		file("f1.thrift", nil, svc("V1", -1, "")))
	// seeded m1: a method inherited from the middle of a three-level chain over three files
	a := file("f0.thrift", []int{1}, svc("A", 1, "B", "aMethod"))
	b := file("f1.thrift", []int{2}, svc("B", 2, "C", "bMethod", "bOther"))
	c := file("f2.thrift", nil, svc("C", -1, "", "cMethod"))
	c.Decls = []DeclD{{Kind: "const", Name: "C0", Ty: &TyD{K: "base", Base: "string"}}}
	add("chain3-middle-method", m("A.bMethod"), a, b, c)
	add("chain3-top-method", m("A.cMethod"), a, b, c)
	add("chain3-own-method", m("A.aMethod"), a, b, c)
	// seeded m2: an exception of an included file whose fields name a third file
	x0 := file("f0.thrift", []int{1}, SvcD{Name: "V0", ExtFile: -1, Fns: []FnD{{Name: "m0", Throws: []FieldD{{Name: "e0", ID: 1, Ty: ref(1, "X0")}}}}})
	x1 := FileD{Path: "f1.thrift", Includes: []int{2, 3}, Decls: []DeclD{{Kind: "exception", Name: "X0",
		Fields: []FieldD{{Name: "f0", ID: 1, Ty: ref(3, "S0")}, {Name: "f1", ID: 2, Ty: ref(1, "S1")}}}, strct("S1")}}
	x2 := FileD{Path: "f2.thrift", Decls: []DeclD{strct("S9")}}
	x3 := FileD{Path: "f3.thrift", Decls: []DeclD{strct("S0")}}
	add("exception-fields-third-file", CfgD{}, x0, x1, x2, x3)
	// seeded m3: kept parts only at the end of a two-deep include chain
	k0 := file("f0.thrift", []int{1}, svc("V0", -1, "", "m0"))
	k1 := FileD{Path: "f1.thrift", Includes: []int{2}}
	k2 := FileD{Path: "f2.thrift", Includes: []int{3}}
	k3 := FileD{Path: "f3.thrift", Decls: []DeclD{{Kind: "const", Name: "C0", Ty: &TyD{K: "base", Base: "i32"}}}}
	add("kept-part-three-deep", CfgD{}, k0, k1, k2, k3)
	p3 := FileD{Path: "f3.thrift", Decls: []DeclD{{Kind: "struct", Name: "S0", Comment: "// @preserve"}}}
	add("preserved-three-deep", CfgD{}, k0, k1, k2, p3)
	// seeded m6: every definition is used, nothing can be trimmed; the AST must come back resolved
	u0 := FileD{Path: "f0.thrift", Includes: []int{1},
		Decls: []DeclD{strct("S0", FieldD{Name: "f0", ID: 1, Ty: &TyD{K: "base", Base: "i64"}}),
			strct("S1", FieldD{Name: "f0", ID: 1, Ty: ref(1, "S2")}, FieldD{Name: "f1", ID: 2, Ty: &TyD{K: "list", Val: ref(1, "S2")}})},
		Services: []SvcD{{Name: "V0", ExtFile: -1, Fns: []FnD{{Name: "get", Args: []FieldD{{Name: "a0", ID: 1, Ty: ref(0, "S0")}}, Ret: ref(0, "S1")}}}}}
	u1 := FileD{Path: "f1.thrift", Decls: []DeclD{strct("S2", FieldD{Name: "f0", ID: 1, Ty: &TyD{K: "base", Base: "i64"}})}}
	add("fully-used-two-files", CfgD{}, u0, u1)
	return out
}

// probe runs three witnesses on the implementation and reports which of the proposed repairs it has.
func probe() string {
	cs := corpus()
	get := func(name string) *Case {
		for i := range cs {
			if cs[i].name == name {
				return cs[i].c.clone()
			}
		}
		panic(name)
	}
	trimmed := func(c *Case) *MProg {
		ast, err := parseAndResolve(c.Prog.Files[0].Path, c.Prog.Texts())
		if err != nil {
			panic(err)
		}
		runTrim(trimArg(ast, &c.Cfg))
		return progFromAST(ast)
	}
	flags := []byte("000")
	// prefix rule: V1.getUser must not survive -m V1.get
	kept := false
	for _, s := range trimmed(get("d2-prefix")).Files[0].Services {
		if len(s.Fns) > 0 {
			kept = true
		}
	}
	if !kept {
		flags[0] = '1'
	}
	// retract: V0 keeps its extends
	for _, s := range trimmed(get("d3-chain-cut")).Files[0].Services {
		if s.Name == "V0" && s.Ext != "" {
			flags[1] = '1'
		}
	}
	// incl: the include of the cut base is gone after one trim
	if len(trimmed(get("d4-include-of-cut-base")).Files[0].Includes) == 0 {
		flags[2] = '1'
	}
	return string(flags)
}
