package main

// The Go mirror of the Lean program syntax (Lib/Trim.lean), its VL encoding, and the canonical
// rendering shared (textually) with Driver/C16.lean.

import (
	"fmt"
	"regexp"
	"strings"

	"github.com/cloudwego/thriftgo/parser"

	"verifharness/internal/vl"
)

type MRef struct {
	Name string
	Idx  int
}

type MTy struct {
	Name string
	Cat  int
	IsTd bool
	Ref  *MRef
	Key  *MTy
	Val  *MTy
}

type MField struct {
	Name string
	ID   int
	Ty   *MTy
}

type MSL struct {
	Name   string
	PC     bool
	Fields []MField
}

type MFn struct {
	Name   string
	Args   []MField
	Throws []MField
	Ret    *MTy
}

type MSvc struct {
	Name string
	Ext  string
	Ref  *MRef
	Fns  []MFn
}

type MInc struct {
	Path   string
	Target int
}

type MNamedTy struct {
	Name string
	Ty   *MTy
}

type MFile struct {
	Name       string
	Includes   []MInc
	Typedefs   []MNamedTy
	Consts     []MNamedTy
	Enums      []string
	Structs    []MSL
	Unions     []MSL
	Exceptions []MSL
	Services   []MSvc
}

type MProg struct{ Files []MFile }

// ---------------------------------------------------------------- VL

type enc struct{ sb strings.Builder }

func (e *enc) tok(s string) { e.sb.WriteByte(' '); e.sb.WriteString(s) }
func (e *enc) str(s string) { e.tok(vl.Hex(s)) }
func (e *enc) n(i int)      { e.tok(fmt.Sprint(i)) }
func (e *enc) b(b bool)     { e.tok(vl.B(b)) }
func (e *enc) ref(r *MRef) {
	if r == nil {
		e.tok("0")
		return
	}
	e.tok("1")
	e.str(r.Name)
	e.n(r.Idx)
}
func (e *enc) ty(t *MTy) {
	switch {
	case t.Key != nil && t.Val != nil:
		e.tok("B")
	case t.Val != nil:
		e.tok("U")
	default:
		e.tok("N")
	}
	e.str(t.Name)
	e.n(t.Cat)
	e.b(t.IsTd)
	e.ref(t.Ref)
	if t.Key != nil && t.Val != nil {
		e.ty(t.Key)
	}
	if t.Val != nil {
		e.ty(t.Val)
	}
}
func (e *enc) fields(fs []MField) {
	e.n(len(fs))
	for _, f := range fs {
		e.str(f.Name)
		e.n(f.ID)
		e.ty(f.Ty)
	}
}
func (e *enc) sls(ss []MSL) {
	e.n(len(ss))
	for _, s := range ss {
		e.str(s.Name)
		e.b(s.PC)
		e.fields(s.Fields)
	}
}
func (e *enc) named(ns []MNamedTy) {
	e.n(len(ns))
	for _, x := range ns {
		e.str(x.Name)
		e.ty(x.Ty)
	}
}

func (p *MProg) VL() string {
	e := &enc{}
	e.n(len(p.Files))
	for _, f := range p.Files {
		e.str(f.Name)
		e.n(len(f.Includes))
		for _, i := range f.Includes {
			e.str(i.Path)
			e.n(i.Target)
		}
		e.named(f.Typedefs)
		e.named(f.Consts)
		e.n(len(f.Enums))
		for _, x := range f.Enums {
			e.str(x)
		}
		e.sls(f.Structs)
		e.sls(f.Unions)
		e.sls(f.Exceptions)
		e.n(len(f.Services))
		for _, s := range f.Services {
			e.str(s.Name)
			e.str(s.Ext)
			e.ref(s.Ref)
			e.n(len(s.Fns))
			for _, fn := range s.Fns {
				e.str(fn.Name)
				e.fields(fn.Args)
				e.fields(fn.Throws)
				e.b(fn.Ret != nil)
				if fn.Ret != nil {
					e.ty(fn.Ret)
				}
			}
		}
	}
	return e.sb.String()
}

// ---------------------------------------------------------------- rendering (same text as Driver.C16.render)

func rRef(w bool, r *MRef) string {
	if r == nil {
		return ""
	}
	if w {
		return fmt.Sprintf("@%s:%d", r.Name, r.Idx)
	}
	return "@" + r.Name
}

func rTy(w bool, t *MTy) string {
	s := t.Name
	if w {
		// after a failed re-resolution the categories of the aborted file are unspecified
		s = fmt.Sprintf("%s#%d", t.Name, t.Cat)
	}
	if t.IsTd {
		s += "t"
	}
	s += rRef(w, t.Ref)
	switch {
	case t.Key != nil && t.Val != nil:
		return s + "<" + rTy(w, t.Key) + "," + rTy(w, t.Val) + ">"
	case t.Val != nil:
		return s + "<" + rTy(w, t.Val) + ">"
	}
	return s
}

func rFields(w bool, fs []MField) string {
	var out []string
	for _, f := range fs {
		out = append(out, fmt.Sprintf("%s:%d:%s", f.Name, f.ID, rTy(w, f.Ty)))
	}
	return strings.Join(out, ";")
}

func rList(xs []string) string { return "[" + strings.Join(xs, ",") + "]" }

func rSLs(w bool, ss []MSL) string {
	var out []string
	for _, s := range ss {
		out = append(out, s.Name+"{"+rFields(w, s.Fields)+"}")
	}
	return rList(out)
}

func rNamed(w bool, ns []MNamedTy) string {
	var out []string
	for _, x := range ns {
		out = append(out, x.Name+"="+rTy(w, x.Ty))
	}
	return rList(out)
}

func (p *MProg) order() []int {
	var seen []int
	var walk func(f int)
	walk = func(f int) {
		for _, s := range seen {
			if s == f {
				return
			}
		}
		seen = append(seen, f)
		if f < len(p.Files) {
			for _, inc := range p.Files[f].Includes {
				walk(inc.Target)
			}
		}
	}
	walk(0)
	return seen
}

func (p *MProg) Render(w bool, methods []string) string {
	parts := []string{"Q" + rList(methods)}
	for _, fi := range p.order() {
		f := p.Files[fi]
		var incs, svcs []string
		for _, i := range f.Includes {
			incs = append(incs, i.Path+"="+p.Files[i.Target].Name)
		}
		for _, s := range f.Services {
			var fns []string
			for _, fn := range s.Fns {
				ret := "void"
				if fn.Ret != nil {
					ret = rTy(w, fn.Ret)
				}
				fns = append(fns, fn.Name+"("+rFields(w, fn.Args)+")("+rFields(w, fn.Throws)+")"+ret)
			}
			svcs = append(svcs, s.Name+"^"+s.Ext+rRef(w, s.Ref)+"{"+strings.Join(fns, " ")+"}")
		}
		parts = append(parts, "F "+f.Name+" I"+rList(incs)+" T"+rNamed(w, f.Typedefs)+" C"+rNamed(w, f.Consts)+
			" E"+rList(f.Enums)+" S"+rSLs(w, f.Structs)+" U"+rSLs(w, f.Unions)+" X"+rSLs(w, f.Exceptions)+" V"+rList(svcs))
	}
	return strings.Join(parts, " | ")
}

// ---------------------------------------------------------------- from the real AST

// the harness' own copy of the @preserve rule (trimmer.go newTrimmer), applied to ToLower(ReservedComments)
var preserveRx = regexp.MustCompile(`(?m)^[\s]*(\/\/|#)[\s]*@preserve[\s]*$`)

func tyFromAST(t *parser.Type) *MTy {
	if t == nil {
		return nil
	}
	m := &MTy{Name: t.Name, Cat: int(t.Category), IsTd: t.IsTypedef != nil}
	if t.Reference != nil {
		m.Ref = &MRef{t.Reference.Name, int(t.Reference.Index)}
	}
	m.Key = tyFromAST(t.KeyType)
	m.Val = tyFromAST(t.ValueType)
	return m
}

func fieldsFromAST(fs []*parser.Field) []MField {
	var out []MField
	for _, f := range fs {
		out = append(out, MField{f.Name, int(f.ID), tyFromAST(f.Type)})
	}
	return out
}

func slsFromAST(ss []*parser.StructLike) []MSL {
	var out []MSL
	for _, s := range ss {
		out = append(out, MSL{s.Name, preserveRx.MatchString(strings.ToLower(s.ReservedComments)), fieldsFromAST(s.Fields)})
	}
	return out
}

// progFromAST lists the files in first-visit preorder from the root (file 0 = root), shared ASTs once.
func progFromAST(root *parser.Thrift) *MProg {
	idx := map[*parser.Thrift]int{}
	var order []*parser.Thrift
	var walk func(t *parser.Thrift)
	walk = func(t *parser.Thrift) {
		if _, ok := idx[t]; ok {
			return
		}
		idx[t] = len(order)
		order = append(order, t)
		for _, inc := range t.Includes {
			if inc.Reference != nil {
				walk(inc.Reference)
			}
		}
	}
	walk(root)
	p := &MProg{}
	for _, t := range order {
		f := MFile{Name: t.Filename}
		for _, inc := range t.Includes {
			f.Includes = append(f.Includes, MInc{inc.Path, idx[inc.Reference]})
		}
		for _, td := range t.Typedefs {
			f.Typedefs = append(f.Typedefs, MNamedTy{td.Alias, tyFromAST(td.Type)})
		}
		for _, c := range t.Constants {
			f.Consts = append(f.Consts, MNamedTy{c.Name, tyFromAST(c.Type)})
		}
		for _, e := range t.Enums {
			f.Enums = append(f.Enums, e.Name)
		}
		f.Structs = slsFromAST(t.Structs)
		f.Unions = slsFromAST(t.Unions)
		f.Exceptions = slsFromAST(t.Exceptions)
		for _, s := range t.Services {
			ms := MSvc{Name: s.Name, Ext: s.Extends}
			if s.Reference != nil {
				ms.Ref = &MRef{s.Reference.Name, int(s.Reference.Index)}
			}
			for _, fn := range s.Functions {
				mf := MFn{Name: fn.Name, Args: fieldsFromAST(fn.Arguments), Throws: fieldsFromAST(fn.Throws)}
				if !fn.Void {
					mf.Ret = tyFromAST(fn.FunctionType)
				}
				ms.Fns = append(ms.Fns, mf)
			}
			f.Services = append(f.Services, ms)
		}
		p.Files = append(p.Files, f)
	}
	return p
}
