// c11plugin: the recording plugin of property C11.  thriftgo starts it as an external plugin; it
//  1. reads the request from stdin and decodes it with the repository's own plugin.UnmarshalRequest,
//  2. appends one JSON line to the file named by C11_RECORD: its pid, the plugin parameters it got, and a
//     canonical dump (VL text, schema from C11_REPO) of everything it decoded,
//  3. behaves as the JSON script in C11_SCRIPT (a map from the plugin parameter id=<k>, or from "#<n>" for the
//     n-th execution of a run when the plugin got no id, to a script) says: answers with scripted files / insertion-point
//     patches / warnings / an error, writes to stderr, or misbehaves (exit code, partial stdout,
//     arbitrary bytes, sleeping).
package main

import (
	"encoding/base64"
	"encoding/json"
	"fmt"
	"io"
	"os"
	"os/signal"
	"path/filepath"
	"strings"
	"time"

	"github.com/cloudwego/thriftgo/plugin"

	"verifharness/c11lib"
)

type File struct {
	Name    *string `json:"name"`  // relative to the request's OutputPath; nil = patch of the previous file
	Point   *string `json:"point"` // insertion point
	Content string  `json:"content"`
}

type Script struct {
	Files    []File   `json:"files"`
	Warnings []string `json:"warnings"`
	Error    *string  `json:"error"`
	Stderr   string   `json:"stderr"`
	Exit     int      `json:"exit"`
	Mode     string   `json:"mode"`    // "" | partial | raw | sleep
	Raw      string   `json:"raw"`     // base64 of the bytes written to stdout in mode raw
	SleepMs  int      `json:"sleepMs"` // mode sleep: sleep before answering
	Keep     int      `json:"keep"`    // mode partial: number of response bytes written
	Sigint   string   `json:"sigint"`  // informational: the mode is passed through C11_SIGINT
}

type Record struct {
	Pid     int      `json:"pid"`
	Params  []string `json:"params"`
	VL      string   `json:"vl"`
	Err     string   `json:"err"`
	ReqLen  int      `json:"reqLen"`
	Trailer bool     `json:"trailer"`
}

func main() {
	// what the plugin does with SIGINT is settled before anything else (C11_SIGINT: "" | ignore | handle):
	// a time limit of a few hundred ms may fire while the request is still being decoded
	switch os.Getenv("C11_SIGINT") {
	case "ignore":
		signal.Ignore(os.Interrupt)
	case "handle":
		ch := make(chan os.Signal, 4)
		signal.Notify(ch, os.Interrupt)
		go func() {
			for range ch { // "cleaning up", never leaving
			}
		}()
	}
	data, rerr := io.ReadAll(os.Stdin)
	// C11_SCRIPT maps the value of the plugin parameter `id=<k>` to the script of that invocation
	scripts := map[string]Script{}
	if s := os.Getenv("C11_SCRIPT"); s != "" {
		if err := json.Unmarshal([]byte(s), &scripts); err != nil {
			fmt.Fprintln(os.Stderr, "c11plugin: bad script:", err)
			os.Exit(90)
		}
	}
	rec := Record{Pid: os.Getpid(), ReqLen: len(data), Trailer: plugin.VerifHasDataTrailerFeature(data, plugin.VerifFeatureCompressInclude)}
	var req *plugin.Request
	if rerr != nil {
		rec.Err = "read: " + rerr.Error()
	} else if r, err := plugin.UnmarshalRequest(data); err != nil {
		rec.Err = "unmarshal: " + err.Error()
	} else {
		req = r
		rec.Params = r.PluginParameters
		if schema, err := c11lib.Extract(os.Getenv("C11_REPO")); err != nil {
			rec.Err = "schema: " + err.Error()
		} else if v, err := schema.ToValue(schema.Request, r); err != nil {
			rec.Err = "dump: " + err.Error()
		} else {
			ty := &c11lib.Ty{K: 'S', S: schema.Request}
			rec.VL = schema.Normalize(ty, v, false).String()
		}
	}
	var sc Script
	picked := false
	for _, p := range rec.Params {
		if strings.HasPrefix(p, "id=") {
			sc, picked = scripts[strings.TrimPrefix(p, "id=")]
		}
	}
	if !picked {
		// a plugin started without any option: the script of the n-th execution ("#n", n = records so far)
		n := 0
		if b, err := os.ReadFile(os.Getenv("C11_RECORD")); err == nil {
			n = strings.Count(string(b), "\n")
		}
		sc, picked = scripts[fmt.Sprintf("#%d", n)]
	}
	if !picked && len(scripts) == 1 {
		for _, s := range scripts {
			sc = s
		}
	}
	if p := os.Getenv("C11_RECORD"); p != "" {
		f, err := os.OpenFile(p, os.O_APPEND|os.O_CREATE|os.O_WRONLY, 0o644)
		if err == nil {
			b, _ := json.Marshal(rec)
			f.Write(append(b, '\n'))
			f.Close()
		}
	}
	if sc.Stderr != "" {
		os.Stderr.WriteString(sc.Stderr)
	}
	if sc.Mode == "sleep" {
		time.Sleep(time.Duration(sc.SleepMs) * time.Millisecond)
	}
	if sc.Mode == "raw" {
		b, _ := base64.StdEncoding.DecodeString(sc.Raw)
		os.Stdout.Write(b)
		os.Exit(sc.Exit)
	}
	res := &plugin.Response{Warnings: sc.Warnings, Error: sc.Error}
	outDir := ""
	if req != nil {
		outDir = req.OutputPath
	}
	for _, f := range sc.Files {
		g := &plugin.Generated{Content: f.Content, InsertionPoint: f.Point}
		if f.Name != nil {
			n := filepath.Join(outDir, *f.Name)
			g.Name = &n
		}
		res.Contents = append(res.Contents, g)
	}
	out, err := plugin.MarshalResponse(res)
	if err != nil {
		fmt.Fprintln(os.Stderr, "c11plugin: marshal:", err)
		os.Exit(91)
	}
	if sc.Mode == "partial" {
		if sc.Keep < len(out) {
			out = out[:sc.Keep]
		}
	}
	os.Stdout.Write(out)
	os.Exit(sc.Exit)
}
