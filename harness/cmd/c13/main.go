// c13: harness for property C13 (field-mask filtered serialization emits exactly the selected data).
//
//	c13 extract -repo R                      print Generated/C13.lean (shape of the field-mask templates)
//	c13 run     -repo R -dir D -seed N -tier T
//
// idlgen programs (+ one directed program) x {with_reflection,with_field_mask} x {default, field_mask_halfway,
// field_mask_zero_required} -> batch.Build (thriftgo from the repo under test, one go build, the generic reflection driver plus
// drvops.go.txt) -> values (valgen, lists grown to >= 4 elements) x masks (abstract path-set trees guided by the value; rendered
// as thrift paths; built by the REAL fieldmask.NewFieldMask from the generated GetTypeDescriptor()) -> ops MW / MR -> oracle
// (strict reference decoder refcodec.Decode on the bytes, equality with `restrict` computed from the path set) -> ops.txt /
// impl.txt / stats.json for the correspondence with the Lean model (tv_c13: C14 mask model + Gen.Mask).
package main

import (
	"bufio"
	_ "embed"
	"encoding/hex"
	"flag"
	"fmt"
	"os"
	"os/exec"
	"path/filepath"
	"regexp"
	"sort"
	"strconv"
	"strings"
	"time"

	"github.com/cloudwego/thriftgo/generator/golang"
	"github.com/cloudwego/thriftgo/generator/golang/templates"
	"github.com/cloudwego/thriftgo/parser"

	"verifharness/internal/batch"
	"verifharness/internal/idlgen"
	"verifharness/internal/refcodec"
	"verifharness/internal/values"
	"verifharness/internal/values/valgen"
	"verifharness/internal/vl"
)

//go:embed drvops.go.txt
var drvOps string

var baseOpts = []string{"with_reflection", "with_field_mask"}
var optionSets = [][]string{
	baseOpts,
	append(append([]string{}, baseOpts...), "field_mask_halfway"),
	append(append([]string{}, baseOpts...), "field_mask_zero_required"),
}

func has(opts []string, o string) bool {
	for _, x := range opts {
		if x == o {
			return true
		}
	}
	return false
}

func main() {
	if len(os.Args) < 2 {
		fmt.Fprintln(os.Stderr, "usage: c13 extract|run [flags]")
		os.Exit(2)
	}
	fs := flag.NewFlagSet(os.Args[1], flag.ExitOnError)
	repo := fs.String("repo", "/repo", "repository under test")
	dir := fs.String("dir", "", "output directory")
	seed := fs.Uint64("seed", 1, "seed")
	tier := fs.String("tier", "quick", "quick|thorough")
	nprog := fs.Int("programs", 0, "number of generated programs (0: by tier)")
	keep := fs.Bool("keep", false, "keep the work directory")
	fs.BoolVar(&blackShadow, "blackshadow", true, "also write prefix-after-deeper path pairs for black-list masks (a known deviation of the library, see docs/C13.md)")
	fs.Parse(os.Args[2:])
	switch os.Args[1] {
	case "extract":
		if err := extract(*repo); err != nil {
			fmt.Fprintln(os.Stderr, "c13 extract:", err)
			os.Exit(3)
		}
	case "run":
		if *dir == "" {
			fmt.Fprintln(os.Stderr, "-dir is required")
			os.Exit(2)
		}
		np, nv, nm := 6, 5, 10
		if *tier == "thorough" {
			np, nv, nm = 40, 6, 10
		}
		if *nprog > 0 {
			np = *nprog
		}
		os.Exit(run(*repo, *dir, *seed, np, nv, nm, *keep))
	default:
		fmt.Fprintln(os.Stderr, "unknown subcommand", os.Args[1])
		os.Exit(2)
	}
}

// ---------------------------------------------------------------- translator

// extract reads the shape of the field-mask templates of the tree under test (the harness is linked against it):
// preMut: the list/set pre-count loop mutates its own bound; zeroAll: the zero-value else-branch is emitted for every field.
func extract(repo string) error {
	hm, err := headMax(repo)
	if err != nil {
		return err
	}
	loop := regexp.MustCompile(`for\s+i\s*:=\s*0\s*;\s*i\s*<\s*(len\(|[A-Za-z_][A-Za-z_0-9]*)\s*[^;]*;\s*i\+\+\s*\{`)
	shape := func(name, src string) (bool, error) {
		// the pre-count loop is the first `for i := 0; i < B; i++` of the template (before the validate_set loops and the element loop)
		m := loop.FindStringSubmatchIndex(src)
		if m == nil {
			return false, fmt.Errorf("pre-count loop of %s not found", name)
		}
		bound := src[m[2]:m[3]]
		if bound == "len(" {
			return false, nil // runs to len(x)
		}
		// the bound is a variable: does the loop body decrement it?
		body := src[m[1]:]
		if len(body) > 200 {
			body = body[:200]
		}
		if regexp.MustCompile(`\b` + regexp.QuoteMeta(bound) + `\s*(--|-=)`).MatchString(body) {
			return true, nil
		}
		return false, nil
	}
	l, err := shape("FieldWriteList", templates.FieldWriteList)
	if err != nil {
		return err
	}
	s, err := shape("FieldWriteSet", templates.FieldWriteSet)
	if err != nil {
		return err
	}
	if l != s {
		return fmt.Errorf("FieldWriteList and FieldWriteSet differ in their pre-count loops (list mutating=%v, set mutating=%v): the model has one switch", l, s)
	}
	wf := templates.StructLikeWriteField
	all := regexp.MustCompile(`\{\{-?\s*if\s+Features\.FieldMaskZeroRequired\s*-?\}\}\s*\}\s*else\s*\{`)
	onlyReq := regexp.MustCompile(`\{\{-?\s*if\s+and\s+[^}]*(FieldMaskZeroRequired[^}]*IsRequired|IsRequired[^}]*FieldMaskZeroRequired)[^}]*\}\}\s*\}\s*else\s*\{`)
	var zeroAll bool
	switch {
	case all.MatchString(wf):
		zeroAll = true
	case onlyReq.MatchString(wf):
		zeroAll = false
	default:
		return fmt.Errorf("zero-value else-branch of StructLikeWriteField not recognised")
	}
	// blackAll: `All()` alone decides whether the pre-count is skipped (no IsBlack() in the three container writers)
	nb := 0
	for _, t := range []string{templates.FieldWriteList, templates.FieldWriteSet, templates.FieldWriteMap} {
		if strings.Contains(t, ".IsBlack()") {
			nb++
		}
	}
	if nb != 0 && nb != 3 {
		return fmt.Errorf("FieldWriteList/Set/Map differ in their use of IsBlack() (%d of 3): the model has one switch", nb)
	}
	blackAll := nb == 0
	// reqSub: a required field takes the sub-mask of Field(id) whatever its answer (`fm, _ :=`)
	reqSub := regexp.MustCompile(`fm\s*,\s*_\s*:=\s*p\._fieldmask\.Field\(`).MatchString(wf)
	zw, err := zeroWriterRows()
	if err != nil {
		return err
	}
	fmt.Printf(`import ThriftVerif.Gen.Mask
/- GENERATED by harness/cmd/c13 extract (shape of the field-mask templates of the tree under test:
   templates.FieldWriteList / FieldWriteSet pre-count loop, StructLikeWriteField zero-value else-branch); do not edit. -/
namespace Generated.C13
def tpl : Gen.Mask.Tpl := { preMut := %v, zeroAll := %v, blackAll := %v, reqSub := %v }
/-- fieldmask/storage.go _MaxFieldIDHead: field ids 0..headMax are kept in an array, all others in a map (the model of C14 keeps
one association list; the harness aims field ids at headMax-1, headMax, headMax+1 on every run) -/
def headMax : Nat := %d
/-- generator/golang/thrift.go IsIntType / IsStrType asked for every category a map key can have: (category, IsIntType, IsStrType).
FieldWriteMap / FieldReadMap query Int(int(k)) for the first, Str(string(k)) for the second, Int(0) for neither. -/
def keyDispatch : List (String × Bool × Bool) := [%s]
/-- generator/golang/thrift.go ZeroWriter asked for every category: the TProtocol methods called in the text it returns -/
def zeroWriters : List (String × List String) := [%s]
end Generated.C13
`, l, zeroAll, blackAll, reqSub, hm, keyDispatchRows(), zw)
	return nil
}

// ---------------------------------------------------------------- run

type check struct {
	unit   *batch.UnitInfo
	sidx   int
	what   string // "MW" "MR"
	value  *values.Value
	norm   *values.Value
	enc    []byte
	black  bool
	tree   *mnode
	isNil  bool
	env    []envMask
	skip   string
	direct bool
}

func (c *check) opts() ropts {
	return ropts{halfway: has(c.unit.Options, "field_mask_halfway"), zeroReq: has(c.unit.Options, "field_mask_zero_required")}
}

// line renders the op line of a check.
func (c *check) line() string {
	key := fmt.Sprintf("%s:%d", c.unit.Key, c.sidx)
	spec := maskSpec(c.black, c.tree, c.isNil)
	if c.what == "MR" {
		return "MR " + key + " " + spec + " " + hex.EncodeToString(c.enc)
	}
	toks := []string{"MW", key, spec, strconv.Itoa(len(c.env))}
	for _, e := range c.env {
		toks = append(toks, strconv.Itoa(e.pos), maskSpec(e.black, e.tree, false))
	}
	return strings.Join(toks, " ") + " " + c.value.String()
}

// keyDispatchRows asks the real golang.IsIntType / golang.IsStrType (the harness is linked against the tree under test).
func keyDispatchRows() string {
	cats := []struct {
		name string
		c    parser.Category
	}{
		{"bool", parser.Category_Bool}, {"byte", parser.Category_Byte}, {"i16", parser.Category_I16}, {"i32", parser.Category_I32},
		{"i64", parser.Category_I64}, {"double", parser.Category_Double}, {"string", parser.Category_String}, {"binary", parser.Category_Binary},
		{"enum", parser.Category_Enum}, {"struct", parser.Category_Struct}, {"union", parser.Category_Union}, {"exception", parser.Category_Exception},
	}
	var rows []string
	for _, c := range cats {
		t := &parser.Type{Category: c.c}
		rows = append(rows, fmt.Sprintf("(%q, %v, %v)", c.name, golang.IsIntType(t), golang.IsStrType(t)))
	}
	return strings.Join(rows, ", ")
}

// zeroWriterRows calls the real golang.ZeroWriter for every category and lists the TProtocol methods in the emitted text.
func zeroWriterRows() (rows string, err error) {
	defer func() {
		if r := recover(); r != nil {
			err = fmt.Errorf("ZeroWriter panics: %v", r)
		}
	}()
	i32 := &parser.Type{Name: "i32", Category: parser.Category_I32}
	cats := []struct {
		name string
		t    *parser.Type
	}{
		{"bool", &parser.Type{Category: parser.Category_Bool}}, {"byte", &parser.Type{Category: parser.Category_Byte}},
		{"i16", &parser.Type{Category: parser.Category_I16}}, {"i32", i32}, {"i64", &parser.Type{Category: parser.Category_I64}},
		{"double", &parser.Type{Category: parser.Category_Double}}, {"string", &parser.Type{Category: parser.Category_String}},
		{"binary", &parser.Type{Category: parser.Category_Binary}}, {"enum", &parser.Type{Category: parser.Category_Enum}},
		{"map", &parser.Type{Category: parser.Category_Map, KeyType: i32, ValueType: i32}},
		{"list", &parser.Type{Category: parser.Category_List, ValueType: i32}}, {"set", &parser.Type{Category: parser.Category_Set, ValueType: i32}},
		{"struct", &parser.Type{Category: parser.Category_Struct}}, {"union", &parser.Type{Category: parser.Category_Union}},
		{"exception", &parser.Type{Category: parser.Category_Exception}},
	}
	call := regexp.MustCompile(`oprot\.(Write[A-Za-z0-9]+)\(`)
	var out []string
	for _, c := range cats {
		var ms []string
		for _, m := range call.FindAllStringSubmatch(golang.ZeroWriter(c.t, "oprot", "E"), -1) {
			ms = append(ms, strconv.Quote(m[1]))
		}
		out = append(out, fmt.Sprintf("(%q, [%s])", c.name, strings.Join(ms, ", ")))
	}
	return strings.Join(out, ", "), nil
}

// headMax reads `_MaxFieldIDHead` from fieldmask/storage.go of the repository under test (the last field id kept in the array part
// of the library's slot table; larger and negative ids live in a map).
func headMax(repo string) (int, error) {
	src, err := os.ReadFile(filepath.Join(repo, "fieldmask", "storage.go"))
	if err != nil {
		return 0, err
	}
	m := regexp.MustCompile(`(?m)^\s*(?:const\s+)?_MaxFieldIDHead\s*=\s*(\d+)`).FindSubmatch(src)
	if m == nil {
		return 0, fmt.Errorf("_MaxFieldIDHead not found in fieldmask/storage.go")
	}
	return strconv.Atoi(string(m[1]))
}

// boundaryIDs: field ids at the edges of the slot table and of the id range
func boundaryIDs(h int) []int16 {
	var out []int16
	seen := map[int]bool{}
	for _, x := range []int{h - 1, h, h + 1, 2*h + 1, 2*h + 2, 255, 256, 32767, 0, 1, -1, -32768} {
		if x >= -32768 && x <= 32767 && !seen[x] {
			seen[x] = true
			out = append(out, int16(x))
		}
	}
	return out
}

// aimIDs gives about a third of the struct-likes of a generated program field ids from the boundary pool (all ids explicit).
func aimIDs(p *idlgen.Program, r *vl.Rng, pool []int16, count func(string)) *idlgen.Program {
	for _, f := range p.Files {
		for _, st := range f.Structs {
			pick := r.Chance(45)
			start := r.Intn(len(pool))
			if !pick || len(st.Fields) == 0 || len(st.Fields) > len(pool) {
				continue
			}
			for i, fd := range st.Fields {
				fd.ID, fd.HasID = pool[(start+i)%len(pool)], true
			}
			if count != nil {
				count("struct.boundary_ids")
			}
		}
	}
	return p
}

// uniqueFiles gives every file of the program a path no other unit of the batch uses.
func uniqueFiles(p *idlgen.Program, unit int) *idlgen.Program {
	for _, f := range p.Files {
		f.Path = fmt.Sprintf("k%d/", unit) + f.Path // a directory of its own: the include prefix (base name) stays what the program's texts use
	}
	return p
}

func hasUnionField(p *idlgen.Program) bool {
	s := p.SchemaWith(false)
	for _, st := range s.Structs {
		for _, f := range st.Fields {
			if typeHasUnion(s, f.Type) {
				return true
			}
		}
	}
	return false
}

// typeHasUnion: does the FIELD type t (not nested struct members) contain a union/exception as the field's own type?
// ZeroWriter is called with the field's type only, so only a field that IS a union/exception matters.
func typeHasUnion(s *idlgen.Schema, t *idlgen.RType) bool {
	return t.Kind == idlgen.RStruct && s.Structs[t.Sidx].Kind != 's'
}

func run(repo, dir string, seed uint64, nprog, nvalues, nmasks int, keep bool) int {
	t0 := time.Now()
	if err := os.MkdirAll(dir, 0o755); err != nil {
		fmt.Fprintln(os.Stderr, err)
		return 2
	}
	work := filepath.Join(dir, "work")
	os.RemoveAll(work)
	if !keep {
		defer os.RemoveAll(work)
	}
	out := vl.NewOut(dir)
	defer out.Close()
	r := vl.NewRng(vl.NewRng(seed).U64())

	// ---- units
	hm, err := headMax(repo)
	if err != nil {
		fmt.Println("ERROR:", err)
		return 2
	}
	pool := boundaryIDs(hm)
	var units []batch.Unit
	expectReject := map[int]bool{}
	for i := 0; i < nprog; i++ {
		cfg := idlgen.DefaultConfig()
		cfg.Services = false
		cfg.MaxFiles = 2
		if i%3 != 2 {
			// ZeroWriter has no case for unions/exceptions: programs for the zero_required unit avoid them as field types
			cfg.Unions, cfg.Exceptions = false, false
		}
		ps := r.U64()
		as := r.U64()
		for j, o := range optionSets {
			// the reflection registry of thrift_reflection is global and keyed by IDL file path: every unit of the batch
			// (one process) needs its own file names, so the program is generated once per unit from the same seed
			p := uniqueFiles(idlgen.Generate(vl.NewRng(ps), cfg), len(units))
			var cnt func(string)
			if j == 0 {
				p.Stats(out.Count)
				cnt = out.Count
			}
			aimIDs(p, vl.NewRng(as), pool, cnt)
			if j == 2 && hasUnionField(p) {
				expectReject[len(units)] = true
			}
			units = append(units, batch.Unit{Prog: p, Recurse: true, Options: o, Tag: fmt.Sprintf("prog%d", i), NoSynth: true})
		}
	}
	for _, o := range optionSets {
		units = append(units, batch.Unit{Prog: uniqueFiles(directedProgram(), len(units)), Recurse: true, Options: o, Tag: "directed", NoSynth: true})
	}
	for _, o := range optionSets {
		units = append(units, batch.Unit{Prog: uniqueFiles(wideProgram(pool), len(units)), Recurse: true, Options: o, Tag: "directed", NoSynth: true})
	}
	for _, o := range optionSets {
		units = append(units, batch.Unit{Prog: uniqueFiles(keysProgram(), len(units)), Recurse: true, Options: o, Tag: "directed", NoSynth: true})
	}
	// aimed: a required field whose type is a typedef of a container, under field_mask_zero_required only
	units = append(units, batch.Unit{Prog: uniqueFiles(typedefReqProgram(), len(units)), Recurse: true, Options: optionSets[2], Tag: "directed", NoSynth: true})
	for j, o := range optionSets {
		if j == 1 {
			continue
		}
		if j == 2 {
			expectReject[len(units)] = true
		}
		units = append(units, batch.Unit{Prog: uniqueFiles(unionProgram(), len(units)), Recurse: true, Options: o, Tag: "directed", NoSynth: true})
	}
	b, err := batch.Build(work, repo, units, map[string]string{"c13ops.go": drvOps})
	if b != nil {
		fmt.Println(b.Summary())
	}
	if err != nil {
		fmt.Println("ERROR:", err)
		return 2
	}
	tBuilt := time.Now()
	bad := 0
	for i := range b.Units {
		u := &b.Units[i]
		if u.OK() {
			continue
		}
		if expectReject[i] && u.Exit != 0 && strings.Contains(u.Stderr, "zero writer") {
			// field_mask_zero_required rejects every IDL with a union/exception-typed field (ZeroWriter panics in the
			// template): a candidate defect described in docs/C13.md, C01's business as a rejected unit
			out.Count("unit.zero_required_rejects_union_field")
			out.Fail(vl.OracleFail{Key: "zero-required-rejects-union-field", What: "thriftgo -g go:with_reflection,with_field_mask,field_mask_zero_required fails on an accepted IDL that has a union- or exception-typed field (ZeroWriter has no case for them)",
				Input:    map[string]interface{}{"options": u.Options, "minimal_idl": "union U {1: i32 a} struct S {1: U u}"},
				Expected: "exit 0 and generated code (the IDL is accepted with every other option set)", Observed: fmt.Sprintf("exit %d: template error calling ZeroWriter: unsuported type zero writer", u.Exit)})
			continue
		}
		if u.Exit != 0 && has(u.Options, "field_mask_zero_required") && strings.Contains(u.Stderr, "ZeroWriter") && strings.Contains(u.Stderr, "nil pointer") {
			// field_mask_zero_required rejects an IDL with a REQUIRED field whose type is a typedef of a container: ZeroWriter reads
			// KeyType/ValueType of the (un-dereferenced) typedef type (C01's class as a rejected unit; the cause is ZeroWriter)
			out.Count("unit.zero_required_rejects_typedef_container_field")
			out.Fail(vl.OracleFail{Key: "zero-required-rejects-typedef-container-field", What: "thriftgo -g go:with_reflection,with_field_mask,field_mask_zero_required fails (nil pointer dereference in ZeroWriter) on an accepted IDL with a required field whose type is a typedef of a list/set/map",
				Input:    map[string]interface{}{"options": u.Options, "minimal_idl": "typedef list<i32> L struct S {1: required L l}"},
				Expected: "exit 0 and generated code (the IDL is accepted without field_mask_zero_required)", Observed: fmt.Sprintf("exit %d: template error calling ZeroWriter: runtime error: invalid memory address or nil pointer dereference", u.Exit)})
			continue
		}
		bad++
		out.Count("unit.unusable")
		fmt.Printf("UNIT %s (%s %v) not usable: exit=%d %s %v\n", u.Key, u.Tag, u.Options, u.Exit, firstLines(u.Stderr, 3), firstN(u.BuildErrors, 4))
		out.Sample(map[string]interface{}{"unusable_unit": u.Key, "options": u.Options, "build": firstN(u.BuildErrors, 4), "exit": u.Exit})
	}
	if bad*2 > len(b.Units) {
		out.Fail(vl.OracleFail{Key: "units-unusable", What: fmt.Sprintf("%d of %d units were rejected or did not compile", bad, len(b.Units)), Expected: "generated code compiles", Observed: b.Summary()})
	}

	// ---- ops
	var lines []string
	var checks []*check
	add := func(line string, c *check) {
		lines = append(lines, line)
		checks = append(checks, c)
	}
	for i := range b.Units {
		u := &b.Units[i]
		if !u.OK() {
			continue
		}
		for _, l := range u.SchemaLines() {
			add(l, nil)
		}
		add(descLine(u), nil)
		out.Count("unit.options." + strings.Join(u.PLineOptions(), ","))
		mg := &maskGen{r: r, s: u.Schema}
		for sidx, st := range u.Schema.Structs {
			if u.Tag == "directed" {
				for _, d := range directedCases(u.Schema, sidx) {
					genOps(u, sidx, d.v, d.black, d.tree, false, nil, true, add, out)
				}
				continue
			}
			nv := nvalues
			if st.Kind != 's' {
				nv = 1
			}
			for k := 0; k < nv; k++ {
				v := valgen.Gen(r, u.Schema, sidx, 1+r.Intn(5), valgen.Config{Count: out.Count, MaxElems: 6, NilElems: true, NoNilRequired: r.Chance(92)})
				v = grow(r, u.Schema, &idlgen.RType{Kind: idlgen.RStruct, Sidx: sidx}, v, out.Count)
				out.Count(fmt.Sprintf("val.depth.%d", v.Depth()))
				genOps(u, sidx, v, false, nil, true, nil, false, add, out) // nil mask
				if st.Kind != 's' {
					genOps(u, sidx, v, false, leafNode(), false, nil, false, add, out)
					continue
				}
				for m := 0; m < nmasks; m++ {
					tree := mg.genRoot(sidx, v, out.Count)
					black := r.Chance(45)
					var env []envMask
					if r.Chance(20) {
						env = genEnv(mg, st, v, out.Count)
					}
					genOps(u, sidx, v, black, tree, false, env, false, add, out)
				}
			}
		}
	}
	answers, err := b.RunLines(lines)
	if err != nil {
		fmt.Println("ERROR:", err)
		return 2
	}

	pr := &proc{bin: b.Bin, dir: b.Dir}
	defer pr.stop()

	// ---- oracle
	type failure struct {
		c    *check
		line string
		ans  string
		v    verdictT
	}
	best := map[string]*failure{}
	nfail := 0
	for i, line := range lines {
		ans := answers[i]
		c := checks[i]
		impl := ans
		if c != nil && c.what == "MW" && strings.HasPrefix(ans, "ok ") {
			f := strings.Fields(strings.SplitN(ans, " | ", 2)[0])
			if len(f) == 4 {
				impl = "ok " + f[2]
			}
		}
		out.Case(line, impl, c != nil)
		if c == nil {
			continue
		}
		out.Count("op." + c.what)
		out.Count("answer." + strings.Fields(ans)[0])
		v := rootCause(pr, c, verdict(c, ans))
		if v.skip != "" {
			out.Count("oracle.skip." + v.skip)
			continue
		}
		if v.key == "" {
			out.Count("oracle.ok." + c.what)
			continue
		}
		nfail++
		out.Count("oracle.fail." + v.key)
		// representative of a class: a case of the directed unit if there is one (the same input whatever the seed), else the shortest
		if old, ok := best[v.key]; !ok || (c.direct && !old.c.direct) || (c.direct == old.c.direct && len(line) < len(old.line)) {
			best[v.key] = &failure{c: c, line: line, ans: ans, v: v}
		}
	}
	keys := make([]string, 0, len(best))
	for k := range best {
		keys = append(keys, k)
	}
	sort.Strings(keys)
	tOracle := time.Now()
	for _, k := range keys {
		f := best[k]
		c, v := shrink(pr, f.c, f.v)
		line := c.line()
		ans := []string{pr.ask(line)}
		key := k
		if !stableKeys[k] {
			key = k + ":" + line
		}
		fmt.Printf("ORACLE FAIL [%s %v] %s: %s\n  mask: %s\n  op: %.400s\n  got: %.300s\n", c.unit.Key, c.unit.Options, k, v.msg, describeMask(c.black, c.tree, c.isNil), line, strings.Join(ans, ""))
		out.Fail(vl.OracleFail{Key: key, What: c.what + ": " + v.msg,
			Input: map[string]interface{}{"unit": c.unit.Key, "options": c.unit.Options, "schema": c.unit.SchemaLines(), "struct": c.unit.Schema.Structs[c.sidx].Name,
				"mask": describeMask(c.black, c.tree, c.isNil), "env": describeEnv(c.env), "value": c.value.String(), "op": line},
			Expected: v.expected, Observed: v.observed})
		out.Sample(map[string]string{"op": line, "got": strings.Join(ans, ""), "why": v.msg})
	}
	fmt.Printf("c13: seed %d, %d units (%d unusable), %d op lines, %d oracle failures in %d classes, %.1fs total (build %.1fs, ops %.1fs, shrink %.1fs)\n",
		seed, len(b.Units), bad, len(lines), nfail, len(best), time.Since(t0).Seconds(), tBuilt.Sub(t0).Seconds(), tOracle.Sub(tBuilt).Seconds(), time.Since(tOracle).Seconds())
	for k, d := range b.Timing {
		out.Stats["timing_ms."+k] = int(d.Milliseconds())
	}
	if nfail > 0 {
		return 1
	}
	return 0
}

// stableKeys: failure classes with a known cause; their key does not depend on the input (docs/C13.md)
var stableKeys = map[string]bool{
	"precount-list-header-mismatch": true, "precount-set-header-mismatch": true, "precount-map-header-mismatch": true,
	"black-all-container-header-mismatch": true,
	"zero-required-writes-nonrequired":     true,
	"union-field-white-unselectable":       true, "union-field-black-unfilterable": true,
	"required-black-submask-applied": true,
	"read:union-field-white-unselectable": true, "read:union-field-black-unfilterable": true,
	"zero-required-rejects-union-field": true, "union-element-paths-rejected": true, "compact-protocol-differs": true,
	"zero-required-rejects-typedef-container-field": true,
	keyBlackPrefix: true, keyBlackPrefix + ":read": true, keyWhiteStar: true, keyWhiteStar + ":read": true,
}

func minI(a, b int) int {
	if a < b {
		return a
	}
	return b
}

func firstLines(s string, n int) string {
	ls := strings.Split(strings.TrimSpace(s), "\n")
	if len(ls) > n {
		ls = ls[:n]
	}
	return strings.Join(ls, " | ")
}

func firstN(xs []string, n int) []string {
	if len(xs) > n {
		return xs[:n]
	}
	return xs
}

// descLine: `D u<i> <nstructs> (<nfields> <namehex>*)*` — the field names the paths may use
func descLine(u *batch.UnitInfo) string {
	toks := []string{"D", u.Key, strconv.Itoa(len(u.Schema.Structs))}
	for _, st := range u.Schema.Structs {
		toks = append(toks, strconv.Itoa(len(st.Fields)))
		for _, f := range st.Fields {
			toks = append(toks, vl.Hex(f.Name))
		}
	}
	return strings.Join(toks, " ")
}

func describeEnv(env []envMask) []string {
	var out []string
	for _, e := range env {
		out = append(out, fmt.Sprintf("field #%d: %s", e.pos, describeMask(e.black, e.tree, false)))
	}
	return out
}

// genEnv: a mask set on one struct-typed, non-nil field of the root before the root's Write
func genEnv(mg *maskGen, st *idlgen.SStruct, v *values.Value, count func(string)) []envMask {
	var cands []int
	for i, f := range st.Fields {
		if f.Type.Kind == idlgen.RStruct && mg.s.Structs[f.Type.Sidx].Kind == 's' && !v.E[i].IsNil() && len(mg.s.Structs[f.Type.Sidx].Fields) > 0 {
			cands = append(cands, i)
		}
	}
	if len(cands) == 0 {
		return nil
	}
	pos := cands[mg.r.Intn(len(cands))]
	count("mask.env")
	return []envMask{{pos: pos, black: mg.r.Chance(40), tree: mg.genRoot(st.Fields[pos].Type.Sidx, v.E[pos], count)}}
}

// grow: lists with 1..3 elements are extended to 4..6 by repeating their elements (sets are left alone: elements must
// stay distinct), recursively.
func grow(r *vl.Rng, s *idlgen.Schema, t *idlgen.RType, v *values.Value, count func(string)) *values.Value {
	if v.IsNil() {
		return v
	}
	switch t.Kind {
	case idlgen.RStruct:
		st := s.Structs[t.Sidx]
		if v.K != values.KRecord {
			return v
		}
		for i, f := range st.Fields {
			v.E[i] = grow(r, s, f.Type, v.E[i], count)
		}
	case idlgen.RList:
		for i := range v.E {
			v.E[i] = grow(r, s, t.Elem, v.E[i], count)
		}
		if n := len(v.E); n >= 1 && n < 4 && r.Chance(60) {
			want := 4 + r.Intn(3)
			for len(v.E) < want {
				v.E = append(v.E, v.E[r.Intn(n)].Clone())
			}
			count("val.list.grown")
		}
		count(fmt.Sprintf("val.list.len.%d", minI(len(v.E), 8)))
	case idlgen.RSet:
		count(fmt.Sprintf("val.set.len.%d", minI(len(v.E), 8)))
	case idlgen.RMap:
		for p := 0; p < v.NPairs(); p++ {
			v.E[2*p+1] = grow(r, s, t.Elem, v.E[2*p+1], count)
		}
		count(fmt.Sprintf("val.map.len.%d", minI(v.NPairs(), 8)))
	}
	return v
}

func genOps(u *batch.UnitInfo, sidx int, v *values.Value, black bool, tree *mnode, isNil bool, env []envMask, direct bool,
	add func(string, *check), out *vl.Out) {
	enc, encErr := refcodec.Encode(u.Schema, sidx, v)
	var norm *values.Value
	var normErr error
	if encErr == nil {
		norm, normErr = refcodec.Decode(u.Schema, sidx, enc)
	}
	w := &check{unit: u, sidx: sidx, what: "MW", value: v, norm: norm, enc: enc, black: black, tree: tree, isNil: isNil, env: env, direct: direct}
	switch {
	case encErr != nil:
		w.skip = "no-reference-encoding"
	case normErr != nil:
		w.skip = "no-normal-form"
	}
	add(w.line(), w)
	if encErr != nil || normErr != nil || len(env) > 0 {
		return
	}
	rd := *w
	rd.what = "MR"
	add(rd.line(), &rd)
}

type verdictT struct {
	key      string // "" = fine
	msg      string
	expected string
	observed string
	skip     string
}

// verdict evaluates the oracle for one answered op.
func verdict(c *check, ans string) verdictT {
	if c.skip != "" {
		return verdictT{skip: c.skip}
	}
	s := c.unit.Schema
	x := &restrictor{s: s, o: c.opts()}
	st := rootSel(c.black, c.tree)
	if c.isNil {
		st = sel{all: true}
	}
	rt := &idlgen.RType{Kind: idlgen.RStruct, Sidx: c.sidx}
	compact := ""
	if c.what == "MW" {
		if parts := strings.SplitN(ans, " | ", 2); len(parts) == 2 {
			ans, compact = parts[0], parts[1]
		}
	}
	f := strings.Fields(ans)
	switch f[0] {
	case "maskerr", "maskpanic":
		// the path sets are valid by construction; a struct without fields cannot be named by `.*`, everything else must be accepted
		union := entersUnionElems(s, rt, c.tree)
		for _, e := range c.env {
			if entersUnionElems(s, s.Structs[c.sidx].Fields[e.pos].Type, e.tree) {
				union = true
			}
		}
		if union {
			return verdictT{key: "union-element-paths-rejected", msg: "fieldmask.NewFieldMask refuses every path into a list/set/map whose element type is a union or exception (switchFt: Invalid)", expected: "a mask", observed: f[0]}
		}
		return verdictT{key: "valid-paths-rejected", msg: "fieldmask.NewFieldMask refuses a path set that is valid for the descriptor (" + f[0] + ")", expected: "a mask", observed: f[0]}
	case "panic", "err", "nomethod", "crash":
		return verdictT{key: c.what + "-fails", msg: "masked " + c.what + " fails on a value whose unmasked encoding exists", expected: "ok", observed: ans}
	}
	switch c.what {
	case "MW":
		if len(f) != 4 {
			return verdictT{key: "driver", msg: "unexpected driver answer", observed: ans}
		}
		if strings.HasPrefix(f[3], "recorder:") {
			return verdictT{key: "driver", msg: "recording protocol inconsistent", observed: ans}
		}
		raw, err := hex.DecodeString(strings.TrimPrefix(f[1], "-"))
		if err != nil {
			return verdictT{key: "driver", msg: "bad hex", observed: ans}
		}
		exp := x.restrictW(st, rt, c.value, c.norm, c.env)
		if x.undc {
			return verdictT{skip: "zero-value-of-struct-with-required-members"}
		}
		got, derr := refcodec.Decode(s, c.sidx, raw)
		if f[3] != "-" {
			// well-formedness: a header count differs from the number of elements that follow (seen by the recording protocol;
			// a strict reader usually fails on such bytes, sometimes it happens to get through them misaligned)
			key := map[byte]string{'l': "precount-list-header-mismatch", 't': "precount-set-header-mismatch", 'm': "precount-map-header-mismatch"}[f[3][0]]
			if x.blackAllContainer(st, rt, c.norm) {
				key = "black-all-container-header-mismatch"
			}
			if x.o.halfway {
				for _, e := range c.env { // a mask kept by Pass_FieldMask on a child
					if x.blackAllContainer(rootSel(e.black, e.tree), s.Structs[c.sidx].Fields[e.pos].Type, c.norm.E[e.pos]) {
						key = "black-all-container-header-mismatch"
					}
				}
			}
			dec := "strict reference decoder: accepted by accident"
			if derr != nil {
				dec = "strict reference decoder: " + derr.Error()
			}
			return verdictT{key: key, msg: "the bytes are not a well-formed encoding: first container whose announced count differs from the elements written: " + f[3] + " (kind:announced/written); " + dec,
				expected: "well-formed bytes decoding to " + exp.String(), observed: f[1]}
		}
		if derr != nil {
			key := "malformed"
			if x.zeroStructNonRequired(st, rt, c.norm) {
				key = "zero-required-writes-nonrequired"
			}
			if x.zeroUnionRequired(st, rt, c.norm) {
				key = "union-field-white-unselectable"
			}
			return verdictT{key: key, msg: "the bytes are rejected by the strict reference decoder: " + derr.Error(), expected: "bytes decoding to " + exp.String(), observed: f[1]}
		}
		if !refcodec.Equal(got, exp) {
			why := x.explain(st, rt, c.norm, exp, got, true, c.env)
			return verdictT{key: why, msg: "the bytes decode to something else than the value restricted to the mask (" + why + ")", expected: exp.String(), observed: got.String()}
		}
		// the same masked Write through TCompactProtocol, read back by the generated Read (nil mask): the same value as in the binary bytes
		switch {
		case compact == "":
			return verdictT{key: "driver", msg: "no compact-protocol pass in the driver answer", observed: ans}
		case !strings.HasPrefix(compact, "ok "):
			return verdictT{key: "compact-protocol-differs", msg: "the masked Write through TCompactProtocol cannot be read back (" + compact + ") although the binary bytes of the same masked Write decode",
				expected: got.String(), observed: compact}
		default:
			cv, err := values.Parse(compact[3:])
			if err != nil {
				return verdictT{key: "driver", msg: "unparsable compact dump", observed: compact}
			}
			if !refcodec.Equal(cv, got) {
				return verdictT{key: "compact-protocol-differs", msg: "the masked Write through TCompactProtocol reads back as another value than the binary bytes of the same masked Write",
					expected: got.String(), observed: cv.String()}
			}
		}
		if c.isNil {
			// nil mask: exactly the bytes of an unmasked Write (= the reference encoding, C02), map order aside
			cr, e1 := refcodec.Canon(c.enc)
			ci, e2 := refcodec.Canon(raw)
			if e1 != nil || e2 != nil || hex.EncodeToString(cr) != hex.EncodeToString(ci) {
				return verdictT{key: "nil-mask-bytes-differ", msg: "with a nil mask the bytes differ from the unmasked encoding", expected: hex.EncodeToString(cr), observed: hex.EncodeToString(ci)}
			}
		}
		return verdictT{}
	case "MR":
		if len(f) < 2 {
			return verdictT{key: "driver", msg: "unexpected driver answer", observed: ans}
		}
		got, err := values.Parse(ans[3:])
		if err != nil {
			return verdictT{key: "driver", msg: "unparsable dump", observed: ans}
		}
		exp := x.restrictR(st, rt, c.value, c.norm)
		if !refcodec.Equal(got, exp) {
			why := x.explain(st, rt, c.norm, exp, got, false, nil)
			return verdictT{key: "read:" + why, msg: "masked Read leaves something else than the selected part in the object (" + why + ")", expected: exp.String(), observed: got.String()}
		}
		return verdictT{}
	}
	return verdictT{key: "driver", msg: "unknown check"}
}

// ---------------------------------------------------------------- root cause of a failure under a black-list mask

const keyBlackPrefix = "black:prefix-after-deeper-path-ignored"
const keyWhiteStar = "white:prefix-after-star-path-ignored"

// hasShadow: does a leaf carry deeper paths written before it (onlyStar: deeper paths that start with `[*]` / `{*}` / `.*`)?
func hasShadow(n *mnode, onlyStar bool) bool {
	if n == nil {
		return false
	}
	if n.leaf {
		return n.shadow != nil && !n.shadow.leaf && (!onlyStar || n.shadow.star != nil)
	}
	if hasShadow(n.star, onlyStar) {
		return true
	}
	for _, k := range n.kids {
		if hasShadow(k.sub, onlyStar) {
			return true
		}
	}
	return false
}

func stripShadows(n *mnode, onlyStar bool) *mnode {
	c := n.clone()
	var walk func(m *mnode)
	walk = func(m *mnode) {
		if m == nil {
			return
		}
		if m.shadow != nil && (!onlyStar || m.shadow.star != nil) {
			m.shadow = nil
		}
		walk(m.star)
		for _, k := range m.kids {
			walk(k.sub)
		}
	}
	walk(c)
	return c
}

// rootCause gives a failure its root-cause key when — and only when — it is caused by a complete path handed to NewFieldMask AFTER
// one of its own extensions (a leaf with a shadow); the library does not drop the children of the node such a path ends at:
//   - black list (keyBlackPrefix): the node still counts as intermediate, so it is not rejected;
//   - white list (keyWhiteStar): only when the earlier deeper path goes through `*` right below the prefix (`$.l[*].a` then `$.l`): the
//     `all` child survives and keeps restricting the elements.
// Confirmed by re-running the SAME case (same path set, same expectation) with exactly those earlier deeper paths taken out of the
// list: it must pass. If it fails in ANOTHER class, that class is the remaining cause and is reported instead; if it fails alike,
// the failure keeps its generic class. Refused masks, failing ops and the union classes are never renamed.
func rootCause(pr *proc, c *check, v verdictT) verdictT {
	if v.key == "" || v.skip != "" || pr == nil {
		return v
	}
	if strings.HasPrefix(v.key, "union-") || strings.HasPrefix(v.key, "read:union-") || v.key == "valid-paths-rejected" || strings.HasSuffix(v.key, "-fails") || v.key == "driver" {
		return v
	}
	t := *c
	black, white := false, false
	strip := func(isBlack bool, n *mnode) (*mnode, bool) {
		if n == nil || !hasShadow(n, !isBlack) {
			return n, false
		}
		return stripShadows(n, !isBlack), true
	}
	if !c.isNil {
		if n, ok := strip(c.black, c.tree); ok {
			t.tree = n
			black, white = black || c.black, white || !c.black
		}
	}
	if len(c.env) > 0 {
		t.env = append([]envMask{}, c.env...)
		for i, e := range t.env {
			if n, ok := strip(e.black, e.tree); ok {
				t.env[i].tree = n
				black, white = black || e.black, white || !e.black
			}
		}
	}
	if !black && !white {
		return v
	}
	w := verdict(&t, pr.ask(t.line()))
	switch {
	case w.skip != "" || w.key == v.key:
		return v
	case w.key != "":
		w.msg = "(after taking the earlier deeper paths of a later prefix out of the list; with them: " + v.key + ") " + w.msg
		return w
	}
	key := keyWhiteStar
	if black {
		key = keyBlackPrefix
	}
	if c.what == "MR" {
		key += ":read"
	}
	v.msg = "a complete path handed to NewFieldMask AFTER one of its own extensions does not take over (the same case passes with the earlier deeper paths removed); generic class: " + v.key + " — " + v.msg
	v.key = key
	return v
}

// ---------------------------------------------------------------- shrinking

func (n *mnode) clone() *mnode {
	if n == nil {
		return nil
	}
	seen := map[*mnode]*mnode{}
	var cp func(*mnode) *mnode
	cp = func(m *mnode) *mnode {
		if m == nil {
			return nil
		}
		if c, ok := seen[m]; ok {
			return c
		}
		c := &mnode{leaf: m.leaf, starKind: m.starKind}
		seen[m] = c
		c.star = cp(m.star)
		c.shadow = cp(m.shadow)
		for _, k := range m.kids {
			kk := *k
			kk.sub = cp(k.sub)
			c.kids = append(c.kids, &kk)
		}
		return c
	}
	return cp(n)
}

// maskCands: smaller masks (drop one specific child, cut a sub-tree to a leaf)
func maskCands(n *mnode) []*mnode {
	var out []*mnode
	var nodes func(m *mnode, visit func(*mnode))
	nodes = func(m *mnode, visit func(*mnode)) {
		if m == nil {
			return
		}
		visit(m)
		nodes(m.star, visit)
		for _, k := range m.kids {
			nodes(k.sub, visit)
		}
	}
	count := 0
	nodes(n, func(*mnode) { count++ })
	for target := 0; target < count && len(out) < 40; target++ {
		// candidate A: node #target loses one child; candidate B: node #target becomes a leaf
		probe := n.clone()
		idx := 0
		var at *mnode
		nodes(probe, func(m *mnode) {
			if idx == target {
				at = m
			}
			idx++
		})
		if at != nil && at.leaf && at.shadow != nil {
			c := n.clone()
			idx = 0
			nodes(c, func(m *mnode) {
				if idx == target {
					m.shadow = nil
				}
				idx++
			})
			out = append(out, c)
		}
		if at == nil || at.leaf {
			continue
		}
		for d := range at.kids {
			if len(at.kids) < 2 {
				break
			}
			c := n.clone()
			idx = 0
			nodes(c, func(m *mnode) {
				if idx == target {
					m.kids = append(append([]*mkid{}, m.kids[:d]...), m.kids[d+1:]...)
				}
				idx++
			})
			out = append(out, c)
		}
		if target > 0 {
			c := n.clone()
			idx = 0
			nodes(c, func(m *mnode) {
				if idx == target {
					m.leaf, m.star, m.kids = true, nil, nil
				}
				idx++
			})
			out = append(out, c)
		}
	}
	return out
}

// proc is one long-lived driver process answering one line at a time (shrinking asks hundreds of single questions).
type proc struct {
	bin, dir string
	cmd      *exec.Cmd
	in       *bufio.Writer
	out      *bufio.Reader
}

func (p *proc) start() error {
	p.cmd = exec.Command(p.bin)
	p.cmd.Dir = p.dir
	w, err := p.cmd.StdinPipe()
	if err != nil {
		return err
	}
	r, err := p.cmd.StdoutPipe()
	if err != nil {
		return err
	}
	p.in, p.out = bufio.NewWriter(w), bufio.NewReaderSize(r, 1<<20)
	return p.cmd.Start()
}

func (p *proc) ask(line string) string {
	for try := 0; try < 2; try++ {
		if p.cmd == nil {
			if err := p.start(); err != nil {
				return "crash"
			}
		}
		p.in.WriteString(line)
		p.in.WriteByte('\n')
		if err := p.in.Flush(); err == nil {
			if s, err := p.out.ReadString('\n'); err == nil {
				return strings.TrimRight(s, "\n")
			}
		}
		p.cmd.Process.Kill()
		p.cmd.Wait()
		p.cmd = nil
	}
	return "crash"
}

func (p *proc) stop() {
	if p.cmd != nil {
		p.cmd.Process.Kill()
		p.cmd.Wait()
		p.cmd = nil
	}
}

// shrink minimises mask then value of a failing check, keeping the failure class.
func shrink(b *proc, c *check, v verdictT) (*check, verdictT) {
	cur := *c
	fails := func(t *check) (verdictT, bool) {
		enc, err := refcodec.Encode(t.unit.Schema, t.sidx, t.value)
		if err != nil {
			return verdictT{}, false
		}
		norm, err := refcodec.Decode(t.unit.Schema, t.sidx, enc)
		if err != nil {
			return verdictT{}, false
		}
		t.enc, t.norm = enc, norm
		w := rootCause(b, t, verdict(t, b.ask(t.line())))
		return w, w.key == v.key
	}
	tries := 0
	if len(cur.env) > 0 {
		t := cur
		t.env = nil
		if w, ok := fails(&t); ok {
			cur, v = t, w
		}
	}
	for progress := true; progress && tries < 120 && cur.tree != nil; {
		progress = false
		for _, m := range maskCands(cur.tree) {
			tries++
			t := cur
			t.tree = m
			if w, ok := fails(&t); ok {
				cur, v, progress = t, w, true
				break
			}
			if tries >= 120 {
				break
			}
		}
	}
	small := valgen.Shrink(cur.unit.Schema, cur.sidx, cur.value, func(x *values.Value) bool {
		t := cur
		t.value = x
		_, ok := fails(&t)
		return ok
	}, 120)
	t := cur
	t.value = small
	if w, ok := fails(&t); ok {
		cur, v = t, w
	} else {
		fails(&cur)
	}
	return &cur, v
}
