package main

// Abstract field masks: a PATH SET given as a tree (conflict-free by construction: a node is either the end of a
// complete path, or has one '*' child, or has specific children), its rendering as thrift path strings for the real
// fieldmask.NewFieldMask, and the path-set semantics (white: covered by a path; black: no complete path covers)
// evaluated on the tree — never on the library's trie, never on the Lean model.

import (
	"fmt"
	"strconv"
	"strings"

	"verifharness/internal/idlgen"
	"verifharness/internal/values"
	"verifharness/internal/vl"
)

type mkid struct {
	kind   byte   // 'f' field, 'i' list/set index, 'k' integer map key, 's' string map key
	id     int64  // field id / index / integer key
	s      string // string key
	name   string // field name (kind 'f')
	byName bool   // render the field by name instead of by id
	sub    *mnode
}

type mnode struct {
	leaf     bool    // a complete path ends here
	star     *mnode  // '*' child
	starKind byte    // how the '*' is written: 'f' `.*`, 'i' `[*]`, 'm' `{*}`
	kids     []*mkid // specific children
	// shadow (leaf nodes only): a sub-tree of DEEPER paths that are written BEFORE the complete path ending here (`$.S.a` then `$.S`).
	// The library accepts a prefix after its own extensions (the reverse order is an error) and the prefix then covers everything
	// below, so the shadow has no meaning for the path set: it only exercises the library's "isAll over existing children" case.
	shadow *mnode
}

func leafNode() *mnode { return &mnode{leaf: true} }

// ---------------------------------------------------------------- rendering

// paths renders the tree as thrift paths. Sibling index/key children sharing one sub-tree (pointer-equal) are written
// as one bracket group `[1,2]`.
func (n *mnode) paths() []string { return n.pathsFor(false) }

// blackShadow: also write "prefix after deeper" pairs for black-list masks. On the tree as found a black-list complete path written
// after one of its extensions (`$.oi.y` then `$.oi`) does not reject the node (known finding black:prefix-after-deeper-path-ignored).
var blackShadow = true

var renderShadow = true

// pathsFor renders the path list for a white- or black-list mask (in the order the paths are handed to NewFieldMask).
func (n *mnode) pathsFor(black bool) []string {
	var out []string
	renderShadow = !black || blackShadow
	n.render("$", &out)
	renderShadow = true
	return out
}

func (n *mnode) render(prefix string, out *[]string) {
	if n.leaf {
		if renderShadow && n.shadow != nil && !n.shadow.leaf {
			n.shadow.render(prefix, out)
		}
		*out = append(*out, prefix)
		return
	}
	if n.star != nil {
		n.star.render(prefix+n.starOpen(), out)
		return
	}
	done := map[*mkid]bool{}
	for _, k := range n.kids {
		if done[k] {
			continue
		}
		done[k] = true
		switch k.kind {
		case 'f':
			if k.byName {
				k.sub.render(prefix+"."+k.name, out)
			} else {
				k.sub.render(prefix+"."+strconv.FormatInt(k.id, 10), out)
			}
		default:
			group := []*mkid{k}
			for _, o := range n.kids {
				if !done[o] && o.kind == k.kind && o.sub == k.sub {
					group = append(group, o)
					done[o] = true
				}
			}
			var items []string
			for _, g := range group {
				if g.kind == 's' {
					items = append(items, strconv.Quote(g.s))
				} else {
					items = append(items, strconv.FormatInt(g.id, 10))
				}
			}
			if k.kind == 'i' {
				k.sub.render(prefix+"["+strings.Join(items, ",")+"]", out)
			} else {
				k.sub.render(prefix+"{"+strings.Join(items, ",")+"}", out)
			}
		}
	}
}

func (n *mnode) starOpen() string {
	switch n.starKind {
	case 'f':
		return ".*"
	case 'i':
		return "[*]"
	}
	return "{*}"
}

func (n *mnode) String() string { return strings.Join(n.paths(), " ") }

// ---------------------------------------------------------------- semantics

// sel is the state of a walk: `all` = no constraint below this point.
type sel struct {
	black bool
	all   bool
	n     *mnode
}

// rootSel is the state at the root object for a path set (nil tree = nil mask / no paths: everything passes).
func rootSel(black bool, n *mnode) sel {
	if n == nil {
		return sel{black: black, all: true}
	}
	if n.leaf {
		if !black {
			return sel{all: true}
		}
		// the complete path `$` in black-list mode: every child is named by a complete path's extension
		return sel{black: true, n: &mnode{star: leafNode()}}
	}
	return sel{black: black, n: n}
}

type step struct {
	kind byte // 'f' 'i' 'k' 's' 'o' (map with a key that is neither integer nor string: only '*' can name it)
	id   int64
	s    string
}

// child: is the child named by st selected, and under which state are ITS children judged.
func (s sel) child(st step) (sel, bool) {
	if s.all {
		return s, true
	}
	var m *mnode
	if s.n.star != nil {
		m = s.n.star
	} else {
		for _, k := range s.n.kids {
			if k.kind == st.kind && ((st.kind == 's' && k.s == st.s) || (st.kind != 's' && k.id == st.id)) {
				m = k.sub
				break
			}
		}
	}
	if !s.black {
		if m == nil {
			return sel{}, false
		}
		if m.leaf {
			return sel{all: true}, true
		}
		return sel{n: m}, true
	}
	if m == nil {
		return sel{black: true, all: true}, true
	}
	if m.leaf {
		return sel{black: true, all: true}, false
	}
	return sel{black: true, n: m}, true
}

// ---------------------------------------------------------------- generation

type maskGen struct {
	r        *vl.Rng
	s        *idlgen.Schema
	noShadow bool
}

func keyStep(kt *idlgen.RType, k *values.Value) step {
	switch kt.Kind {
	case idlgen.RByte, idlgen.RI16, idlgen.RI32, idlgen.RI64, idlgen.REnum:
		return step{kind: 'k', id: k.I}
	case idlgen.RString, idlgen.RBinary:
		return step{kind: 's', s: string(k.X)}
	}
	return step{kind: 'o'}
}

func keyKind(kt *idlgen.RType) byte {
	switch kt.Kind {
	case idlgen.RByte, idlgen.RI16, idlgen.RI32, idlgen.RI64, idlgen.REnum:
		return 'k'
	case idlgen.RString, idlgen.RBinary:
		return 's'
	}
	return 'o'
}

// indexShapes: subsets of 0..n-1 (prefix, suffix, singletons, alternating, all, out of range)
func indexShape(r *vl.Rng, n int) []int64 {
	var out []int64
	switch r.Intn(9) {
	case 0: // prefix
		k := 1
		if n > 1 {
			k = 1 + r.Intn(n-1)
		}
		for i := 0; i < k; i++ {
			out = append(out, int64(i))
		}
	case 1: // suffix
		k := 1
		if n > 1 {
			k = 1 + r.Intn(n-1)
		}
		for i := n - k; i < n; i++ {
			if i >= 0 {
				out = append(out, int64(i))
			}
		}
	case 2: // singleton
		if n > 0 {
			out = append(out, int64(r.Intn(n)))
		}
	case 3: // even
		for i := 0; i < n; i += 2 {
			out = append(out, int64(i))
		}
	case 4: // odd
		for i := 1; i < n; i += 2 {
			out = append(out, int64(i))
		}
	case 5: // out of range only
		out = append(out, int64(n+r.Intn(3)))
	case 6: // random subset
		for i := 0; i < n; i++ {
			if r.Bool() {
				out = append(out, int64(i))
			}
		}
	case 7: // in range + out of range
		if n > 0 {
			out = append(out, int64(r.Intn(n)))
		}
		out = append(out, int64(n+1+r.Intn(50)))
	case 8: // first and last
		out = append(out, 0)
		if n > 1 {
			out = append(out, int64(n-1))
		}
	}
	if len(out) == 0 {
		out = append(out, 0)
	}
	return out
}

// gen builds a sub-tree for a slot of type t holding v (v may be nil: no value to be guided by).
func (g *maskGen) gen(t *idlgen.RType, v *values.Value, depth int, count func(string)) *mnode {
	if t.IsBase() || depth <= 0 || g.r.Chance(18) {
		count("mask.node.leaf")
		n := leafNode()
		if !t.IsBase() && !g.noShadow && g.r.Chance(35) {
			// a complete path written AFTER deeper paths through the same node
			g.noShadow = true
			for try := 0; try < 4 && n.shadow == nil; try++ {
				if sh := g.gen(t, v, 2, func(string) {}); !sh.leaf {
					n.shadow = sh
					count("mask.node.leaf-after-deeper")
				}
			}
			g.noShadow = false
		}
		return n
	}
	switch t.Kind {
	case idlgen.RStruct:
		st := g.s.Structs[t.Sidx]
		if st.Kind != 's' || len(st.Fields) == 0 {
			// unions / exceptions are not structs for the library (a path cannot go into them)
			count("mask.node.leaf")
			return leafNode()
		}
		if g.r.Chance(8) {
			count("mask.node.struct-star")
			return &mnode{star: leafNode(), starKind: 'f'}
		}
		n := &mnode{}
		k := 1 + g.r.Intn(3)
		perm := g.r.Intn(len(st.Fields))
		for i := 0; i < k && i < len(st.Fields); i++ {
			fi := (perm + i*7) % len(st.Fields)
			dup := false
			for _, o := range n.kids {
				if o.id == int64(st.Fields[fi].ID) {
					dup = true
				}
			}
			if dup {
				continue
			}
			f := st.Fields[fi]
			var fv *values.Value
			if v != nil && v.K == values.KRecord && fi < len(v.E) {
				fv = v.E[fi]
			}
			// a negative field id cannot be written as an id (`.-2` is read as the NAME "-2"): such fields go by name
			byName := g.r.Bool() || f.ID < 0
			if byName {
				count("mask.field.by-name")
			} else {
				count("mask.field.by-id")
			}
			n.kids = append(n.kids, &mkid{kind: 'f', id: int64(f.ID), name: f.Name, byName: byName, sub: g.gen(f.Type, fv, depth-1, count)})
		}
		count("mask.node.struct")
		return n
	case idlgen.RList, idlgen.RSet:
		var elems []*values.Value
		if v != nil && (v.K == values.KList || v.K == values.KSet) {
			elems = v.E
		}
		if g.r.Chance(22) {
			count("mask.node.index-star")
			var ev *values.Value
			if len(elems) > 0 {
				ev = elems[0]
			}
			return &mnode{star: g.gen(t.Elem, ev, depth-1, count), starKind: 'i'}
		}
		n := &mnode{}
		idx := indexShape(g.r, len(elems))
		shared := g.r.Chance(60)
		var sub *mnode
		for _, i := range idx {
			var ev *values.Value
			if int(i) < len(elems) {
				ev = elems[i]
				count("mask.index.in-range")
			} else {
				count("mask.index.out-of-range")
			}
			if sub == nil || !shared {
				sub = g.gen(t.Elem, ev, depth-1, count)
			}
			n.kids = append(n.kids, &mkid{kind: 'i', id: i, sub: sub})
		}
		count("mask.node.index")
		return n
	case idlgen.RMap:
		kk := keyKind(t.Key)
		var firstVal *values.Value
		if v != nil && v.K == values.KMap && v.NPairs() > 0 {
			firstVal = v.Val(0)
		}
		if kk == 'o' || g.r.Chance(22) {
			if kk == 'o' && g.r.Chance(40) {
				count("mask.node.leaf")
				return leafNode()
			}
			count("mask.node.key-star")
			return &mnode{star: g.gen(t.Elem, firstVal, depth-1, count), starKind: 'm'}
		}
		n := &mnode{}
		shared := g.r.Chance(60)
		var sub *mnode
		add := func(st step, val *values.Value) {
			for _, o := range n.kids {
				if o.kind == st.kind && o.id == st.id && o.s == st.s {
					return
				}
			}
			if sub == nil || !shared {
				sub = g.gen(t.Elem, val, depth-1, count)
			}
			n.kids = append(n.kids, &mkid{kind: st.kind, id: st.id, s: st.s, sub: sub})
		}
		np := 0
		if v != nil && v.K == values.KMap {
			np = v.NPairs()
		}
		want := 1 + g.r.Intn(3)
		for j := 0; j < want; j++ {
			p := 0
			if np > 0 {
				p = g.r.Intn(np)
			}
			// a negative integer key cannot be written in a path (`{-19}` is not an integer literal for the tokenizer)
			if np > 0 && g.r.Chance(70) && !(kk == 'k' && v.Key(p).I < 0) {
				add(keyStep(t.Key, v.Key(p)), v.Val(p))
				count("mask.key.present")
				count("mask.key.present.keytype." + t.Key.String())
			} else {
				if kk == 'k' {
					add(step{kind: 'k', id: int64(g.r.Intn(7))}, nil)
				} else {
					add(step{kind: 's', s: []string{"", "a", "zz", "no such key", "\"q\"", "\x00\xff"}[g.r.Intn(6)]}, nil)
				}
				count("mask.key.random")
			}
		}
		count("mask.node.keys")
		return n
	}
	return leafNode()
}

// genRoot: a mask for the struct sidx guided by the record v. nil = no paths at all.
func (g *maskGen) genRoot(sidx int, v *values.Value, count func(string)) *mnode {
	switch x := g.r.Intn(40); {
	case x == 0:
		count("mask.root.empty")
		return nil
	case x == 1:
		count("mask.root.dollar")
		return leafNode()
	}
	depth := 1 + g.r.Intn(4)
	for try := 0; try < 8; try++ {
		n := g.gen(&idlgen.RType{Kind: idlgen.RStruct, Sidx: sidx}, v, depth, count)
		if !n.leaf {
			return n
		}
	}
	return leafNode()
}

// maskSpec renders the op-line tokens of a mask: `n` | <black> <k> <hexpath>*k
func maskSpec(black bool, n *mnode, isNil bool) string {
	if isNil {
		return "n"
	}
	var ps []string
	if n != nil {
		ps = n.pathsFor(black)
	}
	b := "0"
	if black {
		b = "1"
	}
	toks := []string{b, strconv.Itoa(len(ps))}
	for _, p := range ps {
		toks = append(toks, vl.Hex(p))
	}
	return strings.Join(toks, " ")
}

// describe: human readable form for reports
func describeMask(black bool, n *mnode, isNil bool) string {
	if isNil {
		return "nil mask"
	}
	mode := "white"
	if black {
		mode = "black"
	}
	if n == nil {
		return mode + " []"
	}
	ps := n.pathsFor(black) // in the order they are added: a prefix may follow its extensions
	return fmt.Sprintf("%s %q", mode, ps)
}
