package main

import (
	"fmt"

	"verifharness/internal/idlgen"
	"verifharness/internal/values"
)

// directedProgram is part of every run whatever the seed: every container kind under every requiredness, with directed
// values (lists/sets of length 3 and 5) and directed masks (every subset shape of indices; the documented minimal inputs
// of the findings of docs/C13.md).
func directedProgram() *idlgen.Program {
	ty := func(k idlgen.Kind) *idlgen.Type { return &idlgen.Type{Kind: k} }
	list := func(e *idlgen.Type) *idlgen.Type { return &idlgen.Type{Kind: idlgen.List, Elem: e} }
	set := func(e *idlgen.Type) *idlgen.Type { return &idlgen.Type{Kind: idlgen.Set, Elem: e} }
	mp := func(k, e *idlgen.Type) *idlgen.Type { return &idlgen.Type{Kind: idlgen.Map, Key: k, Elem: e} }
	named := func(n string) *idlgen.Type { return &idlgen.Type{Kind: idlgen.Named, Named: &idlgen.NamedRef{File: 0, Name: n}} }
	fld := func(id int16, req idlgen.Req, t *idlgen.Type, name string) *idlgen.Field {
		return &idlgen.Field{ID: id, HasID: true, Name: name, Req: req, Type: t}
	}
	f := &idlgen.File{Path: "dmask.thrift", GoNS: "dmask"}
	f.Structs = []*idlgen.Struct{
		{Kind: 's', Name: "Item", Fields: []*idlgen.Field{
			fld(1, idlgen.Required, ty(idlgen.I32), "x"),
			fld(2, idlgen.Optional, ty(idlgen.String), "y"),
			fld(3, idlgen.Default, ty(idlgen.I64), "z"),
		}},
		{Kind: 's', Name: "Plain", Fields: []*idlgen.Field{
			fld(1, idlgen.Default, ty(idlgen.I32), "a"),
			fld(2, idlgen.Optional, ty(idlgen.String), "b"),
		}},
		{Kind: 's', Name: "Box", Fields: []*idlgen.Field{
			fld(1, idlgen.Default, list(ty(idlgen.I32)), "l"),
			fld(2, idlgen.Default, set(ty(idlgen.String)), "ss"),
			fld(3, idlgen.Default, mp(ty(idlgen.I32), ty(idlgen.String)), "mi"),
			fld(4, idlgen.Default, mp(ty(idlgen.String), named("Item")), "ms"),
			fld(5, idlgen.Default, list(named("Item")), "li"),
			fld(6, idlgen.Required, list(ty(idlgen.I32)), "rl"),
			fld(7, idlgen.Required, named("Plain"), "rp"),
			fld(8, idlgen.Optional, named("Item"), "oi"),
			fld(9, idlgen.Default, named("Item"), "di"),
			fld(10, idlgen.Required, ty(idlgen.String), "rs"),
			fld(11, idlgen.Optional, ty(idlgen.I32), "on"),
			fld(12, idlgen.Default, mp(ty(idlgen.Double), ty(idlgen.I32)), "md"),
			fld(13, idlgen.Default, ty(idlgen.I32), "n"),
			fld(14, idlgen.Default, named("Plain"), "dp"),
		}},
		// one REQUIRED field per category: under field_mask_zero_required every ZeroWriter case is reached (also through the
		// compact protocol, where WriteBool is not WriteByte)
		{Kind: 's', Name: "Reqs", Fields: []*idlgen.Field{
			fld(1, idlgen.Required, ty(idlgen.Bool), "rb"),
			fld(2, idlgen.Required, ty(idlgen.Byte), "ry"),
			fld(3, idlgen.Required, ty(idlgen.I16), "rh"),
			fld(4, idlgen.Required, ty(idlgen.I32), "ri"),
			fld(5, idlgen.Required, ty(idlgen.I64), "rl"),
			fld(6, idlgen.Required, ty(idlgen.Double), "rd"),
			fld(7, idlgen.Required, ty(idlgen.String), "rs"),
			fld(8, idlgen.Required, ty(idlgen.Binary), "rx"),
			fld(9, idlgen.Required, named("Kind"), "re"),
			fld(10, idlgen.Required, list(ty(idlgen.I32)), "rli"),
			fld(11, idlgen.Required, set(ty(idlgen.String)), "rse"),
			fld(12, idlgen.Required, mp(ty(idlgen.I32), ty(idlgen.String)), "rma"),
			fld(13, idlgen.Required, named("Plain"), "rpl"),
			fld(14, idlgen.Default, ty(idlgen.Bool), "tail"),
		}},
	}
	f.Enums = []*idlgen.Enum{{Name: "Kind", Values: []idlgen.EnumValue{{Name: "KA", Value: 1, HasValue: true}, {Name: "KB", Value: 2, HasValue: true}}}}
	f.Order = []idlgen.DefRef{}
	return &idlgen.Program{Files: []*idlgen.File{f}}
}

// unionProgram: a union-typed field (optional and required). For the library a union is not a struct (switchFt: Invalid), and
// ZeroWriter has no case for it (the zero_required unit of this program is expected to be rejected by thriftgo).
func unionProgram() *idlgen.Program {
	ty := func(k idlgen.Kind) *idlgen.Type { return &idlgen.Type{Kind: k} }
	named := func(n string) *idlgen.Type { return &idlgen.Type{Kind: idlgen.Named, Named: &idlgen.NamedRef{File: 0, Name: n}} }
	fld := func(id int16, req idlgen.Req, t *idlgen.Type, name string) *idlgen.Field {
		return &idlgen.Field{ID: id, HasID: true, Name: name, Req: req, Type: t}
	}
	f := &idlgen.File{Path: "dunion.thrift", GoNS: "dunion"}
	f.Structs = []*idlgen.Struct{
		{Kind: 'u', Name: "Alt", Fields: []*idlgen.Field{
			fld(1, idlgen.Optional, ty(idlgen.I32), "a"),
			fld(2, idlgen.Optional, ty(idlgen.String), "b"),
		}},
		{Kind: 's', Name: "Holder", Fields: []*idlgen.Field{
			fld(1, idlgen.Optional, named("Alt"), "u"),
			fld(2, idlgen.Default, ty(idlgen.I32), "n"),
			fld(3, idlgen.Default, ty(idlgen.String), "s"),
			fld(4, idlgen.Default, &idlgen.Type{Kind: idlgen.List, Elem: named("Alt")}, "lu"),
		}},
	}
	return &idlgen.Program{Files: []*idlgen.File{f}}
}

// typedefReqProgram: `typedef list<i32> L  struct TD {1: required L l, 2: i32 n}`
func typedefReqProgram() *idlgen.Program {
	f := &idlgen.File{Path: "dtypedef.thrift", GoNS: "dtypedef"}
	f.Typedefs = []*idlgen.Typedef{{Name: "L", Type: &idlgen.Type{Kind: idlgen.List, Elem: &idlgen.Type{Kind: idlgen.I32}}}}
	f.Structs = []*idlgen.Struct{{Kind: 's', Name: "TD", Fields: []*idlgen.Field{
		{ID: 1, HasID: true, Name: "l", Req: idlgen.Required, Type: &idlgen.Type{Kind: idlgen.Named, Named: &idlgen.NamedRef{File: 0, Name: "L"}}},
		{ID: 2, HasID: true, Name: "n", Req: idlgen.Default, Type: &idlgen.Type{Kind: idlgen.I32}},
	}}}
	return &idlgen.Program{Files: []*idlgen.File{f}}
}

// wideProgram: the aimed unit for the slot table of the field-mask library (fieldmask/storage.go: ids 0.._MaxFieldIDHead live in an
// array, all others in a map): one field per boundary id, alternately a struct, a string and a list of structs, so that every id is
// selected / rejected directly and one level below.
func wideProgram(ids []int16) *idlgen.Program {
	ty := func(k idlgen.Kind) *idlgen.Type { return &idlgen.Type{Kind: k} }
	named := func(n string) *idlgen.Type { return &idlgen.Type{Kind: idlgen.Named, Named: &idlgen.NamedRef{File: 0, Name: n}} }
	f := &idlgen.File{Path: "dwide.thrift", GoNS: "dwide"}
	wide := &idlgen.Struct{Kind: 's', Name: "Wide"}
	for i, id := range ids {
		name := fmt.Sprintf("f%d", id)
		if id < 0 {
			name = fmt.Sprintf("n%d", -int(id))
		}
		var t *idlgen.Type
		switch i % 3 {
		case 0:
			t = named("Pair")
		case 1:
			t = ty(idlgen.String)
		default:
			t = &idlgen.Type{Kind: idlgen.List, Elem: named("Pair")}
		}
		wide.Fields = append(wide.Fields, &idlgen.Field{ID: id, HasID: true, Name: name, Req: idlgen.Default, Type: t})
	}
	f.Structs = []*idlgen.Struct{
		{Kind: 's', Name: "Pair", Fields: []*idlgen.Field{
			{ID: 1, HasID: true, Name: "a", Req: idlgen.Default, Type: ty(idlgen.String)},
			{ID: 2, HasID: true, Name: "b", Req: idlgen.Optional, Type: ty(idlgen.String)},
		}},
		wide,
	}
	return &idlgen.Program{Files: []*idlgen.File{f}}
}

// wideCases: every field of Wide alone, white and black, by name and (non-negative ids) by id, directly and one level below;
// plus all fields together.
func wideCases(st *idlgen.SStruct) []directedCase {
	pair := func(a, b string) *values.Value { return values.Record(values.Str(a), values.Str(b)) }
	v := &values.Value{K: values.KRecord}
	for _, f := range st.Fields {
		tag := fmt.Sprint(f.ID)
		switch f.Type.Kind {
		case idlgen.RStruct:
			v.E = append(v.E, pair("a"+tag, "b"+tag))
		case idlgen.RList:
			v.E = append(v.E, values.List(pair("x"+tag, "y"+tag), pair("z"+tag, "w"+tag)))
		default:
			v.E = append(v.E, values.Str("s"+tag))
		}
	}
	var out []directedCase
	below := func(t *idlgen.RType, byName bool) *mnode {
		inner := &mnode{kids: []*mkid{fieldKid(1, "a", byName, leafNode())}}
		switch t.Kind {
		case idlgen.RStruct:
			return inner
		case idlgen.RList:
			return idxNode(inner, 0)
		}
		return nil
	}
	for _, black := range []bool{false, true} {
		all := &mnode{}
		for _, f := range st.Fields {
			for _, byName := range []bool{true, false} {
				if !byName && f.ID < 0 {
					continue // `.-1` is read as a name
				}
				out = append(out, directedCase{v, black, &mnode{kids: []*mkid{fieldKid(int64(f.ID), f.Name, byName, leafNode())}}})
				if sub := below(f.Type, byName); sub != nil {
					out = append(out, directedCase{v, black, &mnode{kids: []*mkid{fieldKid(int64(f.ID), f.Name, byName, sub)}}})
				}
			}
			all.kids = append(all.kids, fieldKid(int64(f.ID), f.Name, f.ID < 0, leafNode()))
		}
		out = append(out, directedCase{v, black, all})
	}
	return out
}

// keysProgram: the aimed unit for the key-type dispatch of FieldWriteMap/FieldReadMap (thrift.go IsIntType / IsStrType / other):
// one map per key type — enum, typedef'd enum, typedef'd i32, typedef'd string, byte, i16, i32, i64, string, binary (queried by
// Int(int(k)) resp. Str(string(k))), bool and double (queried by Int(0)) — with string and struct values.
func keysProgram() *idlgen.Program {
	ty := func(k idlgen.Kind) *idlgen.Type { return &idlgen.Type{Kind: k} }
	named := func(n string) *idlgen.Type { return &idlgen.Type{Kind: idlgen.Named, Named: &idlgen.NamedRef{File: 0, Name: n}} }
	mp := func(k, e *idlgen.Type) *idlgen.Type { return &idlgen.Type{Kind: idlgen.Map, Key: k, Elem: e} }
	f := &idlgen.File{Path: "dkeys.thrift", GoNS: "dkeys"}
	f.Enums = []*idlgen.Enum{{Name: "Color", Values: []idlgen.EnumValue{{Name: "RED", Value: 1, HasValue: true}, {Name: "GREEN", Value: 5, HasValue: true}, {Name: "BLUE", Value: 0, HasValue: true}}}}
	f.Typedefs = []*idlgen.Typedef{{Name: "TColor", Type: named("Color")}, {Name: "TInt", Type: ty(idlgen.I32)}, {Name: "TStr", Type: ty(idlgen.String)}}
	keys := []*idlgen.Type{named("Color"), named("TColor"), named("TInt"), named("TStr"), ty(idlgen.Byte), ty(idlgen.I16), ty(idlgen.I32), ty(idlgen.I64),
		ty(idlgen.String), ty(idlgen.Binary), ty(idlgen.Bool), ty(idlgen.Double)}
	st := &idlgen.Struct{Kind: 's', Name: "Keys"}
	for i, k := range keys {
		val := ty(idlgen.String)
		if i%2 == 1 {
			val = named("KV")
		}
		st.Fields = append(st.Fields, &idlgen.Field{ID: int16(i + 1), HasID: true, Name: fmt.Sprintf("m%d", i+1), Req: idlgen.Default, Type: mp(k, val)})
	}
	// the same for a required field and one level below a struct
	st.Fields = append(st.Fields,
		&idlgen.Field{ID: 30, HasID: true, Name: "rc", Req: idlgen.Required, Type: mp(named("Color"), named("KV"))},
		&idlgen.Field{ID: 31, HasID: true, Name: "in", Req: idlgen.Optional, Type: named("Inner")})
	f.Structs = []*idlgen.Struct{
		{Kind: 's', Name: "KV", Fields: []*idlgen.Field{
			{ID: 1, HasID: true, Name: "a", Req: idlgen.Default, Type: ty(idlgen.String)},
			{ID: 2, HasID: true, Name: "b", Req: idlgen.Optional, Type: ty(idlgen.String)}}},
		{Kind: 's', Name: "Inner", Fields: []*idlgen.Field{
			{ID: 1, HasID: true, Name: "ec", Req: idlgen.Default, Type: mp(named("TColor"), ty(idlgen.I32))},
			{ID: 2, HasID: true, Name: "n", Req: idlgen.Default, Type: ty(idlgen.I32)}}},
		st,
	}
	f.Order = []idlgen.DefRef{{Kind: 'e', Idx: 0}, {Kind: 't', Idx: 0}, {Kind: 't', Idx: 1}, {Kind: 't', Idx: 2}, {Kind: 's', Idx: 0}, {Kind: 's', Idx: 1}, {Kind: 's', Idx: 2}}
	return &idlgen.Program{Files: []*idlgen.File{f}}
}

// keysCases: for every map field of Keys, key-specific white and black paths (one present key, a present and an absent key, all
// present keys), `{*}`, the whole map, and one level below (`$.m2{1}.a`, `$.in.ec{5}`); maps whose key is neither integer nor
// string only take `{*}` and whole-map paths.
func keysCases(s *idlgen.Schema, st *idlgen.SStruct) []directedCase {
	kv := func(a, b string) *values.Value { return values.Record(values.Str(a), values.Str(b)) }
	keyVals := func(kt *idlgen.RType) []*values.Value {
		switch kt.Kind {
		case idlgen.REnum:
			return []*values.Value{values.Int(1), values.Int(5), values.Int(0)}
		case idlgen.RByte, idlgen.RI16, idlgen.RI32, idlgen.RI64:
			return []*values.Value{values.Int(0), values.Int(5), values.Int(7)}
		case idlgen.RString:
			return []*values.Value{values.Str("k"), values.Str("l"), values.Str("")}
		case idlgen.RBinary:
			return []*values.Value{values.Bytes([]byte("k")), values.Bytes([]byte{0, 255}), values.Bytes([]byte("zz"))}
		case idlgen.RBool:
			return []*values.Value{values.Bool(false), values.Bool(true)}
		case idlgen.RDouble:
			return []*values.Value{values.Double(0x3ff0000000000000), values.Double(0x4000000000000000)}
		}
		return nil
	}
	mapVal := func(t *idlgen.RType) *values.Value {
		m := values.Map()
		for i, k := range keyVals(t.Key) {
			var e *values.Value
			switch t.Elem.Kind {
			case idlgen.RStruct:
				e = kv(fmt.Sprintf("a%d", i), fmt.Sprintf("b%d", i))
			case idlgen.RI32:
				e = values.Int(int64(100 + i))
			default:
				e = values.Str(fmt.Sprintf("v%d", i))
			}
			m.E = append(m.E, k, e)
		}
		return m
	}
	v := &values.Value{K: values.KRecord}
	for _, f := range st.Fields {
		if f.Type.Kind == idlgen.RMap {
			v.E = append(v.E, mapVal(f.Type))
		} else {
			in := s.Structs[f.Type.Sidx]
			v.E = append(v.E, values.Record(mapVal(in.Fields[0].Type), values.Int(3)))
		}
	}
	keyNode := func(kt *idlgen.RType, sub *mnode, ks ...*values.Value) *mnode {
		n := &mnode{}
		for _, k := range ks {
			st := keyStep(kt, k)
			n.kids = append(n.kids, &mkid{kind: st.kind, id: st.id, s: st.s, sub: sub})
		}
		return n
	}
	absent := func(kt *idlgen.RType) *values.Value {
		if keyKind(kt) == 's' {
			return values.Str("no such key")
		}
		return values.Int(3)
	}
	var out []directedCase
	root := func(f *idlgen.SField, byName bool, sub *mnode) *mnode {
		return &mnode{kids: []*mkid{fieldKid(int64(f.ID), f.Name, byName, sub)}}
	}
	for _, black := range []bool{false, true} {
		for i, f := range st.Fields {
			byName := i%2 == 0
			if f.Type.Kind != idlgen.RMap {
				in := s.Structs[f.Type.Sidx]
				ec := in.Fields[0]
				ks := keyVals(ec.Type.Key)
				out = append(out,
					directedCase{v, black, root(f, byName, &mnode{kids: []*mkid{fieldKid(int64(ec.ID), ec.Name, true, keyNode(ec.Type.Key, leafNode(), ks[1]))}})},
					directedCase{v, black, root(f, byName, &mnode{kids: []*mkid{fieldKid(int64(ec.ID), ec.Name, false, keyNode(ec.Type.Key, leafNode(), ks[0], ks[2]))}})})
				continue
			}
			kt := f.Type.Key
			ks := keyVals(kt)
			out = append(out,
				directedCase{v, black, root(f, byName, leafNode())},
				directedCase{v, black, root(f, byName, &mnode{star: leafNode(), starKind: 'm'})})
			if f.Type.Elem.Kind == idlgen.RStruct {
				out = append(out, directedCase{v, black, root(f, byName, &mnode{star: &mnode{kids: []*mkid{fieldKid(1, "a", true, leafNode())}}, starKind: 'm'})})
			}
			if keyKind(kt) == 'o' {
				continue
			}
			out = append(out,
				directedCase{v, black, root(f, byName, keyNode(kt, leafNode(), ks[0]))},
				directedCase{v, black, root(f, byName, keyNode(kt, leafNode(), ks[1], absent(kt)))},
				directedCase{v, black, root(f, byName, keyNode(kt, leafNode(), ks[2], ks[0]))},
				directedCase{v, black, root(f, byName, keyNode(kt, leafNode(), absent(kt)))},
				directedCase{v, black, root(f, byName, keyNode(kt, leafNode(), ks...))})
			if f.Type.Elem.Kind == idlgen.RStruct {
				out = append(out,
					directedCase{v, black, root(f, byName, keyNode(kt, &mnode{kids: []*mkid{fieldKid(1, "a", true, leafNode())}}, ks[1]))},
					directedCase{v, black, root(f, byName, keyNode(kt, &mnode{kids: []*mkid{fieldKid(2, "b", false, leafNode())}}, ks[0], ks[2]))})
			}
		}
	}
	return out
}

type directedCase struct {
	v     *values.Value
	black bool
	tree  *mnode
}

func item(x int64, y string, z int64) *values.Value {
	yv := values.Nil()
	if y != "" {
		yv = values.Str(y)
	}
	return values.Record(values.Int(x), yv, values.Int(z))
}

func boxValue(n int) *values.Value {
	l := values.List()
	ss := values.Set()
	li := values.List()
	rl := values.List()
	mi := values.Map()
	ms := values.Map()
	for i := 0; i < n; i++ {
		l.E = append(l.E, values.Int(int64(10+i)))
		ss.E = append(ss.E, values.Str(string(rune('a'+i))))
		li.E = append(li.E, item(int64(i), "y", int64(100+i)))
		rl.E = append(rl.E, values.Int(int64(20+i)))
		mi.E = append(mi.E, values.Int(int64(i)), values.Str("v"))
		ms.E = append(ms.E, values.Str(string(rune('k'+i))), item(int64(i), "", 7))
	}
	md := values.Map(values.Double(0x3ff0000000000000), values.Int(1), values.Double(0x4000000000000000), values.Int(2))
	plain := func(a int64, b string) *values.Value { return values.Record(values.Int(a), values.Str(b)) }
	return values.Record(l, ss, mi, ms, li, rl, plain(1, "rp"), item(3, "oi", 4), item(5, "di", 6), values.Str("rs"), values.Int(9), md, values.Int(13), plain(2, "dp"))
}

func fieldKid(id int64, name string, byName bool, sub *mnode) *mkid {
	return &mkid{kind: 'f', id: id, name: name, byName: byName, sub: sub}
}

// after: the complete path ends here and is written after the deeper paths of sh
func after(sh *mnode) *mnode { return &mnode{leaf: true, shadow: sh} }

func idxNode(sub *mnode, idx ...int64) *mnode {
	n := &mnode{}
	for _, i := range idx {
		n.kids = append(n.kids, &mkid{kind: 'i', id: i, sub: sub})
	}
	return n
}

// directedCases for the struct sidx of the directed program (only Box has cases).
func directedCases(s *idlgen.Schema, sidx int) []directedCase {
	var out []directedCase
	root := func(kids ...*mkid) *mnode { return &mnode{kids: kids} }
	if s.Structs[sidx].Name == "Holder" {
		v := values.Record(values.Record(values.Int(7), values.Nil()), values.Int(1), values.Str("s"), values.List(values.Record(values.Int(8), values.Nil())))
		for _, black := range []bool{false, true} {
			out = append(out,
				directedCase{v, black, root(fieldKid(1, "u", true, leafNode()))},
				directedCase{v, black, root(fieldKid(2, "n", true, leafNode()))},
				directedCase{v, black, root(fieldKid(1, "u", false, leafNode()), fieldKid(3, "s", true, leafNode()))},
				directedCase{v, black, root(fieldKid(4, "lu", true, idxNode(leafNode(), 0)))},
				directedCase{v, black, root(fieldKid(4, "lu", true, leafNode()))},
				directedCase{v, black, nil})
		}
		return out
	}
	if s.Structs[sidx].Name == "Reqs" {
		st := s.Structs[sidx]
		v := values.Record(values.Bool(true), values.Int(3), values.Int(4), values.Int(5), values.Int(6), values.Double(0x3ff8000000000000), values.Str("s"),
			values.Bytes([]byte("x")), values.Int(2), values.List(values.Int(1), values.Int(2)), values.Set(values.Str("a")), values.Map(values.Int(1), values.Str("v")),
			values.Record(values.Int(9), values.Str("b")), values.Bool(true))
		for _, black := range []bool{false, true} {
			out = append(out, directedCase{v, black, nil}, directedCase{v, black, leafNode()})
			all := &mnode{}
			for i, f := range st.Fields {
				out = append(out, directedCase{v, black, root(fieldKid(int64(f.ID), f.Name, i%2 == 0, leafNode()))})
				if i%2 == 0 {
					all.kids = append(all.kids, fieldKid(int64(f.ID), f.Name, true, leafNode()))
				}
			}
			out = append(out, directedCase{v, black, all})
		}
		return out
	}
	if s.Structs[sidx].Name == "Keys" {
		return keysCases(s, s.Structs[sidx])
	}
	if s.Structs[sidx].Name == "Wide" {
		return wideCases(s.Structs[sidx])
	}
	if s.Structs[sidx].Name != "Box" {
		return nil
	}
	shapes := func(n int64) [][]int64 {
		return [][]int64{{0}, {n / 2}, {n - 1}, {0, 1}, {n - 2, n - 1}, {0, 2, 4}, {1, 3}, {0, n - 1}, {n}, {0, n + 5}, {0, 1, 2, 3, 4}}
	}
	for _, n := range []int{3, 5} {
		v := boxValue(n)
		for _, black := range []bool{false, true} {
			for _, sh := range shapes(int64(n)) {
				// the same index set on every list/set field, each alone (so that a finding names ONE field)
				out = append(out,
					directedCase{v, black, root(fieldKid(1, "l", true, idxNode(leafNode(), sh...)))},
					directedCase{v, black, root(fieldKid(2, "ss", false, idxNode(leafNode(), sh...)))},
					directedCase{v, black, root(fieldKid(5, "li", true, idxNode(leafNode(), sh...)))},
					directedCase{v, black, root(fieldKid(6, "rl", true, idxNode(leafNode(), sh...)))},
					directedCase{v, black, root(fieldKid(5, "li", false, idxNode(&mnode{kids: []*mkid{fieldKid(3, "z", true, leafNode())}}, sh...)))},
				)
			}
			star := func(k byte, sub *mnode) *mnode { return &mnode{star: sub, starKind: k} }
			keys := func(kind byte, sub *mnode, ids []int64, strs []string) *mnode {
				m := &mnode{}
				for _, i := range ids {
					m.kids = append(m.kids, &mkid{kind: kind, id: i, sub: sub})
				}
				for _, x := range strs {
					m.kids = append(m.kids, &mkid{kind: kind, s: x, sub: sub})
				}
				return m
			}
			out = append(out,
				directedCase{v, black, nil},        // no paths
				directedCase{v, black, leafNode()}, // $
				directedCase{v, black, star('f', leafNode())},
				directedCase{v, black, root(fieldKid(1, "l", true, leafNode()))},
				directedCase{v, black, root(fieldKid(1, "l", true, star('i', leafNode())))},
				directedCase{v, black, root(fieldKid(13, "n", true, leafNode()))},
				directedCase{v, black, root(fieldKid(3, "mi", true, keys('k', leafNode(), []int64{0, 2, 99}, nil)))},
				directedCase{v, black, root(fieldKid(3, "mi", true, star('m', leafNode())))},
				directedCase{v, black, root(fieldKid(4, "ms", true, keys('s', leafNode(), nil, []string{"k", "nokey"})))},
				directedCase{v, black, root(fieldKid(4, "ms", false, keys('s', &mnode{kids: []*mkid{fieldKid(1, "x", true, leafNode())}}, nil, []string{"k", "l"})))},
				directedCase{v, black, root(fieldKid(4, "ms", true, star('m', &mnode{kids: []*mkid{fieldKid(3, "z", false, leafNode())}})))},
				directedCase{v, black, root(fieldKid(12, "md", true, leafNode()))},
				directedCase{v, black, root(fieldKid(12, "md", true, star('m', leafNode())))},
				directedCase{v, black, root(fieldKid(6, "rl", true, leafNode()))},
				directedCase{v, black, root(fieldKid(7, "rp", true, leafNode()))},
				directedCase{v, black, root(fieldKid(7, "rp", true, &mnode{kids: []*mkid{fieldKid(2, "b", true, leafNode())}}))},
				directedCase{v, black, root(fieldKid(14, "dp", true, &mnode{kids: []*mkid{fieldKid(1, "a", true, leafNode())}}))},
				directedCase{v, black, root(fieldKid(8, "oi", true, &mnode{kids: []*mkid{fieldKid(2, "y", true, leafNode())}}))},
				directedCase{v, black, root(fieldKid(9, "di", true, star('f', leafNode())))},
				directedCase{v, black, root(fieldKid(10, "rs", true, leafNode()), fieldKid(11, "on", false, leafNode()))},
				// a complete path written AFTER deeper paths through the same node: `$.dp.a` then `$.dp`, `$.l[0]` then `$.l`,
				// `$.li[*].z` then `$.li[*]`, `$.ms{"k"}.x` then `$.ms{"k"}`, `$.oi.y` then `$.oi`, `$.mi{0}` then `$.mi`
				directedCase{v, black, root(fieldKid(14, "dp", true, after(&mnode{kids: []*mkid{fieldKid(1, "a", true, leafNode())}})))},
				directedCase{v, black, root(fieldKid(1, "l", true, after(idxNode(leafNode(), 0))))},
				directedCase{v, black, root(fieldKid(5, "li", true, star('i', after(&mnode{kids: []*mkid{fieldKid(3, "z", true, leafNode())}}))))},
				directedCase{v, black, root(fieldKid(4, "ms", true, keys('s', after(&mnode{kids: []*mkid{fieldKid(1, "x", true, leafNode())}}), nil, []string{"k"})))},
				// … and a prefix written after a deeper path through `*` right below it: `$.li[*].z` then `$.li`, `$.ms{*}.x` then `$.ms`
				directedCase{v, black, root(fieldKid(5, "li", true, after(star('i', &mnode{kids: []*mkid{fieldKid(3, "z", true, leafNode())}}))))},
				directedCase{v, black, root(fieldKid(4, "ms", true, after(star('m', &mnode{kids: []*mkid{fieldKid(1, "x", true, leafNode())}}))))},
				directedCase{v, black, root(fieldKid(8, "oi", true, after(&mnode{kids: []*mkid{fieldKid(2, "y", true, leafNode())}})))},
				directedCase{v, black, root(fieldKid(3, "mi", true, after(keys('k', leafNode(), []int64{0}, nil))), fieldKid(13, "n", true, leafNode()))},
			)
		}
	}
	return out
}
