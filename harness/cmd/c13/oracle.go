package main

// The specification `restrict`, evaluated in Go from the PATH SET (the abstract tree of masks.go): what a strict reader
// must find in the bytes a masked Write produced (restrictW), and what a masked Read must leave in the object (restrictR).
// Both work on normal forms (refcodec.Normal: what the reference decoder makes of the reference encoding).

import (
	"verifharness/internal/idlgen"
	"verifharness/internal/refcodec"
	"verifharness/internal/values"
)

type ropts struct {
	halfway bool
	zeroReq bool
}

// envMask: a mask set on the struct in field position pos of the root before the root's Write
type envMask struct {
	pos   int
	black bool
	tree  *mnode
}

type restrictor struct {
	s    *idlgen.Schema
	o    ropts
	undc bool // an expected zero value is a struct with required members: no strict reader accepts it (oracle skipped)
}

// decodedZero: what a reader finds where ZeroWriter wrote the zero value of t
func (x *restrictor) decodedZero(t *idlgen.RType) *values.Value {
	switch t.Kind {
	case idlgen.RBinary:
		return values.Bytes(nil)
	case idlgen.RList:
		return values.List()
	case idlgen.RSet:
		return values.Set()
	case idlgen.RMap:
		return values.Map()
	case idlgen.RStruct:
		st := x.s.Structs[t.Sidx]
		if st.HasRequired() {
			x.undc = true
		}
		return st.Initial()
	}
	return idlgen.ZeroOf(t)
}

// unknownOV stands for "the original value next to this normal form could not be located" (a map entry whose key has another normal
// form): the normal form is used in its place.
var unknownOV = &values.Value{K: '?'}

func subOV(ov *values.Value, i int) *values.Value {
	if ov == unknownOV {
		return unknownOV
	}
	if ov.IsNil() || i >= len(ov.E) {
		return nil
	}
	return ov.E[i]
}

// fieldSet: is optional field i of the original record set (so that it is on the wire)?
func fieldSet(f *idlgen.SField, ov, nv *values.Value, i int) bool {
	if ov == unknownOV {
		return refcodec.IsSet(f, nv.E[i])
	}
	return !ov.IsNil() && i < len(ov.E) && refcodec.IsSet(f, ov.E[i])
}

// restrictW: expected decoded value of a slot of type t holding (normal form) nv, written under state st.
// env applies to the fields of THIS struct only (root).
func (x *restrictor) restrictW(st sel, t *idlgen.RType, ov, nv *values.Value, env []envMask) *values.Value {
	if nv.IsNil() || t.IsBase() {
		return nv
	}
	sub1 := func(i int) *values.Value { return subOV(ov, i) }
	switch t.Kind {
	case idlgen.RStruct:
		if ov != unknownOV && ov.IsNil() {
			return nv // a nil struct pointer is written as the empty struct: nothing on the wire the mask could filter
		}
		sd := x.s.Structs[t.Sidx]
		out := &values.Value{K: values.KRecord, E: make([]*values.Value, len(sd.Fields))}
		for i, f := range sd.Fields {
			sub, keep := st.child(step{kind: 'f', id: int64(f.ID)})
			var own *envMask
			if x.o.halfway && f.Type.Kind == idlgen.RStruct {
				for k := range env {
					if env[k].pos == i {
						own = &env[k]
					}
				}
			}
			switch {
			case f.Req == idlgen.Optional && !fieldSet(f, ov, nv, i):
				out.E[i] = nv.E[i] // not set: not on the wire whatever the mask says (the reader's initial value)
			case keep || (f.Req == idlgen.Required && !x.o.zeroReq):
				if !keep {
					sub = sel{all: true} // a filtered required field is written with its current value
				}
				if own != nil {
					// field_mask_halfway: the child's own mask is kept (also one built from NO path: a non-nil mask that passes everything)
					sub = rootSel(own.black, own.tree)
				}
				out.E[i] = x.restrictW(sub, f.Type, sub1(i), nv.E[i], nil)
			case f.Req == idlgen.Required: // zero_required
				out.E[i] = x.decodedZero(f.Type)
			default:
				out.E[i] = f.Initial() // absent on the wire
			}
		}
		return out
	case idlgen.RList, idlgen.RSet:
		out := &values.Value{K: nv.K}
		for i, e := range nv.E {
			if sub, keep := st.child(step{kind: 'i', id: int64(i)}); keep {
				out.E = append(out.E, x.restrictW(sub, t.Elem, sub1(i), e, nil))
			}
		}
		return out
	case idlgen.RMap:
		out := &values.Value{K: values.KMap}
		for p := 0; p < nv.NPairs(); p++ {
			if sub, keep := st.child(keyStep(t.Key, nv.Key(p))); keep {
				out.E = append(out.E, nv.Key(p), x.restrictW(sub, t.Elem, x.origVal(t, ov, nv.Key(p)), nv.Val(p), nil))
			}
		}
		return out
	}
	return nv
}

// origVal: the original value stored under the (normal form) key k of the original map ov
func (x *restrictor) origVal(t *idlgen.RType, ov, k *values.Value) *values.Value {
	if ov == unknownOV || ov.IsNil() || ov.K != values.KMap {
		return unknownOV
	}
	for p := 0; p < ov.NPairs(); p++ {
		if values.EqualCanon(ov.Key(p), k) {
			return ov.Val(p)
		}
	}
	if t.Key.Kind == idlgen.RStruct || t.Key.Kind == idlgen.RBinary {
		// keys whose normal form differs from the original (nil struct / nil bytes): positional fallback is not possible
		// for an unordered map; only single-entry maps are matched
		if ov.NPairs() == 1 {
			return ov.Val(0)
		}
	}
	return unknownOV
}

// restrictR: expected object after a masked Read of the reference encoding of nv (unselected parts skipped:
// a skipped field keeps its initial value, a skipped element is not stored; required fields are not special).
func (x *restrictor) restrictR(st sel, t *idlgen.RType, ov, nv *values.Value) *values.Value {
	if nv.IsNil() || t.IsBase() {
		return nv
	}
	sub1 := func(i int) *values.Value { return subOV(ov, i) }
	switch t.Kind {
	case idlgen.RStruct:
		if ov != unknownOV && ov.IsNil() {
			return nv // the reference encoding of a nil struct pointer is the empty struct
		}
		sd := x.s.Structs[t.Sidx]
		out := &values.Value{K: values.KRecord, E: make([]*values.Value, len(sd.Fields))}
		for i, f := range sd.Fields {
			if f.Req == idlgen.Optional && !fieldSet(f, ov, nv, i) {
				out.E[i] = nv.E[i] // not on the wire
			} else if sub, keep := st.child(step{kind: 'f', id: int64(f.ID)}); keep {
				out.E[i] = x.restrictR(sub, f.Type, sub1(i), nv.E[i])
			} else {
				out.E[i] = f.Initial()
			}
		}
		return out
	case idlgen.RList, idlgen.RSet:
		out := &values.Value{K: nv.K}
		for i, e := range nv.E {
			if sub, keep := st.child(step{kind: 'i', id: int64(i)}); keep {
				out.E = append(out.E, x.restrictR(sub, t.Elem, sub1(i), e))
			}
		}
		return out
	case idlgen.RMap:
		out := &values.Value{K: values.KMap}
		for p := 0; p < nv.NPairs(); p++ {
			if sub, keep := st.child(keyStep(t.Key, nv.Key(p))); keep {
				out.E = append(out.E, nv.Key(p), x.restrictR(sub, t.Elem, x.origVal(t, ov, nv.Key(p)), nv.Val(p)))
			}
		}
		return out
	}
	return nv
}

// ---------------------------------------------------------------- classification of a failure (stable keys)

// blackAllContainer: does the input contain a NON-EMPTY container that is written under a black-list mask node on which
// `All()` answers true (announced count = len) while every `Int(i)`/`Str(k)` answers false (nothing written)? That is a node
// ending a complete path: reached through a filtered REQUIRED field of container type (`fm, _ := Field(id)` keeps the sub-mask),
// or a path ending in `[*]` / `{*}`.
func (x *restrictor) blackAllContainer(st sel, t *idlgen.RType, nv *values.Value) bool {
	if nv.IsNil() || t.IsBase() || st.all || !st.black {
		return false
	}
	if t.IsContainer() && st.n != nil && st.n.star != nil && st.n.star.leaf && len(nv.E) > 0 {
		return true
	}
	switch t.Kind {
	case idlgen.RStruct:
		sd := x.s.Structs[t.Sidx]
		for i, f := range sd.Fields {
			sub, keep := st.child(step{kind: 'f', id: int64(f.ID)})
			if !keep {
				if f.Req == idlgen.Required && !x.o.zeroReq && f.Type.IsContainer() && !nv.E[i].IsNil() && len(nv.E[i].E) > 0 {
					return true
				}
				continue
			}
			if x.blackAllContainer(sub, f.Type, nv.E[i]) {
				return true
			}
		}
	case idlgen.RList, idlgen.RSet:
		for i, e := range nv.E {
			if sub, keep := st.child(step{kind: 'i', id: int64(i)}); keep && x.blackAllContainer(sub, t.Elem, e) {
				return true
			}
		}
	case idlgen.RMap:
		for p := 0; p < nv.NPairs(); p++ {
			if sub, keep := st.child(keyStep(t.Key, nv.Key(p))); keep && x.blackAllContainer(sub, t.Elem, nv.Val(p)) {
				return true
			}
		}
	}
	return false
}

// zeroStructNonRequired: under field_mask_zero_required, is some filtered NON-required field of a struct type with required
// members written (as an empty struct, which no strict reader accepts)?
func (x *restrictor) zeroStructNonRequired(st sel, t *idlgen.RType, nv *values.Value) bool {
	if nv.IsNil() || t.IsBase() || st.all || !x.o.zeroReq {
		return false
	}
	switch t.Kind {
	case idlgen.RStruct:
		sd := x.s.Structs[t.Sidx]
		for i, f := range sd.Fields {
			sub, keep := st.child(step{kind: 'f', id: int64(f.ID)})
			if !keep {
				if f.Req != idlgen.Required && f.Type.Kind == idlgen.RStruct && x.s.Structs[f.Type.Sidx].HasRequired() &&
					(f.Req != idlgen.Optional || !nv.E[i].IsNil()) {
					return true
				}
				continue
			}
			if x.zeroStructNonRequired(sub, f.Type, nv.E[i]) {
				return true
			}
		}
	case idlgen.RList, idlgen.RSet:
		for i, e := range nv.E {
			if sub, keep := st.child(step{kind: 'i', id: int64(i)}); keep && x.zeroStructNonRequired(sub, t.Elem, e) {
				return true
			}
		}
	case idlgen.RMap:
		for p := 0; p < nv.NPairs(); p++ {
			if sub, keep := st.child(keyStep(t.Key, nv.Key(p))); keep && x.zeroStructNonRequired(sub, t.Elem, nv.Val(p)) {
				return true
			}
		}
	}
	return false
}

// zeroUnionRequired: under field_mask_zero_required, is a REQUIRED field of union/exception type with required members named by a
// white-list path? The library cannot select it (union-field-white-unselectable), so the zero value `{}` is written for it, which no
// strict reader accepts.
func (x *restrictor) zeroUnionRequired(st sel, t *idlgen.RType, nv *values.Value) bool {
	if nv.IsNil() || t.IsBase() || st.all || st.black || !x.o.zeroReq {
		return false
	}
	switch t.Kind {
	case idlgen.RStruct:
		sd := x.s.Structs[t.Sidx]
		if sd.Kind != 's' || nv.K != values.KRecord {
			return false
		}
		for i, f := range sd.Fields {
			sub, keep := st.child(step{kind: 'f', id: int64(f.ID)})
			if !keep {
				continue
			}
			if f.Type.Kind == idlgen.RStruct && x.s.Structs[f.Type.Sidx].Kind != 's' {
				if f.Req == idlgen.Required && x.s.Structs[f.Type.Sidx].HasRequired() {
					return true
				}
				continue
			}
			if x.zeroUnionRequired(sub, f.Type, nv.E[i]) {
				return true
			}
		}
	case idlgen.RList, idlgen.RSet:
		for i, e := range nv.E {
			if sub, keep := st.child(step{kind: 'i', id: int64(i)}); keep && x.zeroUnionRequired(sub, t.Elem, e) {
				return true
			}
		}
	case idlgen.RMap:
		for p := 0; p < nv.NPairs(); p++ {
			if sub, keep := st.child(keyStep(t.Key, nv.Key(p))); keep && x.zeroUnionRequired(sub, t.Elem, nv.Val(p)) {
				return true
			}
		}
	}
	return false
}

// entersUnionElems: does some path of the tree step into a list/set/map whose ELEMENT type is a union or exception? The library
// refuses such a path ("unspported type for fieldmask": switchFt gives Invalid for unions and exceptions).
func entersUnionElems(s *idlgen.Schema, t *idlgen.RType, n *mnode) bool {
	if n != nil && n.leaf && n.shadow != nil {
		return entersUnionElems(s, t, n.shadow)
	}
	if n == nil || n.leaf {
		return false
	}
	switch t.Kind {
	case idlgen.RStruct:
		st := s.Structs[t.Sidx]
		for _, k := range n.kids {
			if i := st.FieldByID(int16(k.id)); i >= 0 && entersUnionElems(s, st.Fields[i].Type, k.sub) {
				return true
			}
		}
	case idlgen.RList, idlgen.RSet, idlgen.RMap:
		if t.Elem.Kind == idlgen.RStruct && s.Structs[t.Elem.Sidx].Kind != 's' {
			return true
		}
		if n.star != nil && entersUnionElems(s, t.Elem, n.star) {
			return true
		}
		for _, k := range n.kids {
			if entersUnionElems(s, t.Elem, k.sub) {
				return true
			}
		}
	}
	return false
}

// explain walks expected and observed values in parallel and names the first difference by its cause.
func (x *restrictor) explain(st sel, t *idlgen.RType, nv, exp, got *values.Value, write bool, env []envMask) string {
	if values.EqualCanon(exp, got) {
		return ""
	}
	if t.Kind != idlgen.RStruct || exp.IsNil() || got.IsNil() || exp.K != values.KRecord || got.K != values.KRecord {
		switch t.Kind {
		case idlgen.RList, idlgen.RSet:
			if !exp.IsNil() && !got.IsNil() && len(exp.E) == len(got.E) {
				j := 0
				for i, e := range nv.E {
					if sub, keep := st.child(step{kind: 'i', id: int64(i)}); keep {
						if r := x.explain(sub, t.Elem, e, exp.E[j], got.E[j], write, nil); r != "" {
							return r
						}
						j++
					}
				}
			}
			return "container-selection"
		case idlgen.RMap:
			if !exp.IsNil() && !got.IsNil() && len(exp.E) == len(got.E) {
				se, sg := values.SortMaps(exp), values.SortMaps(got)
				for p := 0; p < se.NPairs(); p++ {
					if !values.EqualCanon(se.Key(p), sg.Key(p)) {
						return "container-selection"
					}
					var orig *values.Value
					for q := 0; q < nv.NPairs(); q++ {
						if values.EqualCanon(nv.Key(q), se.Key(p)) {
							orig = nv.Val(q)
						}
					}
					sub, _ := st.child(keyStep(t.Key, se.Key(p)))
					if orig != nil {
						if r := x.explain(sub, t.Elem, orig, se.Val(p), sg.Val(p), write, nil); r != "" {
							return r
						}
					}
				}
			}
			return "container-selection"
		}
		return "value"
	}
	sd := x.s.Structs[t.Sidx]
	for i, f := range sd.Fields {
		if values.EqualCanon(exp.E[i], got.E[i]) {
			continue
		}
		sub, keep := st.child(step{kind: 'f', id: int64(f.ID)})
		isUnion := f.Type.Kind == idlgen.RStruct && x.s.Structs[f.Type.Sidx].Kind != 's'
		if x.o.halfway && f.Type.Kind == idlgen.RStruct && (keep || f.Req == idlgen.Required) {
			for k := range env {
				if env[k].pos == i {
					// the child's own mask is the one in force
					if r := x.explain(rootSel(env[k].black, env[k].tree), f.Type, nv.E[i], exp.E[i], got.E[i], write, nil); r != "" {
						return r
					}
					return "field"
				}
			}
		}
		switch {
		case isUnion && !st.black && keep && sub.all: // absent, or (zero_required) replaced by the zero value
			return "union-field-white-unselectable"
		case isUnion && st.black && !keep:
			return "union-field-black-unfilterable"
		case write && !keep && f.Req != idlgen.Required && x.o.zeroReq:
			z := (&restrictor{s: x.s, o: x.o}).decodedZero(f.Type)
			if values.EqualCanon(got.E[i], z) {
				return "zero-required-writes-nonrequired"
			}
			return "filtered-field-present"
		case write && !keep && f.Req == idlgen.Required && !x.o.zeroReq && st.black:
			return "required-black-submask-applied"
		case !keep:
			return "filtered-field-present"
		case keep:
			if r := x.explain(sub, f.Type, nv.E[i], exp.E[i], got.E[i], write, nil); r != "" {
				if r == "value" && values.EqualCanon(got.E[i], f.Initial()) {
					return "selected-field-absent"
				}
				return r
			}
		}
		return "field"
	}
	return "record"
}
