package main

import (
	"bytes"
	"context"
	"encoding/base64"
	"encoding/json"
	"fmt"
	"os"
	"os/exec"
	"path/filepath"
	"sort"
	"strings"
	"syscall"
	"time"

	"github.com/cloudwego/thriftgo/plugin"
	"github.com/cloudwego/thriftgo/version"

	"verifharness/c11lib"
	"verifharness/internal/vl"
)

// Process level ("runtime-observed"): the thriftgo binary built from the repository runs the recording
// plugin (cmd/c11plugin); what is observed is the exit status, stderr, the output tree, what the plugin
// recorded about the request it decoded, and whether the plugin process is gone.

type pFile struct {
	Name    *string `json:"name"`
	Point   *string `json:"point"`
	Content string  `json:"content"`
}

type pScript struct {
	Files    []pFile  `json:"files"`
	Warnings []string `json:"warnings"`
	Error    *string  `json:"error"`
	Stderr   string   `json:"stderr"`
	Exit     int      `json:"exit"`
	Mode     string   `json:"mode"`
	Raw      string   `json:"raw"`
	SleepMs  int      `json:"sleepMs"`
	Keep     int      `json:"keep"`
	Sigint   string   `json:"sigint"`
}

type pPlugin struct {
	Variant string      `json:"variant"` // thriftgo version the plugin binary's build info records ("" = the plain harness build, v0.0.0)
	NoID    bool        `json:"noId"`    // no id=<k> option: with empty Opts the plugin is started without any option
	ID      string      `json:"id"`
	Opts    [][2]string `json:"opts"` // key, value; value "\x00" = bare key
	Script  pScript     `json:"script"`
}

type scenario struct {
	Label     string            `json:"label"`
	Files     map[string]string `json:"files"`
	Main      string            `json:"main"`
	Gen       []string          `json:"gen"` // -g arguments
	Recursive bool              `json:"recursive"`
	LimitMs   int               `json:"limitMs"`  // -1: flag not given
	Compress  bool              `json:"compress"` // THRIFTGO_PLUGIN_COMPRESS_INCLUDE=1 in thriftgo's environment
	Merged    bool              `json:"merged"`   // plugins patch each other's files: the output is compared as one Feed history
	OwnFile   bool              `json:"ownFile"`  // plugins emit equal file names: files are told apart by the marker FILE-OF-<id>
	Plugins   []pPlugin         `json:"plugins"`
}

type pRecord struct {
	Pid     int      `json:"pid"`
	Params  []string `json:"params"`
	VL      string   `json:"vl"`
	Err     string   `json:"err"`
	ReqLen  int      `json:"reqLen"`
	Trailer bool     `json:"trailer"`
}

func sp(s string) *string { return &s }

// optString: the text after the ':' of the -p argument; nil = no ':' at all (a plugin without options)
func (p *pPlugin) optString() *string {
	var opts []string
	if !p.NoID {
		opts = append(opts, "id="+p.ID)
	}
	for _, kv := range p.Opts {
		if kv[1] == "\x00" {
			opts = append(opts, kv[0])
		} else {
			opts = append(opts, kv[0]+"="+kv[1])
		}
	}
	if len(opts) == 0 {
		return nil
	}
	s := strings.Join(opts, ",")
	return &s
}

// wantParams: what the request of this plugin's execution must carry, from the command line alone
func (p *pPlugin) wantParams() []string {
	params := []string{}
	if !p.NoID {
		params = append(params, "id="+p.ID)
	}
	for _, kv := range p.Opts {
		if kv[1] == "\x00" {
			params = append(params, kv[0]+"=")
		} else {
			params = append(params, kv[0]+"="+kv[1])
		}
	}
	return params
}

const marker = "@@thriftgo_insertion_point(%s)"

var diamond = map[string]string{
	"main.thrift":  "include \"a.thrift\"\ninclude \"b.thrift\"\nnamespace go c11.main\nstruct M { 1: a.A x, 2: b.B y }\nservice Svc { a.A get(1: b.B q) }\n",
	"a.thrift":     "include \"sub/c.thrift\"\nnamespace go c11.a\nstruct A { 1: c.C c, 2: list<i32> l = [1, 2] }\n",
	"b.thrift":     "include \"sub/c.thrift\"\nnamespace go c11.b\nstruct B { 1: optional c.C c, 2: c.E e = c.E.X }\n",
	"sub/c.thrift": "namespace go c11.c\nenum E { X = 1, Y }\nstruct C { 1: string s (k = \"v\") }\nconst i32 K = 5\n",
}

// a chain without sharing: main -> a -> sub/c
var treeProg = map[string]string{
	"main.thrift":  "include \"a.thrift\"\nnamespace go c11.main\nstruct M { 1: a.A x }\n",
	"a.thrift":     diamond["a.thrift"],
	"sub/c.thrift": diamond["sub/c.thrift"],
}

// classification of a script, by the harness' own reading of what the plugin will do (the response bytes
// are built and decoded in-process with the repository's codec to decide "decodable")
type pClass struct {
	run      string // x<code> | kill
	decoded  bool
	err      string // none | empty | text
	feedOK   bool
	stderr   bool
	nwarn    int
	ncontent int
}

func classify(s *pScript, limitMs int) pClass {
	c := pClass{run: fmt.Sprintf("x%d", s.Exit), err: "none", stderr: s.Stderr != "", nwarn: len(s.Warnings), ncontent: len(s.Files), feedOK: true}
	if s.Mode == "sleep" && limitMs > 0 && s.SleepMs > limitMs {
		c.run = "kill"
	}
	res := &plugin.Response{Warnings: s.Warnings, Error: s.Error}
	for _, f := range s.Files {
		res.Contents = append(res.Contents, &plugin.Generated{Content: f.Content, Name: f.Name, InsertionPoint: f.Point})
	}
	out, _ := plugin.MarshalResponse(res)
	switch s.Mode {
	case "partial":
		if s.Keep < len(out) {
			out = out[:s.Keep]
		}
	case "raw":
		out, _ = base64.StdEncoding.DecodeString(s.Raw)
	}
	var dec *plugin.Response
	var err error
	if p, _ := guard(func() { dec, err = plugin.UnmarshalResponse(out) }); p {
		err = fmt.Errorf("UnmarshalResponse panicked") // undecodable all the same: thriftgo must fail
	}
	c.decoded = err == nil
	if c.decoded {
		c.nwarn, c.ncontent = len(dec.Warnings), len(dec.Contents)
		switch {
		case dec.Error == nil:
			c.err = "none"
		case *dec.Error == "":
			c.err = "empty"
		default:
			c.err = "text"
		}
		if len(dec.Contents) > 0 && dec.Contents[0].Name == nil {
			c.feedOK = false // "attended to append but no target file found"
		}
	}
	return c
}

func (c pClass) fault() bool {
	return c.run != "x0" || !c.decoded || c.err == "text" || !c.feedOK
}

// expectedFiles: what a faultless script must leave in the output directory.
func expectedFiles(s *pScript) map[string]string { return expectedFilesAll([]*pScript{s}) }

// expectedFilesAll: several plugins in command-line order (one Feed per plugin: a nameless patch goes to the
// last named file of the SAME plugin, a named patch with an insertion point to the file of that name).
func expectedFilesAll(scripts []*pScript) map[string]string {
	type acc struct {
		content string
		patches map[string]string
		order   []string
	}
	files := map[string]*acc{}
	for _, s := range scripts {
		last := ""
		for _, f := range s.Files {
			if f.Name != nil && (f.Point == nil || files[*f.Name] == nil) {
				files[*f.Name] = &acc{content: f.Content, patches: map[string]string{}}
				last = *f.Name
				continue
			}
			tgt := last
			if f.Name != nil {
				tgt = *f.Name
				last = tgt
			}
			p := ""
			if f.Point != nil {
				p = *f.Point
			}
			if files[tgt] == nil {
				continue // a patch without a target file: the run must fail, nothing is expected
			}
			files[tgt].patches[p] += f.Content
		}
	}
	out := map[string]string{}
	for n, a := range files {
		c := a.content
		for p, txt := range a.patches {
			c = strings.ReplaceAll(c, fmt.Sprintf(marker, p), txt)
		}
		// unpatched insertion points are removed
		for {
			i := strings.Index(c, "@@thriftgo_insertion_point(")
			if i < 0 {
				break
			}
			j := strings.Index(c[i:], ")")
			if j < 0 {
				break
			}
			c = c[:i] + c[i+j+1:]
		}
		out[n] = c
	}
	return out
}

type pObserved struct {
	exit    int
	stderr  string
	elapsed time.Duration
	records []pRecord
	outDir  string
}

func (h *harness) runScenario(sc *scenario) (*pObserved, string, error) {
	dir, err := h.writeProgram(sc.Files)
	if err != nil {
		return nil, "", err
	}
	outDir := filepath.Join(h.work, dir, "out")
	record := filepath.Join(h.work, dir, "record.jsonl")
	scripts := map[string]pScript{}
	args := []string{}
	if sc.Recursive {
		args = append(args, "-r")
	}
	for _, g := range sc.Gen {
		args = append(args, "-g", g)
	}
	for i, p := range sc.Plugins {
		scripts[p.ID] = p.Script
		if p.NoID {
			for l := range sc.Gen { // chosen by execution index: language-major order
				scripts[fmt.Sprintf("#%d", l*len(sc.Plugins)+i)] = p.Script
			}
		}
		bin := h.plug
		if p.Variant != "" {
			bin = h.variants[p.Variant]
		}
		arg := "c11plugin=" + bin
		if o := p.optString(); o != nil {
			arg += ":" + *o
		}
		args = append(args, "-p", arg)
	}
	if sc.LimitMs >= 0 {
		args = append(args, "--plugin-time-limit", fmt.Sprintf("%dms", sc.LimitMs))
	}
	args = append(args, "-o", outDir, filepath.Join(dir, sc.Main))
	js, _ := json.Marshal(scripts)
	ctx, cancel := context.WithTimeout(context.Background(), 60*time.Second)
	defer cancel()
	cmd := exec.CommandContext(ctx, h.thriftgo, args...)
	cmd.Dir = h.work
	sigint := ""
	for _, p := range sc.Plugins {
		if p.Script.Sigint != "" {
			sigint = p.Script.Sigint
		}
	}
	cmd.Env = append(os.Environ(), "C11_SIGINT="+sigint, "C11_SCRIPT="+string(js), "C11_RECORD="+record, "C11_REPO="+h.repo, "THRIFTGO_PLUGIN_COMPRESS_INCLUDE="+map[bool]string{true: "1", false: ""}[sc.Compress])
	var stdout, stderr bytes.Buffer
	cmd.Stdout, cmd.Stderr = &stdout, &stderr
	t0 := time.Now()
	rerr := cmd.Run()
	obs := &pObserved{elapsed: time.Since(t0), stderr: stderr.String() + stdout.String(), outDir: outDir}
	if rerr != nil {
		if ee, ok := rerr.(*exec.ExitError); ok {
			obs.exit = ee.ExitCode()
		} else {
			return nil, dir, rerr
		}
	}
	if b, err := os.ReadFile(record); err == nil {
		for _, line := range strings.Split(strings.TrimSpace(string(b)), "\n") {
			if line == "" {
				continue
			}
			var r pRecord
			if json.Unmarshal([]byte(line), &r) == nil {
				obs.records = append(obs.records, r)
			}
		}
	}
	return obs, dir, nil
}

func pidAlive(pid int) bool {
	if pid <= 0 {
		return false
	}
	b, err := os.ReadFile(fmt.Sprintf("/proc/%d/stat", pid))
	if err != nil {
		return false
	}
	// a zombie that nobody reaped would still be listed; state is the field after the ")"
	s := string(b)
	if i := strings.LastIndex(s, ")"); i >= 0 && i+2 < len(s) {
		return s[i+2] != 'Z' && s[i+2] != 'X'
	}
	return true
}

// expectedRequest builds, in-process, the request the compiler must have built for plugin p.
func (h *harness) expectedRequest(sc *scenario, dir string, p *pPlugin, outDir string) (string, error) {
	ast, err := parseMain(filepath.Join(dir, sc.Main), true)
	if err != nil {
		return "", err
	}
	var genParams []string
	if d, err := plugin.ParseCompactArguments(sc.Gen[len(sc.Gen)-1]); err == nil {
		genParams = plugin.Pack(d.Options)
	}
	params := p.wantParams()
	lang := sc.Gen[len(sc.Gen)-1]
	if i := strings.Index(lang, ":"); i >= 0 {
		lang = lang[:i]
	}
	req := &plugin.Request{Version: version.ThriftgoVersion, GeneratorParameters: genParams, PluginParameters: params,
		Language: lang, OutputPath: outDir, Recursive: sc.Recursive, AST: ast}
	v, err := h.sc.ToValue(h.sc.Request, req)
	if err != nil {
		return "", err
	}
	ty := &c11lib.Ty{K: 'S', S: h.sc.Request}
	return h.sc.Normalize(ty, v, false).String(), nil
}

// checkScenario runs one scenario, records the model cases (`exe`) and evaluates the oracle.
func (h *harness) checkScenario(sc *scenario) {
	h.out.Count("process:" + sc.Label)
	obs, dir, err := h.runScenario(sc)
	if err != nil {
		panic(fmt.Sprintf("cannot run thriftgo: %v", err))
	}
	defer os.RemoveAll(filepath.Join(h.work, dir))
	defer func() { // never leave a plugin behind
		for _, r := range obs.records {
			if pidAlive(r.Pid) {
				syscall.Kill(r.Pid, syscall.SIGKILL)
			}
		}
	}()
	failed := false
	type mcase struct{ op, impl string }
	var cases []mcase
	defer func() {
		// the decision model has no outcome for a run the oracle already reports (e.g. a panic inside
		// thriftgo): such executions are carried by the oracle failure alone
		if !failed {
			for _, c := range cases {
				h.out.Case(c.op, c.impl, true)
			}
		}
	}()
	fail := func(what string, expected, observed interface{}) {
		failed = true
		js, _ := json.Marshal(sc)
		h.out.Fail(vl.OracleFail{Key: keyOf("process", sc.Label+" "+what), What: "process level (runtime-observed): " + what,
			Input: map[string]interface{}{"kind": "process", "scenario": json.RawMessage(js)}, Expected: expected, Observed: observed})
	}
	if strings.Contains(obs.stderr, "Recovered from panic") || strings.Contains(obs.stderr, "goroutine ") {
		fail("thriftgo panicked", "no panic, non-zero exit status on a plugin fault", fmt.Sprintf("exit %d; %s", obs.exit, panicLine(obs.stderr)))
		return
	}
	anyFault := false
	ran := 0
	for i := range sc.Plugins {
		p := &sc.Plugins[i]
		if anyFault {
			break // later plugins must not run
		}
		ran++
		cl := classify(&p.Script, sc.LimitMs)
		// with several -g, every language runs every plugin; the model case is per plugin execution
		shown := 0
		for _, w := range p.Script.Warnings {
			if w != "" && strings.Contains(obs.stderr, "[WARN] "+w) && cl.decoded {
				shown++
			}
		}
		// the two warnings carrying the output of a run that did not exit with status 0 belong to that run
		if cl.run != "x0" && strings.Contains(obs.stderr, "[WARN] stdout:\n") {
			shown++
		}
		if cl.run != "x0" && strings.Contains(obs.stderr, "[WARN] stderr:\n") {
			shown++
		}
		if p.Script.Stderr != "" && strings.Contains(obs.stderr, "[WARN] c11plugin stderr:\n"+p.Script.Stderr) {
			shown++
		}
		op := fmt.Sprintf("exe %s %s %s %s %s %d %d", cl.run, vl.B(cl.decoded), cl.err, vl.B(cl.feedOK), vl.B(cl.stderr), cl.nwarn, cl.ncontent)
		exp := expectedFiles(&p.Script)
		if cl.fault() {
			anyFault = true
			impl := fmt.Sprintf("fail %d", shown)
			if obs.exit == 0 {
				impl = fmt.Sprintf("ok ? %d", shown)
				fail("plugin fault ("+describe(cl)+") but thriftgo exited 0", "non-zero exit status", fmt.Sprintf("exit 0; stderr: %s", tail(obs.stderr, 400)))
			}
			cases = append(cases, mcase{op, impl})
			// the warnings of a failing plugin are shown all the same: those of its answer, or the dump of
			// its stdout/stderr when it did not exit with status 0
			wantShown := 0
			switch {
			case cl.run != "x0":
				wantShown = 2
			case cl.decoded:
				wantShown = cl.nwarn
				if cl.stderr {
					wantShown++
				}
			}
			if obs.exit != 0 && shown != wantShown {
				fail("plugin fault ("+describe(cl)+"): its warnings / output dump are not shown", wantShown, fmt.Sprintf("%d; stderr: %s", shown, tail(obs.stderr, 400)))
			}
			if cl.run != "x0" && cl.run != "kill" && p.Script.Stderr != "" && !strings.Contains(obs.stderr, strings.TrimSpace(p.Script.Stderr)) {
				fail("plugin fault ("+describe(cl)+"): what the plugin wrote to stderr is not shown", p.Script.Stderr, tail(obs.stderr, 400))
			}
			// nothing of the failed run may be written
			for n := range exp {
				if _, err := os.Stat(filepath.Join(obs.outDir, n)); err == nil {
					fail("plugin fault ("+describe(cl)+") but its file was written", "no output", n)
				}
			}
			if cl.run == "kill" {
				// 3 s of grace plus what a faultless run of thriftgo costs on this machine right now
				if lim := time.Duration(sc.LimitMs)*time.Millisecond + 3*time.Second + h.baseline; obs.elapsed > lim {
					fail("plugin exceeded the time limit but thriftgo waited", fmt.Sprintf("return within %s", lim.Round(100*time.Millisecond)), obs.elapsed.Round(100*time.Millisecond).String())
				}
				if i < len(obs.records) && pidAlive(obs.records[i].Pid) {
					fail("plugin still running after the time limit", "process killed", "alive")
				}
			}
		} else if laterFault(sc, i) {
			// the whole run fails later: nothing is persisted, what was fed cannot be observed; the
			// warnings of this plugin must still have been shown
			want := cl.nwarn
			if cl.stderr {
				want++
			}
			if shown != want {
				fail("plugin warnings not all shown", want, fmt.Sprintf("%d; stderr: %s", shown, tail(obs.stderr, 400)))
			}
			for n := range exp {
				if _, err := os.Stat(filepath.Join(obs.outDir, n)); err == nil {
					fail("a later plugin failed but a file was written", "no output", n)
				}
			}
		} else if sc.OwnFile || sc.Merged {
			if sc.OwnFile {
				h.ownFileCheck(obs.outDir, p, fail)
			}
			want := cl.nwarn
			if cl.stderr {
				want++
			}
			if shown != want {
				fail("plugin warnings not all shown", want, fmt.Sprintf("%d; stderr: %s", shown, tail(obs.stderr, 400)))
			}
		} else {
			fed := 0
			for n, want := range exp {
				got, err := os.ReadFile(filepath.Join(obs.outDir, n))
				if err != nil {
					fail("scripted file missing: "+n, want, err.Error())
					continue
				}
				if string(got) != want {
					fail("scripted file content differs: "+n, want, string(got))
					continue
				}
				fed++
			}
			if fed == len(exp) {
				fed = cl.ncontent // every file (with its patches) arrived intact
			}
			impl := fmt.Sprintf("ok %d %d", fed, shown)
			if obs.exit != 0 && i == len(sc.Plugins)-1 {
				impl = fmt.Sprintf("fail %d", shown)
				fail("faultless plugin run but thriftgo exited non-zero", "exit 0", fmt.Sprintf("exit %d; stderr: %s", obs.exit, tail(obs.stderr, 400)))
			}
			cases = append(cases, mcase{op, impl})
			want := cl.nwarn
			if cl.stderr {
				want++
			}
			if shown != want {
				fail("plugin warnings not all shown", want, fmt.Sprintf("%d; stderr: %s", shown, tail(obs.stderr, 400)))
			}
		}
	}
	if !anyFault && !failed {
		slow := false
		for i := range sc.Plugins {
			slow = slow || sc.Plugins[i].Script.Mode == "sleep"
		}
		if !slow && obs.elapsed > h.baseline {
			h.baseline = obs.elapsed
		}
	}
	if sc.Merged && !anyFault {
		var scripts []*pScript
		for i := range sc.Plugins {
			scripts = append(scripts, &sc.Plugins[i].Script)
		}
		for n, want := range expectedFilesAll(scripts) {
			got, err := os.ReadFile(filepath.Join(obs.outDir, n))
			if err != nil {
				fail("scripted file missing: "+n, want, err.Error())
			} else if string(got) != want {
				fail("patches are not all where their insertion points are: "+n, want, string(got))
			}
		}
	}
	// what the plugin decoded == what the compiler built (first language only when there are several)
	nLang := len(sc.Gen)
	killed := false
	for i := 0; i < ran; i++ {
		if classify(&sc.Plugins[i].Script, sc.LimitMs).run == "kill" {
			killed = true // a killed plugin may not have got as far as writing its record
		}
	}
	if nLang == 1 && (len(obs.records) > ran || (!killed && len(obs.records) != ran)) {
		fail("number of plugin executions", ran, len(obs.records))
	}
	for i := 0; i < ran && i < len(obs.records) && nLang == 1; i++ {
		rec := obs.records[i]
		if rec.Err != "" {
			fail("plugin could not decode the request", "decodable request", rec.Err)
			continue
		}
		want, err := h.expectedRequest(sc, dir, &sc.Plugins[i], obs.outDir)
		if err != nil {
			panic(err)
		}
		if want != rec.VL {
			w, _ := valuesParse(want)
			g, _ := valuesParse(rec.VL)
			d := "?"
			if w != nil && g != nil {
				d = h.sc.FirstDiff(&c11lib.Ty{K: 'S', S: h.sc.Request}, w, g, "$")
			}
			fail("request decoded by the plugin differs from the request the compiler built", "equal", d)
		}
		ver := sc.Plugins[i].Variant
		if ver == "" {
			ver = "v0.0.0"
		}
		gate := sc.Compress && versionAtLeast042(ver)
		if rec.Trailer != gate {
			fail(fmt.Sprintf("data trailer / include compression gate (switch %v, plugin built with thriftgo %s)", sc.Compress, ver),
				map[bool]string{true: "trailer", false: "no trailer"}[gate], map[bool]string{true: "trailer", false: "no trailer"}[rec.Trailer])
		}
		cases = append(cases, mcase{fmt.Sprintf("gat %s %s", vl.B(sc.Compress), vl.Hex(ver)), vl.B(rec.Trailer)})
	}
	if nLang > 1 && !anyFault {
		// every language runs every plugin (model: generateCalls)
		if len(obs.records) != nLang*len(sc.Plugins) {
			fail("number of plugin executions with several -g", nLang*len(sc.Plugins), len(obs.records))
		} else {
			per := make([]string, nLang)
			for i := range per {
				per[i] = fmt.Sprint(len(sc.Plugins))
			}
			cases = append(cases, mcase{fmt.Sprintf("gen %d %d", nLang, len(sc.Plugins)), fmt.Sprintf("ok %d %s", nLang, strings.Join(per, " "))})
		}
	}
	// every execution (language-major order) carries exactly the options of its own -p argument
	if !anyFault && len(obs.records) == nLang*len(sc.Plugins) {
		op := fmt.Sprintf("par %d %d", nLang, len(sc.Plugins))
		for i := range sc.Plugins {
			arg := "p"
			if o := sc.Plugins[i].optString(); o != nil {
				arg += ":" + *o
			}
			op += " " + vl.Hex(arg)
		}
		var got []string
		for i, rec := range obs.records {
			want := sc.Plugins[i%len(sc.Plugins)].wantParams()
			if strings.Join(rec.Params, "\x01") != strings.Join(want, "\x01") {
				fail(fmt.Sprintf("execution %d: plugin parameters are not those of its own -p argument", i), want, rec.Params)
			}
			hx := make([]string, len(rec.Params))
			for j, x := range rec.Params {
				hx[j] = vl.Hex(x)
			}
			got = append(got, strings.TrimSpace(fmt.Sprintf("%d %s", len(rec.Params), strings.Join(hx, " "))))
		}
		cases = append(cases, mcase{op, "ok " + strings.Join(got, " | ")})
	}
	h.out.Stats["process:plugin-executions"] += len(obs.records)
}

// versionAtLeast042: the documented gate, on a vA.B.C string
func versionAtLeast042(v string) bool {
	parts := strings.Split(strings.SplitN(strings.TrimPrefix(v, "v"), "-", 2)[0], ".")
	return len(parts) == 3 && refVersionGE(parts[0], parts[1], parts[2])
}

// ownFileCheck: plugins emitted equal names; every patch text a plugin sent must be in the file that holds
// its insertion point, i.e. the one carrying the plugin's marker (whatever name the file manager gave it)
func (h *harness) ownFileCheck(outDir string, p *pPlugin, fail func(string, interface{}, interface{})) {
	marker := "FILE-OF-" + p.ID
	var content string
	found := 0
	filepath.Walk(outDir, func(path string, info os.FileInfo, err error) error {
		if err == nil && !info.IsDir() {
			if b, e := os.ReadFile(path); e == nil && strings.Contains(string(b), marker) {
				found++
				content = string(b)
			}
		}
		return nil
	})
	if found != 1 {
		fail("file of plugin "+p.ID+" not found exactly once in the output", 1, found)
		return
	}
	for _, f := range p.Script.Files {
		if f.Name == nil && !strings.Contains(content, f.Content) {
			fail("patch sent by plugin "+p.ID+" is missing from the file that holds its insertion point", f.Content, content)
		}
	}
	if strings.Contains(content, "@@thriftgo_insertion_point(") {
		fail("insertion point left in the file of plugin "+p.ID, "removed", content)
	}
}

// laterFault: some plugin after i faults (then thriftgo fails as a whole and persists nothing).
func laterFault(sc *scenario, i int) bool {
	for j := i + 1; j < len(sc.Plugins); j++ {
		if classify(&sc.Plugins[j].Script, sc.LimitMs).fault() {
			return true
		}
	}
	return false
}

func describe(c pClass) string {
	switch {
	case c.run == "kill":
		return "time limit exceeded"
	case c.run != "x0":
		return "exit status " + c.run[1:]
	case !c.decoded:
		return "undecodable stdout"
	case c.err == "text":
		return "response error"
	case !c.feedOK:
		return "patch without target file"
	}
	return "none"
}

// panicLine: the panic value and the first frames inside the repository (no addresses).
func panicLine(s string) string {
	var out []string
	lines := strings.Split(s, "\n")
	for i, l := range lines {
		if strings.HasPrefix(l, "Recovered from panic") && i+1 < len(lines) {
			out = append(out, "panic: "+lines[i+1])
		}
		if strings.HasPrefix(l, "github.com/cloudwego/") && len(out) < 6 {
			if j := strings.Index(l, "("); j > 0 {
				out = append(out, l[:j])
			}
		}
	}
	return strings.Join(out, " <- ")
}

func tail(s string, n int) string {
	if len(s) > n {
		return "…" + s[len(s)-n:]
	}
	return s
}

// ---------------------------------------------------------------- scenario catalogue

func okFiles(id string) []pFile {
	return []pFile{
		{Name: sp("c11_" + id + "_a.txt"), Content: "line1\n// " + fmt.Sprintf(marker, "p1") + "\nline2\n" + fmt.Sprintf(marker, "unused.point") + "end\n"},
		{Point: sp("p1"), Content: "PATCH-1\n"},
		{Name: sp("sub/c11_" + id + "_b.txt"), Content: "hello ü\n"},
		{Name: sp("c11_" + id + "_a.txt"), Point: sp("p1"), Content: "PATCH-2\n"},
	}
}

func (h *harness) baseScenario(label string) *scenario {
	return &scenario{Label: label, Files: diamond, Main: "main.thrift", Gen: []string{"go"}, LimitMs: 30000}
}

func (h *harness) catalogue() []*scenario {
	var out []*scenario
	add := func(label string, f func(s *scenario)) {
		s := h.baseScenario(label)
		f(s)
		out = append(out, s)
	}
	one := func(sc pScript, opts ...[2]string) []pPlugin { return []pPlugin{{ID: "p0", Opts: opts, Script: sc}} }
	// REGRESSION (repaired): g.plugins grew with every Generate call: the second language panicked, exit 0
	add("two-languages-one-plugin", func(s *scenario) {
		s.Gen = []string{"go", "go:gen_setter"}
		s.Plugins = one(pScript{Files: okFiles("p0")})
	})
	// REGRESSION (repaired): a first byte >= 0x80 is a negative TType for the fast codec's Skip: used to panic, exit 0
	add("invalid-bytes-negative-ttype", func(s *scenario) {
		s.Plugins = one(pScript{Mode: "raw", Raw: base64.StdEncoding.EncodeToString([]byte{0x80, 0x00, 0x01, 0x00})})
	})
	add("ok-files-patches-warnings", func(s *scenario) {
		s.Plugins = one(pScript{Files: okFiles("p0"), Warnings: []string{"C11W-p0-1", "C11W-p0-2 with spaces"}}, [2]string{"a", "1"}, [2]string{"flag", "\x00"}, [2]string{"v", "x=y:z"})
	})
	for _, mode := range []string{"", "ignore", "handle"} {
		mode := mode
		name := mode
		if name == "" {
			name = "default"
		}
		// the plugin sleeps far beyond the limit; whatever it does with SIGINT it must be gone afterwards
		add("timeout-killed-sigint-"+name, func(s *scenario) {
			s.LimitMs = 300
			s.Plugins = one(pScript{Mode: "sleep", SleepMs: 12000, Sigint: mode, Files: okFiles("p0")})
		})
	}
	// insertion-point names outside the class [$.0-9a-zA-Z_] of the file manager's scan, named and nameless patches
	add("insertion-points-with-odd-names", func(s *scenario) {
		s.Merged = true
		pts := []string{"svc-Echo.methods", "pkg/demo.init", "handlers-v2/extra_", "点.α", "plain.one"}
		content := "FILE-OF-p0\n"
		for _, pt := range pts {
			content += "// " + fmt.Sprintf(marker, pt) + "\n"
		}
		content += "end\n"
		scaffold := pScript{Files: []pFile{{Name: sp("reg/registry.txt"), Content: content},
			{Point: sp(pts[0]), Content: "NAMELESS-" + pts[0] + "\n"}, {Point: sp(pts[3]), Content: "NAMELESS-unicode\n"}}}
		var filler, third pScript
		for _, pt := range pts {
			filler.Files = append(filler.Files, pFile{Name: sp("reg/registry.txt"), Point: sp(pt), Content: "FILLER-" + pt + "\n"})
		}
		third.Files = []pFile{{Name: sp("reg/other.txt"), Content: "x " + fmt.Sprintf(marker, "a-b") + " y\n"}, {Point: sp("a-b"), Content: "[ab]"},
			{Name: sp("reg/registry.txt"), Point: sp(pts[1]), Content: "THIRD-" + pts[1] + "\n"}}
		s.Plugins = []pPlugin{{ID: "p0", Script: scaffold}, {ID: "p1", Script: filler}, {ID: "p2", Script: third}}
	})
	// a failing answer that also carries warnings; a failing exit status with diagnostics on stderr
	add("response-error-with-warnings-and-stderr", func(s *scenario) {
		s.Plugins = one(pScript{Error: sp("plugin says no"), Warnings: []string{"C11W-p0-a", "C11W-p0-b"}, Stderr: "diagnostics of p0\n"})
	})
	add("exit-3-with-valid-response", func(s *scenario) { s.Plugins = one(pScript{Exit: 3, Files: okFiles("p0"), Stderr: "boom\n"}) })
	add("partial-stdout", func(s *scenario) { s.Plugins = one(pScript{Mode: "partial", Keep: 9, Files: okFiles("p0")}) })
	add("invalid-bytes", func(s *scenario) {
		s.Plugins = one(pScript{Mode: "raw", Raw: base64.StdEncoding.EncodeToString([]byte("this is not thrift"))})
	})
	add("empty-stdout", func(s *scenario) { s.Plugins = one(pScript{Mode: "raw", Raw: ""}) })
	add("response-error", func(s *scenario) {
		s.Plugins = one(pScript{Error: sp("plugin says no"), Warnings: []string{"C11W-p0-err"}, Files: okFiles("p0")})
	})
	add("response-error-empty-string", func(s *scenario) { s.Plugins = one(pScript{Error: sp(""), Files: okFiles("p0")}) })
	add("ok-stderr-shown", func(s *scenario) { s.Plugins = one(pScript{Stderr: "note from plugin\n", Files: okFiles("p0")[2:3]}) })
	add("ok-empty-response", func(s *scenario) { s.Plugins = one(pScript{}) })
	add("ok-slow-within-limit", func(s *scenario) { s.Plugins = one(pScript{Mode: "sleep", SleepMs: 150, Files: okFiles("p0")}) })
	add("patch-without-target", func(s *scenario) { s.Plugins = one(pScript{Files: []pFile{{Point: sp("p"), Content: "x"}}}) })
	add("two-plugins-own-params", func(s *scenario) {
		s.Plugins = []pPlugin{{ID: "p0", Opts: [][2]string{{"first", "1"}}, Script: pScript{Files: okFiles("p0"), Warnings: []string{"C11W-p0"}}},
			{ID: "p1", Opts: [][2]string{{"second", "\x00"}, {"k", ""}}, Script: pScript{Files: okFiles("p1"), Warnings: []string{"C11W-p1"}}}}
	})
	add("optionless-plugin-after-plugin-with-options", func(s *scenario) {
		s.Plugins = []pPlugin{{ID: "p0", Opts: [][2]string{{"alpha", "1"}, {"beta", "\x00"}}, Script: pScript{Warnings: []string{"C11W-p0"}}},
			{ID: "p1", NoID: true, Script: pScript{Files: okFiles("p1")}},
			{ID: "p2", Opts: [][2]string{{"gamma", "3"}}, Script: pScript{}}}
	})
	add("optionless-plugin-second-language", func(s *scenario) {
		s.Gen = []string{"go", "go:gen_setter"}
		s.Plugins = []pPlugin{{ID: "p0", NoID: true, Script: pScript{}},
			{ID: "p1", Opts: [][2]string{{"x", "1"}}, Script: pScript{Files: okFiles("p1")}}}
	})
	// two plugins emit the same file name with different content, each with an insertion point and nameless patches
	add("same-file-name-different-content-nameless-patches", func(s *scenario) {
		s.OwnFile = true
		mk := func(id string) pScript {
			return pScript{Files: []pFile{
				{Name: sp("shared/c11_same.txt"), Content: "FILE-OF-" + id + "\n// " + fmt.Sprintf(marker, "p1") + "\nend of " + id + "\n"},
				{Point: sp("p1"), Content: "PATCH-" + id + "-1\n"},
				{Point: sp("p1"), Content: "PATCH-" + id + "-2\n"},
			}}
		}
		s.Plugins = []pPlugin{{ID: "p0", Script: mk("p0")}, {ID: "p1", Script: mk("p1")}, {ID: "p2", Script: mk("p2")}}
	})
	// version gate matrix: switch off/on x plugin built against {v0.0.0, v0.4.1, v0.4.2, v0.4.3} x include graph tree/diamond
	vers := []string{""}
	for _, v := range []string{"v0.4.1", "v0.4.2", "v0.4.3"} {
		if h.variants[v] != "" {
			vers = append(vers, v)
		}
	}
	for _, env := range []bool{false, true} {
		for _, v := range vers {
			for _, graph := range []string{"tree", "diamond"} {
				env, v, graph := env, v, graph
				name := v
				if name == "" {
					name = "v0.0.0"
				}
				add(fmt.Sprintf("gate-switch-%v-%s-%s", env, name, graph), func(s *scenario) {
					s.Compress = env
					if graph == "tree" {
						s.Files = treeProg
					}
					s.Plugins = []pPlugin{{ID: "p0", Variant: v, Script: pScript{Files: okFiles("p0")[2:3]}}}
				})
			}
		}
	}
	if h.variants["v0.4.3"] != "" && h.variants["v0.4.1"] != "" {
		// compressed for the first plugin, reverted, plain for the second, compressed again for the third
		add("gate-mixed-plugins-revert", func(s *scenario) {
			s.Compress = true
			s.Recursive = true
			s.Plugins = []pPlugin{{ID: "p0", Variant: "v0.4.3", Script: pScript{}}, {ID: "p1", Variant: "v0.4.1", Script: pScript{}},
				{ID: "p2", Variant: "v0.4.3", Opts: [][2]string{{"k", "v"}}, Script: pScript{Files: okFiles("p2")}}}
		})
	}
	add("first-plugin-fails-second-not-run", func(s *scenario) {
		s.Plugins = []pPlugin{{ID: "p0", Script: pScript{Exit: 1}}, {ID: "p1", Script: pScript{Files: okFiles("p1")}}}
	})
	add("recursive-diamond", func(s *scenario) {
		s.Recursive = true
		s.Plugins = one(pScript{Files: okFiles("p0")})
	})
	add("generator-options", func(s *scenario) {
		s.Gen = []string{"go:naming_style=golint,ignore_initialisms,gen_setter=true"}
		s.Plugins = one(pScript{Files: okFiles("p0")}, [2]string{"path", "/tmp/a b"})
	})
	add("go-file-formatted", func(s *scenario) {
		s.Plugins = one(pScript{Files: []pFile{{Name: sp("c11x/x.go"), Content: "package c11x\n\nvar X = 1\n"}}})
	})
	add("no-limit-flag-zero", func(s *scenario) {
		s.LimitMs = 0
		s.Plugins = one(pScript{Mode: "sleep", SleepMs: 300, Files: okFiles("p0")})
	})
	add("exit-255-no-output", func(s *scenario) { s.Plugins = one(pScript{Exit: 255, Mode: "raw"}) })
	return out
}

func (h *harness) randomScenario(i int) *scenario {
	r := h.r
	s := h.baseScenario(fmt.Sprintf("random-%d", i))
	// a generated program when the compiler digests it, else the fixed diamond
	if r.Chance(50) {
		p := genProgram(r, 4)
		s.Files, s.Main = p.Files(), p.files[0].path
		if !h.digestible(s) {
			h.out.Count("process:generated-program-not-digestible")
			s.Files, s.Main = diamond, "main.thrift"
		}
	}
	s.Recursive = r.Chance(30)
	if r.Chance(40) {
		s.Gen = []string{"go:" + r.Pick([]string{"gen_setter", "naming_style=golint", "json_enum_as_text,gen_deep_equal", "keep_unknown_fields="})}
	}
	n := 1
	if r.Chance(40) {
		n = 2 + r.Intn(2)
	}
	if i%8 == 0 { // a run into the time limit (slow: one in eight), alone so that nothing else races the 1 s limit
		s.LimitMs = 1000
		s.LimitMs = 300
		s.Plugins = []pPlugin{{ID: "p0", Script: pScript{Mode: "sleep", SleepMs: 12000, Sigint: r.Pick([]string{"", "ignore", "handle"}), Files: okFiles("p0")}}}
		return s
	}
	if r.Chance(20) {
		s.Gen = append(s.Gen, "go:gen_setter") // a second target language: every plugin runs once more
	}
	for k := 0; k < n; k++ {
		id := fmt.Sprintf("p%d", k)
		var sc pScript
		switch r.Intn(11) {
		case 0:
			sc = pScript{Exit: 1 + r.Intn(200), Files: okFiles(id)}
		case 1:
			sc = pScript{Mode: "partial", Keep: r.Intn(40), Files: okFiles(id), Warnings: []string{"C11W-" + id}}
		case 2:
			raw := make([]byte, 1+r.Intn(20))
			for j := range raw {
				raw[j] = byte(r.Intn(256))
			}
			for j := range raw {
				raw[j] &= 0x7f // negative TTypes (bytes >= 0x80) have their own catalogue scenario (stable key)
			}
			sc = pScript{Mode: "raw", Raw: base64.StdEncoding.EncodeToString(raw)}
		case 3:
			sc = pScript{Error: sp(r.Pick([]string{"e", "multi\nline error", "ü"})), Warnings: []string{"C11W-" + id + "-w"}}
		case 4:
			sc = pScript{Mode: "sleep", SleepMs: 50, Files: okFiles(id)}
		default:
			sc = pScript{Files: okFiles(id)[:1+r.Intn(4)]}
			for j, m := 0, r.Intn(3); j < m; j++ {
				sc.Warnings = append(sc.Warnings, fmt.Sprintf("C11W-%s-%d", id, j))
			}
			if r.Chance(25) {
				sc.Stderr = "stderr text of " + id + "\n"
			}
		}
		var opts [][2]string
		for j, m := 0, r.Intn(4); j < m; j++ {
			key := fmt.Sprintf("k%d", j)
			if r.Chance(35) {
				opts = append(opts, [2]string{key, "\x00"})
			} else {
				opts = append(opts, [2]string{key, r.Pick([]string{"", "1", "a=b", "c:d", "/p q", "ü"})})
			}
		}
		pl := pPlugin{ID: id, Opts: opts, Script: sc}
		if r.Chance(35) {
			pl.NoID = true
			if r.Chance(60) {
				pl.Opts = nil // started without any option
			}
		}
		s.Plugins = append(s.Plugins, pl)
	}
	return s
}

// digestible: thriftgo -g go accepts the program without any plugin.
func (h *harness) digestible(s *scenario) bool {
	dir, err := h.writeProgram(s.Files)
	if err != nil {
		return false
	}
	defer os.RemoveAll(filepath.Join(h.work, dir))
	args := []string{"-g", "go", "-o", filepath.Join(h.work, dir, "out")}
	if true {
		args = append(args, "-r")
	}
	args = append(args, filepath.Join(dir, s.Main))
	cmd := exec.Command(h.thriftgo, args...)
	cmd.Dir = h.work
	out, err := cmd.CombinedOutput()
	return err == nil && !strings.Contains(string(out), "Recovered from panic")
}

// nRegression: the first scenarios of the catalogue are witnesses of repaired defects; they run first.
const nRegression = 2

func (h *harness) processRegressions() {
	for _, s := range h.catalogue()[:nRegression] {
		h.checkScenario(s)
	}
}

func (h *harness) suiteProcess(n int) {
	cat := h.catalogue()
	for i, s := range cat {
		if i < nRegression {
			continue // already run by processRegressions
		}
		h.checkScenario(s)
	}
	for i := len(cat); i < len(cat)+n; i++ {
		h.checkScenario(h.randomScenario(i))
	}
	labels := []string{}
	for _, s := range cat {
		labels = append(labels, s.Label)
	}
	sort.Strings(labels)
	h.out.Sample(map[string]interface{}{"process-scenarios": labels})
}
