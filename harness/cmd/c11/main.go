// c11: translator, correspondence harness and replayer for property C11
// ("plugins see the compiler's AST and options, and their answers are honoured").
package main

import (
	"flag"
	"fmt"
	"os"

	"verifharness/c11lib"
)

func main() {
	if len(os.Args) < 2 {
		fmt.Fprintln(os.Stderr, "usage: c11 extract|run|replay [flags]")
		os.Exit(2)
	}
	sub := os.Args[1]
	fs := flag.NewFlagSet(sub, flag.ExitOnError)
	repo := fs.String("repo", "/repo", "repository under test")
	dir := fs.String("dir", "", "output directory (run)")
	seed := fs.Uint64("seed", 1, "seed")
	tier := fs.String("tier", "quick", "quick|thorough")
	file := fs.String("file", "", "replay file")
	thriftgo := fs.String("thriftgo", "", "thriftgo binary built from the repo (process scenarios)")
	plug := fs.String("plugin", "", "c11plugin binary (process scenarios)")
	variants := fs.String("plugins", "", "c11plugin binaries whose build info records a thriftgo version: v0.4.1=/path,v0.4.2=/path,…")
	fs.Parse(os.Args[2:])
	switch sub {
	case "extract":
		sc, err := c11lib.Extract(*repo)
		if err != nil {
			fmt.Fprintln(os.Stderr, "extract:", err)
			os.Exit(1)
		}
		gate, err := c11lib.ExtractGate(*repo)
		if err != nil {
			fmt.Fprintln(os.Stderr, "extract:", err)
			os.Exit(1)
		}
		fmt.Print(sc.Lean())
		fmt.Print(gate.Lean())
	case "run":
		os.Exit(run(*repo, *dir, *seed, *tier, *thriftgo, *plug, *variants))
	case "replay":
		os.Exit(replay(*repo, *file, *thriftgo, *plug, *variants))
	default:
		fmt.Fprintln(os.Stderr, "unknown subcommand", sub)
		os.Exit(2)
	}
}
