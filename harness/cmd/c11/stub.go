package main

func run(repo, dir string, seed uint64, tier, thriftgo, plug string) int { return 2 }
func replay(repo, file, thriftgo, plug string) int                       { return 2 }
