package main

import (
	"encoding/json"
	"fmt"
	"os"
	"path/filepath"
	"strings"

	"github.com/cloudwego/thriftgo/plugin"

	"verifharness/c11lib"
	"verifharness/internal/values"
	"verifharness/internal/vl"
)

func valuesParse(s string) (*values.Value, error) { return values.Parse(s) }

// replay re-evaluates the oracle on the input of a replay file and prints the failures as JSON.
func replay(repo, file, thriftgo, plug, variants string) int {
	b, err := os.ReadFile(file)
	if err != nil {
		fmt.Fprintln(os.Stderr, err)
		return 1
	}
	var doc struct {
		Input map[string]json.RawMessage `json:"input"`
	}
	if err := json.Unmarshal(b, &doc); err != nil {
		fmt.Fprintln(os.Stderr, err)
		return 1
	}
	repo, _ = filepath.Abs(repo)
	sc, err := c11lib.Extract(repo)
	if err != nil {
		fmt.Fprintln(os.Stderr, "extract:", err)
		return 1
	}
	dir, _ := os.MkdirTemp("", "c11replay")
	defer os.RemoveAll(dir)
	work := filepath.Join(dir, "c11work")
	os.MkdirAll(work, 0o755)
	os.Chdir(work)
	h := &harness{repo: repo, sc: sc, out: vl.NewOut(dir), r: vl.NewRng(1), work: work, tier: "quick", thriftgo: thriftgo, plug: plug, variants: parseVariants(variants)}
	str := func(k string) string {
		var s string
		json.Unmarshal(doc.Input[k], &s)
		return s
	}
	switch str("kind") {
	case "value":
		var sidx int
		json.Unmarshal(doc.Input["sidx"], &sidx)
		v, err := values.Parse(str("vl"))
		if err != nil {
			fmt.Fprintln(os.Stderr, err)
			return 1
		}
		c := h.reqCodec()
		if sidx == sc.Response {
			c = h.resCodec()
		}
		obj := c.fresh()
		if err := sc.FromValue(c.sidx, v, obj); err != nil {
			fmt.Fprintln(os.Stderr, err)
			return 1
		}
		h.codecCase("replay", c, obj, true, true)
	case "tree":
		t, _, err := parseTnode(splitFields(str("tree")))
		if err != nil {
			fmt.Fprintln(os.Stderr, err)
			return 1
		}
		if bad, why := h.treeOracle(t); bad {
			h.out.Fail(vl.OracleFail{Key: keyOf("compress", t.String()),
				What:     "request decoded from include-compressed bytes is not the request the compiler built",
				Input:    map[string]interface{}{"kind": "tree", "tree": t.String()},
				Expected: "UnmarshalRequest(trailer(Marshal(compress(req)))) == req and the compiler-side AST restored", Observed: why})
		}
	case "idl":
		var files map[string]string
		json.Unmarshal(doc.Input["files"], &files)
		d, _ := h.writeProgram(files)
		ast, err := parseMain(filepath.Join(d, str("main")), true)
		if err != nil {
			fmt.Fprintln(os.Stderr, err)
			return 1
		}
		req := &plugin.Request{Version: "0.4.5", Language: "go", OutputPath: "o", AST: ast}
		if bad, why := h.compressFails(req); bad {
			h.out.Fail(vl.OracleFail{Key: keyOf("compress-idl", jsonStr(files)), What: "include compression does not round-trip",
				Input: map[string]interface{}{"kind": "idl", "files": files, "main": str("main")}, Expected: "round trip", Observed: why})
		}
		h.codecCase("replay", h.reqCodec(), req, true, true)
	case "version":
		v := str("v")
		// the recorded string is well-formed: vA.B.C[-pre]
		core := strings.SplitN(strings.TrimPrefix(v, "v"), "-", 2)[0]
		parts := strings.Split(core, ".")
		if len(parts) != 3 {
			fmt.Fprintln(os.Stderr, "not a well-formed version:", v)
			return 1
		}
		want := refVersionGE(parts[0], parts[1], parts[2])
		if got := plugin.VerifSupportDataTrailer(v); got != want {
			h.out.Fail(vl.OracleFail{Key: keyOf("version", v), What: "supportDataTrailer disagrees with v >= v0.4.2",
				Input: map[string]interface{}{"kind": "version", "v": v}, Expected: want, Observed: got})
		}
	case "pca":
		var kvs [][2]string
		json.Unmarshal(doc.Input["kvs"], &kvs)
		name := str("name")
		if !pcaHolds(name, kvs) {
			s := pcaRender(name, kvs)
			h.out.Fail(vl.OracleFail{Key: keyOf("pca", s), What: "plugin parameters do not keep command-line order/content",
				Input: map[string]interface{}{"kind": "pca", "s": s, "name": name, "kvs": kvs}, Expected: kvs, Observed: h.pcaImpl(s)})
		}
	case "bytes":
		var sidx int
		json.Unmarshal(doc.Input["sidx"], &sidx)
		c := h.reqCodec()
		if sidx == sc.Response {
			c = h.resCodec()
		}
		bs := []byte(vl.UnHex(str("hex")))
		if bad, why := h.unmarshalPanics(c, bs); bad {
			h.out.Fail(vl.OracleFail{Key: keyOf("unmarshal-panic", fmt.Sprintf("%d %s", c.sidx, vl.Hex(string(bs)))),
				What:  "Unmarshal" + sc.Structs[c.sidx].Name + " panics on malformed bytes instead of returning an error",
				Input: map[string]interface{}{"kind": "bytes", "sidx": c.sidx, "hex": vl.Hex(string(bs))}, Expected: "an error", Observed: why})
		}
	case "trailer":
		d := []byte(vl.UnHex(str("data")))
		var feature uint8
		json.Unmarshal(doc.Input["feature"], &feature)
		a := plugin.VerifAppendDataTrailer(append([]byte{}, d...), feature)
		if !plugin.VerifHasDataTrailerFeature(a, feature) || len(a) != len(d)+1+len(plugin.VerifPluginDataTrailer) || string(a[:len(d)]) != string(d) {
			h.out.Fail(vl.OracleFail{Key: keyOf("trailer", fmt.Sprintf("%s %d", vl.Hex(string(d)), feature)),
				What: "appended trailer not detected or data not preserved", Input: map[string]interface{}{"kind": "trailer", "data": vl.Hex(string(d)), "feature": feature},
				Expected: "hasDataTrailerFeature(appendDataTrailer(d,f),f) and d is a prefix", Observed: fmt.Sprintf("len=%d", len(a))})
		}
	case "process":
		var s scenario
		if err := json.Unmarshal(doc.Input["scenario"], &s); err != nil {
			fmt.Fprintln(os.Stderr, err)
			return 1
		}
		if thriftgo == "" || plug == "" {
			fmt.Fprintln(os.Stderr, "process replay needs -thriftgo and -plugin")
			return 1
		}
		h.checkScenario(&s)
	default:
		fmt.Fprintln(os.Stderr, "unknown replay kind", str("kind"))
		return 1
	}
	h.out.Close()
	fails := h.out.Oracle
	if fails == nil {
		fails = []vl.OracleFail{}
	}
	js, _ := json.Marshal(fails)
	fmt.Println(string(js))
	return 0
}

func splitFields(s string) []string {
	var out []string
	cur := ""
	for _, c := range s {
		if c == ' ' {
			if cur != "" {
				out = append(out, cur)
				cur = ""
			}
		} else {
			cur += string(c)
		}
	}
	if cur != "" {
		out = append(out, cur)
	}
	return out
}
