package main

import (
	"fmt"
	"path/filepath"
	"strings"

	"verifharness/internal/vl"
)

// A small seeded generator of multi-file IDL programs whose only purpose is to make the parser and
// the resolver produce every kind of AST node (C11 is about shipping the AST, not about generated code):
// includes forming a DAG with diamonds, cpp_include, namespaces with annotations, typedefs, constants of
// every ConstType, enums, structs / unions / exceptions with every field shape, services with extends,
// oneway, void, throws; reserved comments; annotations with repeated keys; cross-file references.

type idlFile struct {
	path     string // relative to the program directory
	base     string // reference prefix
	incs     []int
	enums    []string // names
	structs  []string
	excs     []string
	typedefs []string
	consts   []string // i32 constants
	services []string
	text     string
}

type idlProgram struct {
	files []*idlFile
}

func (p *idlProgram) Files() map[string]string {
	m := map[string]string{}
	for _, f := range p.files {
		m[f.path] = f.text
	}
	return m
}

type idlGen struct {
	r *vl.Rng
	p *idlProgram
}

func genProgram(r *vl.Rng, maxFiles int) *idlProgram {
	g := &idlGen{r: r, p: &idlProgram{}}
	n := 1 + r.Intn(maxFiles)
	for i := 0; i < n; i++ {
		dir := ""
		if i > 0 && r.Chance(30) {
			dir = []string{"sub", "sub/deep", "other"}[r.Intn(3)]
		}
		base := fmt.Sprintf("f%d", i)
		g.p.files = append(g.p.files, &idlFile{path: filepath.Join(dir, base+".thrift"), base: base})
	}
	// includes: i -> j only for j > i (a DAG); bias towards diamonds
	for i := 0; i < n; i++ {
		for j := i + 1; j < n; j++ {
			if r.Chance(55) {
				g.p.files[i].incs = append(g.p.files[i].incs, j)
			}
		}
	}
	if n >= 4 && r.Chance(70) { // force a diamond 0 -> 1,2 -> 3
		g.ensureInc(0, 1)
		g.ensureInc(0, 2)
		g.ensureInc(1, 3)
		g.ensureInc(2, 3)
	}
	// bodies from the leaves up so that includers know what exists
	for i := n - 1; i >= 0; i-- {
		g.body(i)
	}
	return g.p
}

func (g *idlGen) ensureInc(i, j int) {
	for _, k := range g.p.files[i].incs {
		if k == j {
			return
		}
	}
	g.p.files[i].incs = append(g.p.files[i].incs, j)
}

func (g *idlGen) ann() string {
	r := g.r
	if !r.Chance(30) {
		return ""
	}
	keys := []string{"k", "go.tag", "api.path", "k"}
	var parts []string
	for i, n := 0, 1+r.Intn(3); i < n; i++ {
		parts = append(parts, fmt.Sprintf(`%s = "%s"`, keys[r.Intn(len(keys))], []string{"", "v", "a b", `json:\"x\"`, "ü"}[r.Intn(5)]))
	}
	return " (" + strings.Join(parts, ", ") + ")"
}

func (g *idlGen) comment() string {
	switch g.r.Intn(6) {
	case 0:
		return "// a line comment\n"
	case 1:
		return "/* a block\n   comment */\n"
	case 2:
		return "# unix comment\n// and another\n"
	}
	return ""
}

// ref returns `name` for a local definition or `base.name` through an include of file fi.
type defRef struct {
	text string
	kind byte // e s x t c v
}

func (g *idlGen) visible(fi int, pick func(f *idlFile) []string) []string {
	f := g.p.files[fi]
	var out []string
	out = append(out, pick(f)...)
	for _, j := range f.incs {
		for _, n := range pick(g.p.files[j]) {
			out = append(out, g.p.files[j].base+"."+n)
		}
	}
	return out
}

func (g *idlGen) baseType() string {
	return g.r.Pick([]string{"bool", "byte", "i8", "i16", "i32", "i64", "double", "string", "binary"})
}

func (g *idlGen) keyType() string {
	return g.r.Pick([]string{"i32", "i64", "string", "i16", "byte"})
}

func (g *idlGen) typ(fi, depth int) string {
	r := g.r
	c := r.Intn(100)
	switch {
	case c < 40 || depth <= 0:
		return g.baseType() + g.typeAnn()
	case c < 50:
		return "list<" + g.typ(fi, depth-1) + ">" + g.cpp() + g.typeAnn()
	case c < 56:
		return "set" + g.cpp() + "<" + g.keyType() + ">"
	case c < 66:
		return "map" + g.cpp() + "<" + g.keyType() + ", " + g.typ(fi, depth-1) + ">" + g.typeAnn()
	case c < 78:
		if xs := g.visible(fi, func(f *idlFile) []string { return f.structs }); len(xs) > 0 {
			return r.Pick(xs)
		}
	case c < 88:
		if xs := g.visible(fi, func(f *idlFile) []string { return f.enums }); len(xs) > 0 {
			return r.Pick(xs)
		}
	default:
		if xs := g.visible(fi, func(f *idlFile) []string { return f.typedefs }); len(xs) > 0 {
			return r.Pick(xs)
		}
	}
	return g.baseType()
}

func (g *idlGen) cpp() string {
	if g.r.Chance(10) {
		return ` cpp_type "std::x"`
	}
	return ""
}

func (g *idlGen) typeAnn() string {
	if g.r.Chance(8) {
		return ` (t = "1")`
	}
	return ""
}

// constFor returns a constant expression for simple types, "" if none is offered.
func (g *idlGen) constFor(fi int, ty string) string {
	r := g.r
	ty = strings.TrimSpace(ty)
	if i := strings.Index(ty, " ("); i >= 0 {
		ty = ty[:i]
	}
	switch ty {
	case "bool":
		return r.Pick([]string{"true", "false", "1", "0"})
	case "byte", "i8":
		return r.Pick([]string{"0", "-128", "127", "0x7f"})
	case "i16", "i32", "i64":
		if cs := g.visible(fi, func(f *idlFile) []string { return f.consts }); len(cs) > 0 && r.Chance(30) {
			return r.Pick(cs)
		}
		return r.Pick([]string{"0", "1", "-1", "32767", "+5", "0x10", "0o17"})
	case "double":
		return r.Pick([]string{"1.5", "-0.25", ".5", "3", "1.0", "2.5"})
	case "string":
		return r.Pick([]string{`"hi"`, `''`, `'a\'b'`, `"ü"`, `"a b"`})
	case "list<i32>":
		return r.Pick([]string{"[]", "[1, 2, 3]", "[1; 2]", "[ -1 ]"})
	case "list<string>":
		return r.Pick([]string{"[]", `["a", 'b']`})
	case "map<string, i32>":
		return r.Pick([]string{"{}", `{"a": 1, "b": 2}`, `{"k": 0x1f;}`})
	case "list<list<i32>>":
		return r.Pick([]string{"[[1], [], [2, 3]]"})
	case "map<string, list<i32>>":
		return `{"a": [1, 2], "b": []}`
	}
	return ""
}

func (g *idlGen) fields(fi int, n int, kind string, self string) string {
	r := g.r
	var sb strings.Builder
	id := 1
	for k := 0; k < n; k++ {
		sb.WriteString("  ")
		if r.Chance(20) {
			sb.WriteString("// field comment\n  ")
		}
		if r.Chance(25) {
			id += r.Intn(5)
		}
		ty := g.typ(fi, 3)
		if k == 0 && r.Chance(20) {
			ty = r.Pick([]string{"list<i32>", "list<string>", "map<string, i32>", "list<list<i32>>", "map<string, list<i32>>"})
		}
		req := ""
		if kind != "union" && kind != "args" {
			req = r.Pick([]string{"", "", "required ", "optional "})
		}
		if self != "" && k == n-1 && r.Chance(40) { // recursion through an optional field
			ty, req = self, "optional "
			if r.Chance(40) {
				ty = "list<" + self + ">"
			}
		}
		fmt.Fprintf(&sb, "%d: %s%s x%d", id, req, ty, k)
		if r.Chance(35) && kind != "union" && kind != "args" {
			if c := g.constFor(fi, ty); c != "" {
				sb.WriteString(" = " + c)
			} else if strings.Contains(ty, "E") && !strings.ContainsAny(ty, "<") {
				// an enum (local or included): default by value name
				sb.WriteString(" = " + ty + ".A")
			}
		}
		sb.WriteString(g.ann())
		sb.WriteString(r.Pick([]string{",", ";", "", ","}))
		if r.Chance(15) {
			sb.WriteString(" // end-line comment")
		}
		sb.WriteString("\n")
		id++
	}
	return sb.String()
}

func (g *idlGen) body(fi int) {
	r := g.r
	f := g.p.files[fi]
	var sb strings.Builder
	if r.Chance(30) {
		sb.WriteString("// file header comment\n")
	}
	for _, j := range f.incs {
		rel, err := filepath.Rel(filepath.Dir(f.path), g.p.files[j].path)
		if err != nil {
			rel = g.p.files[j].path
		}
		q := `"`
		if r.Chance(20) {
			q = "'"
		}
		fmt.Fprintf(&sb, "include %s%s%s\n", q, rel, q)
	}
	if r.Chance(25) {
		sb.WriteString("cpp_include \"<vector>\"\n")
	}
	if r.Chance(70) {
		fmt.Fprintf(&sb, "namespace go c11.%s%s\n", f.base, g.ann())
	}
	if r.Chance(30) {
		fmt.Fprintf(&sb, "namespace * any.%s\n", f.base)
	}
	if r.Chance(20) {
		fmt.Fprintf(&sb, "namespace java com.example.%s\n", f.base)
	}
	sb.WriteString("\n")
	// enums
	for k, n := 0, r.Intn(3); k < n; k++ {
		name := fmt.Sprintf("E%d_%d", fi, k)
		sb.WriteString(g.comment())
		fmt.Fprintf(&sb, "enum %s {\n  A = %d%s,\n", name, r.Intn(3), g.ann())
		if r.Chance(60) {
			sb.WriteString("  // value comment\n  B\n")
		}
		if r.Chance(40) {
			fmt.Fprintf(&sb, "  C = %d;\n", 10+r.Intn(100))
		}
		if r.Chance(20) {
			sb.WriteString("  D = 0x40\n")
		}
		fmt.Fprintf(&sb, "}%s\n\n", g.ann())
		f.enums = append(f.enums, name)
	}
	// i32 constants first (referenced by defaults below)
	for k, n := 0, r.Intn(3); k < n; k++ {
		name := fmt.Sprintf("C%d_%d", fi, k)
		sb.WriteString(g.comment())
		fmt.Fprintf(&sb, "const i32 %s = %s%s\n", name, g.constFor(fi, "i32"), g.ann())
		f.consts = append(f.consts, name)
	}
	// typedefs
	for k, n := 0, r.Intn(3); k < n; k++ {
		name := fmt.Sprintf("T%d_%d", fi, k)
		sb.WriteString(g.comment())
		fmt.Fprintf(&sb, "typedef %s %s%s\n", g.typ(fi, 2), name, g.ann())
		f.typedefs = append(f.typedefs, name)
	}
	// struct-likes
	for k, n := 0, r.Intn(4); k < n || (fi == 0 && k == 0); k++ {
		kind := r.Pick([]string{"struct", "struct", "struct", "union", "exception"})
		name := fmt.Sprintf("S%d_%d", fi, k)
		sb.WriteString(g.comment())
		fmt.Fprintf(&sb, "%s %s {\n%s}%s\n\n", kind, name, g.fields(fi, r.Intn(6), kind, name), g.ann())
		if kind == "exception" {
			f.excs = append(f.excs, name)
		}
		f.structs = append(f.structs, name)
	}
	// other constants
	for k, n := 0, r.Intn(4); k < n; k++ {
		ty := r.Pick([]string{"double", "string", "bool", "list<i32>", "map<string, i32>", "i64", "list<string>", "map<string, list<i32>>", "byte"})
		sb.WriteString(g.comment())
		fmt.Fprintf(&sb, "const %s K%d_%d = %s%s\n", ty, fi, k, g.constFor(fi, ty), r.Pick([]string{"", ";", ","}))
	}
	if es := g.visible(fi, func(f *idlFile) []string { return f.enums }); len(es) > 0 && r.Chance(60) {
		e := r.Pick(es)
		fmt.Fprintf(&sb, "const %s KE%d = %s.A\n", e, fi, e)
		if r.Chance(50) {
			fmt.Fprintf(&sb, "const list<%s> KEL%d = [%s.A, %s.A]\n", e, fi, e, e)
		}
		if r.Chance(40) {
			fmt.Fprintf(&sb, "const map<%s, string> KEM%d = {%s.A: \"a\"}\n", e, fi, e)
		}
	}
	// services
	for k, n := 0, r.Intn(3); k < n; k++ {
		name := fmt.Sprintf("V%d_%d", fi, k)
		ext := ""
		if svs := g.visible(fi, func(f *idlFile) []string { return f.services }); len(svs) > 0 && r.Chance(50) {
			ext = " extends " + r.Pick(svs)
		}
		sb.WriteString(g.comment())
		fmt.Fprintf(&sb, "service %s%s {\n", name, ext)
		for m, nm := 0, r.Intn(4); m < nm; m++ {
			sb.WriteString("  ")
			if r.Chance(20) {
				sb.WriteString("// method comment\n  ")
			}
			ret := "void"
			oneway := ""
			if r.Chance(20) {
				oneway = "oneway "
			} else if r.Chance(65) {
				ret = g.typ(fi, 2)
			}
			fmt.Fprintf(&sb, "%s%s m%d(\n%s  )", oneway, ret, m, g.fields(fi, r.Intn(4), "args", ""))
			if oneway == "" && r.Chance(40) {
				if xs := g.visible(fi, func(f *idlFile) []string { return f.excs }); len(xs) > 0 {
					fmt.Fprintf(&sb, " throws (1: %s e1)", r.Pick(xs))
				} else {
					sb.WriteString(" throws ()")
				}
			}
			sb.WriteString(g.ann())
			sb.WriteString(r.Pick([]string{",", ";", ""}))
			sb.WriteString("\n")
		}
		fmt.Fprintf(&sb, "}%s\n\n", g.ann())
		f.services = append(f.services, name)
	}
	f.text = sb.String()
}
