package main

import (
	"fmt"
	"os"
	"path/filepath"
	"strings"

	"github.com/cloudwego/thriftgo/parser"
	"github.com/cloudwego/thriftgo/plugin"

	"verifharness/c11lib"
	"verifharness/internal/values"
	"verifharness/internal/vl"
)

func run(repo, dir string, seed uint64, tier, thriftgo, plug, variants string) int {
	dir, _ = filepath.Abs(dir)
	repo, _ = filepath.Abs(repo)
	sc, err := c11lib.Extract(repo)
	if err != nil {
		fmt.Fprintln(os.Stderr, "extract:", err)
		return 1
	}
	work := filepath.Join(dir, "c11work")
	if err := os.MkdirAll(work, 0o755); err != nil {
		fmt.Fprintln(os.Stderr, err)
		return 1
	}
	if err := os.Chdir(work); err != nil {
		fmt.Fprintln(os.Stderr, err)
		return 1
	}
	h := &harness{repo: repo, sc: sc, out: vl.NewOut(dir), r: vl.NewRng(seed), work: work, tier: tier, thriftgo: thriftgo, plug: plug, variants: parseVariants(variants)}
	nReq, nSyn, nTree, nStr, nProc := 160, 60, 120, 300, 0 // process: the whole catalogue + nProc random scenarios
	if tier == "thorough" {
		nReq, nSyn, nTree, nStr, nProc = 1500, 600, 1000, 3000, 80
	}
	// repaired defects first
	if thriftgo != "" && plug != "" {
		h.processRegressions()
	}
	h.regressions()
	h.directed()
	h.suiteRequests(nReq)
	h.suiteSynthetic(nSyn)
	h.suiteTrees(nTree)
	h.suiteTrailer(nStr / 2)
	h.suiteVersion(nStr)
	h.suitePca(nStr)
	if thriftgo != "" && plug != "" {
		h.suiteProcess(nProc)
	}
	h.out.Close()
	os.RemoveAll(work)
	return 0
}

func parseVariants(s string) map[string]string {
	m := map[string]string{}
	for _, kv := range strings.Split(s, ",") {
		if i := strings.Index(kv, "="); i > 0 {
			m[kv[:i]] = kv[i+1:]
		}
	}
	return m
}

// ---------------------------------------------------------------- requests over parsed programs

func (h *harness) randomParams(lead string) []string {
	r := h.r
	if r.Chance(25) {
		return nil
	}
	pool := []string{"a", "k=v", "naming_style=golint", "x=", "=y", "p=/tmp/a b", "u=ü", "k=v=w", "json_enum_as_text", "v=1:2"}
	var parts []string
	for i, n := 0, 1+r.Intn(4); i < n; i++ {
		parts = append(parts, r.Pick(pool))
	}
	d, err := plugin.ParseCompactArguments(lead + ":" + strings.Join(parts, ","))
	if err != nil {
		return nil
	}
	return plugin.Pack(d.Options)
}

func (h *harness) newRequest(ast *parser.Thrift) *plugin.Request {
	r := h.r
	return &plugin.Request{
		Version:             r.Pick([]string{"0.4.5", "", "v0.4.2-rc1", "0.3.15"}),
		GeneratorParameters: h.randomParams("go"),
		PluginParameters:    h.randomParams("plug=/bin/x"),
		Language:            r.Pick([]string{"go", "fastgo", ""}),
		OutputPath:          r.Pick([]string{"./gen-go", "/tmp/out", "", "rel/ü"}),
		Recursive:           r.Bool(),
		AST:                 ast,
	}
}

func (h *harness) suiteRequests(n int) {
	made := 0
	for made < n {
		maxFiles := 5
		if h.r.Chance(30) {
			maxFiles = 2
		}
		p := genProgram(h.r, maxFiles)
		dir, err := h.writeProgram(p.Files())
		if err != nil {
			panic(err)
		}
		resolve := h.r.Chance(85)
		ast, err := parseMain(filepath.Join(dir, p.files[0].path), resolve)
		if err != nil {
			h.out.Count("program:rejected")
			if h.out.Stats["program:rejected"] <= 3 {
				h.out.Sample(map[string]interface{}{"rejected": err.Error(), "files": p.Files()})
			}
			made++ // bounded even if the generator were broken
			continue
		}
		h.out.Count("program:accepted")
		if resolve {
			h.out.Count("program:resolved")
		}
		files, defs, incs := astStats(ast)
		h.out.Stats["ast:files"] += files
		h.out.Stats["ast:definitions"] += defs
		h.out.Stats["ast:include-edges"] += incs
		if incs > files-1 {
			h.out.Count("program:diamond")
		}
		h.countKinds(ast)
		for k := 0; k < 2 && made < n; k++ {
			if k > 0 {
				h.mutate(ast)
			}
			req := h.newRequest(ast)
			made++
			if made <= 2 {
				h.out.Sample(map[string]interface{}{"request-over": p.files[0].text, "files": len(p.files)})
			}
			h.codecCase("request", h.reqCodec(), req, defs > 0 || incs > 0, true)
			if h.r.Chance(60) {
				h.out.Count("request:compressed")
				shape := project(ast) // before: a failing revert leaves the graph compressed
				h.treeCase("ast", ast, incs > 0)
				if project(ast) != shape {
					// the model case above already differs; report through the oracle on the shape alone
					h.reportCompress(p, shape, "compiler-side include graph not restored after compress/decompress")
					break
				}
				if bad, why := h.compressFails(req); bad {
					h.reportCompress(p, shape, why)
					break // the AST may be left half-compressed
				}
				// the compressed request is a request too: codec correspondence on it
				guard(func() { plugin.VerifCompressThriftInclude(ast) })
				h.codecCase("request-compressed", h.reqCodec(), req, incs > 0, true)
				if data, err := plugin.MarshalRequest(req); err == nil {
					h.uncCase(plugin.VerifAppendDataTrailer(data, plugin.VerifFeatureCompressInclude), incs > 0)
				}
				guard(func() { plugin.VerifDecompressThriftInclude(ast) })
			}
		}
		os.RemoveAll(filepath.Join(h.work, dir))
	}
}

func (h *harness) countKinds(ast *parser.Thrift) {
	eachFile(ast, func(t *parser.Thrift) {
		add := func(k string, n int) { h.out.Stats["node:"+k] += n }
		add("include", len(t.Includes))
		add("cpp_include", len(t.CppIncludes))
		add("namespace", len(t.Namespaces))
		add("typedef", len(t.Typedefs))
		add("constant", len(t.Constants))
		add("enum", len(t.Enums))
		add("struct", len(t.Structs))
		add("union", len(t.Unions))
		add("exception", len(t.Exceptions))
		add("service", len(t.Services))
		for _, s := range t.Services {
			add("function", len(s.Functions))
			if s.Reference != nil {
				add("service-extends-external", 1)
			}
			for _, f := range s.Functions {
				if f.Oneway {
					add("oneway", 1)
				}
				add("throws", len(f.Throws))
			}
		}
		for _, c := range t.Constants {
			if c.Value != nil {
				add("const:"+c.Value.Type.String(), 1)
				if c.Value.Extra != nil {
					add("const-extra", 1)
				}
			}
		}
		for _, group := range [][]*parser.StructLike{t.Structs, t.Unions, t.Exceptions} {
			for _, s := range group {
				add("field", len(s.Fields))
				for _, f := range s.Fields {
					if f.Default != nil {
						add("field-default", 1)
					}
					if f.Type != nil && f.Type.Reference != nil {
						add("type-reference", 1)
					}
					if f.Type != nil && f.Type.IsTypedef != nil {
						add("type-istypedef", 1)
					}
					if len(f.Annotations) > 0 {
						add("field-annotations", 1)
					}
					if f.ReservedComments != "" {
						add("reserved-comments", 1)
					}
				}
			}
		}
	})
}

func (h *harness) reportCompress(p *idlProgram, shape string, why string) {
	// try to reproduce on the include structure alone
	toks := strings.Fields(shape)
	if t, _, err := parseTnode(toks); err == nil {
		if bad, why2 := h.treeOracle(t); bad {
			t = h.shrinkTree(t)
			h.out.Fail(vl.OracleFail{
				Key:      keyOf("compress", t.String()),
				What:     "request decoded from include-compressed bytes is not the request the compiler built",
				Input:    map[string]interface{}{"kind": "tree", "tree": t.String()},
				Expected: "UnmarshalRequest(trailer(Marshal(compress(req)))) == req and the compiler-side AST restored",
				Observed: why2,
			})
			return
		}
	}
	h.out.Fail(vl.OracleFail{
		Key:      keyOf("compress-idl", jsonStr(p.Files())),
		What:     "request decoded from include-compressed bytes is not the request the compiler built",
		Input:    map[string]interface{}{"kind": "idl", "files": p.Files(), "main": p.files[0].path},
		Expected: "UnmarshalRequest(trailer(Marshal(compress(req)))) == req and the compiler-side AST restored",
		Observed: why,
	})
}

// ---------------------------------------------------------------- synthetic values

var strPool = []string{"", "a", "x.y", "THRIFGO_REF:", "ü", "\x00\xff", "a b", "include/../a.thrift", strings.Repeat("z", 300)}

func (h *harness) genValue(ty *c11lib.Ty, depth int, optional bool) *values.Value {
	r := h.r
	if optional && r.Chance(35) {
		return values.Nil()
	}
	switch ty.K {
	case 'b':
		return values.Bool(r.Bool())
	case 'y':
		return values.Int([]int64{0, 1, -1, 127, -128}[r.Intn(5)])
	case 'h':
		return values.Int([]int64{0, 1, -1, 32767, -32768, 255}[r.Intn(6)])
	case 'i', 'e':
		return values.Int([]int64{0, 1, -1, 2147483647, -2147483648, 17, 65536}[r.Intn(7)])
	case 'l':
		return values.Int([]int64{0, 1, -1, 9223372036854775807, -9223372036854775808, 1 << 40}[r.Intn(6)])
	case 'd':
		return values.Double([]uint64{0, 0x8000000000000000, 0x3ff8000000000000, 0x7ff0000000000000, 0x7ff8000000000001, 0xfff0000000000000, 1}[r.Intn(7)])
	case 's':
		return values.Str(r.Pick(strPool))
	case 'B':
		if r.Chance(15) {
			return values.Nil()
		}
		return values.Bytes([]byte(r.Pick(strPool)))
	case 'L', 'T':
		if r.Chance(12) {
			return values.Nil()
		}
		n := 0
		if depth > 0 {
			n = r.Intn(4)
		}
		out := &values.Value{K: ty.K, E: []*values.Value{}}
		for i := 0; i < n; i++ {
			out.E = append(out.E, h.genValue(ty.Elem, depth-1, false))
		}
		return out
	case 'M':
		if r.Chance(12) {
			return values.Nil()
		}
		out := &values.Value{K: values.KMap, E: []*values.Value{}}
		seen := map[string]bool{}
		for i, n := 0, r.Intn(4); i < n; i++ {
			k := h.genValue(ty.Key, depth-1, false)
			if seen[k.String()] {
				continue
			}
			seen[k.String()] = true
			out.E = append(out.E, k, h.genValue(ty.Elem, depth-1, false))
		}
		return values.SortMaps(out)
	case 'S':
		if depth <= 0 && optional {
			return values.Nil()
		}
		sd := h.sc.Structs[ty.S]
		out := &values.Value{K: values.KRecord}
		for _, f := range sd.Fields {
			if depth <= 0 && f.Ty.K == 'S' && f.Req == 'o' {
				out.E = append(out.E, values.Nil())
				continue
			}
			out.E = append(out.E, h.genValue(f.Ty, depth-1, f.Req == 'o'))
		}
		return out
	}
	panic("bad type")
}

func (h *harness) suiteSynthetic(n int) {
	for i := 0; i < n; i++ {
		c := h.reqCodec()
		label := "synthetic-request"
		if h.r.Chance(35) {
			c = h.resCodec()
			label = "synthetic-response"
		}
		v := h.genValue(&c11lib.Ty{K: 'S', S: c.sidx}, 3+h.r.Intn(5), false)
		obj := c.fresh()
		if err := h.sc.FromValue(c.sidx, v, obj); err != nil {
			panic(err)
		}
		if i < 2 {
			h.out.Sample(map[string]interface{}{label: clip(v.String())})
		}
		h.codecCase(label, c, obj, true, true)
	}
}

// regressions: witnesses of repaired defects, run before everything else.
//   - malformed bytes whose type bytes are >= 0x80 made the fast codec's Skip index a table with a negative
//     number: UnmarshalResponse/UnmarshalRequest must return an error (thriftgo then fails with a message)
//   - (process level, see suiteProcess) garbled plugin output of that kind, and two -g with one -p
func (h *harness) regressions() {
	for k, bs := range malformed {
		for _, c := range []codec{h.resCodec(), h.reqCodec()} {
			h.out.Count("regression:malformed-bytes")
			// one stable oracle key per codec (the minimal witness); the other shapes are correspondence cases
			if bad, why := h.unmarshalPanics(c, bs); bad && k == 0 {
				h.out.Fail(vl.OracleFail{
					Key:      keyOf("unmarshal-panic", fmt.Sprintf("%d %s", c.sidx, vl.Hex(string(bs)))),
					What:     "Unmarshal" + h.sc.Structs[c.sidx].Name + " panics on malformed bytes instead of returning an error",
					Input:    map[string]interface{}{"kind": "bytes", "sidx": c.sidx, "hex": vl.Hex(string(bs))},
					Expected: "an error", Observed: why})
			}
			h.unmCase(c, bs, true)
		}
	}
	r := vl.NewRng(uint64(len(malformed)) + 77) // a fixed handful of short byte strings with high bytes
	for i := 0; i < 40; i++ {
		bs := make([]byte, 3+r.Intn(10))
		for j := range bs {
			bs[j] = byte(r.Intn(256))
		}
		if r.Chance(50) {
			bs[0] = []byte{0x0f, 0x0d, 0x0e, 0x0c, 0x80, 0xff}[r.Intn(6)]
		}
		c := h.resCodec()
		h.out.Count("regression:random-bytes")
		h.unmCase(c, bs, true)
	}
}

// byte strings in which a type position holds a byte >= 0x80 (field type, list element type, map key type, nested)
var malformed = [][]byte{
	{0x80, 0x00, 0x01, 0x00},
	{0x0f, 0x00, 0x09, 0x80, 0x00, 0x00, 0x00, 0x01, 0x00, 0x00},
	{0x0d, 0x00, 0x09, 0x80, 0x0b, 0x00, 0x00, 0x00, 0x01, 0x00, 0x00},
	{0x0c, 0x00, 0x09, 0xff, 0x00, 0x01, 0x00, 0x00, 0x00},
}

func (h *harness) unmarshalPanics(c codec, bs []byte) (bool, string) {
	p, msg := guard(func() { c.unmarshal(bs) })
	return p, "panic: " + msg
}

// directed cases: shapes the generators reach rarely or never.
func (h *harness) directed() {
	// nil pointers in non-optional struct positions (the writer emits an empty struct): model
	// correspondence only, the property does not speak about requests the compiler never builds
	h.codecCase("directed-nil-ast", h.reqCodec(), &plugin.Request{Version: "x"}, true, false)
	h.codecCase("directed-nil-field-type", h.reqCodec(), &plugin.Request{AST: &parser.Thrift{
		Structs: []*parser.StructLike{{Name: "S", Fields: []*parser.Field{{ID: 1, Name: "f"}, nil}}}}}, true, false)
	h.codecCase("directed-empty-response", h.resCodec(), &plugin.Response{}, true, true)
	e := ""
	h.codecCase("directed-response-empty-error", h.resCodec(), &plugin.Response{Error: &e, Contents: []*plugin.Generated{}, Warnings: []string{}}, true, true)
	// truncations and foreign bytes through the reader
	req := &plugin.Request{Version: "0.4.5", Language: "go", OutputPath: "o", AST: &parser.Thrift{Filename: "a.thrift",
		Name2Category: map[string]parser.Category{"a": parser.Category_Struct, "b": parser.Category_Enum}}}
	bs, _ := plugin.MarshalRequest(req)
	for _, cut := range []int{0, 1, 5, len(bs) / 2, len(bs) - 1} {
		if cut >= 0 && cut < len(bs) {
			h.out.Count("codec:directed-truncated")
			h.unmCase(h.reqCodec(), bs[:cut], true)
		}
	}
	// unknown field (id 99, i32) and a retagged field (id 1 as i32) in front of a valid request: skipped
	h.out.Count("codec:directed-unknown-field")
	h.unmCase(h.reqCodec(), append([]byte{8, 0, 99, 0, 0, 0, 7}, bs...), true)
	h.unmCase(h.reqCodec(), append([]byte{8, 0, 1, 0, 0, 0, 7}, bs...), true)
	h.unmCase(h.reqCodec(), append(append([]byte{}, bs...), plugin.VerifPluginDataTrailer...), true)
	h.unmCase(h.resCodec(), []byte{0}, true)
	h.unmCase(h.resCodec(), []byte("hello"), true)
	// a response missing the required Generated.Content
	h.unmCase(h.resCodec(), []byte{15, 0, 2, 12, 0, 0, 0, 1, 0, 0}, true)

	// DEFECT PROBE (oracle): an included file whose name starts with the reference marker
	t := &tnode{fn: "main.thrift", kids: []*tnode{{fn: plugin.VerifRefFilenamePrefix + "x.thrift"}}}
	h.out.Count("tree:directed-marker-filename")
	if bad, why := h.treeOracle(t); bad {
		h.out.Fail(vl.OracleFail{
			Key:      keyOf("compress", t.String()),
			What:     "include compression: an included file whose name starts with \"" + plugin.VerifRefFilenamePrefix + "\" cannot be decoded by the plugin",
			Input:    map[string]interface{}{"kind": "tree", "tree": t.String()},
			Expected: "UnmarshalRequest(trailer(Marshal(compress(req)))) == req",
			Observed: why,
		})
	}
	h.treeCase("directed-marker-filename", t.build(true, map[string]*parser.Thrift{}), true)
}

// ---------------------------------------------------------------- synthetic include trees

func (h *harness) genTree(consistent bool, withMarker bool) *tnode {
	r := h.r
	nNames := 2 + r.Intn(6)
	names := make([]string, nNames)
	for i := range names {
		names[i] = fmt.Sprintf("f%d.thrift", i)
		if r.Chance(10) {
			names[i] = fmt.Sprintf("d/f%d.thrift", i)
		}
	}
	memo := map[string]*tnode{}
	budget := 40
	var mk func(level int, anc map[string]bool) *tnode
	mk = func(level int, anc map[string]bool) *tnode {
		// names are ordered: a node only includes higher-numbered names (no cycles), never an ancestor
		var cands []string
		for i := level; i < nNames; i++ {
			if !anc[names[i]] {
				cands = append(cands, names[i])
			}
		}
		if len(cands) == 0 || budget <= 0 {
			return nil
		}
		budget--
		fn := r.Pick(cands)
		if consistent {
			if t, ok := memo[fn]; ok {
				return t
			}
		}
		t := &tnode{fn: fn}
		idx := 0
		fmt.Sscanf(strings.TrimPrefix(strings.TrimPrefix(fn, "d/"), "f"), "%d", &idx)
		anc2 := map[string]bool{fn: true}
		for k := range anc {
			anc2[k] = true
		}
		for i, n := 0, r.Intn(4); i < n; i++ {
			if k := mk(idx+1, anc2); k != nil {
				t.kids = append(t.kids, k)
			}
		}
		if consistent {
			memo[fn] = t
		}
		return t
	}
	root := &tnode{fn: "main.thrift"}
	for i, n := 0, 1+r.Intn(4); i < n; i++ {
		if k := mk(0, map[string]bool{}); k != nil {
			root.kids = append(root.kids, k)
		}
	}
	if withMarker {
		// leaves whose names carry the marker: dangling, or naming a leaf that exists elsewhere
		leaf := &tnode{fn: plugin.VerifRefFilenamePrefix + r.Pick([]string{"nowhere.thrift", "", "leaf.thrift"})}
		root.kids = append(root.kids, &tnode{fn: "leaf.thrift"})
		pos := r.Intn(len(root.kids) + 1)
		root.kids = append(root.kids[:pos], append([]*tnode{leaf}, root.kids[pos:]...)...)
	}
	return root
}

func (h *harness) suiteTrees(n int) {
	for i := 0; i < n; i++ {
		c := h.r.Intn(10)
		switch {
		case c < 5: // consistent, shared by pointer (what the compiler builds)
			t := h.genTree(true, false)
			h.treeCase("consistent-shared", t.build(true, map[string]*parser.Thrift{}), t.size() > 2)
			if bad, why := h.treeOracle(t); bad {
				t = h.shrinkTree(t)
				h.out.Fail(vl.OracleFail{Key: keyOf("compress", t.String()),
					What:     "include compression does not round-trip on a consistent include graph",
					Input:    map[string]interface{}{"kind": "tree", "tree": t.String()},
					Expected: "UnmarshalRequest(trailer(Marshal(compress(req)))) == req", Observed: why})
			}
		case c < 7: // consistent, equal subtrees held by distinct pointers
			t := h.genTree(true, false)
			h.treeCase("consistent-unshared", t.build(false, nil), t.size() > 2)
		case c < 9: // inconsistent: equal names, different subtrees (outside the theorem; model = code)
			t := h.genTree(false, false)
			h.treeCase("inconsistent", t.build(false, nil), t.size() > 2)
		default:
			t := h.genTree(true, true)
			h.treeCase("marker-names", t.build(false, nil), true)
		}
	}
}

// ---------------------------------------------------------------- trailer, version gate, option strings

func (h *harness) suiteTrailer(n int) {
	r := h.r
	magic := plugin.VerifPluginDataTrailer
	for i := 0; i < n; i++ {
		var d []byte
		for k, m := 0, r.Intn(12); k < m; k++ {
			d = append(d, byte(r.Intn(256)))
		}
		feature := uint8([]int{1, 1, 1, 0, 2, 3, 128, 255}[r.Intn(8)])
		switch r.Intn(8) {
		case 0: // exactly the magic, no feature byte
			d = []byte(magic)
		case 1: // feature byte + magic
			d = append(append(d, byte(r.Intn(256))), magic...)
		case 2: // magic damaged in one byte
			m := []byte(magic)
			m[r.Intn(len(m))] ^= byte(1 + r.Intn(255))
			d = append(append(d, 1), m...)
		case 3: // magic not at the end
			d = append(append(append(d, 1), magic...), 0)
		case 4: // suffix of the magic only
			d = append([]byte{1}, magic[1+r.Intn(len(magic)-1):]...)
		}
		h.out.Count("trailer")
		has := plugin.VerifHasDataTrailerFeature(d, feature)
		h.out.Case(fmt.Sprintf("has %s %d", vl.Hex(string(d)), feature), vl.B(has), true)
		a := plugin.VerifAppendDataTrailer(append([]byte{}, d...), feature)
		ahas := plugin.VerifHasDataTrailerFeature(a, feature)
		h.out.Case(fmt.Sprintf("apt %s %d", vl.Hex(string(d)), feature), vl.Hex(string(a))+" "+vl.B(ahas), true)
		if !ahas || len(a) != len(d)+1+len(magic) || string(a[:len(d)]) != string(d) {
			h.out.Fail(vl.OracleFail{Key: keyOf("trailer", fmt.Sprintf("%s %d", vl.Hex(string(d)), feature)),
				What: "appended trailer not detected or data not preserved", Input: map[string]interface{}{"kind": "trailer", "data": vl.Hex(string(d)), "feature": feature},
				Expected: "hasDataTrailerFeature(appendDataTrailer(d,f),f) and d is a prefix", Observed: fmt.Sprintf("has=%v len=%d", ahas, len(a))})
		}
	}
}

func refVersionGE(a, b, c string) bool {
	// reference semantics on decimal strings of any length: (A,B,C) >= (0,4,2)
	trim := func(s string) string {
		s = strings.TrimLeft(s, "0")
		return s
	}
	cmp := func(x string, n string) int { // compare decimal strings without leading zeros
		x, n = trim(x), trim(n)
		if len(x) != len(n) {
			if len(x) < len(n) {
				return -1
			}
			return 1
		}
		return strings.Compare(x, n)
	}
	if cmp(a, "0") > 0 {
		return true
	}
	if c4 := cmp(b, "4"); c4 != 0 {
		return c4 > 0
	}
	return cmp(c, "2") >= 0
}

func (h *harness) suiteVersion(n int) {
	r := h.r
	nums := []string{"0", "1", "2", "3", "4", "5", "10", "04", "00", "42", "99999999999999999999", "9223372036854775807", "9223372036854775808"}
	odd := []string{"", "x", "+1", " 4", "4 ", "0x4", "1_0", "٤", "-", "4a"}
	fixed := []string{"", "(devel)", "v", "v0.4.2", "v0.4.1", "v0.4.2-0.20240101000000-abcdef123456", "0.4.2", "v1", "v100..", "v0.4.2+incompatible",
		"v0.5", "v0.4.2.1", "V0.4.2", "v-1.2.3", "v0.4.-2", "v0.4.2\n", "vv0.4.2", "v0.4.2-", "-v0.4.2", "v..", "v.4.2", "v0..2"}
	for i := 0; i < n; i++ {
		var v string
		wf := false
		var a, b, c string
		switch {
		case i < len(fixed):
			v = fixed[i]
		case r.Chance(60):
			a, b, c = r.Pick(nums), r.Pick(nums), r.Pick(nums)
			v = "v" + a + "." + b + "." + c
			if r.Chance(40) {
				v += "-" + r.Pick([]string{"rc1", "", "0.2024-abc", "1.2.3", "-", "pre.v9.9.9"})
			}
			wf = true
		default:
			parts := []string{r.Pick(append(nums, odd...)), r.Pick(append(nums, odd...)), r.Pick(append(nums, odd...))}
			if r.Chance(20) {
				parts = parts[:2]
			}
			if r.Chance(10) {
				parts = append(parts, "1")
			}
			v = r.Pick([]string{"v", "v", "v", "", "V"}) + strings.Join(parts, ".") + r.Pick([]string{"", "", "-x", "+m"})
		}
		got := plugin.VerifSupportDataTrailer(v)
		h.out.Count("version")
		if wf {
			h.out.Count("version:wellformed")
		}
		h.out.Case("ver "+vl.Hex(v), vl.B(got), true)
		if wf && got != refVersionGE(a, b, c) {
			h.out.Fail(vl.OracleFail{Key: keyOf("version", v), What: "supportDataTrailer disagrees with v >= v0.4.2",
				Input: map[string]interface{}{"kind": "version", "v": v}, Expected: refVersionGE(a, b, c), Observed: got})
		}
	}
}

func (h *harness) pcaImpl(s string) string {
	var d *plugin.Desc
	var err error
	if p, _ := guard(func() { d, err = plugin.ParseCompactArguments(s) }); p {
		return "panic"
	}
	if err != nil {
		return "err"
	}
	packed := plugin.Pack(d.Options)
	parts := make([]string, len(packed))
	for i, x := range packed {
		parts[i] = vl.Hex(x)
	}
	return strings.TrimRight(fmt.Sprintf("ok %s %d %s", vl.Hex(d.Name), len(packed), strings.Join(parts, " ")), " ")
}

func (h *harness) suitePca(n int) {
	r := h.r
	alpha := []string{"a", "b", "k", "v", "=", ":", ",", " ", "/", ".", "ü", "=", ","}
	fixed := []string{"", "go", "go:", ":", "go:a", "go:a=", "go:=b", "go:a=b=c", "go:a,,b", "p=/x/y:a=1", "go:a=1:2", "go::", ",", "="}
	for i := 0; i < n; i++ {
		var s string
		wf := false
		var name string
		var kvs [][2]string // value "\x00" = bare key
		switch {
		case i < len(fixed):
			s = fixed[i]
		case r.Chance(50): // well-formed per the theorem's hypotheses
			name = r.Pick([]string{"go", "p=/usr/bin/x", "", "a.b"})
			var parts []string
			for k, m := 0, 1+r.Intn(4); k < m; k++ {
				key := r.Pick([]string{"a", "naming_style", "", "x y", "p:q"})
				if r.Chance(40) {
					kvs = append(kvs, [2]string{key, "\x00"})
					parts = append(parts, key)
				} else {
					val := r.Pick([]string{"", "1", "a=b", "c:d", "/p q", "ü"})
					kvs = append(kvs, [2]string{key, val})
					parts = append(parts, key+"="+val)
				}
			}
			s = name + ":" + strings.Join(parts, ",")
			wf = true
		default:
			for k, m := 0, r.Intn(10); k < m; k++ {
				s += r.Pick(alpha)
			}
		}
		h.out.Count("pca")
		impl := h.pcaImpl(s)
		h.out.Case("pca "+vl.Hex(s), impl, s != "")
		if wf {
			h.out.Count("pca:wellformed")
			if !pcaHolds(name, kvs) {
				// shrink: drop options, then simplify the name
				for changed := true; changed; {
					changed = false
					for j := range kvs {
						cand := append(append([][2]string{}, kvs[:j]...), kvs[j+1:]...)
						if len(cand) > 0 && !pcaHolds(name, cand) {
							kvs, changed = cand, true
							break
						}
					}
				}
				if name != "p" && !pcaHolds("p", kvs) {
					name = "p"
				}
				s = pcaRender(name, kvs)
				h.out.Fail(vl.OracleFail{Key: keyOf("pca", s), What: "plugin parameters do not keep command-line order/content",
					Input: map[string]interface{}{"kind": "pca", "s": s, "name": name, "kvs": kvs}, Expected: kvs, Observed: h.pcaImpl(s)})
			}
		}
	}
}

func pcaRender(name string, kvs [][2]string) string {
	var parts []string
	for _, kv := range kvs {
		if kv[1] == "\x00" {
			parts = append(parts, kv[0])
		} else {
			parts = append(parts, kv[0]+"="+kv[1])
		}
	}
	return name + ":" + strings.Join(parts, ",")
}

// pcaHolds: the ORACLE for option strings — parse then pack gives key=value in order.
func pcaHolds(name string, kvs [][2]string) (ok bool) {
	defer func() {
		if recover() != nil {
			ok = false
		}
	}()
	d, err := plugin.ParseCompactArguments(pcaRender(name, kvs))
	if err != nil || d.Name != name || len(d.Options) != len(kvs) {
		return false
	}
	packed := plugin.Pack(d.Options)
	for j, kv := range kvs {
		want := kv[0] + "="
		if kv[1] != "\x00" {
			want += kv[1]
		}
		if packed[j] != want {
			return false
		}
	}
	return true
}
