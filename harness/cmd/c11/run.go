package main

import (
	"crypto/sha256"
	"encoding/hex"
	"encoding/json"
	"fmt"
	"os"
	"path/filepath"
	"sort"
	"strings"
	"time"

	"github.com/cloudwego/thriftgo/parser"
	"github.com/cloudwego/thriftgo/plugin"
	"github.com/cloudwego/thriftgo/semantic"

	"verifharness/c11lib"
	"verifharness/internal/values"
	"verifharness/internal/vl"
)

type harness struct {
	repo     string
	sc       *c11lib.Schema
	out      *vl.Out
	r        *vl.Rng
	work     string // cwd of the harness: IDL programs are written below it
	tier     string
	thriftgo string
	plug     string
	variants map[string]string // thriftgo version recorded in the build info -> c11plugin binary
	nprog    int
	baseline time.Duration // the slowest faultless thriftgo run seen so far (load of the machine)
}

func fnv(s string) uint64 {
	h := uint64(14695981039346656037)
	for i := 0; i < len(s); i++ {
		h = (h ^ uint64(s[i])) * 1099511628211
	}
	return h
}

// clip: long dumps are compared by FNV-1a hash and length (same rule in Driver/C11.lean).
func clip(s string) string {
	if len(s) <= 6000 {
		return s
	}
	return fmt.Sprintf("H%d %d", fnv(s), len(s))
}

func keyOf(kind, canon string) string {
	if len(canon) <= 200 {
		return "c11:" + kind + ":" + canon
	}
	h := sha256.Sum256([]byte(canon))
	return "c11:" + kind + ":sha256:" + hex.EncodeToString(h[:8])
}

func guard(f func()) (panicked bool, msg string) {
	defer func() {
		if r := recover(); r != nil {
			panicked, msg = true, fmt.Sprint(r)
		}
	}()
	f()
	return
}

// ---------------------------------------------------------------- programs → ASTs

func (h *harness) writeProgram(files map[string]string) (dir string, err error) {
	h.nprog++
	dir = fmt.Sprintf("p%d", h.nprog)
	for p, text := range files {
		full := filepath.Join(h.work, dir, p)
		if err = os.MkdirAll(filepath.Dir(full), 0o755); err != nil {
			return
		}
		if err = os.WriteFile(full, []byte(text), 0o644); err != nil {
			return
		}
	}
	return
}

// parse runs the front end the way sdk.InvokeThriftgo does.
func parseMain(path string, resolve bool) (ast *parser.Thrift, err error) {
	if p, msg := guard(func() {
		ast, err = parser.ParseFile(path, nil, true)
		if err != nil {
			return
		}
		if c := parser.CircleDetect(ast); c != "" {
			err = fmt.Errorf("include circle %s", c)
			return
		}
		if !resolve {
			return
		}
		if _, err = semantic.NewChecker(semantic.Options{FixWarnings: true}).CheckAll(ast); err != nil {
			return
		}
		err = semantic.ResolveSymbols(ast)
	}); p {
		return nil, fmt.Errorf("front end panicked: %s", msg)
	}
	return
}

func eachFile(ast *parser.Thrift, f func(t *parser.Thrift)) {
	seen := map[*parser.Thrift]bool{}
	var walk func(t *parser.Thrift)
	walk = func(t *parser.Thrift) {
		if t == nil || seen[t] {
			return
		}
		seen[t] = true
		f(t)
		for _, inc := range t.Includes {
			walk(inc.Reference)
		}
	}
	walk(ast)
}

// mutate sets/unsets optional members and swaps nil/empty containers (shared nodes stay shared).
func (h *harness) mutate(ast *parser.Thrift) {
	r := h.r
	eachFile(ast, func(t *parser.Thrift) {
		for _, inc := range t.Includes {
			switch r.Intn(6) {
			case 0:
				inc.Used = nil
			case 1:
				b := true
				inc.Used = &b
			case 2:
				b := false
				inc.Used = &b
			}
		}
		if r.Chance(15) && len(t.CppIncludes) == 0 {
			t.CppIncludes = []string{}
		}
		if r.Chance(10) && len(t.Name2Category) == 0 {
			t.Name2Category = map[string]parser.Category{}
		}
		if r.Chance(10) && len(t.Services) == 0 {
			t.Services = []*parser.Service{}
		}
		for _, s := range t.Structs {
			if r.Chance(10) && len(s.Annotations) == 0 {
				s.Annotations = parser.Annotations{}
			}
			for _, f := range s.Fields {
				if r.Chance(5) && f.Type != nil {
					switch r.Intn(3) {
					case 0:
						f.Type.IsTypedef = nil
					case 1:
						b := false
						f.Type.IsTypedef = &b
					}
				}
			}
		}
	})
}

func astStats(ast *parser.Thrift) (files, defs, incs int) {
	eachFile(ast, func(t *parser.Thrift) {
		files++
		incs += len(t.Includes)
		defs += len(t.Typedefs) + len(t.Constants) + len(t.Enums) + len(t.Structs) + len(t.Unions) + len(t.Exceptions) + len(t.Services)
	})
	return
}

// ---------------------------------------------------------------- include trees

func project(t *parser.Thrift) string {
	var sb strings.Builder
	var walk func(t *parser.Thrift)
	walk = func(t *parser.Thrift) {
		fmt.Fprintf(&sb, "N %s %d", vl.Hex(t.Filename), len(t.Includes))
		for _, inc := range t.Includes {
			sb.WriteByte(' ')
			if inc.Reference == nil {
				sb.WriteString("N - 0")
			} else {
				walk(inc.Reference)
			}
		}
	}
	walk(t)
	return sb.String()
}

type tnode struct {
	fn   string
	kids []*tnode
}

func (t *tnode) String() string {
	var sb strings.Builder
	var walk func(t *tnode)
	walk = func(t *tnode) {
		fmt.Fprintf(&sb, "N %s %d", vl.Hex(t.fn), len(t.kids))
		for _, k := range t.kids {
			sb.WriteByte(' ')
			walk(k)
		}
	}
	walk(t)
	return sb.String()
}

func parseTnode(toks []string) (*tnode, []string, error) {
	if len(toks) < 3 || toks[0] != "N" {
		return nil, nil, fmt.Errorf("bad tree")
	}
	n := 0
	if _, err := fmt.Sscanf(toks[2], "%d", &n); err != nil {
		return nil, nil, err
	}
	t := &tnode{fn: vl.UnHex(toks[1])}
	rest := toks[3:]
	for i := 0; i < n; i++ {
		k, r, err := parseTnode(rest)
		if err != nil {
			return nil, nil, err
		}
		t.kids = append(t.kids, k)
		rest = r
	}
	return t, rest, nil
}

// build makes the pointer graph; share: one *Thrift per filename (first occurrence wins).
func (t *tnode) build(share bool, memo map[string]*parser.Thrift) *parser.Thrift {
	if share {
		if p, ok := memo[t.fn]; ok {
			return p
		}
	}
	p := &parser.Thrift{Filename: t.fn}
	if share {
		memo[t.fn] = p
	}
	for i, k := range t.kids {
		p.Includes = append(p.Includes, &parser.Include{Path: fmt.Sprintf("i%d.thrift", i), Reference: k.build(share, memo)})
	}
	return p
}

func (t *tnode) size() int {
	n := 1
	for _, k := range t.kids {
		n += k.size()
	}
	return n
}

// ---------------------------------------------------------------- codec cases

type codec struct {
	sidx      int
	marshal   func(obj interface{}) ([]byte, error)
	unmarshal func(bs []byte) (interface{}, error)
	fresh     func() interface{}
}

func (h *harness) reqCodec() codec {
	return codec{h.sc.Request,
		func(o interface{}) ([]byte, error) { return plugin.MarshalRequest(o.(*plugin.Request)) },
		func(b []byte) (interface{}, error) { return plugin.UnmarshalRequest(b) },
		func() interface{} { return &plugin.Request{} }}
}

func (h *harness) resCodec() codec {
	return codec{h.sc.Response,
		func(o interface{}) ([]byte, error) { return plugin.MarshalResponse(o.(*plugin.Response)) },
		func(b []byte) (interface{}, error) { return plugin.UnmarshalResponse(b) },
		func() interface{} { return &plugin.Response{} }}
}

// roundTripFails evaluates the ORACLE on the implementation alone: decode(encode(obj)) is structurally
// equal to obj (nil and empty containers identified in non-optional positions).
func (h *harness) roundTripFails(c codec, obj interface{}) (bool, string) {
	ty := &c11lib.Ty{K: 'S', S: c.sidx}
	v, err := h.sc.ToValue(c.sidx, obj)
	if err != nil {
		return true, "cannot describe built object: " + err.Error()
	}
	var bs []byte
	var dec interface{}
	var derr error
	if p, msg := guard(func() {
		bs, err = c.marshal(obj)
		if err == nil {
			dec, derr = c.unmarshal(bs)
		}
	}); p {
		return true, "panic: " + msg
	}
	if err != nil {
		return true, "marshal error: " + err.Error()
	}
	if derr != nil {
		return true, "unmarshal error: " + derr.Error()
	}
	dv, err := h.sc.ToValue(c.sidx, dec)
	if err != nil {
		return true, "cannot describe decoded object: " + err.Error()
	}
	if d := h.sc.FirstDiff(ty, h.sc.Normalize(ty, v, false), h.sc.Normalize(ty, dv, false), "$"); d != "" {
		return true, "decoded differs from built at " + d
	}
	return false, ""
}

func (h *harness) codecCase(label string, c codec, obj interface{}, nontrivial bool, oracle bool) {
	v, err := h.sc.ToValue(c.sidx, obj)
	if err != nil {
		panic(err)
	}
	h.out.Count("codec:" + label)
	var bs []byte
	var merr error
	p, _ := guard(func() { bs, merr = c.marshal(obj) })
	vs := v.String()
	switch {
	case p:
		h.out.Case(fmt.Sprintf("mar %d - %s", c.sidx, vs), "panic", nontrivial)
	case merr != nil:
		h.out.Case(fmt.Sprintf("mar %d - %s", c.sidx, vs), "err", nontrivial)
	default:
		h.out.Case(fmt.Sprintf("mar %d %s %s", c.sidx, vl.Hex(string(bs)), vs), fmt.Sprintf("ok %d", len(bs)), nontrivial)
		h.unmCaseOp(c, bs, fmt.Sprintf("unm %d = %s", c.sidx, shortHash(bs)), nontrivial) // "=": the bytes of the preceding mar line
	}
	h.out.Stats["bytes:codec"] += len(bs)
	if !oracle {
		return
	}
	if bad, why := h.roundTripFails(c, obj); bad {
		// shrink on the value
		min := h.shrinkValue(c, v)
		h.out.Fail(vl.OracleFail{
			Key:      keyOf("roundtrip", fmt.Sprintf("%d %s", c.sidx, min.String())),
			What:     "decoded " + h.sc.Structs[c.sidx].Name + " is not structurally equal to the built one",
			Input:    map[string]interface{}{"kind": "value", "sidx": c.sidx, "vl": min.String()},
			Expected: "Unmarshal(Marshal(x)) == x",
			Observed: why,
		})
	}
}

func shortHash(bs []byte) string {
	h := sha256.Sum256(bs)
	return hex.EncodeToString(h[:6])
}

func (h *harness) unmCase(c codec, bs []byte, nontrivial bool) {
	h.unmCaseOp(c, bs, fmt.Sprintf("unm %d %s", c.sidx, vl.Hex(string(bs))), nontrivial)
}

func (h *harness) unmCaseOp(c codec, bs []byte, op string, nontrivial bool) {
	var dec interface{}
	var derr error
	impl := ""
	if p, _ := guard(func() { dec, derr = c.unmarshal(bs) }); p {
		impl = "panic"
	} else if derr != nil {
		impl = "err"
	} else {
		dv, err := h.sc.ToValue(c.sidx, dec)
		if err != nil {
			impl = "undescribable " + err.Error()
		} else {
			impl = "ok " + clip(dv.String())
		}
	}
	h.out.Case(op, impl, nontrivial)
}

// uncCase: UnmarshalRequest on bytes that may carry the trailer (FastRead, then decompress), against the
// model's read + decompress on the AST as an include tree with payloads.
func (h *harness) uncCase(bs []byte, nontrivial bool) {
	var dec *plugin.Request
	var derr error
	impl := ""
	if p, _ := guard(func() { dec, derr = plugin.UnmarshalRequest(bs) }); p {
		impl = "panic"
	} else if derr != nil {
		impl = "err"
	} else if dv, err := h.sc.ToValue(h.sc.Request, dec); err != nil {
		impl = "undescribable " + err.Error()
	} else {
		impl = "ok " + clip(dv.String())
	}
	h.out.Count("codec:unmarshal-request-with-trailer")
	h.out.Case("unc "+vl.Hex(string(bs)), impl, nontrivial)
}

// shrinkValue greedily simplifies v while the round-trip oracle keeps failing.
func (h *harness) shrinkValue(c codec, v *values.Value) *values.Value {
	fails := func(x *values.Value) bool {
		obj := c.fresh()
		if err := h.sc.FromValue(c.sidx, x, obj); err != nil {
			return false
		}
		bad, _ := h.roundTripFails(c, obj)
		return bad
	}
	if !fails(v) {
		return v // not reproducible from the value alone (e.g. needs pointer sharing)
	}
	cur := v.Clone()
	budget := 3000
	for progress := true; progress && budget > 0; {
		progress = false
		type slot struct {
			v     *values.Value
			nilOK bool // nil is inside the property's domain here (optional member, container, binary)
		}
		var slots []slot
		var collect func(x *values.Value, ty *c11lib.Ty, optional bool)
		collect = func(x *values.Value, ty *c11lib.Ty, optional bool) {
			slots = append(slots, slot{x, optional || ty.K == 'L' || ty.K == 'T' || ty.K == 'M' || ty.K == 'B'})
			if x.IsNil() {
				return
			}
			switch ty.K {
			case 'L', 'T':
				for _, e := range x.E {
					collect(e, ty.Elem, false)
				}
			case 'M':
				for i, e := range x.E {
					if i%2 == 0 {
						collect(e, ty.Key, false)
					} else {
						collect(e, ty.Elem, false)
					}
				}
			case 'S':
				sd := h.sc.Structs[ty.S]
				for i, e := range x.E {
					if i < len(sd.Fields) {
						collect(e, sd.Fields[i].Ty, sd.Fields[i].Req == 'o')
					}
				}
			}
		}
		collect(cur, &c11lib.Ty{K: 'S', S: c.sidx}, false)
		var nodes []*values.Value
		nilOK := map[*values.Value]bool{}
		for _, sl := range slots {
			nodes = append(nodes, sl.v)
			nilOK[sl.v] = sl.nilOK
		}
		for _, n := range nodes {
			if budget <= 0 {
				break
			}
			saved := *n
			var cands []values.Value
			switch n.K {
			case values.KList, values.KSet:
				for i := range n.E {
					e := append(append([]*values.Value{}, n.E[:i]...), n.E[i+1:]...)
					cands = append(cands, values.Value{K: n.K, E: e})
				}
			case values.KMap:
				for i := 0; i < len(n.E); i += 2 {
					e := append(append([]*values.Value{}, n.E[:i]...), n.E[i+2:]...)
					cands = append(cands, values.Value{K: n.K, E: e})
				}
			case values.KBytes:
				if len(n.X) > 0 {
					cands = append(cands, values.Value{K: values.KBytes, X: []byte{}})
				}
			case values.KInt:
				if n.I != 0 {
					cands = append(cands, values.Value{K: values.KInt})
				}
			}
			if n != cur && n.K != values.KNil && nilOK[n] {
				cands = append(cands, values.Value{K: values.KNil})
			}
			for _, cnd := range cands {
				*n = cnd
				budget--
				if fails(cur) {
					progress = true
					break
				}
				*n = saved
			}
		}
	}
	return cur
}

// ---------------------------------------------------------------- compression cases

// compressFails is the ORACLE for include compression on a pointer graph built by the compiler (or by
// build(share=true)): compress → marshal → trailer → UnmarshalRequest gives back the request; the revert
// restores the compiler's own AST; the trailer is detected only where it was appended.
func (h *harness) compressFails(req *plugin.Request) (bool, string) {
	ty := &c11lib.Ty{K: 'S', S: h.sc.Request}
	before, err := h.sc.ToValue(h.sc.Request, req)
	if err != nil {
		return true, err.Error()
	}
	var plain, data, dataT []byte
	var dec *plugin.Request
	var derr error
	if p, msg := guard(func() {
		plain, _ = plugin.MarshalRequest(req)
		plugin.VerifCompressThriftInclude(req.AST)
		data, _ = plugin.MarshalRequest(req)
		dataT = plugin.VerifAppendDataTrailer(append([]byte{}, data...), plugin.VerifFeatureCompressInclude)
		plugin.VerifDecompressThriftInclude(req.AST)
		dec, derr = plugin.UnmarshalRequest(dataT)
	}); p {
		return true, "panic: " + msg
	}
	if derr != nil {
		return true, "unmarshal error: " + derr.Error()
	}
	after, err := h.sc.ToValue(h.sc.Request, req)
	if err != nil {
		return true, err.Error()
	}
	if d := h.sc.FirstDiff(ty, before, after, "$"); d != "" {
		return true, "compiler-side AST not restored after decompress: " + d
	}
	dv, err := h.sc.ToValue(h.sc.Request, dec)
	if err != nil {
		return true, err.Error()
	}
	if d := h.sc.FirstDiff(ty, h.sc.Normalize(ty, before, false), h.sc.Normalize(ty, dv, false), "$"); d != "" {
		return true, "request decoded from compressed bytes differs from built at " + d
	}
	// sharing, checked by filename: after decompression every occurrence of a file is one node
	byName := map[string]*parser.Thrift{}
	shared := ""
	var walk func(t *parser.Thrift, depth int)
	walk = func(t *parser.Thrift, depth int) {
		if t == nil || depth > 64 || shared != "" {
			return
		}
		for _, inc := range t.Includes {
			if inc.Reference == nil {
				continue
			}
			if p, ok := byName[inc.Reference.Filename]; ok {
				if p != inc.Reference {
					shared = inc.Reference.Filename
					return
				}
				continue // seen through another path
			}
			byName[inc.Reference.Filename] = inc.Reference
			walk(inc.Reference, depth+1)
		}
	}
	walk(dec.AST, 0)
	if shared != "" {
		return true, "decompressed request holds two different nodes for file " + shared
	}
	if !plugin.VerifHasDataTrailerFeature(dataT, plugin.VerifFeatureCompressInclude) {
		return true, "trailer not detected on compressed request"
	}
	if plugin.VerifHasDataTrailerFeature(data, plugin.VerifFeatureCompressInclude) || plugin.VerifHasDataTrailerFeature(plain, plugin.VerifFeatureCompressInclude) {
		return true, "trailer detected on bytes without trailer"
	}
	return false, ""
}

// treeCase runs compress/decompress on a pointer graph and records the model case on its unfolding.
func (h *harness) treeCase(label string, root *parser.Thrift, nontrivial bool) {
	h.out.Count("tree:" + label)
	t0 := project(root)
	req := &plugin.Request{Version: "v", Language: "go", OutputPath: "o", AST: root}
	var treeC, res string
	var data []byte
	if p, _ := guard(func() {
		plugin.VerifCompressThriftInclude(root)
		treeC = project(root)
		data, _ = plugin.MarshalRequest(req)
		data = plugin.VerifAppendDataTrailer(data, plugin.VerifFeatureCompressInclude)
		dec, err := plugin.UnmarshalRequest(data)
		if err != nil {
			res = "err"
		} else {
			res = "ok " + project(dec.AST)
		}
	}); p {
		if treeC == "" {
			treeC = "panic"
		}
		res = "panic"
	}
	guard(func() { plugin.VerifDecompressThriftInclude(root) }) // leave the graph as it was
	h.out.Case("cmp "+t0, clip(treeC)+" | "+clip(res), nontrivial)
	if data != nil && label != "ast" {
		h.uncCase(data, nontrivial)
	}
}

// ---------------------------------------------------------------- oracle-only checks on trees

func (h *harness) treeOracle(t *tnode) (bool, string) {
	root := t.build(true, map[string]*parser.Thrift{})
	req := &plugin.Request{Version: "v", Language: "go", OutputPath: "o", AST: root}
	return h.compressFails(req)
}

func (h *harness) shrinkTree(t *tnode) *tnode {
	bad, _ := h.treeOracle(t)
	if !bad {
		return t
	}
	for progress := true; progress; {
		progress = false
		var nodes []*tnode
		var collect func(x *tnode)
		collect = func(x *tnode) {
			nodes = append(nodes, x)
			for _, k := range x.kids {
				collect(k)
			}
		}
		collect(t)
	outer:
		for _, n := range nodes {
			for i := range n.kids {
				saved := n.kids
				n.kids = append(append([]*tnode{}, saved[:i]...), saved[i+1:]...)
				if bad, _ := h.treeOracle(t); bad {
					progress = true
					break outer
				}
				n.kids = saved
			}
		}
	}
	return t
}

// ---------------------------------------------------------------- misc

func sortedKeys(m map[string]string) []string {
	var ks []string
	for k := range m {
		ks = append(ks, k)
	}
	sort.Strings(ks)
	return ks
}

func jsonStr(v interface{}) string {
	b, _ := json.Marshal(v)
	return string(b)
}
