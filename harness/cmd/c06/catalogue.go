package main

// catalogue.go: deterministic programs that are part of every run -- every way of writing a value, for every
// type shape, with the value the IDL means written down by hand (`want`). They complement the seeded generator
// (whose distribution varies with the seed) and carry the replays of the defects found so far.

import (
	"math"
	"strconv"

	"verifharness/internal/idlgen"
	"verifharness/internal/values"
)

func tb(k idlgen.Kind) *idlgen.Type                { return &idlgen.Type{Kind: k} }
func tn(file int, name string) *idlgen.Type        { return &idlgen.Type{Kind: idlgen.Named, Named: &idlgen.NamedRef{File: file, Name: name}} }
func tl(e *idlgen.Type) *idlgen.Type               { return &idlgen.Type{Kind: idlgen.List, Elem: e} }
func ts(e *idlgen.Type) *idlgen.Type               { return &idlgen.Type{Kind: idlgen.Set, Elem: e} }
func tm(k, e *idlgen.Type) *idlgen.Type            { return &idlgen.Type{Kind: idlgen.Map, Key: k, Elem: e} }
func vI(i int64) *values.Value                     { return values.Int(i) }
func vD(f float64) *values.Value                   { return values.Double(math.Float64bits(f)) }
func vS(s string) *values.Value                    { return values.Str(s) }
func vB(b bool) *values.Value                      { return values.Bool(b) }
func vN() *values.Value                            { return values.Nil() }
func vL(e ...*values.Value) *values.Value          { return &values.Value{K: values.KList, E: append([]*values.Value{}, e...)} }
func vT(e ...*values.Value) *values.Value          { return &values.Value{K: values.KSet, E: append([]*values.Value{}, e...)} }
func vM(e ...*values.Value) *values.Value          { return &values.Value{K: values.KMap, E: append([]*values.Value{}, e...)} }
func vR(e ...*values.Value) *values.Value          { return &values.Value{K: values.KRecord, E: e} }
func cI(text string, v *values.Value) *idlgen.Const { return &idlgen.Const{Kind: idlgen.CInt, Text: text, Val: v} }
func cD(text string) *idlgen.Const {
	f, err := strconv.ParseFloat(text, 64)
	if err != nil {
		panic(err)
	}
	return &idlgen.Const{Kind: idlgen.CDouble, Text: text, Val: vD(f)}
}
func cS(text string, q byte, v string) *idlgen.Const {
	return &idlgen.Const{Kind: idlgen.CString, Text: text, Quote: q, Val: vS(v)}
}
func cQ(text string) *idlgen.Const { return cS(text, '"', text) }
func cId(text string, v *values.Value) *idlgen.Const {
	return &idlgen.Const{Kind: idlgen.CIdent, Text: text, Val: v}
}
func cL(v *values.Value, items ...*idlgen.Const) *idlgen.Const {
	return &idlgen.Const{Kind: idlgen.CList, Sep: ",", Items: items, Val: v}
}
func cM(v *values.Value, items ...*idlgen.Const) *idlgen.Const {
	return &idlgen.Const{Kind: idlgen.CMap, Sep: ",", Items: items, Val: v}
}
func fld(id int16, name string, req idlgen.Req, t *idlgen.Type, d *idlgen.Const) *idlgen.Field {
	return &idlgen.Field{ID: id, HasID: true, Name: name, Req: req, Type: t, Default: d}
}
func cdef(name string, t *idlgen.Type, v *idlgen.Const) *idlgen.ConstDef {
	return &idlgen.ConstDef{Name: name, Type: t, Value: v}
}

const (
	rD = idlgen.Default
	rR = idlgen.Required
	rO = idlgen.Optional
)

type catProgram struct {
	name string
	prog *idlgen.Program
	opts [][]string // option sets to run under (nil: the default pair)
	vtic bool   // usable under value_type_in_container
	defect string // non-empty: the program is the replay of a known defect (stable key)
}

// catalogueWays: every way of writing a value.
func catalogueWays() *idlgen.Program {
	b := &idlgen.File{Path: "b.thrift", GoNS: "cat.pb"}
	b.Enums = []*idlgen.Enum{{Name: "E1", Values: []idlgen.EnumValue{{Name: "A", Value: 1, HasValue: true}, {Name: "B", Value: 5, HasValue: true}}}}
	b.Typedefs = []*idlgen.Typedef{{Name: "BInt", Type: tb(idlgen.I32)}}
	b.Structs = []*idlgen.Struct{{Kind: 's', Name: "SB", Fields: []*idlgen.Field{
		fld(1, "x", rD, tb(idlgen.I32), cI("3", vI(3))),
		fld(2, "s", rO, tb(idlgen.String), nil),
		fld(3, "n", rO, tb(idlgen.I64), cI("9", vI(9))),
	}}}
	b.Consts = []*idlgen.ConstDef{
		cdef("BI", tb(idlgen.I32), cI("7", vI(7))),
		cdef("BS", tb(idlgen.String), cQ("hi")),
		cdef("BD", tb(idlgen.Double), cD("2.5")),
		cdef("BB", tb(idlgen.Bool), cId("true", vB(true))),
		cdef("BE", tn(1, "E1"), cId("E1.B", vI(5))),
		cdef("BL", tl(tb(idlgen.I32)), cL(vL(vI(1), vI(2)), cI("1", vI(1)), cI("2", vI(2)))),
		cdef("BT", tn(1, "BInt"), cI("12", vI(12))),
	}
	a := &idlgen.File{Path: "a.thrift", GoNS: "cat.pa", Includes: []int{1}}
	a.Typedefs = []*idlgen.Typedef{
		{Name: "MyInt", Type: tb(idlgen.I32)},
		{Name: "MyInt2", Type: tn(0, "MyInt")},
		{Name: "Str", Type: tb(idlgen.String)},
		{Name: "Dbl", Type: tb(idlgen.Double)},
		{Name: "EE", Type: tn(0, "E")},
	}
	a.Enums = []*idlgen.Enum{{Name: "E", Values: []idlgen.EnumValue{{Name: "X", Value: 0}, {Name: "Y", Value: 4, HasValue: true}, {Name: "Z", Value: -2, HasValue: true}}}}
	tE := tn(0, "E")
	tIn := tn(0, "In")
	// struct In: Go shapes  a int32 | b *int32 | c string | d []int32 | e E | f []byte | g float64 | h *bool | m MyInt | be pb.E1 | o *E | u *Str
	in := &idlgen.Struct{Kind: 's', Name: "In", Fields: []*idlgen.Field{
		fld(1, "a", rD, tb(idlgen.I32), cI("1", vI(1))),
		fld(2, "b", rO, tb(idlgen.I32), nil),
		fld(3, "c", rO, tb(idlgen.String), cQ("dd")),
		fld(4, "d", rD, tl(tb(idlgen.I32)), nil),
		fld(5, "e", rO, tE, cId("E.Y", vI(4))),
		fld(6, "f", rO, tb(idlgen.Binary), cQ("bin")),
		fld(7, "g", rO, tb(idlgen.Double), cI("1", vD(1))),
		fld(8, "h", rO, tb(idlgen.Bool), nil),
		fld(9, "m", rR, tn(0, "MyInt"), cId("I2", vI(7))),
		fld(10, "be", rD, tn(1, "E1"), cId("b.E1.A", vI(1))),
		fld(11, "u", rO, tn(0, "Str"), nil),
	}}
	inZero := func() []*values.Value {
		return []*values.Value{vI(0), vN(), vS(""), vN(), vI(0), vN(), vD(0), vN(), vI(0), vI(0), vN()}
	}
	inWith := func(set map[int]*values.Value) *values.Value {
		z := inZero()
		for i, v := range set {
			z[i] = v
		}
		return vR(z...)
	}
	sbWith := func(set map[int]*values.Value) *values.Value {
		z := []*values.Value{vI(0), vN(), vI(0)}
		for i, v := range set {
			z[i] = v
		}
		return vR(z...)
	}
	out := &idlgen.Struct{Kind: 's', Name: "Out", Fields: []*idlgen.Field{
		fld(1, "i", rD, tIn, cM(inWith(map[int]*values.Value{0: vI(5), 1: vI(6), 7: vB(true), 10: vS("u")}),
			cQ("a"), cI("5", vI(5)), cQ("b"), cI("6", vI(6)), cQ("h"), cId("true", vB(true)), cQ("u"), cQ("u"))),
		fld(2, "j", rO, tIn, nil),
		fld(3, "k", rD, tl(tIn), cL(vL(inWith(map[int]*values.Value{0: vI(1)})), cM(inWith(map[int]*values.Value{0: vI(1)}), cQ("a"), cI("1", vI(1))))),
		fld(4, "m", rD, tm(tE, tIn), cM(vM(vI(0), inWith(map[int]*values.Value{3: vL(vI(1))})),
			cId("E.X", vI(0)), cM(inWith(map[int]*values.Value{3: vL(vI(1))}), cQ("d"), cL(vL(vI(1)), cI("1", vI(1)))))),
		fld(5, "sb", rD, tn(1, "SB"), cM(sbWith(map[int]*values.Value{0: vI(4), 1: vS("q")}), cQ("x"), cI("4", vI(4)), cQ("s"), cQ("q"))),
		fld(6, "s", rD, ts(tb(idlgen.I64)), cL(vT(vI(1), vI(2)), cI("1", vI(1)), cI("2", vI(2)))),
		fld(7, "ms", rD, tm(tb(idlgen.String), tb(idlgen.String)), cM(vM(vS("a"), vS("b")), cQ("a"), cQ("b"))),
		fld(8, "e", rD, tn(0, "EE"), cI("4", vI(4))),
		fld(9, "req", rR, tb(idlgen.Bool), cI("1", vB(true))),
	}}
	un := &idlgen.Struct{Kind: 'u', Name: "U", Fields: []*idlgen.Field{
		fld(1, "a", rD, tb(idlgen.I32), cI("4", vI(4))),
		fld(2, "b", rD, tb(idlgen.String), nil),
	}}
	ex := &idlgen.Struct{Kind: 'e', Name: "X", Fields: []*idlgen.Field{
		fld(1, "msg", rD, tb(idlgen.String), cS("it's", '"', "it's")),
		fld(2, "code", rO, tb(idlgen.I16), cI("-3", vI(-3))),
	}}
	a.Structs = []*idlgen.Struct{in, out, un, ex}
	str := tb(idlgen.String)
	i32 := tb(idlgen.I32)
	dbl := tb(idlgen.Double)
	bl := tb(idlgen.Bool)
	a.Consts = []*idlgen.ConstDef{
		// bool: 0 / 1 / true / false / local reference / qualified reference
		cdef("B0", bl, cI("0", vB(false))), cdef("B1", bl, cI("1", vB(true))),
		cdef("BT", bl, cId("true", vB(true))), cdef("BF", bl, cId("false", vB(false))),
		cdef("BR", bl, cId("B1", vB(true))), cdef("BQ", bl, cId("b.BB", vB(true))),
		// integers: decimal, negative, hexadecimal, extremes, references through a chain, typedef'd types
		cdef("Y1", tb(idlgen.Byte), cI("-128", vI(-128))), cdef("H1", tb(idlgen.I16), cI("32767", vI(32767))),
		cdef("I1", i32, cI("0x10", vI(16))), cdef("I2", i32, cId("b.BI", vI(7))),
		cdef("I3", tn(0, "MyInt2"), cId("I2", vI(7))), cdef("I4", tn(0, "MyInt"), cId("I3", vI(7))),
		cdef("I5", tn(1, "BInt"), cId("b.BT", vI(12))),
		cdef("L1", tb(idlgen.I64), cI("9007199254740993", vI(9007199254740993))), cdef("L2", tb(idlgen.I64), cI("-9223372036854775807", vI(-9223372036854775807))),
		// doubles: literal forms, integer standing for a double (also one that must be rounded), references
		cdef("D1", dbl, cI("2", vD(2))), cdef("D2", dbl, cD("2.5")), cdef("D3", dbl, cD("-0.125")), cdef("D4", dbl, cId("D2", vD(2.5))),
		cdef("D5", dbl, cId("b.BD", vD(2.5))), cdef("D6", dbl, cD("1000000.0")), cdef("D7", dbl, cD("123456.789")),
		cdef("D8", dbl, cI("9007199254740993", vD(9007199254740992))), cdef("D9", dbl, cD(".5")), cdef("D10", dbl, cD("+7.0")),
		cdef("D11", dbl, cI("-3", vD(-3))), cdef("D12", tn(0, "Dbl"), cD("0.1")), cdef("D13", dbl, cD("12345678901234567890123.0")),
		cdef("D14", dbl, cI("0", vD(0))), cdef("D15", dbl, cD("0.000001")),
		// strings: both quote characters, the other quote inside, escapes read by Go, references, typedef
		cdef("S1", str, cS("a'b", '"', "a'b")), cdef("S2", str, cS("a\"b", '\'', "a\"b")), cdef("S3", str, cId("b.BS", vS("hi"))),
		cdef("S4", str, cId("S1", vS("a'b"))), cdef("S5", str, cS(`t\tn\\x\x41\101新`, '"', "t\tn\\x"+"AA"+"新")),
		cdef("S6", str, cQ("")), cdef("S7", tn(0, "Str"), cQ("td")), cdef("S8", str, cS(`q\"q`, '"', `q"q`)),
		cdef("S9", str, cS(`it\'s`, '\'', "it's")), cdef("S10", str, cQ("/* c */ // c #tag {} [1,2] %d αβ")),
		cdef("N1", tb(idlgen.Binary), cQ("xyz")), cdef("N2", tb(idlgen.Binary), cS(`\x00\xff`, '"', "\x00\xff")),
		// enums: by name, by number, qualified, through a typedef, reference to an enum constant
		cdef("E1", tE, cId("E.Y", vI(4))), cdef("E2", tE, cI("4", vI(4))), cdef("E3", tE, cId("E.X", vI(0))),
		cdef("E4", tn(1, "E1"), cId("b.E1.B", vI(5))), cdef("E5", tn(1, "E1"), cI("5", vI(5))), cdef("E6", tn(1, "E1"), cId("b.BE", vI(5))),
		cdef("E7", tn(0, "EE"), cId("E.Z", vI(-2))), cdef("E8", tE, cId("E1", vI(4))),
		// containers
		cdef("LA", tl(i32), cL(vL(vI(1), vI(16), vI(3)), cI("1", vI(1)), cId("I1", vI(16)), cI("3", vI(3)))),
		cdef("LB", tl(i32), cL(vL())), cdef("LC", tl(i32), cM(vL())), cdef("LD", tl(i32), cId("b.BL", vL(vI(1), vI(2)))),
		cdef("TA", ts(str), cL(vT(vS("a"), vS("a'b")), cQ("a"), cId("S1", vS("a'b")))),
		cdef("MA", tm(str, tl(dbl)), cM(vM(vS("k"), vL(vD(1), vD(2.5)), vS("a'b"), vL()), cQ("k"), cL(vL(vD(1), vD(2.5)), cI("1", vD(1)), cD("2.5")), cId("S1", vS("a'b")), cL(vL()))),
		cdef("MB", tm(str, i32), cM(vM())), cdef("MC", tm(str, i32), cL(vM())),
		cdef("MD", tm(tE, i32), cM(vM(vI(0), vI(1), vI(4), vI(2)), cId("E.X", vI(0)), cI("1", vI(1)), cI("4", vI(4)), cI("2", vI(2)))),
		cdef("ME", tm(tb(idlgen.Binary), i32), cM(vM(vS("k"), vI(1)), cQ("k"), cI("1", vI(1)))),
		cdef("MF", tm(tb(idlgen.Bool), dbl), cM(vM(vB(true), vD(1), vB(false), vD(0.5)), cId("true", vB(true)), cI("1", vD(1)), cI("0", vB(false)), cD("0.5"))),
		cdef("LL", tl(tl(tm(i32, str))), cL(vL(vL(vM(vI(1), vS("a"))), vL()), cL(vL(vM(vI(1), vS("a"))), cM(vM(vI(1), vS("a")), cI("1", vI(1)), cQ("a"))), cL(vL()))),
		// struct literals
		cdef("CIN", tIn, cM(inWith(map[int]*values.Value{1: vI(2), 2: vS("z"), 5: vS("ff"), 4: vI(0), 8: vI(16)}),
			cQ("b"), cI("2", vI(2)), cQ("c"), cQ("z"), cQ("f"), cQ("ff"), cQ("e"), cI("0", vI(0)), cQ("m"), cId("I1", vI(16)))),
		cdef("COUT", tn(0, "Out"), cM(vR(vN(), inWith(map[int]*values.Value{0: vI(3)}), vN(), vN(), vN(), vN(), vN(), vI(0), vB(false)),
			cQ("j"), cM(inWith(map[int]*values.Value{0: vI(3)}), cQ("a"), cI("3", vI(3))))),
		cdef("CE", tIn, cM(inWith(nil))),
		cdef("CU", tn(0, "U"), cM(vR(vI(0), vS("s")), cQ("b"), cQ("s"))),
		cdef("CSB", tn(1, "SB"), cM(sbWith(map[int]*values.Value{0: vI(9), 2: vI(1)}), cQ("x"), cI("9", vI(9)), cQ("n"), cI("1", vI(1)))),
	}
	return &idlgen.Program{Files: []*idlgen.File{a, b}}
}

// catalogueScope: regression item (defect "foreign-struct-literal-scope", fixed by 4cb0c25): identifiers inside
// a literal of a struct defined in another file belong to the file of the literal.
func catalogueScope() *idlgen.Program {
	c := &idlgen.File{Path: "c.thrift", GoNS: "sc.pc"}
	c.Consts = []*idlgen.ConstDef{cdef("K", tb(idlgen.I32), cI("111", vI(111))), cdef("T", tb(idlgen.Bool), cId("false", vB(false)))}
	b := &idlgen.File{Path: "b.thrift", GoNS: "sc.pb", Includes: []int{2}}
	b.Structs = []*idlgen.Struct{{Kind: 's', Name: "S", Fields: []*idlgen.Field{fld(1, "f", rD, tb(idlgen.Bool), nil), fld(2, "n", rD, tb(idlgen.I32), nil)}}}
	b.Consts = []*idlgen.ConstDef{cdef("K", tb(idlgen.I32), cI("7", vI(7))), cdef("T", tb(idlgen.Bool), cId("true", vB(true))),
		cdef("USE", tb(idlgen.I32), cId("c.K", vI(111)))}
	a := &idlgen.File{Path: "a.thrift", GoNS: "sc.pa", Includes: []int{1}}
	a.Consts = []*idlgen.ConstDef{cdef("C", tn(1, "S"), cM(vR(vB(true), vI(7)), cQ("f"), cId("b.T", vB(true)), cQ("n"), cId("b.K", vI(7))))}
	return &idlgen.Program{Files: []*idlgen.File{a, b, c}}
}

// catalogueStrings: regression items (defects "string-literal-escaped-quote" / "-raw-newline", fixed by f3f901c)
// and the other clauses of quoteLiteral.
func catalogueStrings() *idlgen.Program {
	a := &idlgen.File{Path: "a.thrift", GoNS: "str.pa"}
	str := tb(idlgen.String)
	a.Structs = []*idlgen.Struct{{Kind: 's', Name: "M", Fields: []*idlgen.Field{
		fld(1, "eol", rD, str, cS(`\r\n`, '"', "\r\n")),
		fld(2, "q", rO, str, cS(`say \"hi\"`, '\'', `say "hi"`)),
		fld(3, "nl", rO, str, cS("x\ny", '"', "x\ny")),
	}}}
	a.Consts = []*idlgen.ConstDef{
		cdef("S1", str, cS(`a\"b`, '\'', `a"b`)),           // 'a\"b'
		cdef("S2", str, cS("a\nb", '"', "a\nb")),            // raw line feed inside the literal
		cdef("S3", str, cS(`it\'s`, '"', "it's")),            // "it\'s"
		cdef("S4", str, cS("c\rd", '\'', "c\rd")),           // raw carriage return
		cdef("S5", str, cS(`q\\"`, '\'', `q\"`)),            // 'q\\"': an escaped backslash, then a bare quote
		cdef("S6", tb(idlgen.Binary), cS("b\n\\x00", '"', "b\n\x00")),
		cdef("L1", tl(str), cL(vL(vS(`a"b`), vS("x\ny")), cS(`a\"b`, '\'', `a"b`), cS("x\ny", '"', "x\ny"))),
	}
	return &idlgen.Program{Files: []*idlgen.File{a}}
}

// catalogueFixed: regression items for the shapes the tree did not digest before af2ab0e (typedef'd containers),
// 029e141 (optional enum member), c3bf0fd (binary constant as map key), 0728d24 (struct literals in containers
// under value_type_in_container).
func catalogueFixed() *idlgen.Program {
	b := &idlgen.File{Path: "b.thrift", GoNS: "fx.pb"}
	b.Typedefs = []*idlgen.Typedef{{Name: "BL", Type: tl(tb(idlgen.I32))}, {Name: "BM", Type: tm(tb(idlgen.String), tl(tb(idlgen.Double)))}}
	a := &idlgen.File{Path: "a.thrift", GoNS: "fx.pa", Includes: []int{1}}
	a.Typedefs = []*idlgen.Typedef{
		{Name: "L", Type: tl(tb(idlgen.I32))}, {Name: "L2", Type: tn(0, "L")}, {Name: "TS", Type: ts(tb(idlgen.String))},
		{Name: "MB", Type: tm(tb(idlgen.Binary), tb(idlgen.I32))},
	}
	a.Enums = []*idlgen.Enum{{Name: "E", Values: []idlgen.EnumValue{{Name: "A", Value: 0}, {Name: "B", Value: 3, HasValue: true}}}}
	tE, tS := tn(0, "E"), tn(0, "S")
	sv := func(e, f, l *values.Value) *values.Value { return vR(e, f, l) }
	a.Structs = []*idlgen.Struct{
		{Kind: 's', Name: "S", Fields: []*idlgen.Field{
			fld(1, "e", rO, tE, nil),
			fld(2, "f", rO, tE, cId("E.B", vI(3))),
			fld(3, "l", rD, tn(0, "L"), cL(vL(vI(7)), cI("7", vI(7)))),
		}},
		{Kind: 's', Name: "W", Fields: []*idlgen.Field{
			fld(1, "ls", rD, tl(tS), cL(vL(sv(vI(0), vI(0), vN())), cM(sv(vI(0), vI(0), vN()), cQ("e"), cId("E.A", vI(0))))),
			fld(2, "ms", rD, tm(tb(idlgen.String), tS), cM(vM(vS("k"), sv(vN(), vI(0), vN())), cQ("k"), cM(sv(vN(), vI(0), vN()), cQ("f"), cId("E.A", vI(0))))),
		}},
	}
	a.Consts = []*idlgen.ConstDef{
		cdef("CL", tn(0, "L"), cL(vL(vI(1), vI(2)), cI("1", vI(1)), cI("2", vI(2)))),
		cdef("CL2", tn(0, "L2"), cL(vL(vI(3)), cI("3", vI(3)))),
		cdef("CLE", tn(0, "L"), cL(vL())),
		cdef("CBL", tn(1, "BL"), cL(vL(vI(4), vI(5)), cI("4", vI(4)), cI("5", vI(5)))),
		cdef("CBM", tn(1, "BM"), cM(vM(vS("k"), vL(vD(1), vD(2.5))), cQ("k"), cL(vL(vD(1), vD(2.5)), cI("1", vD(1)), cD("2.5")))),
		cdef("CTS", tn(0, "TS"), cL(vT(vS("a")), cQ("a"))),
		cdef("KB", tb(idlgen.Binary), cQ("kb")),
		cdef("CMB", tn(0, "MB"), cM(vM(vS("kb"), vI(1), vS("lit"), vI(2)), cId("KB", vS("kb")), cI("1", vI(1)), cQ("lit"), cI("2", vI(2)))),
		cdef("CMB2", tm(tb(idlgen.Binary), tb(idlgen.I32)), cM(vM(vS("kb"), vI(3)), cId("KB", vS("kb")), cI("3", vI(3)))),
		cdef("CS", tS, cM(sv(vI(3), vI(0), vN()), cQ("e"), cId("E.B", vI(3)))),
		cdef("CS2", tS, cM(sv(vI(3), vI(0), vN()), cQ("e"), cI("3", vI(3)))),
	}
	return &idlgen.Program{Files: []*idlgen.File{a, b}}
}

// catalogueSamePkg: two go namespaces with the same last component and the same names in both files: a
// qualified reference must bind the included file's definition, not the local one of the same name.
func catalogueSamePkg() *idlgen.Program {
	b := &idlgen.File{Path: "b.thrift", GoNS: "lib.common"}
	b.Enums = []*idlgen.Enum{{Name: "Color", Values: []idlgen.EnumValue{{Name: "GREEN", Value: 2, HasValue: true}}}}
	b.Consts = []*idlgen.ConstDef{cdef("LIMIT", tb(idlgen.I32), cI("200", vI(200))), cdef("NAME", tb(idlgen.String), cQ("lib")),
		cdef("PRIMES", tl(tb(idlgen.I32)), cL(vL(vI(2), vI(3)), cI("2", vI(2)), cI("3", vI(3))))}
	a := &idlgen.File{Path: "a.thrift", GoNS: "svc.common", Includes: []int{1}}
	a.Enums = []*idlgen.Enum{{Name: "Color", Values: []idlgen.EnumValue{{Name: "GREEN", Value: 20, HasValue: true}}}}
	a.Structs = []*idlgen.Struct{{Kind: 's', Name: "Req", Fields: []*idlgen.Field{
		fld(1, "limit", rD, tb(idlgen.I32), cId("b.LIMIT", vI(200))),
		fld(2, "name", rO, tb(idlgen.String), cId("b.NAME", vS("lib"))),
		fld(3, "primes", rO, tl(tb(idlgen.I32)), cId("b.PRIMES", vL(vI(2), vI(3)))),
	}}}
	a.Consts = []*idlgen.ConstDef{
		cdef("LIMIT", tb(idlgen.I32), cI("100", vI(100))), cdef("NAME", tb(idlgen.String), cQ("svc")),
		cdef("PRIMES", tl(tb(idlgen.I32)), cL(vL(vI(7)), cI("7", vI(7)))),
		cdef("LIB_LIMIT", tb(idlgen.I32), cId("b.LIMIT", vI(200))), cdef("LIB_NAME", tb(idlgen.String), cId("b.NAME", vS("lib"))),
		cdef("LIB_GREEN", tn(1, "Color"), cId("b.Color.GREEN", vI(2))), cdef("OWN_GREEN", tn(0, "Color"), cId("Color.GREEN", vI(20))),
		cdef("LIB_PRIMES", tl(tb(idlgen.I32)), cId("b.PRIMES", vL(vI(2), vI(3)))),
		cdef("MIX", tl(tb(idlgen.I32)), cL(vL(vI(200), vI(100)), cId("b.LIMIT", vI(200)), cId("LIMIT", vI(100)))),
	}
	return &idlgen.Program{Files: []*idlgen.File{a, b}}
}

func catalogue() []catProgram {
	return []catProgram{
		{name: "scope", prog: catalogueScope(), vtic: true},
		{name: "strings", prog: catalogueStrings(), vtic: true},
		{name: "fixed", prog: catalogueFixed(), vtic: true},
		{name: "samepkg", prog: catalogueSamePkg()},
		{name: "clash", prog: catalogueClash(false), vtic: true},
		{name: "clash_all", prog: catalogueClash(true)},
		{name: "shadow", prog: catalogueShadow(false), vtic: true},
		{name: "shadow_only", prog: catalogueShadow(true)},
		{name: "elems", prog: catalogueElems(), vtic: true},
		{name: "noalias_enum", prog: catalogueNoAliasEnum(), opts: [][]string{{"use_type_alias=false"}}},
		{name: "comments", prog: catalogueComments()},
		{name: "ways", prog: catalogueWays()},
	}
}

// catalogueNoAliasEnum: a default of a typedef'd enum type under use_type_alias=false (`type TE E`): the enum
// member is a constant of type E, the field is a TE.
func catalogueNoAliasEnum() *idlgen.Program {
	a := &idlgen.File{Path: "a.thrift", GoNS: "noalias.pa"}
	a.Enums = []*idlgen.Enum{{Name: "E", Values: []idlgen.EnumValue{{Name: "A", Value: 0}, {Name: "B", Value: 3, HasValue: true}}}}
	a.Typedefs = []*idlgen.Typedef{{Name: "TE", Type: tn(0, "E")}}
	a.Structs = []*idlgen.Struct{{Kind: 's', Name: "S", Fields: []*idlgen.Field{fld(1, "e", rD, tn(0, "TE"), cId("E.B", vI(3)))}}}
	a.Consts = []*idlgen.ConstDef{cdef("C", tn(0, "TE"), cId("E.B", vI(3)))}
	return &idlgen.Program{Files: []*idlgen.File{a}}
}
