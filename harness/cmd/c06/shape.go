package main

// shape.go: what the C06 harness adds to the shared IDL generator (harness/internal/idlgen is not edited):
// (1) decorate: comments (/* */, //, #) and odd white space directly before and after the literal tokens of
//     constant values and defaults -- numbers, strings, identifiers, list/map elements, struct-literal keys and
//     values -- leaving the intended value (Const.Val) untouched; a Const of kind CInt/CDouble/CIdent is rendered as
//     its Text, so a decorated string literal becomes a raw-text node;
// (2) addClash: a struct with same-typed fields whose names collide after Go naming (snake vs camel, initialisms,
//     trailing underscore) and struct literals over it -- constants, field defaults, container elements -- that name
//     only the later field, or both.

import (
	"fmt"

	"verifharness/internal/idlgen"
	"verifharness/internal/values"
	"verifharness/internal/vl"
)

var decoPre = []string{"/* c */ ", "/**/", " \t ", "// c\n  ", "# c\n\t", "/* a */ /* b */", "\n\n    ", "/* x\n y */ ", ""}
var decoPost = []string{" /* d */", "  ", " // e\n", " # f\n", "\t/* g */ ", "", "\n"}

type decorator struct {
	r     *vl.Rng
	n     int // deterministic rotation when r == nil
	every int // decorate a token with probability every %
	count func(string)
}

func (d *decorator) pick(xs []string) string {
	if d.r == nil {
		d.n++
		return xs[d.n%len(xs)]
	}
	if !d.r.Chance(d.every) {
		return ""
	}
	return xs[d.r.Intn(len(xs))]
}

func (d *decorator) constant(c *idlgen.Const) {
	if c == nil {
		return
	}
	switch c.Kind {
	case idlgen.CInt, idlgen.CDouble, idlgen.CIdent:
		c.Text = d.pick(decoPre) + c.Text + d.pick(decoPost)
	case idlgen.CString:
		q := string(c.Quote)
		c.Kind, c.Text = idlgen.CIdent, d.pick(decoPre)+q+c.Text+q+d.pick(decoPost)
	case idlgen.CList, idlgen.CMap:
		for _, it := range c.Items {
			d.constant(it)
		}
	}
	if d.count != nil {
		d.count("decorated.token")
	}
}

// decorate rewrites every constant value and field default of the program.
func (d *decorator) program(p *idlgen.Program) {
	for _, f := range p.Files {
		for _, c := range f.Consts {
			d.constant(c.Value)
		}
		for _, st := range f.Structs {
			for _, fd := range st.Fields {
				d.constant(fd.Default)
			}
		}
	}
}

// countProgramShapes records the ways of writing values (before any decoration).
func countProgramShapes(out *vl.Out, p *idlgen.Program) {
	for _, f := range p.Files {
		for _, c := range f.Consts {
			countShape(out, "const", c.Value)
		}
		for _, st := range f.Structs {
			for _, fd := range st.Fields {
				if fd.Default != nil {
					countShape(out, "default", fd.Default)
				}
			}
		}
	}
}

// ---- colliding field names

var clashGroups = [][]string{
	{"max_conn", "maxConn"},
	{"user_id", "userID"},
	{"user_id", "userId", "UserID"},
	{"a_b", "aB", "aB_"},
	{"http_url", "httpURL"},
	{"item_x", "itemX", "item_x_"},
}

type clashKind struct {
	t    *idlgen.Type
	zero func() *values.Value
	val  func(i int) (*idlgen.Const, *values.Value)
}

func clashKinds() []clashKind {
	return []clashKind{
		{tb(idlgen.I32), func() *values.Value { return vI(0) }, func(i int) (*idlgen.Const, *values.Value) { return cI(fmt.Sprint(90+i), vI(int64(90+i))), vI(int64(90 + i)) }},
		{tb(idlgen.String), func() *values.Value { return vS("") }, func(i int) (*idlgen.Const, *values.Value) { s := fmt.Sprintf("v%d", i); return cQ(s), vS(s) }},
		{tb(idlgen.Double), func() *values.Value { return vD(0) }, func(i int) (*idlgen.Const, *values.Value) { return cD(fmt.Sprintf("%d.5", i)), vD(float64(i) + 0.5) }},
		{tl(tb(idlgen.I64)), func() *values.Value { return vN() }, func(i int) (*idlgen.Const, *values.Value) {
			return cL(vL(vI(int64(i))), cI(fmt.Sprint(i), vI(int64(i)))), vL(vI(int64(i)))
		}},
	}
}

// addClash appends to file 0: struct Clash<tag> with colliding same-typed fields, a holder struct with defaults,
// and constants (plain, list element, map value) that name only the later field, or all of them.
//
// A literal that names two colliding fields and a literal that names only the later one are kept in different
// programs (`both`): if a generator confuses the two Go names, the first shape is a duplicate key (loud, C01's),
// the second a silent wrong value -- one program with both shapes would hide the second behind the first.
func addClash(r *vl.Rng, p *idlgen.Program, tag int, both bool, count func(string)) {
	pick := func(n int) int {
		if r == nil {
			return tag % n
		}
		return r.Intn(n)
	}
	names := clashGroups[pick(len(clashGroups))]
	kind := clashKinds()[pick(len(clashKinds()))]
	f0 := p.Files[0]
	sname := fmt.Sprintf("Clash%d", tag)
	st := &idlgen.Struct{Kind: 's', Name: sname}
	st.Fields = append(st.Fields, fld(1, "plain", rD, tb(idlgen.Bool), nil))
	for i, n := range names {
		st.Fields = append(st.Fields, fld(int16(10+i), n, rD, kind.t, nil))
	}
	f0.Structs = append(f0.Structs, st)
	tS := tn(0, sname)
	// lit(sel): a literal naming the colliding fields selected by sel (indexes into names), with its value
	seq := 0
	lit := func(sel ...int) (*idlgen.Const, *values.Value) {
		rec := []*values.Value{vB(false)}
		for range names {
			rec = append(rec, kind.zero())
		}
		c := &idlgen.Const{Kind: idlgen.CMap, Sep: ","}
		for _, i := range sel {
			seq++
			cv, v := kind.val(seq)
			c.Items = append(c.Items, cQ(names[i]), cv)
			rec[1+i] = v
		}
		c.Val = vR(rec...)
		return c, c.Val
	}
	last := len(names) - 1
	all := make([]int, len(names))
	for i := range all {
		all[i] = i
	}
	cname := func(s string) string { return fmt.Sprintf("KCLASH%d%s", tag, s) }
	sel := func(later ...int) []int {
		if both {
			return all
		}
		return later
	}
	c1, _ := lit(last)
	c2, _ := lit(sel(1)...)
	c3, v3 := lit(sel(last)...)
	c4, v4 := lit(sel(1)...)
	c5, _ := lit(sel(last)...)
	c6, v6 := lit(last)
	f0.Consts = append(f0.Consts,
		cdef(cname("L"), tS, c1),
		cdef(cname("A"), tS, c2),
		cdef(cname("E"), tl(tS), cL(vL(v3), c3)),
		cdef(cname("M"), tm(tb(idlgen.String), tS), cM(vM(vS("k"), v4), cQ("k"), c4)),
	)
	f0.Structs = append(f0.Structs, &idlgen.Struct{Kind: 's', Name: fmt.Sprintf("ClashHolder%d", tag), Fields: []*idlgen.Field{
		fld(1, "c", rD, tS, c5),
		fld(2, "l", rO, tl(tS), cL(vL(v6), c6)),
	}})
	if len(f0.Order) > 0 {
		// the generator recorded an explicit order of definitions: append the new ones
		f0.Order = append(f0.Order, idlgen.DefRef{Kind: 's', Idx: len(f0.Structs) - 2}, idlgen.DefRef{Kind: 's', Idx: len(f0.Structs) - 1})
		for i := 4; i >= 1; i-- {
			f0.Order = append(f0.Order, idlgen.DefRef{Kind: 'c', Idx: len(f0.Consts) - i})
		}
	}
	if count != nil {
		count(map[bool]string{false: "clash.struct.later_only", true: "clash.struct.all_named"}[both])
	}
}

// catalogueClash: the aimed units for colliding field names; both=false: every literal names only the later of
// two colliding fields; both=true: literals that name all of them.
func catalogueClash(both bool) *idlgen.Program {
	a := &idlgen.File{Path: "a.thrift", GoNS: "clash.pa"}
	p := &idlgen.Program{Files: []*idlgen.File{a}}
	i32, i64 := tb(idlgen.I32), tb(idlgen.I64)
	a.Structs = []*idlgen.Struct{{Kind: 's', Name: "Limits", Fields: []*idlgen.Field{
		fld(1, "max_conn", rD, i32, nil), fld(2, "maxConn", rD, i32, nil),
		fld(3, "user_id", rD, i64, cI("5", vI(5))), fld(4, "userID", rD, i64, nil),
		fld(5, "name", rO, tb(idlgen.String), nil), fld(6, "Name", rO, tb(idlgen.String), nil),
	}}}
	lim := func(a1, a2, a3, a4 int64, n5, n6 *values.Value) *values.Value {
		return vR(vI(a1), vI(a2), vI(a3), vI(a4), n5, n6)
	}
	tL := tn(0, "Limits")
	if both {
		a.Consts = []*idlgen.ConstDef{
			cdef("L2", tL, cM(lim(1, 2, 0, 0, vN(), vN()), cQ("max_conn"), cI("1", vI(1)), cQ("maxConn"), cI("2", vI(2)))),
			cdef("L5", tL, cM(lim(0, 0, 6, 7, vS("a"), vS("b")), cQ("userID"), cI("7", vI(7)), cQ("user_id"), cI("6", vI(6)), cQ("name"), cQ("a"), cQ("Name"), cQ("b"))),
		}
		addClash(nil, p, 0, true, nil)
		addClash(nil, p, 3, true, nil)
		return p
	}
	a.Consts = []*idlgen.ConstDef{
		cdef("L1", tL, cM(lim(0, 99, 0, 0, vN(), vN()), cQ("maxConn"), cI("99", vI(99)))),
		cdef("L3", tL, cM(lim(0, 0, 0, 7, vN(), vN()), cQ("userID"), cI("7", vI(7)))),
		cdef("L4", tL, cM(lim(0, 0, 0, 0, vN(), vS("n")), cQ("Name"), cQ("n"))),
		cdef("LL", tl(tL), cL(vL(lim(0, 3, 0, 0, vN(), vN())), cM(lim(0, 3, 0, 0, vN(), vN()), cQ("maxConn"), cI("3", vI(3))))),
	}
	a.Structs = append(a.Structs, &idlgen.Struct{Kind: 's', Name: "H", Fields: []*idlgen.Field{
		fld(1, "l", rD, tL, cM(lim(0, 4, 0, 8, vN(), vN()), cQ("maxConn"), cI("4", vI(4)), cQ("userID"), cI("8", vI(8)))),
		fld(2, "m", rD, tm(tb(idlgen.String), tL), cM(vM(vS("k"), lim(0, 0, 0, 9, vN(), vN())), cQ("k"), cM(lim(0, 0, 0, 9, vN(), vN()), cQ("userID"), cI("9", vI(9))))),
	}})
	addClash(nil, p, 0, false, nil)
	addClash(nil, p, 1, false, nil)
	addClash(nil, p, 3, false, nil)
	return p
}

// catalogueComments: the aimed unit for comments and white space around literal tokens: every constant and
// default of the `ways` catalogue, every token decorated, the prefixes and suffixes in rotation.
func catalogueComments() *idlgen.Program {
	p := catalogueWays()
	for i, f := range p.Files {
		f.GoNS = fmt.Sprintf("cmt.p%d", i)
	}
	// the shapes named in the report of the seeded change: a comment directly before a double, a list of doubles
	// with a line comment per element
	dbl := tb(idlgen.Double)
	p.Files[0].Consts = append(p.Files[0].Consts,
		cdef("T_SECONDS", dbl, &idlgen.Const{Kind: idlgen.CDouble, Text: "/* seconds */ 2.5", Val: vD(2.5)}),
		cdef("RATES", tl(dbl), &idlgen.Const{Kind: idlgen.CIdent, Text: "[\n  0.5, // first\n  1.25e1, # second\n  -3.25 // third\n]", Val: vL(vD(0.5), vD(12.5), vD(-3.25))}),
		cdef("AFTER_LINE", dbl, &idlgen.Const{Kind: idlgen.CDouble, Text: "// on the next line\n    2.5e1", Val: vD(25)}),
	)
	(&decorator{}).program(p)
	return p
}
