package main

// shape.go: what the C06 harness adds to the shared IDL generator (harness/internal/idlgen is not edited):
// (1) decorate: comments (/* */, //, #) and odd white space directly before and after the literal tokens of
//     constant values and defaults -- numbers, strings, identifiers, list/map elements, struct-literal keys and
//     values -- leaving the intended value (Const.Val) untouched; a Const of kind CInt/CDouble/CIdent is rendered as
//     its Text, so a decorated string literal becomes a raw-text node;
// (2) addClash: a struct with same-typed fields whose names collide after Go naming (snake vs camel, initialisms,
//     trailing underscore) and struct literals over it -- constants, field defaults, container elements -- that name
//     only the later field, or both.

import (
	"fmt"

	"verifharness/internal/idlgen"
	"verifharness/internal/values"
	"verifharness/internal/vl"
)

var decoPre = []string{"/* c */ ", "/**/", " \t ", "// c\n  ", "# c\n\t", "/* a */ /* b */", "\n\n    ", "/* x\n y */ ", ""}
var decoPost = []string{" /* d */", "  ", " // e\n", " # f\n", "\t/* g */ ", "", "\n"}

type decorator struct {
	r     *vl.Rng
	n     int // deterministic rotation when r == nil
	every int // decorate a token with probability every %
	count func(string)
}

func (d *decorator) pick(xs []string) string {
	if d.r == nil {
		d.n++
		return xs[d.n%len(xs)]
	}
	if !d.r.Chance(d.every) {
		return ""
	}
	return xs[d.r.Intn(len(xs))]
}

func (d *decorator) constant(c *idlgen.Const) {
	if c == nil {
		return
	}
	switch c.Kind {
	case idlgen.CInt, idlgen.CDouble, idlgen.CIdent:
		c.Text = d.pick(decoPre) + c.Text + d.pick(decoPost)
	case idlgen.CString:
		q := string(c.Quote)
		c.Kind, c.Text = idlgen.CIdent, d.pick(decoPre)+q+c.Text+q+d.pick(decoPost)
	case idlgen.CList, idlgen.CMap:
		for _, it := range c.Items {
			d.constant(it)
		}
	}
	if d.count != nil {
		d.count("decorated.token")
	}
}

// decorate rewrites every constant value and field default of the program.
func (d *decorator) program(p *idlgen.Program) {
	for _, f := range p.Files {
		for _, c := range f.Consts {
			d.constant(c.Value)
		}
		for _, st := range f.Structs {
			for _, fd := range st.Fields {
				d.constant(fd.Default)
			}
		}
	}
}

// countProgramShapes records the ways of writing values (before any decoration).
func countProgramShapes(out *vl.Out, p *idlgen.Program) {
	for _, f := range p.Files {
		for _, c := range f.Consts {
			countShape(out, "const", c.Value)
		}
		for _, st := range f.Structs {
			for _, fd := range st.Fields {
				if fd.Default != nil {
					countShape(out, "default", fd.Default)
				}
			}
		}
	}
}

// ---- colliding field names

var clashGroups = [][]string{
	{"max_conn", "maxConn"},
	{"user_id", "userID"},
	{"user_id", "userId", "UserID"},
	{"a_b", "aB", "aB_"},
	{"http_url", "httpURL"},
	{"item_x", "itemX", "item_x_"},
}

type clashKind struct {
	t    *idlgen.Type
	zero func() *values.Value
	val  func(i int) (*idlgen.Const, *values.Value)
}

func clashKinds() []clashKind {
	return []clashKind{
		{tb(idlgen.I32), func() *values.Value { return vI(0) }, func(i int) (*idlgen.Const, *values.Value) { return cI(fmt.Sprint(90+i), vI(int64(90+i))), vI(int64(90 + i)) }},
		{tb(idlgen.String), func() *values.Value { return vS("") }, func(i int) (*idlgen.Const, *values.Value) { s := fmt.Sprintf("v%d", i); return cQ(s), vS(s) }},
		{tb(idlgen.Double), func() *values.Value { return vD(0) }, func(i int) (*idlgen.Const, *values.Value) { return cD(fmt.Sprintf("%d.5", i)), vD(float64(i) + 0.5) }},
		{tl(tb(idlgen.I64)), func() *values.Value { return vN() }, func(i int) (*idlgen.Const, *values.Value) {
			return cL(vL(vI(int64(i))), cI(fmt.Sprint(i), vI(int64(i)))), vL(vI(int64(i)))
		}},
	}
}

// addClash appends to file 0: struct Clash<tag> with colliding same-typed fields, a holder struct with defaults,
// and constants (plain, list element, map value) that name only the later field, or all of them.
//
// A literal that names two colliding fields and a literal that names only the later one are kept in different
// programs (`both`): if a generator confuses the two Go names, the first shape is a duplicate key (loud, C01's),
// the second a silent wrong value -- one program with both shapes would hide the second behind the first.
func addClash(r *vl.Rng, p *idlgen.Program, tag int, both bool, count func(string)) {
	pick := func(n int) int {
		if r == nil {
			return tag % n
		}
		return r.Intn(n)
	}
	names := clashGroups[pick(len(clashGroups))]
	kind := clashKinds()[pick(len(clashKinds()))]
	f0 := p.Files[0]
	sname := fmt.Sprintf("Clash%d", tag)
	st := &idlgen.Struct{Kind: 's', Name: sname}
	st.Fields = append(st.Fields, fld(1, "plain", rD, tb(idlgen.Bool), nil))
	for i, n := range names {
		st.Fields = append(st.Fields, fld(int16(10+i), n, rD, kind.t, nil))
	}
	f0.Structs = append(f0.Structs, st)
	tS := tn(0, sname)
	// lit(sel): a literal naming the colliding fields selected by sel (indexes into names), with its value
	seq := 0
	lit := func(sel ...int) (*idlgen.Const, *values.Value) {
		rec := []*values.Value{vB(false)}
		for range names {
			rec = append(rec, kind.zero())
		}
		c := &idlgen.Const{Kind: idlgen.CMap, Sep: ","}
		for _, i := range sel {
			seq++
			cv, v := kind.val(seq)
			c.Items = append(c.Items, cQ(names[i]), cv)
			rec[1+i] = v
		}
		c.Val = vR(rec...)
		return c, c.Val
	}
	last := len(names) - 1
	all := make([]int, len(names))
	for i := range all {
		all[i] = i
	}
	cname := func(s string) string { return fmt.Sprintf("KCLASH%d%s", tag, s) }
	sel := func(later ...int) []int {
		if both {
			return all
		}
		return later
	}
	c1, _ := lit(last)
	c2, _ := lit(sel(1)...)
	c3, v3 := lit(sel(last)...)
	c4, v4 := lit(sel(1)...)
	c5, _ := lit(sel(last)...)
	c6, v6 := lit(last)
	f0.Consts = append(f0.Consts,
		cdef(cname("L"), tS, c1),
		cdef(cname("A"), tS, c2),
		cdef(cname("E"), tl(tS), cL(vL(v3), c3)),
		cdef(cname("M"), tm(tb(idlgen.String), tS), cM(vM(vS("k"), v4), cQ("k"), c4)),
	)
	f0.Structs = append(f0.Structs, &idlgen.Struct{Kind: 's', Name: fmt.Sprintf("ClashHolder%d", tag), Fields: []*idlgen.Field{
		fld(1, "c", rD, tS, c5),
		fld(2, "l", rO, tl(tS), cL(vL(v6), c6)),
	}})
	if len(f0.Order) > 0 {
		// the generator recorded an explicit order of definitions: append the new ones
		f0.Order = append(f0.Order, idlgen.DefRef{Kind: 's', Idx: len(f0.Structs) - 2}, idlgen.DefRef{Kind: 's', Idx: len(f0.Structs) - 1})
		for i := 4; i >= 1; i-- {
			f0.Order = append(f0.Order, idlgen.DefRef{Kind: 'c', Idx: len(f0.Consts) - i})
		}
	}
	if count != nil {
		count(map[bool]string{false: "clash.struct.later_only", true: "clash.struct.all_named"}[both])
	}
}

// catalogueClash: the aimed units for colliding field names; both=false: every literal names only the later of
// two colliding fields; both=true: literals that name all of them.
func catalogueClash(both bool) *idlgen.Program {
	a := &idlgen.File{Path: "a.thrift", GoNS: "clash.pa"}
	p := &idlgen.Program{Files: []*idlgen.File{a}}
	i32, i64 := tb(idlgen.I32), tb(idlgen.I64)
	a.Structs = []*idlgen.Struct{{Kind: 's', Name: "Limits", Fields: []*idlgen.Field{
		fld(1, "max_conn", rD, i32, nil), fld(2, "maxConn", rD, i32, nil),
		fld(3, "user_id", rD, i64, cI("5", vI(5))), fld(4, "userID", rD, i64, nil),
		fld(5, "name", rO, tb(idlgen.String), nil), fld(6, "Name", rO, tb(idlgen.String), nil),
	}}}
	lim := func(a1, a2, a3, a4 int64, n5, n6 *values.Value) *values.Value {
		return vR(vI(a1), vI(a2), vI(a3), vI(a4), n5, n6)
	}
	tL := tn(0, "Limits")
	if both {
		a.Consts = []*idlgen.ConstDef{
			cdef("L2", tL, cM(lim(1, 2, 0, 0, vN(), vN()), cQ("max_conn"), cI("1", vI(1)), cQ("maxConn"), cI("2", vI(2)))),
			cdef("L5", tL, cM(lim(0, 0, 6, 7, vS("a"), vS("b")), cQ("userID"), cI("7", vI(7)), cQ("user_id"), cI("6", vI(6)), cQ("name"), cQ("a"), cQ("Name"), cQ("b"))),
		}
		addClash(nil, p, 0, true, nil)
		addClash(nil, p, 3, true, nil)
		return p
	}
	a.Consts = []*idlgen.ConstDef{
		cdef("L1", tL, cM(lim(0, 99, 0, 0, vN(), vN()), cQ("maxConn"), cI("99", vI(99)))),
		cdef("L3", tL, cM(lim(0, 0, 0, 7, vN(), vN()), cQ("userID"), cI("7", vI(7)))),
		cdef("L4", tL, cM(lim(0, 0, 0, 0, vN(), vS("n")), cQ("Name"), cQ("n"))),
		cdef("LL", tl(tL), cL(vL(lim(0, 3, 0, 0, vN(), vN())), cM(lim(0, 3, 0, 0, vN(), vN()), cQ("maxConn"), cI("3", vI(3))))),
	}
	a.Structs = append(a.Structs, &idlgen.Struct{Kind: 's', Name: "H", Fields: []*idlgen.Field{
		fld(1, "l", rD, tL, cM(lim(0, 4, 0, 8, vN(), vN()), cQ("maxConn"), cI("4", vI(4)), cQ("userID"), cI("8", vI(8)))),
		fld(2, "m", rD, tm(tb(idlgen.String), tL), cM(vM(vS("k"), lim(0, 0, 0, 9, vN(), vN())), cQ("k"), cM(lim(0, 0, 0, 9, vN(), vN()), cQ("userID"), cI("9", vI(9))))),
	}})
	addClash(nil, p, 0, false, nil)
	addClash(nil, p, 1, false, nil)
	addClash(nil, p, 3, false, nil)
	return p
}

// catalogueComments: the aimed unit for comments and white space around literal tokens: every constant and
// default of the `ways` catalogue, every token decorated, the prefixes and suffixes in rotation.
func catalogueComments() *idlgen.Program {
	p := catalogueWays()
	for i, f := range p.Files {
		f.GoNS = fmt.Sprintf("cmt.p%d", i)
	}
	// the shapes named in the report of the seeded change: a comment directly before a double, a list of doubles
	// with a line comment per element
	dbl := tb(idlgen.Double)
	p.Files[0].Consts = append(p.Files[0].Consts,
		cdef("T_SECONDS", dbl, &idlgen.Const{Kind: idlgen.CDouble, Text: "/* seconds */ 2.5", Val: vD(2.5)}),
		cdef("RATES", tl(dbl), &idlgen.Const{Kind: idlgen.CIdent, Text: "[\n  0.5, // first\n  1.25e1, # second\n  -3.25 // third\n]", Val: vL(vD(0.5), vD(12.5), vD(-3.25))}),
		cdef("AFTER_LINE", dbl, &idlgen.Const{Kind: idlgen.CDouble, Text: "// on the next line\n    2.5e1", Val: vD(25)}),
	)
	(&decorator{}).program(p)
	return p
}

// ---- same names in includer and include; struct constants as container elements

func effNS(f *idlgen.File) string {
	if f.GoNS != "" {
		return f.GoNS
	}
	return f.Prefix()
}

func appendOrder(f *idlgen.File, kind byte, n int) {
	if len(f.Order) == 0 {
		return
	}
	var total int
	switch kind {
	case 's':
		total = len(f.Structs)
	case 'c':
		total = len(f.Consts)
	case 't':
		total = len(f.Typedefs)
	}
	for i := total - n; i < total; i++ {
		f.Order = append(f.Order, idlgen.DefRef{Kind: kind, Idx: i})
	}
}

// addShadow: constants with the same name and different values in file 0 and in one of its includes, referenced
// bare and qualified from values whose TYPE lives in the include: literals of a foreign struct, typedef'd foreign
// containers (elements, and a bare identifier as the whole value), field defaults. Reports whether it applied.
// onlyRoot adds scalar uses of a name that only file 0 defines: a generator that looks bare names up in the include
// rejects those loudly, which would hide the silent wrong values of the same-named constants -- so the two kinds
// of program are kept apart (as for the colliding field names).
func addShadow(p *idlgen.Program, tag int, onlyRoot bool, count func(string)) bool {
	f0 := p.Files[0]
	if len(f0.Includes) == 0 {
		return false
	}
	k := f0.Includes[tag%len(f0.Includes)]
	fk := p.Files[k]
	if effNS(fk) == effNS(f0) {
		return false // one Go package: the two constants would be one name
	}
	pre := fk.Prefix() + "."
	n := func(s string) string { return fmt.Sprintf("%s%d", s, tag) }
	inc := int64(10 + tag)
	i32, str := tb(idlgen.I32), tb(idlgen.String)
	// the include
	fk.Typedefs = append(fk.Typedefs, &idlgen.Typedef{Name: n("ShadowL"), Type: tl(i32)}, &idlgen.Typedef{Name: n("ShadowM"), Type: tm(str, i32)})
	appendOrder(fk, 't', 2)
	fk.Structs = append(fk.Structs, &idlgen.Struct{Kind: 's', Name: n("ShadowQ"), Fields: []*idlgen.Field{
		fld(1, "limit", rD, i32, nil), fld(2, "name", rD, str, nil), fld(3, "xs", rD, tl(i32), nil)}})
	appendOrder(fk, 's', 1)
	fk.Consts = append(fk.Consts, cdef(n("SHADOW"), i32, cI(fmt.Sprint(inc), vI(inc))), cdef(n("SHADOWS"), str, cQ("inc")),
		cdef(n("SHADOWLIST"), tl(i32), cL(vL(vI(inc)), cI(fmt.Sprint(inc), vI(inc)))))
	appendOrder(fk, 'c', 3)
	// the includer
	tQ, tL, tM := tn(k, n("ShadowQ")), tn(k, n("ShadowL")), tn(k, n("ShadowM"))
	bare := func() *idlgen.Const { return cId(n("SHADOW"), vI(99)) }
	qual := func() *idlgen.Const { return cId(pre+n("SHADOW"), vI(inc)) }
	only := func() *idlgen.Const { return cId(n("ONLYROOT"), vI(7)) }
	q := func(limit int64, name string, xs *values.Value) *values.Value { return vR(vI(limit), vS(name), xs) }
	f0.Consts = append(f0.Consts,
		cdef(n("SHADOW"), i32, cI("99", vI(99))), cdef(n("SHADOWS"), str, cQ("root")), cdef(n("ONLYROOT"), i32, cI("7", vI(7))),
		cdef(n("SHADOWLIST"), tl(i32), cL(vL(vI(5)), cI("5", vI(5)))),
		cdef(n("ROOTLIST"), tl(i32), cL(vL(vI(6)), cI("6", vI(6)))),
		cdef(n("SQ1_"), tQ, cM(q(99, "root", vL(vI(99), vI(inc))), cQ("limit"), bare(), cQ("name"), cId(n("SHADOWS"), vS("root")),
			cQ("xs"), cL(vL(vI(99), vI(inc)), bare(), qual()))),
		cdef(n("SQ2_"), tQ, cM(q(inc, "inc", vN()), cQ("limit"), qual(), cQ("name"), cId(pre+n("SHADOWS"), vS("inc")))),
		cdef(n("SQ3_"), tQ, cM(q(0, "", vL(vI(5))), cQ("xs"), cId(n("SHADOWLIST"), vL(vI(5))))),
		cdef(n("SQ4_"), tQ, cM(q(0, "", vL(vI(6))), cQ("xs"), cId(n("ROOTLIST"), vL(vI(6))))),
		cdef(n("SL1_"), tL, cL(vL(vI(99), vI(inc)), bare(), qual())),
		cdef(n("SL2_"), tL, cId(n("SHADOWLIST"), vL(vI(5)))),
		cdef(n("SL3_"), tL, cId(pre+n("SHADOWLIST"), vL(vI(inc)))),
		cdef(n("SL4_"), tL, cId(n("ROOTLIST"), vL(vI(6)))),
		cdef(n("SM1_"), tM, cM(vM(vS("a"), vI(99), vS("c"), vI(inc)), cQ("a"), bare(), cQ("c"), qual())),
	)
	appendOrder(f0, 'c', 14)
	hf := []*idlgen.Field{
		fld(1, "q", rD, tQ, cM(q(99, "", vN()), cQ("limit"), bare())),
		fld(2, "l", rD, tL, cL(vL(vI(99), vI(99)), bare(), bare())),
		fld(3, "m", rO, tM, cM(vM(vS("k"), vI(99)), cQ("k"), bare())),
	}
	if onlyRoot {
		f0.Consts = append(f0.Consts,
			cdef(n("SO1_"), tQ, cM(q(7, "", vL(vI(7), vI(99))), cQ("limit"), only(), cQ("xs"), cL(vL(vI(7), vI(99)), only(), bare()))),
			cdef(n("SO2_"), tL, cL(vL(vI(7)), only())),
			cdef(n("SO3_"), tM, cM(vM(vS("b"), vI(7)), cQ("b"), only())),
		)
		appendOrder(f0, 'c', 3)
		hf = append(hf, fld(4, "o", rD, tL, cL(vL(vI(7)), only())))
	}
	f0.Structs = append(f0.Structs, &idlgen.Struct{Kind: 's', Name: n("ShadowH"), Fields: hf})
	appendOrder(f0, 's', 1)
	if count != nil {
		count(map[bool]string{false: "shadow.same_names", true: "shadow.with_root_only_names"}[onlyRoot])
	}
	return true
}

// addElems: containers (possibly nested) whose struct elements are written as identifiers of struct constants,
// local and -- when file 0 has a usable include -- foreign; as constants and as field defaults.
func addElems(p *idlgen.Program, tag int, count func(string)) {
	f0 := p.Files[0]
	n := func(s string) string { return fmt.Sprintf("%s%d", s, tag) }
	i32, str := tb(idlgen.I32), tb(idlgen.String)
	item := func(v int64) *values.Value { return vR(vI(v), vN()) }
	mk := func(f *idlgen.File, name string) {
		f.Structs = append(f.Structs, &idlgen.Struct{Kind: 's', Name: name, Fields: []*idlgen.Field{fld(1, "n", rD, i32, nil), fld(2, "s", rO, str, nil)}})
		appendOrder(f, 's', 1)
	}
	mk(f0, n("ElemItem"))
	tI := tn(0, n("ElemItem"))
	v1 := int64(tag + 1)
	apple := func() *idlgen.Const { return cId(n("ELEM"), item(v1)) }
	lit2 := func() *idlgen.Const { return cM(item(2), cQ("n"), cI("2", vI(2))) }
	f0.Consts = append(f0.Consts,
		cdef(n("ELEM"), tI, cM(item(v1), cQ("n"), cI(fmt.Sprint(v1), vI(v1)))),
		cdef(n("ELEML"), tl(tI), cL(vL(item(v1), item(2), item(v1)), apple(), lit2(), apple())),
		cdef(n("ELEMM"), tm(str, tI), cM(vM(vS("a"), item(v1), vS("b"), item(2)), cQ("a"), apple(), cQ("b"), lit2())),
		cdef(n("ELEMLL"), tl(tl(tI)), cL(vL(vL(item(v1)), vL()), cL(vL(item(v1)), apple()), cL(vL()))),
		cdef(n("ELEMML"), tm(i32, tl(tI)), cM(vM(vI(1), vL(item(v1), item(v1))), cI("1", vI(1)), cL(vL(item(v1), item(v1)), apple(), apple()))),
	)
	appendOrder(f0, 'c', 5)
	hf := []*idlgen.Field{
		fld(1, "items", rD, tl(tI), cL(vL(item(v1)), apple())),
		fld(2, "by_name", rO, tm(str, tI), cM(vM(vS("k"), item(v1)), cQ("k"), apple())),
	}
	if len(f0.Includes) > 0 && effNS(p.Files[f0.Includes[tag%len(f0.Includes)]]) != effNS(f0) {
		k := f0.Includes[tag%len(f0.Includes)]
		fk := p.Files[k]
		pre := fk.Prefix() + "."
		mk(fk, n("ElemItemF"))
		fk.Consts = append(fk.Consts, cdef(n("ELEMF"), tn(k, n("ElemItemF")), cM(item(40), cQ("n"), cI("40", vI(40)))))
		appendOrder(fk, 'c', 1)
		tF := tn(k, n("ElemItemF"))
		pear := func() *idlgen.Const { return cId(pre+n("ELEMF"), item(40)) }
		f0.Consts = append(f0.Consts,
			cdef(n("ELEMFL"), tl(tF), cL(vL(item(40), item(2)), pear(), lit2())),
			cdef(n("ELEMFM"), tm(str, tF), cM(vM(vS("p"), item(40)), cQ("p"), pear())),
		)
		appendOrder(f0, 'c', 2)
		hf = append(hf, fld(3, "foreign", rD, tl(tF), cL(vL(item(40)), pear())))
		if count != nil {
			count("elems.foreign")
		}
	}
	f0.Structs = append(f0.Structs, &idlgen.Struct{Kind: 's', Name: n("ElemHolder"), Fields: hf})
	appendOrder(f0, 's', 1)
	if count != nil {
		count("elems.applied")
	}
}

// twoFiles: the skeleton of the aimed units: a.thrift includes b.thrift.
func twoFiles(ns string) *idlgen.Program {
	b := &idlgen.File{Path: "b.thrift", GoNS: ns + ".pb"}
	a := &idlgen.File{Path: "a.thrift", GoNS: ns + ".pa", Includes: []int{1}}
	return &idlgen.Program{Files: []*idlgen.File{a, b}}
}

func catalogueShadow(onlyRoot bool) *idlgen.Program {
	p := twoFiles("shadow")
	addShadow(p, 0, onlyRoot, nil)
	addShadow(p, 1, onlyRoot, nil)
	return p
}

func catalogueElems() *idlgen.Program {
	p := twoFiles("elems")
	addElems(p, 0, nil)
	return p
}
