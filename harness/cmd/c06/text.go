package main

// text.go: the text suite. The initialiser TEXT that Resolver.resolveConst produced is read back from the
// generated files (go/parser: the value of each constant's ValueSpec, the elements of the composite literal
// NewX returns), white space outside string literals removed, and compared with the text the Lean model prints
// for its `GoExpr`. The Go names the model's printer needs are read from the declarations of the generated
// files (never predicted): constants, enum and typedef type names, enum members, struct and field names,
// package qualifiers from the import block.

import (
	"encoding/hex"
	"fmt"
	"go/ast"
	"path"

	"verifharness/internal/batch"
	"verifharness/internal/vl"
)

func hexText(s string) string {
	if s == "" {
		return "-"
	}
	return hex.EncodeToString([]byte(s))
}

// nameLines prints the GN/GV/GF/GQ lines of a unit; notes tell what could not be found.
func nameLines(ud *unitData) (lines []string, notes []string) {
	u := ud.u
	add := func(f string, a ...interface{}) { lines = append(lines, fmt.Sprintf(f, a...)) }
	for fi, t := range ud.fr.asts {
		if t == nil {
			continue
		}
		g := ud.ug.files[fi]
		if g == nil {
			continue
		}
		// enums first, then typedefs (templates/file.go)
		if len(g.typeDecl) < len(t.Enums)+len(t.Typedefs) {
			notes = append(notes, fmt.Sprintf("file %d: %d named non-struct types, expected %d enums + %d typedefs", fi, len(g.typeDecl), len(t.Enums), len(t.Typedefs)))
			continue
		}
		for i, e := range t.Enums {
			gn := g.typeDecl[i].Name.Name
			add("GN %s %d %s %s", u.Key, fi, vl.Hex(e.Name), vl.Hex(gn))
			vs := g.enumVals[gn]
			if len(vs) != len(e.Values) {
				notes = append(notes, fmt.Sprintf("file %d enum %s: %d members, Go has %d", fi, e.Name, len(e.Values), len(vs)))
				continue
			}
			for j, v := range e.Values {
				add("GV %s %d %s %s %s", u.Key, fi, vl.Hex(e.Name), vl.Hex(v.Name), vl.Hex(vs[j].Names[0].Name))
			}
		}
		for i, td := range t.Typedefs {
			add("GN %s %d %s %s", u.Key, fi, vl.Hex(td.Alias), vl.Hex(g.typeDecl[len(t.Enums)+i].Name.Name))
		}
		// qualifiers
		for fj := range ud.fr.asts {
			h := ud.ug.files[fj]
			if h == nil || fj == fi || h.pkgPath == g.pkgPath {
				continue
			}
			if q, ok := g.imports[h.pkgPath]; ok {
				add("GQ %s %d %d %s", u.Key, fi, fj, vl.Hex(q))
			}
		}
	}
	for _, cd := range ud.consts {
		add("GN %s %d %s %s", u.Key, cd.file, vl.Hex(cd.c.Name), vl.Hex(cd.spec.Names[0].Name))
	}
	for _, e := range u.Registry {
		st := u.Schema.Structs[e.Sidx]
		if !e.Found || st.Synth {
			continue
		}
		add("GN %s %d %s %s", u.Key, st.File, vl.Hex(st.Name), vl.Hex(e.GoType))
		for j, f := range st.Fields {
			add("GF %s %d %s %d %s", u.Key, st.File, vl.Hex(st.Name), j, vl.Hex(e.GoField[f.ID]))
		}
	}
	return
}

func regOf(u *batch.UnitInfo, file int, name string) *batch.RegEntry {
	for i := range u.Registry {
		e := &u.Registry[i]
		st := u.Schema.Structs[e.Sidx]
		if e.Found && !st.Synth && st.File == file && st.Name == name {
			return e
		}
	}
	return nil
}

// textOps: KT for every constant, DT for every field default (the element of NewX's literal).
func textOps(ud *unitData) []*opLine {
	var ls []*opLine
	u := ud.u
	names, notes := nameLines(ud)
	for _, n := range notes {
		ud.notes = append(ud.notes, "names: "+n)
	}
	for _, l := range names {
		ls = append(ls, &opLine{text: l, impl: "ok", ud: ud})
	}
	for _, cd := range ud.consts {
		ls = append(ls, &opLine{text: fmt.Sprintf("KT %s %d %s", u.Key, cd.file, vl.Hex(cd.c.Name)),
			impl: "ok " + hexText(cd.gf.text(cd.spec.Values[0])), ud: ud, what: "KT", nontrivial: true})
	}
	for fi, t := range ud.fr.asts {
		if t == nil || ud.ug.files[fi] == nil {
			continue
		}
		g := ud.ug.files[fi]
		for _, st := range t.GetStructLikes() {
			e := regOf(u, fi, st.Name)
			if e == nil || path.Dir(e.File) != path.Dir(g.rel) {
				continue
			}
			lit := g.newX[e.GoType]
			if lit == nil {
				continue
			}
			byName := map[string]ast.Expr{}
			for _, el := range lit.Elts {
				if kv, ok := el.(*ast.KeyValueExpr); ok {
					if id, ok := kv.Key.(*ast.Ident); ok {
						byName[id.Name] = kv.Value
					}
				}
			}
			for j, f := range st.Fields {
				if f.Default == nil {
					continue
				}
				val, ok := byName[e.GoField[int16(f.ID)]]
				impl := "missing"
				if ok {
					impl = "ok " + hexText(g.text(val))
				}
				ls = append(ls, &opLine{text: fmt.Sprintf("DT %s %d %s %d", u.Key, fi, vl.Hex(st.Name), j), impl: impl, ud: ud, what: "DT", nontrivial: true})
			}
		}
	}
	return ls
}
