package main

import (
	"fmt"
	"math"
	"os"
	"os/exec"
	"path/filepath"
	"regexp"
	"strings"
	"time"

	"verifharness/internal/batch"
	"verifharness/internal/idlgen"
	"verifharness/internal/values"
	"verifharness/internal/values/valgen"
	"verifharness/internal/vl"
)

// option sets of the value suite: the ones that change the representation of constants and defaults, plus
// presentation options that must not change a value.
var optionSets = [][]string{
	{},
	{"enum_as_int_32"},
	{"value_type_in_container"},
	{"use_type_alias=false"},
	{"naming_style=golint"},
	{"naming_style=apache", "gen_setter"},
	{"nil_safe", "typed_enum_string"},
	{"keep_unknown_fields", "reorder_fields"},
	{"ignore_initialisms", "compatible_names", "reserve_comments"},
	{"value_type_in_container", "enum_as_int_32", "naming_style=golint"},
}

// valueConfig: programs for the compiled suite -- more constants and defaults than the shared default.
func valueConfig(r *vl.Rng, i int) idlgen.Config {
	cfg := idlgen.DefaultConfig()
	cfg.MaxConsts = 6
	cfg.MaxServices = 1
	cfg.SafeNames = i%3 != 2 // every third program takes its names from the stress pool
	cfg.KeywordNames = false
	// shapes the tree digests since af2ab0e / 4cb0c25 / 0728d24 / 029e141 / c3bf0fd
	cfg.TypedefContainerConst = true
	cfg.CrossFileLiteralIdents = true
	cfg.StructLiteralInContainer = true
	cfg.OptionalEnumInLiteral = true
	cfg.BinaryConstIdents = true
	_ = r
	return cfg
}

type unitData struct {
	textOnly bool // the unit does not compile: only the text suite runs on it
	defect string // the unit replays a known defect: oracle failures are reported under this stable key
	u      *batch.UnitInfo
	prog   *idlgen.Program
	fr     *front
	ug     *unitGo
	consts []constDecl
	notes  []string
}

// opLine is one line of ops.txt with what is known about it.
type opLine struct {
	text   string
	driver bool   // sent to the compiled driver; otherwise `impl` is the implementation-side answer
	impl   string
	check  func(ans string) string // oracle on the answer ("" = fine); nil = no oracle
	what   string
	ud     *unitData
	nontrivial bool
	item   string // the IDL definition the op is about (the minimised input of an oracle failure)
}

// defText cuts one definition out of the rendered IDL: the `const` line, or the struct-like's block.
func defText(p *idlgen.Program, file int, kind, name string) string {
	text := p.Render()[p.Files[file].Path]
	lines := strings.Split(text, "\n")
	for i, l := range lines {
		switch kind {
		case "const":
			if strings.HasPrefix(l, "const ") && strings.Contains(l, " "+name+" = ") {
				return l
			}
		default:
			for _, kw := range []string{"struct ", "union ", "exception "} {
				if l == kw+name+" {" {
					j := i
					for j < len(lines) && lines[j] != "}" {
						j++
					}
					if j < len(lines) {
						return strings.Join(lines[i:j+1], "\n")
					}
				}
			}
		}
	}
	return kind + " " + name
}

func run(repo, dir string, seed uint64, tier string, nprog, nwild int, keep bool, replay string) int {
	t0 := time.Now()
	if abs, err := filepath.Abs(dir); err == nil {
		dir = abs
	}
	if err := os.MkdirAll(dir, 0o755); err != nil {
		fmt.Fprintln(os.Stderr, err)
		return 2
	}
	work := filepath.Join(dir, "work")
	os.RemoveAll(work)
	if !keep {
		defer os.RemoveAll(work)
	}
	out := vl.NewOut(dir)
	defer out.Close()
	r := vl.NewRng(vl.NewRng(seed).U64())
	if nprog < 0 {
		nprog = 0
	} else if nprog == 0 {
		nprog = 5
		if tier == "thorough" {
			nprog = 40
		}
	}

	// ---- value suite: programs x option sets, compiled in one batch
	var units []batch.Unit
	var progs []*idlgen.Program
	for i := 0; i < nprog; i++ {
		p := idlgen.Generate(r, valueConfig(r, i))
		p.Stats(out.Count)
		if i%2 == 1 {
			addClash(r, p, i, i%4 == 3, out.Count) // colliding field names and struct literals over them
		}
		if i%3 != 2 {
			addShadow(p, i, i%3 == 1, out.Count) // same names in includer and include, referenced from values of foreign types
		}
		if i%2 == 0 {
			addElems(p, i, out.Count) // struct constants as container elements
		}
		countProgramShapes(out, p)
		if i%5 == 1 || i%5 == 3 {
			(&decorator{r: r, every: 60, count: out.Count}).program(p) // comments and white space around the tokens of values
			out.Count("decorated.program")
		}
		progs = append(progs, p)
		for j := 0; j < 3; j++ {
			o := optionSets[(i*2+j*3+int(seed))%len(optionSets)]
			if j == 0 {
				o = optionSets[0]
			}
			units = append(units, batch.Unit{Prog: p, Recurse: true, Options: o, Tag: fmt.Sprintf("prog%d", i), NoSynth: true})
		}
	}
	defectOf := map[int]string{}
	{
		// the catalogue (regression items first) goes in front of the random programs
		var cat []batch.Unit
		for _, cp := range catalogue() {
			sets := [][]string{{}}
			if cp.opts != nil {
				sets = cp.opts
			} else if cp.vtic {
				sets = append(sets, []string{"value_type_in_container"})
			} else {
				sets = append(sets, []string{"enum_as_int_32", "naming_style=golint", "nil_safe"})
			}
			for _, o := range sets {
				defectOf[len(cat)] = cp.defect
				cat = append(cat, batch.Unit{Prog: cp.prog, Recurse: true, Options: o, Tag: "cat:" + cp.name, NoSynth: true})
			}
			out.Count("catalogue." + cp.name)
		}
		units = append(cat, units...)
	}
	b, err := batch.Build(work, repo, units, nil)
	if b != nil {
		fmt.Println(b.Summary())
	}
	if err != nil {
		fmt.Println("ERROR:", err)
		return 2
	}
	mod := filepath.Join(work, "mod")
	var uds, textUnits []*unitData
	bad := 0
	for i := range b.Units {
		u := &b.Units[i]
		if !u.OK() {
			bad++
			out.Count("unit.unusable")
			out.Sample(map[string]interface{}{"unusable_unit": u.Key, "options": u.Options, "build": first(u.BuildErrors, 3), "exit": u.Exit, "stderr": firstLines(u.Stderr, 3)})
			fmt.Printf("UNIT %s unusable (C01's business): exit=%d %s %s\n", u.Key, u.Exit, firstLines(u.Stderr, 2), strings.Join(first(u.BuildErrors, 2), " | "))
			reportInitialiserErrors(out, mod, u, units[i].Prog)
			reportRejection(out, u, units[i].Prog)
			if u.Exit == 0 && len(u.ParseErrors) == 0 {
				// the output parses but does not compile: no values, but the initialiser texts are still compared
				tu := &unitData{u: u, prog: units[i].Prog, defect: defectOf[i], textOnly: true}
				if tu.fr = runFront(tu.prog); tu.fr.err == nil {
					tu.ug = scanUnit(mod, u, tu.prog)
					tu.consts, _ = tu.ug.constDecls(tu.fr)
					textUnits = append(textUnits, tu)
				}
			}
			continue
		}
		ud := &unitData{u: u, prog: units[i].Prog, defect: defectOf[i]}
		ud.fr = runFront(ud.prog)
		if ud.fr.err != nil {
			// thriftgo accepted the program but the in-process front end did not: machinery problem
			fmt.Println("ERROR: front end rejects a program thriftgo accepted:", ud.fr.err)
			return 2
		}
		ud.ug = scanUnit(mod, u, ud.prog)
		var notes []string
		ud.consts, notes = ud.ug.constDecls(ud.fr)
		ud.notes = append(ud.ug.notes, notes...)
		for _, n := range ud.notes {
			fmt.Printf("NOTE %s: %s\n", u.Key, n)
			out.Fail(vl.OracleFail{Key: "constants-missing:" + u.Key + ":" + n, What: "the generated package does not declare the IDL constants in its const/var groups",
				Input: unitInput(ud, ""), Expected: "one Go constant or variable per IDL constant", Observed: n})
		}
		uds = append(uds, ud)
	}
	if bad*2 > len(b.Units) {
		out.Fail(vl.OracleFail{Key: "units-unusable", What: fmt.Sprintf("%d of %d units were rejected or did not compile", bad, len(b.Units)),
			Expected: "generated code compiles", Observed: b.Summary()})
	}

	// ---- accessor file + relink of the driver
	t1 := time.Now()
	if err := relink(b, mod, uds); err != nil {
		fmt.Println("ERROR:", err)
		return 2
	}
	out.Stats["timing_ms.relink"] = int(time.Since(t1).Milliseconds())

	// ---- ops
	var lines []*opLine
	for _, ud := range uds {
		lines = append(lines, valueOps(r, ud, out)...)
		lines = append(lines, textOps(ud)...)
	}
	for _, ud := range textUnits {
		for _, l := range ud.u.SchemaLines() {
			lines = append(lines, &opLine{text: l, impl: "ok", ud: ud})
		}
		for _, l := range ud.fr.envLines(ud.u.Key, ud.u.Options, ud.u.Schema) {
			lines = append(lines, &opLine{text: l, impl: "ok", ud: ud})
		}
		lines = append(lines, &opLine{text: "Q " + ud.u.Key, impl: "accept", ud: ud, what: "Q"})
		lines = append(lines, textOps(ud)...)
		out.Count("unit.text_only")
	}
	// ---- thriftgo-only suites: reject + text on programs that need not compile
	if nwild < 0 {
		nwild = 30
		if tier == "thorough" {
			nwild = 400
		}
	}
	wildOpts := [][]string{{}, {"value_type_in_container"}, {"naming_style=golint"}, {"enum_as_int_32", "use_type_alias=false"}}
	for i := 0; i < nwild; i++ {
		w := &wildUnit{key: fmt.Sprintf("w%d", i), prog: idlgen.Generate(r, wildConfig(r)), opts: wildOpts[r.Intn(len(wildOpts))]}
		if r.Chance(55) {
			w.mutated = mutate(r, w.prog)
		}
		ls, err := wildOps(b.Thriftgo, work, w, out)
		if err != nil {
			fmt.Println("ERROR:", err)
			return 2
		}
		lines = append(lines, ls...)
	}
	// ---- literal suite and the string-literal defects
	nlit := 400
	if tier == "thorough" {
		nlit = 4000
	}
	lines = append(lines, literalOps(r, nlit, out)...)
	if err := stringDefects(b.Thriftgo, work, out); err != nil {
		fmt.Println("ERROR:", err)
		return 2
	}
	var send []string
	for _, l := range lines {
		if l.driver {
			send = append(send, l.text)
		}
	}
	answers, err := b.RunLines(send)
	if err != nil {
		fmt.Println("ERROR:", err)
		return 2
	}
	k := 0
	fails := 0
	for _, l := range lines {
		ans := l.impl
		if l.driver {
			ans = answers[k]
			k++
		}
		out.Case(l.text, ans, l.nontrivial)
		if l.what != "" {
			out.Count("op." + l.what)
		}
		if l.check == nil {
			continue
		}
		if msg := l.check(ans); msg != "" {
			fails++
			if fails <= 10 {
				fmt.Printf("ORACLE FAIL [%s %s] %s\n  op: %.300s\n  got: %.300s\n", l.ud.u.Key, strings.Join(l.ud.u.Options, ","), msg, l.text, ans)
			}
			// the key is the minimised input: the definition the op is about and the class of the failure (the text
			// of the message up to the first value), not the position of the unit in the batch
			class := msg
			if i := strings.IndexAny(class, ":="); i > 0 {
				class = class[:i]
			}
			key := l.what + ":" + l.item + ":" + class
			if l.ud.defect != "" {
				key = "defect:" + l.ud.defect
			}
			in := unitInput(l.ud, l.text)
			in["definition"] = l.item
			out.Fail(vl.OracleFail{Key: key, What: l.what + ": " + msg, Input: in, Expected: msg, Observed: ans})
		} else {
			out.Count("oracle.ok." + l.what)
		}
	}
	for k, d := range b.Timing {
		out.Stats["timing_ms."+k] = int(d.Milliseconds())
	}
	fmt.Printf("c06: seed %d, %d units (%d unusable), %d op lines, %d oracle failures, %.1fs total\n",
		seed, len(b.Units), bad, len(lines), fails, time.Since(t0).Seconds())
	if replay != "" {
		found := false
		for _, f := range out.Oracle {
			if f.Key == replay {
				found = true
				fmt.Printf("REPLAY %s: still failing: %v\n", replay, f.Observed)
			}
		}
		if !found {
			fmt.Printf("REPLAY %s: no longer failing\n", replay)
		}
	}
	if fails > 0 || len(out.Oracle) > 0 {
		return 1
	}
	return 0
}

func first(xs []string, n int) []string {
	if len(xs) > n {
		return xs[:n]
	}
	return xs
}

func firstLines(s string, n int) string {
	ls := strings.Split(strings.TrimSpace(s), "\n")
	if len(ls) > n {
		ls = ls[:n]
	}
	return strings.Join(ls, " | ")
}

func unitInput(ud *unitData, op string) map[string]interface{} {
	if ud.defect != "" {
		// the replay of a known defect must not depend on where in the batch the unit ended up
		return map[string]interface{}{"tag": ud.u.Tag, "options": ud.u.Options, "idl": ud.prog.Render(),
			"op": strings.Replace(op, " "+ud.u.Key+" ", " u ", 1), "cmd": "thriftgo -r -g go:" + strings.Join(ud.u.Options, ",") + " " + ud.prog.Files[0].Path}
	}
	return map[string]interface{}{"unit": ud.u.Key, "tag": ud.u.Tag, "options": ud.u.Options, "idl": ud.prog.Render(), "op": op,
		"cmd": strings.Join(ud.u.Cmd, " ")}
}

// relink writes the accessor file into the driver package and builds the driver again (the generated
// packages are in the build cache; only package main is recompiled).
func relink(b *batch.Built, mod string, uds []*unitData) error {
	for round := 0; round < 4; round++ {
		src := accessorSource(uds)
		if err := os.WriteFile(filepath.Join(mod, "driver", "c06_consts.go"), []byte(src), 0o644); err != nil {
			return err
		}
		c := exec.Command("go", "build", "-o", b.Bin, "./driver")
		c.Dir = mod
		c.Env = append(os.Environ(), "GOFLAGS=-mod=mod", "GOPROXY=off", "GOSUMDB=off", "GOTOOLCHAIN=local")
		outp, err := c.CombinedOutput()
		if err == nil {
			return nil
		}
		// an accessor that does not compile: blame the unit by its key in the accessor line and drop its constants
		re := regexp.MustCompile(`c06_consts\.go:(\d+)`)
		srcLines := strings.Split(src, "\n")
		dropped := false
		for _, m := range re.FindAllStringSubmatch(string(outp), -1) {
			var ln int
			fmt.Sscan(m[1], &ln)
			if ln-1 < len(srcLines) {
				for _, ud := range uds {
					if strings.Contains(srcLines[ln-1], "\""+ud.u.Key+"/") && len(ud.consts) > 0 {
						ud.notes = append(ud.notes, "accessor does not compile: "+firstLines(string(outp), 3))
						ud.consts = nil
						dropped = true
					}
				}
			}
		}
		if !dropped {
			return fmt.Errorf("relink of the driver failed:\n%s", outp)
		}
	}
	return fmt.Errorf("relink of the driver failed repeatedly")
}

// valueOps: the lines of one compiled unit.
func valueOps(r *vl.Rng, ud *unitData, out *vl.Out) []*opLine {
	var ls []*opLine
	local := func(text string) { ls = append(ls, &opLine{text: text, impl: "ok", ud: ud}) }
	u := ud.u
	for _, l := range u.SchemaLines() {
		ls = append(ls, &opLine{text: l, driver: true, ud: ud})
	}
	for _, l := range ud.fr.envLines(u.Key, u.Options, u.Schema) {
		local(l)
	}
	out.Count("unit.options." + strings.Join(u.PLineOptions(), ","))
	// the unit was accepted by thriftgo: the model must accept every initialiser
	ls = append(ls, &opLine{text: "Q " + u.Key, impl: "accept", ud: ud, what: "Q"})
	if ud.defect == "" {
		// the programs of the compiled suite lie inside the hypotheses of const_value (`good` holds everywhere)
		ls = append(ls, &opLine{text: "H " + u.Key, impl: "ok 0", ud: ud, what: "H"})
	}

	// constants
	idlConst := map[string]*idlgen.ConstDef{}
	for fi, f := range ud.prog.Files {
		for _, c := range f.Consts {
			idlConst[fmt.Sprintf("%d/%s", fi, c.Name)] = c
		}
	}
	for i := range ud.consts {
		cd := ud.consts[i]
		ic := idlConst[fmt.Sprintf("%d/%s", cd.file, cd.c.Name)]
		if ic == nil {
			continue
		}
		rt := ud.prog.Resolve(ic.Type).String()
		want := values.SortMaps(ic.Value.Val)
		text := fmt.Sprintf("K %s %d %s %s", u.Key, cd.file, vl.Hex(cd.c.Name), rt)
		ls = append(ls, &opLine{text: text, driver: true, ud: ud, what: "K", nontrivial: true, item: defText(ud.prog, cd.file, "const", cd.c.Name), check: func(ans string) string {
			return sameValue(ans, want)
		}})
		// the generator's intention against the model's IDL-side evaluator
		ls = append(ls, &opLine{text: "KI" + text[1:], impl: "ok " + want.String(), ud: ud, what: "KI", nontrivial: true})
	}

	// structs: NewX, InitDefault, getters / IsSet
	var aOps []*opLine
	vcfg := valgen.Config{Count: out.Count, NilElems: !has(u.Options, "value_type_in_container")}
	for sidx, st := range u.Schema.Structs {
		key := fmt.Sprintf("%s:%d", u.Key, sidx)
		init := st.Initial()
		item := defText(ud.prog, st.File, "struct", st.Name)
		ls = append(ls, &opLine{text: "N " + key, driver: true, ud: ud, what: "N", nontrivial: true, item: item, check: func(ans string) string { return sameValue(ans, init) }})
		ls = append(ls, &opLine{text: "Z " + key, driver: true, ud: ud, what: "Z", nontrivial: true, item: item, check: func(ans string) string { return sameValue(ans, init) }})
		// a field named `_x` becomes the unexported Go field `_X`: the reflection driver cannot build objects of
		// such a type, nor of a type that contains one
		if reachesUnexported(u, sidx, map[int]bool{}) {
			out.Count("skip.G.unexported_field")
			continue
		}
		vals := []*values.Value{init.Clone(), st.Zero()}
		for k := 0; k < 3; k++ {
			vals = append(vals, valgen.Gen(r, u.Schema, sidx, 1+r.Intn(3), vcfg))
		}
		// a fresh object with one field moved away from / back to its default
		if len(st.Fields) > 0 {
			m := init.Clone()
			i := r.Intn(len(st.Fields))
			g := valgen.Gen(r, u.Schema, sidx, 2, vcfg)
			m.E[i] = g.E[i]
			vals = append(vals, m)
		}
		if aliasesConstant(ud.prog, st) {
			// a default written as the identifier of a container / struct / binary constant shares that constant's
			// Go object by construction (`F: pkg.CONST`): modifying the field in place modifies the constant. Recorded
			// in docs/C06.md as an observation; the history op would only restate it.
			out.Count("skip.A.default_is_a_shared_constant")
		} else {
			// the aliasing history: InitDefault, in-place modification, InitDefault / getters on fresh objects
			st, zero := st, st.Zero()
			aOps = append(aOps, &opLine{text: "A " + key + " " + zero.String(), driver: true, ud: ud, what: "A", nontrivial: true, item: item, check: func(ans string) string {
				parts := strings.SplitN(ans, " | ", 2)
				if len(parts) != 2 {
					return "history failed: " + ans
				}
				if msg := sameValue(parts[0], init); msg != "" {
					return "second InitDefault after an in-place modification of the first object: " + msg
				}
				if msg := checkG(st, zero, parts[1]); msg != "" {
					return "getters of a fresh object after an in-place modification of another: " + msg
				}
				return ""
			}})
		}
		for _, v := range vals {
			v := v
			st := st
			ls = append(ls, &opLine{text: "G " + key + " " + v.String(), driver: true, ud: ud, what: "G", nontrivial: true, item: item, check: func(ans string) string {
				return checkG(st, v, ans)
			}})
		}
	}
	return append(ls, aOps...)
}

func countShape(out *vl.Out, what string, c *idlgen.Const) {
	k := map[idlgen.ConstKind]string{idlgen.CInt: "int", idlgen.CDouble: "double", idlgen.CString: "string", idlgen.CIdent: "ident", idlgen.CList: "list", idlgen.CMap: "map"}[c.Kind]
	if c.Kind == idlgen.CIdent {
		switch {
		case c.Text == "true" || c.Text == "false":
			k = "ident.bool"
		case strings.Count(c.Text, ".") == 0:
			k = "ident.local"
		default:
			k = fmt.Sprintf("ident.dots%d", strings.Count(c.Text, "."))
		}
	}
	out.Count("shape." + what + "." + k)
	for _, it := range c.Items {
		countShape(out, what+".nested", it)
	}
}

func sameValue(ans string, want *values.Value) string {
	if !strings.HasPrefix(ans, "ok ") {
		return "no value: " + ans + ", the IDL says " + want.String()
	}
	got, err := values.Parse(ans[3:])
	if err != nil {
		return "unparsable dump: " + err.Error()
	}
	if !values.EqualCanon(got, want) {
		return "Go holds " + got.String() + ", the IDL says " + want.String()
	}
	return ""
}

// ---- getters and IsSet: the property evaluated with the generator's intended defaults

func goNe(t *idlgen.RType, a, b *values.Value) bool {
	switch t.Kind {
	case idlgen.RDouble:
		x, y := math.Float64frombits(a.D), math.Float64frombits(b.D)
		return x != y
	case idlgen.RBinary:
		var p, q []byte
		if !a.IsNil() {
			p = a.X
		}
		if !b.IsNil() {
			q = b.X
		}
		return string(p) != string(q)
	}
	return !values.Equal(a, b)
}

func checkG(st *idlgen.SStruct, v *values.Value, ans string) string {
	toks := strings.Fields(ans)
	if len(toks) == 0 || toks[0] != "ok" {
		return "getters failed: " + ans
	}
	toks = toks[1:]
	for i, f := range st.Fields {
		got, rest, err := values.ParseTokens(toks)
		if err != nil || len(rest) == 0 {
			return "unparsable getter answer"
		}
		isset := rest[0]
		toks = rest[1:]
		fv := v.E[i]
		support := f.Type.Kind == idlgen.RStruct || f.Req == idlgen.Optional
		if !support {
			if isset != "-" {
				return fmt.Sprintf("field %d: unexpected IsSet method", f.ID)
			}
			if !values.EqualCanon(got, fv) {
				return fmt.Sprintf("field %d: getter returns %s, field holds %s", f.ID, got, fv)
			}
			continue
		}
		var set bool
		if f.Default != nil && f.Type.IsBase() {
			set = goNe(f.Type, fv, f.Default)
		} else {
			set = !fv.IsNil()
		}
		want := fv
		if !set {
			if f.Default != nil {
				want = f.Default
			} else if f.Type.IsBase() && f.Type.Kind != idlgen.RBinary {
				want = idlgen.ZeroOf(f.Type)
			} else {
				want = values.Nil()
			}
		}
		if (isset == "1") != set {
			return fmt.Sprintf("field %d: IsSet = %s, expected %v (field holds %s, default %v)", f.ID, isset, set, fv, f.Default)
		}
		if !values.EqualCanon(got, want) && !(f.Type.Kind == idlgen.RDouble && !goNe(f.Type, got, want)) {
			return fmt.Sprintf("field %d: getter returns %s, expected %s", f.ID, got, want)
		}
	}
	return ""
}


func unexportedField(u *batch.UnitInfo, sidx int) bool {
	for _, e := range u.Registry {
		if e.Sidx == sidx {
			for _, gf := range e.GoField {
				if gf == "" || gf[0] == '_' || (gf[0] >= 'a' && gf[0] <= 'z') {
					return true
				}
			}
		}
	}
	return false
}

func reachesUnexported(u *batch.UnitInfo, sidx int, seen map[int]bool) bool {
	if seen[sidx] {
		return false
	}
	seen[sidx] = true
	if unexportedField(u, sidx) {
		return true
	}
	var walk func(t *idlgen.RType) bool
	walk = func(t *idlgen.RType) bool {
		switch t.Kind {
		case idlgen.RList, idlgen.RSet:
			return walk(t.Elem)
		case idlgen.RMap:
			return walk(t.Key) || walk(t.Elem)
		case idlgen.RStruct:
			return reachesUnexported(u, t.Sidx, seen)
		}
		return false
	}
	for _, f := range u.Schema.Structs[sidx].Fields {
		if walk(f.Type) {
			return true
		}
	}
	return false
}

// aliasesConstant: does a default of the struct refer, by identifier, to a constant whose Go object is mutable?
func aliasesConstant(p *idlgen.Program, st *idlgen.SStruct) bool {
	var has func(c *idlgen.Const) bool
	has = func(c *idlgen.Const) bool {
		if c == nil {
			return false
		}
		if c.Kind == idlgen.CIdent && c.Val != nil {
			switch c.Val.K {
			case values.KList, values.KSet, values.KMap, values.KRecord, values.KBytes:
				return true
			}
		}
		for _, it := range c.Items {
			if has(it) {
				return true
			}
		}
		return false
	}
	for _, s := range p.Files[st.File].Structs {
		if s.Name == st.Name {
			for _, f := range s.Fields {
				if has(f.Default) {
					return true
				}
			}
		}
	}
	return false
}

var buildErrRe = regexp.MustCompile(`^(u\d+/[^:\s]+\.go):(\d+):(\d+): (.*)$`)

// reportInitialiserErrors: a unit that does not compile is C01's business -- unless the compiler points into the
// code generated for a constant or a default (const/var groups, _DEFAULT variables, NewX literal, InitDefault):
// then the constant is not available with its value, which is this property. Key = tag, options, compiler message.
func reportInitialiserErrors(out *vl.Out, mod string, u *batch.UnitInfo, prog *idlgen.Program) {
	files := map[string]*goFile{}
	seen := map[string]bool{}
	for _, ln := range u.BuildErrors {
		m := buildErrRe.FindStringSubmatch(strings.TrimSpace(ln))
		if m == nil {
			continue
		}
		g, ok := files[m[1]]
		if !ok {
			g, _ = scanGoFile(mod, m[1])
			files[m[1]] = g
		}
		if g == nil {
			continue
		}
		var line int
		fmt.Sscan(m[2], &line)
		if !g.inInitialiser(line) {
			continue
		}
		if has(u.Options, "use_type_alias=false") && !strings.HasPrefix(u.Tag, "cat:") {
			// named (non-alias) typedef types reject the constants of their base type: the aimed unit `noalias_enum`
			// reports that defect under a stable key; the random units only count it
			out.Count("compile_error_in_initialiser.use_type_alias_false")
			continue
		}
		msg := strings.ReplaceAll(m[4], u.Key+"/", "")
		if i := strings.LastIndex(msg, " value in "); i > 0 {
			msg = msg[:i+6] // the same mistake in the NewX literal, in InitDefault and in the _DEFAULT variable is one finding
		}
		key := "compile:" + u.Tag + ":" + strings.Join(u.Options, ",") + ":" + msg
		if seen[key] {
			continue
		}
		seen[key] = true
		src := strings.Split(string(g.src), "\n")
		text := ""
		if line-1 < len(src) {
			text = strings.TrimSpace(src[line-1])
		}
		fmt.Printf("ORACLE FAIL [%s %s] the code generated for a constant/default does not compile: %s  (%s)\n", u.Key, strings.Join(u.Options, ","), msg, text)
		out.Count("compile_error_in_initialiser")
		out.Fail(vl.OracleFail{Key: key, What: "the Go code generated for a constant or default does not compile",
			Input:    map[string]interface{}{"tag": u.Tag, "options": u.Options, "idl": prog.Render(), "cmd": "thriftgo -r -g go:" + strings.Join(u.Options, ",") + " " + prog.Files[0].Path},
			Expected: "a Go constant/variable holding the IDL value", Observed: strings.TrimPrefix(m[1], u.Key+"/") + ": " + msg + "  | " + text})
	}
}

var pathRe = regexp.MustCompile(`(/[^\s:]+)+/`)

// reportRejection: thriftgo refuses a program that its own front end (run in process) accepts: a constant or
// default did not resolve. Key = tag, options, the last line of the diagnostic without paths.
func reportRejection(out *vl.Out, u *batch.UnitInfo, prog *idlgen.Program) {
	if u.Exit == 0 {
		return
	}
	if fr := runFront(prog); fr.err != nil {
		return // not a program the front end accepts: not this property's subject
	}
	var last string
	for _, ln := range strings.Split(u.Stderr, "\n") {
		ln = strings.TrimSpace(ln)
		if ln != "" && !strings.HasPrefix(ln, "[WARN]") && !strings.HasPrefix(ln, "goroutine") && !strings.HasPrefix(ln, "/") && !strings.HasPrefix(ln, "runtime") {
			last = ln
		}
	}
	if i := strings.Index(last, ", stack ="); i > 0 {
		last = last[:i]
	}
	last = pathRe.ReplaceAllString(last, "")
	key := "rejected:" + u.Tag + ":" + strings.Join(u.Options, ",") + ":" + last
	fmt.Printf("ORACLE FAIL [%s %s] thriftgo rejects a program its front end accepts (exit %d): %s\n", u.Key, strings.Join(u.Options, ","), u.Exit, last)
	out.Count("rejected_unit")
	out.Fail(vl.OracleFail{Key: key, What: "thriftgo rejects an IDL program whose constants and defaults are valid",
		Input:    map[string]interface{}{"tag": u.Tag, "options": u.Options, "idl": prog.Render(), "cmd": "thriftgo -r -g go:" + strings.Join(u.Options, ",") + " " + prog.Files[0].Path},
		Expected: "exit 0 and a Go constant/variable per IDL constant", Observed: fmt.Sprintf("exit %d: %s", u.Exit, last)})
}
