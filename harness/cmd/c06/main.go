// c06: harness for property C06 (constants and default values in Go equal the values written in the IDL).
//
//	c06 extract -repo R                         print Generated/C06.lean (tables of the predicates the model copies)
//	c06 run     -repo R -dir D -seed N -tier T  value suite (compiled batch), text suite, reject suite, literal suite
//	c06 replay  -repo R -dir D -file F          re-run one recorded failing program
//	c06 idl     -seed N                         print one generated program
package main

import (
	"encoding/json"
	"flag"
	"fmt"
	"os"
	"sort"
	"strings"

	"verifharness/internal/idlgen"
	"verifharness/internal/vl"
)

func main() {
	if len(os.Args) < 2 {
		fmt.Fprintln(os.Stderr, "usage: c06 extract|run|replay|idl [flags]")
		os.Exit(2)
	}
	fs := flag.NewFlagSet(os.Args[1], flag.ExitOnError)
	repo := fs.String("repo", "/repo", "repository under test")
	dir := fs.String("dir", "", "output directory")
	seed := fs.Uint64("seed", 1, "seed")
	tier := fs.String("tier", "quick", "quick|thorough")
	keep := fs.Bool("keep", false, "keep the work directory")
	file := fs.String("file", "", "replay file")
	nprog := fs.Int("programs", 0, "number of compiled programs (0 = tier default)")
	index := fs.Int("index", 0, "idl: print the i-th program of the value suite")
	nwild := fs.Int("wild", -1, "number of thriftgo-only programs (-1 = tier default)")
	fs.Parse(os.Args[2:])
	switch os.Args[1] {
	case "extract":
		if err := extract(*repo); err != nil {
			fmt.Fprintln(os.Stderr, "c06 extract:", err)
			os.Exit(3)
		}
	case "idl":
		r := vl.NewRng(vl.NewRng(*seed).U64())
		var p *idlgen.Program
		for i := 0; i <= *index; i++ { // the programs of the value suite are drawn one after the other from one stream
			p = idlgen.Generate(r, valueConfig(r, i))
		}
		files := p.Render()
		var names []string
		for n := range files {
			names = append(names, n)
		}
		sort.Strings(names)
		for _, n := range names {
			fmt.Printf("==== %s\n%s", n, files[n])
		}
		fr := runFront(p)
		if fr.err != nil {
			fmt.Println("front end:", fr.err)
			return
		}
		for _, l := range p.Schema().Lines("u0", nil) {
			fmt.Println(l)
		}
		for _, l := range fr.envLines("u0", nil, p.Schema()) {
			fmt.Println(l)
		}
	case "run":
		if *dir == "" {
			fmt.Fprintln(os.Stderr, "-dir is required")
			os.Exit(2)
		}
		os.Exit(run(*repo, *dir, *seed, *tier, *nprog, *nwild, *keep, ""))
	case "replay":
		if *dir == "" || *file == "" {
			fmt.Fprintln(os.Stderr, "-dir and -file are required")
			os.Exit(2)
		}
		// a replay file names the seed of the run and the key of the failing input; defect keys are seed independent
		var doc struct {
			Seed uint64 `json:"seed"`
			Key  string `json:"key"`
		}
		if b, err := os.ReadFile(*file); err != nil || json.Unmarshal(b, &doc) != nil {
			fmt.Fprintln(os.Stderr, "cannot read replay file", *file)
			os.Exit(2)
		}
		if doc.Seed != 0 {
			*seed = doc.Seed
		}
		if strings.HasPrefix(doc.Key, "defect:") {
			*nprog, *nwild = -1, 0
		}
		os.Exit(run(*repo, *dir, *seed, *tier, *nprog, *nwild, *keep, doc.Key))
	default:
		fmt.Fprintln(os.Stderr, "unknown subcommand", os.Args[1])
		os.Exit(2)
	}
}
