package main

// consts.go: what the generated Go files declare for the IDL constants -- found with go/parser, never by
// predicting Go names: the Constant template prints one parenthesised `const ( Name = init … )` group for the
// constants that are constants in Go and one parenthesised `var ( Name = init … )` group for the others, both
// untyped and in IDL order. From this: (1) the accessor file added to the batch driver (op K dumps the Go value
// of a constant as a VL value), (2) the initialiser texts for the text suite, (3) the Go names the model's
// printer needs (constants, types, enum values, struct fields, package qualifiers).

import (
	"fmt"
	"go/ast"
	"go/parser"
	"go/token"
	"os"
	"path"
	"path/filepath"
	"strconv"
	"strings"

	thriftparser "github.com/cloudwego/thriftgo/parser"

	"verifharness/internal/batch"
	"verifharness/internal/idlgen"
	"verifharness/internal/vl"
)

// goFile is what one generated Go file declares.
type goFile struct {
	rel      string // path relative to the module root
	pkgPath  string // import path
	src      []byte
	fset     *token.FileSet
	file     *ast.File
	consts   []*ast.ValueSpec // the untyped parenthesised const group
	vars     []*ast.ValueSpec // the untyped parenthesised var group
	typeDecl []*ast.TypeSpec  // non-struct named types in order (enums and typedefs)
	structs  []*ast.TypeSpec
	enumVals map[string][]*ast.ValueSpec // enum Go type -> its typed const specs in order
	imports  map[string]string          // import path -> qualifier
	defaults map[string]*ast.ValueSpec   // X_F_DEFAULT variables by name
	newX     map[string]*ast.CompositeLit // Go type -> the literal NewX returns
	initDefault []*ast.FuncDecl            // the InitDefault methods
}

// inInitialiser: does the line lie in code that Resolver.resolveConst emitted -- the const/var groups of the IDL
// constants, a <T>_<F>_DEFAULT variable, the literal NewX returns, the body of an InitDefault method?
func (g *goFile) inInitialiser(line int) bool {
	in := func(n ast.Node) bool {
		return n != nil && g.fset.Position(n.Pos()).Line <= line && line <= g.fset.Position(n.End()).Line
	}
	for _, sp := range g.consts {
		if in(sp) {
			return true
		}
	}
	for _, sp := range g.vars {
		if in(sp) {
			return true
		}
	}
	for _, sp := range g.defaults {
		if in(sp) {
			return true
		}
	}
	for _, cl := range g.newX {
		if in(cl) {
			return true
		}
	}
	for _, fd := range g.initDefault {
		if in(fd.Body) {
			return true
		}
	}
	return false
}

func untypedGroup(d *ast.GenDecl) []*ast.ValueSpec {
	if !d.Lparen.IsValid() {
		return nil
	}
	var out []*ast.ValueSpec
	for _, sp := range d.Specs {
		vs := sp.(*ast.ValueSpec)
		if vs.Type != nil || len(vs.Names) != 1 || len(vs.Values) != 1 {
			return nil
		}
		out = append(out, vs)
	}
	return out
}

func scanGoFile(mod, rel string) (*goFile, error) {
	src, err := os.ReadFile(filepath.Join(mod, rel))
	if err != nil {
		return nil, err
	}
	g := &goFile{rel: rel, pkgPath: "batch/" + path.Dir(rel), src: src, fset: token.NewFileSet(),
		enumVals: map[string][]*ast.ValueSpec{}, imports: map[string]string{}, defaults: map[string]*ast.ValueSpec{}, newX: map[string]*ast.CompositeLit{}}
	g.file, err = parser.ParseFile(g.fset, rel, src, parser.SkipObjectResolution)
	if err != nil {
		return nil, err
	}
	for _, im := range g.file.Imports {
		p, _ := strconv.Unquote(im.Path.Value)
		q := path.Base(p)
		if im.Name != nil {
			q = im.Name.Name
		}
		g.imports[p] = q
	}
	seenConst, seenVar := false, false
	for _, d := range g.file.Decls {
		switch d := d.(type) {
		case *ast.GenDecl:
			switch d.Tok {
			case token.CONST:
				if sp := untypedGroup(d); sp != nil && !seenConst {
					g.consts, seenConst = sp, true
					continue
				}
				// typed group: enum members
				for _, sp := range d.Specs {
					vs := sp.(*ast.ValueSpec)
					if id, ok := vs.Type.(*ast.Ident); ok && len(vs.Names) == 1 {
						g.enumVals[id.Name] = append(g.enumVals[id.Name], vs)
					}
				}
			case token.VAR:
				if sp := untypedGroup(d); sp != nil && !seenVar {
					g.vars, seenVar = sp, true
					continue
				}
				for _, sp := range d.Specs {
					vs := sp.(*ast.ValueSpec)
					if len(vs.Names) == 1 && strings.HasSuffix(vs.Names[0].Name, "_DEFAULT") {
						g.defaults[vs.Names[0].Name] = vs
					}
				}
			case token.TYPE:
				for _, sp := range d.Specs {
					ts := sp.(*ast.TypeSpec)
					if _, ok := ts.Type.(*ast.StructType); ok {
						g.structs = append(g.structs, ts)
					} else if _, ok := ts.Type.(*ast.InterfaceType); !ok {
						g.typeDecl = append(g.typeDecl, ts)
					}
				}
			}
		case *ast.FuncDecl:
			if d.Recv != nil && d.Body != nil && d.Name.Name == "InitDefault" {
				g.initDefault = append(g.initDefault, d)
			}
			// func NewX() *X { return &X{ … } }
			if d.Recv == nil && d.Body != nil && len(d.Body.List) == 1 && strings.HasPrefix(d.Name.Name, "New") {
				if rs, ok := d.Body.List[0].(*ast.ReturnStmt); ok && len(rs.Results) == 1 {
					if ue, ok := rs.Results[0].(*ast.UnaryExpr); ok && ue.Op == token.AND {
						if cl, ok := ue.X.(*ast.CompositeLit); ok {
							if id, ok := cl.Type.(*ast.Ident); ok {
								g.newX[id.Name] = cl
							}
						}
					}
				}
			}
		}
	}
	return g, nil
}

// text returns the source text of an expression with all white space outside string literals, and a comma
// directly before a closing brace, removed.
func (g *goFile) text(e ast.Expr) string {
	a, b := g.fset.Position(e.Pos()).Offset, g.fset.Position(e.End()).Offset
	return stripSpace(string(g.src[a:b]))
}

func stripSpace(s string) string {
	var sb []byte
	in := byte(0)
	for i := 0; i < len(s); i++ {
		c := s[i]
		switch {
		case in == '"':
			sb = append(sb, c)
			if c == '\\' && i+1 < len(s) {
				i++
				sb = append(sb, s[i])
			} else if c == '"' {
				in = 0
			}
		case in == '`':
			sb = append(sb, c)
			if c == '`' {
				in = 0
			}
		case c == '"' || c == '`':
			in = c
			sb = append(sb, c)
		case c == ' ' || c == '\t' || c == '\n' || c == '\r':
		case c == '}' && len(sb) > 0 && sb[len(sb)-1] == ',':
			sb[len(sb)-1] = '}' // a trailing comma before the closing brace is optional (gofmt drops it on one line)
		default:
			sb = append(sb, c)
		}
	}
	return string(sb)
}

// unitGo ties the IDL files of a unit to the generated Go files.
type unitGo struct {
	files []*goFile // by IDL file index (nil: no Go file found)
	notes []string
}

func predictedGoFile(unitKey string, f *idlgen.File) string {
	dir := unitKey + "/" + f.Prefix()
	if f.GoNS != "" {
		dir = unitKey + "/" + strings.ReplaceAll(f.GoNS, ".", "/")
	}
	return dir + "/" + f.Prefix() + ".go"
}

func scanUnit(mod string, u *batch.UnitInfo, prog *idlgen.Program) *unitGo {
	ug := &unitGo{files: make([]*goFile, len(prog.Files))}
	have := map[string]bool{}
	for _, f := range u.Files {
		have[f] = true
	}
	for fi, f := range prog.Files {
		rel := ""
		// the registry knows the file of every struct of this IDL file
		for _, e := range u.Registry {
			if e.Found && u.Schema.Structs[e.Sidx].File == fi && !u.Schema.Structs[e.Sidx].Synth {
				rel = e.File
				break
			}
		}
		if rel == "" {
			rel = predictedGoFile(u.Key, f)
		}
		if !have[rel] {
			ug.notes = append(ug.notes, fmt.Sprintf("file %d (%s): no generated file %s", fi, f.Path, rel))
			continue
		}
		g, err := scanGoFile(mod, rel)
		if err != nil {
			ug.notes = append(ug.notes, fmt.Sprintf("file %d: %v", fi, err))
			continue
		}
		ug.files[fi] = g
	}
	return ug
}

// constInGo mirrors nothing: it is read off the category the front end computed, and only decides in which
// of the two groups a constant is looked for; a wrong guess shows up as a count mismatch.
func constGroups(t *thriftparser.Thrift) (inConst, inVar []*thriftparser.Constant) {
	for _, c := range t.Constants {
		cat := c.Type.Category
		if (cat.IsBaseType() && cat != thriftparser.Category_Binary) || cat == thriftparser.Category_Enum {
			inConst = append(inConst, c)
		} else {
			inVar = append(inVar, c)
		}
	}
	return
}

// constDecl is one IDL constant with the Go declaration generated for it.
type constDecl struct {
	file  int
	c     *thriftparser.Constant
	spec  *ast.ValueSpec
	gf    *goFile
	isVar bool
}

func (ug *unitGo) constDecls(fr *front) ([]constDecl, []string) {
	var out []constDecl
	var notes []string
	for fi, t := range fr.asts {
		if t == nil || len(t.Constants) == 0 {
			continue
		}
		g := ug.files[fi]
		if g == nil {
			notes = append(notes, fmt.Sprintf("file %d: constants but no Go file", fi))
			continue
		}
		cs, vs := constGroups(t)
		if len(cs) != len(g.consts) || len(vs) != len(g.vars) {
			notes = append(notes, fmt.Sprintf("file %d: %d+%d IDL constants, Go const/var groups hold %d+%d", fi, len(cs), len(vs), len(g.consts), len(g.vars)))
			continue
		}
		for i, c := range cs {
			out = append(out, constDecl{fi, c, g.consts[i], g, false})
		}
		for i, c := range vs {
			out = append(out, constDecl{fi, c, g.vars[i], g, true})
		}
	}
	return out, notes
}

// accessorSource prints the Go file added to the batch driver: op K.
func accessorSource(units []*unitData) string {
	var imp, body strings.Builder
	alias := map[string]string{}
	for _, ud := range units {
		for _, cd := range ud.consts {
			a, ok := alias[cd.gf.pkgPath]
			if !ok {
				a = fmt.Sprintf("cp%d", len(alias))
				alias[cd.gf.pkgPath] = a
				fmt.Fprintf(&imp, "\t%s %q\n", a, cd.gf.pkgPath)
			}
			ref := a + "." + cd.spec.Names[0].Name
			switch cd.c.Type.Category {
			case thriftparser.Category_Bool:
				ref = "bool(" + ref + ")"
			case thriftparser.Category_Byte, thriftparser.Category_I16, thriftparser.Category_I32, thriftparser.Category_I64, thriftparser.Category_Enum:
				ref = "int64(" + ref + ")"
			case thriftparser.Category_Double:
				ref = "float64(" + ref + ")"
			case thriftparser.Category_String:
				ref = "string(" + ref + ")"
			}
			fmt.Fprintf(&body, "\tconstAcc[%q] = func() interface{} { return %s }\n", fmt.Sprintf("%s/%d/%s", ud.u.Key, cd.file, vl.Hex(cd.c.Name)), ref)
		}
	}
	var sb strings.Builder
	sb.WriteString("// Code generated by verifharness/cmd/c06. DO NOT EDIT.\npackage main\n\nimport (\n\t\"reflect\"\n\t\"strings\"\n" + imp.String() + ")\n\n")
	sb.WriteString("var constAcc = map[string]func() interface{}{}\n\n")
	sb.WriteString(`func opK(args []string) string {
	if len(args) < 4 {
		return "badop"
	}
	f := constAcc[args[0]+"/"+args[1]+"/"+args[2]]
	if f == nil {
		return "noconst"
	}
	rt, _ := parseType(args[3:])
	e := &entry{unit: args[0]}
	var sb strings.Builder
	sb.WriteString("ok ")
	e.dump(&sb, rt, reflect.ValueOf(f()))
	return sb.String()
}

`)
	sb.WriteString(`// scramble modifies everything reachable from v IN PLACE (elements of slices, entries of maps, pointees), never
// by assigning a new container to a field: what aliases a shared default object changes that object.
func scramble(v reflect.Value) {
	switch v.Kind() {
	case reflect.Ptr, reflect.Interface:
		if !v.IsNil() {
			scramble(v.Elem())
			if v.Kind() == reflect.Ptr && v.Elem().CanSet() {
				v.Elem().Set(reflect.Zero(v.Elem().Type()))
			}
		}
	case reflect.Slice:
		for i := 0; i < v.Len(); i++ {
			scramble(v.Index(i))
			if v.Index(i).CanSet() {
				v.Index(i).Set(reflect.Zero(v.Type().Elem()))
			}
		}
	case reflect.Map:
		if v.IsNil() {
			return
		}
		for _, k := range v.MapKeys() {
			scramble(v.MapIndex(k))
			v.SetMapIndex(k, reflect.Value{})
		}
		v.SetMapIndex(reflect.Zero(v.Type().Key()), reflect.Zero(v.Type().Elem()))
	case reflect.Struct:
		for i := 0; i < v.NumField(); i++ {
			if v.Field(i).CanSet() {
				scramble(v.Field(i))
			}
		}
	}
}

// A <key> <zero value>: InitDefault on a zero struct, in-place modification of everything it holds, then
// InitDefault on a second zero struct (dumped) and every getter/IsSet on a fresh zero object.
func opA(args []string) string {
	e := lookup(args[0])
	x := reflect.New(e.typ)
	m := x.MethodByName("InitDefault")
	if !m.IsValid() {
		return "nomethod"
	}
	m.Call(nil)
	scramble(x.Elem())
	y := reflect.New(e.typ)
	y.MethodByName("InitDefault").Call(nil)
	return "ok " + e.dumpObj(y) + " | " + opG(args)
}

`)
	sb.WriteString("func init() {\n\textraOps[\"K\"] = opK\n\textraOps[\"A\"] = opA\n" + body.String() + "}\n")
	return sb.String()
}
