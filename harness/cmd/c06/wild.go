package main

// wild.go: the thriftgo-only suites (nothing is compiled): (1) reject suite -- programs in which initialisers
// were replaced by values of arbitrary other kinds, and programs using the shapes the unchanged tree does not
// digest (typedef'd containers, identifiers in literals of foreign structs, …): thriftgo's verdict
// (accept | reject | panic, from exit status and stderr) against the model's; (2) for the accepted ones the
// text suite on every constant and default -- also where the output would not compile.

import (
	"bytes"
	"fmt"
	"go/ast"
	"go/token"
	"os"
	"os/exec"
	"path/filepath"
	"reflect"
	"sort"
	"strconv"
	"strings"

	thriftparser "github.com/cloudwego/thriftgo/parser"

	"verifharness/internal/idlgen"
	"verifharness/internal/values"
	"verifharness/internal/vl"
)

func wildConfig(r *vl.Rng) idlgen.Config {
	cfg := idlgen.DefaultConfig()
	cfg.MaxConsts = 5
	cfg.MaxServices = 0
	cfg.Services = false
	cfg.SafeNames = r.Chance(60)
	cfg.KeywordNames = false
	cfg.TypedefContainerConst = r.Chance(25)
	cfg.CrossFileLiteralIdents = r.Chance(35)
	cfg.StructLiteralInContainer = r.Chance(50)
	cfg.OptionalEnumInLiteral = r.Chance(50)
	cfg.StructConstByIdent = r.Chance(50)
	cfg.BinaryConstIdents = r.Chance(50)
	cfg.CrossFileScalarConstType = r.Chance(50)
	cfg.CrossFileLiteralForeignTypes = r.Chance(50)
	cfg.StringEscapes = r.Chance(40)
	cfg.SetOfContainers = r.Chance(30)
	return cfg
}

// randomConst: a value of an arbitrary kind (the mutation of the reject suite).
func randomConst(r *vl.Rng, p *idlgen.Program, fi int) *idlgen.Const {
	nv := values.Nil()
	switch r.Intn(14) {
	case 0:
		return &idlgen.Const{Kind: idlgen.CInt, Text: []string{"0", "1", "5", "-1", "300", "0x7f"}[r.Intn(6)], Val: nv}
	case 1:
		return &idlgen.Const{Kind: idlgen.CDouble, Text: []string{"2.5", "0.0", "-1.0"}[r.Intn(3)], Val: nv}
	case 2:
		return &idlgen.Const{Kind: idlgen.CString, Text: []string{"", "x", "f1"}[r.Intn(3)], Quote: '"', Val: nv}
	case 3:
		return &idlgen.Const{Kind: idlgen.CIdent, Text: []string{"true", "false"}[r.Intn(2)], Val: nv}
	case 4, 5:
		// some constant of this file or of an included file
		var cands []string
		for _, c := range p.Files[fi].Consts {
			cands = append(cands, c.Name)
		}
		for _, k := range p.Files[fi].Includes {
			for _, c := range p.Files[k].Consts {
				cands = append(cands, p.Files[k].Prefix()+"."+c.Name)
			}
		}
		if len(cands) > 0 {
			return &idlgen.Const{Kind: idlgen.CIdent, Text: cands[r.Intn(len(cands))], Val: nv}
		}
		return &idlgen.Const{Kind: idlgen.CInt, Text: "7", Val: nv}
	case 6:
		var cands []string
		for _, e := range p.Files[fi].Enums {
			cands = append(cands, e.Name+"."+e.Values[r.Intn(len(e.Values))].Name)
		}
		for _, k := range p.Files[fi].Includes {
			for _, e := range p.Files[k].Enums {
				cands = append(cands, p.Files[k].Prefix()+"."+e.Name+"."+e.Values[r.Intn(len(e.Values))].Name)
			}
		}
		if len(cands) > 0 {
			return &idlgen.Const{Kind: idlgen.CIdent, Text: cands[r.Intn(len(cands))], Val: nv}
		}
		return &idlgen.Const{Kind: idlgen.CInt, Text: "1", Val: nv}
	case 7:
		return &idlgen.Const{Kind: idlgen.CList, Sep: ",", Val: nv}
	case 8:
		return &idlgen.Const{Kind: idlgen.CList, Sep: ",", Items: []*idlgen.Const{randomConst(r, p, fi)}, Val: nv}
	case 9:
		return &idlgen.Const{Kind: idlgen.CMap, Sep: ",", Val: nv}
	case 10:
		return &idlgen.Const{Kind: idlgen.CMap, Sep: ",", Items: []*idlgen.Const{randomConst(r, p, fi), randomConst(r, p, fi)}, Val: nv}
	default:
		// a struct-like literal with plausible member names
		n := []string{"f1", "f2", "f3", "nope"}[r.Intn(4)]
		return &idlgen.Const{Kind: idlgen.CMap, Sep: ",", Items: []*idlgen.Const{{Kind: idlgen.CString, Text: n, Quote: '"', Val: nv}, randomConst(r, p, fi)}, Val: nv}
	}
}

// mutate replaces one or two initialisers by values of arbitrary kinds; reports how many it replaced.
func mutate(r *vl.Rng, p *idlgen.Program) int {
	type slot struct {
		fi  int
		set func(*idlgen.Const)
	}
	var slots []slot
	for fi, f := range p.Files {
		for _, c := range f.Consts {
			c := c
			slots = append(slots, slot{fi, func(x *idlgen.Const) { c.Value = x }})
		}
		for _, st := range f.Structs {
			for _, fd := range st.Fields {
				fd := fd
				if fd.Default != nil {
					slots = append(slots, slot{fi, func(x *idlgen.Const) { fd.Default = x }})
				}
			}
		}
	}
	if len(slots) == 0 {
		return 0
	}
	n := 1 + r.Intn(2)
	for i := 0; i < n; i++ {
		s := slots[r.Intn(len(slots))]
		s.set(randomConst(r, p, s.fi))
	}
	return n
}

type wildUnit struct {
	key     string
	prog    *idlgen.Program
	opts    []string
	dir     string
	exit    int
	stderr  string
	verdict string
	files   []string
	mutated int
}

func classify(exit int, stderr string) string {
	if exit == 0 {
		return "accept"
	}
	if strings.Contains(stderr, "runtime error") || strings.Contains(stderr, "panic") {
		return "panic"
	}
	return "reject"
}

func runThriftgo(bin, work string, w *wildUnit) error {
	idl := filepath.Join(work, "widl", w.key)
	for p, text := range w.prog.Render() {
		full := filepath.Join(idl, filepath.FromSlash(p))
		if err := os.MkdirAll(filepath.Dir(full), 0o755); err != nil {
			return err
		}
		if err := os.WriteFile(full, []byte(text), 0o644); err != nil {
			return err
		}
	}
	w.dir = filepath.Join(work, "wmod", w.key)
	opts := append(append([]string{}, w.opts...), "package_prefix=batch/"+w.key)
	c := exec.Command(bin, "-r", "-g", "go:"+strings.Join(opts, ","), "-o", w.dir, w.prog.Files[0].Path)
	c.Dir = idl
	var eb bytes.Buffer
	c.Stderr = &eb
	c.Stdout = &eb
	err := c.Run()
	w.stderr = eb.String()
	switch e := err.(type) {
	case nil:
		w.exit = 0
	case *exec.ExitError:
		w.exit = e.ExitCode()
	default:
		return err
	}
	w.verdict = classify(w.exit, w.stderr)
	filepath.Walk(w.dir, func(p string, fi os.FileInfo, err error) error {
		if err == nil && !fi.IsDir() {
			rel, _ := filepath.Rel(filepath.Join(work, "wmod"), p)
			w.files = append(w.files, filepath.ToSlash(rel))
		}
		return nil
	})
	sort.Strings(w.files)
	return nil
}

// lightStruct: a generated struct type tied to its IDL struct by the WriteStructBegin literal.
type lightStruct struct {
	goType string
	fields map[int32]string // thrift id -> Go field name
}

func lightRegistry(g *goFile) map[string]*lightStruct {
	out := map[string]*lightStruct{}
	types := map[string]*ast.StructType{}
	for _, ts := range g.structs {
		types[ts.Name.Name] = ts.Type.(*ast.StructType)
	}
	for _, d := range g.file.Decls {
		fd, ok := d.(*ast.FuncDecl)
		if !ok || fd.Recv == nil || fd.Name.Name != "Write" || fd.Body == nil || len(fd.Recv.List) != 1 {
			continue
		}
		se, ok := fd.Recv.List[0].Type.(*ast.StarExpr)
		if !ok {
			continue
		}
		id, ok := se.X.(*ast.Ident)
		if !ok || types[id.Name] == nil {
			continue
		}
		ast.Inspect(fd.Body, func(n ast.Node) bool {
			ce, ok := n.(*ast.CallExpr)
			if !ok {
				return true
			}
			if sel, ok := ce.Fun.(*ast.SelectorExpr); ok && sel.Sel.Name == "WriteStructBegin" && len(ce.Args) == 1 {
				if bl, ok := ce.Args[0].(*ast.BasicLit); ok && bl.Kind == token.STRING {
					if s, err := strconv.Unquote(bl.Value); err == nil {
						ls := &lightStruct{goType: id.Name, fields: map[int32]string{}}
						for _, fl := range types[id.Name].Fields.List {
							if fl.Tag == nil || len(fl.Names) == 0 {
								continue
							}
							tag, err := strconv.Unquote(fl.Tag.Value)
							if err != nil {
								continue
							}
							tv, ok := reflect.StructTag(tag).Lookup("thrift")
							if !ok {
								continue
							}
							parts := strings.Split(tv, ",")
							if len(parts) < 2 {
								continue
							}
							n, err := strconv.Atoi(parts[1])
							if err != nil {
								continue
							}
							ls.fields[int32(n)] = fl.Names[0].Name
						}
						if _, dup := out[s]; !dup {
							out[s] = ls
						}
					}
				}
			}
			return true
		})
	}
	return out
}

// wildOps runs one program through thriftgo and returns its lines.
func wildOps(bin, work string, w *wildUnit, out *vl.Out) ([]*opLine, error) {
	fr := runFront(w.prog)
	if fr.err != nil {
		out.Count("wild.front_rejects")
		return nil, nil
	}
	if err := runThriftgo(bin, work, w); err != nil {
		return nil, err
	}
	out.Count("wild.verdict." + w.verdict)
	ud := &unitData{prog: w.prog, fr: fr}
	var ls []*opLine
	local := func(text, impl, what string, nt bool) {
		ls = append(ls, &opLine{text: text, impl: impl, what: what, nontrivial: nt, ud: ud})
	}
	schema := w.prog.SchemaWith(false)
	pl := fmt.Sprintf("P %s %d", w.key, len(schema.Structs))
	local(pl, "ok", "", false)
	for _, l := range fr.envLines(w.key, w.opts, schema) {
		local(l, "ok", "", false)
	}
	local("Q "+w.key, w.verdict, "Q", true)
	if w.verdict != "accept" {
		return ls, nil
	}
	// text suite on the generated files
	mod := filepath.Join(work, "wmod")
	have := map[string]bool{}
	for _, f := range w.files {
		have[f] = true
	}
	gfs := make([]*goFile, len(w.prog.Files))
	for fi, f := range w.prog.Files {
		rel := predictedGoFile(w.key, f)
		if fr.asts[fi] == nil || !have[rel] {
			continue
		}
		g, err := scanGoFile(mod, rel)
		if err != nil {
			out.Count("wild.unparsable_go")
			return ls, nil // generated Go that does not parse is C01's business; no names, no text suite for this unit
		}
		gfs[fi] = g
	}
	for fi := range w.prog.Files {
		if fr.asts[fi] != nil && gfs[fi] == nil {
			out.Count("wild.missing_go_file")
			return ls, nil
		}
	}
	for fi, t := range fr.asts {
		g := gfs[fi]
		if t == nil || g == nil {
			continue
		}
		if len(g.typeDecl) >= len(t.Enums)+len(t.Typedefs) {
			for i, e := range t.Enums {
				gn := g.typeDecl[i].Name.Name
				local(fmt.Sprintf("GN %s %d %s %s", w.key, fi, vl.Hex(e.Name), vl.Hex(gn)), "ok", "", false)
				if vs := g.enumVals[gn]; len(vs) == len(e.Values) {
					for j, v := range e.Values {
						local(fmt.Sprintf("GV %s %d %s %s %s", w.key, fi, vl.Hex(e.Name), vl.Hex(v.Name), vl.Hex(vs[j].Names[0].Name)), "ok", "", false)
					}
				}
			}
			for i, td := range t.Typedefs {
				local(fmt.Sprintf("GN %s %d %s %s", w.key, fi, vl.Hex(td.Alias), vl.Hex(g.typeDecl[len(t.Enums)+i].Name.Name)), "ok", "", false)
			}
		}
		for fj := range fr.asts {
			h := gfs[fj]
			if h == nil || fj == fi || h.pkgPath == g.pkgPath {
				continue
			}
			if q, ok := g.imports[h.pkgPath]; ok {
				local(fmt.Sprintf("GQ %s %d %d %s", w.key, fi, fj, vl.Hex(q)), "ok", "", false)
			}
		}
		reg := lightRegistry(g)
		for _, st := range t.GetStructLikes() {
			ls0 := reg[st.Name]
			if ls0 == nil {
				continue
			}
			local(fmt.Sprintf("GN %s %d %s %s", w.key, fi, vl.Hex(st.Name), vl.Hex(ls0.goType)), "ok", "", false)
			for j, f := range st.Fields {
				local(fmt.Sprintf("GF %s %d %s %d %s", w.key, fi, vl.Hex(st.Name), j, vl.Hex(ls0.fields[f.ID])), "ok", "", false)
			}
		}
		cs, vs := constGroups(t)
		if len(cs) == len(g.consts) && len(vs) == len(g.vars) {
			for i, c := range cs {
				local(fmt.Sprintf("GN %s %d %s %s", w.key, fi, vl.Hex(c.Name), vl.Hex(g.consts[i].Names[0].Name)), "ok", "", false)
			}
			for i, c := range vs {
				local(fmt.Sprintf("GN %s %d %s %s", w.key, fi, vl.Hex(c.Name), vl.Hex(g.vars[i].Names[0].Name)), "ok", "", false)
			}
		} else if len(t.Constants) > 0 {
			out.Count("wild.const_groups_mismatch")
		}
	}
	// the text ops come after every name line of the unit
	for fi, t := range fr.asts {
		g := gfs[fi]
		if t == nil || g == nil {
			continue
		}
		cs, vs := constGroups(t)
		if len(cs) == len(g.consts) && len(vs) == len(g.vars) {
			emit := func(c *thriftparser.Constant, sp *ast.ValueSpec) {
				local(fmt.Sprintf("KT %s %d %s", w.key, fi, vl.Hex(c.Name)), "ok "+hexText(g.text(sp.Values[0])), "KT", true)
			}
			for i, c := range cs {
				emit(c, g.consts[i])
			}
			for i, c := range vs {
				emit(c, g.vars[i])
			}
		}
		reg := lightRegistry(g)
		for _, st := range t.GetStructLikes() {
			ls0 := reg[st.Name]
			if ls0 == nil {
				continue
			}
			lit := g.newX[ls0.goType]
			if lit == nil {
				continue
			}
			byName := map[string]ast.Expr{}
			for _, el := range lit.Elts {
				if kv, ok := el.(*ast.KeyValueExpr); ok {
					if id, ok := kv.Key.(*ast.Ident); ok {
						byName[id.Name] = kv.Value
					}
				}
			}
			for j, f := range st.Fields {
				if f.Default == nil {
					continue
				}
				impl := "missing"
				if val, ok := byName[ls0.fields[f.ID]]; ok {
					impl = "ok " + hexText(g.text(val))
				}
				local(fmt.Sprintf("DT %s %d %s %d", w.key, fi, vl.Hex(st.Name), j), impl, "DT", true)
			}
		}
	}
	return ls, nil
}
