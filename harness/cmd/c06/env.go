package main

// env.go: the input of the Lean model. The rendered IDL program is run through thriftgo's own front end
// (parser + semantic.Checker + semantic.ResolveSymbols of the repo under test, in process) and the resulting
// AST -- parser.Type with its resolved Category, parser.ConstValue with its Extra: exactly what
// golang.Resolver.resolveConst receives -- is printed in the line grammar of docs/C06.md.

import (
	"fmt"
	"math"
	"path/filepath"
	"sort"
	"strings"

	"github.com/cloudwego/thriftgo/parser"
	"github.com/cloudwego/thriftgo/semantic"

	"verifharness/internal/idlgen"
	"verifharness/internal/vl"
)

// front is the front-end view of one program.
type front struct {
	prog  *idlgen.Program
	asts  []*parser.Thrift // by idlgen file index (nil: not reachable)
	index map[*parser.Thrift]int
	err   error
	warns []string
}

func runFront(p *idlgen.Program) *front {
	fr := &front{prog: p, asts: make([]*parser.Thrift, len(p.Files)), index: map[*parser.Thrift]int{}}
	defer func() {
		if r := recover(); r != nil {
			fr.err = fmt.Errorf("front end panic: %v", r)
		}
	}()
	files := p.Render()
	ast, err := parser.ParseBatchString(p.Files[0].Path, files, nil)
	if err != nil {
		fr.err = err
		return fr
	}
	if path := parser.CircleDetect(ast); len(path) > 0 {
		fr.err = fmt.Errorf("include circle")
		return fr
	}
	checker := semantic.NewChecker(semantic.Options{FixWarnings: true})
	warns, err := checker.CheckAll(ast)
	fr.warns = warns
	if err != nil {
		fr.err = err
		return fr
	}
	if err := semantic.ResolveSymbols(ast); err != nil {
		fr.err = err
		return fr
	}
	byPath := map[string]int{}
	for i, f := range p.Files {
		byPath[filepath.Clean(f.Path)] = i
	}
	var walk func(t *parser.Thrift)
	walk = func(t *parser.Thrift) {
		if _, ok := fr.index[t]; ok {
			return
		}
		i, ok := byPath[filepath.Clean(t.Filename)]
		if !ok {
			panic("unknown file " + t.Filename)
		}
		fr.index[t] = i
		fr.asts[i] = t
		for _, inc := range t.Includes {
			if inc.Reference != nil {
				walk(inc.Reference)
			}
		}
	}
	walk(ast)
	return fr
}

func catLetter(c parser.Category) string {
	switch c {
	case parser.Category_Bool:
		return "b"
	case parser.Category_Byte:
		return "y"
	case parser.Category_I16:
		return "h"
	case parser.Category_I32:
		return "i"
	case parser.Category_I64:
		return "l"
	case parser.Category_Double:
		return "d"
	case parser.Category_String:
		return "s"
	case parser.Category_Binary:
		return "B"
	case parser.Category_Enum:
		return "e"
	case parser.Category_List:
		return "L"
	case parser.Category_Set:
		return "T"
	case parser.Category_Map:
		return "M"
	case parser.Category_Struct, parser.Category_Union, parser.Category_Exception:
		return "S"
	}
	return "?"
}

var baseNames = map[string]bool{"bool": true, "byte": true, "i8": true, "i16": true, "i32": true, "i64": true, "double": true, "string": true, "binary": true}

func atype(t *parser.Type) string {
	if t == nil {
		return "?"
	}
	if t.Reference == nil && !t.GetIsTypedef() {
		if baseNames[t.Name] {
			return catLetter(t.Category)
		}
		switch t.Name {
		case "list":
			return "L " + atype(t.ValueType)
		case "set":
			return "T " + atype(t.ValueType)
		case "map":
			return "M " + atype(t.KeyType) + " " + atype(t.ValueType)
		}
	}
	ref, name := "-", t.Name
	if t.Reference != nil {
		ref, name = fmt.Sprint(t.Reference.Index), t.Reference.Name
	}
	return fmt.Sprintf("N %s %s %s", catLetter(t.Category), ref, vl.Hex(name))
}

func cvalue(v *parser.ConstValue) string {
	switch v.Type {
	case parser.ConstType_ConstInt:
		return fmt.Sprintf("I%d", v.TypedValue.GetInt())
	case parser.ConstType_ConstDouble:
		d := v.TypedValue.GetDouble()
		return fmt.Sprintf("D%016x:%s", math.Float64bits(d), vl.Hex(fmt.Sprint(d)))
	case parser.ConstType_ConstLiteral:
		return "X" + vl.Hex(v.TypedValue.GetLiteral())
	case parser.ConstType_ConstIdentifier:
		ex := "-"
		if e := v.Extra; e != nil {
			idx := "-"
			if e.Index >= 0 {
				idx = fmt.Sprint(e.Index)
			}
			ex = fmt.Sprintf("E%s:%s:%s:%s", vl.B(e.IsEnum), idx, vl.Hex(e.Name), vl.Hex(e.Sel))
		}
		return fmt.Sprintf("V %s %s", vl.Hex(v.TypedValue.GetIdentifier()), ex)
	case parser.ConstType_ConstList:
		var sb strings.Builder
		fmt.Fprintf(&sb, "L %d", len(v.TypedValue.List))
		for _, e := range v.TypedValue.List {
			sb.WriteString(" " + cvalue(e))
		}
		return sb.String()
	case parser.ConstType_ConstMap:
		var sb strings.Builder
		fmt.Fprintf(&sb, "M %d", len(v.TypedValue.Map))
		for _, e := range v.TypedValue.Map {
			sb.WriteString(" " + cvalue(e.Key) + " " + cvalue(e.Value))
		}
		return sb.String()
	}
	return "?"
}

func reqLetter(r parser.FieldType) string {
	switch r {
	case parser.FieldType_Required:
		return "r"
	case parser.FieldType_Optional:
		return "o"
	}
	return "d"
}

// envLines prints the C* lines of unit u. sidxOf maps (file, struct name) to the schema index.
func (fr *front) envLines(u string, opts []string, schema *idlgen.Schema) []string {
	var out []string
	vtic := has(opts, "value_type_in_container")
	out = append(out, fmt.Sprintf("CP %s %d %s", u, len(fr.asts), vl.B(vtic)))
	nsID := map[string]int{}
	sidx := map[string]int{}
	for i, st := range schema.Structs {
		if !st.Synth {
			sidx[fmt.Sprintf("%d/%s", st.File, st.Name)] = i
		}
	}
	for fi, t := range fr.asts {
		if t == nil {
			continue
		}
		ns := t.GetNamespaceOrReferenceName("go")
		if _, ok := nsID[ns]; !ok {
			nsID[ns] = len(nsID) + 1
		}
		var sb strings.Builder
		fmt.Fprintf(&sb, "CF %s %d %d %d", u, fi, nsID[ns], len(t.Includes))
		for _, inc := range t.Includes {
			k := -1
			if inc.Reference != nil {
				k = fr.index[inc.Reference]
			}
			fmt.Fprintf(&sb, " %d:%s", k, vl.B(inc.GetUsed()))
		}
		fmt.Fprintf(&sb, " %d", len(t.Services))
		for _, s := range t.Services {
			sb.WriteString(" " + vl.Hex(s.Name))
		}
		out = append(out, sb.String())
		for _, e := range t.Enums {
			var sb strings.Builder
			fmt.Fprintf(&sb, "CE %s %d %s %d", u, fi, vl.Hex(e.Name), len(e.Values))
			for _, v := range e.Values {
				fmt.Fprintf(&sb, " %s %d", vl.Hex(v.Name), v.Value)
			}
			out = append(out, sb.String())
		}
		for _, td := range t.Typedefs {
			out = append(out, fmt.Sprintf("CT %s %d %s %s", u, fi, vl.Hex(td.Alias), atype(td.Type)))
		}
		for _, st := range t.GetStructLikes() {
			var sb strings.Builder
			sx := "-"
			if i, ok := sidx[fmt.Sprintf("%d/%s", fi, st.Name)]; ok {
				sx = fmt.Sprint(i)
			}
			fmt.Fprintf(&sb, "CS %s %d %s %s %d", u, fi, vl.Hex(st.Name), sx, len(st.Fields))
			for _, f := range st.Fields {
				fmt.Fprintf(&sb, " %s %s %s", vl.Hex(f.Name), reqLetter(f.Requiredness), atype(f.Type))
			}
			out = append(out, sb.String())
			for j, f := range st.Fields {
				if f.Default != nil {
					out = append(out, fmt.Sprintf("CD %s %d %s %d %s", u, fi, vl.Hex(st.Name), j, cvalue(f.Default)))
				}
			}
		}
		for _, c := range t.Constants {
			out = append(out, fmt.Sprintf("CC %s %d %s %s %s", u, fi, vl.Hex(c.Name), atype(c.Type), cvalue(c.Value)))
		}
	}
	return out
}

func has(opts []string, o string) bool {
	for _, x := range opts {
		if x == o {
			return true
		}
	}
	return false
}

func sortedKeys(m map[string]string) []string {
	ks := make([]string, 0, len(m))
	for k := range m {
		ks = append(ks, k)
	}
	sort.Strings(ks)
	return ks
}
