package main

// literal.go: (1) the literal suite -- Go's reading of interpreted string literals (strconv.Unquote, the same
// rules as the compiler's scanner on valid UTF-8 without NUL) against the model's `goUnquote`, and the reading
// of an IDL literal body (escape sequences as in Go, quote and newline standing for themselves) against the
// model's `interp`; (2) the two string-literal defects replayed on the real thriftgo binary.

import (
	"encoding/hex"
	"fmt"
	"go/parser"
	"go/token"
	"os"
	"path/filepath"
	"strconv"
	"strings"
	"unicode/utf8"

	"verifharness/internal/idlgen"
	"verifharness/internal/vl"
)

var litAlphabet = []string{"\\", "\\", "\"", "\"", "'", "n", "t", "x", "u", "U", "0", "1", "7", "8", "a", "f", "F", "4", "1", " ", "z", "\n", "é", "新", "😀", "\\x4", "\\u65b0", "\\101", "\\\"", "\\\\", "\\'", "\\U0001F600", "\\ud800", "\\400", "\\xZ"}

func randomLiteral(r *vl.Rng) string {
	var sb strings.Builder
	for i, n := 0, r.Intn(9); i < n; i++ {
		sb.WriteString(litAlphabet[r.Intn(len(litAlphabet))])
	}
	return sb.String()
}

func goInterp(s string) (string, bool) {
	var out []byte
	for len(s) > 0 {
		if s[0] == '"' {
			out = append(out, '"')
			s = s[1:]
			continue
		}
		if len(s) >= 2 && s[0] == '\\' && s[1] == '\'' { // the IDL's escaped single quote
			out = append(out, '\'')
			s = s[2:]
			continue
		}
		c, mb, rest, err := strconv.UnquoteChar(s, '"')
		if err != nil {
			return "", false
		}
		if c < utf8.RuneSelf || !mb {
			out = append(out, byte(c))
		} else {
			out = utf8.AppendRune(out, c)
		}
		s = rest
	}
	return string(out), true
}

func quoteLike(lit string) string {
	var sb strings.Builder
	sb.WriteByte('"')
	for i := 0; i < len(lit); i++ {
		switch c := lit[i]; {
		case c == '\\' && i+1 < len(lit):
			i++
			if lit[i] != '\'' {
				sb.WriteByte('\\')
			}
			sb.WriteByte(lit[i])
		case c == '"':
			sb.WriteString("\\\"")
		case c == '\n':
			sb.WriteString("\\n")
		case c == '\r':
			sb.WriteString("\\r")
		default:
			sb.WriteByte(c)
		}
	}
	sb.WriteByte('"')
	return sb.String()
}

func hexOrDash(s string) string {
	if s == "" {
		return "-"
	}
	return hex.EncodeToString([]byte(s))
}

func literalOps(r *vl.Rng, n int, out *vl.Out) []*opLine {
	var ls []*opLine
	seen := map[string]bool{}
	for i := 0; i < n; i++ {
		s := randomLiteral(r)
		if seen[s] {
			continue
		}
		seen[s] = true
		raw := quoteLike(s) // a text of the shape onStrBin emits (quoteLiteral's clauses, re-stated here only to generate inputs)
		impl := "none"
		if v, err := strconv.Unquote(raw); err == nil {
			impl = "ok " + hexOrDash(v)
			out.Count("literal.unquote.ok")
		} else {
			out.Count("literal.unquote.none")
		}
		ls = append(ls, &opLine{text: "U " + hexOrDash(raw), impl: impl, what: "U", nontrivial: true})
		impl = "none"
		if v, ok := goInterp(s); ok {
			impl = "ok " + hexOrDash(v)
		}
		ls = append(ls, &opLine{text: "UI " + hexOrDash(s), impl: impl, what: "UI", nontrivial: true})
		// string_literal_value on Go's own functions: the emitted shape is read as the literal's meaning
		if u := ls[len(ls)-2].impl; u != impl {
			out.Fail(vl.OracleFail{Key: "literal:" + hexOrDash(s), What: "Go reads the emitted literal differently from the IDL literal's meaning",
				Input: map[string]string{"literal_hex": hexOrDash(s), "emitted": raw}, Expected: impl, Observed: u})
		}
	}
	return ls
}

// stringDefects replays DESIGN §7's two string-literal defects on the binary under test: thriftgo exits 0 and
// writes Go that does not parse.
func stringDefects(bin, work string, out *vl.Out) error {
	cases := []struct{ key, text, want string; quote byte }{
		{"string-literal-escaped-quote", `a\"b`, `a"b`, '\''},
		{"string-literal-raw-newline", "a\nb", "a\nb", '"'},
	}
	for i, c := range cases {
		f := &idlgen.File{Path: "a.thrift", GoNS: "lit.pa"}
		f.Consts = []*idlgen.ConstDef{cdef("S", tb(idlgen.String), cS(c.text, c.quote, c.want))}
		w := &wildUnit{key: fmt.Sprintf("lit%d", i), prog: &idlgen.Program{Files: []*idlgen.File{f}}}
		if err := runThriftgo(bin, work, w); err != nil {
			return err
		}
		observed := ""
		if w.exit != 0 {
			continue // rejected: not this defect
		}
		for _, rel := range w.files {
			if !strings.HasSuffix(rel, ".go") {
				continue
			}
			full := filepath.Join(work, "wmod", rel)
			if _, err := parser.ParseFile(token.NewFileSet(), full, nil, 0); err != nil {
				src, _ := os.ReadFile(full)
				line := ""
				for _, l := range strings.Split(string(src), "\n") {
					if strings.Contains(l, "S = ") {
						line = strings.TrimSpace(l)
					}
				}
				msg := strings.ReplaceAll(err.Error(), filepath.Join(work, "wmod")+string(filepath.Separator), "")
				observed = fmt.Sprintf("thriftgo exit 0; %s does not parse: %s; emitted: %s", rel, msg, line)
			}
		}
		if observed != "" {
			out.Count("defect." + c.key)
			out.Fail(vl.OracleFail{Key: "defect:" + c.key, What: "an accepted string constant is not available in Go: the generated file does not parse",
				Input:    map[string]interface{}{"idl": w.prog.Render(), "cmd": "thriftgo -r -g go a.thrift"},
				Expected: fmt.Sprintf("a Go constant S holding %q", c.want), Observed: observed})
		}
	}
	return nil
}
