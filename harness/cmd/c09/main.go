// c09: harness for property C09 (schema evolution: unknown fields are tolerated, and preserved when asked).
//
//	c09 extract -repo R                         print Generated/C09.lean (type codes and depth limit of the unknown package,
//	                                            the keep_unknown_fields hooks of the struct templates)
//	c09 run     -repo R -dir D -seed N -tier T  tie (a): the unknown package alone; tie (b): compiled schema pairs
package main

import (
	"flag"
	"fmt"
	"os"
	"path/filepath"
	"time"

	"verifharness/internal/vl"
)

func main() {
	if len(os.Args) < 2 {
		fmt.Fprintln(os.Stderr, "usage: c09 extract|run [flags]")
		os.Exit(2)
	}
	fs := flag.NewFlagSet(os.Args[1], flag.ExitOnError)
	repo := fs.String("repo", "/repo", "repository under test")
	dir := fs.String("dir", "", "output directory (ops.txt, impl.txt, stats.json; work files under <dir>/work)")
	seed := fs.Uint64("seed", 1, "seed")
	tier := fs.String("tier", "quick", "quick|thorough")
	keep := fs.Bool("keep", false, "keep the work directory")
	only := fs.String("only", "", "a|b: run one tie only")
	ncases := fs.Int("cases", 0, "tie (a): number of streams (default by tier)")
	npairs := fs.Int("pairs", 0, "tie (b): number of schema pairs (default by tier)")
	fs.Parse(os.Args[2:])
	switch os.Args[1] {
	case "extract":
		if err := extract(*repo); err != nil {
			fmt.Fprintln(os.Stderr, "c09 extract:", err)
			os.Exit(3)
		}
	case "run":
		if *dir == "" {
			fmt.Fprintln(os.Stderr, "-dir is required")
			os.Exit(2)
		}
		na, np, nv := 14000, 7, 8
		if *tier == "thorough" {
			hugeSizes = []int{32767, 32768, 40000, 70000}
			hugeUA = []int{32767, 32768, 40000, 70000}
			na, np, nv = 120000, 41, 8
		}
		if *ncases > 0 {
			na = *ncases
		}
		if *npairs > 0 {
			np = *npairs
		}
		os.Exit(run(*repo, *dir, *seed, na, np, nv, *only, *keep))
	default:
		fmt.Fprintln(os.Stderr, "unknown subcommand", os.Args[1])
		os.Exit(2)
	}
}

func run(repo, dir string, seed uint64, na, np, nv int, only string, keep bool) int {
	t0 := time.Now()
	if err := os.MkdirAll(dir, 0o755); err != nil {
		fmt.Fprintln(os.Stderr, err)
		return 2
	}
	if abs, err := filepath.Abs(dir); err == nil {
		dir = abs
	}
	work := filepath.Join(dir, "work")
	os.RemoveAll(work)
	if err := os.MkdirAll(work, 0o755); err != nil {
		fmt.Fprintln(os.Stderr, err)
		return 2
	}
	if !keep {
		defer os.RemoveAll(work)
	}
	out := vl.NewOut(dir)
	defer out.Close()
	root := vl.NewRng(seed)
	ra, rb := vl.NewRng(root.U64()), vl.NewRng(root.U64())
	if only != "b" {
		if err := runPkg(repo, work, ra, na, out); err != nil {
			fmt.Println("ERROR:", err)
			return 2
		}
		fmt.Printf("c09: tie (a) %d streams, %.1fs\n", out.Stats["a.cases"], time.Since(t0).Seconds())
	}
	if only != "a" {
		if _, err := runPairs(repo, filepath.Join(work, "batch"), rb, np, nv, out); err != nil {
			fmt.Println("ERROR:", err)
			return 2
		}
	}
	fmt.Printf("c09: seed %d, %d op lines, %d oracle failures, %.1fs total\n", seed, out.Evals, len(out.Oracle), time.Since(t0).Seconds())
	if len(out.Oracle) > 0 {
		return 1
	}
	return 0
}
