package main

// Second fixed catalogue pair of tie (b) (identical for every seed):
//
//	old: struct X {}                         — a placeholder without fields
//	     struct E {1: i32 k}
//	     struct S {1: i32 id, 2: optional X ex, 3: optional list<X> exl, 4: optional map<i32,X> exm, 5: E one,
//	               6: list<E> lst, 7: map<string,E> mp, 8: optional map<E,i32> km, 9: optional list<list<E>> ll,
//	               10: optional map<i32,list<E>> ml}
//	new: struct X {1: optional string trace, 2: i32 shard, 3: optional map<string,string> tags}
//	     struct E {1: i32 k, 2: i32 weight = 10, 3: optional i32 level = 3, 4: optional string tag = "none",
//	               5: optional list<i32> dims = [1, 2], 6: optional string note}
//	     struct S {…, 11: optional list<i64> samples, 12: optional list<E> path, 13: optional set<i32> marks,
//	               14: optional list<list<i32>> rows, 15: optional map<i32,string> bigm, 16: optional list<X> xs}
//
// It pins three shapes a random pair meets only by luck: an old struct with NO declared field that gains fields
// (directly held, as list element, as map value: its unknown fields must be written back); element structs —
// of lists, map values, struct-typed map keys, nested containers — that gain fields with declared defaults,
// optional ones included (new code reading old data must give every element these defaults); and unknown
// containers that are WIDE (63, 64, 65, 100, 1000 elements, 40×40 nested) rather than deep.

import (
	"fmt"

	"verifharness/internal/idlgen"
	"verifharness/internal/values"
)

func cataloguePair2() (*idlgen.Program, *idlgen.Program) {
	named := func(n string) *idlgen.Type {
		return &idlgen.Type{Kind: idlgen.Named, Named: &idlgen.NamedRef{File: 0, Name: n}}
	}
	list := func(t *idlgen.Type) *idlgen.Type { return &idlgen.Type{Kind: idlgen.List, Elem: t} }
	mp := func(k, v *idlgen.Type) *idlgen.Type { return &idlgen.Type{Kind: idlgen.Map, Key: k, Elem: v} }
	fld := func(id int16, name string, req idlgen.Req, t *idlgen.Type, d *idlgen.Const) *idlgen.Field {
		return &idlgen.Field{ID: id, HasID: true, Name: name, Req: req, Type: t, Default: d}
	}
	cint := func(n int64) *idlgen.Const {
		return &idlgen.Const{Kind: idlgen.CInt, Text: fmt.Sprint(n), Val: values.Int(n)}
	}
	mk := func(n bool) *idlgen.Program {
		x := &idlgen.Struct{Kind: 's', Name: "X"}
		e := &idlgen.Struct{Kind: 's', Name: "E", Fields: []*idlgen.Field{fld(1, "k", idlgen.Default, base(idlgen.I32), nil)}}
		s := &idlgen.Struct{Kind: 's', Name: "S", Fields: []*idlgen.Field{
			fld(1, "id", idlgen.Default, base(idlgen.I32), nil),
			fld(2, "ex", idlgen.Optional, named("X"), nil),
			fld(3, "exl", idlgen.Optional, list(named("X")), nil),
			fld(4, "exm", idlgen.Optional, mp(base(idlgen.I32), named("X")), nil),
			fld(5, "one", idlgen.Default, named("E"), nil),
			fld(6, "lst", idlgen.Default, list(named("E")), nil),
			fld(7, "mp", idlgen.Default, mp(base(idlgen.String), named("E")), nil),
			fld(8, "km", idlgen.Optional, mp(named("E"), base(idlgen.I32)), nil),
			fld(9, "ll", idlgen.Optional, list(list(named("E"))), nil),
			fld(10, "ml", idlgen.Optional, mp(base(idlgen.I32), list(named("E"))), nil)}}
		if n {
			x.Fields = []*idlgen.Field{
				fld(1, "trace", idlgen.Optional, base(idlgen.String), nil),
				fld(2, "shard", idlgen.Default, base(idlgen.I32), nil),
				fld(3, "tags", idlgen.Optional, mp(base(idlgen.String), base(idlgen.String)), nil)}
			e.Fields = append(e.Fields,
				fld(2, "weight", idlgen.Default, base(idlgen.I32), cint(10)),
				fld(3, "level", idlgen.Optional, base(idlgen.I32), cint(3)),
				fld(4, "tag", idlgen.Optional, base(idlgen.String), &idlgen.Const{Kind: idlgen.CString, Text: "none", Quote: '"', Val: values.Str("none")}),
				fld(5, "dims", idlgen.Optional, list(base(idlgen.I32)), &idlgen.Const{Kind: idlgen.CList, Sep: ",", Items: []*idlgen.Const{cint(1), cint(2)}, Val: values.List(values.Int(1), values.Int(2))}),
				fld(6, "note", idlgen.Optional, base(idlgen.String), nil))
			s.Fields = append(s.Fields,
				fld(11, "samples", idlgen.Optional, list(base(idlgen.I64)), nil),
				fld(12, "path", idlgen.Optional, list(named("E")), nil),
				fld(13, "marks", idlgen.Optional, &idlgen.Type{Kind: idlgen.Set, Elem: base(idlgen.I32)}, nil),
				fld(14, "rows", idlgen.Optional, list(list(base(idlgen.I32))), nil),
				fld(15, "bigm", idlgen.Optional, mp(base(idlgen.I32), base(idlgen.String)), nil),
				fld(16, "xs", idlgen.Optional, list(named("X")), nil))
		}
		return &idlgen.Program{Files: []*idlgen.File{{Path: "cat2.thrift", GoNS: "cat2", Structs: []*idlgen.Struct{x, e, s}}}}
	}
	return mk(false), mk(true)
}

// catalogue2Values are the fixed values (of the NEW schema) per struct name.
func catalogue2Values(name string) []*values.Value {
	n := values.Nil
	ints := func(xs ...int64) *values.Value {
		l := values.List()
		for _, x := range xs {
			l.E = append(l.E, values.Int(x))
		}
		return l
	}
	// E(k, weight, level, tag, dims, note)
	el := func(k, w, lvl int64, tag string, dims *values.Value, note *values.Value) *values.Value {
		return values.Record(values.Int(k), values.Int(w), values.Int(lvl), values.Str(tag), dims, note)
	}
	dflt := func(k int64) *values.Value { return el(k, 10, 3, "none", ints(1, 2), n()) }
	// X(trace, shard, tags)
	xv := func(trace string, shard int64, tags *values.Value) *values.Value {
		t := n()
		if trace != "" {
			t = values.Str(trace)
		}
		return values.Record(t, values.Int(shard), tags)
	}
	switch name {
	case "X":
		return []*values.Value{xv("t", 5, values.Map(values.Str("a"), values.Str("b"))), xv("", 0, n())}
	case "E":
		return []*values.Value{el(1, 7, 4, "x", ints(9), values.Str("n")), dflt(2), el(3, 0, 0, "", values.List(), n())}
	}
	rec := func(id int64, f map[int]*values.Value) *values.Value {
		r := values.Record()
		for i := 0; i < 16; i++ {
			r.E = append(r.E, n())
		}
		r.E[0] = values.Int(id)
		r.E[4], r.E[5], r.E[6] = dflt(0), values.List(), values.Map()
		for i, v := range f {
			r.E[i-1] = v
		}
		return r
	}
	vals := []*values.Value{
		// structs without old fields carrying data; element structs with non-default and default values everywhere
		rec(1, map[int]*values.Value{
			2: xv("t", 5, values.Map(values.Str("a"), values.Str("b"))),
			3: values.List(xv("", 0, n()), xv("u", 1, n())),
			4: values.Map(values.Int(1), xv("v", 2, values.Map())),
			5: el(1, 7, 4, "x", ints(9), values.Str("n")),
			6: values.List(dflt(2), el(3, 8, 0, "", values.List(), n())),
			7: values.Map(values.Str("a"), el(4, 1, 5, "y", n(), n()), values.Str("b"), dflt(5)),
			8: values.Map(el(6, 2, 6, "z", ints(7), n()), values.Int(1), dflt(7), values.Int(2)),
			9: values.List(values.List(dflt(8)), values.List(el(9, 3, 7, "w", n(), n()), dflt(10))),
			10: values.Map(values.Int(1), values.List(dflt(11), el(12, 4, 8, "", ints(), n())))}),
		// nothing but common data: every element is at its defaults already
		rec(2, map[int]*values.Value{5: dflt(1), 6: values.List(dflt(2), dflt(3)), 7: values.Map(values.Str("k"), dflt(4)), 8: values.Map(dflt(5), values.Int(9))}),
	}
	// a struct inside an unknown field (the minimal input of the compact-protocol finding)
	vals = append(vals, rec(3, map[int]*values.Value{12: values.List(dflt(1))}))
	// wide unknown containers
	for _, size := range []int{63, 64, 65, 100} {
		samples, path, marks, rows, bigm, xs := values.List(), values.List(), values.Set(), values.List(), values.Map(), values.List()
		for i := 0; i < size; i++ {
			samples.E = append(samples.E, values.Int(int64(i)*1000003))
			path.E = append(path.E, el(int64(i), int64(i%7), 3, "none", ints(int64(i)), n()))
			marks.E = append(marks.E, values.Int(int64(i)-30))
			rows.E = append(rows.E, ints(int64(i), int64(i)+1))
			bigm.E = append(bigm.E, values.Int(int64(i)), values.Str(fmt.Sprint("v", i)))
			xs.E = append(xs.E, xv(fmt.Sprint("t", i), int64(i), n()))
		}
		vals = append(vals, rec(int64(100+size), map[int]*values.Value{11: samples, 12: path, 13: marks, 14: rows, 15: bigm, 16: xs}))
	}
	// 1000 scalars, one container per value (the Lean model re-encodes by list append: cost grows with the square)
	for which := 11; which <= 15; which += 2 {
		samples, marks, bigm := values.List(), values.Set(), values.Map()
		for i := 0; i < 1000; i++ {
			samples.E = append(samples.E, values.Int(int64(i)))
			marks.E = append(marks.E, values.Int(int64(i)))
			bigm.E = append(bigm.E, values.Int(int64(i)), values.Str("v"))
		}
		vals = append(vals, rec(int64(1000+which), map[int]*values.Value{which: map[int]*values.Value{11: samples, 13: marks, 15: bigm}[which]}))
	}
	// 40 × 40 nested
	rows := values.List()
	for i := 0; i < 40; i++ {
		row := values.List()
		for j := 0; j < 40; j++ {
			row.E = append(row.E, values.Int(int64(i*40+j)))
		}
		rows.E = append(rows.E, row)
	}
	vals = append(vals, rec(140, map[int]*values.Value{14: rows}))
	return vals
}

type hugeValue struct {
	name  string
	v     *values.Value
	chain []int
}

// hugeValues: struct S with ONE unknown container of n elements (list<i64>, set<i32>, map<i32,string>), n around
// and above 32767 (a 16-bit element counter). The set does not travel through the NEW code: its validate_set check
// is quadratic.
func hugeValues(sizes []int) []hugeValue {
	var out []hugeValue
	for _, n := range sizes {
		samples, marks, bigm := values.List(), values.Set(), values.Map()
		for i := 0; i < n; i++ {
			samples.E = append(samples.E, values.Int(int64(i)))
			marks.E = append(marks.E, values.Int(int64(i)))
			bigm.E = append(bigm.E, values.Int(int64(i)), values.Str("v"))
		}
		mk := func(idx int, v *values.Value) *values.Value {
			r := values.Record()
			for i := 0; i < 16; i++ {
				r.E = append(r.E, values.Nil())
			}
			r.E[0] = values.Int(int64(n))
			r.E[4] = values.Record(values.Int(0), values.Int(10), values.Int(3), values.Str("none"), values.List(values.Int(1), values.Int(2)), values.Nil())
			r.E[5], r.E[6] = values.List(), values.Map()
			r.E[idx-1] = v
			return r
		}
		out = append(out,
			hugeValue{fmt.Sprintf("list<i64> of %d", n), mk(11, samples), []int{roleOldKeep, roleNewPlain}},
			hugeValue{fmt.Sprintf("set<i32> of %d", n), mk(13, marks), []int{roleOldKeep}},
			hugeValue{fmt.Sprintf("map<i32,string> of %d", n), mk(15, bigm), []int{roleOldKeep, roleNewPlain}})
	}
	return out
}
