package main

// Tie (b) of C09: compiled schema pairs. `old` comes from idlgen, `new` from `old` by random compatible edits
// (evolve.go); both are generated with and without keep_unknown_fields (4 units per pair) in ONE batch. The
// harness moves bytes between the units along chains old→new→old… of length ≤ 3: op `W` on the new code,
// then hops `H` (Read into NewX(), CarryingUnknownFields(), Write of the same object) and `R` (dump).
// Every line is predicted by the Lean model (tv_c09); the oracle uses the implementation's answers and the
// reference codec only.

import (
	_ "embed"
	"encoding/hex"
	"fmt"
	"strings"

	"verifharness/internal/batch"
	"verifharness/internal/idlgen"
	"verifharness/internal/refcodec"
	"verifharness/internal/values"
	"verifharness/internal/values/valgen"
	"verifharness/internal/vl"
)

//go:embed hopdrv.go.txt
var hopDriverSrc string

const (
	roleOldPlain = iota
	roleOldKeep
	roleNewPlain
	roleNewKeep
)

var roleName = []string{"old", "old+keep", "new", "new+keep"}

type pair struct {
	idx      int
	old, new *idlgen.Program
	edits    []edit
	units    [4]*batch.UnitInfo
	oldS     *idlgen.Schema
	newS     *idlgen.Schema
	fixed    int  // 1, 2: the catalogue pairs; 0: random
}

const compactKey = "unknown.write: a struct inside an unknown field is written without WriteStructBegin — TCompactProtocol panics|old: struct S {…} new: + 12: optional list<E> path|value: path=[E{k:1}]|keep_unknown_fields, Write over TCompactProtocol"

const unionKey = "keep_unknown_fields: union carrying an unknown member cannot be re-written|old: union U {1: i32 a}|new: union U {1: i32 a, 2: string b}|value: U{b:\"hi\"}|bytes 0b000200000002686900"

// cataloguePair: the minimal pair, identical for every seed.
//
//	old: union U {1: i32 a}                 struct E {1: i32 k}
//	     struct S {1: i32 x, 2: optional U u, 4: optional set<E> st, 5: optional list<E> ls, 6: optional map<i32,E> mp}
//	new: union U {1: i32 a, 2: string b}    struct E {1: i32 k, 2: i32 w = 10, 3: string tag = "none", 4: list<i32> dims = [1, 2]}
//	     struct S {… , 3: optional string y}
func cataloguePair() (*idlgen.Program, *idlgen.Program) {
	mk := func(n bool) *idlgen.Program {
		u := &idlgen.Struct{Kind: 'u', Name: "U", Fields: []*idlgen.Field{{ID: 1, HasID: true, Name: "a", Req: idlgen.Optional, Type: base(idlgen.I32)}}}
		s := &idlgen.Struct{Kind: 's', Name: "S", Fields: []*idlgen.Field{
			{ID: 1, HasID: true, Name: "x", Req: idlgen.Default, Type: base(idlgen.I32)},
			{ID: 2, HasID: true, Name: "u", Req: idlgen.Optional, Type: &idlgen.Type{Kind: idlgen.Named, Named: &idlgen.NamedRef{File: 0, Name: "U"}}}}}
		e := &idlgen.Struct{Kind: 's', Name: "E", Fields: []*idlgen.Field{{ID: 1, HasID: true, Name: "k", Req: idlgen.Default, Type: base(idlgen.I32)}}}
		en := &idlgen.Type{Kind: idlgen.Named, Named: &idlgen.NamedRef{File: 0, Name: "E"}}
		if n {
			u.Fields = append(u.Fields, &idlgen.Field{ID: 2, HasID: true, Name: "b", Req: idlgen.Optional, Type: base(idlgen.String)})
			s.Fields = append(s.Fields, &idlgen.Field{ID: 3, HasID: true, Name: "y", Req: idlgen.Optional, Type: base(idlgen.String)})
			one := &idlgen.Const{Kind: idlgen.CInt, Text: "1", Val: values.Int(1)}
			two := &idlgen.Const{Kind: idlgen.CInt, Text: "2", Val: values.Int(2)}
			e.Fields = append(e.Fields,
				&idlgen.Field{ID: 2, HasID: true, Name: "w", Req: idlgen.Default, Type: base(idlgen.I32), Default: &idlgen.Const{Kind: idlgen.CInt, Text: "10", Val: values.Int(10)}},
				&idlgen.Field{ID: 3, HasID: true, Name: "tag", Req: idlgen.Default, Type: base(idlgen.String), Default: &idlgen.Const{Kind: idlgen.CString, Text: "none", Quote: '"', Val: values.Str("none")}},
				&idlgen.Field{ID: 4, HasID: true, Name: "dims", Req: idlgen.Default, Type: &idlgen.Type{Kind: idlgen.List, Elem: base(idlgen.I32)},
					Default: &idlgen.Const{Kind: idlgen.CList, Sep: ",", Items: []*idlgen.Const{one, two}, Val: values.List(values.Int(1), values.Int(2))}})
		}
		s.Fields = append(s.Fields,
			&idlgen.Field{ID: 4, HasID: true, Name: "st", Req: idlgen.Optional, Type: &idlgen.Type{Kind: idlgen.Set, Elem: en}},
			&idlgen.Field{ID: 5, HasID: true, Name: "ls", Req: idlgen.Optional, Type: &idlgen.Type{Kind: idlgen.List, Elem: en}},
			&idlgen.Field{ID: 6, HasID: true, Name: "mp", Req: idlgen.Optional, Type: &idlgen.Type{Kind: idlgen.Map, Key: base(idlgen.I32), Elem: en}})
		return &idlgen.Program{Files: []*idlgen.File{{Path: "cat.thrift", GoNS: "cat", Structs: []*idlgen.Struct{u, e, s}}}}
	}
	return mk(false), mk(true)
}

var chainPool = [][]int{
	{roleOldKeep}, {roleOldKeep, roleNewPlain}, {roleOldKeep, roleOldKeep}, {roleOldKeep, roleNewKeep, roleOldKeep},
	{roleOldKeep, roleNewPlain, roleOldKeep}, {roleOldKeep, roleOldKeep, roleNewPlain}, {roleOldPlain}, {roleOldPlain, roleNewPlain},
	{roleOldPlain, roleNewKeep, roleOldKeep}, {roleNewKeep}, {roleNewKeep, roleOldKeep, roleNewPlain}, {roleOldKeep, roleOldPlain, roleNewPlain},
}

type chainRun struct {
	p       *pair
	sidx    int
	v       *values.Value
	norm    *values.Value
	chain   []int
	step    int
	orig    []byte // bytes the new code wrote
	cur     []byte // bytes entering the next hop
	dropped bool   // a hop through old code WITHOUT keep_unknown_fields happened
	uum     bool   // the value holds a union object whose set member the old schema does not know
	dead    bool
}

func (c *chainRun) id() string {
	var rs []string
	for _, r := range c.chain {
		rs = append(rs, roleName[r])
	}
	return fmt.Sprintf("pair%d sidx%d chain[%s]", c.p.idx, c.sidx, strings.Join(rs, ">"))
}

func fieldIDs(st *idlgen.SStruct) map[int16]bool {
	m := map[int16]bool{}
	for _, f := range st.Fields {
		m[f.ID] = true
	}
	return m
}

// judgeHop evaluates the oracle for one answered hop; returns the raw output bytes (nil if the chain ends),
// and a failure message ("" = fine). known = the failure is the documented union finding.
func judgeHop(c *chainRun, ans string, count func(string)) (next []byte, msg string, known bool) {
	role := c.chain[c.step]
	u := c.p.units[role]
	keep := role == roleOldKeep || role == roleNewKeep
	isOld := role == roleOldPlain || role == roleOldKeep
	toks := strings.Fields(ans)
	if len(toks) == 0 {
		return nil, "empty answer", false
	}
	if toks[0] != "ok" {
		switch {
		case ans == "panic" || ans == "crash":
			return nil, "hop answered " + ans, false
		case isOld && c.uum && toks[0] == "werr" && keep:
			count("b.finding.union-unknown-member")
			return nil, "old code with keep_unknown_fields read a union whose set member it does not know and then refused to write it back (exactly one field must be set (0 set))", true
		case isOld && c.uum && toks[0] == "werr":
			count("b.skip.plain-union-unknown-member")
			return nil, "", false
		case isOld && !keep && toks[0] == "werr":
			// safety net of the generator rule above (shrunk candidates): duplicates under the old schema
			nd := 0
			distinctSets(c.p.newS, c.p.oldS, c.sidx, c.norm, &nd)
			if nd > 0 {
				count("b.skip.set-duplicates-under-old")
				return nil, "", false
			}
		}
		return nil, "hop failed: " + ans + " (Read and Write of data written by compatible code must succeed)", false
	}
	if len(toks) != 3 {
		return nil, "unparsable hop answer", false
	}
	raw, err := hex.DecodeString(strings.TrimPrefix(toks[1], "-"))
	if err != nil {
		return nil, "bad hex", false
	}
	// carrying flag
	st := u.Schema.Structs[c.sidx]
	inF, err := refcodec.Split(c.cur)
	if err != nil {
		return nil, "harness: input bytes do not split: " + err.Error(), false
	}
	ids := fieldIDs(st)
	var unkIn []refcodec.RawField
	for _, f := range inF {
		if !ids[f.ID] {
			unkIn = append(unkIn, f)
		}
	}
	wantC := "c=-"
	if keep {
		wantC = "c=0"
		if len(unkIn) > 0 {
			wantC = "c=1"
		}
	}
	if toks[2] != wantC {
		return nil, fmt.Sprintf("CarryingUnknownFields answered %s, the input has %d top-level fields outside the schema (want %s)", toks[2], len(unkIn), wantC), false
	}
	// byte preservation of the unknown top-level fields, in arrival order, after the known ones
	outF, err := refcodec.Split(raw)
	if err != nil {
		return nil, "output bytes are not a well-formed struct: " + err.Error(), false
	}
	if keep {
		var unkOut []refcodec.RawField
		seenUnk := false
		for _, f := range outF {
			if !ids[f.ID] {
				unkOut = append(unkOut, f)
				seenUnk = true
			} else if seenUnk {
				return nil, "a known field is written after an unknown one", false
			}
		}
		if len(unkOut) != len(unkIn) {
			return nil, fmt.Sprintf("%d unknown fields came in, %d went out", len(unkIn), len(unkOut)), false
		}
		for i := range unkIn {
			if unkIn[i].Type != unkOut[i].Type || unkIn[i].ID != unkOut[i].ID || string(unkIn[i].Value) != string(unkOut[i].Value) {
				return nil, fmt.Sprintf("unknown field %d (id %d) is not re-written byte for byte in arrival order", i, unkIn[i].ID), false
			}
		}
	}
	if isOld && !keep {
		c.dropped = true
	}
	// decode under the NEW schema
	want := c.norm
	if c.dropped {
		want = resetAdded(c.p.newS, c.p.oldS, c.sidx, c.norm)
	}
	got, derr := refcodec.Decode(c.p.newS, c.sidx, raw)
	if derr != nil {
		return nil, "the re-written bytes do not decode under the new schema: " + derr.Error(), false
	}
	// compared as wire values of the new schema (Normal = Decode∘Encode): code that re-writes a nil container held
	// by a non-optional field emits an empty one, which is the same value on the wire
	if n1, err := refcodec.Normal(c.p.newS, c.sidx, got); err == nil {
		got = n1
	}
	if n2, err := refcodec.Normal(c.p.newS, c.sidx, want); err == nil {
		want = n2
	}
	if !refcodec.Equal(got, want) {
		return nil, "the re-written bytes decode under the new schema to " + got.String() + ", expected " + want.String(), false
	}
	return raw, "", false
}

// failsSerial re-runs W and the chain for one candidate value, one driver round trip per step, and tells whether
// the oracle still fails with a message of the same kind (used by the shrinker only).
func failsSerial(b *batch.Built, c *chainRun, v *values.Value, kind string) bool {
	wa, err := b.RunLines([]string{fmt.Sprintf("W %s:%d %s", c.p.units[roleNewPlain].Key, c.sidx, v.String())})
	if err != nil || !strings.HasPrefix(wa[0], "ok ") {
		return false
	}
	raw, err := hex.DecodeString(strings.TrimPrefix(wa[0][3:], "-"))
	if err != nil {
		return false
	}
	norm, nerr := refcodec.Decode(c.p.newS, c.sidx, raw)
	if nerr != nil {
		return false
	}
	if n2, err := refcodec.Normal(c.p.newS, c.sidx, norm); err != nil || !refcodec.Equal(n2, norm) {
		return false
	}
	d := &chainRun{p: c.p, sidx: c.sidx, v: v, norm: norm, chain: c.chain, cur: raw, uum: unknownUnionMember(c.p.newS, c.p.oldS, c.sidx, norm)}
	for d.step < len(d.chain) {
		ha, err := b.RunLines([]string{fmt.Sprintf("H %s:%d %s", d.p.units[d.chain[d.step]].Key, d.sidx, hexOrDash(d.cur))})
		if err != nil {
			return false
		}
		next, msg, known := judgeHop(d, ha[0], func(string) {})
		if msg != "" {
			return !known && msgKind(msg) == kind
		}
		if next == nil {
			return false
		}
		d.cur = next
		d.step++
	}
	return false
}

// msgKind is the failure message up to the first value-dependent part
func msgKind(msg string) string {
	for _, cut := range []string{" to R ", ": ", " answered "} {
		if i := strings.Index(msg, cut); i > 0 {
			return msg[:i]
		}
	}
	return msg
}

func canonAnswer(ans string) string {
	toks := strings.Fields(ans)
	if len(toks) >= 2 && toks[0] == "ok" {
		if raw, err := hex.DecodeString(strings.TrimPrefix(toks[1], "-")); err == nil {
			if cb, err := refcodec.Canon(raw); err == nil {
				toks[1] = hex.EncodeToString(cb)
			} else {
				toks[1] = "malformed:" + toks[1]
			}
			return strings.Join(toks, " ")
		}
	}
	return ans
}

// hugeSizes: element counts of the huge unknown containers (set by the tier)
var hugeSizes = []int{32768}

func runPairs(repo, work string, r *vl.Rng, npairs, nvalues int, out *vl.Out) (*batch.Built, error) {
	cfg := idlgen.DefaultConfig()
	cfg.StructLiterals = false // a struct literal spells out every member of the struct: adding a member would change the literal
	cfg.Services = false
	cfg.MaxFiles, cfg.MaxStructs, cfg.MaxConsts = 2, 3, 2
	var pairs []*pair
	var units []batch.Unit
	for i := 0; i < npairs; i++ {
		p := &pair{idx: i}
		if i == 0 {
			p.old, p.new = cataloguePair()
			p.fixed = 1
		} else if i == 1 {
			p.old, p.new = cataloguePair2()
			p.fixed = 2
		} else {
			p.old = idlgen.Generate(r, cfg)
			addHolders(r, p.old, out.Count)
			p.old.Stats(out.Count)
			p.new, p.edits = evolve(r, p.old, 2+r.Intn(6), out.Count)
		}
		pairs = append(pairs, p)
		for role := 0; role < 4; role++ {
			prog := p.old
			if role >= roleNewPlain {
				prog = p.new
			}
			var opts []string
			if role == roleOldKeep || role == roleNewKeep {
				opts = []string{"keep_unknown_fields"}
			}
			units = append(units, batch.Unit{Prog: prog, Recurse: true, Options: opts, Tag: fmt.Sprintf("pair%d.%s", i, roleName[role])})
		}
	}
	b, err := batch.Build(work, repo, units, map[string]string{"hop.go": hopDriverSrc})
	if b != nil {
		fmt.Println(b.Summary())
	}
	if err != nil {
		return b, err
	}
	var lines, answers []string
	record := func(ls, as []string) {
		for i := range ls {
			impl := as[i]
			if strings.HasPrefix(ls[i], "W ") || strings.HasPrefix(ls[i], "H ") {
				impl = canonAnswer(impl)
			}
			nontriv := !(strings.HasPrefix(ls[i], "P ") || strings.HasPrefix(ls[i], "S "))
			out.Case(ls[i], impl, nontriv)
		}
		lines = append(lines, ls...)
		answers = append(answers, as...)
	}
	// schema lines
	var usable []*pair
	for _, p := range pairs {
		ok := true
		for role := 0; role < 4; role++ {
			u := &b.Units[4*p.idx+role]
			p.units[role] = u
			if !u.OK() {
				ok = false
				out.Count("b.unit.unusable")
				out.Sample(map[string]interface{}{"unusable_unit": u.Key, "tag": u.Tag, "exit": u.Exit, "stderr": firstLines(u.Stderr, 4), "build": first(u.BuildErrors, 4), "idl": u.IDLDir})
				fmt.Printf("UNIT %s (%s) not usable: exit=%d %s %v\n", u.Key, u.Tag, u.Exit, firstLines(u.Stderr, 3), first(u.BuildErrors, 3))
			}
		}
		if !ok {
			out.Count("b.pair.unusable")
			continue
		}
		p.oldS, p.newS = p.units[roleOldPlain].Schema, p.units[roleNewPlain].Schema
		usable = append(usable, p)
		out.Count("b.pair.usable")
		var sl, sa []string
		for role := 0; role < 4; role++ {
			for _, l := range p.units[role].SchemaLines() {
				sl = append(sl, l)
				sa = append(sa, "ok")
			}
		}
		record(sl, sa)
	}
	if len(usable)*2 < len(pairs) {
		out.Fail(vl.OracleFail{Key: "pairs-unusable", What: fmt.Sprintf("%d of %d schema pairs were rejected or did not compile", len(pairs)-len(usable), len(pairs)),
			Expected: "both versions of a compatible pair are accepted and compile", Observed: b.Summary()})
	}
	// ---- stage 1: W on the new code
	type wcase struct {
		p    *pair
		sidx int
		v    *values.Value
	}
	var ws []wcase
	var wl []string
	for _, p := range usable {
		for sidx, st := range p.newS.Structs {
			if st.Synth {
				continue
			}
			nv := nvalues
			var vals []*values.Value
			if p.fixed == 2 {
				vals = catalogue2Values(st.Name)
			} else if p.fixed == 1 {
				el := func(k, w int64, tag string, dims ...int64) *values.Value {
					d := values.List()
					for _, x := range dims {
						d.E = append(d.E, values.Int(x))
					}
					return values.Record(values.Int(k), values.Int(w), values.Str(tag), d)
				}
				switch st.Name {
				case "U":
					vals = []*values.Value{values.Record(values.Nil(), values.Str("hi")), values.Record(values.Int(5), values.Nil())}
				case "E":
					vals = []*values.Value{el(1, 7, "t", 3), el(2, 10, "none", 1, 2)}
				default:
					n := values.Nil
					vals = []*values.Value{
						values.Record(values.Int(1), values.Record(values.Int(5), n()), values.Str("z"), n(), n(), n()),
						values.Record(values.Int(2), values.Record(n(), values.Str("hi")), n(), n(), n(), n()),
						values.Record(values.Int(3), n(), values.Str("only-added"), n(), n(), n()),
						values.Record(values.Int(4), n(), n(), values.Set(el(1, 7, "a", 9), el(2, 8, "b")), values.List(el(3, 0, "", 5)), values.Map(values.Int(1), el(4, 1, "c", 6)))}
				}
			} else {
				for k := 0; k < nv; k++ {
					v := valgen.Gen(r, p.newS, sidx, 1+r.Intn(5), valgen.Config{Count: out.Count, NilElems: true, NoNilRequired: true})
					// set<Struct> elements must stay distinct for EVERY version of the schema in the chain: an element struct
					// that gained fields (or has none in the old version) would otherwise give the old code a set with
					// duplicates, which its Write rightly refuses (validate_set)
					nd := 0
					v = distinctSets(p.newS, p.oldS, sidx, v, &nd)
					if nd > 0 {
						out.Stats["b.gen.set-elements-dropped-equal-under-old"] += nd
					}
					vals = append(vals, v)
				}
			}
			for _, v := range vals {
				ws = append(ws, wcase{p, sidx, v})
				wl = append(wl, fmt.Sprintf("W %s:%d %s", p.units[roleNewPlain].Key, sidx, v.String()))
			}
		}
	}
	wa, err := b.RunLines(wl)
	if err != nil {
		return b, err
	}
	record(wl, wa)
	// ---- stage 2..4: R dumps and hops
	var chains []*chainRun
	var rl []string
	type rcase struct {
		c    *chainRun
		role int
	}
	var rcs []rcase
	for i, w := range ws {
		if !strings.HasPrefix(wa[i], "ok ") {
			out.Count("b.w." + strings.Fields(wa[i])[0])
			continue
		}
		raw, err := hex.DecodeString(strings.TrimPrefix(wa[i][3:], "-"))
		if err != nil {
			continue
		}
		norm, nerr := refcodec.Decode(w.p.newS, w.sidx, raw)
		if nerr != nil {
			out.Count("b.w.undecodable") // C02's business (values without a normal form)
			continue
		}
		// the object a generated Read builds from an empty struct holds nil pointers in its non-optional struct
		// fields; writing it back emits empty structs for them, which a reader rejects when the target has required
		// members (docs/BATCH-notes.md §4, "a value may have no normal form"): that is a property of one schema
		// (C02), not of a pair — such values are left out
		if n2, err := refcodec.Normal(w.p.newS, w.sidx, norm); err != nil || !refcodec.Equal(n2, norm) {
			out.Count("b.w.unstable-normal-form")
			continue
		}
		if po := project(w.p.newS, w.p.oldS, w.sidx, norm); !unknownUnionMember(w.p.newS, w.p.oldS, w.sidx, norm) {
			if n3, err := refcodec.Normal(w.p.oldS, w.sidx, po); err != nil || !refcodec.Equal(n3, po) {
				out.Count("b.w.unstable-normal-form-old")
				continue
			}
		}
		out.Count("b.w.ok")
		uum := unknownUnionMember(w.p.newS, w.p.oldS, w.sidx, norm)
		if uum {
			out.Count("b.value.union-unknown-member")
		}
		picks := [][]int{chainPool[0], chainPool[3+r.Intn(3)], chainPool[r.Intn(len(chainPool))]}
		if w.p.fixed != 0 {
			picks = chainPool
		}
		first := true
		for _, ch := range picks {
			c := &chainRun{p: w.p, sidx: w.sidx, v: w.v, norm: norm, chain: ch, cur: raw, orig: raw, uum: uum}
			chains = append(chains, c)
			if first {
				for _, role := range []int{roleOldPlain, roleOldKeep} {
					rl = append(rl, fmt.Sprintf("R %s:%d %s", w.p.units[role].Key, w.sidx, hexOrDash(raw)))
					rcs = append(rcs, rcase{c, role})
				}
				first = false
			}
		}
	}
	ra, err := b.RunLines(rl)
	if err != nil {
		return b, err
	}
	record(rl, ra)
	// new reads old: the OLD code writes the projected value; the NEW code (plain and keep) reads these bytes and
	// every added field — at every nesting level, in every element of every container — must hold its initial
	// value: the declared default, else the zero value
	var owl []string
	var owc []*chainRun
	seenW := map[string]bool{}
	for _, c := range chains {
		k := fmt.Sprintf("%d/%d/%p", c.p.idx, c.sidx, c.v)
		if seenW[k] || c.uum {
			continue
		}
		seenW[k] = true
		po := project(c.p.newS, c.p.oldS, c.sidx, c.norm)
		owl = append(owl, fmt.Sprintf("W %s:%d %s", c.p.units[roleOldPlain].Key, c.sidx, po.String()))
		owc = append(owc, c)
	}
	owa, err := b.RunLines(owl)
	if err != nil {
		return b, err
	}
	record(owl, owa)
	var nrl []string
	type nrcase struct {
		c    *chainRun
		role int
		bo   []byte
	}
	var nrcs []nrcase
	for i, c := range owc {
		if !strings.HasPrefix(owa[i], "ok ") {
			out.Count("b.oldw." + strings.Fields(owa[i])[0])
			continue
		}
		bo, err := hex.DecodeString(strings.TrimPrefix(owa[i][3:], "-"))
		if err != nil {
			continue
		}
		for _, role := range []int{roleNewPlain, roleNewKeep} {
			nrl = append(nrl, fmt.Sprintf("R %s:%d %s", c.p.units[role].Key, c.sidx, hexOrDash(bo)))
			nrcs = append(nrcs, nrcase{c, role, bo})
		}
	}
	nra, err := b.RunLines(nrl)
	if err != nil {
		return b, err
	}
	record(nrl, nra)
	fails, shrinks := 0, 0
	report := func(c *chainRun, what, op, ans string, known bool) {
		fails++
		key := fmt.Sprintf("%s|%s|%s", what, c.id(), c.v.String())
		if known {
			key = unionKey
		}
		if fails <= 10 && !known {
			fmt.Printf("ORACLE FAIL %s: %s\n  op: %.300s\n  got: %.300s\n", c.id(), what, op, ans)
		}
		var edits []string
		for _, e := range c.p.edits {
			edits = append(edits, fmt.Sprintf("%s %s: %s", e.Kind, e.Target, e.Desc))
		}
		in := map[string]interface{}{"op": op, "value": c.v.String(), "chain": c.id(), "edits": edits,
			"old_schema": c.p.units[roleOldPlain].SchemaLines(), "new_schema": c.p.units[roleNewPlain].SchemaLines(),
			"old_idl": c.p.units[roleOldPlain].IDLDir, "new_idl": c.p.units[roleNewPlain].IDLDir}
		if known {
			in = map[string]interface{}{"old_idl": "union U {1: i32 a}", "new_idl": "union U {1: i32 a, 2: string b}", "options": "keep_unknown_fields",
				"how": "new code writes U{b:\"hi\"} = 0b0002000000026869 00; old code Reads it (ok, CarryingUnknownFields() = true) and Writes the same object"}
		}
		out.Fail(vl.OracleFail{Key: key, What: what, Input: in, Expected: "ok, bytes that the new schema decodes to the original value", Observed: ans})
	}
	for i, rc := range rcs {
		c := rc.c
		out.Count("b.op.R")
		want := project(c.p.newS, c.p.oldS, c.sidx, c.norm)
		if !strings.HasPrefix(ra[i], "ok ") {
			report(c, "old code ("+roleName[rc.role]+") cannot read what the new code wrote", rl[i], ra[i], false)
			continue
		}
		got, err := values.Parse(ra[i][3:])
		if err != nil {
			report(c, "unparsable dump", rl[i], ra[i], false)
			continue
		}
		if !refcodec.Equal(got, want) {
			report(c, "old code ("+roleName[rc.role]+") read "+got.String()+", the projection of the written value is "+want.String(), rl[i], ra[i], false)
			continue
		}
		if ref, err := refcodec.Decode(c.p.oldS, c.sidx, c.cur); err != nil || !refcodec.Equal(ref, want) {
			out.Count("b.harness.projection-disagrees-with-refcodec")
		}
		out.Count("b.oracle.ok.R")
	}
	for i, rc := range nrcs {
		c := rc.c
		out.Count("b.op.R.new-reads-old")
		want := resetAdded(c.p.newS, c.p.oldS, c.sidx, c.norm)
		if !strings.HasPrefix(nra[i], "ok ") {
			report(c, "new code ("+roleName[rc.role]+") cannot read what the old code wrote", nrl[i], nra[i], false)
			continue
		}
		got, err := values.Parse(nra[i][3:])
		if err != nil {
			report(c, "unparsable dump", nrl[i], nra[i], false)
			continue
		}
		if !refcodec.Equal(got, want) {
			report(c, "new code ("+roleName[rc.role]+") read old data as "+got.String()+"; with every added field at its declared default / zero value it is "+want.String(), nrl[i], nra[i], false)
			continue
		}
		if ref, err := refcodec.Decode(c.p.newS, c.sidx, rc.bo); err != nil || !refcodec.Equal(ref, want) {
			out.Count("b.harness.reset-disagrees-with-refcodec")
		}
		out.Count("b.oracle.ok.R.new-reads-old")
	}
	for stage := 0; stage < 3; stage++ {
		var hl []string
		var act []*chainRun
		for _, c := range chains {
			if c.dead || c.step >= len(c.chain) {
				continue
			}
			hl = append(hl, fmt.Sprintf("H %s:%d %s", c.p.units[c.chain[c.step]].Key, c.sidx, hexOrDash(c.cur)))
			act = append(act, c)
		}
		if len(hl) == 0 {
			break
		}
		ha, err := b.RunLines(hl)
		if err != nil {
			return b, err
		}
		record(hl, ha)
		for i, c := range act {
			out.Count(fmt.Sprintf("b.op.H.%s.step%d", roleName[c.chain[c.step]], c.step))
			next, msg, known := judgeHop(c, ha[i], out.Count)
			if msg != "" {
				if !known && shrinks < 3 {
					// shrink the value (serial re-runs of W + the chain) so that the replay is small
					shrinks++
					kind := msgKind(msg)
					small := valgen.Shrink(c.p.newS, c.sidx, c.v, func(v *values.Value) bool { return failsSerial(b, c, v, kind) }, 60)
					if small != nil && failsSerial(b, c, small, kind) {
						c.v = small
					}
				}
				report(c, msg, hl[i], ha[i], known)
			}
			if next == nil {
				c.dead = true
				continue
			}
			if msg == "" {
				out.Count("b.oracle.ok.H")
			}
			c.cur = next
			c.step++
		}
	}
	// ---- compact-protocol hop (oracle only, not sent to the model): one per value through the old code with
	// keep_unknown_fields: Read(binary) → Write(TCompactProtocol) → Read(TCompactProtocol) → Write(binary); then the NEW
	// code reads the result (its Read ignores container header type bytes, which the compact protocol does not keep for
	// empty maps) and the dump must be the original value
	{
		var cl []string
		var cc []*chainRun
		seen := map[string]bool{}
		for _, c := range chains {
			k := fmt.Sprintf("%d/%d/%p", c.p.idx, c.sidx, c.v)
			if seen[k] || c.uum {
				continue
			}
			seen[k] = true
			cl = append(cl, fmt.Sprintf("HC %s:%d %s", c.p.units[roleOldKeep].Key, c.sidx, hexOrDash(c.orig)))
			cc = append(cc, c)
		}
		ca, err := b.RunLines(cl)
		if err != nil {
			return b, err
		}
		var rl2 []string
		var rc2 []*chainRun
		for i, c := range cc {
			out.Count("b.op.HC")
			toks := strings.Fields(ca[i])
			if len(toks) != 3 || toks[0] != "ok" {
				known := ca[i] == "panic"
				if known {
					out.Count("b.finding.compact-struct-in-unknown-field")
				}
				report(c, "hop through TCompactProtocol failed: "+ca[i]+" (Read and Write of compatible data must succeed over every protocol)", cl[i], ca[i], false)
				if known {
					out.Oracle[len(out.Oracle)-1].Key = compactKey
				}
				continue
			}
			rl2 = append(rl2, fmt.Sprintf("R %s:%d %s", c.p.units[roleNewPlain].Key, c.sidx, toks[1]))
			rc2 = append(rc2, c)
		}
		ra2, err := b.RunLines(rl2)
		if err != nil {
			return b, err
		}
		for i, c := range rc2 {
			want := c.norm
			if !strings.HasPrefix(ra2[i], "ok ") {
				report(c, "the new code cannot read what came back from the compact-protocol hop", rl2[i], ra2[i], false)
				continue
			}
			got, err := values.Parse(ra2[i][3:])
			if err != nil {
				continue
			}
			if n1, err := refcodec.Normal(c.p.newS, c.sidx, got); err == nil {
				got = n1
			}
			if n2, err := refcodec.Normal(c.p.newS, c.sidx, want); err == nil {
				want = n2
			}
			if !refcodec.Equal(got, want) {
				report(c, "after a hop through TCompactProtocol the new code reads "+got.String()+", expected "+want.String(), rl2[i], ra2[i], false)
				continue
			}
			out.Count("b.oracle.ok.HC")
		}
	}
	// ---- huge unknown containers (oracle only: the Lean model's byte lists make such lines too slow; what the model
	// says about them is theorem unknown_append_write: identity — which is what the oracle checks)
	for _, p := range usable {
		if p.fixed != 2 {
			continue
		}
		for _, hv := range hugeValues(hugeSizes) {
			enc, err := refcodec.Encode(p.newS, 2, hv.v)
			if err != nil {
				return b, fmt.Errorf("huge value does not encode: %v", err)
			}
			norm, err := refcodec.Decode(p.newS, 2, enc)
			if err != nil {
				return b, err
			}
			c := &chainRun{p: p, sidx: 2, v: values.Record(values.Str(hv.name)), norm: norm, chain: hv.chain, cur: enc, orig: enc}
			for c.step < len(c.chain) {
				line := fmt.Sprintf("H %s:%d %s", p.units[c.chain[c.step]].Key, 2, hexOrDash(c.cur))
				ha, err := b.RunLines([]string{line})
				if err != nil {
					return b, err
				}
				out.Count("b.op.H.huge." + hv.name)
				next, msg, _ := judgeHop(c, ha[0], out.Count)
				if msg != "" {
					fails++
					out.Fail(vl.OracleFail{Key: "huge unknown container|" + hv.name + "|" + c.id(), What: msg,
						Input:    map[string]string{"value": hv.name + " of catalogue pair 2 (harness/cmd/c09/catalogue2.go), struct S", "chain": c.id(), "op": line[:200] + "…"},
						Expected: "ok, the unknown field re-written byte for byte", Observed: fmt.Sprintf("%.300s", ha[0])})
				}
				if next == nil {
					break
				}
				c.cur = next
				c.step++
			}
		}
	}
	out.Stats["b.pairs"] = len(pairs)
	out.Stats["b.chains"] = len(chains)
	for k, d := range b.Timing {
		out.Stats["timing_ms."+k] = int(d.Milliseconds())
	}
	return b, nil
}

func firstLines(s string, n int) string {
	ls := strings.Split(strings.TrimSpace(s), "\n")
	if len(ls) > n {
		ls = ls[:n]
	}
	return strings.Join(ls, " | ")
}

func first(xs []string, n int) []string {
	if len(xs) > n {
		return xs[:n]
	}
	return xs
}
