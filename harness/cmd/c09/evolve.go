package main

// Schema evolution for C09: `new` is derived from `old` by a random sequence of COMPATIBLE edits
// (add an optional/default field with a fresh id to any struct-like of the program — hence at any nesting
// depth —, add an enum member, add a union member), plus the value-level maps the oracle needs
// (projection of a new value onto the old schema, reset of the added fields).

import (
	"fmt"

	"verifharness/internal/refcodec"

	"verifharness/internal/idlgen"
	"verifharness/internal/values"
	"verifharness/internal/vl"
)

// cloneProgram copies what the edits mutate (field lists, enum value lists); everything else is shared.
func cloneProgram(p *idlgen.Program) *idlgen.Program {
	q := &idlgen.Program{}
	for _, f := range p.Files {
		g := *f
		g.Structs = nil
		for _, st := range f.Structs {
			c := *st
			c.Fields = append([]*idlgen.Field{}, st.Fields...)
			g.Structs = append(g.Structs, &c)
		}
		g.Enums = nil
		for _, e := range f.Enums {
			c := *e
			c.Values = append([]idlgen.EnumValue{}, e.Values...)
			g.Enums = append(g.Enums, &c)
		}
		q.Files = append(q.Files, &g)
	}
	return q
}

type edit struct {
	Kind   string // "field" "union-member" "enum-member"
	File   int
	Target string
	Desc   string
}

func base(k idlgen.Kind) *idlgen.Type { return &idlgen.Type{Kind: k} }

// simpleDefault returns a literal for a base type (nil when the type gets none).
func simpleDefault(r *vl.Rng, t *idlgen.Type) *idlgen.Const {
	switch t.Kind {
	case idlgen.Bool:
		return &idlgen.Const{Kind: idlgen.CIdent, Text: "true", Val: values.Bool(true)}
	case idlgen.Byte, idlgen.I16, idlgen.I32, idlgen.I64:
		n := int64(r.Intn(100)) + 1
		return &idlgen.Const{Kind: idlgen.CInt, Text: fmt.Sprint(n), Val: values.Int(n)}
	case idlgen.String:
		s := []string{"x", "abc", "new"}[r.Intn(3)]
		return &idlgen.Const{Kind: idlgen.CString, Text: s, Quote: '"', Val: values.Str(s)}
	}
	return nil
}

// defaultFor returns a literal for base types AND for containers of base types (nil when the type gets none).
func defaultFor(r *vl.Rng, t *idlgen.Type) *idlgen.Const {
	switch t.Kind {
	case idlgen.List, idlgen.Set:
		if t.Elem.Kind > idlgen.String || t.Elem.Kind == idlgen.Bool || t.Elem.Kind == idlgen.Double {
			return nil
		}
		a, b := simpleDefault(r, t.Elem), simpleDefault(r, t.Elem)
		if t.Elem.Kind == idlgen.String {
			b = &idlgen.Const{Kind: idlgen.CString, Text: "zz", Quote: '"', Val: values.Str("zz")}
		} else {
			n := a.Val.I + 1
			b = &idlgen.Const{Kind: idlgen.CInt, Text: fmt.Sprint(n), Val: values.Int(n)}
		}
		k := values.KList
		if t.Kind == idlgen.Set {
			k = values.KSet
		}
		return &idlgen.Const{Kind: idlgen.CList, Sep: ",", Items: []*idlgen.Const{a, b}, Val: &values.Value{K: byte(k), E: []*values.Value{a.Val, b.Val}}}
	case idlgen.Map:
		if t.Key.Kind != idlgen.String && t.Key.Kind != idlgen.I32 {
			return nil
		}
		if t.Elem.Kind > idlgen.String || t.Elem.Kind == idlgen.Bool || t.Elem.Kind == idlgen.Double {
			return nil
		}
		k, v := simpleDefault(r, t.Key), simpleDefault(r, t.Elem)
		return &idlgen.Const{Kind: idlgen.CMap, Sep: ",", Items: []*idlgen.Const{k, v}, Val: values.Map(k.Val, v.Val)}
	}
	return simpleDefault(r, t)
}

// defaultTypes are the types of the fields WITH declared defaults that are added to structs reached through
// containers: base types, string, containers of them.
func defaultTypes() []*idlgen.Type {
	return []*idlgen.Type{base(idlgen.Bool), base(idlgen.Byte), base(idlgen.I16), base(idlgen.I32), base(idlgen.I64), base(idlgen.String),
		{Kind: idlgen.List, Elem: base(idlgen.I32)}, {Kind: idlgen.List, Elem: base(idlgen.String)}, {Kind: idlgen.Set, Elem: base(idlgen.I64)},
		{Kind: idlgen.Map, Key: base(idlgen.String), Elem: base(idlgen.I32)}, {Kind: idlgen.Map, Key: base(idlgen.I32), Elem: base(idlgen.String)}}
}

// addHolders makes sure the OLD program reaches a struct through set<Struct>, list<Struct> and map<_,Struct>:
// it picks a struct/exception T of some file and gives a struct H of the same file three optional fields of
// these types (both versions of the pair have them; the evolution then happens INSIDE the containers).
func addHolders(r *vl.Rng, p *idlgen.Program, count func(string)) {
	for fi, f := range p.Files {
		var ts, hs []*idlgen.Struct
		for _, st := range f.Structs {
			if st.Kind != 'u' {
				ts = append(ts, st)
				hs = append(hs, st)
			}
		}
		if len(ts) == 0 {
			continue
		}
		t, h := ts[r.Intn(len(ts))], hs[r.Intn(len(hs))]
		named := &idlgen.Type{Kind: idlgen.Named, Named: &idlgen.NamedRef{File: fi, Name: t.Name}}
		used := map[int16]bool{}
		for _, fd := range h.Fields {
			used[fd.ID] = true
		}
		id := int16(400 + r.Intn(100))
		for i, ty := range []*idlgen.Type{{Kind: idlgen.Set, Elem: named}, {Kind: idlgen.List, Elem: named}, {Kind: idlgen.Map, Key: base(idlgen.I32), Elem: named}} {
			for used[id] {
				id++
			}
			used[id] = true
			h.Fields = append(h.Fields, &idlgen.Field{ID: id, HasID: true, Name: fmt.Sprintf("xhold%d", i), Req: idlgen.Optional, Type: ty})
		}
		count("prep.holders")
		return
	}
}

// elemStructs lists the struct-likes that occur as element / value of a container somewhere in the program.
func elemStructs(p *idlgen.Program) map[[2]int]bool {
	out := map[[2]int]bool{}
	var walk func(t *idlgen.Type, inCont bool)
	walk = func(t *idlgen.Type, inCont bool) {
		switch t.Kind {
		case idlgen.List, idlgen.Set:
			walk(t.Elem, true)
		case idlgen.Map:
			walk(t.Key, true)
			walk(t.Elem, true)
		case idlgen.Named:
			if !inCont {
				return
			}
			for si, st := range p.Files[t.Named.File].Structs {
				if st.Name == t.Named.Name {
					out[[2]int{t.Named.File, si}] = true
				}
			}
		}
	}
	for _, f := range p.Files {
		for _, st := range f.Structs {
			for _, fd := range st.Fields {
				walk(fd.Type, false)
			}
		}
	}
	return out
}

// elemStructsList is elemStructs in a deterministic order.
func elemStructsList(p *idlgen.Program) [][2]int {
	m := elemStructs(p)
	var out [][2]int
	for fi, f := range p.Files {
		for si := range f.Structs {
			if m[[2]int{fi, si}] {
				out = append(out, [2]int{fi, si})
			}
		}
	}
	return out
}

// typePool lists type expressions usable for a new field of file fi: base types, containers of them, and
// every type expression some field of the same file already uses (so named structs, unions, enums,
// typedefs and cross-file references come along, already in scope).
func typePool(p *idlgen.Program, fi int) []*idlgen.Type {
	pool := []*idlgen.Type{base(idlgen.Bool), base(idlgen.Byte), base(idlgen.I16), base(idlgen.I32), base(idlgen.I64),
		base(idlgen.Double), base(idlgen.String), base(idlgen.Binary),
		{Kind: idlgen.List, Elem: base(idlgen.I32)}, {Kind: idlgen.List, Elem: base(idlgen.String)},
		{Kind: idlgen.Set, Elem: base(idlgen.I64)}, {Kind: idlgen.Map, Key: base(idlgen.String), Elem: base(idlgen.Double)},
		{Kind: idlgen.Map, Key: base(idlgen.I32), Elem: &idlgen.Type{Kind: idlgen.List, Elem: base(idlgen.Bool)}},
		{Kind: idlgen.List, Elem: &idlgen.Type{Kind: idlgen.Map, Key: base(idlgen.I16), Elem: base(idlgen.Binary)}}}
	for _, st := range p.Files[fi].Structs {
		for _, f := range st.Fields {
			pool = append(pool, f.Type)
			pool = append(pool, &idlgen.Type{Kind: idlgen.List, Elem: f.Type})
		}
	}
	return pool
}

// evolve applies n random compatible edits to a clone of old.
func evolve(r *vl.Rng, old *idlgen.Program, n int, count func(string)) (*idlgen.Program, []edit) {
	p := cloneProgram(old)
	var edits []edit
	type sref struct{ fi, si int }
	var structs []sref
	type eref struct{ fi, ei int }
	var enums []eref
	for fi, f := range p.Files {
		for si := range f.Structs {
			structs = append(structs, sref{fi, si})
		}
		for ei := range f.Enums {
			enums = append(enums, eref{fi, ei})
		}
	}
	fresh := 0
	// nested evolution inside containers: every struct reached as a container element gets 1–3 fields WITH
	// declared defaults (the new code reading old data must give them these defaults in every element)
	for _, key := range elemStructsList(p) {
		st := p.Files[key[0]].Structs[key[1]]
		if st.Kind == 'u' {
			continue
		}
		used := map[int16]bool{}
		for _, f := range st.Fields {
			used[f.ID] = true
		}
		dts := defaultTypes()
		for j := 0; j < 1+r.Intn(3); j++ {
			t := dts[r.Intn(len(dts))]
			id := int16(100 + r.Intn(200))
			for used[id] {
				id++
			}
			used[id] = true
			fd := &idlgen.Field{ID: id, HasID: true, Name: fmt.Sprintf("xdef%d", fresh), Type: t, Req: idlgen.Default, Default: defaultFor(r, t)}
			fresh++
			if t.Kind <= idlgen.String && r.Chance(40) {
				fd.Req = idlgen.Optional
			}
			st.Fields = append(st.Fields, fd)
			edits = append(edits, edit{"field-with-default-in-container-element", key[0], st.Name, fmt.Sprintf("%d: %s %s = %s", id, fd.Req.Letter(), fd.Name, fd.Default.String())})
			count("edit.field-with-default-in-container-element")
		}
	}
	for k := 0; k < n; k++ {
		if len(enums) > 0 && r.Chance(15) {
			e := enums[r.Intn(len(enums))]
			en := p.Files[e.fi].Enums[e.ei]
			used := map[int64]bool{}
			for _, v := range en.Values {
				used[v.Value] = true
			}
			val := int64(r.Intn(1000)) + 1
			for used[val] {
				val++
			}
			name := fmt.Sprintf("ADDED%d", fresh)
			fresh++
			en.Values = append(en.Values, idlgen.EnumValue{Name: name, Value: val, HasValue: true})
			edits = append(edits, edit{"enum-member", e.fi, en.Name, fmt.Sprintf("%s = %d", name, val)})
			count("edit.enum-member")
			continue
		}
		s := structs[r.Intn(len(structs))]
		st := p.Files[s.fi].Structs[s.si]
		used := map[int16]bool{}
		for _, f := range st.Fields {
			used[f.ID] = true
		}
		var id int16
		switch r.Intn(6) {
		case 0:
			id = int16(-1 - r.Intn(40))
		case 1:
			id = int16(200 + r.Intn(30000))
		default:
			id = int16(1 + r.Intn(60))
		}
		for used[id] || id == 0 {
			id++
		}
		pool := typePool(p, s.fi)
		t := pool[r.Intn(len(pool))]
		fd := &idlgen.Field{ID: id, HasID: true, Name: fmt.Sprintf("xadd%d", fresh), Type: t}
		fresh++
		kind := "field"
		if st.Kind == 'u' {
			fd.Req = idlgen.Optional
			kind = "union-member"
		} else {
			fd.Req = idlgen.Default
			// a struct-like by value in a default field would make NewX() recursion-free anyway (pointer), but the
			// value generator fills default struct fields eagerly: keep named types optional
			if r.Chance(60) || t.Kind == idlgen.Named {
				fd.Req = idlgen.Optional
			}
			if r.Chance(30) {
				fd.Default = simpleDefault(r, t)
			}
		}
		// position: anywhere, but never directly before a field with an implicit id (its id would shift)
		var ok []int
		for pos := 0; pos <= len(st.Fields); pos++ {
			if pos == len(st.Fields) || st.Fields[pos].HasID {
				ok = append(ok, pos)
			}
		}
		pos := ok[r.Intn(len(ok))]
		st.Fields = append(st.Fields[:pos:pos], append([]*idlgen.Field{fd}, st.Fields[pos:]...)...)
		edits = append(edits, edit{kind, s.fi, st.Name, fmt.Sprintf("%d: %s %s at %d", id, fd.Req.Letter(), fd.Name, pos)})
		count("edit." + kind)
		count(fmt.Sprintf("edit.pos.%s", map[bool]string{true: "end", false: "inside"}[pos == len(st.Fields)-1]))
	}
	return p, edits
}

// ---------------------------------------------------------------- value maps between the two schemas

// project maps a value of struct sidx under the NEW schema to the OLD schema: fields the old struct does
// not have are dropped, at every nesting level.
func project(newS, oldS *idlgen.Schema, sidx int, v *values.Value) *values.Value {
	if v.IsNil() {
		return values.Nil()
	}
	ns, os := newS.Structs[sidx], oldS.Structs[sidx]
	out := &values.Value{K: values.KRecord, E: make([]*values.Value, len(os.Fields))}
	for i, f := range os.Fields {
		j := ns.FieldByID(f.ID)
		out.E[i] = mapType(ns.Fields[j].Type, v.E[j], func(sidx int, x *values.Value) *values.Value { return project(newS, oldS, sidx, x) })
	}
	return out
}

// resetAdded sets every field the old schema does not have to its initial value, at every nesting level
// (what the new code sees after the old code WITHOUT keep_unknown_fields re-wrote the data).
func resetAdded(newS, oldS *idlgen.Schema, sidx int, v *values.Value) *values.Value {
	if v.IsNil() {
		return values.Nil()
	}
	ns, os := newS.Structs[sidx], oldS.Structs[sidx]
	out := &values.Value{K: values.KRecord, E: make([]*values.Value, len(ns.Fields))}
	for j, f := range ns.Fields {
		if os.FieldByID(f.ID) < 0 {
			out.E[j] = f.Initial()
			continue
		}
		out.E[j] = mapType(f.Type, v.E[j], func(sidx int, x *values.Value) *values.Value { return resetAdded(newS, oldS, sidx, x) })
	}
	return out
}

func mapType(t *idlgen.RType, v *values.Value, rec func(int, *values.Value) *values.Value) *values.Value {
	if v.IsNil() {
		return values.Nil()
	}
	switch t.Kind {
	case idlgen.RStruct:
		return rec(t.Sidx, v)
	case idlgen.RList, idlgen.RSet:
		out := &values.Value{K: v.K, E: make([]*values.Value, len(v.E))}
		for i, e := range v.E {
			out.E[i] = mapType(t.Elem, e, rec)
		}
		return out
	case idlgen.RMap:
		out := &values.Value{K: v.K, E: make([]*values.Value, len(v.E))}
		for i := 0; i+1 < len(v.E); i += 2 {
			out.E[i] = mapType(t.Key, v.E[i], rec)
			out.E[i+1] = mapType(t.Elem, v.E[i+1], rec)
		}
		return out
	}
	return v.Clone()
}

// setKey is the identity of a set element of struct type AS THE OLD CODE SEES IT: the normal form (what a
// generated Read builds) of its projection onto the old schema. Two elements with equal keys are equal objects
// for the old code WITHOUT keep_unknown_fields, whose Write (validate_set) refuses a set holding both — a
// property of thrift sets, not of the generator under test.
func setKey(newS, oldS *idlgen.Schema, sidx int, e *values.Value) string {
	if e.IsNil() {
		return "n"
	}
	po := project(newS, oldS, sidx, e)
	if n, err := refcodec.Normal(oldS, sidx, po); err == nil {
		po = n
	}
	return values.SortMaps(po).String()
}

// distinctSets drops, from every set<Struct> (and every map keyed by a struct) of v (struct sidx of the NEW schema, any depth outside fields the
// old schema does not know), the elements that coincide with an earlier element once projected onto the OLD
// schema: all elements then differ in a field every version of the schema has. dropped counts them.
func distinctSets(newS, oldS *idlgen.Schema, sidx int, v *values.Value, dropped *int) *values.Value {
	var rec func(sidx int, v *values.Value) *values.Value
	var recT func(t *idlgen.RType, v *values.Value) *values.Value
	rec = func(sidx int, v *values.Value) *values.Value {
		if v.IsNil() {
			return v
		}
		ns, os := newS.Structs[sidx], oldS.Structs[sidx]
		out := &values.Value{K: v.K, E: make([]*values.Value, len(v.E))}
		for j, f := range ns.Fields {
			if os.FieldByID(f.ID) < 0 {
				out.E[j] = v.E[j]
				continue
			}
			out.E[j] = recT(f.Type, v.E[j])
		}
		return out
	}
	recT = func(t *idlgen.RType, v *values.Value) *values.Value {
		if v.IsNil() {
			return v
		}
		switch t.Kind {
		case idlgen.RStruct:
			return rec(t.Sidx, v)
		case idlgen.RList, idlgen.RSet:
			out := &values.Value{K: v.K}
			seen := map[string]bool{}
			for _, e := range v.E {
				e2 := recT(t.Elem, e)
				if t.Kind == idlgen.RSet && t.Elem.Kind == idlgen.RStruct {
					k := setKey(newS, oldS, t.Elem.Sidx, e2)
					if seen[k] {
						*dropped++
						continue
					}
					seen[k] = true
				}
				out.E = append(out.E, e2)
			}
			return out
		case idlgen.RMap:
			// struct-typed map keys are pointers in Go: two keys that look alike to the old code are still two entries
			// (and their dump order is ambiguous) — unless the old struct has NO field and no buffer: pointers to
			// zero-size objects coincide and the entries collapse. Keys are kept distinct as the old code sees them.
			out := &values.Value{K: v.K}
			seen := map[string]bool{}
			for i := 0; i+1 < len(v.E); i += 2 {
				k2 := recT(t.Key, v.E[i])
				if t.Key.Kind == idlgen.RStruct {
					k := setKey(newS, oldS, t.Key.Sidx, k2)
					if seen[k] {
						*dropped++
						continue
					}
					seen[k] = true
				}
				out.E = append(out.E, k2, recT(t.Elem, v.E[i+1]))
			}
			return out
		}
		return v
	}
	return rec(sidx, v)
}

// unknownUnionMember reports whether v (struct sidx of the NEW schema) holds, at any depth, a union object
// whose set member the old schema does not know, or — second result — any field at all (set, non-nil) that
// the old schema does not know.
func unknownUnionMember(newS, oldS *idlgen.Schema, sidx int, v *values.Value) bool {
	found := false
	var walk func(sidx int, v *values.Value)
	var walkT func(t *idlgen.RType, v *values.Value)
	walk = func(sidx int, v *values.Value) {
		if v.IsNil() {
			return
		}
		ns, os := newS.Structs[sidx], oldS.Structs[sidx]
		for j, f := range ns.Fields {
			if os.FieldByID(f.ID) < 0 {
				if ns.Kind == 'u' && !v.E[j].IsNil() {
					found = true
				}
				continue
			}
			walkT(f.Type, v.E[j])
		}
	}
	walkT = func(t *idlgen.RType, v *values.Value) {
		if v.IsNil() {
			return
		}
		switch t.Kind {
		case idlgen.RStruct:
			walk(t.Sidx, v)
		case idlgen.RList, idlgen.RSet:
			for _, e := range v.E {
				walkT(t.Elem, e)
			}
		case idlgen.RMap:
			for i := 0; i+1 < len(v.E); i += 2 {
				walkT(t.Key, v.E[i])
				walkT(t.Elem, v.E[i+1])
			}
		}
	}
	walk(sidx, v)
	return found
}
