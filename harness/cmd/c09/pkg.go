package main

// Tie (a) of C09: the `unknown` package of the repository under test alone. A scratch module (apache thrift
// 0.13 + the repository's generator/golang/extension/unknown) is built once; streams of field encodings —
// well-formed, deep, and malformed in targeted ways — go through the Read loop of a struct that knows no
// field id (Fields.Append) and back out (Fields.Write). The answers are compared with the Lean model
// (Gen.Unknown.appendLoop / writeR) line by line, and judged by an oracle that uses neither: a strict
// walker over the bytes written here.

import (
	"bufio"
	"bytes"
	_ "embed"
	"encoding/binary"
	"encoding/hex"
	"fmt"
	"os"
	"os/exec"
	"path/filepath"
	"strings"

	"verifharness/internal/vl"
)

//go:embed uadrv.go.txt
var uaDriverSrc string

var goEnv = []string{"GOFLAGS=-mod=mod", "GOPROXY=off", "GOSUMDB=off", "GOTOOLCHAIN=local"}

func buildUA(work, repo string) (string, error) {
	repo, err := filepath.Abs(repo)
	if err != nil {
		return "", err
	}
	mod := filepath.Join(work, "uamod")
	if err := os.MkdirAll(mod, 0o755); err != nil {
		return "", err
	}
	gomod := "module uadrv\n\ngo 1.20\n\nrequire github.com/apache/thrift v0.13.0\nrequire github.com/cloudwego/thriftgo v0.0.0\n\nreplace github.com/cloudwego/thriftgo => " + repo + "\n"
	if err := os.WriteFile(filepath.Join(mod, "go.mod"), []byte(gomod), 0o644); err != nil {
		return "", err
	}
	if sum, err := os.ReadFile(filepath.Join(repo, "go.sum")); err == nil {
		os.WriteFile(filepath.Join(mod, "go.sum"), sum, 0o644)
	}
	if err := os.WriteFile(filepath.Join(mod, "main.go"), []byte(uaDriverSrc), 0o644); err != nil {
		return "", err
	}
	bin := filepath.Join(work, "uadrv.bin")
	c := exec.Command("go", "build", "-o", bin, ".")
	c.Dir = mod
	c.Env = append(os.Environ(), goEnv...)
	if out, err := c.CombinedOutput(); err != nil {
		return "", fmt.Errorf("go build of the unknown-package driver failed: %v\n%s", err, out)
	}
	return bin, nil
}

func runUA(bin string, lines []string) ([]string, error) {
	c := exec.Command(bin)
	c.Stdin = strings.NewReader(strings.Join(lines, "\n") + "\n")
	var stdout, stderr bytes.Buffer
	c.Stdout, c.Stderr = &stdout, &stderr
	if err := c.Run(); err != nil {
		return nil, fmt.Errorf("unknown-package driver died: %v\n%.2000s", err, stderr.String())
	}
	var out []string
	sc := bufio.NewScanner(&stdout)
	sc.Buffer(make([]byte, 1<<20), 1<<26)
	for sc.Scan() {
		out = append(out, sc.Text())
	}
	if len(out) != len(lines) {
		return nil, fmt.Errorf("unknown-package driver answered %d lines for %d ops", len(out), len(lines))
	}
	return out, nil
}

// ---------------------------------------------------------------- generator of wire values

var wireTypes = []byte{2, 3, 4, 6, 8, 10, 11, 12, 13, 14, 15}
var badTypes = []byte{0, 1, 5, 7, 9, 16, 17, 100, 255}

type mark struct {
	off  int
	kind string // "strsize" "count" "etype" "ftype" "bool"
}

type wgen struct {
	r     *vl.Rng
	b     []byte
	marks []mark
	count func(string)
}

func (g *wgen) u32(n uint32) {
	var x [4]byte
	binary.BigEndian.PutUint32(x[:], n)
	g.b = append(g.b, x[:]...)
}

func (g *wgen) rnd(n int) {
	for i := 0; i < n; i++ {
		g.b = append(g.b, byte(g.r.U64()))
	}
}

func (g *wgen) pickType(levels int) byte {
	if levels <= 1 {
		return wireTypes[g.r.Intn(7)]
	}
	return wireTypes[g.r.Intn(len(wireTypes))]
}

// value appends a well-formed value of wire type t that nests at most `levels` levels (itself included).
func (g *wgen) value(t byte, levels int) {
	switch t {
	case 2:
		g.marks = append(g.marks, mark{len(g.b), "bool"})
		if g.r.Chance(8) {
			g.b = append(g.b, byte(2+g.r.Intn(254))) // non-canonical false
			g.count("a.gen.bool-noncanonical")
		} else {
			g.b = append(g.b, byte(g.r.Intn(2)))
		}
	case 3:
		g.rnd(1)
	case 6:
		g.rnd(2)
	case 8:
		g.rnd(4)
	case 4, 10:
		if g.r.Chance(10) {
			g.b = append(g.b, 0x7f, 0xf0, 0, 0, 0, 0, 0, 1) // signalling NaN pattern
		} else {
			g.rnd(8)
		}
	case 11:
		n := g.r.Intn(12)
		switch g.r.Intn(12) {
		case 0:
			n = 0
		case 1:
			n = 60 + g.r.Intn(10) // around the 64-byte scratch buffer
		case 2:
			n = 100 + g.r.Intn(300)
		}
		g.marks = append(g.marks, mark{len(g.b), "strsize"})
		g.u32(uint32(n))
		g.rnd(n)
	case 14, 15:
		n := g.r.Intn(4)
		if levels <= 1 {
			n = 0
		}
		et := g.pickType(levels - 1)
		g.marks = append(g.marks, mark{len(g.b), "etype"})
		g.b = append(g.b, et)
		g.marks = append(g.marks, mark{len(g.b), "count"})
		g.u32(uint32(n))
		for i := 0; i < n; i++ {
			g.value(et, levels-1)
		}
	case 13:
		n := g.r.Intn(3)
		if levels <= 1 {
			n = 0
		}
		kt, vt := g.pickType(levels-1), g.pickType(levels-1)
		g.marks = append(g.marks, mark{len(g.b), "etype"}, mark{len(g.b) + 1, "etype"})
		g.b = append(g.b, kt, vt)
		g.marks = append(g.marks, mark{len(g.b), "count"})
		g.u32(uint32(n))
		for i := 0; i < n; i++ {
			g.value(kt, levels-1)
			g.value(vt, levels-1)
		}
	case 12:
		n := g.r.Intn(4)
		if levels <= 1 {
			n = 0
		}
		for i := 0; i < n; i++ {
			g.field(levels - 1)
		}
		g.b = append(g.b, 0)
	}
}

func (g *wgen) field(levels int) {
	t := g.pickType(levels)
	g.marks = append(g.marks, mark{len(g.b), "ftype"})
	g.b = append(g.b, t, byte(g.r.U64()), byte(g.r.U64()))
	g.value(t, levels)
}

// wide appends a field whose value is a list/set/map of n elements (scalars, structs or containers): breadth,
// not depth — the nesting budget of `read` must not be spent by siblings.
func (g *wgen) wide(n int) string {
	t := []byte{15, 14, 13}[g.r.Intn(3)]
	var et byte
	kind := ""
	switch g.r.Intn(3) {
	case 0:
		et, kind = wireTypes[g.r.Intn(7)], "scalar"
	case 1:
		et, kind = 12, "struct"
	default:
		et, kind = []byte{15, 14, 13}[g.r.Intn(3)], "container"
	}
	if n > 100 && kind != "scalar" {
		n = 100 // the model re-encodes by list append (quadratic): 1000 elements only for scalars
	}
	g.b = append(g.b, t, byte(g.r.U64()), byte(g.r.U64()))
	if t == 13 {
		g.b = append(g.b, 8, et)
	} else {
		g.b = append(g.b, et)
	}
	g.u32(uint32(n))
	for i := 0; i < n; i++ {
		if t == 13 {
			g.u32(uint32(i))
		}
		g.value(et, 2)
	}
	return fmt.Sprintf("wide.%s.%d", kind, n)
}

// grid appends a field list<list<i16>> of n × n.
func (g *wgen) grid(n int) {
	g.b = append(g.b, 15, byte(g.r.U64()), byte(g.r.U64()), 15)
	g.u32(uint32(n))
	for i := 0; i < n; i++ {
		g.b = append(g.b, 6)
		g.u32(uint32(n))
		g.rnd(2 * n)
	}
}

// chain appends a field whose value nests exactly `depth` levels (the innermost value is a scalar).
func (g *wgen) chain(depth int) {
	var build func(t byte, d int)
	build = func(t byte, d int) {
		if d <= 1 {
			g.value(t, 1)
			return
		}
		next := wireTypes[g.r.Intn(len(wireTypes))]
		if d == 2 {
			next = wireTypes[g.r.Intn(7)]
		} else {
			next = wireTypes[7+g.r.Intn(4)]
		}
		switch t {
		case 14, 15:
			g.b = append(g.b, next)
			g.u32(1)
			build(next, d-1)
		case 13:
			g.b = append(g.b, 8, next)
			g.u32(1)
			g.rnd(4)
			build(next, d-1)
		case 12:
			g.b = append(g.b, next, 0, byte(g.r.Intn(100)))
			build(next, d-1)
			g.b = append(g.b, 0)
		}
	}
	t := wireTypes[7+g.r.Intn(4)]
	if depth <= 1 {
		t = wireTypes[g.r.Intn(7)]
	}
	g.b = append(g.b, t, byte(g.r.U64()), byte(g.r.U64()))
	build(t, depth)
}

// ---------------------------------------------------------------- strict walker (the oracle of tie a)

// strict walks one value of type t; levels = nesting levels still allowed (64 at a field value). It
// returns the end offset and "" or the kind of the first defect; canon receives the bytes with bool
// bytes normalised (1 stays 1, everything else is false = 0), which is what re-encoding a bool gives.
func strict(b []byte, pos int, t byte, levels int, canon *[]byte) (int, string) {
	if levels <= 0 {
		return pos, "depth"
	}
	fix := func(n int) (int, string) {
		if len(b)-pos < n {
			return pos, "scalar-short"
		}
		*canon = append(*canon, b[pos:pos+n]...)
		return pos + n, ""
	}
	switch t {
	case 2:
		if len(b)-pos < 1 {
			return pos, "scalar-short"
		}
		if b[pos] == 1 {
			*canon = append(*canon, 1)
		} else {
			*canon = append(*canon, 0)
		}
		return pos + 1, ""
	case 3:
		return fix(1)
	case 6:
		return fix(2)
	case 8:
		return fix(4)
	case 4, 10:
		return fix(8)
	case 11:
		if len(b)-pos < 4 {
			return pos, "string-size-short"
		}
		n := int32(binary.BigEndian.Uint32(b[pos:]))
		if n < 0 {
			return pos, "string-neg"
		}
		if len(b)-pos-4 < int(n) {
			return pos, "string-short"
		}
		*canon = append(*canon, b[pos:pos+4+int(n)]...)
		return pos + 4 + int(n), ""
	case 14, 15:
		if len(b)-pos < 5 {
			return pos, "header-short"
		}
		et := b[pos]
		n := int32(binary.BigEndian.Uint32(b[pos+1:]))
		if n < 0 {
			return pos, "count-neg"
		}
		*canon = append(*canon, b[pos:pos+5]...)
		pos += 5
		for i := int32(0); i < n; i++ {
			var k string
			if pos, k = strict(b, pos, et, levels-1, canon); k != "" {
				return pos, k
			}
		}
		return pos, ""
	case 13:
		if len(b)-pos < 6 {
			return pos, "header-short"
		}
		kt, vt := b[pos], b[pos+1]
		n := int32(binary.BigEndian.Uint32(b[pos+2:]))
		if n < 0 {
			return pos, "count-neg"
		}
		*canon = append(*canon, b[pos:pos+6]...)
		pos += 6
		for i := int32(0); i < n; i++ {
			var k string
			if pos, k = strict(b, pos, kt, levels-1, canon); k != "" {
				return pos, k
			}
			if pos, k = strict(b, pos, vt, levels-1, canon); k != "" {
				return pos, k
			}
		}
		return pos, ""
	case 12:
		for {
			if len(b)-pos < 1 {
				return pos, "header-short"
			}
			ft := b[pos]
			if ft == 0 {
				*canon = append(*canon, 0)
				return pos + 1, ""
			}
			if len(b)-pos < 3 {
				return pos, "header-short"
			}
			*canon = append(*canon, b[pos:pos+3]...)
			pos += 3
			var k string
			if pos, k = strict(b, pos, ft, levels-1, canon); k != "" {
				return pos, k
			}
		}
	}
	return pos, "badtype"
}

// strictStream walks a whole stream as the Read loop does: fields until STOP. Returns the expected
// Fields buffer, the number of unread bytes, and "" or the first defect.
func strictStream(b []byte) (fields []byte, rest int, defect string) {
	pos := 0
	for {
		if len(b)-pos < 1 {
			return fields, 0, "header-short"
		}
		ft := b[pos]
		if ft == 0 {
			return fields, len(b) - pos - 1, ""
		}
		if len(b)-pos < 3 {
			return fields, 0, "header-short"
		}
		fields = append(fields, b[pos:pos+3]...)
		pos += 3
		var k string
		if pos, k = strict(b, pos, ft, 64, &fields); k != "" {
			return fields, 0, k
		}
	}
}

// ---------------------------------------------------------------- work guard

// safe walks the stream the way unknown.read does (scalar errors do NOT stop a loop) and tells whether
// the implementation would do a bounded amount of work on it: a corrupted count in front of scalar
// elements makes `read` loop `count` times on an empty transport, growing its buffer all the way.
func safe(b []byte) bool {
	work := 0
	pos := 0
	ok := true
	var val func(t byte, levels int) bool
	adv := func(n int) {
		if len(b)-pos < n {
			pos = len(b)
		} else {
			pos += n
		}
	}
	val = func(t byte, levels int) bool {
		work++
		if work > 20000 {
			ok = false
		}
		if !ok || levels <= 0 {
			return false
		}
		switch t {
		case 2, 3:
			adv(1)
		case 6:
			adv(2)
		case 8:
			adv(4)
		case 4, 10:
			adv(8)
		case 11:
			if len(b)-pos < 4 {
				pos = len(b)
				return true
			}
			n := int32(binary.BigEndian.Uint32(b[pos:]))
			pos += 4
			if n < 0 {
				return true
			}
			if n > 1<<17 {
				ok = false
				return false
			}
			work += int(n) / 8
			adv(int(n))
		case 14, 15:
			if len(b)-pos < 5 {
				pos = len(b)
				return false
			}
			et := b[pos]
			n := int32(binary.BigEndian.Uint32(b[pos+1:]))
			pos += 5
			if n < 0 {
				return false
			}
			for i := int32(0); i < n; i++ {
				if !val(et, levels-1) {
					return false
				}
			}
		case 13:
			if len(b)-pos < 6 {
				pos = len(b)
				return false
			}
			kt, vt := b[pos], b[pos+1]
			n := int32(binary.BigEndian.Uint32(b[pos+2:]))
			pos += 6
			if n < 0 {
				return false
			}
			for i := int32(0); i < n; i++ {
				if !val(kt, levels-1) || !val(vt, levels-1) {
					return false
				}
			}
		case 12:
			for {
				work++
				if len(b)-pos < 1 {
					return false
				}
				ft := b[pos]
				pos++
				if ft == 0 {
					return true
				}
				if len(b)-pos < 2 {
					pos = len(b)
					return false
				}
				pos += 2
				if !val(ft, levels-1) {
					return false
				}
			}
		default:
			return false
		}
		return true
	}
	for ok {
		if len(b)-pos < 1 {
			break
		}
		ft := b[pos]
		pos++
		if ft == 0 {
			break
		}
		if len(b)-pos < 2 {
			break
		}
		pos += 2
		if !val(ft, 64) {
			break
		}
	}
	return ok
}

// ---------------------------------------------------------------- cases

type uaCase struct {
	class    string
	stream   []byte
	raw      bool // UW on a raw buffer instead of UA on a stream
	implOnly bool // judged by the oracle only, not sent to the Lean model (huge containers: the model's byte lists are too slow)
}

// hugeUA: element counts of the huge containers of tie (a) (set by the tier); around and above 32767.
var hugeUA = []int{32767, 32768}

// hugeCases: list<byte>, set<bool>, map<byte,byte> of n one-byte elements as ONE unknown field.
func hugeCases() []uaCase {
	var out []uaCase
	for i, n := range hugeUA {
		hdr := func(t byte, inner ...byte) []byte {
			b := append([]byte{t, 0, 9}, inner...)
			return append(b, byte(n>>24), byte(n>>16), byte(n>>8), byte(n))
		}
		l := append(hdr(15, 3), make([]byte, n)...)
		out = append(out, uaCase{class: fmt.Sprintf("huge.list.%d", n), stream: append(l, 0), implOnly: true})
		if i == len(hugeUA)-1 || n == 32768 {
			s := append(hdr(14, 2), make([]byte, n)...)
			m := append(hdr(13, 3, 3), make([]byte, 2*n)...)
			out = append(out, uaCase{class: fmt.Sprintf("huge.set.%d", n), stream: append(s, 0), implOnly: true},
				uaCase{class: fmt.Sprintf("huge.map.%d", n), stream: append(m, 0), implOnly: true})
		}
	}
	return out
}

// the fixed catalogue: minimal inputs, identical for every seed (stable keys for findings)
var catalogue = []uaCase{
	{class: "cat.negative-string-size", stream: mustHex("0b0001ffffffff00")},
	{class: "cat.truncated-i32", stream: mustHex("0800010000")},
	{class: "cat.truncated-i64-in-list", stream: mustHex("0f00010a0000000300000000000000010000")},
	{class: "cat.bool-2", stream: mustHex("0200010200")},
	{class: "cat.empty-list-of-type-0", stream: mustHex("0f0001000000000000")},
	{class: "cat.list-of-type-0", stream: mustHex("0f0001000000000100")},
	{class: "cat.unknown-field-type", stream: mustHex("0500010000")},
	{class: "cat.negative-count", stream: mustHex("0f000108ffffffff00")},
	{class: "cat.empty", stream: mustHex("00")},
	{class: "cat.no-stop", stream: mustHex("")},
	{class: "cat.list-of-64-i32", stream: wideList(8, 64, 4)},
	{class: "cat.list-of-65-empty-structs", stream: wideList(12, 65, 1)},
	{class: "cat.list-of-1000-bytes", stream: wideList(3, 1000, 1)},
	{class: "cat.raw-string-window", stream: mustHex("0b00010000000561"), raw: true},
	{class: "cat.raw-stop-type", stream: mustHex("000000"), raw: true},
}

// wideList is field 1 = list<et> of n elements of `size` zero bytes each (an empty struct is one STOP byte), STOP.
func wideList(et byte, n, size int) []byte {
	b := []byte{15, 0, 1, et, byte(n >> 24), byte(n >> 16), byte(n >> 8), byte(n)}
	b = append(b, make([]byte, n*size)...)
	return append(b, 0)
}

func mustHex(s string) []byte {
	b, err := hex.DecodeString(s)
	if err != nil {
		panic(err)
	}
	return b
}

func genCase(r *vl.Rng, count func(string)) uaCase {
	g := &wgen{r: r, count: count}
	// deep chains
	if r.Chance(6) {
		d := []int{1, 2, 32, 62, 63, 64, 65, 66, 70, 100}[r.Intn(10)]
		g.chain(d)
		if r.Chance(30) {
			g.field(3)
		}
		g.b = append(g.b, 0)
		return uaCase{class: fmt.Sprintf("deep.%d", d), stream: g.b}
	}
	if r.Chance(4) {
		cls := ""
		if r.Chance(15) {
			g.grid(40)
			cls = "wide.grid.40"
		} else {
			cls = g.wide([]int{63, 64, 65, 100, 1000}[r.Intn(5)])
		}
		if r.Chance(30) {
			g.field(3)
		}
		g.b = append(g.b, 0)
		return uaCase{class: cls, stream: g.b}
	}
	nf := 1 + r.Intn(4)
	for i := 0; i < nf; i++ {
		g.field(1 + r.Intn(5))
	}
	g.b = append(g.b, 0)
	if r.Chance(10) {
		g.rnd(1 + r.Intn(5)) // bytes after STOP stay unread
	}
	b := g.b
	pickMark := func(kind string) int {
		var c []int
		for _, m := range g.marks {
			if m.kind == kind {
				c = append(c, m.off)
			}
		}
		if len(c) == 0 {
			return -1
		}
		return c[r.Intn(len(c))]
	}
	switch p := r.Intn(100); {
	case p < 45:
		return uaCase{class: "wellformed", stream: b}
	case p < 60:
		return uaCase{class: "truncated", stream: b[:r.Intn(len(b))]}
	case p < 66:
		if off := pickMark("strsize"); off >= 0 {
			copy(b[off:], []byte{0xff, byte(r.U64()), byte(r.U64()), byte(r.U64())})
			return uaCase{class: "string-size-negative", stream: b}
		}
	case p < 74:
		if off := pickMark("strsize"); off >= 0 {
			n := binary.BigEndian.Uint32(b[off:])
			add := uint32(1 + r.Intn(80))
			if r.Chance(10) {
				add = 33000 + uint32(r.Intn(3000))
			}
			binary.BigEndian.PutUint32(b[off:], n+add)
			return uaCase{class: "string-size-too-big", stream: b}
		}
	case p < 79:
		if off := pickMark("count"); off >= 0 {
			copy(b[off:], []byte{0x80 | byte(r.U64()), byte(r.U64()), byte(r.U64()), byte(r.U64())})
			return uaCase{class: "count-negative", stream: b}
		}
	case p < 85:
		if off := pickMark("count"); off >= 0 {
			n := binary.BigEndian.Uint32(b[off:])
			binary.BigEndian.PutUint32(b[off:], n+uint32(1+r.Intn(3)))
			return uaCase{class: "count-too-big", stream: b}
		}
	case p < 91:
		k := "etype"
		if r.Bool() {
			k = "ftype"
		}
		if off := pickMark(k); off >= 0 {
			b[off] = badTypes[r.Intn(len(badTypes))]
			return uaCase{class: "bad-" + k, stream: b}
		}
	case p < 94:
		return uaCase{class: "no-stop", stream: b[:len(g.b)-1]}
	default:
		for i := 0; i < 1+r.Intn(3); i++ {
			b[r.Intn(len(b))] = byte(r.U64())
		}
		return uaCase{class: "byte-flips", stream: b}
	}
	return uaCase{class: "wellformed", stream: b}
}

// rawCase: a Fields buffer (fields without STOP), perturbed, for Fields.Write alone.
func rawCase(r *vl.Rng, count func(string)) uaCase {
	g := &wgen{r: r, count: func(string) {}}
	for i := 0; i < 1+r.Intn(3); i++ {
		g.field(1 + r.Intn(4))
	}
	b := g.b
	switch r.Intn(5) {
	case 0:
		return uaCase{class: "raw.wellformed", stream: b, raw: true}
	case 1:
		return uaCase{class: "raw.truncated", stream: b[:r.Intn(len(b))], raw: true}
	case 2:
		// a string size in the window (len-4, len] of Binary.ReadString's bounds test
		var c []int
		for _, m := range g.marks {
			if m.kind == "strsize" {
				c = append(c, m.off)
			}
		}
		if len(c) > 0 {
			off := c[r.Intn(len(c))]
			left := len(b) - off
			binary.BigEndian.PutUint32(b[off:], uint32(left-r.Intn(5)))
			return uaCase{class: "raw.string-size-window", stream: b, raw: true}
		}
	case 3:
		b[r.Intn(len(b))] = byte(r.U64())
		return uaCase{class: "raw.byte-flip", stream: b, raw: true}
	}
	return uaCase{class: "raw.wellformed", stream: b, raw: true}
}

// swallowed tells whether a defect kind is one whose protocol error unknown.read drops
func swallowed(kind string) bool {
	return kind == "scalar-short" || kind == "string-neg" || kind == "string-short" || kind == "string-size-short"
}

const swallowKey = "unknown.read-drops-scalar-read-errors|UA 0b0001ffffffff00"

// topFields cuts a stream into its top-level fields with the strict walker (nil if it does not walk).
func topFields(b []byte) [][]byte {
	var out [][]byte
	pos := 0
	for pos < len(b) && b[pos] != 0 {
		if len(b)-pos < 3 {
			return nil
		}
		var sink []byte
		end, k := strict(b, pos+3, b[pos], 1<<20, &sink)
		if k != "" {
			return nil
		}
		out = append(out, b[pos:end])
		pos = end
	}
	return out
}

// shrinkUA looks for a single top-level field of a failing well-formed stream that fails alone.
func shrinkUA(bin string, stream []byte) []byte {
	fs := topFields(stream)
	if len(fs) < 2 {
		return stream
	}
	var lines []string
	var cands [][]byte
	for _, f := range fs {
		c := append(append([]byte{}, f...), 0)
		cands = append(cands, c)
		lines = append(lines, "UA "+hex.EncodeToString(c))
	}
	ans, err := runUA(bin, lines)
	if err != nil {
		return stream
	}
	best := stream
	for i, c := range cands {
		fields, rest, defect := strictStream(c)
		if defect == "" && ans[i] != fmt.Sprintf("ok %s %d w:ok %s", hexOrDash(fields), rest, hexOrDash(fields)) && len(c) < len(best) {
			best = c
		}
	}
	return best
}

// runPkg generates n cases, runs them, records correspondence lines and oracle verdicts.
func runPkg(repo, work string, r *vl.Rng, n int, out *vl.Out) error {
	bin, err := buildUA(work, repo)
	if err != nil {
		return err
	}
	cases := append([]uaCase{}, catalogue...)
	huge := hugeCases()
	cases = append(cases, huge...)
	n += len(huge)
	skipped := 0
	for len(cases) < n {
		var c uaCase
		if r.Chance(8) {
			c = rawCase(r, out.Count)
		} else {
			c = genCase(r, out.Count)
		}
		if !c.raw && !safe(c.stream) {
			skipped++
			out.Count("a.skipped.unbounded-work")
			if skipped > 10*n {
				break
			}
			continue
		}
		cases = append(cases, c)
	}
	lines := make([]string, len(cases))
	for i, c := range cases {
		op := "UA "
		if c.raw {
			op = "UW "
		}
		h := hex.EncodeToString(c.stream)
		if h == "" {
			h = "-"
		}
		lines[i] = op + h
	}
	answers, err := runUA(bin, lines)
	if err != nil {
		return err
	}
	shrunk := 0
	for i, c := range cases {
		ans := answers[i]
		if c.implOnly {
			out.Count("a.implonly")
		} else {
			out.Case(lines[i], ans, true)
		}
		out.Count("a.class." + c.class)
		if strings.Contains(ans, "panic") && !c.raw {
			out.Fail(vl.OracleFail{Key: lines[i], What: "tie (a): panic in Fields.Append/Write on a protocol stream",
				Input: map[string]string{"op": lines[i], "class": c.class}, Expected: "ok or err", Observed: ans})
			continue
		}
		if c.raw {
			out.Count("a.raw." + strings.Fields(ans)[0])
			if c.class == "raw.wellformed" {
				var canon []byte
				// a well-formed buffer is a stream without STOP
				f, _, k := strictStream(append(append([]byte{}, c.stream...), 0))
				canon = f
				want := "ok " + hexOrDash(canon)
				if k == "" && ans != want {
					out.Fail(vl.OracleFail{Key: lines[i], What: "tie (a): Fields.Write does not replay a well-formed buffer byte for byte",
						Input: map[string]string{"op": lines[i]}, Expected: want, Observed: ans})
				}
			}
			continue
		}
		fields, rest, defect := strictStream(c.stream)
		toks := strings.Fields(ans)
		if len(toks) < 4 {
			out.Fail(vl.OracleFail{Key: lines[i], What: "tie (a): unparsable answer", Observed: ans})
			continue
		}
		if defect == "" {
			out.Count("a.oracle.wellformed")
			want := fmt.Sprintf("ok %s %d w:ok %s", hexOrDash(fields), rest, hexOrDash(fields))
			if ans != want {
				op, obs := lines[i], ans
				if c.implOnly {
					// a 64 KB key helps nobody: the stream is one field 9 holding n one-byte zero elements
					out.Fail(vl.OracleFail{Key: "tie (a) " + c.class + ": field 9 = container of n zero bytes (pkg.go hugeCases)",
						What:  "tie (a): Append+Write of a huge well-formed unknown container does not reproduce it byte for byte",
						Input: map[string]string{"class": c.class, "op": fmt.Sprintf("%.60s… (%d hex digits)", lines[i], len(lines[i])-3)}, Expected: fmt.Sprintf("%.80s…", want), Observed: fmt.Sprintf("%.80s… w:%.40s", ans, ans[strings.Index(ans, "w:")+2:])})
					continue
				}
				if shrunk < 5 {
					shrunk++
					if sm := shrinkUA(bin, c.stream); len(sm) < len(c.stream) {
						if a2, err := runUA(bin, []string{"UA " + hex.EncodeToString(sm)}); err == nil {
							f2, r2, _ := strictStream(sm)
							op, obs, want = "UA "+hex.EncodeToString(sm), a2[0], fmt.Sprintf("ok %s %d w:ok %s", hexOrDash(f2), r2, hexOrDash(f2))
						}
					}
				}
				out.Fail(vl.OracleFail{Key: op, What: "tie (a): Append+Write of well-formed unknown fields does not reproduce them byte for byte, in order",
					Input: map[string]string{"op": op, "class": c.class, "found_as": lines[i]}, Expected: want, Observed: obs})
			}
			continue
		}
		out.Count("a.oracle.defect." + defect)
		if toks[0] == "ok" {
			key := lines[i]
			what := "tie (a): a malformed unknown field (" + defect + ") is accepted and invented data is stored"
			if swallowed(defect) {
				key = swallowKey
				out.Count("a.finding.swallowed-error")
			}
			out.Fail(vl.OracleFail{Key: key, What: what,
				Input:    map[string]string{"op": "UA 0b0001ffffffff00", "seen_on": lines[i], "class": c.class, "how": "apache TBinaryProtocol over TMemoryBuffer; loop ReadFieldBegin / Fields.Append / ReadFieldEnd until STOP"},
				Expected: "err (the protocol's Skip rejects the same bytes)", Observed: ans})
		}
	}
	out.Stats["a.cases"] = len(cases)
	return nil
}

func hexOrDash(b []byte) string {
	if len(b) == 0 {
		return "-"
	}
	return hex.EncodeToString(b)
}
