package main

// The property oracle of C05, evaluated on the implementation alone: the bindings the real
// resolver stored in the AST are compared with what the generator meant each reference to denote
// (intents carried in the program description), and the outcome is compared across orders of the
// definitions.  Nothing here looks at the Lean model.

import (
	"encoding/json"
	"fmt"
	"sort"
	"strings"
)

// final follows the intended targets to the definition a type ultimately denotes.
func (ix *index) final(file int, t *TypeX, depth int) (dfile int, dname string, cat int, ok bool) {
	if depth > 500 {
		return 0, "", 0, false
	}
	switch t.K {
	case "l":
		return file, "list", catList, true
	case "s":
		return file, "set", catSet, true
	case "m":
		return file, "map", catMap, true
	}
	if t.TFile < 0 {
		c, isBase := catNum[t.Name]
		return file, t.Name, c, isBase && t.TFile == -1
	}
	d := ix.lookup(t.TFile, t.TName)
	if d == nil || !typeLike(d) {
		return 0, "", 0, false
	}
	if d.Kind == "typedef" {
		return ix.final(t.TFile, d.TD.Type, depth+1)
	}
	return t.TFile, t.TName, kindCat(d.Kind), true
}

func (ix *index) expNodes(file int, t *TypeX, out []nodeRec) ([]nodeRec, bool) {
	df, dn, c, ok := ix.final(file, t, 0)
	if !ok {
		return out, false
	}
	n := nodeRec{Cat: c, RefIdx: -1, DFile: df, DName: dn, DCat: c}
	if t.K == "n" && t.TFile >= 0 {
		d := ix.lookup(t.TFile, t.TName)
		n.IsTd = d.Kind == "typedef"
		if t.Inc >= 0 {
			incs := ix.p.Files[file].Includes
			if t.Inc >= len(incs) || incs[t.Inc].Target != t.TFile || t.Name != idlPrefixOf(incs[t.Inc].Path)+"."+t.TName ||
				ix.firstInc(file, idlPrefixOf(incs[t.Inc].Path), t.TName, typeLike) != t.Inc {
				return out, false
			}
			n.RefIdx, n.RefName = t.Inc, t.TName
		} else if t.TFile != file || t.Name != t.TName {
			return out, false
		}
	}
	out = append(out, n)
	switch t.K {
	case "l", "s":
		return ix.expNodes(file, t.Val, out)
	case "m":
		out, ok = ix.expNodes(file, t.Key, out)
		if !ok {
			return out, false
		}
		return ix.expNodes(file, t.Val, out)
	}
	return out, true
}

type usedSet map[int]bool

func (ix *index) typeUses(t *TypeX, u usedSet) {
	if t == nil {
		return
	}
	if t.K == "n" && t.Inc >= 0 {
		u[t.Inc] = true
	}
	ix.typeUses(t.Key, u)
	ix.typeUses(t.Val, u)
}

// expBinds checks each intent against the independent enumeration of what the identifier can name.
func (ix *index) expBinds(file int, c *CV, out []*Extra, u usedSet) ([]*Extra, bool) {
	if c == nil {
		return out, true
	}
	switch c.K {
	case "x":
		if c.Str == "true" || c.Str == "false" {
			return append(out, nil), true
		}
		cs := ix.cands(file, c.Str)
		if c.Want == nil || len(cs) != 1 || cs[0] != *c.Want {
			return out, false
		}
		if c.Want.Index >= 0 {
			u[c.Want.Index] = true
		}
		return append(out, c.Want), true
	case "L", "M":
		ok := true
		for _, it := range c.Items {
			out, ok = ix.expBinds(file, it, out, u)
			if !ok {
				return out, false
			}
		}
	}
	return out, true
}

func reachable(p *Prog) []bool {
	seen := make([]bool, len(p.Files))
	var dfs func(i int)
	dfs = func(i int) {
		if i < 0 || i >= len(p.Files) || seen[i] {
			return
		}
		seen[i] = true
		for _, inc := range p.Files[i].Includes {
			dfs(inc.Target)
		}
	}
	dfs(p.Root)
	return seen
}

// expectedDump renders, in the worker's canonical format, what resolution must produce if every
// reference is bound as intended.  ok=false: the description is not a valid intent-carrying
// program (dangling intent, duplicate name): used by the shrinker to reject a reduction.
func expectedDump(p *Prog) (string, bool) {
	ix := buildIndex(p)
	if ix.dup {
		return "", false
	}
	var fds []fileDump
	for fi, reach := range reachable(p) {
		if !reach {
			continue
		}
		f := p.Files[fi]
		fd := fileDump{Idx: fi}
		u := usedSet{}
		ok := true
		add := func(format string, a ...interface{}) { fd.Recs = append(fd.Recs, fmt.Sprintf(format, a...)) }
		nodes := func(t *TypeX) string {
			ns, k := ix.expNodes(fi, t, nil)
			if !k {
				ok = false
			}
			ix.typeUses(t, u)
			return nodesStr(ns)
		}
		bnd := func(c *CV) string {
			bs, k := ix.expBinds(fi, c, nil, u)
			if !k {
				ok = false
			}
			return bindsStr(bs)
		}
		for n, d := range ix.defs[fi] {
			add("N.%s.%d", hexs(n), kindCat(d.Kind))
		}
		for _, t := range f.Typedefs {
			add("T.%s.%s", hexs(t.Alias), nodes(t.Type))
		}
		for _, c := range f.Constants {
			add("C.%s.%s.%s", hexs(c.Name), nodes(c.Type), bnd(c.Value))
		}
		sls := append(append(append([]*StructLike{}, f.Structs...), f.Unions...), f.Exceptions...)
		for _, s := range sls {
			for k, fl := range s.Fields {
				add("S.%s.%d.%s.%s", hexs(s.Name), k, nodes(fl.Type), bnd(fl.Default))
			}
		}
		for _, s := range f.Services {
			ref := "-"
			if s.Extends != "" {
				parts := strings.Split(s.Extends, ".")
				base := parts[len(parts)-1]
				if s.ExtInc >= 0 {
					if s.ExtInc >= len(f.Includes) {
						return "", false
					}
					d := ix.lookup(f.Includes[s.ExtInc].Target, base)
					if d == nil || d.Kind != "service" {
						return "", false
					}
					ref = fmt.Sprintf("%d~%s", s.ExtInc, hexs(base))
					u[s.ExtInc] = true
				} else if d := ix.lookup(fi, s.Extends); d == nil || d.Kind != "service" {
					return "", false
				}
			}
			add("V.%s.%s", hexs(s.Name), ref)
			for k, fn := range s.Functions {
				if fn.Ret != nil {
					add("R.%s.%d.%s", hexs(s.Name), k, nodes(fn.Ret))
				}
				for a, fl := range fn.Args {
					add("A.%s.%d.%d.%s.%s", hexs(s.Name), k, a, nodes(fl.Type), bnd(fl.Default))
				}
				for a, fl := range fn.Throws {
					add("X.%s.%d.%d.%s.%s", hexs(s.Name), k, a, nodes(fl.Type), bnd(fl.Default))
				}
			}
		}
		if !ok {
			return "", false
		}
		var ub strings.Builder
		for k := range f.Includes {
			if u[k] {
				ub.WriteByte('1')
			} else {
				ub.WriteByte('0')
			}
		}
		fd.Used = ub.String()
		fds = append(fds, fd)
	}
	return joinDump(fds), true
}

// firstDiff names the first record on which two dumps differ.
func firstDiff(exp, obs string) (string, string) {
	if !strings.HasPrefix(obs, "ok ") {
		return "ok", obs
	}
	ef := strings.Split(exp, " | ")
	of := strings.Split(obs, " | ")
	for i := 0; i < len(ef) && i < len(of); i++ {
		if ef[i] == of[i] {
			continue
		}
		er := strings.Split(ef[i], " ")
		or := strings.Split(of[i], " ")
		for j := 0; j < len(er) && j < len(or); j++ {
			if er[j] != or[j] {
				return er[0] + " " + er[j], or[0] + " " + or[j]
			}
		}
		return ef[i], of[i]
	}
	return fmt.Sprintf("%d files", len(ef)), fmt.Sprintf("%d files", len(of))
}

// ---------------------------------------------------------------- shrinking

func progKey(p *Prog) string {
	fs := p.Render()
	var paths []string
	for k := range fs {
		paths = append(paths, k)
	}
	sort.Strings(paths)
	var sb strings.Builder
	fmt.Fprintf(&sb, "main=%s", p.Files[p.Root].Path)
	for _, k := range paths {
		fmt.Fprintf(&sb, "\n--- %s\n%s", k, fs[k])
	}
	return sb.String()
}

func rm[T any](xs []T, i int) []T {
	out := append([]T{}, xs[:i]...)
	return append(out, xs[i+1:]...)
}

// shrink greedily removes definitions, members, values and constant sub-terms while `fails` holds.
func shrink(p *Prog, fails func(*Prog) bool) *Prog {
	cur := clone(p)
	budget := 400
	try := func(edit func(q *Prog) bool) bool {
		if budget <= 0 {
			return false
		}
		q := clone(cur)
		if !edit(q) {
			return false
		}
		budget--
		if fails(q) {
			cur = q
			return true
		}
		return false
	}
	for progress := true; progress && budget > 0; {
		progress = false
		for fi := range cur.Files {
			type lst struct {
				n  func(f *File) int
				rm func(f *File, i int)
			}
			lists := []lst{
				{func(f *File) int { return len(f.Services) }, func(f *File, i int) { f.Services = rm(f.Services, i) }},
				{func(f *File) int { return len(f.Constants) }, func(f *File, i int) { f.Constants = rm(f.Constants, i) }},
				{func(f *File) int { return len(f.Structs) }, func(f *File, i int) { f.Structs = rm(f.Structs, i) }},
				{func(f *File) int { return len(f.Unions) }, func(f *File, i int) { f.Unions = rm(f.Unions, i) }},
				{func(f *File) int { return len(f.Exceptions) }, func(f *File, i int) { f.Exceptions = rm(f.Exceptions, i) }},
				{func(f *File) int { return len(f.Typedefs) }, func(f *File, i int) { f.Typedefs = rm(f.Typedefs, i) }},
				{func(f *File) int { return len(f.Enums) }, func(f *File, i int) { f.Enums = rm(f.Enums, i) }},
			}
			for _, l := range lists {
				for i := l.n(cur.Files[fi]) - 1; i >= 0; i-- {
					i := i
					if try(func(q *Prog) bool { l.rm(q.Files[fi], i); return true }) {
						progress = true
					}
				}
			}
			// members
			f := cur.Files[fi]
			for _, get := range []func(f *File) []*StructLike{
				func(f *File) []*StructLike { return f.Structs },
				func(f *File) []*StructLike { return f.Unions },
				func(f *File) []*StructLike { return f.Exceptions },
			} {
				for si := range get(f) {
					for k := len(get(cur.Files[fi])[si].Fields) - 1; k >= 0; k-- {
						si, k := si, k
						if try(func(q *Prog) bool { s := get(q.Files[fi])[si]; s.Fields = rm(s.Fields, k); return true }) {
							progress = true
						} else if get(cur.Files[fi])[si].Fields[k].Default != nil {
							if try(func(q *Prog) bool { get(q.Files[fi])[si].Fields[k].Default = nil; return true }) {
								progress = true
							}
						}
					}
				}
			}
			for si := range cur.Files[fi].Services {
				for k := len(cur.Files[fi].Services[si].Functions) - 1; k >= 0; k-- {
					si, k := si, k
					if try(func(q *Prog) bool { s := q.Files[fi].Services[si]; s.Functions = rm(s.Functions, k); return true }) {
						progress = true
					}
				}
			}
			for ci := range cur.Files[fi].Constants {
				ci := ci
				c := cur.Files[fi].Constants[ci]
				if (c.Value.K == "L" || c.Value.K == "M") && len(c.Value.Items) > 0 {
					step := 1
					if c.Value.K == "M" {
						step = 2
					}
					for k := len(c.Value.Items) - step; k >= 0; k -= step {
						k := k
						if try(func(q *Prog) bool {
							v := q.Files[fi].Constants[ci].Value
							v.Items = append(append([]*CV{}, v.Items[:k]...), v.Items[k+step:]...)
							return true
						}) {
							progress = true
						}
					}
				}
			}
		}
		// trailing unused includes and unreachable trailing files
		for fi := range cur.Files {
			for k := len(cur.Files[fi].Includes) - 1; k >= 0; k-- {
				fi, k := fi, k
				if k != len(cur.Files[fi].Includes)-1 {
					break
				}
				if !try(func(q *Prog) bool { q.Files[fi].Includes = q.Files[fi].Includes[:k]; return true }) {
					break
				}
				progress = true
			}
		}
	}
	return cur
}

func progJSON(p *Prog) json.RawMessage {
	b, _ := json.Marshal(p)
	return b
}
