package main

// The sandboxed implementation runner.  `c05 worker` reads one JSON request per line (rendered IDL
// files + the path of every file by index), runs the real pipeline in-process
// (parser.ParseBatchString → CircleDetect → CheckAll → ResolveSymbols → Deref on every node) and
// answers with one canonical line.  It is a child process because one input class is known to kill
// the Go runtime (unbounded recursion in getEnum): the parent detects the death / a timeout,
// records it as the outcome of that input and starts a fresh worker.

import (
	"bufio"
	"bytes"
	"encoding/json"
	"fmt"
	"io"
	"os"
	"os/exec"
	"runtime/debug"
	"strings"
	"time"

	"github.com/cloudwego/thriftgo/parser"
	"github.com/cloudwego/thriftgo/semantic"
)

type wreq struct {
	Files map[string]string `json:"files"`
	Paths []string          `json:"paths"`
	Main  string            `json:"main"`
}

func classify(err error) string {
	msg := err.Error()
	for _, p := range [][2]string{
		{"multiple definition", "multidef"},
		{"unexpected type category", "badcat"},
		{"undefined type", "undeftype"},
		{"invalid type name", "invalidname"},
		{"undefined value", "undefvalue"},
		{"ambiguous const value", "ambiguous"},
		{"base service", "basesvc"},
		{"typedefs can not be resolved", "tdcycle"},
		{"a typedef, not found", "tdnotfound"},
		{"is not parsed", "notparsed"},
	} {
		if strings.Contains(msg, p[0]) {
			return p[1]
		}
	}
	return "panic"
}

type dumper struct {
	idx map[string]int
}

func (d *dumper) node(ast *parser.Thrift, t *parser.Type) nodeRec {
	n := nodeRec{Cat: int(t.Category), IsTd: t.GetIsTypedef(), RefIdx: -1}
	if t.Reference != nil {
		n.RefIdx = int(t.Reference.Index)
		n.RefName = t.Reference.Name
	}
	func() {
		defer func() {
			if recover() != nil {
				n.DerefStr = "E"
			}
		}()
		a2, t2, err := semantic.Deref(ast, t)
		if err != nil || a2 == nil || t2 == nil {
			n.DerefStr = "E"
			return
		}
		j, ok := d.idx[a2.Filename]
		if !ok {
			n.DerefStr = "E"
			return
		}
		n.DFile, n.DName, n.DCat = j, t2.Name, int(t2.Category)
	}()
	return n
}

func (d *dumper) nodes(ast *parser.Thrift, t *parser.Type, out []nodeRec) []nodeRec {
	if t == nil {
		return out
	}
	out = append(out, d.node(ast, t))
	switch t.Name {
	case "map":
		out = d.nodes(ast, t.KeyType, out)
		out = d.nodes(ast, t.ValueType, out)
	case "list", "set":
		out = d.nodes(ast, t.ValueType, out)
	}
	return out
}

func binds(c *parser.ConstValue, out []*Extra) []*Extra {
	if c == nil {
		return out
	}
	switch c.Type {
	case parser.ConstType_ConstIdentifier:
		if c.Extra == nil {
			return append(out, nil)
		}
		return append(out, &Extra{IsEnum: c.Extra.IsEnum, Index: int(c.Extra.Index), Name: c.Extra.Name, Sel: c.Extra.Sel})
	case parser.ConstType_ConstList:
		for _, v := range c.TypedValue.List {
			out = binds(v, out)
		}
	case parser.ConstType_ConstMap:
		for _, m := range c.TypedValue.Map {
			out = binds(m.Key, out)
			out = binds(m.Value, out)
		}
	}
	return out
}

func hexs(s string) string {
	if s == "" {
		return "-"
	}
	return fmt.Sprintf("%x", s)
}

func (d *dumper) file(ast *parser.Thrift) fileDump {
	fd := fileDump{Idx: d.idx[ast.Filename]}
	var ub strings.Builder
	for _, inc := range ast.Includes {
		if inc.GetUsed() {
			ub.WriteByte('1')
		} else {
			ub.WriteByte('0')
		}
	}
	fd.Used = ub.String()
	add := func(format string, a ...interface{}) { fd.Recs = append(fd.Recs, fmt.Sprintf(format, a...)) }
	for k, c := range ast.Name2Category {
		add("N.%s.%d", hexs(k), int(c))
	}
	for _, t := range ast.Typedefs {
		add("T.%s.%s", hexs(t.Alias), nodesStr(d.nodes(ast, t.Type, nil)))
	}
	for _, c := range ast.Constants {
		add("C.%s.%s.%s", hexs(c.Name), nodesStr(d.nodes(ast, c.Type, nil)), bindsStr(binds(c.Value, nil)))
	}
	for _, s := range ast.GetStructLikes() {
		for k, f := range s.Fields {
			var bs []*Extra
			if f.IsSetDefault() {
				bs = binds(f.Default, nil)
			}
			add("S.%s.%d.%s.%s", hexs(s.Name), k, nodesStr(d.nodes(ast, f.Type, nil)), bindsStr(bs))
		}
	}
	for _, s := range ast.Services {
		ref := "-"
		if s.Reference != nil {
			ref = fmt.Sprintf("%d~%s", s.Reference.Index, hexs(s.Reference.Name))
		}
		add("V.%s.%s", hexs(s.Name), ref)
		for k, fn := range s.Functions {
			if !fn.Void {
				add("R.%s.%d.%s", hexs(s.Name), k, nodesStr(d.nodes(ast, fn.FunctionType, nil)))
			}
			mb := func(f *parser.Field) string {
				var bs []*Extra
				if f.IsSetDefault() {
					bs = binds(f.Default, nil)
				}
				return bindsStr(bs)
			}
			for a, f := range fn.Arguments {
				add("A.%s.%d.%d.%s.%s", hexs(s.Name), k, a, nodesStr(d.nodes(ast, f.Type, nil)), mb(f))
			}
			for a, f := range fn.Throws {
				add("X.%s.%d.%d.%s.%s", hexs(s.Name), k, a, nodesStr(d.nodes(ast, f.Type, nil)), mb(f))
			}
		}
	}
	return fd
}

func bindsStr(bs []*Extra) string {
	if len(bs) == 0 {
		return "-"
	}
	ss := make([]string, len(bs))
	for i, b := range bs {
		ss[i] = bindStr(b)
	}
	return strings.Join(ss, ",")
}

// runImpl is the implementation side of one case.
func runImpl(q *wreq) (res string) {
	defer func() {
		if x := recover(); x != nil {
			res = "harness-panic:" + strings.ReplaceAll(fmt.Sprint(x), "\n", " ")
		}
	}()
	ast, err := parser.ParseBatchString(q.Main, q.Files, nil)
	if err != nil {
		return "noparse:" + strings.ReplaceAll(err.Error(), "\n", " ")
	}
	if c := parser.CircleDetect(ast); c != "" {
		return "circle"
	}
	if _, err := semantic.NewChecker(semantic.Options{FixWarnings: true}).CheckAll(ast); err != nil {
		return "checkerr:" + strings.ReplaceAll(err.Error(), "\n", " ")
	}
	if err := semantic.ResolveSymbols(ast); err != nil {
		return "err:" + classify(err)
	}
	d := &dumper{idx: map[string]int{}}
	for i, p := range q.Paths {
		d.idx[p] = i
	}
	var fds []fileDump
	for t := range ast.DepthFirstSearch() {
		if _, ok := d.idx[t.Filename]; !ok {
			return "harness-panic:unknown file " + t.Filename
		}
		fds = append(fds, d.file(t))
	}
	return joinDump(fds)
}

func worker() error {
	debug.SetMaxStack(16 << 20) // a runaway recursion dies quickly instead of eating 1 GB first
	in := bufio.NewReaderSize(os.Stdin, 1<<20)
	out := bufio.NewWriter(os.Stdout)
	for {
		line, err := in.ReadBytes('\n')
		if len(line) > 0 {
			var q wreq
			if e := json.Unmarshal(line, &q); e != nil {
				return e
			}
			out.WriteString(runImpl(&q))
			out.WriteByte('\n')
			out.Flush()
		}
		if err != nil {
			return nil
		}
	}
}

// ---------------------------------------------------------------- parent side

type pool struct {
	exe    string
	cmd    *exec.Cmd
	in     io.WriteCloser
	out    *bufio.Reader
	errbuf *bytes.Buffer
	Deaths int
}

func newPool() (*pool, error) {
	exe, err := os.Executable()
	if err != nil {
		return nil, err
	}
	return &pool{exe: exe}, nil
}

func (p *pool) start() error {
	p.cmd = exec.Command(p.exe, "worker")
	p.errbuf = &bytes.Buffer{}
	p.cmd.Stderr = p.errbuf
	in, err := p.cmd.StdinPipe()
	if err != nil {
		return err
	}
	outp, err := p.cmd.StdoutPipe()
	if err != nil {
		return err
	}
	p.in = in
	p.out = bufio.NewReaderSize(outp, 1<<20)
	return p.cmd.Start()
}

func (p *pool) stop() {
	if p.cmd != nil {
		p.in.Close()
		p.cmd.Process.Kill()
		p.cmd.Wait()
		p.cmd = nil
	}
}

// Run executes one program on the implementation.  "err:crash" = the worker died with a Go fatal
// error (stack overflow); "err:timeout" = no answer within 180 s; "err:died" = any other death.
func (p *pool) Run(pr *Prog) (string, error) {
	if p.cmd == nil {
		if err := p.start(); err != nil {
			return "", err
		}
	}
	q := wreq{Files: pr.Render(), Main: pr.Files[pr.Root].Path}
	for _, f := range pr.Files {
		q.Paths = append(q.Paths, f.Path)
	}
	b, _ := json.Marshal(q)
	b = append(b, '\n')
	type ans struct {
		s   string
		err error
	}
	ch := make(chan ans, 1)
	rd := p.out
	go func() {
		s, err := rd.ReadString('\n')
		ch <- ans{s, err}
	}()
	if _, err := p.in.Write(b); err != nil {
		// worker already dead
	}
	select {
	case a := <-ch:
		if a.err != nil {
			p.cmd.Wait()
			msg := p.errbuf.String()
			p.cmd = nil
			p.Deaths++
			if strings.Contains(msg, "stack overflow") || strings.Contains(msg, "goroutine stack exceeds") {
				return "err:crash", nil
			}
			return "err:died", nil
		}
		return strings.TrimRight(a.s, "\n"), nil
	case <-time.After(180 * time.Second):
		p.stop()
		p.Deaths++
		return "err:timeout", nil
	}
}
