// c05: translator (extract), correspondence/oracle harness (run), replay and the sandboxed
// worker for property C05 (symbol resolution binds every reference to the definition the IDL names).
package main

import (
	"flag"
	"fmt"
	"os"
)

func main() {
	repo := flag.String("repo", "/repo", "")
	dir := flag.String("dir", ".", "")
	seed := flag.Uint64("seed", 1, "")
	tier := flag.String("tier", "quick", "")
	file := flag.String("file", "", "")
	if len(os.Args) < 2 {
		fmt.Fprintln(os.Stderr, "usage: c05 extract|run|replay|worker [flags]")
		os.Exit(3)
	}
	flag.CommandLine.Parse(os.Args[2:])
	var err error
	switch os.Args[1] {
	case "extract":
		err = extract(*repo)
	case "run":
		err = run(*repo, *dir, *seed, *tier)
	case "replay":
		err = replay(*repo, *file)
	case "worker":
		err = worker()
	default:
		err = fmt.Errorf("usage: c05 extract|run|replay|worker")
	}
	if err != nil {
		fmt.Fprintln(os.Stderr, "c05:", err)
		os.Exit(3)
	}
}
