package main

import (
	"encoding/json"
	"fmt"
	"os"
	"strings"

	"github.com/cloudwego/thriftgo/semantic"

	"verifharness/internal/vl"
)

type runner struct {
	out  *vl.Out
	pool *pool
	bad  []string // machinery problems (generator produced something the parser/checker refuses)
}

func nontrivial(p *Prog) bool {
	if len(p.Files) < 2 {
		return false
	}
	for _, f := range p.Files {
		for _, t := range f.Typedefs {
			if t.Type.K == "n" && t.Type.Inc >= 0 {
				return true
			}
		}
		for _, s := range f.Services {
			if s.ExtInc >= 0 {
				return true
			}
		}
	}
	return false
}

func okness(impl string) string {
	if strings.HasPrefix(impl, "ok ") {
		return "ok"
	}
	return "rejected"
}

// implOnly runs the implementation and returns its answer ("" on machinery trouble).
func (rn *runner) impl(p *Prog) string {
	s, err := rn.pool.Run(p)
	if err != nil {
		rn.bad = append(rn.bad, err.Error())
		return ""
	}
	return s
}

func usable(impl string) bool {
	return strings.HasPrefix(impl, "ok ") || strings.HasPrefix(impl, "err:")
}

// checkIntent: the oracle on one program.  Returns a failure or nil.
func (rn *runner) checkIntent(p *Prog, impl string) *vl.OracleFail {
	if rn.saturated() {
		return rn.cheapIntent(p, impl)
	}
	if p.Expect == "ok" {
		exp, valid := expectedDump(p)
		if !valid {
			rn.bad = append(rn.bad, "generator produced a program whose intents are inconsistent: "+p.Shape)
			return nil
		}
		if impl == exp {
			return nil
		}
		fails := func(q *Prog) bool {
			e, v := expectedDump(q)
			if !v {
				return false
			}
			o := rn.impl(q)
			return usable(o) && o != e
		}
		m := shrink(p, fails)
		me, _ := expectedDump(m)
		mo := rn.impl(m)
		e1, o1 := firstDiff(me, mo)
		return &vl.OracleFail{Key: "intent:" + progKey(m), What: "a reference is not bound to the definition the IDL names (resolved AST differs from the generator's intent)",
			Input: map[string]interface{}{"program": progJSON(m), "idl": m.Render(), "kind": "intent"}, Expected: e1, Observed: o1}
	}
	// erroneous program: must not be accepted, and must be answered (no fatal crash, no hang)
	if strings.HasPrefix(impl, "ok ") {
		// keep programs the oracle itself still judges erroneous (dangling intent, duplicate name,
		// identifier with no or several readings) and that are still accepted
		fails := func(q *Prog) bool {
			if _, valid := expectedDump(q); valid {
				return false
			}
			return strings.HasPrefix(rn.impl(q), "ok ")
		}
		m := p
		if !p.Fixed {
			m = shrink(p, fails)
		}
		return &vl.OracleFail{Key: "accepted:" + progKey(m), What: "a program with an unresolvable reference (" + p.Shape + ") is accepted",
			Input: map[string]interface{}{"program": progJSON(m), "idl": m.Render(), "kind": "accepted"}, Expected: "err:" + p.Expect, Observed: "ok"}
	}
	if impl == "err:crash" || impl == "err:timeout" || impl == "err:died" {
		fails := func(q *Prog) bool { o := rn.impl(q); return o == impl }
		m := shrink(p, fails)
		return &vl.OracleFail{Key: "fatal:" + progKey(m), What: "resolution does not return (" + impl + ") on " + p.Shape,
			Input: map[string]interface{}{"program": progJSON(m), "idl": m.Render(), "kind": "fatal"}, Expected: "err:" + p.Expect, Observed: impl}
	}
	return nil
}

// saturated: enough failing inputs have been minimised; further failures are only counted.
func (rn *runner) saturated() bool { return len(rn.out.Oracle) >= 6 }

func (rn *runner) cheapIntent(p *Prog, impl string) *vl.OracleFail {
	bad := false
	if p.Expect == "ok" {
		exp, valid := expectedDump(p)
		bad = valid && impl != exp
	} else {
		bad = strings.HasPrefix(impl, "ok ") || impl == "err:crash" || impl == "err:timeout" || impl == "err:died"
	}
	if bad {
		rn.out.Count("oracle-failures-not-minimised")
	}
	return nil
}

// checkOrder: the outcome must not depend on the order of definitions.
func (rn *runner) checkOrder(p *Prog, impl string, q *Prog, implQ string) *vl.OracleFail {
	same := okness(impl) == okness(implQ) && (okness(impl) != "ok" || impl == implQ)
	if same {
		return nil
	}
	if rn.saturated() {
		rn.out.Count("oracle-failures-not-minimised")
		return nil
	}
	// try to shrink with the reversal as the second order
	rev := func(x *Prog) bool {
		a, b := rn.impl(x), rn.impl(permuted(x, nil))
		if !usable(a) || !usable(b) {
			return false
		}
		return !(okness(a) == okness(b) && (okness(a) != "ok" || a == b))
	}
	m, m2 := p, q
	if rev(p) {
		m = shrink(p, rev)
		m2 = permuted(m, nil)
	}
	a, b := rn.impl(m), rn.impl(m2)
	e1, o1 := firstDiff(a, b)
	if okness(a) != "ok" {
		e1, o1 = a, b
	}
	return &vl.OracleFail{Key: "order:" + progKey(m) + "\n=== other order\n" + progKey(m2), What: "the outcome of resolution depends on the order of the definitions",
		Input:    map[string]interface{}{"program": progJSON(m), "program2": progJSON(m2), "idl": m.Render(), "idl2": m2.Render(), "kind": "order"},
		Expected: "same outcome as the first order: " + e1, Observed: o1}
}

func (rn *runner) emit(p *Prog, impl string) {
	rn.out.Case(p.VL(), impl, nontrivial(p))
}

func (rn *runner) stats(p *Prog, impl string) {
	o := rn.out
	o.Count("shape:" + p.Shape)
	o.Count(fmt.Sprintf("files:%d", len(p.Files)))
	if strings.HasPrefix(impl, "err:") {
		o.Count("outcome:" + impl)
	} else {
		o.Count("outcome:ok")
	}
	ntd, nq, nid, chain := 0, 0, 0, 0
	ix := buildIndex(p)
	sameBase := map[string]int{}
	for fi, f := range p.Files {
		sameBase[idlPrefixOf(f.Path)]++
		ntd += len(f.Typedefs)
		for _, t := range f.Typedefs {
			if t.Type.K == "n" && t.Type.Inc >= 0 {
				nq++
			}
			// chain length by intent
			l, cur, cf := 0, t.Type, fi
			for cur != nil && cur.K == "n" && cur.TFile >= 0 && l < 100 {
				d := ix.lookup(cur.TFile, cur.TName)
				if d == nil || d.Kind != "typedef" {
					break
				}
				l++
				cf = cur.TFile
				cur = d.TD.Type
			}
			_ = cf
			if l > chain {
				chain = l
			}
		}
		for _, c := range f.Constants {
			nid += countIdents(c.Value)
		}
	}
	for _, n := range sameBase {
		if n > 1 {
			o.Count("programs-with-equal-base-names")
			break
		}
	}
	o.Count(fmt.Sprintf("typedef-chain-len:%s", bucket(chain)))
	if p.Shape2 != "" {
		o.Count(fmt.Sprintf("%s:%s", p.Shape2, bucketChain(p.MaxChain)))
	}
	o.Count(fmt.Sprintf("typedefs:%s", bucket(ntd)))
	o.Count(fmt.Sprintf("cross-file-typedefs:%s", bucket(nq)))
	o.Count(fmt.Sprintf("const-identifiers:%s", bucket(nid)))
}

func countIdents(c *CV) int {
	if c == nil {
		return 0
	}
	n := 0
	if c.K == "x" {
		n = 1
	}
	for _, it := range c.Items {
		n += countIdents(it)
	}
	return n
}

func bucketChain(n int) string {
	switch {
	case n <= 6:
		return "1-6"
	case n <= 12:
		return "9-12"
	case n <= 17:
		return "17"
	}
	return "33"
}

func bucket(n int) string {
	switch {
	case n == 0:
		return "0"
	case n <= 2:
		return "1-2"
	case n <= 5:
		return "3-5"
	case n <= 10:
		return "6-10"
	}
	return ">10"
}

func (rn *runner) one(p *Prog, r *vl.Rng, nvar int) {
	impl := rn.impl(p)
	if !usable(impl) {
		rn.bad = append(rn.bad, p.Shape+": "+impl+"\n"+progKey(p))
		return
	}
	rn.stats(p, impl)
	rn.emit(p, impl)
	if len(rn.out.Samples) < 8 && rn.out.Evals%97 == 1 {
		rn.out.Sample(map[string]interface{}{"shape": p.Shape, "idl": p.Render(), "impl": impl})
	}
	if f := rn.checkIntent(p, impl); f != nil {
		if p.Observe {
			rn.out.Count("observed:" + p.Shape + ":" + fmt.Sprint(f.Observed))
		} else {
			rn.out.Fail(*f)
		}
	}
	for v := 0; v < nvar; v++ {
		var q *Prog
		if v == 0 {
			q = permuted(p, nil)
		} else {
			q = permuted(p, r)
		}
		iq := rn.impl(q)
		if !usable(iq) {
			rn.bad = append(rn.bad, p.Shape+" (permuted): "+iq+"\n"+progKey(q))
			continue
		}
		rn.emit(q, iq)
		rn.out.Count("permuted-variants")
		if f := rn.checkOrder(p, impl, q, iq); f != nil {
			rn.out.Fail(*f)
		}
	}
}

var splitAlphabet = []string{"a", "b", "A", ".", ".", "/", "x1", "_", "thrift", ".thrift", "..", "d/"}

func (rn *runner) splitOps(r *vl.Rng, n int) {
	fixed := []string{"", ".", "..", "a", "a.", ".a", "a.b", "a.b.c", "a.b.c.d", "a..b", "/", "//", "a/", "a/b.thrift", "a/b", "a.b/c.d.thrift",
		"x/.thrift", "x/..", "base.thrift", "d1/sub/a.b.thrift", "noext", "dir.v1/noext", "/abs/p.q.thrift/"}
	for i := 0; i < n; i++ {
		var s string
		if i < len(fixed) {
			s = fixed[i]
		} else {
			for j, m := 0, r.Intn(7); j < m; j++ {
				s += r.Pick(splitAlphabet)
			}
		}
		rn.out.Case("P "+vl.Hex(s), vl.Hex(semantic.IDLPrefix(s)), false)
		var ys []string
		for _, x := range semantic.SplitType(s) {
			ys = append(ys, vl.Hex(x))
		}
		rn.out.Case("Y "+vl.Hex(s), strings.Join(ys, ",")+";", false)
		var zs []string
		for _, ss := range semantic.SplitValue(s) {
			var hs []string
			for _, x := range ss {
				hs = append(hs, vl.Hex(x))
			}
			zs = append(zs, strings.Join(hs, ","))
		}
		rn.out.Case("Z "+vl.Hex(s), strings.Join(zs, "|")+";", false)
		rn.out.Count("split-ops")
	}
}

func run(repo, dir string, seed uint64, tier string) error {
	_ = repo
	r := vl.NewRng(seed)
	pl, err := newPool()
	if err != nil {
		return err
	}
	defer pl.stop()
	rn := &runner{out: vl.NewOut(dir), pool: pl}
	nprog, nvar, maxFiles, maxChain := 400, 3, 5, 33
	if tier == "thorough" {
		nprog, nvar, maxFiles, maxChain = 10000, 2, 8, 33
	}
	for _, p := range fixedCases() { // regression items first
		rn.one(p, r, 1)
	}
	rn.splitOps(r, 300)
	g := &gen{r: r, maxFiles: maxFiles, maxChain: maxChain}
	for i := 0; i < nprog; i++ {
		p := g.genProgram()
		if r.Chance(18) {
			g.inject()
		}
		rn.one(p, r, nvar)
	}
	rn.out.Stats["worker-deaths"] = pl.Deaths
	rn.out.Close()
	if len(rn.bad) > 0 {
		n := len(rn.bad)
		if n > 3 {
			rn.bad = rn.bad[:3]
		}
		return fmt.Errorf("%d generated programs were unusable (generator or parser trouble), e.g.:\n%s", n, strings.Join(rn.bad, "\n"))
	}
	return nil
}

// replay re-runs the oracle on the program(s) of a replay file and prints the failures as JSON.
func replay(repo, file string) error {
	_ = repo
	b, err := os.ReadFile(file)
	if err != nil {
		return err
	}
	var doc struct {
		Input struct {
			Program  *Prog  `json:"program"`
			Program2 *Prog  `json:"program2"`
			Kind     string `json:"kind"`
		} `json:"input"`
	}
	if err := json.Unmarshal(b, &doc); err != nil {
		return err
	}
	if doc.Input.Program == nil {
		fmt.Println("[]")
		return nil
	}
	dir, _ := os.MkdirTemp("", "c05replay")
	defer os.RemoveAll(dir)
	pl, err := newPool()
	if err != nil {
		return err
	}
	defer pl.stop()
	rn := &runner{out: vl.NewOut(dir), pool: pl}
	p := doc.Input.Program
	impl := rn.impl(p)
	rn.emit(p, impl)
	var fails []vl.OracleFail
	noShrink := func(f *vl.OracleFail) {
		if f != nil {
			fails = append(fails, *f)
		}
	}
	switch doc.Input.Kind {
	case "order":
		q := doc.Input.Program2
		if q == nil {
			q = permuted(p, nil)
		}
		iq := rn.impl(q)
		rn.emit(q, iq)
		noShrink(rn.checkOrder(p, impl, q, iq))
	default:
		noShrink(rn.checkIntent(p, impl))
	}
	rn.out.Close()
	// also hand the ops/impl lines to the caller so that the model can be run on the replay
	ops, _ := os.ReadFile(dir + "/ops.txt")
	im, _ := os.ReadFile(dir + "/impl.txt")
	js, _ := json.Marshal(map[string]interface{}{"fails": fails, "ops": string(ops), "impl": string(im)})
	fmt.Println(string(js))
	return nil
}
