package main

// Seeded generator of multi-file IDL programs.  Every reference is produced "target first": the
// generator picks the definition it wants to denote, then writes the name that denotes it, and
// records the target in the node (intent).  The oracle (oracle.go) later compares the
// implementation's bindings with these intents.

import (
	"encoding/json"
	"fmt"
	"strings"

	"verifharness/internal/vl"
)

type defInfo struct {
	Kind string // typedef const enum struct union exception service
	File int
	Name string
	TD   *Typedef
	EN   *Enum
}

func typeLike(d *defInfo) bool {
	switch d.Kind {
	case "typedef", "enum", "struct", "union", "exception":
		return true
	}
	return false
}

func kindCat(k string) int {
	switch k {
	case "typedef":
		return catTypedef
	case "const":
		return catConstant
	case "enum":
		return catEnum
	case "struct":
		return catStruct
	case "union":
		return catUnion
	case "exception":
		return catException
	case "service":
		return catService
	}
	panic("kind " + k)
}

// index of the definitions of a program (rebuilt from the program itself, so that replay and
// shrinking work from the JSON description alone)
type index struct {
	p    *Prog
	defs []map[string]*defInfo
	dup  bool // some file declares a name twice
}

func buildIndex(p *Prog) *index {
	ix := &index{p: p}
	for fi, f := range p.Files {
		m := map[string]*defInfo{}
		add := func(d *defInfo) {
			d.File = fi
			if _, ok := m[d.Name]; ok {
				ix.dup = true
				return
			}
			m[d.Name] = d
		}
		for _, t := range f.Typedefs {
			add(&defInfo{Kind: "typedef", Name: t.Alias, TD: t})
		}
		for _, c := range f.Constants {
			add(&defInfo{Kind: "const", Name: c.Name})
		}
		for _, e := range f.Enums {
			add(&defInfo{Kind: "enum", Name: e.Name, EN: e})
		}
		for _, s := range f.Structs {
			add(&defInfo{Kind: "struct", Name: s.Name})
		}
		for _, s := range f.Unions {
			add(&defInfo{Kind: "union", Name: s.Name})
		}
		for _, s := range f.Exceptions {
			add(&defInfo{Kind: "exception", Name: s.Name})
		}
		for _, s := range f.Services {
			add(&defInfo{Kind: "service", Name: s.Name})
		}
		ix.defs = append(ix.defs, m)
	}
	return ix
}

func (ix *index) lookup(file int, name string) *defInfo {
	if file < 0 || file >= len(ix.defs) {
		return nil
	}
	return ix.defs[file][name]
}

// firstInc: the first include of `file` whose IDL prefix is pfx and whose file defines `name`
// with an acceptable kind — the reading of a qualified name fixed in DESIGN.md §7.
func (ix *index) firstInc(file int, pfx, name string, ok func(*defInfo) bool) int {
	for k, inc := range ix.p.Files[file].Includes {
		if idlPrefixOf(inc.Path) != pfx {
			continue
		}
		if d := ix.lookup(inc.Target, name); d != nil && ok(d) {
			return k
		}
	}
	return -1
}

// enumOf: the enum that `name` denotes in `file` when used as `name.VALUE`, following typedefs by
// intent, and the include index through which the first qualified hop of the local chain goes.
func (ix *index) enumOf(file int, name string, depth int) (*Enum, int) {
	if depth > 200 {
		return nil, -1
	}
	d := ix.lookup(file, name)
	if d == nil {
		return nil, -1
	}
	switch d.Kind {
	case "enum":
		return d.EN, -1
	case "typedef":
		t := d.TD.Type
		if t.K != "n" || t.TFile < 0 {
			return nil, -1
		}
		if t.Inc >= 0 {
			if e, _ := ix.enumOf(t.TFile, t.TName, depth+1); e != nil {
				return e, t.Inc
			}
			return nil, -1
		}
		return ix.enumOf(file, t.TName, depth+1)
	}
	return nil, -1
}

func hasValue(e *Enum, v string) int {
	n := 0
	for _, x := range e.Values {
		if x.Name == v {
			n++
		}
	}
	return n
}

// cands enumerates what an identifier used as a constant value can name in `file`, as the
// property states it: local constant, enum.value, include.constant, include.enum.value, enums
// also through typedefs.
func (ix *index) cands(file int, id string) []Extra {
	var out []Extra
	parts := strings.Split(id, ".")
	n := len(parts)
	if n == 1 {
		if d := ix.lookup(file, id); d != nil && d.Kind == "const" {
			out = append(out, Extra{false, -1, id, ""})
		}
		return out
	}
	v := parts[n-1]
	head := strings.Join(parts[:n-1], ".")
	if e, idx := ix.enumOf(file, head, 0); e != nil {
		for i := 0; i < hasValue(e, v); i++ {
			out = append(out, Extra{true, idx, v, head})
		}
	}
	for k, inc := range ix.p.Files[file].Includes {
		if idlPrefixOf(inc.Path) == head {
			if d := ix.lookup(inc.Target, v); d != nil && d.Kind == "const" {
				out = append(out, Extra{false, k, v, head})
			}
		}
	}
	if n >= 3 {
		en := parts[n-2]
		pre := strings.Join(parts[:n-2], ".")
		for k, inc := range ix.p.Files[file].Includes {
			if idlPrefixOf(inc.Path) == pre {
				if e, _ := ix.enumOf(inc.Target, en, 0); e != nil {
					for i := 0; i < hasValue(e, v); i++ {
						out = append(out, Extra{true, k, v, en})
					}
				}
			}
		}
	}
	return out
}

// ---------------------------------------------------------------- generator

type gen struct {
	r        *vl.Rng
	maxFiles int
	maxChain int
	p        *Prog
	ix       *index
	collide  bool
}

var (
	fileBases  = []string{"base", "common", "shared", "types", "Color", "Status", "a.b", "x", "svc", "Base", "Kind"}
	fileDirs   = []string{"", "", "d1/", "d2/", "d1/sub/"}
	typeNames  = []string{"Foo", "Bar", "Baz", "Item", "Color", "Status", "Base", "Req", "Rsp", "Node", "Pair", "Kind", "Mode", "Err", "base", "common", "shared", "types", "x", "svc"}
	aliasNames = []string{"T0", "T1", "T2", "T3", "T4", "T5", "T6", "T7", "Alias", "ID", "Name", "Str", "Color", "Kind", "Mode"}
	valueNames = []string{"RED", "GREEN", "BLUE", "ON", "OFF", "V0", "V1", "V2", "UNKNOWN"}
	constNames = []string{"kA", "kB", "kC", "kD", "kE", "kF", "MAX", "MIN", "DEFAULT"}
	svcNames   = []string{"Svc", "Api", "BaseSvc", "Admin", "Echo", "svc", "base"}
	fieldNames = []string{"a", "b", "c", "d", "e", "f", "g", "h"}
	baseTypes  = []string{"bool", "byte", "i8", "i16", "i32", "i64", "double", "string", "binary"}
	chainLens  = []int{1, 2, 3, 4, 5, 6, 9, 12, 17, 33}
)

func (g *gen) reindex() { g.ix = buildIndex(g.p) }

func (g *gen) freshName(file int, pool []string) string {
	for try := 0; try < 20; try++ {
		n := g.r.Pick(pool)
		if g.ix.lookup(file, n) == nil {
			return n
		}
	}
	for i := 0; ; i++ {
		n := fmt.Sprintf("%s_%d", g.r.Pick(pool), i)
		if g.ix.lookup(file, n) == nil {
			return n
		}
	}
}

type target struct {
	inc int // -1 local
	d   *defInfo
}

// visible lists what a name written in `file` can denote among the definitions accepted by
// `filter`: local definitions and, per include, the definitions of the included file that the
// qualified name really reaches (first include with that prefix defining the name with a kind
// acceptable to `rule`: type-like for type names, service for base services).
func (g *gen) visible(file int, rule, filter func(*defInfo) bool) []target {
	var out []target
	for _, d := range g.ix.defs[file] {
		if rule(d) && filter(d) {
			out = append(out, target{-1, d})
		}
	}
	f := g.p.Files[file]
	for k, inc := range f.Includes {
		for _, d := range g.ix.defs[inc.Target] {
			if !rule(d) || !filter(d) {
				continue
			}
			if g.ix.firstInc(file, idlPrefixOf(inc.Path), d.Name, rule) != k {
				continue // the qualified name reaches an earlier include: listed there
			}
			out = append(out, target{k, d})
		}
	}
	// map iteration order is random: sort for determinism
	sortTargets(out)
	return out
}

func anyDef(*defInfo) bool      { return true }
func isService(d *defInfo) bool { return d.Kind == "service" }

func sortTargets(ts []target) {
	for i := 1; i < len(ts); i++ {
		for j := i; j > 0; j-- {
			a, b := ts[j-1], ts[j]
			if a.inc < b.inc || (a.inc == b.inc && a.d.Name <= b.d.Name) {
				break
			}
			ts[j-1], ts[j] = b, a
		}
	}
}

func (g *gen) nameOf(file int, t target) string {
	if t.inc < 0 {
		return t.d.Name
	}
	return idlPrefixOf(g.p.Files[file].Includes[t.inc].Path) + "." + t.d.Name
}

func (g *gen) refTo(file int, t target) *TypeX {
	return &TypeX{K: "n", Name: g.nameOf(file, t), TFile: t.d.File, TName: t.d.Name, Inc: t.inc}
}

func baseType(n string) *TypeX { return &TypeX{K: "n", Name: n, TFile: -1, Inc: -1} }

func (g *gen) genType(file, depth int, ok func(*defInfo) bool) *TypeX {
	c := g.r.Intn(100)
	vis := g.visible(file, typeLike, ok)
	switch {
	case c < 30 || (len(vis) == 0 && c >= 50):
		return baseType(g.r.Pick(baseTypes))
	case c < 50 && depth < 3:
		switch g.r.Intn(3) {
		case 0:
			return &TypeX{K: "l", Val: g.genType(file, depth+1, ok), Inc: -1, TFile: -1}
		case 1:
			return &TypeX{K: "s", Val: g.genType(file, depth+1, ok), Inc: -1, TFile: -1}
		default:
			return &TypeX{K: "m", Key: g.genType(file, depth+1, ok), Val: g.genType(file, depth+1, ok), Inc: -1, TFile: -1}
		}
	case len(vis) > 0:
		// prefer typedefs and cross-file targets a little
		t := vis[g.r.Intn(len(vis))]
		for try := 0; try < 2 && t.d.Kind != "typedef" && t.inc < 0; try++ {
			t = vis[g.r.Intn(len(vis))]
		}
		return g.refTo(file, t)
	}
	return baseType(g.r.Pick(baseTypes))
}

func (g *gen) genFields(file, n int, withDefaults bool) []*Field {
	var fs []*Field
	id := 0
	for i := 0; i < n; i++ {
		id += 1 + g.r.Intn(3)
		f := &Field{ID: id, Name: fieldNames[i%len(fieldNames)] + fmt.Sprint(i), Type: g.genType(file, 0, typeLike)}
		if withDefaults && g.r.Chance(30) {
			f.Default = g.genCV(file, 0, "")
		}
		fs = append(fs, f)
	}
	return fs
}

// genIdent picks what an identifier should denote, writes it and checks that, read as the
// property reads identifiers, it denotes exactly that.
func (g *gen) genIdent(file int, self string) *CV {
	for try := 0; try < 6; try++ {
		var id string
		var want Extra
		f := g.p.Files[file]
		switch g.r.Intn(6) {
		case 0: // local constant
			var loc []target
			for _, d := range g.ix.defs[file] {
				if d.Kind == "const" && d.Name != self {
					loc = append(loc, target{-1, d})
				}
			}
			sortTargets(loc)
			if len(loc) == 0 {
				continue
			}
			t := loc[g.r.Intn(len(loc))]
			id, want = t.d.Name, Extra{false, -1, t.d.Name, ""}
		case 1, 2: // local enum or typedef'd enum
			var cs []string
			for n, d := range g.ix.defs[file] {
				if d.Kind == "enum" || d.Kind == "typedef" {
					if e, _ := g.ix.enumOf(file, n, 0); e != nil && len(e.Values) > 0 {
						cs = append(cs, n)
					}
				}
			}
			if len(cs) == 0 {
				continue
			}
			sortStrings(cs)
			n := cs[g.r.Intn(len(cs))]
			e, idx := g.ix.enumOf(file, n, 0)
			v := e.Values[g.r.Intn(len(e.Values))].Name
			id, want = n+"."+v, Extra{true, idx, v, n}
		case 3: // include.constant
			if len(f.Includes) == 0 {
				continue
			}
			k := g.r.Intn(len(f.Includes))
			var cs []string
			for n, d := range g.ix.defs[f.Includes[k].Target] {
				if d.Kind == "const" {
					cs = append(cs, n)
				}
			}
			if len(cs) == 0 {
				continue
			}
			sortStrings(cs)
			n := cs[g.r.Intn(len(cs))]
			pfx := idlPrefixOf(f.Includes[k].Path)
			id, want = pfx+"."+n, Extra{false, k, n, pfx}
		default: // include.enum.value, include.typedefdEnum.value
			if len(f.Includes) == 0 {
				continue
			}
			k := g.r.Intn(len(f.Includes))
			tf := f.Includes[k].Target
			var cs []string
			for n, d := range g.ix.defs[tf] {
				if d.Kind == "enum" || d.Kind == "typedef" {
					if e, _ := g.ix.enumOf(tf, n, 0); e != nil && len(e.Values) > 0 {
						cs = append(cs, n)
					}
				}
			}
			if len(cs) == 0 {
				continue
			}
			sortStrings(cs)
			n := cs[g.r.Intn(len(cs))]
			e, _ := g.ix.enumOf(tf, n, 0)
			v := e.Values[g.r.Intn(len(e.Values))].Name
			pfx := idlPrefixOf(f.Includes[k].Path)
			id, want = pfx+"."+n+"."+v, Extra{true, k, v, n}
		}
		cs := g.ix.cands(file, id)
		if len(cs) == 1 && cs[0] == want {
			w := want
			return &CV{K: "x", Str: id, Want: &w}
		}
	}
	return nil
}

func sortStrings(ss []string) {
	for i := 1; i < len(ss); i++ {
		for j := i; j > 0 && ss[j-1] > ss[j]; j-- {
			ss[j-1], ss[j] = ss[j], ss[j-1]
		}
	}
}

func (g *gen) genCV(file, depth int, self string) *CV {
	c := g.r.Intn(100)
	switch {
	case c < 15:
		return &CV{K: "i", Int: int64(g.r.Intn(200)) - 50}
	case c < 22:
		return &CV{K: "t", Str: g.r.Pick([]string{"", "hello", "a.b", "RED", "kA"})}
	case c < 26:
		return &CV{K: "d", Str: g.r.Pick([]string{"1.5", "-0.25", "3.0"})}
	case c < 31:
		return &CV{K: "x", Str: g.r.Pick([]string{"true", "false"})}
	case c < 40 && depth < 2:
		n := g.r.Intn(4)
		cv := &CV{K: "L"}
		for i := 0; i < n; i++ {
			cv.Items = append(cv.Items, g.genCV(file, depth+1, self))
		}
		return cv
	case c < 48 && depth < 2:
		n := g.r.Intn(3)
		cv := &CV{K: "M"}
		for i := 0; i < 2*n; i++ {
			cv.Items = append(cv.Items, g.genCV(file, depth+1, self))
		}
		return cv
	}
	if cv := g.genIdent(file, self); cv != nil {
		return cv
	}
	return &CV{K: "i", Int: int64(g.r.Intn(10))}
}

func (g *gen) genFile(fi int) {
	f := g.p.Files[fi]
	r := g.r
	tpool, cpool := typeNames, constNames
	if g.collide {
		cpool = append(append([]string{}, constNames...), "RED", "ON", "V0")
	}
	// 1. enums and struct-like names
	for i, n := 0, r.Intn(3); i < n; i++ {
		e := &Enum{Name: g.freshName(fi, tpool)}
		used := map[string]bool{}
		for j, m := 0, 1+r.Intn(4); j < m; j++ {
			v := r.Pick(valueNames)
			if used[v] {
				continue
			}
			used[v] = true
			e.Values = append(e.Values, EnumVal{v, int64(len(e.Values)) + int64(r.Intn(2))*10*int64(len(e.Values))})
		}
		// distinct numbers
		for j := range e.Values {
			e.Values[j].Value = int64(j * 3)
		}
		f.Enums = append(f.Enums, e)
		g.reindex()
	}
	for i, n := 0, r.Intn(4); i < n; i++ {
		f.Structs = append(f.Structs, &StructLike{Name: g.freshName(fi, tpool)})
		g.reindex()
	}
	if r.Chance(30) {
		f.Unions = append(f.Unions, &StructLike{Name: g.freshName(fi, tpool)})
		g.reindex()
	}
	if r.Chance(40) {
		f.Exceptions = append(f.Exceptions, &StructLike{Name: g.freshName(fi, tpool)})
		g.reindex()
	}
	// 2. typedefs, one after the other, each over what exists already (no cycles)
	ntd := r.Intn(4)
	for i := 0; i < ntd; i++ {
		f.Typedefs = append(f.Typedefs, &Typedef{Alias: g.freshName(fi, aliasNames), Type: g.genType(fi, 0, typeLike)})
		g.reindex()
	}
	// a chain of typedefs: every link names the previous one; the lengths go well beyond any small
	// constant, and the links are written bottom-up, top-down or shuffled (ResolveTypedefs needs one
	// pass per link when the aliases come first)
	chainTop := ""
	if r.Chance(35) {
		n := chainLens[r.Intn(len(chainLens))]
		if n > g.maxChain {
			n = g.maxChain
		}
		start := len(f.Typedefs)
		for i := 0; i < n; i++ {
			alias := g.freshName(fi, []string{fmt.Sprintf("L%d", i), fmt.Sprintf("T%d", i)})
			var t *TypeX
			if i > 0 {
				prev := f.Typedefs[len(f.Typedefs)-1]
				t = g.refTo(fi, target{-1, g.ix.lookup(fi, prev.Alias)})
			} else {
				// chain start: prefer a typedef or an enum of an include, or a local enum
				vis := g.visible(fi, typeLike, func(d *defInfo) bool { return d.Kind == "typedef" || d.Kind == "enum" })
				if len(vis) > 0 && r.Chance(70) {
					t = g.refTo(fi, vis[r.Intn(len(vis))])
				} else {
					t = g.genType(fi, 0, typeLike)
				}
			}
			f.Typedefs = append(f.Typedefs, &Typedef{Alias: alias, Type: t})
			g.reindex()
			chainTop = alias
		}
		seg := f.Typedefs[start:]
		switch r.Intn(3) {
		case 0: // bottom-up: as created
			g.p.Shape2 = "chain-bottom-up"
		case 1: // top-down: aliases first
			reverse(seg)
			g.p.Shape2 = "chain-top-down"
		default:
			shuffle(r, seg)
			g.p.Shape2 = "chain-shuffled"
		}
		if n > g.p.MaxChain {
			g.p.MaxChain = n
		}
	}
	f.chainTop = chainTop
	// 3. constant names first (values may refer forward)
	ncs := r.Intn(5)
	for i := 0; i < ncs; i++ {
		f.Constants = append(f.Constants, &Constant{Name: g.freshName(fi, cpool), Type: baseType("i32"), Value: &CV{K: "i"}})
		g.reindex()
	}
	for _, c := range f.Constants {
		c.Value = g.genCV(fi, 0, c.Name)
		switch c.Value.K {
		case "t":
			c.Type = baseType("string")
		case "d":
			c.Type = baseType("double")
		case "L":
			c.Type = &TypeX{K: "l", Val: baseType("i32"), Inc: -1, TFile: -1}
		case "M":
			c.Type = &TypeX{K: "m", Key: baseType("i32"), Val: baseType("i32"), Inc: -1, TFile: -1}
		default:
			if r.Chance(40) {
				c.Type = g.genType(fi, 1, typeLike)
			}
		}
	}
	// 4. fields
	for _, s := range f.Structs {
		s.Fields = g.genFields(fi, r.Intn(5), true)
	}
	for _, s := range f.Unions {
		s.Fields = g.genFields(fi, 1+r.Intn(3), false)
	}
	for _, s := range f.Exceptions {
		s.Fields = g.genFields(fi, r.Intn(3), true)
	}
	// 5. services
	for i, n := 0, r.Intn(3); i < n; i++ {
		// services are often called like types of other files: a qualified type name must skip a
		// service (or constant) of that name in an earlier include with the same prefix
		spool := svcNames
		if r.Chance(40) {
			spool = typeNames
		}
		s := &Service{Name: g.freshName(fi, spool), ExtInc: -1}
		if r.Chance(60) {
			vis := g.visible(fi, isService, anyDef)
			if len(vis) > 0 {
				t := vis[r.Intn(len(vis))]
				s.Extends, s.ExtInc = g.nameOf(fi, t), t.inc
			}
		}
		for j, m := 0, r.Intn(4); j < m; j++ {
			fn := &Function{Name: fmt.Sprintf("m%d", j)}
			if r.Chance(70) {
				fn.Ret = g.genType(fi, 0, typeLike)
			} else if r.Chance(30) {
				fn.Oneway = true
			}
			fn.Args = g.genFields(fi, r.Intn(3), true)
			if !fn.Oneway && r.Chance(40) {
				vis := g.visible(fi, typeLike, func(d *defInfo) bool { return d.Kind == "exception" })
				if len(vis) > 0 {
					fn.Throws = []*Field{{ID: 1, Name: "ex", Type: g.refTo(fi, vis[r.Intn(len(vis))])}}
					if r.Chance(25) {
						fn.Throws[0].Default = g.genCV(fi, 1, "")
					}
				}
			}
			s.Functions = append(s.Functions, fn)
		}
		f.Services = append(f.Services, s)
		g.reindex()
	}
	// 6. the end of the chain is used: field, container, constant type, function signature
	if f.chainTop != "" {
		top := func() *TypeX { return g.refTo(fi, target{-1, g.ix.lookup(fi, f.chainTop)}) }
		st := &StructLike{Name: g.freshName(fi, []string{"ChainUser"})}
		st.Fields = []*Field{{ID: 1, Name: "a", Type: top()},
			{ID: 2, Name: "b", Type: &TypeX{K: "l", Val: top(), Inc: -1, TFile: -1}},
			{ID: 3, Name: "c", Type: &TypeX{K: "m", Key: baseType("string"), Val: &TypeX{K: "s", Val: top(), Inc: -1, TFile: -1}, Inc: -1, TFile: -1}}}
		f.Structs = append(f.Structs, st)
		g.reindex()
		f.Constants = append(f.Constants, &Constant{Name: g.freshName(fi, []string{"kChain"}), Type: top(), Value: &CV{K: "i", Int: 1}})
		g.reindex()
		if e, idx := g.ix.enumOf(fi, f.chainTop, 0); e != nil && len(e.Values) > 0 {
			id := f.chainTop + "." + e.Values[0].Name
			if cs := g.ix.cands(fi, id); len(cs) == 1 {
				w := Extra{true, idx, e.Values[0].Name, f.chainTop}
				if cs[0] == w {
					f.Constants = append(f.Constants, &Constant{Name: g.freshName(fi, []string{"kChainVal"}), Type: top(), Value: &CV{K: "x", Str: id, Want: &w}})
					g.reindex()
				}
			}
		}
		f.Services = append(f.Services, &Service{Name: g.freshName(fi, []string{"ChainSvc"}), ExtInc: -1,
			Functions: []*Function{{Name: "m", Ret: top(), Args: []*Field{{ID: 1, Name: "a", Type: top()},
				{ID: 2, Name: "b", Type: &TypeX{K: "l", Val: top(), Inc: -1, TFile: -1}}}}}})
		g.reindex()
	}
}

func (g *gen) genProgram() *Prog {
	r := g.r
	p := &Prog{Expect: "ok", Shape: "valid", ISeed: r.U64()}
	g.p = p
	g.collide = r.Chance(20)
	n := 1 + r.Intn(g.maxFiles)
	if r.Chance(15) {
		n = 1
	}
	paths := map[string]bool{}
	for i := 0; i < n; i++ {
		var path string
		for {
			path = r.Pick(fileDirs) + r.Pick(fileBases) + ".thrift"
			if i == n-1 && r.Chance(50) {
				path = "main.thrift"
			}
			if !paths[path] {
				break
			}
		}
		paths[path] = true
		p.Files = append(p.Files, &File{Path: path})
	}
	p.Root = n - 1
	// includes: a DAG over earlier files, everything reachable from the root
	included := make([]bool, n)
	for j := 1; j < n; j++ {
		m := r.Intn(4)
		if m > j {
			m = j
		}
		if j == n-1 && m == 0 {
			m = 1
		}
		seen := map[int]bool{}
		for len(seen) < m {
			t := r.Intn(j)
			if r.Chance(40) {
				t = j - 1 - r.Intn(imin(j, 2)) // bias to recent files: long include chains
			}
			if seen[t] && !r.Chance(10) {
				continue
			}
			seen[t] = true
			p.Files[j].Includes = append(p.Files[j].Includes, Inc{Path: p.Files[t].Path, Target: t})
			included[t] = true
		}
	}
	for t := n - 2; t >= 0; t-- {
		if !included[t] {
			j := t + 1 + r.Intn(n-1-t)
			p.Files[j].Includes = append(p.Files[j].Includes, Inc{Path: p.Files[t].Path, Target: t})
			included[t] = true
		}
	}
	// paths relative to the includer's directory where that is unambiguous
	for _, f := range p.Files {
		dir := ""
		if i := strings.LastIndex(f.Path, "/"); i >= 0 {
			dir = f.Path[:i+1]
		}
		for k := range f.Includes {
			tp := p.Files[f.Includes[k].Target].Path
			if dir != "" && strings.HasPrefix(tp, dir) && !paths[tp[len(dir):]] && r.Chance(50) {
				f.Includes[k].Path = tp[len(dir):]
			}
		}
	}
	// the parser drops an include whose path literal repeats an earlier one
	for _, f := range p.Files {
		var keep []Inc
		seen := map[string]bool{}
		for _, inc := range f.Includes {
			if !seen[inc.Path] {
				seen[inc.Path] = true
				keep = append(keep, inc)
			}
		}
		f.Includes = keep
	}
	g.reindex()
	for i := 0; i < n; i++ {
		g.genFile(i)
	}
	return p
}

// ---------------------------------------------------------------- injected faults

func (g *gen) someFile() int { return g.r.Intn(len(g.p.Files)) }

func (g *gen) addField(fi int, t *TypeX, d *CV) {
	f := g.p.Files[fi]
	if len(f.Structs) == 0 {
		f.Structs = append(f.Structs, &StructLike{Name: g.freshName(fi, []string{"Holder", "Box"})})
	}
	s := f.Structs[g.r.Intn(len(f.Structs))]
	id := 100 + len(s.Fields)
	s.Fields = append(s.Fields, &Field{ID: id, Name: fmt.Sprintf("zz%d", id), Type: t, Default: d})
	g.reindex()
}

func (g *gen) addConst(fi int, v *CV) {
	f := g.p.Files[fi]
	f.Constants = append(f.Constants, &Constant{Name: g.freshName(fi, []string{"kZ", "kY", "kX"}), Type: baseType("i32"), Value: v})
	g.reindex()
}

func (g *gen) addLeaf(path string, fill func(f *File)) int {
	f := &File{Path: path}
	fill(f)
	g.p.Files = append(g.p.Files, f)
	g.reindex()
	return len(g.p.Files) - 1
}

func bad(name string) *TypeX { return &TypeX{K: "n", Name: name, TFile: -2, Inc: -1} }
func badID(id string) *CV    { return &CV{K: "x", Str: id} }

// inject turns the valid program g.p into one with exactly one fault and sets Expect.
func (g *gen) inject() {
	r := g.r
	p := g.p
	fi := g.someFile()
	f := p.Files[fi]
	pfxOf := func(k int) string { return idlPrefixOf(f.Includes[k].Path) }
	switch r.Intn(12) {
	case 0: // undefined local type
		g.addField(fi, bad("Nope"), nil)
		p.Expect, p.Shape = "undeftype", "err:undef-local-type"
	case 1: // undefined qualified type
		name := "nopfx.Foo"
		if len(f.Includes) > 0 && r.Bool() {
			name = pfxOf(r.Intn(len(f.Includes))) + ".Nope"
		}
		t := bad(name)
		if r.Bool() {
			t = &TypeX{K: "l", Val: t, Inc: -1, TFile: -1}
		}
		if r.Bool() {
			f.Typedefs = append(f.Typedefs, &Typedef{Alias: g.freshName(fi, []string{"TBad"}), Type: t})
			g.reindex()
		} else {
			g.addField(fi, t, nil)
		}
		p.Expect, p.Shape = "undeftype", "err:undef-qualified-type"
	case 2: // a constant or a service used as a type
		var names []string
		for n, d := range g.ix.defs[fi] {
			if d.Kind == "const" || d.Kind == "service" {
				names = append(names, n)
			}
		}
		if len(names) == 0 {
			g.addConst(fi, &CV{K: "i", Int: 1})
			names = []string{f.Constants[len(f.Constants)-1].Name}
		}
		sortStrings(names)
		g.addField(fi, bad(names[r.Intn(len(names))]), nil)
		p.Expect, p.Shape = "badcat", "err:non-type-as-type"
	case 3: // qualified name of a constant used as a type
		li := g.addLeaf("q/qc.thrift", func(nf *File) {
			nf.Constants = []*Constant{{Name: "kQ", Type: baseType("i32"), Value: &CV{K: "i", Int: 1}}}
		})
		f.Includes = append(f.Includes, Inc{Path: "q/qc.thrift", Target: li})
		g.addField(fi, bad("qc.kQ"), nil)
		p.Expect, p.Shape = "undeftype", "err:qualified-const-as-type"
	case 4, 5: // typedef cycle (length 1..3), possibly used by a field; never through a dotted constant
		n := 1 + r.Intn(3)
		var al []string
		for i := 0; i < n; i++ {
			al = append(al, g.freshName(fi, []string{fmt.Sprintf("Cy%d", i)}))
			f.Typedefs = append(f.Typedefs, &Typedef{Alias: al[i], Type: bad("?")})
			g.reindex()
		}
		for i := 0; i < n; i++ {
			f.Typedefs[len(f.Typedefs)-n+i].Type = bad(al[(i+1)%n])
		}
		if r.Bool() {
			g.addField(fi, bad(al[0]), nil)
		}
		p.Expect, p.Shape = "tdcycle", fmt.Sprintf("err:typedef-cycle-%d", n)
	case 6: // ambiguous: local enum E with value V, include whose prefix is E with constant V
		e := &Enum{Name: g.freshName(fi, []string{"Amb", "Dual"}), Values: []EnumVal{{"ONE", 1}, {"TWO", 2}}}
		f.Enums = append(f.Enums, e)
		li := g.addLeaf("amb/"+e.Name+".thrift", func(nf *File) {
			nf.Constants = []*Constant{{Name: "ONE", Type: baseType("i32"), Value: &CV{K: "i", Int: 1}}}
		})
		f.Includes = append(f.Includes, Inc{Path: "amb/" + e.Name + ".thrift", Target: li})
		g.addConst(fi, badID(e.Name+".ONE"))
		p.Expect, p.Shape = "ambiguous", "err:ambiguous-enum-vs-include-const"
	case 7: // ambiguous: two includes with the same prefix, both define the constant / the enum value
		mk := func(nf *File) {
			nf.Constants = []*Constant{{Name: "kDup", Type: baseType("i32"), Value: &CV{K: "i", Int: 1}}}
			nf.Enums = []*Enum{{Name: "EDup", Values: []EnumVal{{"A", 0}}}}
		}
		l1 := g.addLeaf("p1/dup.thrift", mk)
		l2 := g.addLeaf("p2/dup.thrift", mk)
		f.Includes = append(f.Includes, Inc{Path: "p1/dup.thrift", Target: l1}, Inc{Path: "p2/dup.thrift", Target: l2})
		if r.Bool() {
			g.addConst(fi, badID("dup.kDup"))
		} else {
			g.addConst(fi, badID("dup.EDup.A"))
		}
		p.Expect, p.Shape = "ambiguous", "err:ambiguous-same-prefix"
	case 8: // undefined value
		ids := []string{"kNope", "Nope.V", "nopfx.kA", "nopfx.E.V", "a.b.c.d"}
		for n, d := range g.ix.defs[fi] {
			if d.Kind == "enum" {
				ids = append(ids, n+".NOPE")
			}
		}
		for k := range f.Includes {
			ids = append(ids, pfxOf(k)+".kNope", pfxOf(k)+".Nope.V")
		}
		sortStrings(ids)
		id := ids[r.Intn(len(ids))]
		if len(g.ix.cands(fi, id)) != 0 {
			id = "kNope"
		}
		if r.Bool() {
			g.addConst(fi, badID(id))
		} else {
			g.addField(fi, baseType("i32"), badID(id))
		}
		p.Expect, p.Shape = "undefvalue", "err:undefined-value"
	case 9: // an enum named like another definition (CheckGlobals does not look at enums)
		var names []string
		for n := range g.ix.defs[fi] {
			names = append(names, n)
		}
		if len(names) == 0 {
			f.Structs = append(f.Structs, &StructLike{Name: "Twice"})
			names = []string{"Twice"}
		}
		sortStrings(names)
		f.Enums = append(f.Enums, &Enum{Name: names[r.Intn(len(names))], Values: []EnumVal{{"Z", 0}}})
		p.Expect, p.Shape = "multidef", "err:enum-duplicates-name"
	case 10: // base service missing
		ext := "NoSvc"
		switch {
		case len(f.Includes) > 0 && r.Bool():
			ext = pfxOf(r.Intn(len(f.Includes))) + ".NoSvc"
		case len(f.Structs) > 0 && r.Bool():
			ext = f.Structs[0].Name
		}
		f.Services = append(f.Services, &Service{Name: g.freshName(fi, []string{"Orphan"}), Extends: ext, ExtInc: -1})
		g.reindex()
		p.Expect, p.Shape = "basesvc", "err:base-service-missing"
	default: // typedef cycle reached through a dotted constant identifier (once a fatal recursion in getEnum)
		n := 1 + r.Intn(2)
		var al []string
		for i := 0; i < n; i++ {
			al = append(al, g.freshName(fi, []string{fmt.Sprintf("Loop%d", i)}))
			f.Typedefs = append(f.Typedefs, &Typedef{Alias: al[i], Type: bad("?")})
			g.reindex()
		}
		for i := 0; i < n; i++ {
			f.Typedefs[len(f.Typedefs)-n+i].Type = bad(al[(i+1)%n])
		}
		switch r.Intn(3) {
		case 0:
			g.addConst(fi, badID(al[0]+".X"))
		case 1:
			g.addField(fi, baseType("i32"), badID(al[0]+".X"))
		default:
			f.Services = append(f.Services, &Service{Name: g.freshName(fi, []string{"LoopSvc"}), ExtInc: -1,
				Functions: []*Function{{Name: "m", Args: []*Field{{ID: 1, Name: "a", Type: baseType("i32"), Default: badID(al[0] + ".X")}}}}})
			g.reindex()
		}
		p.Expect, p.Shape = "undefvalue", "err:typedef-cycle-through-dotted-constant"
	}
	g.reindex()
}

// ---------------------------------------------------------------- variants

func clone(p *Prog) *Prog {
	b, err := json.Marshal(p)
	if err != nil {
		panic(err)
	}
	var q Prog
	if err := json.Unmarshal(b, &q); err != nil {
		panic(err)
	}
	return &q
}

func shuffle[T any](r *vl.Rng, xs []T) {
	for i := len(xs) - 1; i > 0; i-- {
		j := r.Intn(i + 1)
		xs[i], xs[j] = xs[j], xs[i]
	}
}

func reverse[T any](xs []T) {
	for i, j := 0, len(xs)-1; i < j; i, j = i+1, j-1 {
		xs[i], xs[j] = xs[j], xs[i]
	}
}

// permuted returns the same program with the definitions of every file in another order.
func permuted(p *Prog, r *vl.Rng) *Prog {
	q := clone(p)
	for _, f := range q.Files {
		if r == nil {
			reverse(f.Typedefs)
			reverse(f.Constants)
			reverse(f.Enums)
			reverse(f.Structs)
			reverse(f.Unions)
			reverse(f.Exceptions)
			reverse(f.Services)
		} else {
			shuffle(r, f.Typedefs)
			shuffle(r, f.Constants)
			shuffle(r, f.Enums)
			shuffle(r, f.Structs)
			shuffle(r, f.Unions)
			shuffle(r, f.Exceptions)
			shuffle(r, f.Services)
		}
	}
	if r == nil {
		q.ISeed = p.ISeed ^ 0xabcdef
	} else {
		q.ISeed = r.U64()
	}
	return q
}

func imin(a, b int) int {
	if a < b {
		return a
	}
	return b
}
