package main

// Hand-written programs run on every seed.

func nameT(name string, tfile int, tname string, inc int) *TypeX {
	return &TypeX{K: "n", Name: name, TFile: tfile, TName: tname, Inc: inc}
}

func fixedCases() []*Prog {
	var out []*Prog
	// Regression (fixed in /repo by "getEnum terminates on cyclic typedefs and does not look up
	// include-qualified names locally"): definition names may contain dots.  `T` is the struct `b` of
	// a.thrift, so `T.X` names nothing; the old getEnum fell back to the local enum literally named
	// `a.b` and accepted the constant.
	out = append(out, &Prog{
		Root: 1, ISeed: 7, Expect: "undefvalue", Shape: "err:dotted-definition-name", Fixed: true,
		Files: []*File{
			{Path: "a.thrift", Structs: []*StructLike{{Name: "b"}}},
			{Path: "main.thrift", Includes: []Inc{{Path: "a.thrift", Target: 0}},
				Enums:     []*Enum{{Name: "a.b", Values: []EnumVal{{"X", 0}}}},
				Typedefs:  []*Typedef{{Alias: "T", Type: nameT("a.b", 0, "b", 0)}},
				Constants: []*Constant{{Name: "c", Type: baseType("i32"), Value: &CV{K: "x", Str: "T.X"}}}},
		}})
	// Regression (same commit): a typedef cycle reached through a dotted constant identifier used to
	// overflow the stack in getEnum.  Now: "undefined value" (constants are resolved before
	// ResolveTypedefs reports the cycle).
	out = append(out, &Prog{
		Root: 0, ISeed: 7, Expect: "undefvalue", Shape: "err:typedef-cycle-through-dotted-constant", Fixed: true,
		Files: []*File{
			{Path: "main.thrift",
				Typedefs:  []*Typedef{{Alias: "Loop0", Type: bad("Loop1")}, {Alias: "Loop1", Type: bad("Loop0")}},
				Constants: []*Constant{{Name: "k", Type: baseType("i32"), Value: &CV{K: "x", Str: "Loop0.X"}}}},
		}})
	// Regression (fixed in /repo 05813e1): a definition named like a type keyword.  `T` is list<i32>;
	// the old getEnum continued with the keyword `list` as a name and bound `T.X` to `enum list`.
	out = append(out, &Prog{
		Root: 0, ISeed: 7, Expect: "undefvalue", Shape: "err:keyword-named-enum-behind-container-typedef", Fixed: true,
		Files: []*File{
			{Path: "main.thrift",
				Enums:     []*Enum{{Name: "list", Values: []EnumVal{{"X", 0}}}},
				Typedefs:  []*Typedef{{Alias: "T", Type: &TypeX{K: "l", Val: baseType("i32"), Inc: -1, TFile: -1}}},
				Constants: []*Constant{{Name: "c", Type: baseType("i32"), Value: &CV{K: "x", Str: "T.X"}}}},
		}})
	// the same with a base type keyword
	out = append(out, &Prog{
		Root: 0, ISeed: 7, Expect: "undefvalue", Shape: "err:keyword-named-enum-behind-base-typedef", Fixed: true,
		Files: []*File{
			{Path: "main.thrift",
				Enums:     []*Enum{{Name: "i32", Values: []EnumVal{{"X", 0}}}},
				Typedefs:  []*Typedef{{Alias: "T", Type: baseType("i32")}},
				Constants: []*Constant{{Name: "c", Type: baseType("i64"), Value: &CV{K: "x", Str: "T.X"}}}},
		}})
	// the same shape without the dotted enum: correctly rejected
	out = append(out, &Prog{
		Root: 1, ISeed: 7, Expect: "undefvalue", Shape: "err:typedef-of-struct-used-as-enum", Fixed: true,
		Files: []*File{
			{Path: "a.thrift", Structs: []*StructLike{{Name: "b"}}},
			{Path: "main.thrift", Includes: []Inc{{Path: "a.thrift", Target: 0}},
				Typedefs:  []*Typedef{{Alias: "T", Type: nameT("a.b", 0, "b", 0)}},
				Constants: []*Constant{{Name: "c", Type: baseType("i32"), Value: &CV{K: "x", Str: "T.X"}}}},
		}})
	// dotted definition names that are harmless: resolved as written
	out = append(out, &Prog{
		Root: 0, ISeed: 7, Expect: "ok", Shape: "valid-dotted-local-name", Fixed: true,
		Files: []*File{
			{Path: "main.thrift",
				Enums:    []*Enum{{Name: "E", Values: []EnumVal{{"X", 0}}}},
				Structs:  []*StructLike{{Name: "S", Fields: []*Field{{ID: 1, Name: "f", Type: nameT("E", 0, "E", -1)}}}},
				Typedefs: []*Typedef{{Alias: "T", Type: nameT("E", 0, "E", -1)}},
				Constants: []*Constant{{Name: "c", Type: nameT("T", 0, "T", -1),
					Value: &CV{K: "x", Str: "T.X", Want: &Extra{true, -1, "X", "T"}}}}},
		}})
	return out
}
