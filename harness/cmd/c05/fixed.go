package main

// Hand-written programs run on every seed.

func nameT(name string, tfile int, tname string, inc int) *TypeX {
	return &TypeX{K: "n", Name: name, TFile: tfile, TName: tname, Inc: inc}
}

func fixedCases() []*Prog {
	var out []*Prog
	// Definition names may contain dots.  `T` is the struct `b` of a.thrift, so `T.X` names nothing
	// (the property's reading of identifiers: no constant, no enum value); the implementation falls
	// back to the local enum literally named `a.b` and accepts the constant.
	out = append(out, &Prog{
		Root: 1, ISeed: 7, Expect: "undefvalue", Shape: "err:dotted-definition-name", Fixed: true,
		Files: []*File{
			{Path: "a.thrift", Structs: []*StructLike{{Name: "b"}}},
			{Path: "main.thrift", Includes: []Inc{{Path: "a.thrift", Target: 0}},
				Enums:     []*Enum{{Name: "a.b", Values: []EnumVal{{"X", 0}}}},
				Typedefs:  []*Typedef{{Alias: "T", Type: nameT("a.b", 0, "b", 0)}},
				Constants: []*Constant{{Name: "c", Type: baseType("i32"), Value: &CV{K: "x", Str: "T.X"}}}},
		}})
	// the same shape without the dotted enum: correctly rejected
	out = append(out, &Prog{
		Root: 1, ISeed: 7, Expect: "undefvalue", Shape: "err:typedef-of-struct-used-as-enum", Fixed: true,
		Files: []*File{
			{Path: "a.thrift", Structs: []*StructLike{{Name: "b"}}},
			{Path: "main.thrift", Includes: []Inc{{Path: "a.thrift", Target: 0}},
				Typedefs:  []*Typedef{{Alias: "T", Type: nameT("a.b", 0, "b", 0)}},
				Constants: []*Constant{{Name: "c", Type: baseType("i32"), Value: &CV{K: "x", Str: "T.X"}}}},
		}})
	// dotted definition names that are harmless: resolved as written
	out = append(out, &Prog{
		Root: 0, ISeed: 7, Expect: "ok", Shape: "valid-dotted-local-name", Fixed: true,
		Files: []*File{
			{Path: "main.thrift",
				Enums:    []*Enum{{Name: "E", Values: []EnumVal{{"X", 0}}}},
				Structs:  []*StructLike{{Name: "S", Fields: []*Field{{ID: 1, Name: "f", Type: nameT("E", 0, "E", -1)}}}},
				Typedefs: []*Typedef{{Alias: "T", Type: nameT("E", 0, "E", -1)}},
				Constants: []*Constant{{Name: "c", Type: nameT("T", 0, "T", -1),
					Value: &CV{K: "x", Str: "T.X", Want: &Extra{true, -1, "X", "T"}}}}},
		}})
	return out
}
