package main

import (
	"fmt"

	"verifharness/internal/vl"
)

// Hand-written programs run on every seed.

func nameT(name string, tfile int, tname string, inc int) *TypeX {
	return &TypeX{K: "n", Name: name, TFile: tfile, TName: tname, Inc: inc}
}

// chainDefs: typedefs <pfx>0 = <pfx>1, …, <pfx>(n-1) = end, in top-down order (aliases first).
func chainDefs(file int, pfx string, n int, end *TypeX) []*Typedef {
	var tds []*Typedef
	for i := 0; i < n; i++ {
		t := end
		if i < n-1 {
			nm := fmt.Sprintf("%s%d", pfx, i+1)
			t = nameT(nm, file, nm, -1)
		}
		tds = append(tds, &Typedef{Alias: fmt.Sprintf("%s%d", pfx, i), Type: t})
	}
	return tds
}

// chainUsers: the top of a chain in a field, in containers, as a constant's type, in a signature.
func chainUsers(f *File, file int, top string) {
	t := func() *TypeX { return nameT(top, file, top, -1) }
	f.Structs = append(f.Structs, &StructLike{Name: "User", Fields: []*Field{
		{ID: 1, Name: "a", Type: t()},
		{ID: 2, Name: "b", Type: &TypeX{K: "l", Val: t(), Inc: -1, TFile: -1}},
		{ID: 3, Name: "c", Type: &TypeX{K: "m", Key: baseType("string"), Val: &TypeX{K: "s", Val: t(), Inc: -1, TFile: -1}, Inc: -1, TFile: -1}}}})
	f.Constants = append(f.Constants, &Constant{Name: "kTop", Type: t(), Value: &CV{K: "i", Int: 1}})
	f.Services = append(f.Services, &Service{Name: "Svc", ExtInc: -1, Functions: []*Function{
		{Name: "m", Ret: t(), Args: []*Field{{ID: 1, Name: "a", Type: t()}, {ID: 2, Name: "b", Type: &TypeX{K: "l", Val: t(), Inc: -1, TFile: -1}}}}}})
}

// longChains: aimed at ResolveTypedefs' fixpoint: a chain written aliases-first needs one pass per
// link, so no bound on the number of passes is right.  Each program also runs reversed and permuted.
func longChains() []*Prog {
	var out []*Prog
	// 12 links top-down in one file, ending in a base type
	a := &File{Path: "main.thrift", Typedefs: chainDefs(0, "T", 12, baseType("i32"))}
	chainUsers(a, 0, "T0")
	out = append(out, &Prog{Root: 0, ISeed: 11, Expect: "ok", Shape: "valid-chain-12-top-down", Fixed: true, Files: []*File{a}})
	// 17 links top-down ending in a 9-link chain (top-down too) of an include, which ends in an enum
	inc := &File{Path: "d1/inc.thrift", Enums: []*Enum{{Name: "E", Values: []EnumVal{{"RED", 0}, {"BLUE", 3}}}},
		Typedefs: chainDefs(0, "U", 9, nameT("E", 0, "E", -1))}
	chainUsers(inc, 0, "U0")
	m := &File{Path: "main.thrift", Includes: []Inc{{Path: "d1/inc.thrift", Target: 0}},
		Typedefs: chainDefs(1, "T", 17, nameT("inc.U0", 0, "U0", 0))}
	chainUsers(m, 1, "T0")
	m.Constants = append(m.Constants,
		&Constant{Name: "kRed", Type: nameT("T0", 1, "T0", -1), Value: &CV{K: "x", Str: "T0.RED", Want: &Extra{true, 0, "RED", "T0"}}},
		&Constant{Name: "kBlue", Type: nameT("T9", 1, "T9", -1), Value: &CV{K: "x", Str: "inc.U3.BLUE", Want: &Extra{true, 0, "BLUE", "U3"}}})
	out = append(out, &Prog{Root: 1, ISeed: 12, Expect: "ok", Shape: "valid-chain-17+9-cross-file", Fixed: true, Files: []*File{inc, m}})
	// 33 links in a fixed scrambled order, ending in a struct
	c := &File{Path: "main.thrift", Structs: []*StructLike{{Name: "End"}}, Typedefs: chainDefs(0, "L", 33, nameT("End", 0, "End", -1))}
	shuffle(vl.NewRng(33), c.Typedefs)
	chainUsers(c, 0, "L0")
	out = append(out, &Prog{Root: 0, ISeed: 13, Expect: "ok", Shape: "valid-chain-33-scrambled", Fixed: true, Files: []*File{c}})
	return out
}

// shadowed: two includes with the same IDL prefix; the first defines `Echo` and `Stamp` as a service
// and a constant, the second as a struct and a typedef.  As a type, `common.Echo` / `common.Stamp`
// is the struct / typedef of the second include; as a base service `common.Echo` is the service of
// the first; as a value `common.Stamp` is the constant of the first.
func shadowed() *Prog {
	first := &File{Path: "d1/common.thrift",
		Services:  []*Service{{Name: "Echo", ExtInc: -1}},
		Constants: []*Constant{{Name: "Stamp", Type: baseType("i32"), Value: &CV{K: "i", Int: 7}}}}
	second := &File{Path: "d2/common.thrift",
		Structs:  []*StructLike{{Name: "Echo"}},
		Typedefs: []*Typedef{{Alias: "Stamp", Type: baseType("i64")}}}
	m := &File{Path: "main.thrift",
		Includes: []Inc{{Path: "d1/common.thrift", Target: 0}, {Path: "d2/common.thrift", Target: 1}},
		Structs: []*StructLike{{Name: "S", Fields: []*Field{
			{ID: 1, Name: "a", Type: nameT("common.Echo", 1, "Echo", 1)},
			{ID: 2, Name: "b", Type: &TypeX{K: "l", Val: nameT("common.Stamp", 1, "Stamp", 1), Inc: -1, TFile: -1},
				Default: nil},
			{ID: 3, Name: "c", Type: baseType("i32"), Default: &CV{K: "x", Str: "common.Stamp", Want: &Extra{false, 0, "Stamp", "common"}}}}}},
		Typedefs: []*Typedef{{Alias: "T", Type: nameT("common.Stamp", 1, "Stamp", 1)}},
		Services: []*Service{{Name: "Sub", Extends: "common.Echo", ExtInc: 0,
			Functions: []*Function{{Name: "m", Ret: nameT("common.Echo", 1, "Echo", 1), Args: []*Field{{ID: 1, Name: "a", Type: nameT("T", 2, "T", -1)}}}}}}}
	return &Prog{Root: 2, ISeed: 21, Expect: "ok", Shape: "valid-type-name-skips-service-and-constant", Fixed: true,
		Files: []*File{first, second, m}}
}

func fixedCases() []*Prog {
	out := append(longChains(), shadowed())
	// Regression (fixed in /repo by "getEnum terminates on cyclic typedefs and does not look up
	// include-qualified names locally"): definition names may contain dots.  `T` is the struct `b` of
	// a.thrift, so `T.X` names nothing; the old getEnum fell back to the local enum literally named
	// `a.b` and accepted the constant.
	out = append(out, &Prog{
		Root: 1, ISeed: 7, Expect: "undefvalue", Shape: "err:dotted-definition-name", Fixed: true,
		Files: []*File{
			{Path: "a.thrift", Structs: []*StructLike{{Name: "b"}}},
			{Path: "main.thrift", Includes: []Inc{{Path: "a.thrift", Target: 0}},
				Enums:     []*Enum{{Name: "a.b", Values: []EnumVal{{"X", 0}}}},
				Typedefs:  []*Typedef{{Alias: "T", Type: nameT("a.b", 0, "b", 0)}},
				Constants: []*Constant{{Name: "c", Type: baseType("i32"), Value: &CV{K: "x", Str: "T.X"}}}},
		}})
	// Regression (same commit): a typedef cycle reached through a dotted constant identifier used to
	// overflow the stack in getEnum.  Now: "undefined value" (constants are resolved before
	// ResolveTypedefs reports the cycle).
	out = append(out, &Prog{
		Root: 0, ISeed: 7, Expect: "undefvalue", Shape: "err:typedef-cycle-through-dotted-constant", Fixed: true,
		Files: []*File{
			{Path: "main.thrift",
				Typedefs:  []*Typedef{{Alias: "Loop0", Type: bad("Loop1")}, {Alias: "Loop1", Type: bad("Loop0")}},
				Constants: []*Constant{{Name: "k", Type: baseType("i32"), Value: &CV{K: "x", Str: "Loop0.X"}}}},
		}})
	// Regression (fixed in /repo 05813e1): a definition named like a type keyword.  `T` is list<i32>;
	// the old getEnum continued with the keyword `list` as a name and bound `T.X` to `enum list`.
	out = append(out, &Prog{
		Root: 0, ISeed: 7, Expect: "undefvalue", Shape: "err:keyword-named-enum-behind-container-typedef", Fixed: true,
		Files: []*File{
			{Path: "main.thrift",
				Enums:     []*Enum{{Name: "list", Values: []EnumVal{{"X", 0}}}},
				Typedefs:  []*Typedef{{Alias: "T", Type: &TypeX{K: "l", Val: baseType("i32"), Inc: -1, TFile: -1}}},
				Constants: []*Constant{{Name: "c", Type: baseType("i32"), Value: &CV{K: "x", Str: "T.X"}}}},
		}})
	// the same with a base type keyword
	out = append(out, &Prog{
		Root: 0, ISeed: 7, Expect: "undefvalue", Shape: "err:keyword-named-enum-behind-base-typedef", Fixed: true,
		Files: []*File{
			{Path: "main.thrift",
				Enums:     []*Enum{{Name: "i32", Values: []EnumVal{{"X", 0}}}},
				Typedefs:  []*Typedef{{Alias: "T", Type: baseType("i32")}},
				Constants: []*Constant{{Name: "c", Type: baseType("i64"), Value: &CV{K: "x", Str: "T.X"}}}},
		}})
	// the same shape without the dotted enum: correctly rejected
	out = append(out, &Prog{
		Root: 1, ISeed: 7, Expect: "undefvalue", Shape: "err:typedef-of-struct-used-as-enum", Fixed: true,
		Files: []*File{
			{Path: "a.thrift", Structs: []*StructLike{{Name: "b"}}},
			{Path: "main.thrift", Includes: []Inc{{Path: "a.thrift", Target: 0}},
				Typedefs:  []*Typedef{{Alias: "T", Type: nameT("a.b", 0, "b", 0)}},
				Constants: []*Constant{{Name: "c", Type: baseType("i32"), Value: &CV{K: "x", Str: "T.X"}}}},
		}})
	// dotted definition names that are harmless: resolved as written
	out = append(out, &Prog{
		Root: 0, ISeed: 7, Expect: "ok", Shape: "valid-dotted-local-name", Fixed: true,
		Files: []*File{
			{Path: "main.thrift",
				Enums:    []*Enum{{Name: "E", Values: []EnumVal{{"X", 0}}}},
				Structs:  []*StructLike{{Name: "S", Fields: []*Field{{ID: 1, Name: "f", Type: nameT("E", 0, "E", -1)}}}},
				Typedefs: []*Typedef{{Alias: "T", Type: nameT("E", 0, "E", -1)}},
				Constants: []*Constant{{Name: "c", Type: nameT("T", 0, "T", -1),
					Value: &CV{K: "x", Str: "T.X", Want: &Extra{true, -1, "X", "T"}}}}},
		}})
	return out
}
