package main

// Program description shared by the generator, the IDL renderer, the VL encoder, the oracle and
// the replay files.  Every reference carries the generator's *intent* (which definition it was
// meant to denote), chosen before the name was written.

import (
	"fmt"
	"path/filepath"
	"sort"
	"strconv"
	"strings"

	"verifharness/internal/vl"
)

type TypeX struct {
	K    string `json:"k"`             // "n" name, "l" list, "s" set, "m" map
	Name string `json:"n,omitempty"`   // as written (K == "n")
	Key  *TypeX `json:"key,omitempty"` // map key
	Val  *TypeX `json:"val,omitempty"` // list/set element, map value
	// intent, K == "n": TFile < 0 = base type; otherwise definition TName of file TFile, written
	// through include Inc of the referring file (Inc < 0: local, unqualified)
	TFile int    `json:"tf"`
	TName string `json:"tn,omitempty"`
	Inc   int    `json:"inc"`
}

type Extra struct {
	IsEnum bool   `json:"e"`
	Index  int    `json:"i"`
	Name   string `json:"n"`
	Sel    string `json:"s"`
}

type CV struct {
	K     string `json:"k"` // i int, d double, t literal, x identifier, L list, M map (k0,v0,k1,v1,…)
	Int   int64  `json:"int,omitempty"`
	Str   string `json:"str,omitempty"`
	Items []*CV  `json:"items,omitempty"`
	Want  *Extra `json:"want,omitempty"` // intent of an identifier; nil for true/false
}

type Field struct {
	ID      int    `json:"id"`
	Name    string `json:"name"`
	Type    *TypeX `json:"type"`
	Default *CV    `json:"dflt,omitempty"`
}

type Typedef struct {
	Alias string `json:"alias"`
	Type  *TypeX `json:"type"`
}

type Constant struct {
	Name  string `json:"name"`
	Type  *TypeX `json:"type"`
	Value *CV    `json:"value"`
}

type EnumVal struct {
	Name  string `json:"name"`
	Value int64  `json:"value"`
}

type Enum struct {
	Name   string    `json:"name"`
	Values []EnumVal `json:"values"`
}

type StructLike struct {
	Name   string   `json:"name"`
	Fields []*Field `json:"fields"`
}

type Function struct {
	Name   string   `json:"name"`
	Oneway bool     `json:"oneway,omitempty"`
	Ret    *TypeX   `json:"ret,omitempty"` // nil = void
	Args   []*Field `json:"args,omitempty"`
	Throws []*Field `json:"throws,omitempty"`
}

type Service struct {
	Name      string      `json:"name"`
	Extends   string      `json:"extends,omitempty"`
	ExtInc    int         `json:"extinc"` // intent: include index of the base service, -1 local / none
	Functions []*Function `json:"functions,omitempty"`
}

type Inc struct {
	Path   string `json:"path"`
	Target int    `json:"target"`
}

type File struct {
	Path       string        `json:"path"`
	Includes   []Inc         `json:"includes,omitempty"`
	Typedefs   []*Typedef    `json:"typedefs,omitempty"`
	Constants  []*Constant   `json:"constants,omitempty"`
	Enums      []*Enum       `json:"enums,omitempty"`
	Structs    []*StructLike `json:"structs,omitempty"`
	Unions     []*StructLike `json:"unions,omitempty"`
	Exceptions []*StructLike `json:"exceptions,omitempty"`
	Services   []*Service    `json:"services,omitempty"`
	chainTop   string        // generator only: last alias of the typedef chain of this file
}

type Prog struct {
	Files    []*File `json:"files"`
	Root     int     `json:"root"`
	ISeed    uint64  `json:"iseed"`              // how definition kinds are interleaved in the rendered text
	Expect   string  `json:"expect"`             // "ok", or the error class the single injected fault must give
	Shape    string  `json:"shape"`              // generator's label
	Shape2   string  `json:"shape2,omitempty"`   // how the (last) typedef chain is written
	MaxChain int     `json:"maxchain,omitempty"` // longest generated chain
	Fixed    bool    `json:"fixed,omitempty"`    // hand-written case: reported as it is, not shrunk
	// Observe: a probe outside the property's hypotheses (definition named like a type keyword): the
	// oracle's verdict is recorded in the statistics, not raised as a failure.
	Observe bool `json:"observe,omitempty"`
}

// ---------------------------------------------------------------- IDL text

func (t *TypeX) idl() string {
	switch t.K {
	case "n":
		return t.Name
	case "l":
		return "list<" + t.Val.idl() + ">"
	case "s":
		return "set<" + t.Val.idl() + ">"
	case "m":
		return "map<" + t.Key.idl() + ", " + t.Val.idl() + ">"
	}
	panic("bad type kind " + t.K)
}

func (c *CV) idl() string {
	switch c.K {
	case "i":
		return strconv.FormatInt(c.Int, 10)
	case "d":
		return c.Str
	case "t":
		return "\"" + c.Str + "\""
	case "x":
		return c.Str
	case "L":
		var ss []string
		for _, it := range c.Items {
			ss = append(ss, it.idl())
		}
		return "[" + strings.Join(ss, ", ") + "]"
	case "M":
		var ss []string
		for i := 0; i+1 < len(c.Items); i += 2 {
			ss = append(ss, c.Items[i].idl()+": "+c.Items[i+1].idl())
		}
		return "{" + strings.Join(ss, ", ") + "}"
	}
	panic("bad const kind " + c.K)
}

func fieldIDL(f *Field) string {
	s := fmt.Sprintf("%d: %s %s", f.ID, f.Type.idl(), f.Name)
	if f.Default != nil {
		s += " = " + f.Default.idl()
	}
	return s
}

func structIDL(kw string, s *StructLike) string {
	var sb strings.Builder
	fmt.Fprintf(&sb, "%s %s {\n", kw, s.Name)
	for _, f := range s.Fields {
		sb.WriteString("  " + fieldIDL(f) + "\n")
	}
	sb.WriteString("}\n")
	return sb.String()
}

func (f *File) defTexts() [][]string {
	var tds, cs, es, ss, us, xs, svs []string
	for _, t := range f.Typedefs {
		tds = append(tds, fmt.Sprintf("typedef %s %s\n", t.Type.idl(), t.Alias))
	}
	for _, c := range f.Constants {
		cs = append(cs, fmt.Sprintf("const %s %s = %s\n", c.Type.idl(), c.Name, c.Value.idl()))
	}
	for _, e := range f.Enums {
		var sb strings.Builder
		fmt.Fprintf(&sb, "enum %s {\n", e.Name)
		for _, v := range e.Values {
			fmt.Fprintf(&sb, "  %s = %d\n", v.Name, v.Value)
		}
		sb.WriteString("}\n")
		es = append(es, sb.String())
	}
	for _, s := range f.Structs {
		ss = append(ss, structIDL("struct", s))
	}
	for _, s := range f.Unions {
		us = append(us, structIDL("union", s))
	}
	for _, s := range f.Exceptions {
		xs = append(xs, structIDL("exception", s))
	}
	for _, s := range f.Services {
		var sb strings.Builder
		fmt.Fprintf(&sb, "service %s", s.Name)
		if s.Extends != "" {
			fmt.Fprintf(&sb, " extends %s", s.Extends)
		}
		sb.WriteString(" {\n")
		for _, fn := range s.Functions {
			sb.WriteString("  ")
			if fn.Oneway {
				sb.WriteString("oneway ")
			}
			if fn.Ret == nil {
				sb.WriteString("void")
			} else {
				sb.WriteString(fn.Ret.idl())
			}
			var as []string
			for _, a := range fn.Args {
				as = append(as, fieldIDL(a))
			}
			fmt.Fprintf(&sb, " %s(%s)", fn.Name, strings.Join(as, ", "))
			if len(fn.Throws) > 0 {
				var ts []string
				for _, a := range fn.Throws {
					ts = append(ts, fieldIDL(a))
				}
				fmt.Fprintf(&sb, " throws (%s)", strings.Join(ts, ", "))
			}
			sb.WriteString("\n")
		}
		sb.WriteString("}\n")
		svs = append(svs, sb.String())
	}
	return [][]string{tds, cs, es, ss, us, xs, svs}
}

// Render gives the IDL text of every file.  Kinds are interleaved at random (from ISeed); within a
// kind the order is the order of the list, i.e. the order the AST will have.
func (p *Prog) Render() map[string]string {
	out := map[string]string{}
	r := vl.NewRng(p.ISeed ^ 0x5ca1ab1e)
	for _, f := range p.Files {
		var sb strings.Builder
		for _, inc := range f.Includes {
			fmt.Fprintf(&sb, "include \"%s\"\n", inc.Path)
		}
		sb.WriteString("\n")
		qs := f.defTexts()
		for {
			var live []int
			for i, q := range qs {
				if len(q) > 0 {
					live = append(live, i)
				}
			}
			if len(live) == 0 {
				break
			}
			i := live[r.Intn(len(live))]
			sb.WriteString(qs[i][0])
			sb.WriteString("\n")
			qs[i] = qs[i][1:]
		}
		out[f.Path] = sb.String()
	}
	return out
}

// ---------------------------------------------------------------- VL encoding (read by lean/Driver/C05.lean)

type enc struct{ sb strings.Builder }

func (e *enc) tok(s string) { e.sb.WriteByte(' '); e.sb.WriteString(s) }
func (e *enc) n(i int)      { e.tok(strconv.Itoa(i)) }
func (e *enc) hex(s string) { e.tok(vl.Hex(s)) }

func (e *enc) typ(t *TypeX) {
	switch t.K {
	case "n":
		e.tok("n")
		e.hex(t.Name)
	case "l", "s":
		e.tok(t.K)
		e.typ(t.Val)
	case "m":
		e.tok("m")
		e.typ(t.Key)
		e.typ(t.Val)
	}
}

func (e *enc) cv(c *CV) {
	switch c.K {
	case "i":
		e.tok("i")
		e.tok(strconv.FormatInt(c.Int, 10))
	case "d", "t", "x":
		e.tok(c.K)
		e.hex(c.Str)
	case "L":
		e.tok("L")
		e.n(len(c.Items))
		for _, it := range c.Items {
			e.cv(it)
		}
	case "M":
		e.tok("M")
		e.n(len(c.Items) / 2)
		for _, it := range c.Items {
			e.cv(it)
		}
	}
}

func (e *enc) field(f *Field) {
	e.n(f.ID)
	e.hex(f.Name)
	e.typ(f.Type)
	if f.Default == nil {
		e.tok("0")
	} else {
		e.tok("1")
		e.cv(f.Default)
	}
}

func (e *enc) sls(ss []*StructLike) {
	e.n(len(ss))
	for _, s := range ss {
		e.hex(s.Name)
		e.n(len(s.Fields))
		for _, f := range s.Fields {
			e.field(f)
		}
	}
}

// VL is the op line for the model driver.
func (p *Prog) VL() string {
	e := &enc{}
	e.sb.WriteString("R")
	e.n(p.Root)
	e.n(len(p.Files))
	for _, f := range p.Files {
		e.tok("F")
		e.hex(f.Path)
		e.n(len(f.Includes))
		for _, inc := range f.Includes {
			e.hex(inc.Path)
			e.n(inc.Target)
		}
		e.n(len(f.Typedefs))
		for _, t := range f.Typedefs {
			e.hex(t.Alias)
			e.typ(t.Type)
		}
		e.n(len(f.Constants))
		for _, c := range f.Constants {
			e.hex(c.Name)
			e.typ(c.Type)
			e.cv(c.Value)
		}
		e.n(len(f.Enums))
		for _, en := range f.Enums {
			e.hex(en.Name)
			e.n(len(en.Values))
			for _, v := range en.Values {
				e.hex(v.Name)
				e.tok(strconv.FormatInt(v.Value, 10))
			}
		}
		e.sls(f.Structs)
		e.sls(f.Unions)
		e.sls(f.Exceptions)
		e.n(len(f.Services))
		for _, s := range f.Services {
			e.hex(s.Name)
			e.hex(s.Extends)
			e.n(len(s.Functions))
			for _, fn := range s.Functions {
				e.hex(fn.Name)
				e.tok(vl.B(fn.Oneway))
				if fn.Ret == nil {
					e.tok("v")
				} else {
					e.tok("r")
					e.typ(fn.Ret)
				}
				e.n(len(fn.Args))
				for _, a := range fn.Args {
					e.field(a)
				}
				e.n(len(fn.Throws))
				for _, a := range fn.Throws {
					e.field(a)
				}
			}
		}
	}
	return e.sb.String()
}

// ---------------------------------------------------------------- canonical dump format (shared by worker and oracle)

var catNum = map[string]int{"bool": 1, "byte": 2, "i8": 2, "i16": 3, "i32": 4, "i64": 5, "double": 6, "string": 7, "binary": 8}

const (
	catConstant  = 0
	catMap       = 9
	catList      = 10
	catSet       = 11
	catEnum      = 12
	catStruct    = 13
	catUnion     = 14
	catException = 15
	catTypedef   = 16
	catService   = 17
)

type nodeRec struct {
	Cat      int
	IsTd     bool
	RefIdx   int // -1 = no reference
	RefName  string
	DerefOK  bool
	DFile    int
	DName    string
	DCat     int
	DerefStr string // overrides when non-empty ("E", "crash")
}

func (n nodeRec) String() string {
	ref := "-"
	if n.RefIdx >= 0 {
		ref = fmt.Sprintf("%d~%s", n.RefIdx, vl.Hex(n.RefName))
	}
	dr := n.DerefStr
	if dr == "" {
		dr = fmt.Sprintf("%d~%s~%d", n.DFile, vl.Hex(n.DName), n.DCat)
	}
	return fmt.Sprintf("%d:%s:%s:%s", n.Cat, vl.B(n.IsTd), ref, dr)
}

func nodesStr(ns []nodeRec) string {
	ss := make([]string, len(ns))
	for i, n := range ns {
		ss[i] = n.String()
	}
	return strings.Join(ss, ",")
}

func bindStr(e *Extra) string {
	if e == nil {
		return "_"
	}
	return fmt.Sprintf("%s:%d:%s:%s", vl.B(e.IsEnum), e.Index, vl.Hex(e.Name), vl.Hex(e.Sel))
}

type fileDump struct {
	Idx  int
	Used string
	Recs []string
}

func joinDump(fs []fileDump) string {
	sort.Slice(fs, func(i, j int) bool { return fs[i].Idx < fs[j].Idx })
	var parts []string
	for _, f := range fs {
		sort.Strings(f.Recs)
		parts = append(parts, fmt.Sprintf("F%d u%s %s", f.Idx, f.Used, strings.Join(f.Recs, " ")))
	}
	return "ok " + strings.Join(parts, " | ")
}

// idlPrefixOf is the oracle's own reading of "the IDL prefix of an include": the file name without
// directory and without its last extension.
func idlPrefixOf(path string) string {
	b := filepath.Base(path)
	if i := strings.LastIndex(b, "."); i >= 0 {
		return b[:i]
	}
	return b
}
