package main

// units.go: option sets (from the option table of the backend under test) and program configurations.

import (
	"sort"
	"strings"

	"github.com/cloudwego/thriftgo/generator/golang"

	"verifharness/internal/idlgen"
	"verifharness/internal/vl"
)

// optionTable returns every documented go option with its default (bool options) as the backend reports it.
type optInfo struct {
	Name    string
	Bool    bool
	Default bool
}

func optionTable() []optInfo {
	var out []optInfo
	for _, o := range new(golang.GoBackend).Options() {
		oi := optInfo{Name: o.Name}
		switch o.Name {
		case "thrift_import_path", "use_package", "naming_style", "package_prefix", "template":
		case "ignore_initialisms":
			oi.Bool = true
		default:
			oi.Bool = true
			oi.Default = strings.Contains(o.Desc, "(Enabled by default)")
		}
		out = append(out, oi)
	}
	return out
}

// options that cannot be exercised alone in this sandbox, with the reason (printed into the stats)
var optExcluded = map[string]string{
	"package_prefix":     "always set by the harness (one prefix per unit)",
	"with_field_mask":    "requires with_reflection (thriftgo rejects it alone): exercised as the pair with_reflection,with_field_mask",
	"always_gen_json_tag": "deprecated alias; exercised in combinations",
}

// singleOptions: every documented option alone, switched away from its default; valued options with each value.
func singleOptions() [][]string {
	var out [][]string
	for _, o := range optionTable() {
		if _, skip := optExcluded[o.Name]; skip {
			continue
		}
		switch {
		case o.Name == "naming_style":
			out = append(out, []string{"naming_style=golint"}, []string{"naming_style=apache"}, []string{"naming_style=thriftgo"})
		case o.Name == "template":
			out = append(out, []string{"template=slim"}, []string{"template=raw_struct"})
		case o.Name == "thrift_import_path":
			out = append(out, []string{"thrift_import_path=github.com/apache/thrift/lib/go/thrift"})
		case o.Name == "use_package":
			out = append(out, []string{"use_package=database/sql/driver=database/sql/driver"})
		case o.Bool && o.Default:
			out = append(out, []string{o.Name + "=false"})
		case o.Bool:
			out = append(out, []string{o.Name})
		}
	}
	out = append(out, []string{"with_reflection", "with_field_mask"}, []string{"with_reflection", "with_field_mask", "field_mask_halfway"},
		[]string{"with_reflection", "with_field_mask", "field_mask_zero_required"})
	return out
}

// combinable options for random combinations (each either flipped or left alone). Combinations known to be
// refused by validateOptions are repaired in fixCombo.
func randomCombo(r *vl.Rng) []string {
	var out []string
	tab := optionTable()
	n := 2 + r.Intn(6)
	for i := 0; i < n; i++ {
		o := tab[r.Intn(len(tab))]
		if _, skip := optExcluded[o.Name]; skip && o.Name != "with_field_mask" && o.Name != "always_gen_json_tag" {
			continue
		}
		switch {
		case o.Name == "naming_style":
			out = append(out, "naming_style="+[]string{"golint", "apache", "thriftgo"}[r.Intn(3)])
		case o.Name == "template":
			if r.Chance(30) {
				out = append(out, "template="+[]string{"slim", "raw_struct"}[r.Intn(2)])
			}
		case o.Name == "thrift_import_path", o.Name == "use_package", o.Name == "skip_go_gen":
		case o.Bool && o.Default:
			out = append(out, o.Name+"=false")
		case o.Bool:
			out = append(out, o.Name)
		}
	}
	return fixCombo(out)
}

func hasOpt(opts []string, o string) bool {
	for _, x := range opts {
		if x == o {
			return true
		}
	}
	return false
}

func dropOpt(opts []string, o string) []string {
	var out []string
	for _, x := range opts {
		if x != o {
			out = append(out, x)
		}
	}
	return out
}

// fixCombo repairs combinations validateOptions refuses and removes duplicates.
func fixCombo(opts []string) []string {
	seen := map[string]bool{}
	var out []string
	for _, o := range opts {
		n := o
		if i := strings.IndexByte(o, '='); i >= 0 {
			n = o[:i]
		}
		if !seen[n] {
			seen[n] = true
			out = append(out, o)
		}
	}
	if hasOpt(out, "with_field_mask") && !hasOpt(out, "with_reflection") {
		out = append(out, "with_reflection")
	}
	if hasOpt(out, "apache_warning") && hasOpt(out, "apache_adaptor") {
		out = dropOpt(out, "apache_adaptor")
	}
	if hasOpt(out, "snake_style_json_tag") && hasOpt(out, "lower_camel_style_json_tag") {
		out = dropOpt(out, "lower_camel_style_json_tag")
	}
	if hasOpt(out, "gen_json_tag=false") && hasOpt(out, "always_gen_json_tag") {
		out = dropOpt(out, "always_gen_json_tag")
	}
	sort.Strings(out)
	return out
}

// mainConfig: every digestible feature on, names from the stress pool (idlgen's) — C01's wide pool is pushed in
// afterwards by stressRename.
func mainConfig(fastgo bool) idlgen.Config {
	cfg := idlgen.DefaultConfig()
	cfg.SafeNames = false
	cfg.KeywordNames = true
	if fastgo {
		// the shapes fastgo does not digest on the unchanged tree are exercised by the known-defect stream (D9b, D12, D17, D20)
		cfg.NoTypedefContainers = true
		cfg.NoGoNS = false
		cfg.SharedGoNS = false
		cfg.BinaryMapKeys = false
	}
	return cfg
}

// switchConfigs: one configuration per idlgen switch that is OFF by default because the unchanged tree does not
// digest the shape (docs/BATCH-notes.md §5); the bool says whether the unit must be a fastgo unit.
type switchCfg struct {
	Name   string
	Defect string
	Fastgo bool
	Opts   []string
	Set    func(c *idlgen.Config)
}

func switchConfigs() []switchCfg {
	return []switchCfg{
		{"TypedefContainerConst", "D1", false, nil, func(c *idlgen.Config) { c.TypedefContainerConst = true }},
		{"CrossFileLiteralIdents", "D2", false, nil, func(c *idlgen.Config) { c.CrossFileLiteralIdents = true }},
		{"StructLiteralInContainer", "D3", false, []string{"value_type_in_container"}, func(c *idlgen.Config) { c.StructLiteralInContainer = true }},
		{"OptionalEnumInLiteral", "D4", false, nil, func(c *idlgen.Config) { c.OptionalEnumInLiteral = true }},
		{"CrossFileLiteralForeignTypes", "D5", false, nil, func(c *idlgen.Config) { c.CrossFileLiteralForeignTypes = true }},
		{"StructConstByIdent", "D6", false, nil, func(c *idlgen.Config) { c.StructConstByIdent = true }},
		{"CrossFileScalarConstType", "D7", false, nil, func(c *idlgen.Config) { c.CrossFileScalarConstType = true }},
		{"BinaryConstIdents", "D8", false, nil, func(c *idlgen.Config) { c.BinaryConstIdents = true }},
		{"ShortPackageNames", "D9", false, nil, func(c *idlgen.Config) { c.ShortPackageNames = true }},
		{"DupThrows", "D10", false, nil, func(c *idlgen.Config) { c.DupThrows = true }},
		{"ContainerMapKeys", "D16", false, nil, func(c *idlgen.Config) { c.ContainerMapKeys = true }},
		{"CollidingNames", "D18/D19", false, nil, func(c *idlgen.Config) { c.CollidingNames = true; c.SafeNames = false }},
		{"StringEscapes", "S1/S2", false, nil, func(c *idlgen.Config) { c.StringEscapes = true }},
		{"fastgo:TypedefContainers", "D12", true, nil, func(c *idlgen.Config) { c.NoTypedefContainers = false }},
		{"fastgo:BinaryMapKeys", "D17", true, nil, func(c *idlgen.Config) { c.BinaryMapKeys = true }},
		{"fastgo:SharedGoNS", "D20", true, nil, func(c *idlgen.Config) { c.SharedGoNS = true }},
		{"fastgo:NoGoNS", "D9", true, nil, func(c *idlgen.Config) { c.NoGoNS = true; c.ShortPackageNames = true }},
		{"opt:value_type_in_container,gen_deep_equal", "D14", false, []string{"value_type_in_container", "gen_deep_equal"}, func(c *idlgen.Config) {}},
		{"opt:use_type_alias=false", "D15", false, []string{"use_type_alias=false"}, func(c *idlgen.Config) {}},
	}
}
