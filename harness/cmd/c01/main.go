// c01: harness for property C01 (every accepted IDL yields Go code that compiles), DESIGN.md §5.1.
//
//	c01 extract -repo R                         print Generated/C01.lean (keyword table, std import table)
//	c01 run     -repo R -dir D -seed N -tier T  oracle + correspondence; ops.txt impl.txt stats.json in D
//	c01 known   -repo R -dir D [-only ID]       only the dedicated known-defect stream (development aid)
//	c01 replay  -repo R -dir D -file replay.json   re-run one minimised input against the repo
package main

import (
	"encoding/json"
	"flag"
	"fmt"
	"os"
	"path/filepath"
	"sort"
	"strings"
	"sync"
	"time"

	"verifharness/internal/batch"
	"verifharness/internal/idlgen"
	"verifharness/internal/vl"
)

func main() {
	if len(os.Args) < 2 {
		fmt.Fprintln(os.Stderr, "usage: c01 extract|run|known|replay [flags]")
		os.Exit(2)
	}
	fs := flag.NewFlagSet(os.Args[1], flag.ExitOnError)
	repo := fs.String("repo", "/repo", "repository under test")
	dir := fs.String("dir", "", "output directory")
	seed := fs.Uint64("seed", 1, "seed")
	tier := fs.String("tier", "quick", "quick|thorough")
	only := fs.String("only", "", "known: only this unit id")
	file := fs.String("file", "", "replay: the replay json")
	keep := fs.Bool("keep", false, "keep the work directory")
	nprog := fs.Int("programs", 0, "override the number of programs of the main stream")
	fs.Parse(os.Args[2:])
	switch os.Args[1] {
	case "extract":
		if err := extract(*repo); err != nil {
			fmt.Fprintln(os.Stderr, "c01 extract:", err)
			os.Exit(3)
		}
	case "run", "known":
		if *dir == "" {
			fmt.Fprintln(os.Stderr, "-dir is required")
			os.Exit(2)
		}
		os.Exit(run(*repo, *dir, *seed, *tier, os.Args[1] == "known", *only, *keep, *nprog))
	case "replay":
		os.Exit(replay(*repo, *dir, *file))
	case "worker":
		workerMain()
	default:
		fmt.Fprintln(os.Stderr, "unknown subcommand", os.Args[1])
		os.Exit(2)
	}
}

// violation is one reported failing input.
type violation struct {
	Key      string
	Head     string
	Known    string // id of the dedicated unit that shows it ("" for generated programs)
	Origin   string
	Subject  *subject
	Kept     []string
	Finding  finding
	Observed []string
	Shrunk   bool
	Tries    int
	orig     *subject
}

type runner struct {
	repo  string
	work  string
	seed  uint64
	tier  string
	out   *vl.Out
	chk   *checker
	viols []*violation
	pending []*violation
	byKey map[string]*violation
	byHead map[string][]*violation
	// findings already explained by a violation whose key names options or a backend: head -> violations
	explained map[string][]*violation
	shrinkBudget time.Duration
	shrinkSpent  time.Duration
	mu           sync.Mutex
	kcount       map[string]int
	groups       []failing // failing units of the main stream, handled after the known stream
}

type failing struct {
	s      *subject
	f      finding
	origin string
}

func (r *runner) eval(s *subject) (finding, *result) {
	res := r.chk.run(s.raw(), true)
	return judge(res.Exit, res.Stderr, res.ParseErrs, res.TypeErrs), res
}

// minimise shrinks s while the finding keeps its head; returns the minimal subject and what had to keep its name.
func (r *runner) minimise(s *subject, target finding, maxTries int, limit time.Duration) (*subject, []string, int, bool) {
	t0 := time.Now()
	sh := &shrinker{maxTries: maxTries, deadline: time.Now().Add(limit)}
	sh.fails = func(c *subject) bool {
		res := r.chk.runFast(c.raw())
		f := judge(res.Exit, res.Stderr, res.ParseErrs, res.TypeErrs)
		r.chk.cleanup(res)
		return f.head() == target.head()
	}
	min := sh.run(s)
	r.mu.Lock()
	r.shrinkSpent += time.Since(t0)
	r.mu.Unlock()
	return min, sh.kept, sh.tries, sh.partial
}

// explainedBy: a failing unit whose finding head equals that of an already reported violation whose minimal
// options are among the unit's options (and same backend) is attributed to it without another shrink.
func (r *runner) explainedBy(head, backend string, opts []string) *violation {
	for _, v := range r.explained[head] {
		be := v.Subject.Backend
		if be == "" {
			be = "go"
		}
		if be != backend {
			continue
		}
		all := true
		for _, o := range v.Subject.Options {
			if !hasOpt(opts, o) {
				all = false
			}
		}
		if all {
			return v
		}
	}
	return nil
}

// handle takes a failing subject (finding f from the REAL toolchain or the in-process check), minimises it and
// queues the minimal input for confirmation by the real toolchain (finalize).
func (r *runner) handle(s *subject, f finding, origin, known string) {
	if !f.violation() {
		return
	}
	be := s.Backend
	if be == "" {
		be = "go"
	}
	if known == "" {
		r.mu.Lock()
		v := r.explainedBy(f.head(), be, s.Options)
		r.mu.Unlock()
		if v != nil {
			r.count("finding.attributed." + v.Key)
			return
		}
	}
	v := &violation{Head: f.head(), Known: known, Origin: origin, Finding: f, Subject: s, orig: s, Observed: []string{f.Detail}}
	// is the finding reproducible with the in-process generator at all?
	res0 := r.chk.runFast(s.raw())
	f0 := judge(res0.Exit, res0.Stderr, res0.ParseErrs, res0.TypeErrs)
	r.chk.cleanup(res0)
	if f0.head() != f.head() {
		r.count("shrink.not-reproduced-in-process")
	} else {
		maxTries, limit := 400, 40*time.Second
		if r.tier == "thorough" {
			maxTries, limit = 1500, 120*time.Second
		}
		r.mu.Lock()
		over := r.shrinkSpent > r.shrinkBudget
		r.mu.Unlock()
		if over {
			maxTries, limit = 60, 8*time.Second
			r.count("shrink.over-budget")
		}
		var partial bool
		v.Subject, v.Kept, v.Tries, partial = r.minimise(s, f, maxTries, limit)
		v.Shrunk = !partial
	}
	v.Key = stableKey(v.Finding, v.Subject, v.Kept)
	r.mu.Lock()
	r.pending = append(r.pending, v)
	if strings.Contains(v.Key, "|opt=") || strings.Contains(v.Key, "|backend=") {
		r.explained[v.Head] = append(r.explained[v.Head], v)
	}
	r.mu.Unlock()
}

// count is safe to call from the goroutines of the known stream (vl.Out is not): merged into the stats at the end.
func (r *runner) count(k string) {
	r.mu.Lock()
	if r.kcount == nil {
		r.kcount = map[string]int{}
	}
	r.kcount[k]++
	r.mu.Unlock()
}

// finalize re-establishes every queued verdict with the thriftgo BINARY and ONE `go build` over all minimal
// inputs, computes the final keys and registers the violations (deduplicated by key).
func (r *runner) finalize() {
	type conf struct {
		v   *violation
		res *result
	}
	var cs []conf
	var dirs []string
	sort.SliceStable(r.pending, func(i, j int) bool { return r.pending[i].Origin < r.pending[j].Origin })
	cs = make([]conf, len(r.pending))
	var wg sync.WaitGroup
	sem := make(chan struct{}, 8)
	for i, v := range r.pending {
		wg.Add(1)
		go func(i int, v *violation) {
			defer wg.Done()
			sem <- struct{}{}
			defer func() { <-sem }()
			cs[i] = conf{v, r.chk.run(v.Subject.raw(), false)}
		}(i, v)
	}
	wg.Wait()
	for _, c := range cs {
		if c.res.Exit == 0 && len(c.res.ParseErrs) == 0 && len(c.res.GoFiles) > 0 {
			dirs = append(dirs, c.res.Dir)
		}
	}
	built := r.chk.confirm(dirs, false)
	var again []conf
	for _, c := range cs {
		ff := judge(c.res.Exit, c.res.Stderr, c.res.ParseErrs, built[c.res.Dir])
		if ff.head() == c.v.Head {
			c.v.Finding = ff
			c.v.Observed = observedOf(c.res, built[c.res.Dir])
			continue
		}
		if ff.violation() && c.v.Shrunk {
			// the toolchain rejects the minimal input too, in other words than the in-process type checker used
			// (e.g. cmd/compile reads export data, which lacks unexported names: `undefined: pb._Item` where go/types
			// on source says `name _Item not exported`): the minimal input stands, the toolchain's verdict names it
			r.count("shrink.confirmed-with-other-class")
			c.v.Finding, c.v.Head = ff, ff.head()
			c.v.Observed = observedOf(c.res, built[c.res.Dir])
			continue
		}
		// the minimal input is not confirmed by the toolchain: fall back to the original input
		r.count("shrink.unconfirmed")
		fmt.Printf("c01: minimal input of %s not confirmed by the toolchain (%s): reporting the original input\n", c.v.Head, orStr(ff.head(), "ok"))
		c.v.Subject, c.v.Kept, c.v.Shrunk = c.v.orig, nil, false
		res := r.chk.run(c.v.Subject.raw(), false)
		again = append(again, conf{c.v, res})
	}
	if len(again) > 0 {
		var d2 []string
		for _, c := range again {
			if c.res.Exit == 0 && len(c.res.ParseErrs) == 0 && len(c.res.GoFiles) > 0 {
				d2 = append(d2, c.res.Dir)
			}
		}
		b2 := r.chk.confirm(d2, false)
		for _, c := range again {
			ff := judge(c.res.Exit, c.res.Stderr, c.res.ParseErrs, b2[c.res.Dir])
			if !ff.violation() {
				// only the in-process check saw a problem: not a verdict of the toolchain, not reported
				r.count("finding.not-confirmed-at-all")
				c.v.Key = ""
				continue
			}
			c.v.Finding, c.v.Head = ff, ff.head()
			c.v.Observed = observedOf(c.res, b2[c.res.Dir])
		}
	}
	for _, v := range r.pending {
		if v.Key == "" {
			continue
		}
		v.Key = stableKey(v.Finding, v.Subject, v.Kept)
		if !v.Shrunk {
			v.Key += "|unshrunk"
		}
		r.byHead[v.Head] = append(r.byHead[v.Head], v)
	}
	for _, v := range r.pending {
		if v.Key == "" {
			continue
		}
		if !v.Shrunk && v.Known == "" {
			// the budget ran out before this input was minimal: if a fully minimised input with the same verdict
			// (and the same backend) is reported anyway, this one adds nothing but an unstable key
			dup := false
			for _, w := range r.byHead[v.Head] {
				if w != v && w.Shrunk && orStr(w.Subject.Backend, "go") == orStr(v.Subject.Backend, "go") {
					dup = true
				}
			}
			if dup {
				r.count("violation.unshrunk-attributed")
				continue
			}
		}
		if old, ok := r.byKey[v.Key]; ok {
			if old.Known == "" && v.Known != "" {
				old.Known = v.Known
			} else if v.Known != "" && !strings.Contains(old.Known, v.Known) {
				old.Known += "," + v.Known
			}
			r.count("violation.duplicate-key")
			continue
		}
		r.byKey[v.Key] = v
		r.viols = append(r.viols, v)
	}
}

func observedOf(res *result, build []string) []string {
	var obs []string
	switch {
	case res.Exit != 0 || strings.Contains(res.Stderr, "Recovered from panic"):
		obs = firstLines(res.Stderr, 8)
	case len(res.ParseErrs) > 0:
		obs = res.ParseErrs
	default:
		obs = build
	}
	if len(obs) > 6 {
		obs = obs[:6]
	}
	for i, o := range obs {
		if len(o) > 400 {
			obs[i] = o[:400]
		}
	}
	return obs
}

func firstLines(s string, n int) []string {
	ls := strings.Split(strings.TrimSpace(s), "\n")
	if len(ls) > n {
		ls = ls[:n]
	}
	return ls
}

func run(repo, dir string, seed uint64, tier string, knownOnly bool, only string, keep bool, nprog int) int {
	t0 := time.Now()
	repo, _ = filepath.Abs(repo)
	if err := os.MkdirAll(dir, 0o755); err != nil {
		fmt.Fprintln(os.Stderr, err)
		return 2
	}
	work := filepath.Join(dir, "work")
	os.RemoveAll(work)
	if !keep {
		defer os.RemoveAll(work)
	}
	out := vl.NewOut(dir)
	defer out.Close()
	// the thriftgo binary: the known-only mode builds it itself; a full run uses the one batch.Build makes
	tg := filepath.Join(work, "batch", "thriftgo")
	if knownOnly {
		var err error
		tg, err = batch.BuildThriftgo(filepath.Join(work, "bin"), mkdir(filepath.Join(work, "bin"), repo))
		if err != nil {
			fmt.Println("ERROR:", err)
			return 2
		}
	}
	out.Stats["timing_ms.thriftgo_build"] = int(time.Since(t0).Milliseconds())
	// the export data of the runtime libraries (in-process type checker) is collected while the batch is built
	type chkRes struct {
		c   *checker
		err error
	}
	chkCh := make(chan chkRes, 1)
	go func() {
		c, err := newChecker(filepath.Join(work, "chk"), repo, tg)
		chkCh <- chkRes{c, err}
	}()
	r := &runner{repo: repo, work: work, seed: seed, tier: tier, out: out, byKey: map[string]*violation{}, byHead: map[string][]*violation{}, explained: map[string][]*violation{}}
	r.shrinkBudget = 70 * time.Second
	if tier == "thorough" {
		r.shrinkBudget = 6 * time.Minute
	}

	// ---------------- 1. dedicated known-defect stream, concurrently with the batch of the main stream
	// (in-process generator workers; one shrink per unit). The checker is handed over through chkReady.
	chkReady := make(chan *checker, 1)
	knownDone := make(chan error, 1)
	go func() {
		cr := <-chkCh
		if cr.err != nil {
			chkReady <- nil
			knownDone <- cr.err
			return
		}
		chk := cr.c
		self, _ := os.Executable()
		chk.startWorkers(self, 6)
		r.mu.Lock()
		r.chk = chk
		r.mu.Unlock()
		chkReady <- chk
		t1 := time.Now()
		var wg sync.WaitGroup
		for _, k := range knownUnits() {
			if only != "" && k.ID != only {
				continue
			}
			wg.Add(1)
			go func(k knownUnit) {
				defer wg.Done()
				res := chk.runFast(k.Subject.raw())
				f := judge(res.Exit, res.Stderr, res.ParseErrs, res.TypeErrs)
				chk.cleanup(res)
				r.count("known." + k.ID + "." + orStr(f.head(), "pass"))
				if f.violation() {
					r.handle(k.Subject, f, "known:"+k.ID, k.ID)
				} else {
					// a candidate that does not fail on this tree (fixed, or not a compile problem)
					r.count("known.not-failing")
					if k.Expect == "fail" {
						fmt.Printf("c01: known unit %s does not fail on this tree (%s)\n", k.ID, orStr(f.head(), "ok"))
					}
				}
			}(k)
		}
		wg.Wait()
		r.mu.Lock()
		if r.kcount == nil {
			r.kcount = map[string]int{}
		}
		r.kcount["timing_ms.known"] = int(time.Since(t1).Milliseconds())
		r.mu.Unlock()
		knownDone <- nil
	}()

	// ---------------- 2. generated programs: one shared batch, real toolchain
	if !knownOnly {
		t1 := time.Now()
		if rc := r.mainStream(nprog); rc != 0 {
			return rc
		}
		out.Stats["timing_ms.main_stream"] = int(time.Since(t1).Milliseconds())
	}
	chk := <-chkReady
	if err := <-knownDone; err != nil || chk == nil {
		fmt.Println("ERROR:", err)
		return 2
	}
	defer chk.stopWorkers()
	var t1 time.Time

	// ---------------- 3. failing units of the main stream, then the switch stream
	if !knownOnly {
		t1 = time.Now()
		for _, g := range r.groups {
			r.handle(g.s, g.f, g.origin, "")
		}
		out.Stats["timing_ms.main_shrink"] = int(time.Since(t1).Milliseconds())
		r.switchStream()
		r.noRecurseStream()
	}

	// ---------------- 4. confirm with the real toolchain, report
	t2 := time.Now()
	r.finalize()
	out.Stats["timing_ms.confirm"] = int(time.Since(t2).Milliseconds())
	// what no dedicated unit shows comes first (bin/check writes replays for the first 20 only)
	sort.Slice(r.viols, func(i, j int) bool {
		if (r.viols[i].Known == "") != (r.viols[j].Known == "") {
			return r.viols[i].Known == ""
		}
		return r.viols[i].Key < r.viols[j].Key
	})
	for _, v := range r.viols {
		text := renderText(v.Subject.Prog)
		fmt.Printf("FAILING INPUT key=%s%s\n  cmd: %s\n  observed: %s\n%s\n", v.Key, orStr(" ("+v.Known+")", ""), v.Subject.raw().cmdline(),
			strings.Join(v.Observed, " | "), indent(text))
		out.Fail(vl.OracleFail{Key: v.Key, What: v.Finding.Kind + ": " + v.Finding.Class,
			Input: map[string]interface{}{
				"idl": text, "files": v.Subject.Prog.Render(), "main": v.Subject.Prog.Files[0].Path, "cmd": v.Subject.raw().cmdline(),
				"backend": orStr(v.Subject.Backend, "go"), "options": v.Subject.Options, "recurse": v.Subject.Recurse,
				"names_kept": v.Kept, "known_defect": v.Known, "origin": v.Origin, "shrink_tries": v.Tries, "head": v.Head},
			Expected: "thriftgo exits 0 and every written .go file parses and all generated packages type-check (or thriftgo refuses the input with a diagnostic)",
			Observed: v.Observed})
		out.Sample(map[string]interface{}{"key": v.Key, "cmd": v.Subject.raw().cmdline(), "idl": text})
	}
	for k, v := range r.kcount {
		out.Stats[k] += v
	}
	out.Stats["checker.runs"] = chk.Runs
	out.Stats["checker.runs_in_process"] = chk.FastRuns
	out.Stats["checker.worker_deaths"] = chk.stopWorkers()
	out.Stats["timing_ms.shrink"] = int(r.shrinkSpent.Milliseconds())
	out.Stats["timing_ms.total"] = int(time.Since(t0).Milliseconds())
	fmt.Printf("c01: seed %d tier %s: %d distinct failing inputs, %d pipeline runs, %.1fs total (shrinking %.1fs)\n",
		seed, tier, len(r.viols), chk.Runs, time.Since(t0).Seconds(), r.shrinkSpent.Seconds())
	if len(r.viols) > 0 {
		return 1
	}
	return 0
}

func mkdir(d, pass string) string {
	os.MkdirAll(d, 0o755)
	return pass
}

func orStr(a, b string) string {
	if a == "" || a == " ()" {
		return b
	}
	return a
}

func indent(s string) string {
	return "    " + strings.ReplaceAll(strings.TrimRight(s, "\n"), "\n", "\n    ")
}

// ---------------------------------------------------------------- main stream (shared batch)

type plannedUnit struct {
	prog    *Program
	backend string
	opts    []string
	recurse bool
	tag     string
}

func (r *runner) mainStream(nprog int) int {
	out := r.out
	rng := vl.NewRng(vl.NewRng(r.seed).U64())
	singles := singleOptions()
	var combos [][]string
	ncombo := 8
	if r.tier == "thorough" {
		ncombo = 64
	}
	for i := 0; i < ncombo; i++ {
		combos = append(combos, randomCombo(rng))
	}
	for name, why := range optExcluded {
		out.Sample(map[string]string{"option_not_run_alone": name, "why": why})
	}
	var plan []plannedUnit
	nProg, perProg := 16, 2
	if r.tier == "thorough" {
		nProg, perProg = 200, 1
	}
	if nprog > 0 {
		nProg = nprog
	}
	// option sets in rotation: every single option, then the random combinations, then the plain default
	var sets [][]string
	sets = append(sets, singles...)
	sets = append(sets, combos...)
	sets = append(sets, nil, nil)
	rot := int(r.seed) * 7
	for i := 0; i < nProg; i++ {
		fast := i%8 == 7
		cfg := mainConfig(fast)
		p := idlgen.Generate(rng, cfg)
		p = stressRename(rng, p, rng.Intn(3), out.Count)
		if fast {
			p = requiredCount(rng, p, out.Count)
		}
		if !fast && rng.Chance(30) {
			p = collidePackages(rng, p, out.Count)
		}
		if rng.Chance(40) {
			p = identInts(rng, p, out.Count)
		}
		p.Stats(out.Count)
		if fast {
			plan = append(plan, plannedUnit{p, "fastgo", nil, true, fmt.Sprintf("prog%d", i)})
			continue
		}
		for j := 0; j < perProg; j++ {
			var o []string
			if r.tier == "thorough" || j > 0 {
				o = sets[(rot+i*perProg+j)%len(sets)]
			} else if rng.Chance(30) {
				o = combos[rng.Intn(len(combos))]
			}
			rec := !(rng.Chance(30) && len(p.Files) == 1) // without -r only single-file programs go through the batch (see noRecurseStream)
			plan = append(plan, plannedUnit{p, "go", o, rec, fmt.Sprintf("prog%d", i)})
		}
	}
	// two fixed programs that exercise paths random programs rarely reach: MustReserve refusing `Foo` + `NewFoo`
	// (the model must predict the rejection), and heavy renaming inside one struct / one service
	plan = append(plan,
		plannedUnit{&Program{Files: []*File{mkFile("a.thrift", "pa", none, strct("Foo", fd(1, "a", i32)), strct("NewFoo", fd(1, "b", i32)))}}, "go", nil, true, "fixed-reserve"},
		plannedUnit{&Program{Files: []*File{mkFile("a.thrift", "pa", none,
			strct("read", fd(1, "read", i32), fd(2, "Read", i32), fd(3, "get_read", i32), fdOpt(4, "GetRead", i32), fd(5, "read_field1", i32), fd(-1, "write_field_1", i32)),
			svc("Svc", nil, fnVoid("f", []*idlgen.Field{fd(1, "p", i32), fd(2, "P", i32), fd(3, "err", i32), fd(4, "type", i32), fd(5, "_type", i32), fd(6, "ctx", i32)}, nil),
				&idlgen.Function{Name: "g", Ret: i32, Args: []*idlgen.Field{fd(1, "r", i32), fd(2, "_result", i32), fd(3, "R", i32)}}),
			svc("Svc2", nil, fnVoid("f", nil, nil)))}}, "go", []string{"gen_setter", "gen_deep_equal", "keep_unknown_fields"}, true, "fixed-renames"})
	// tiny fixed programs, one per scope, in which the RENAMED form of a colliding name is declared first
	// (`x_` then `x`): collision renaming has to probe again (namespace.Add), whatever the naming style
	fix := func(tag string, opts []string, defs ...interface{}) {
		plan = append(plan, plannedUnit{&Program{Files: []*File{mkFile("a.thrift", "pa", none, defs...)}}, "go", opts, true, tag})
	}
	fix("fixed-pair-fields", nil, strct("Stats", fd(1, "read_", i32), fd(2, "read", i32), fd(3, "total_", i32), fd(4, "total", i32), fd(5, "Total", i32)))
	fix("fixed-pair-params", []string{"naming_style=golint"}, svc("Svc", nil,
		&idlgen.Function{Name: "f", Ret: i32, Args: []*idlgen.Field{fd(1, "r_", i32), fd(2, "r", i32), fd(3, "err_", i32), fd(4, "err", i32)}}))
	fix("fixed-pair-funcs", []string{"naming_style=apache"}, svc("Svc", nil, fnVoid("get_", nil, nil), fnVoid("get", nil, nil), fnVoid("Get", nil, nil)))
	fix("fixed-pair-globals", nil, strct("item_"), strct("item"), strct("Item"), enum("kind_", "A"), enum("kind", "A"), enum("Kind", "A"))
	fix("fixed-set-deep-equal", []string{"gen_deep_equal"}, strct("I", fd(1, "x", i32)), strct("S", fd(1, "s", &Type{Kind: idlgen.Set, Elem: i32}), fd(2, "t", &Type{Kind: idlgen.Set, Elem: tRef(0, "I")})))
	plan = append(plan, plannedUnit{&Program{Files: []*File{
		mkFile("a.thrift", "pa", []int{1, 2}, strct("S", fd(1, "x", tRef(1, "T")), fd(2, "y", tRef(2, "T")))),
		mkFile("b.thrift", "x.fmt0", none, strct("T")),
		mkFile("c.thrift", "y.fmt", none, strct("T"))}}, "go", nil, true, "fixed-pair-imports"})
	// an IDL the root never includes, reached only through typedefs / a constant / an extended service of a file it does
	// include, whose package name equals another import of the root (acme.common vs partner.common): the alias the
	// import block declares (common0) must be the qualifier of the FIRST reference too (Scope.includeIDL)
	plan = append(plan, plannedUnit{&Program{Files: []*File{
		mkFile("order.thrift", "acme.order", []int{1, 2},
			strct("Order", fd(1, "meta", tRef(1, "Meta")), fd(2, "items", tRef(2, "Items")), fdOpt(3, "featured", tRef(2, "Featured")), fdOpt(4, "one", tRef(2, "One"))),
			svc("OrderService", nil, &idlgen.Function{Name: "place", Ret: tRef(0, "Order"), Args: []*idlgen.Field{fd(1, "meta", tRef(1, "Meta")), fd(2, "items", tRef(2, "Items"))}})),
		mkFile("common.thrift", "partner.common", none, strct("Meta", fd(1, "id", i32))),
		mkFile("catalog.thrift", "acme.catalog", []int{3},
			tdef("Items", tList(tRef(3, "Item"))), tdef("Featured", tMap(tRef(3, "Kind"), tRef(3, "Item"))), tdef("One", tRef(3, "Item"))),
		mkFile("catalog_types.thrift", "acme.common", none, enum("Kind", "A", "B"), strct("Item", fd(1, "sku", str)))}}, "go", nil, true, "fixed-late-include"})
	// typedefs of ANOTHER file whose element types are local to that file (list<Point>, map<string, Path>, set<Unit>), two
	// levels deep, and a literal of a foreign struct that nests a struct local to the foreign file: every element type
	// must carry the foreign package's qualifier in the root file (Resolver.getTypeName)
	plan = append(plan, plannedUnit{&Program{Files: []*File{
		mkFile("track.thrift", "demo.track", []int{1},
			strct("Track", fd(1, "start", tRef(1, "Point")), fd(2, "path", tRef(1, "Path")), fdOpt(3, "routes", tRef(1, "Routes")), fd(4, "units", tRef(1, "Units"))),
			cdef("UnitSegment", tRef(1, "Segment"), cMap(cStr("a"), cMap(cStr("x"), cInt("0")), cStr("b"), cMap(cStr("x"), cInt("1")))),
			svc("Tracker", nil, &idlgen.Function{Name: "trace", Ret: tRef(1, "Path"), Args: []*idlgen.Field{fd(1, "from", tRef(1, "Point")), fd(2, "via", tRef(1, "Routes"))}})),
		mkFile("geo.thrift", "demo.geo", none, enum("Unit", "METER", "FOOT"), strct("Point", fd(1, "x", i32), fdOpt(2, "unit", tRef(1, "Unit"))),
			strct("Segment", fd(1, "a", tRef(1, "Point")), fd(2, "b", tRef(1, "Point"))),
			tdef("Path", tList(tRef(1, "Point"))), tdef("Routes", tMap(str, tRef(1, "Path"))), tdef("Units", &Type{Kind: idlgen.Set, Elem: tRef(1, "Unit")}))}}, "go", nil, true, "fixed-foreign-typedef-elements"})
	// the same shape under fastgo (its k-file has an import block of its own)
	plan = append(plan, plannedUnit{&Program{Files: []*File{
		mkFile("order.thrift", "acme.order", []int{1, 2}, strct("Order", fd(1, "meta", tRef(1, "Meta")), fd(2, "items", tRef(2, "Items")))),
		mkFile("common.thrift", "partner.common", none, strct("Meta", fd(1, "id", i32))),
		mkFile("catalog.thrift", "acme.catalog", []int{3}, tdef("Items", tList(tRef(3, "Item")))),
		mkFile("catalog_types.thrift", "acme.common", none, strct("Item", fd(1, "sku", str)))}}, "fastgo", nil, true, "fixed-late-include-fastgo"})
	// an include that SHARES the includer's go namespace, used for extends, field types, a typedef and a constant:
	// nothing of it may be qualified (ServicePrefix and getTypeName compare go namespaces, not files)
	plan = append(plan, plannedUnit{&Program{Files: []*File{
		mkFile("api.thrift", "acme.api", []int{1, 2},
			strct("Req", fd(1, "h", tRef(1, "Header")), fd(2, "k", tRef(1, "Kind"))), tdef("H2", tRef(1, "Header")),
			cdef("DefaultKind", tRef(1, "Kind"), cId("health.Kind.A")), cdef("Limit", i32, cId("health.MaxLimit")),
			svc("Api", &idlgen.NamedRef{File: 1, Name: "Health"}, fnVoid("call", []*idlgen.Field{fd(1, "r", tRef(0, "Req"))}, nil)),
			svc("Audit", &idlgen.NamedRef{File: 2, Name: "Base"}, fnVoid("log", nil, nil))),
		mkFile("health.thrift", "acme.api", none, enum("Kind", "A", "B"), strct("Header", fd(1, "id", i32)), cdef("MaxLimit", i32, cInt("10")),
			svc("Health", nil, fnVoid("ping", nil, nil))),
		mkFile("base.thrift", "acme.base", none, svc("Base", nil, fnVoid("version", nil, nil)))}}, "go", nil, true, "fixed-same-namespace-include"})
	// integer constants given BY IDENTIFIER (an enum value, another integer constant, also across an include) and used where
	// another integer width or a typedef of one is expected: constant bodies, list elements, map keys, field defaults,
	// members of a struct literal (Resolver.onInt must convert: the constant may be a typed Go constant)
	{
		i64t, i16t, bytet := tBase(idlgen.I64), tBase(idlgen.I16), tBase(idlgen.Byte)
		jobFields := []*idlgen.Field{
			fdDef(1, "level", i32, cId("levels.DEFAULT_LEVEL")), fdDef(2, "urgent", i32, cId("levels.Level.HIGH")),
			fdDef(3, "retries", i16t, cId("levels.MAX_RETRIES")), fdDef(4, "weight", tRef(0, "Weight"), cId("levels.DEFAULT_LEVEL")),
			fdDef(5, "budget", i64t, cId("BASE_WEIGHT")), fdDef(6, "slots", tList(i16t), cList(cId("levels.SLOTS"), cInt("4"))),
			fdDef(7, "tiny", bytet, cId("levels.DEFAULT_LEVEL")), fdDef(8, "small", tRef(1, "Small"), cId("LEVEL"))}
		jobFields[4].Req = idlgen.Optional
		plan = append(plan, plannedUnit{&Program{Files: []*File{
			mkFile("job.thrift", "sched.job", []int{1},
				tdef("Weight", i64t),
				cdef("RETRIES", i32, cId("levels.MAX_RETRIES")), cdef("LEVEL", i32, cId("levels.DEFAULT_LEVEL")),
				cdef("BASE_WEIGHT", i64t, cId("levels.DEFAULT_LEVEL")),
				cdef("WEIGHTS", tList(i64t), cList(cInt("1"), cId("levels.SLOTS"), cId("levels.DEFAULT_LEVEL"))),
				cdef("SLOT_NAMES", tMap(i16t, str), cMap(cId("levels.SLOTS"), cStr("all"), cId("levels.DEFAULT_LEVEL"), cStr("one"))),
				strct("Job", jobFields...),
				cdef("TEMPLATE", tRef(0, "Job"), cMap(cStr("weight"), cId("LEVEL"), cStr("retries"), cId("levels.DEFAULT_LEVEL"))),
				svc("Scheduler", nil, &idlgen.Function{Name: "submit", Ret: tRef(0, "Job"), Args: []*idlgen.Field{fd(1, "job", tRef(0, "Job")), fdDef(2, "weight", i64t, cId("levels.DEFAULT_LEVEL"))}})),
			mkFile("levels.thrift", "sched.levels", none,
				&idlgen.Enum{Name: "Level", Values: []idlgen.EnumValue{{Name: "LOW", Value: 1, HasValue: true}, {Name: "NORMAL", Value: 5, HasValue: true}, {Name: "HIGH", Value: 9, HasValue: true}}},
				tdef("Small", i16t),
				cdef("DEFAULT_LEVEL", i32, cId("Level.NORMAL")), cdef("MAX_RETRIES", i32, cInt("3")), cdef("SLOTS", i16t, cInt("16")))}}, "go", nil, true, "fixed-int-const-by-ident"})
	}
	// two IDL files with one base name and one go namespace in different directories, reached through different include
	// chains: with -r both map to common.go, the second is written as common_1.go — each with ITS OWN import block
	plan = append(plan, plannedUnit{&Program{Files: []*File{
		mkFile("order.thrift", "shop.order", []int{1, 2},
			strct("Order", fd(1, "id", tBase(idlgen.I64)), fd(2, "total", tRef(1, "Money")), fdOpt(3, "shipment", tRef(2, "Shipment"))),
			svc("Orders", nil, &idlgen.Function{Name: "get", Ret: tRef(0, "Order"), Args: []*idlgen.Field{fd(1, "id", tBase(idlgen.I64))}})),
		mkFile("billing/common.thrift", "shop.common", none, enum("Currency", "EUR", "USD"),
			strct("Money", fd(1, "cents", tBase(idlgen.I64)), fdOpt(2, "currency", tRef(1, "Currency")))),
		mkFile("shipment.thrift", "shop.shipment", []int{3}, strct("Shipment", fd(1, "to", tRef(3, "Address")), fdDef(2, "parcels", i32, cId("common.MAX_PARCELS")))),
		mkFile("shipping/common.thrift", "shop.common", none, cdef("MAX_PARCELS", i32, cInt("20")), strct("Address", fd(1, "street", str)))}}, "go", nil, true, "fixed-same-output-path"})
	// fastgo keeps the seen-bits of required fields in a bitset of 8-bit words: every count around a word boundary
	{
		var defs []interface{}
		for _, n := range []int{7, 8, 9, 15, 16, 17, 31, 32, 33, 63, 64, 65} {
			var fs []*idlgen.Field
			for i := 1; i <= n; i++ {
				f := fd(i, fmt.Sprintf("f%d", i), i32)
				f.Req = idlgen.Required
				fs = append(fs, f)
			}
			defs = append(defs, strct(fmt.Sprintf("R%d", n), fs...))
		}
		plan = append(plan, plannedUnit{&Program{Files: []*File{mkFile("a.thrift", "pa", none, defs...)}}, "fastgo", nil, true, "fixed-required-counts"})
	}
	units := make([]batch.Unit, len(plan))
	for i, pu := range plan {
		units[i] = batch.Unit{Prog: pu.prog, Backend: pu.backend, Options: pu.opts, Recurse: pu.recurse, Tag: pu.tag}
	}
	b, err := batch.Build(filepath.Join(r.work, "batch"), r.repo, units, nil)
	if b != nil {
		fmt.Println(b.Summary())
	}
	if b == nil {
		fmt.Println("ERROR:", err)
		return 2
	}
	if err != nil {
		// the driver could not be linked and no unit is to blame: C01 does not need the driver, go on with go build ./...
		out.Count("batch.driver-not-linked")
		fmt.Println("c01: batch driver not linked:", firstLine(err.Error()))
	}
	for k, d := range b.Timing {
		out.Stats["timing_ms.batch."+k] = int(d.Milliseconds())
	}
	// every generated package, whether the driver imports it or not: ONE go build over the module
	t0 := time.Now()
	extra := goBuildAll(filepath.Join(b.Dir, "mod"), len(b.Units))
	out.Stats["timing_ms.go_build_all"] = int(time.Since(t0).Milliseconds())
	// go vet as a second opinion of the type checker: ONE unit in the quick tier, a quarter of the clean units
	// (one go command) in the thorough tier. Only type-check lines count; analyser opinions are not C01's.
	t0 = time.Now()
	vetted := map[int][]string{}
	var vetDirs []string
	for i := range b.Units {
		u := &b.Units[i]
		if u.Exit != 0 || len(u.ParseErrors) > 0 || len(u.BuildErrors) > 0 || len(extra[u.Key]) > 0 || len(u.Files) == 0 {
			continue
		}
		if r.tier == "thorough" && i%4 == int(r.seed)%4 || r.tier != "thorough" && len(vetDirs) == 0 && i >= int(r.seed)%len(b.Units) {
			vetDirs = append(vetDirs, u.Key)
			out.Count("oracle.vet.units")
		}
	}
	for d, lines := range goBuild(filepath.Join(b.Dir, "mod"), vetDirs, true) {
		if d == "analyser" {
			out.Stats["oracle.vet.analyser-lines"] = len(lines)
			continue
		}
		var k int
		if _, err := fmt.Sscanf(d, "u%d", &k); err != nil || k >= len(b.Units) {
			continue
		}
		for _, ln := range lines {
			if rePos.MatchString(ln) && reTypeErr.MatchString(ln) {
				vetted[k] = append(vetted[k], ln)
			}
		}
	}
	out.Stats["timing_ms.vet"] = int(time.Since(t0).Milliseconds())

	type group struct {
		unit int
		f    finding
		size int
	}
	groups := map[string]*group{}
	for i := range b.Units {
		u := &b.Units[i]
		pu := plan[i]
		optKey := strings.Join(u.PLineOptions(), ",")
		out.Count("unit.options." + orStr(optKey, "default"))
		if !pu.recurse {
			out.Count("unit.no-recurse")
		}
		compile := append(append(append([]string{}, u.BuildErrors...), extra[u.Key]...), vetted[i]...)
		f := judge(u.Exit, u.Stderr, u.ParseErrors, compile)
		out.Count("unit.outcome." + orStr(f.head(), "ok"))
		if f.Kind == "reject" && f.Class != "reserve" {
			// a generated program refused with a diagnostic: not a C01 violation, but worth a look (generator or checker)
			out.Sample(map[string]interface{}{"rejected_unit": u.Key, "stderr": firstLine(strings.TrimSpace(u.Stderr)), "options": u.Options})
		}
		// ---- correspondence
		if u.Exit == 0 && len(u.ParseErrors) == 0 || f.Kind == "reject" && f.Class == "reserve" {
			if why := tieOps(out, u.Key, u.IDLDir, pu.prog.Files[0].Path, filepath.Join(b.Dir, "mod", u.Key), u.Backend, u.Options, pu.recurse, f.Kind == "reject", u.Stderr); why != "" {
				out.Count("tie.skip." + strings.SplitN(why, ":", 2)[0])
				if strings.HasPrefix(why, "panic") || strings.HasPrefix(why, "frontend") {
					out.Sample(map[string]string{"tie_skipped": u.Key, "why": why})
				}
			} else {
				out.Count("tie.units")
			}
		}
		if !f.violation() {
			continue
		}
		gk := f.head() + "|" + u.Backend + "|" + strings.Join(u.Options, ",")
		sz := size(pu.prog)
		if g, ok := groups[gk]; !ok || sz < g.size {
			groups[gk] = &group{unit: i, f: f, size: sz}
		}
		out.Count("unit.failing")
	}
	// what each unit was, for turning a model/implementation disagreement into a concrete input (checks/c01.py)
	uj := map[string]interface{}{}
	for i := range b.Units {
		u := &b.Units[i]
		pu := plan[i]
		s := &subject{Prog: pu.prog, Backend: pu.backend, Options: pu.opts, Recurse: pu.recurse}
		uj[u.Key] = map[string]interface{}{"cmd": s.raw().cmdline(), "files": pu.prog.Render(), "main": pu.prog.Files[0].Path,
			"backend": u.Backend, "options": u.Options, "recurse": pu.recurse, "idl": renderText(pu.prog), "tag": pu.tag}
	}
	if bs, err := json.Marshal(uj); err == nil {
		os.WriteFile(filepath.Join(r.out.Dir, "units.json"), bs, 0o644)
	}
	var gks []string
	for k := range groups {
		gks = append(gks, k)
	}
	sort.Strings(gks)
	for _, gk := range gks {
		g := groups[gk]
		pu := plan[g.unit]
		s := &subject{Prog: pu.prog, Backend: pu.backend, Options: pu.opts, Recurse: pu.recurse}
		r.groups = append(r.groups, failing{s, g.f, fmt.Sprintf("main:%s:%s", b.Units[g.unit].Key, pu.tag)})
	}
	return 0
}

// goBuildAll builds every generated package of the batch module (unit directories u0 … u<n-1>) with ONE go
// command (more only if some package cannot be loaded) and attributes the output to units.
func goBuildAll(mod string, n int) map[string][]string {
	var dirs []string
	for i := 0; i < n; i++ {
		d := fmt.Sprintf("u%d", i)
		if fi, err := os.Stat(filepath.Join(mod, d)); err == nil && fi.IsDir() {
			dirs = append(dirs, d)
		}
	}
	return goBuild(mod, dirs, false)
}

// ---------------------------------------------------------------- switch stream (in-process, no batch)

// switchStream: generated programs with ONE of idlgen's off-by-default switches turned back on (the shapes behind
// the candidate defects D1–D21), evaluated with the in-process pipeline; every finding is confirmed by go build
// on its minimal input.
func (r *runner) switchStream() {
	rng := vl.NewRng(vl.NewRng(r.seed ^ 0x5157).U64())
	sw := switchConfigs()
	per := 1
	pick := []int{int(r.seed) % len(sw), int(r.seed*5+3) % len(sw), int(r.seed*11+7) % len(sw)}
	if r.tier == "thorough" {
		per = 6
		pick = nil
		for i := range sw {
			pick = append(pick, i)
		}
	}
	t0 := time.Now()
	for _, si := range pick {
		s := sw[si]
		found := map[string]bool{}
		for k := 0; k < per*4; k++ {
			cfg := mainConfig(s.Fastgo)
			cfg.SafeNames = true
			s.Set(&cfg)
			p := idlgen.Generate(rng, cfg)
			be := "go"
			if s.Fastgo {
				be = "fastgo"
			}
			sub := &subject{Prog: p, Backend: be, Options: s.Opts, Recurse: true}
			res := r.chk.runFast(sub.raw())
			f := judge(res.Exit, res.Stderr, res.ParseErrs, res.TypeErrs)
			r.chk.cleanup(res)
			r.count("switch." + s.Name + "." + orStr(f.head(), "ok"))
			if f.violation() && !found[f.head()] {
				found[f.head()] = true
				r.handle(sub, f, "switch:"+s.Name, "")
			}
			if len(found) > 0 && k+1 >= per {
				break
			}
		}
	}
	r.out.Stats["timing_ms.switch_stream"] = int(time.Since(t0).Milliseconds())
}

// noRecurseStream: multi-file programs generated WITHOUT -r, i.e. file by file (thriftgo once per IDL file into one
// output root); evaluated in process, findings confirmed with the binary and go build.
func (r *runner) noRecurseStream() {
	rng := vl.NewRng(vl.NewRng(r.seed ^ 0x4e52).U64())
	n := 3
	if r.tier == "thorough" {
		n = 24
	}
	sets := singleOptions()
	t0 := time.Now()
	seen := map[string]bool{}
	for i := 0; i < n; i++ {
		cfg := mainConfig(false)
		cfg.MaxFiles = 3
		p := idlgen.Generate(rng, cfg)
		if len(p.Files) < 2 {
			p = idlgen.Generate(rng, cfg)
		}
		var opts []string
		if i%2 == 1 {
			opts = sets[rng.Intn(len(sets))]
		}
		sub := &subject{Prog: p, Backend: "go", Options: opts, Recurse: false}
		res := r.chk.runFast(sub.raw())
		f := judge(res.Exit, res.Stderr, res.ParseErrs, res.TypeErrs)
		r.chk.cleanup(res)
		r.count("norecurse." + orStr(f.head(), "ok"))
		r.count(fmt.Sprintf("norecurse.files.%d", len(p.Files)))
		if f.violation() && !seen[f.head()+strings.Join(opts, ",")] {
			seen[f.head()+strings.Join(opts, ",")] = true
			r.handle(sub, f, "norecurse", "")
		}
	}
	r.out.Stats["timing_ms.norecurse_stream"] = int(time.Since(t0).Milliseconds())
}

// ---------------------------------------------------------------- replay

// replay re-runs one minimised input (a replay json written by bin/check) with the REAL toolchain.
func replay(repo, dir, file string) int {
	raw, err := os.ReadFile(file)
	if err != nil {
		fmt.Fprintln(os.Stderr, err)
		return 2
	}
	var doc struct {
		Key   string `json:"key"`
		Input struct {
			Files   map[string]string `json:"files"`
			Main    string            `json:"main"`
			Backend string            `json:"backend"`
			Options []string          `json:"options"`
			Recurse bool              `json:"recurse"`
			Head    string            `json:"head"`
		} `json:"input"`
	}
	if err := json.Unmarshal(raw, &doc); err != nil {
		fmt.Fprintln(os.Stderr, err)
		return 2
	}
	repo, _ = filepath.Abs(repo)
	if dir == "" {
		dir, _ = os.MkdirTemp("", "c01-replay-")
	}
	work := filepath.Join(dir, "work")
	os.RemoveAll(work)
	defer os.RemoveAll(work)
	tg, err := batch.BuildThriftgo(filepath.Join(work, "bin"), mkdir(filepath.Join(work, "bin"), repo))
	if err != nil {
		fmt.Println("ERROR:", err)
		return 2
	}
	chk, err := newChecker(filepath.Join(work, "chk"), repo, tg)
	if err != nil {
		fmt.Println("ERROR:", err)
		return 2
	}
	u := &rawUnit{Files: doc.Input.Files, Main: doc.Input.Main, Backend: doc.Input.Backend, Options: doc.Input.Options, Recurse: doc.Input.Recurse}
	res := chk.run(u, false)
	var lines []string
	if res.Exit == 0 && len(res.ParseErrs) == 0 {
		lines = chk.confirm([]string{res.Dir}, false)[res.Dir]
	}
	f := judge(res.Exit, res.Stderr, res.ParseErrs, lines)
	fmt.Printf("replay %s\n  cmd: %s\n  exit=%d finding=%s\n", doc.Key, u.cmdline(), res.Exit, orStr(f.head(), "none"))
	for _, l := range append(append(firstLines(res.Stderr, 4), res.ParseErrs...), lines...) {
		if strings.TrimSpace(l) != "" {
			fmt.Println("  ", l)
		}
	}
	ans := map[string]interface{}{"key": doc.Key, "head": f.head(), "violation": f.violation(), "same": f.head() == doc.Input.Head}
	bs, _ := json.Marshal(ans)
	os.WriteFile(filepath.Join(dir, "replay-result.json"), bs, 0o644)
	if f.violation() {
		return 1
	}
	return 0
}
