package main

// worker.go: thriftgo as a long-lived worker process. Starting the thriftgo binary costs most of a second on a
// loaded machine, and the shrinker asks for hundreds of generator runs; `c01 worker` is this same binary running
// the generator of the repo under test IN PROCESS (the steps of sdk.InvokeThriftgo with a fresh generator and
// fresh backends per request), one request per line. A request that kills the worker (os.Exit in
// resolveTypesAndValues, a fatal error) is reported as such and the worker is restarted.
// The worker only STEERS the search: every reported verdict is re-established with the thriftgo BINARY built from
// the repo and `go build` (runner.handle / confirm).

import (
	"bufio"
	"encoding/json"
	"fmt"
	"os"
	"os/exec"
	"runtime/debug"
	"syscall"

	targs "github.com/cloudwego/thriftgo/args"
	"github.com/cloudwego/thriftgo/generator"
	"github.com/cloudwego/thriftgo/generator/fastgo"
	"github.com/cloudwego/thriftgo/generator/golang"
	"github.com/cloudwego/thriftgo/parser"
	"github.com/cloudwego/thriftgo/plugin"
	"github.com/cloudwego/thriftgo/semantic"
	"github.com/cloudwego/thriftgo/version"
)

type workReq struct {
	Dir  string   `json:"dir"`
	Args []string `json:"args"`
	Log  string   `json:"log"` // file that receives what thriftgo prints (fd 1 and 2)
}

type workResp struct {
	Exit int `json:"exit"`
}

// invokeFresh is sdk.InvokeThriftgo without its package-level generator (GoBackend keeps its error state).
func invokeFresh(args []string) (err error) {
	resetNamingStyles()
	var a targs.Arguments
	if err = a.Parse(append([]string{"thriftgo"}, args...)); err != nil {
		return err
	}
	log := a.MakeLogFunc()
	ast, err := parser.ParseFile(a.IDL, a.Includes, true)
	if err != nil {
		return err
	}
	if path := parser.CircleDetect(ast); len(path) > 0 {
		return fmt.Errorf("found include circle:\n\t%s", path)
	}
	checker := semantic.NewChecker(semantic.Options{FixWarnings: true})
	warns, err := checker.CheckAll(ast)
	log.MultiWarn(warns)
	if err != nil {
		return err
	}
	if err = semantic.ResolveSymbols(ast); err != nil {
		return err
	}
	req := &plugin.Request{Version: version.ThriftgoVersion, OutputPath: a.OutputPath, Recursive: a.Recursive, AST: ast}
	langs, err := a.Targets()
	if err != nil {
		return err
	}
	if len(langs) == 0 {
		return fmt.Errorf("No output language(s) specified")
	}
	var g generator.Generator
	_ = g.RegisterBackend(new(golang.GoBackend))
	_ = g.RegisterBackend(new(fastgo.FastGoBackend))
	for _, out := range langs {
		req.Language = out.Language
		req.OutputPath = a.Output(out.Language)
		res := g.Generate(&generator.Arguments{Out: out, Req: req, Log: log})
		if err = g.Persist(res); err != nil {
			return err
		}
	}
	return nil
}

// workerMain: the loop of `c01 worker`.
func workerMain() {
	ctl, _ := syscall.Dup(1) // answers go to the original stdout
	out := os.NewFile(uintptr(ctl), "ctl")
	in := bufio.NewReaderSize(os.Stdin, 1<<20)
	home, _ := os.Getwd()
	for {
		line, err := in.ReadBytes('\n')
		if err != nil {
			return
		}
		var rq workReq
		if json.Unmarshal(line, &rq) != nil {
			return
		}
		lf, err := os.OpenFile(rq.Log, os.O_CREATE|os.O_WRONLY|os.O_TRUNC, 0o644)
		if err != nil {
			return
		}
		syscall.Dup2(int(lf.Fd()), 1)
		syscall.Dup2(int(lf.Fd()), 2)
		os.Chdir(rq.Dir)
		exit := func() (exit int) {
			defer func() {
				if r := recover(); r != nil { // main.handlePanic: prints and exits 0
					fmt.Println("Recovered from panic:")
					fmt.Println(r)
					os.Stderr.Write(debug.Stack())
				}
			}()
			if err := invokeFresh(rq.Args); err != nil {
				println(err.Error())
				return 2
			}
			return 0
		}()
		lf.Close()
		os.Chdir(home)
		b, _ := json.Marshal(workResp{Exit: exit})
		out.Write(append(b, '\n'))
	}
}

type worker struct {
	self string
	cmd  *exec.Cmd
	in   *bufio.Writer
	out  *bufio.Reader
	dead int
}

func (w *worker) start() error {
	w.cmd = exec.Command(w.self, "worker")
	w.cmd.Env = append(os.Environ(), goEnv...)
	stdin, err := w.cmd.StdinPipe()
	if err != nil {
		return err
	}
	stdout, err := w.cmd.StdoutPipe()
	if err != nil {
		return err
	}
	if err := w.cmd.Start(); err != nil {
		return err
	}
	w.in = bufio.NewWriter(stdin)
	w.out = bufio.NewReader(stdout)
	return nil
}

// invoke runs one generator request; exit is thriftgo's exit status (2 when the worker died), log what it printed.
func (w *worker) invoke(dir string, args []string, logFile string) (exit int, log string) {
	if w.cmd == nil {
		if err := w.start(); err != nil {
			return -1, err.Error()
		}
	}
	b, _ := json.Marshal(workReq{Dir: dir, Args: args, Log: logFile})
	w.in.Write(append(b, '\n'))
	w.in.Flush()
	line, err := w.out.ReadBytes('\n')
	lb, _ := os.ReadFile(logFile)
	if err != nil {
		// the worker died on this request (os.Exit / fatal error inside thriftgo)
		w.cmd.Wait()
		code := 2
		if w.cmd.ProcessState != nil && w.cmd.ProcessState.ExitCode() > 0 {
			code = w.cmd.ProcessState.ExitCode()
		}
		w.cmd = nil
		w.dead++
		return code, string(lb)
	}
	var rs workResp
	json.Unmarshal(line, &rs)
	return rs.Exit, string(lb)
}

func (w *worker) stop() {
	if w.cmd != nil {
		w.in.Flush()
		w.cmd.Process.Kill()
		w.cmd.Wait()
		w.cmd = nil
	}
}
