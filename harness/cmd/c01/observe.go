package main

// observe.go: the correspondence (tie) between the Lean model Lib/Names.lean and the real generator.
// Model input: the REAL AST (thriftgo's parser + semantic passes run in process on the unit's IDL text), the
// naming style as a table obtained from the real golang.CodeUtils.Identify for exactly the raw names of the
// program, the feature switches, the includes, and the package qualifiers the generated code uses.
// Implementation observation: every written .go file parsed with go/parser: package-level identifiers, per
// struct type its fields and methods, per service method its parameter names, the import table.

import (
	"fmt"
	"go/ast"
	goparser "go/parser"
	"go/token"
	"path/filepath"
	"regexp"
	"sort"
	"strconv"
	"strings"

	"github.com/cloudwego/thriftgo/generator/backend"
	"github.com/cloudwego/thriftgo/generator/golang"
	"github.com/cloudwego/thriftgo/generator/golang/styles"
	"github.com/cloudwego/thriftgo/parser"
	"github.com/cloudwego/thriftgo/semantic"

	"verifharness/internal/vl"
)

// tieSkip returns a reason when the option set makes the default templates' identifier sets inapplicable.
func tieSkip(backend string, opts []string) string {
	for _, o := range opts {
		n := o
		v := ""
		if i := strings.IndexByte(o, '='); i >= 0 {
			n, v = o[:i], o[i+1:]
		}
		on := v == "" || v == "true"
		switch {
		case n == "template" && v != "default":
			return "template"
		case on && (n == "no_default_serdes" || n == "skip_go_gen" || n == "trim_idl" || n == "code_ref" || n == "code_ref_slim" ||
			n == "exp_code_ref" || n == "keep_code_ref_name" || n == "thrift_streaming" || n == "streamx" || n == "enable_nested_struct" ||
			n == "use_option" || n == "skip_empty" || n == "reorder_fields" || n == "enable_ref_interface" || n == "no_alias_type_reflection_method"):
			return n
		case n == "use_package" || n == "thrift_import_path":
			return n
		}
	}
	return ""
}

func optOn(opts []string, name string, def bool) bool {
	on := def
	for _, o := range opts {
		n, v := o, ""
		if i := strings.IndexByte(o, '='); i >= 0 {
			n, v = o[:i], o[i+1:]
		}
		if n == name {
			on = v == "" || v == "true"
		}
	}
	return on
}

// resetNamingStyles: the naming styles are process-wide singletons (styles.NewNamingStyle hands out shared
// instances) and `ignore_initialisms` switches the shared instance: a thriftgo PROCESS is not affected, a process
// that builds several CodeUtils (this harness, the generator worker) must undo it between units.
func resetNamingStyles() {
	for _, n := range styles.NamingStyles() {
		if st := styles.NewNamingStyle(n); st != nil {
			st.UseInitialisms(true)
		}
	}
}

// loadAST runs the front end of thriftgo in process (as sdk.InvokeThriftgo does).
func loadAST(idlDir, main string) (*parser.Thrift, error) {
	t, err := parser.ParseFile(filepath.Join(idlDir, filepath.FromSlash(main)), []string{idlDir}, true)
	if err != nil {
		return nil, err
	}
	if p := parser.CircleDetect(t); len(p) > 0 {
		return nil, fmt.Errorf("include circle %s", p)
	}
	chk := semantic.NewChecker(semantic.Options{FixWarnings: true})
	if _, err := chk.CheckAll(t); err != nil {
		return nil, err
	}
	if err := semantic.ResolveSymbols(t); err != nil {
		return nil, err
	}
	return t, nil
}

var reProcess = regexp.MustCompile(`process '([^']+)' failed`)

type tieFile struct {
	ast   *parser.Thrift
	goRel string // expected generated file, relative to the unit's output root
}

// tieOps builds the op lines of one unit and (for exit-0 units) the implementation's answers.
// unitDir: absolute path of the unit's output root (…/mod/u3); rejected: thriftgo refused with "failed to reserve".
func tieOps(out *vl.Out, key, idlDir, main, unitDir, backendName string, opts []string, recurse, rejected bool, stderr string) (skipped string) {
	defer func() {
		if r := recover(); r != nil {
			skipped = fmt.Sprintf("panic:%v", r)
		}
	}()
	if why := tieSkip(backendName, opts); why != "" {
		return "option:" + why
	}
	root, err := loadAST(idlDir, main)
	if err != nil {
		return "frontend:" + firstLine(err.Error())
	}
	resetNamingStyles()
	cu := golang.NewCodeUtils(backend.DummyLogFunc())
	all := append(append([]string{}, opts...), "package_prefix=batch/"+key)
	if err := cu.HandleOptions(all); err != nil {
		return "options:" + firstLine(err.Error())
	}
	var files []tieFile
	seen := map[*parser.Thrift]bool{}
	claimed := map[string]int{}
	add := func(t *parser.Thrift) {
		if seen[t] {
			return
		}
		seen[t] = true
		files = append(files, tieFile{ast: t, goRel: filepath.ToSlash(cu.GetFilePath(t))})
		claimed[filepath.ToSlash(cu.GetFilePath(t))]++
	}
	if recurse {
		for t := range root.DepthFirstSearch() {
			add(t)
		}
	} else {
		add(root)
	}
	type line struct{ op, impl string }
	var lines []line
	emit := func(op, impl string) { lines = append(lines, line{op, impl}) }
	h := vl.Hex
	emit(fmt.Sprintf("U %s %s compat=%s kuf=%s deq=%s setter=%s noproc=%s enumann=%s fm=%s halfway=%s adaptor=%s", key, backendName,
		vl.B(optOn(opts, "compatible_names", false)), vl.B(optOn(opts, "keep_unknown_fields", false)), vl.B(optOn(opts, "gen_deep_equal", false)),
		vl.B(optOn(opts, "gen_setter", false)), vl.B(optOn(opts, "no_processor", false)), vl.B(optOn(opts, "get_enum_annotation", false)),
		vl.B(optOn(opts, "with_field_mask", false)), vl.B(optOn(opts, "field_mask_halfway", false)), vl.B(optOn(opts, "apache_adaptor", false))), "ok")
	identSeen := map[string]bool{}
	ident := func(raw string) string {
		id, err := cu.Identify(raw)
		if err != nil {
			panic(err)
		}
		if !identSeen[raw] {
			identSeen[raw] = true
			emit("I "+h(raw)+" "+h(id), "ok")
		}
		return id
	}
	fld := func(op string, f *parser.Field) {
		ident(f.Name)
		emit(fmt.Sprintf("%s %s %d %s", op, h(f.Name), f.ID, vl.B(golang.SupportIsSet(f))), "ok")
	}
	rootNS := ""
	culprit := ""
	if rejected {
		// "process 'x.thrift' failed: …": the innermost file named is the scope whose MustReserve panicked
		ms := reProcess.FindAllStringSubmatch(stderr, -1)
		if len(ms) == 0 {
			return "reject-without-file"
		}
		culprit = filepath.Base(ms[len(ms)-1][1])
	}
	for _, tf := range files {
		t := tf.ast
		if rejected && filepath.Base(t.Filename) != culprit {
			continue
		}
		if claimed[tf.goRel] > 1 {
			out.Count("tie.skip.file-name-conflict")
			continue
		}
		rootNS = t.GetNamespaceOrReferenceName("go")
		emit("F "+h(tf.goRel), "ok")
		for _, sv := range t.Services {
			ident(sv.Name)
			emit(fmt.Sprintf("V %s %s", h(sv.Name), vl.B(sv.Extends != "")), "ok")
			for _, fn := range sv.Functions {
				ident(fn.Name)
				a := ident(fn.Name + "_args")
				r := ident(fn.Name + "_result")
				ident(sv.Name + a)
				ident(sv.Name + r)
				ident("success")
				emit(fmt.Sprintf("M %s %s %s", h(fn.Name), vl.B(fn.Oneway), vl.B(fn.Void)), "ok")
				for _, f := range fn.Arguments {
					fld("A", f)
				}
				for _, f := range fn.Throws {
					fld("X", f)
				}
			}
		}
		for _, st := range t.GetStructLikes() {
			ident(st.Name)
			emit(fmt.Sprintf("S %c %s", st.Category[0], h(st.Name)), "ok")
			for _, f := range st.Fields {
				fld("D", f)
			}
		}
		for _, e := range t.Enums {
			ident(e.Name)
			emit("E "+h(e.Name), "ok")
			for _, v := range e.Values {
				emit("W "+h(v.Name), "ok")
			}
		}
		for _, td := range t.Typedefs {
			ident(td.Alias)
			emit(fmt.Sprintf("Y %s %s", h(td.Alias), vl.B(td.Type.Category.IsStructLike())), "ok")
		}
		for _, c := range t.Constants {
			ident(c.Name)
			emit("C "+h(c.Name), "ok")
		}
		if rejected {
			emit("QO "+key+" "+h(tf.goRel), "reject:reserve")
			continue
		}
		// ---- implementation observation
		ob, err := observeGo(unitDir, tf.goRel, backendName == "fastgo")
		if err != nil {
			// the main file is missing or does not parse: the oracle reports it, nothing to compare
			emit("QO "+key+" "+h(tf.goRel), "ok")
			out.Count("tie.skip.unparsable-output")
			continue
		}
		direct := map[string]bool{}
		for _, inc := range t.Includes {
			if !inc.GetUsed() || inc.Reference == nil {
				continue
			}
			pkg, pth := cu.Import(inc.Reference)
			same := inc.Reference.GetNamespaceOrReferenceName("go") == rootNS
			direct[pth] = true
			emit(fmt.Sprintf("N %s %s %s", h(pkg), h(pth), vl.B(same)), "ok")
		}
		// imports of generated packages that are not direct includes were added late by Scope.includeIDL
		// (types reached through typedefs / constants of a third file): observed, handed to the model as such
		var late []string
		for pth := range ob.imports {
			if strings.HasPrefix(pth, "batch/"+key+"/") && !direct[pth] {
				late = append(late, pth)
			}
		}
		sort.Strings(late)
		for _, pth := range late {
			parts := strings.Split(pth, "/")
			emit(fmt.Sprintf("N %s %s 0", h(strings.ToLower(parts[len(parts)-1])), h(pth)), "ok")
			out.Count("tie.late-include")
		}
		var qs []string
		for q := range ob.qualifiers {
			qs = append(qs, h(q))
		}
		sort.Strings(qs)
		emit("Q "+strings.Join(qs, " "), "ok")
		who := " " + key + " " + h(tf.goRel)
		emit("QO"+who, "ok")
		emit("QG"+who, "globals "+strings.Join(ob.globals, ","))
		emit("QT"+who, "types "+strings.Join(ob.types, ";"))
		emit("QP"+who, "params "+strings.Join(ob.params, ";"))
		emit("QI"+who, "imports "+strings.Join(ob.importList(), ","))
	}
	for _, l := range lines {
		out.Case(l.op, l.impl, l.op[0] == 'Q' && len(l.op) > 1)
	}
	return ""
}

type observation struct {
	globals    []string          // sorted package-level identifiers (init and _ excluded)
	types      []string          // "Name=member,member" for every struct type with named fields or methods, sorted
	params     []string          // "Iface.Method=a,b" for every interface method, sorted
	imports    map[string]string // path -> alias ("" = none)
	qualifiers map[string]bool   // package qualifiers used in the bodies
}

func (o *observation) importList() []string {
	var out []string
	for p, a := range o.imports {
		out = append(out, p+"="+a)
	}
	sort.Strings(out)
	return out
}

// observeGo parses <unitDir>/<goRel> (and k-<base>.go beside it for fastgo) and extracts the declared names.
func observeGo(unitDir, goRel string, fastgo bool) (*observation, error) {
	fset := token.NewFileSet()
	paths := []string{filepath.Join(unitDir, filepath.FromSlash(goRel))}
	if fastgo {
		paths = append(paths, filepath.Join(filepath.Dir(paths[0]), "k-"+filepath.Base(paths[0])))
	}
	ob := &observation{imports: map[string]string{}, qualifiers: map[string]bool{}}
	members := map[string][]string{}
	structs := map[string]bool{}
	var order []string
	for pi, p := range paths {
		f, err := goparser.ParseFile(fset, p, nil, goparser.SkipObjectResolution)
		if err != nil {
			return nil, err
		}
		local := map[string]bool{}
		if pi == 0 {
			for _, im := range f.Imports {
				pth, _ := strconv.Unquote(im.Path.Value)
				alias := ""
				name := pth[strings.LastIndexByte(pth, '/')+1:]
				if im.Name != nil {
					alias = im.Name.Name
					name = alias
				}
				ob.imports[pth] = alias
				local[name] = true
			}
		}
		for _, d := range f.Decls {
			switch d := d.(type) {
			case *ast.GenDecl:
				for _, sp := range d.Specs {
					switch sp := sp.(type) {
					case *ast.ValueSpec:
						for _, n := range sp.Names {
							if n.Name != "_" {
								ob.globals = append(ob.globals, n.Name)
							}
						}
					case *ast.TypeSpec:
						ob.globals = append(ob.globals, sp.Name.Name)
						switch t := sp.Type.(type) {
						case *ast.StructType:
							structs[sp.Name.Name] = true
							order = append(order, sp.Name.Name)
							for _, fd := range t.Fields.List {
								for _, n := range fd.Names {
									members[sp.Name.Name] = append(members[sp.Name.Name], n.Name)
								}
							}
						case *ast.InterfaceType:
							for _, m := range t.Methods.List {
								ft, ok := m.Type.(*ast.FuncType)
								if !ok || len(m.Names) == 0 {
									continue
								}
								var ps []string
								for i, prm := range ft.Params.List {
									if i == 0 {
										continue // ctx context.Context
									}
									for _, n := range prm.Names {
										ps = append(ps, n.Name)
									}
								}
								ob.params = append(ob.params, sp.Name.Name+"."+m.Names[0].Name+"="+strings.Join(ps, ","))
							}
						}
					}
				}
			case *ast.FuncDecl:
				if d.Recv == nil {
					if d.Name.Name != "init" && d.Name.Name != "_" {
						ob.globals = append(ob.globals, d.Name.Name)
					}
					continue
				}
				if len(d.Recv.List) == 1 {
					rt := d.Recv.List[0].Type
					if st, ok := rt.(*ast.StarExpr); ok {
						rt = st.X
					}
					if id, ok := rt.(*ast.Ident); ok {
						members[id.Name] = append(members[id.Name], d.Name.Name)
					}
				}
			}
		}
		if pi == 0 {
			ast.Inspect(f, func(n ast.Node) bool {
				if se, ok := n.(*ast.SelectorExpr); ok {
					if id, ok := se.X.(*ast.Ident); ok && local[id.Name] {
						ob.qualifiers[id.Name] = true
					}
				}
				return true
			})
		}
	}
	sort.Strings(ob.globals)
	for _, n := range order {
		ms := append([]string(nil), members[n]...)
		sort.Strings(ms)
		ob.types = append(ob.types, n+"="+strings.Join(ms, ","))
	}
	sort.Strings(ob.types) // whole entries, as the model driver sorts them
	sort.Strings(ob.params)
	return ob, nil
}
