package main

// prog.go: structural operations on idlgen programs that idlgen itself does not offer: deep copy, a
// type-directed walk over constant expressions, consistent renaming of every identifier (used both to push
// names from C01's stress pool into generated programs and for the canonical renaming step of the shrinker),
// a light validity check and a size measure.

import (
	"fmt"
	"sort"
	"strings"

	"verifharness/internal/idlgen"
)

type (
	Program = idlgen.Program
	File    = idlgen.File
	Type    = idlgen.Type
	Const   = idlgen.Const
)

func cloneType(t *Type) *Type {
	if t == nil {
		return nil
	}
	c := *t
	c.Elem, c.Key = cloneType(t.Elem), cloneType(t.Key)
	if t.Named != nil {
		n := *t.Named
		c.Named = &n
	}
	return &c
}

func cloneConst(k *Const) *Const {
	if k == nil {
		return nil
	}
	c := *k
	c.Items = nil
	for _, it := range k.Items {
		c.Items = append(c.Items, cloneConst(it))
	}
	return &c // Val is shared: it is never mutated
}

func cloneField(f *idlgen.Field) *idlgen.Field {
	c := *f
	c.Type = cloneType(f.Type)
	c.Default = cloneConst(f.Default)
	c.Annotations = append([]idlgen.Annotation(nil), f.Annotations...)
	return &c
}

func cloneFields(fs []*idlgen.Field) []*idlgen.Field {
	var out []*idlgen.Field
	for _, f := range fs {
		out = append(out, cloneField(f))
	}
	return out
}

func cloneProgram(p *Program) *Program {
	q := &Program{}
	for _, f := range p.Files {
		g := &File{Path: f.Path, GoNS: f.GoNS, Includes: append([]int(nil), f.Includes...), Order: append([]idlgen.DefRef(nil), f.Order...)}
		for _, t := range f.Typedefs {
			g.Typedefs = append(g.Typedefs, &idlgen.Typedef{Name: t.Name, Type: cloneType(t.Type)})
		}
		for _, e := range f.Enums {
			g.Enums = append(g.Enums, &idlgen.Enum{Name: e.Name, Values: append([]idlgen.EnumValue(nil), e.Values...)})
		}
		for _, s := range f.Structs {
			g.Structs = append(g.Structs, &idlgen.Struct{Kind: s.Kind, Name: s.Name, Fields: cloneFields(s.Fields)})
		}
		for _, c := range f.Consts {
			g.Consts = append(g.Consts, &idlgen.ConstDef{Name: c.Name, Type: cloneType(c.Type), Value: cloneConst(c.Value)})
		}
		for _, s := range f.Services {
			sv := &idlgen.Service{Name: s.Name}
			if s.Extends != nil {
				e := *s.Extends
				sv.Extends = &e
			}
			for _, fn := range s.Functions {
				sv.Functions = append(sv.Functions, &idlgen.Function{Name: fn.Name, Oneway: fn.Oneway, Ret: cloneType(fn.Ret), Args: cloneFields(fn.Args), Throws: cloneFields(fn.Throws)})
			}
			g.Services = append(g.Services, sv)
		}
		q.Files = append(q.Files, g)
	}
	return q
}

// normOrder makes File.Order explicit (the default order of Render when it is empty).
func normOrder(p *Program) {
	for _, f := range p.Files {
		if len(f.Order) > 0 || len(f.Typedefs)+len(f.Enums)+len(f.Structs)+len(f.Consts)+len(f.Services) == 0 {
			continue
		}
		for i := range f.Typedefs {
			f.Order = append(f.Order, idlgen.DefRef{Kind: 't', Idx: i})
		}
		for i := range f.Enums {
			f.Order = append(f.Order, idlgen.DefRef{Kind: 'e', Idx: i})
		}
		for i := range f.Structs {
			f.Order = append(f.Order, idlgen.DefRef{Kind: 's', Idx: i})
		}
		for i := range f.Consts {
			f.Order = append(f.Order, idlgen.DefRef{Kind: 'c', Idx: i})
		}
		for i := range f.Services {
			f.Order = append(f.Order, idlgen.DefRef{Kind: 'v', Idx: i})
		}
	}
}

// ---------------------------------------------------------------- lookups

func findTypedef(f *File, n string) *idlgen.Typedef {
	for _, t := range f.Typedefs {
		if t.Name == n {
			return t
		}
	}
	return nil
}
func findEnum(f *File, n string) *idlgen.Enum {
	for _, t := range f.Enums {
		if t.Name == n {
			return t
		}
	}
	return nil
}
func findStruct(f *File, n string) *idlgen.Struct {
	for _, t := range f.Structs {
		if t.Name == n {
			return t
		}
	}
	return nil
}
func findConst(f *File, n string) *idlgen.ConstDef {
	for _, t := range f.Consts {
		if t.Name == n {
			return t
		}
	}
	return nil
}
func findService(f *File, n string) *idlgen.Service {
	for _, t := range f.Services {
		if t.Name == n {
			return t
		}
	}
	return nil
}

// deref follows typedefs (bounded); nil if a reference dangles.
func deref(p *Program, t *Type) *Type {
	for i := 0; i < 64 && t != nil && t.Kind == idlgen.Named; i++ {
		if t.Named == nil || t.Named.File < 0 || t.Named.File >= len(p.Files) {
			return nil
		}
		td := findTypedef(p.Files[t.Named.File], t.Named.Name)
		if td == nil {
			return t
		}
		t = td.Type
	}
	return t
}

// refKind: 't' 'e' 's' or 0 for a dangling reference.
func refKind(p *Program, r *idlgen.NamedRef) byte {
	if r == nil || r.File < 0 || r.File >= len(p.Files) {
		return 0
	}
	f := p.Files[r.File]
	switch {
	case findTypedef(f, r.Name) != nil:
		return 't'
	case findEnum(f, r.Name) != nil:
		return 'e'
	case findStruct(f, r.Name) != nil:
		return 's'
	}
	return 0
}

func qualify(p *Program, fi, file int, name string) string {
	if file == fi {
		return name
	}
	return p.Files[file].Prefix() + "." + name
}

func includes(p *Program, fi, k int) bool {
	for _, x := range p.Files[fi].Includes {
		if x == k {
			return true
		}
	}
	return false
}

// identRef is what a CIdent denotes.
type identRef struct {
	kind  byte // 'b' true/false, 'c' constant, 'v' enum value, 0 unknown
	file  int
	name  string // constant or enum name
	value string // enum value name
}

// resolveIdent resolves the text of a CIdent seen from file fi where a value of type t is expected.
func resolveIdent(p *Program, fi int, t *Type, text string) identRef {
	if text == "true" || text == "false" {
		return identRef{kind: 'b'}
	}
	parts := strings.Split(text, ".")
	files := append([]int{fi}, p.Files[fi].Includes...)
	// enum member: [prefix.]Enum.Value
	if len(parts) >= 2 {
		en, vn := parts[len(parts)-2], parts[len(parts)-1]
		for _, k := range files {
			if (len(parts) == 2 && k == fi) || (len(parts) == 3 && k != fi && p.Files[k].Prefix() == parts[0]) {
				if e := findEnum(p.Files[k], en); e != nil {
					for _, v := range e.Values {
						if v.Name == vn {
							return identRef{kind: 'v', file: k, name: en, value: vn}
						}
					}
				}
			}
		}
	}
	// constant: [prefix.]Name
	if len(parts) == 1 {
		if findConst(p.Files[fi], parts[0]) != nil {
			return identRef{kind: 'c', file: fi, name: parts[0]}
		}
	}
	if len(parts) == 2 {
		for _, k := range files {
			if k != fi && p.Files[k].Prefix() == parts[0] && findConst(p.Files[k], parts[1]) != nil {
				return identRef{kind: 'c', file: k, name: parts[1]}
			}
		}
	}
	return identRef{}
}

// walkConst visits a constant expression type-directed: fn is called for every node with the type expected
// there (nil when unknown); for the key of a struct literal it is called with isFieldKey=true and the struct.
func walkConst(p *Program, fi int, t *Type, c *Const, fn func(c *Const, t *Type, fieldOf *idlgen.Struct, fieldFile int)) {
	if c == nil {
		return
	}
	fn(c, t, nil, 0)
	d := deref(p, t)
	switch c.Kind {
	case idlgen.CList:
		var et *Type
		if d != nil && (d.Kind == idlgen.List || d.Kind == idlgen.Set) {
			et = d.Elem
		}
		for _, it := range c.Items {
			walkConst(p, fi, et, it, fn)
		}
	case idlgen.CMap:
		if d != nil && d.Kind == idlgen.Named && refKind(p, d.Named) == 's' {
			st := findStruct(p.Files[d.Named.File], d.Named.Name)
			for i := 0; i+1 < len(c.Items); i += 2 {
				fn(c.Items[i], nil, st, d.Named.File)
				var ft *Type
				if _, fd := st.FieldByName(c.Items[i].Text); fd != nil {
					ft = fd.Type
				}
				walkConst(p, fi, ft, c.Items[i+1], fn)
			}
			return
		}
		var kt, vt *Type
		if d != nil && d.Kind == idlgen.Map {
			kt, vt = d.Key, d.Elem
		}
		for i := 0; i+1 < len(c.Items); i += 2 {
			walkConst(p, fi, kt, c.Items[i], fn)
			walkConst(p, fi, vt, c.Items[i+1], fn)
		}
	}
}

// eachConst calls fn for every constant expression root of the program.
func eachConst(p *Program, fn func(fi int, t *Type, c *Const)) {
	for fi, f := range p.Files {
		for _, c := range f.Consts {
			fn(fi, c.Type, c.Value)
		}
		for _, s := range f.Structs {
			for _, fd := range s.Fields {
				if fd.Default != nil {
					fn(fi, fd.Type, fd.Default)
				}
			}
		}
		for _, sv := range f.Services {
			for _, m := range sv.Functions {
				for _, fd := range append(append([]*idlgen.Field{}, m.Args...), m.Throws...) {
					if fd.Default != nil {
						fn(fi, fd.Type, fd.Default)
					}
				}
			}
		}
	}
}

// eachType calls fn for every type expression root of the program.
func eachType(p *Program, fn func(fi int, t *Type)) {
	var rec func(fi int, t *Type)
	rec = func(fi int, t *Type) {
		if t == nil {
			return
		}
		fn(fi, t)
		rec(fi, t.Elem)
		rec(fi, t.Key)
	}
	for fi, f := range p.Files {
		for _, t := range f.Typedefs {
			rec(fi, t.Type)
		}
		for _, s := range f.Structs {
			for _, fd := range s.Fields {
				rec(fi, fd.Type)
			}
		}
		for _, c := range f.Consts {
			rec(fi, c.Type)
		}
		for _, sv := range f.Services {
			for _, m := range sv.Functions {
				rec(fi, m.Ret)
				for _, fd := range m.Args {
					rec(fi, fd.Type)
				}
				for _, fd := range m.Throws {
					rec(fi, fd.Type)
				}
			}
		}
	}
}

// ---------------------------------------------------------------- renaming

// ident identifies one renamable name of a program.
type ident struct {
	Kind  byte   // 'P' file path, 'N' go namespace, 't' 'e' 's' 'c' 'v' definitions, 'f' field, 'w' enum value, 'm' function, 'a' argument, 'x' throws member
	File  int
	Owner string // definition (for 'f' 'w' 'm'), "Svc.fn" for 'a' 'x'
	Name  string
}

func (i ident) String() string {
	return fmt.Sprintf("%c:%d:%s:%s", i.Kind, i.File, i.Owner, i.Name)
}

// idents lists every renamable name in order of appearance (files in index order, definitions in Order).
func idents(p *Program) []ident {
	var out []ident
	for fi, f := range p.Files {
		out = append(out, ident{'P', fi, "", f.Path})
		if f.GoNS != "" {
			out = append(out, ident{'N', fi, "", f.GoNS})
		}
	}
	for fi, f := range p.Files {
		order := f.Order
		for _, d := range order {
			switch d.Kind {
			case 't':
				out = append(out, ident{'t', fi, "", f.Typedefs[d.Idx].Name})
			case 'e':
				e := f.Enums[d.Idx]
				out = append(out, ident{'e', fi, "", e.Name})
				for _, v := range e.Values {
					out = append(out, ident{'w', fi, e.Name, v.Name})
				}
			case 's':
				s := f.Structs[d.Idx]
				out = append(out, ident{'s', fi, "", s.Name})
				for _, fd := range s.Fields {
					out = append(out, ident{'f', fi, s.Name, fd.Name})
				}
			case 'c':
				out = append(out, ident{'c', fi, "", f.Consts[d.Idx].Name})
			case 'v':
				sv := f.Services[d.Idx]
				out = append(out, ident{'v', fi, "", sv.Name})
				for _, m := range sv.Functions {
					out = append(out, ident{'m', fi, sv.Name, m.Name})
					for _, a := range m.Args {
						out = append(out, ident{'a', fi, sv.Name + "." + m.Name, a.Name})
					}
					for _, a := range m.Throws {
						out = append(out, ident{'x', fi, sv.Name + "." + m.Name, a.Name})
					}
				}
			}
		}
	}
	return out
}

// rename returns a copy of p in which the identifiers of m carry their new names; every reference (types,
// extends, constant identifiers, struct-literal keys, qualified prefixes) follows.
func rename(p *Program, m map[ident]string) *Program {
	normOrder(p)
	q := cloneProgram(p)
	nn := func(i ident) string {
		if s, ok := m[i]; ok {
			return s
		}
		return i.Name
	}
	// constant expressions first (they are resolved against the OLD program, rendered with NEW names)
	newPrefix := func(k int) string {
		f := File{Path: nn(ident{'P', k, "", p.Files[k].Path})}
		return f.Prefix()
	}
	newQual := func(fi, k int, name string) string {
		if k == fi {
			return name
		}
		return newPrefix(k) + "." + name
	}
	fixConst := func(fi int, t *Type, root *Const, oldRoot *Const) {
		// walk old and new in lockstep: collect the new nodes in visiting order
		var newNodes []*Const
		var collect func(c *Const)
		collect = func(c *Const) {
			if c == nil {
				return
			}
			newNodes = append(newNodes, c)
			for _, it := range c.Items {
				collect(it)
			}
		}
		collect(root)
		idx := map[*Const]int{}
		n := 0
		var number func(c *Const)
		number = func(c *Const) {
			if c == nil {
				return
			}
			idx[c] = n
			n++
			for _, it := range c.Items {
				number(it)
			}
		}
		number(oldRoot)
		walkConst(p, fi, t, oldRoot, func(c *Const, ct *Type, st *idlgen.Struct, sf int) {
			nc := newNodes[idx[c]]
			if st != nil { // key of a struct literal
				if c.Kind == idlgen.CString {
					nc.Text = nn(ident{'f', sf, st.Name, c.Text})
				}
				return
			}
			if c.Kind != idlgen.CIdent {
				return
			}
			r := resolveIdent(p, fi, ct, c.Text)
			switch r.kind {
			case 'c':
				nc.Text = newQual(fi, r.file, nn(ident{'c', r.file, "", r.name}))
			case 'v':
				nc.Text = newQual(fi, r.file, nn(ident{'e', r.file, "", r.name})) + "." + nn(ident{'w', r.file, r.name, r.value})
			}
		})
	}
	for fi, f := range p.Files {
		g := q.Files[fi]
		for i, c := range f.Consts {
			fixConst(fi, c.Type, g.Consts[i].Value, c.Value)
		}
		for i, s := range f.Structs {
			for j, fd := range s.Fields {
				if fd.Default != nil {
					fixConst(fi, fd.Type, g.Structs[i].Fields[j].Default, fd.Default)
				}
			}
		}
		for i, sv := range f.Services {
			for j, fn := range sv.Functions {
				for k, fd := range fn.Args {
					if fd.Default != nil {
						fixConst(fi, fd.Type, g.Services[i].Functions[j].Args[k].Default, fd.Default)
					}
				}
			}
		}
	}
	// type references
	eachType(q, func(fi int, t *Type) {
		if t.Kind == idlgen.Named && t.Named != nil {
			if k := refKind(p, t.Named); k != 0 {
				t.Named.Name = nn(ident{k, t.Named.File, "", t.Named.Name})
			}
		}
	})
	// definitions
	for fi, f := range p.Files {
		g := q.Files[fi]
		g.Path = nn(ident{'P', fi, "", f.Path})
		if f.GoNS != "" {
			g.GoNS = nn(ident{'N', fi, "", f.GoNS})
		}
		for i, t := range f.Typedefs {
			g.Typedefs[i].Name = nn(ident{'t', fi, "", t.Name})
		}
		for i, e := range f.Enums {
			g.Enums[i].Name = nn(ident{'e', fi, "", e.Name})
			for j, v := range e.Values {
				g.Enums[i].Values[j].Name = nn(ident{'w', fi, e.Name, v.Name})
			}
		}
		for i, s := range f.Structs {
			g.Structs[i].Name = nn(ident{'s', fi, "", s.Name})
			for j, fd := range s.Fields {
				g.Structs[i].Fields[j].Name = nn(ident{'f', fi, s.Name, fd.Name})
			}
		}
		for i, c := range f.Consts {
			g.Consts[i].Name = nn(ident{'c', fi, "", c.Name})
		}
		for i, sv := range f.Services {
			g.Services[i].Name = nn(ident{'v', fi, "", sv.Name})
			if sv.Extends != nil && sv.Extends.File >= 0 && sv.Extends.File < len(p.Files) {
				g.Services[i].Extends.Name = nn(ident{'v', sv.Extends.File, "", sv.Extends.Name})
			}
			for j, fn := range sv.Functions {
				g.Services[i].Functions[j].Name = nn(ident{'m', fi, sv.Name, fn.Name})
				for k, a := range fn.Args {
					g.Services[i].Functions[j].Args[k].Name = nn(ident{'a', fi, sv.Name + "." + fn.Name, a.Name})
				}
				for k, a := range fn.Throws {
					g.Services[i].Functions[j].Throws[k].Name = nn(ident{'x', fi, sv.Name + "." + fn.Name, a.Name})
				}
			}
		}
	}
	return q
}

// ---------------------------------------------------------------- validity and size

// valid: every reference resolves and is reachable through a direct include, names that thrift requires to be
// unique are unique, file paths are distinct. (A light check that keeps the shrinker from wasting thriftgo runs.)
func valid(p *Program) bool {
	if len(p.Files) == 0 {
		return false
	}
	paths := map[string]bool{}
	for fi, f := range p.Files {
		if paths[f.Path] || f.Path == "" {
			return false
		}
		paths[f.Path] = true
		prefixes := map[string]bool{}
		for _, k := range f.Includes {
			if k <= 0 || k >= len(p.Files) || k == fi {
				return false
			}
			if prefixes[p.Files[k].Prefix()] {
				return false
			}
			prefixes[p.Files[k].Prefix()] = true
		}
		names := map[string]bool{}
		dup := func(n string) bool {
			if n == "" || names[n] {
				return true
			}
			names[n] = true
			return false
		}
		for _, t := range f.Typedefs {
			if dup(t.Name) {
				return false
			}
		}
		for _, t := range f.Enums {
			if dup(t.Name) || len(t.Values) == 0 {
				return false
			}
		}
		for _, t := range f.Structs {
			if dup(t.Name) {
				return false
			}
		}
		for _, t := range f.Consts {
			if dup(t.Name) {
				return false
			}
		}
		for _, t := range f.Services {
			if dup(t.Name) {
				return false
			}
			if t.Extends != nil {
				if t.Extends.File < 0 || t.Extends.File >= len(p.Files) || findService(p.Files[t.Extends.File], t.Extends.Name) == nil {
					return false
				}
				if t.Extends.File != fi && !includes(p, fi, t.Extends.File) {
					return false
				}
			}
		}
	}
	ok := true
	eachType(p, func(fi int, t *Type) {
		if t.Kind == idlgen.Named {
			if refKind(p, t.Named) == 0 || (t.Named.File != fi && !includes(p, fi, t.Named.File)) {
				ok = false
			}
		}
	})
	if !ok {
		return false
	}
	eachConst(p, func(fi int, t *Type, c *Const) {
		walkConst(p, fi, t, c, func(c *Const, ct *Type, st *idlgen.Struct, sf int) {
			if st != nil {
				if _, fd := st.FieldByName(c.Text); fd == nil || c.Kind != idlgen.CString {
					ok = false // key of a struct literal that names no member
				}
				return
			}
			if !constFits(p, fi, ct, c) {
				ok = false
			}
		})
	})
	// reachability: every file other than the main one is included by some file
	for k := 1; k < len(p.Files); k++ {
		inc := false
		for fi := range p.Files {
			if fi != k && includes(p, fi, k) {
				inc = true
			}
		}
		if !inc {
			return false
		}
	}
	return ok
}

// baseClass: coarse class of a dereferenced type for checking literals: i(nteger) b(ool) d(ouble) s(tring/binary)
// L(ist/set) M(ap) e(num) S(truct) or 0.
func baseClass(p *Program, t *Type) byte {
	d := deref(p, t)
	if d == nil {
		return 0
	}
	switch d.Kind {
	case idlgen.Bool:
		return 'b'
	case idlgen.Byte, idlgen.I16, idlgen.I32, idlgen.I64:
		return 'i'
	case idlgen.Double:
		return 'd'
	case idlgen.String:
		return 's'
	case idlgen.Binary:
		return 'B'
	case idlgen.List, idlgen.Set:
		return 'L'
	case idlgen.Map:
		return 'M'
	case idlgen.Named:
		switch refKind(p, d.Named) {
		case 'e':
			return 'e'
		case 's':
			return 'S'
		}
	}
	return 0
}

// constFits: the expression c is of a form thrift accepts where a value of type t is expected (the shrinker must
// not manufacture ill-typed programs: thriftgo does not type-check identifiers in constant expressions).
func constFits(p *Program, fi int, t *Type, c *Const) bool {
	k := baseClass(p, t)
	if k == 0 {
		return false
	}
	switch c.Kind {
	case idlgen.CInt:
		return k == 'i' || k == 'd' || k == 'b' || k == 'e'
	case idlgen.CDouble:
		return k == 'd'
	case idlgen.CString:
		return k == 's' || k == 'B'
	case idlgen.CList:
		return k == 'L'
	case idlgen.CMap:
		return k == 'M' || k == 'S'
	case idlgen.CIdent:
		r := resolveIdent(p, fi, t, c.Text)
		switch r.kind {
		case 'b':
			return k == 'b' || k == 'i' || k == 'd'
		case 'v':
			if k == 'i' {
				return true // thriftgo accepts an enum value where an integer is expected (`const i32 X = Level.NORMAL`)
			}
			d := deref(p, t)
			return k == 'e' && d.Named.File == r.file && d.Named.Name == r.name
		case 'c':
			cd := findConst(p.Files[r.file], r.name)
			ck := baseClass(p, cd.Type)
			if ck != k {
				return false
			}
			if k == 'e' || k == 'S' {
				a, b := deref(p, t), deref(p, cd.Type)
				return a.Named.File == b.Named.File && a.Named.Name == b.Named.Name
			}
			if k == 'L' || k == 'M' {
				return typeText(p, deref(p, t)) == typeText(p, deref(p, cd.Type))
			}
			return true
		}
		return false
	}
	return false
}

// typeText: a dereferenced, file-independent rendering of a type (for comparing container types).
func typeText(p *Program, t *Type) string {
	d := deref(p, t)
	if d == nil {
		return "?"
	}
	switch d.Kind {
	case idlgen.List:
		return "list<" + typeText(p, d.Elem) + ">"
	case idlgen.Set:
		return "set<" + typeText(p, d.Elem) + ">"
	case idlgen.Map:
		return "map<" + typeText(p, d.Key) + "," + typeText(p, d.Elem) + ">"
	case idlgen.Named:
		return fmt.Sprintf("%d.%s", d.Named.File, d.Named.Name)
	}
	return fmt.Sprint(int(d.Kind))
}

// size is the measure the shrinker decreases.
func size(p *Program) int {
	n := 0
	var ct func(c *Const) int
	ct = func(c *Const) int {
		if c == nil {
			return 0
		}
		k := 1
		for _, it := range c.Items {
			k += ct(it)
		}
		return k
	}
	var tt func(t *Type) int
	tt = func(t *Type) int {
		if t == nil {
			return 0
		}
		return 1 + tt(t.Elem) + tt(t.Key)
	}
	fl := func(fs []*idlgen.Field) {
		for _, fd := range fs {
			n += 2 + tt(fd.Type) + ct(fd.Default) + len(fd.Annotations)
			if fd.Req != idlgen.Default {
				n++
			}
		}
	}
	for _, f := range p.Files {
		n += 10 + len(f.Includes)
		if f.GoNS != "" {
			n++
		}
		for _, t := range f.Typedefs {
			n += 3 + tt(t.Type)
		}
		for _, e := range f.Enums {
			n += 3 + len(e.Values)
		}
		for _, s := range f.Structs {
			n += 3
			fl(s.Fields)
		}
		for _, c := range f.Consts {
			n += 3 + tt(c.Type) + ct(c.Value)
		}
		for _, sv := range f.Services {
			n += 3
			if sv.Extends != nil {
				n++
			}
			for _, m := range sv.Functions {
				n += 3 + tt(m.Ret)
				fl(m.Args)
				fl(m.Throws)
			}
		}
	}
	return n
}

// renderText prints the program as one canonical text (files in index order).
func renderText(p *Program) string {
	files := p.Render()
	var sb strings.Builder
	for i, f := range p.Files {
		if i > 0 {
			sb.WriteString("\n")
		}
		fmt.Fprintf(&sb, "// ---- %s\n%s", f.Path, strings.TrimRight(files[f.Path], "\n")+"\n")
	}
	return sb.String()
}

func sortedKeys(m map[string]string) []string {
	ks := make([]string, 0, len(m))
	for k := range m {
		ks = append(ks, k)
	}
	sort.Strings(ks)
	return ks
}
