package main

// names.go: C01's own, wider stress pool. idlgen's pool (Config.SafeNames=false) already has New…/…Args/…Result,
// a_b vs aB, initialisms and Go keywords; here are the names AIMED at identifiers the templates mint outside every
// namespace, at locals of the generated method bodies, at predeclared Go identifiers and at package names that
// collide with the standard imports. They are pushed into a generated program by consistent renaming (prog.go),
// so that references stay valid and idlgen (shared) is untouched.

import (
	"strings"

	"verifharness/internal/idlgen"
	"verifharness/internal/values"
	"verifharness/internal/vl"
)

var wideTypeNames = []string{
	"_leading", "trailing_", "double__underscore", "NewThing", "New_thing", "new_thing", "ThingArgs", "thing_args", "ThingResult", "thing_result",
	"init", "Init", "main", "string", "error", "int32", "byte", "nil", "true", "len", "append", "thrift", "fmt", "context", "Context",
	"TProtocol", "unknown", "Fields", "T", "x", "X", "ID", "Id", "id", "URL", "Url", "url", "api_v2", "APIV2", "ApiV2", "v2_api", "a1_b2", "A1B2",
	"KitexUnusedProtection", "ThriftGoUnusedProtection", "field_id_to_name", "fieldIDToName", "GoUnusedProtection__",
}
var wideFieldNames = []string{
	"init_default_", "InitDefault_", "b_length", "BLength_", "fast_read_", "fast_write", "fast_append", "get", "set", "is_set", "Get", "IsSet", "get_", "field1", "field_1_deep_equal",
	"read_field_1", "write_field_1", "writeField1", "ReadField1", "string_", "error", "deep_equal_", "carrying_unknown_fields", "_unknown_fields", "unknown_fields",
	"_fieldmask", "fieldmask", "get_field_mask", "Get_FieldMask", "nil", "true", "len", "int32", "thrift", "fmt", "iprot", "oprot", "src", "ano", "this", "self",
	"count_set_fields", "is_set_id", "get_id", "set_id", "ID", "Id", "id_", "_id", "__", "a__b", "x_1", "x1", "X_1",
}
var wideFuncNames = []string{
	"process", "Process", "process_", "get_processor_function", "add_to_processor_map", "processor_map", "new_client", "client", "Client", "init", "string", "error",
	"read", "write", "Read_", "type", "func", "go", "range", "x_y", "xY", "X_y", "ping", "Ping_", "ping_", "call_", "nil", "len",
}
var wideArgNames = []string{
	"p", "err", "ctx", "r", "_result", "_args", "args", "result", "err2", "retval", "iprot", "oprot", "seqId", "handler", "self", "x", "success", "ok", "name", "processor",
	"thrift", "context", "fmt", "string", "int32", "error", "nil", "true", "len", "append", "type", "func", "map", "struct", "const", "P", "Err", "Ctx", "R", "_", "__", "_p", "p_", "_type",
}
var wideEnumValues = []string{"A", "a", "_A", "A_", "a__b", "nil", "true", "String", "string", "FromString", "Ptr", "DEFAULT", "default", "type", "New", "int64"}
var widePackages = []string{"fmt", "context", "thrift", "strings", "bytes", "reflect", "unknown", "meta", "sql", "driver", "errors", "math", "types"}
// (package names equal to a LOCAL of the generated bodies — c, b, p, x, err, iprot … — are the known D9 family: they are
// reproduced by the dedicated units D9a/b/c, not drawn at random)

// aimed renames derive a colliding name from names that exist in the program.
type aim struct {
	kind byte // kind of identifier to rename
	make func(p *Program, r *vl.Rng) string
}

func someEnum(p *Program, r *vl.Rng) (*idlgen.Enum, int) {
	var es []*idlgen.Enum
	var fs []int
	for fi, f := range p.Files {
		for _, e := range f.Enums {
			es = append(es, e)
			fs = append(fs, fi)
		}
	}
	if len(es) == 0 {
		return nil, 0
	}
	i := r.Intn(len(es))
	return es[i], fs[i]
}

func someService(p *Program, r *vl.Rng) *idlgen.Service {
	var ss []*idlgen.Service
	for _, f := range p.Files {
		ss = append(ss, f.Services...)
	}
	if len(ss) == 0 {
		return nil
	}
	return ss[r.Intn(len(ss))]
}

func someStruct(p *Program, r *vl.Rng) *idlgen.Struct {
	var ss []*idlgen.Struct
	for _, f := range p.Files {
		ss = append(ss, f.Structs...)
	}
	if len(ss) == 0 {
		return nil
	}
	return ss[r.Intn(len(ss))]
}

func snake(s string) string {
	var sb strings.Builder
	for i, c := range s {
		if c >= 'A' && c <= 'Z' {
			if i > 0 {
				sb.WriteByte('_')
			}
			sb.WriteRune(c + 32)
		} else {
			sb.WriteRune(c)
		}
	}
	return sb.String()
}

var aims = []aim{
	{'s', func(p *Program, r *vl.Rng) string { // <Enum>Ptr / <Enum>FromString
		if e, _ := someEnum(p, r); e != nil {
			return e.Name + []string{"Ptr", "FromString", "_ptr", "_from_string"}[r.Intn(4)]
		}
		return ""
	}},
	{'s', func(p *Program, r *vl.Rng) string { // <Enum>__<Value> identifies as <Enum>_<Value>
		if e, _ := someEnum(p, r); e != nil {
			return e.Name + "__" + e.Values[r.Intn(len(e.Values))].Name
		}
		return ""
	}},
	{'s', func(p *Program, r *vl.Rng) string { // New<Svc>Client, <Svc>ClientFactory, …
		if s := someService(p, r); s != nil {
			return []string{"New" + s.Name + "Client", s.Name + "ClientFactory", s.Name + "ClientProtocol", "New" + s.Name + "Processor", s.Name + "Client", s.Name + "Processor"}[r.Intn(6)]
		}
		return ""
	}},
	{'s', func(p *Program, r *vl.Rng) string { // <svc>Processor<Fn>, <Svc><Fn>Args
		if s := someService(p, r); s != nil && len(s.Functions) > 0 {
			fn := s.Functions[r.Intn(len(s.Functions))]
			return []string{s.Name + "_processor_" + fn.Name, s.Name + "_" + fn.Name + "_args", s.Name + "_" + fn.Name + "_result", fn.Name + "_args", fn.Name + "_result"}[r.Intn(5)]
		}
		return ""
	}},
	{'c', func(p *Program, r *vl.Rng) string { // <T>__<F>__DEFAULT identifies as <T>_<F>_DEFAULT
		if s := someStruct(p, r); s != nil && len(s.Fields) > 0 {
			return s.Name + "__" + s.Fields[r.Intn(len(s.Fields))].Name + "__DEFAULT"
		}
		return ""
	}},
	{'s', func(p *Program, r *vl.Rng) string { // New<T> / fieldIDToName_<T>
		if s := someStruct(p, r); s != nil {
			return []string{"field_id_to_name__" + s.Name, "fieldIDToName__" + s.Name, s.Name + "_"}[r.Intn(3)]
		}
		return ""
	}},
	{'f', func(p *Program, r *vl.Rng) string { // accessor-shaped field names of a sibling field
		if s := someStruct(p, r); s != nil && len(s.Fields) > 0 {
			f := s.Fields[r.Intn(len(s.Fields))]
			return []string{"get_" + f.Name, "set_" + f.Name, "is_set_" + f.Name, "Get" + f.Name, f.Name + "_"}[r.Intn(5)]
		}
		return ""
	}},
}

// pairRename plants the shape collision renaming must survive: a name whose renamed form (`x_`) is ALREADY
// declared earlier in the same scope, then `x` itself colliding with something reserved or with a sibling that is
// identified alike (`x`, `X`). Scopes: struct members, parameters of a non-void method, functions of a service,
// definitions of a file.
func pairRename(r *vl.Rng, p *Program) map[ident]string {
	m := map[ident]string{}
	switch r.Intn(4) {
	case 0: // fields: read_ read | total_ total Total
		for fi, f := range p.Files {
			for _, s := range f.Structs {
				if len(s.Fields) >= 3 && len(m) == 0 {
					base := r.Pick([]string{"read", "write", "string", "total", "init_default", "get_x"})
					m[ident{'f', fi, s.Name, s.Fields[0].Name}] = base + "_"
					m[ident{'f', fi, s.Name, s.Fields[1].Name}] = base
					m[ident{'f', fi, s.Name, s.Fields[2].Name}] = strings.ToUpper(base[:1]) + base[1:]
				}
			}
		}
	case 1: // parameters of a non-void method: r_ r | err_ err | p_ p
		for fi, f := range p.Files {
			for _, sv := range f.Services {
				for _, fn := range sv.Functions {
					if fn.Ret != nil && len(fn.Args) >= 2 && len(m) == 0 {
						base := r.Pick([]string{"r", "err", "p", "ctx", "_result", "type"})
						m[ident{'a', fi, sv.Name + "." + fn.Name, fn.Args[0].Name}] = base + "_"
						m[ident{'a', fi, sv.Name + "." + fn.Name, fn.Args[1].Name}] = base
					}
				}
			}
		}
	case 2: // functions: get_ get Get
		for fi, f := range p.Files {
			for _, sv := range f.Services {
				if len(sv.Functions) >= 3 && len(m) == 0 {
					base := r.Pick([]string{"get", "ping", "a_b"})
					m[ident{'m', fi, sv.Name, sv.Functions[0].Name}] = base + "_"
					m[ident{'m', fi, sv.Name, sv.Functions[1].Name}] = base
					m[ident{'m', fi, sv.Name, sv.Functions[2].Name}] = strings.ToUpper(base[:1]) + base[1:]
				}
			}
		}
	case 3: // definitions: Item_ item Item (structs only: their New<X> must not collide with another definition)
		for fi, f := range p.Files {
			if len(f.Structs) >= 3 && len(m) == 0 {
				base := r.Pick([]string{"item", "foo_bar", "url_id"})
				m[ident{'s', fi, "", f.Structs[0].Name}] = base + "_"
				m[ident{'s', fi, "", f.Structs[1].Name}] = base
				m[ident{'s', fi, "", f.Structs[2].Name}] = strings.ToUpper(base[:1]) + base[1:]
			}
		}
	}
	return m
}

// requiredCount gives one struct of p a number of REQUIRED fields at a boundary of fastgo's 8-bit bitset words
// (extra required i32 members are appended; the ones it had stay as they are).
func requiredCount(r *vl.Rng, p *Program, count func(string)) *Program {
	q := cloneProgram(p)
	var cands []*idlgen.Struct
	for _, f := range q.Files {
		for _, s := range f.Structs {
			if s.Kind == 's' {
				cands = append(cands, s)
			}
		}
	}
	if len(cands) == 0 {
		return p
	}
	s := cands[r.Intn(len(cands))]
	n := []int{7, 8, 9, 15, 16, 17, 31, 32, 33, 63, 64, 65}[r.Intn(12)]
	have, maxID := 0, 0
	used := map[string]bool{}
	for _, f := range s.Fields {
		if f.Req == idlgen.Required {
			have++
		}
		if int(f.ID) > maxID {
			maxID = int(f.ID)
		}
		used[f.Name] = true
	}
	if have > n || maxID+n-have > 32000 {
		return p
	}
	for i := 0; have < n; i++ {
		name := "rq" + itoa(i)
		if used[name] {
			continue
		}
		maxID++
		s.Fields = append(s.Fields, &idlgen.Field{ID: int16(maxID), HasID: true, Name: name, Req: idlgen.Required, Type: &Type{Kind: idlgen.I32}})
		have++
	}
	count("stress.required-count." + itoa(n))
	return q
}

func itoa(n int) string {
	if n == 0 {
		return "0"
	}
	s := ""
	for ; n > 0; n /= 10 {
		s = string(rune('0'+n%10)) + s
	}
	return s
}

// collidePackages gives two files with different go namespaces the same LAST segment (acme.common / partner.common):
// both packages are called `common`, the import manager must alias the second one wherever it is referred to — also
// when it is pulled in on demand through a typedef chain of another include.
func collidePackages(r *vl.Rng, p *Program, count func(string)) *Program {
	var idx []int
	for i, f := range p.Files {
		if i > 0 && f.GoNS != "" {
			idx = append(idx, i)
		}
	}
	if len(idx) < 2 {
		return p
	}
	a := idx[r.Intn(len(idx))]
	b := idx[r.Intn(len(idx))]
	if a == b || p.Files[a].GoNS == p.Files[b].GoNS {
		return p
	}
	last := r.Pick([]string{"common", "types", "base", "fmt", "thrift"})
	m := map[ident]string{
		{'N', a, "", p.Files[a].GoNS}: "acme" + itoa(a) + "." + last,
		{'N', b, "", p.Files[b].GoNS}: "partner" + itoa(b) + "." + last,
	}
	q := rename(p, m)
	if !valid(q) {
		return p
	}
	count("stress.collide-packages")
	return q
}

// identInts rewrites integer literals of constant expressions (constant bodies, list/set elements, map values, field and
// argument defaults, members of struct literals) into IDENTIFIERS of integer constants of another width — among them a
// constant that is itself given by an enum value (a typed constant in Go) — across includes where the file is visible.
// Map keys are left alone (two keys may denote one value). Values stay what they were, so the program's meaning is kept.
func identInts(r *vl.Rng, p *Program, count func(string)) *Program {
	q := cloneProgram(p)
	normOrder(q)
	type ic struct {
		file int
		name string
		val  string
	}
	var pool []ic
	// an i32 constant per enum value of small magnitude: `const i32 <E>_<V>_LEVEL = E.V`
	for fi, f := range q.Files {
		for _, e := range f.Enums {
			v := e.Values[r.Intn(len(e.Values))]
			if v.Value < 0 || v.Value > 100 || len(pool) >= 3 {
				continue
			}
			name := "LVL_" + e.Name + "_" + v.Name
			if findConst(f, name) != nil {
				continue
			}
			f.Consts = append(f.Consts, &idlgen.ConstDef{Name: name, Type: &Type{Kind: idlgen.I32}, Value: &Const{Kind: idlgen.CIdent, Text: e.Name + "." + v.Name, Val: values.Int(v.Value)}})
			f.Order = append([]idlgen.DefRef{{Kind: 'c', Idx: len(f.Consts) - 1}}, f.Order...)
			pool = append(pool, ic{fi, name, itoa(int(v.Value))})
		}
		for _, c := range f.Consts {
			if c.Value.Kind == idlgen.CInt && baseClass(q, c.Type) == 'i' && len(c.Value.Text) <= 2 && c.Value.Text[0] != '-' {
				pool = append(pool, ic{fi, c.Name, c.Value.Text})
			}
		}
	}
	if len(pool) == 0 {
		return p
	}
	own := map[*Const]bool{} // the bodies of the pool constants stay literals: no constant in terms of another one's alias (cycles)
	for _, k := range pool {
		own[findConst(q.Files[k.file], k.name).Value] = true
	}
	n := 0
	eachConst(q, func(fi int, t *Type, root *Const) {
		inKey := map[*Const]bool{}
		var mark func(c *Const, t *Type)
		mark = func(c *Const, t *Type) {
			d := deref(q, t)
			if c.Kind == idlgen.CMap && d != nil && d.Kind == idlgen.Map {
				for i := 0; i+1 < len(c.Items); i += 2 {
					inKey[c.Items[i]] = true
				}
			}
		}
		walkConst(q, fi, t, root, func(c *Const, ct *Type, st *idlgen.Struct, sf int) {
			if st != nil || ct == nil {
				return
			}
			mark(c, ct)
			if c.Kind != idlgen.CInt || inKey[c] || own[c] || baseClass(q, ct) != 'i' || !r.Chance(30) {
				return
			}
			for _, k := range pool {
				if k.val != c.Text || (k.file != fi && !includes(q, fi, k.file)) {
					continue
				}
				c.Kind, c.Text = idlgen.CIdent, qualify(q, fi, k.file, k.name)
				n++
				break
			}
		})
	})
	if n == 0 || !valid(q) {
		return p
	}
	count("stress.ident-ints")
	return q
}

// stressRename returns a copy of p with up to n identifiers renamed from the wide pool (each candidate is kept
// only if the program stays valid thrift: unique names where thrift wants them); what was applied is counted.
func stressRename(r *vl.Rng, p *Program, n int, count func(string)) *Program {
	cur := p
	if r.Chance(35) {
		if m := pairRename(r, cur); len(m) > 0 {
			if q := rename(cur, m); valid(q) && uniqueMembers(q) {
				count("stress.rename.pair")
				cur = q
			}
		}
	}
	for i := 0; i < n; i++ {
		ids := idents(cur)
		if len(ids) == 0 {
			return cur
		}
		var id ident
		var name string
		if r.Chance(8) {
			a := aims[r.Intn(len(aims))]
			name = a.make(cur, r)
			var cands []ident
			for _, x := range ids {
				if x.Kind == a.kind {
					cands = append(cands, x)
				}
			}
			if name == "" || len(cands) == 0 {
				continue
			}
			id = cands[r.Intn(len(cands))]
		} else {
			id = ids[r.Intn(len(ids))]
			switch id.Kind {
			case 't', 'e', 's', 'c', 'v':
				name = r.Pick(wideTypeNames)
			case 'f':
				name = r.Pick(wideFieldNames)
			case 'm':
				name = r.Pick(wideFuncNames)
			case 'a', 'x':
				name = r.Pick(wideArgNames)
			case 'w':
				name = r.Pick(wideEnumValues)
			case 'N':
				if id.File == 0 {
					continue
				}
				name = r.Pick(widePackages)
				if j := strings.LastIndexByte(id.Name, '.'); j >= 0 {
					name = id.Name[:j+1] + name
				}
			default:
				continue
			}
		}
		if name == id.Name || !thriftIdent(name) {
			continue
		}
		q := rename(cur, map[ident]string{id: name})
		if !valid(q) || !uniqueMembers(q) || (nsClash(q) && !nsClash(cur)) {
			count("stress.rename.rejected")
			continue
		}
		count("stress.rename." + string(id.Kind))
		cur = q
	}
	return cur
}

func thriftIdent(s string) bool {
	if s == "" {
		return false
	}
	for i, c := range s {
		switch {
		case c == '_' || c == '.' && i > 0 || (c >= 'a' && c <= 'z') || (c >= 'A' && c <= 'Z'):
		case c >= '0' && c <= '9' && i > 0:
		default:
			return false
		}
	}
	return true
}

// uniqueMembers: field names per struct, value names per enum, function names per service are unique (thrift
// rejects duplicates there; duplicate ARGUMENT names are accepted by thriftgo and are a finding of their own, X3).
func uniqueMembers(p *Program) bool {
	for _, f := range p.Files {
		for _, s := range f.Structs {
			seen := map[string]bool{}
			for _, fd := range s.Fields {
				if seen[fd.Name] {
					return false
				}
				seen[fd.Name] = true
			}
		}
		for _, e := range f.Enums {
			seen := map[string]bool{}
			for _, v := range e.Values {
				if seen[v.Name] {
					return false
				}
				seen[v.Name] = true
			}
		}
		for _, sv := range f.Services {
			seen := map[string]bool{}
			for _, m := range sv.Functions {
				if seen[m.Name] {
					return false
				}
				seen[m.Name] = true
				as := map[string]bool{}
				for _, a := range append(append([]*idlgen.Field{}, m.Args...), m.Throws...) {
					if as[a.Name] {
						return false
					}
					as[a.Name] = true
				}
			}
		}
	}
	return true
}

// nsClash: two files must not end up in one Go package directory (last segment and full namespace distinct),
// unless they already shared the namespace.
func nsClash(p *Program) bool {
	seen := map[string]bool{}
	for _, f := range p.Files {
		ns := f.GoNS
		if ns == "" {
			ns = strings.ToLower(pathBase(f.Path))
		}
		last := ns
		if j := strings.LastIndexByte(ns, '.'); j >= 0 {
			last = ns[j+1:]
		}
		if seen["last:"+strings.ToLower(last)] {
			return true
		}
		seen["last:"+strings.ToLower(last)] = true
	}
	return false
}
