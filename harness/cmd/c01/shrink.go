package main

// shrink.go: delta debugging of an IDL program + command line. Order of attack: options and -r, files,
// definitions, functions/fields/values, defaults/annotations/requiredness, type simplification, namespaces and
// paths, explicit field ids, and finally canonical renaming of identifiers in order of appearance (all at once,
// then one by one). Every step keeps the candidate only if `fails` still holds.

import (
	"fmt"
	"path"
	"sort"
	"strings"
	"time"

	"verifharness/internal/idlgen"
)

// subject is what the shrinker minimises.
type subject struct {
	Prog    *Program
	Backend string
	Options []string
	Recurse bool
}

func (s *subject) raw() *rawUnit {
	return &rawUnit{Files: s.Prog.Render(), Main: s.Prog.Files[0].Path, Backend: s.Backend, Options: s.Options, Recurse: s.Recurse}
}

func (s *subject) clone() *subject {
	return &subject{Prog: cloneProgram(s.Prog), Backend: s.Backend, Options: append([]string(nil), s.Options...), Recurse: s.Recurse}
}

type shrinker struct {
	fails    func(*subject) bool
	tries    int
	maxTries int
	deadline time.Time
	kept     []string // identifiers that could not be renamed canonically (the failure depends on them)
	partial  bool     // the budget ran out before the canonical renaming was finished
}

func (sh *shrinker) exhausted() bool {
	return sh.tries >= sh.maxTries || time.Now().After(sh.deadline)
}

func (sh *shrinker) try(c *subject) bool {
	if sh.exhausted() || !valid(c.Prog) {
		return false
	}
	sh.tries++
	return sh.fails(c)
}

// removeFile drops file k and renumbers references; ok=false if something still refers to it.
func removeFile(p *Program, k int) (*Program, bool) {
	if k == 0 || k >= len(p.Files) {
		return nil, false
	}
	q := cloneProgram(p)
	used := false
	eachType(q, func(fi int, t *Type) {
		if fi != k && t.Kind == idlgen.Named && t.Named != nil && t.Named.File == k {
			used = true
		}
	})
	for fi, f := range q.Files {
		if fi == k {
			continue
		}
		for _, sv := range f.Services {
			if sv.Extends != nil && sv.Extends.File == k {
				used = true
			}
		}
	}
	if used {
		return nil, false
	}
	q.Files = append(q.Files[:k], q.Files[k+1:]...)
	fix := func(i int) int {
		if i > k {
			return i - 1
		}
		return i
	}
	for _, f := range q.Files {
		var inc []int
		for _, x := range f.Includes {
			if x != k {
				inc = append(inc, fix(x))
			}
		}
		f.Includes = inc
		for _, sv := range f.Services {
			if sv.Extends != nil {
				sv.Extends.File = fix(sv.Extends.File)
			}
		}
	}
	eachType(q, func(fi int, t *Type) {
		if t.Kind == idlgen.Named && t.Named != nil {
			t.Named.File = fix(t.Named.File)
		}
	})
	return q, true
}

// reroot returns the program made of file k and everything it (transitively) includes, k first; nil if k reaches file 0.
func reroot(p *Program, k int) *Program {
	order := []int{k}
	idx := map[int]int{k: 0}
	for i := 0; i < len(order); i++ {
		for _, x := range p.Files[order[i]].Includes {
			if x < 0 || x >= len(p.Files) {
				return nil
			}
			if _, ok := idx[x]; !ok {
				idx[x] = len(order)
				order = append(order, x)
			}
		}
	}
	if _, ok := idx[0]; ok {
		return nil
	}
	full := cloneProgram(p)
	q := &Program{}
	for _, o := range order {
		q.Files = append(q.Files, full.Files[o])
	}
	bad := false
	fix := func(i int) int {
		n, ok := idx[i]
		if !ok {
			bad = true
		}
		return n
	}
	for _, f := range q.Files {
		for i := range f.Includes {
			f.Includes[i] = fix(f.Includes[i])
		}
		for _, sv := range f.Services {
			if sv.Extends != nil {
				sv.Extends.File = fix(sv.Extends.File)
			}
		}
	}
	eachType(q, func(fi int, t *Type) {
		if t.Kind == idlgen.Named && t.Named != nil {
			t.Named.File = fix(t.Named.File)
		}
	})
	if bad {
		return nil
	}
	return q
}

// inlineTypedef replaces every use of typedef ti of file fi by its target type and drops the typedef. The target is
// only inlined into files that can name it (same file, or the target is a base/container of base types, or the
// using file includes the file of the named target).
func inlineTypedef(p *Program, fi, ti int) *Program {
	q := cloneProgram(p)
	td := q.Files[fi].Typedefs[ti]
	ok := true
	var subst func(use int, t *Type) *Type
	subst = func(use int, t *Type) *Type {
		if t == nil {
			return nil
		}
		if t.Kind == idlgen.Named && t.Named != nil && t.Named.File == fi && t.Named.Name == td.Name {
			r := cloneType(td.Type)
			if typeHas(q, r, func(x *Type) bool {
				return x.Kind == idlgen.Named && x.Named.File != use && !includes(q, use, x.Named.File)
			}) {
				ok = false
			}
			return r
		}
		t.Elem, t.Key = subst(use, t.Elem), subst(use, t.Key)
		return t
	}
	for use, f := range q.Files {
		for _, t := range f.Typedefs {
			if t != td {
				t.Type = subst(use, t.Type)
			}
		}
		for _, s := range f.Structs {
			for _, fd := range s.Fields {
				fd.Type = subst(use, fd.Type)
			}
		}
		for _, c := range f.Consts {
			c.Type = subst(use, c.Type)
		}
		for _, sv := range f.Services {
			for _, m := range sv.Functions {
				m.Ret = subst(use, m.Ret)
				for _, fd := range m.Args {
					fd.Type = subst(use, fd.Type)
				}
				for _, fd := range m.Throws {
					fd.Type = subst(use, fd.Type)
				}
			}
		}
	}
	if !ok {
		return nil
	}
	for oi, d := range q.Files[fi].Order {
		if d.Kind == 't' && d.Idx == ti {
			return removeDef(q, fi, oi)
		}
	}
	return nil
}

// removeDef drops the definition at position oi of File.Order.
func removeDef(p *Program, fi, oi int) *Program {
	q := cloneProgram(p)
	f := q.Files[fi]
	d := f.Order[oi]
	f.Order = append(f.Order[:oi], f.Order[oi+1:]...)
	switch d.Kind {
	case 't':
		f.Typedefs = append(f.Typedefs[:d.Idx], f.Typedefs[d.Idx+1:]...)
	case 'e':
		f.Enums = append(f.Enums[:d.Idx], f.Enums[d.Idx+1:]...)
	case 's':
		f.Structs = append(f.Structs[:d.Idx], f.Structs[d.Idx+1:]...)
	case 'c':
		f.Consts = append(f.Consts[:d.Idx], f.Consts[d.Idx+1:]...)
	case 'v':
		f.Services = append(f.Services[:d.Idx], f.Services[d.Idx+1:]...)
	}
	for i := range f.Order {
		if f.Order[i].Kind == d.Kind && f.Order[i].Idx > d.Idx {
			f.Order[i].Idx--
		}
	}
	return q
}

func baseI32() *Type { return &Type{Kind: idlgen.I32} }

// fieldLists enumerates every field list of the program (struct fields, arguments, throws) with a setter.
type fieldList struct {
	get func(p *Program) []*idlgen.Field
	set func(p *Program, fs []*idlgen.Field)
	arg bool
}

func fieldLists(p *Program) []fieldList {
	var out []fieldList
	for fi, f := range p.Files {
		fi := fi
		for si := range f.Structs {
			si := si
			out = append(out, fieldList{
				get: func(p *Program) []*idlgen.Field { return p.Files[fi].Structs[si].Fields },
				set: func(p *Program, fs []*idlgen.Field) { p.Files[fi].Structs[si].Fields = fs }})
		}
		for vi, sv := range f.Services {
			vi := vi
			for mi := range sv.Functions {
				mi := mi
				out = append(out, fieldList{arg: true,
					get: func(p *Program) []*idlgen.Field { return p.Files[fi].Services[vi].Functions[mi].Args },
					set: func(p *Program, fs []*idlgen.Field) { p.Files[fi].Services[vi].Functions[mi].Args = fs }})
				out = append(out, fieldList{arg: true,
					get: func(p *Program) []*idlgen.Field { return p.Files[fi].Services[vi].Functions[mi].Throws },
					set: func(p *Program, fs []*idlgen.Field) { p.Files[fi].Services[vi].Functions[mi].Throws = fs }})
			}
		}
	}
	return out
}

// simplerTypes proposes strictly smaller types for t.
func simplerTypes(t *Type) []*Type {
	if t == nil {
		return nil
	}
	var out []*Type
	if t.Kind != idlgen.I32 {
		out = append(out, baseI32())
	}
	switch t.Kind {
	case idlgen.List, idlgen.Set:
		out = append(out, cloneType(t.Elem))
		for _, e := range simplerTypes(t.Elem) {
			out = append(out, &Type{Kind: t.Kind, Elem: e})
		}
		if t.Kind == idlgen.Set {
			out = append(out, &Type{Kind: idlgen.List, Elem: cloneType(t.Elem)})
		}
	case idlgen.Map:
		out = append(out, cloneType(t.Elem), &Type{Kind: idlgen.List, Elem: cloneType(t.Elem)})
		for _, e := range simplerTypes(t.Elem) {
			out = append(out, &Type{Kind: idlgen.Map, Key: cloneType(t.Key), Elem: e})
		}
		if t.Key.Kind != idlgen.I32 {
			out = append(out, &Type{Kind: idlgen.Map, Key: baseI32(), Elem: cloneType(t.Elem)})
		}
	case idlgen.Bool, idlgen.Byte, idlgen.I16, idlgen.I64, idlgen.Double, idlgen.String, idlgen.Binary:
		// only i32 (above)
	}
	return out
}

// simplerConsts proposes smaller constant expressions.
func simplerConsts(c *Const) []*Const {
	if c == nil {
		return nil
	}
	var out []*Const
	switch c.Kind {
	case idlgen.CList:
		for i := range c.Items {
			d := cloneConst(c)
			d.Items = append(d.Items[:i], d.Items[i+1:]...)
			out = append(out, d)
		}
		for i, it := range c.Items {
			for _, s := range simplerConsts(it) {
				d := cloneConst(c)
				d.Items[i] = s
				out = append(out, d)
			}
		}
	case idlgen.CMap:
		for i := 0; i+1 < len(c.Items); i += 2 {
			d := cloneConst(c)
			d.Items = append(d.Items[:i], d.Items[i+2:]...)
			out = append(out, d)
		}
		for i := 1; i < len(c.Items); i += 2 {
			for _, s := range simplerConsts(c.Items[i]) {
				d := cloneConst(c)
				d.Items[i] = s
				out = append(out, d)
			}
		}
	case idlgen.CInt:
		if c.Text != "0" && c.Text != "1" {
			d := cloneConst(c)
			d.Text = "1"
			out = append(out, d)
		}
	case idlgen.CString:
		if c.Text != "" && c.Text != "a" {
			d := cloneConst(c)
			d.Text, d.Quote = "a", '"'
			out = append(out, d)
		}
	case idlgen.CDouble:
		if c.Text != "1.0" {
			d := cloneConst(c)
			d.Text = "1.0"
			out = append(out, d)
		}
	}
	if c.Sep != "," && (c.Kind == idlgen.CList || c.Kind == idlgen.CMap) && len(out) == 0 {
		d := cloneConst(c)
		d.Sep = ","
		out = append(out, d)
	}
	return out
}

// run shrinks s; returns the minimised subject.
func (sh *shrinker) run(s *subject) *subject {
	cur := s.clone()
	normOrder(cur.Prog)
	progress := true
	for round := 0; progress && !sh.exhausted() && round < 12; round++ {
		progress = false
		accept := func(c *subject) bool {
			if sh.try(c) {
				cur = c
				progress = true
				return true
			}
			return false
		}
		// ---- options, -r
		for i := 0; i < len(cur.Options); {
			c := cur.clone()
			c.Options = append(c.Options[:i], c.Options[i+1:]...)
			if !accept(c) {
				i++
			}
		}
		if cur.Backend == "fastgo" {
			c := cur.clone()
			c.Backend = "go"
			accept(c)
		}
		if !cur.Recurse {
			c := cur.clone()
			c.Recurse = true // one command instead of one per file
			accept(c)
		}
		// ---- re-root: a file other than the main one, with what it includes, as the whole program
		for k := 1; k < len(cur.Prog.Files); k++ {
			if q := reroot(cur.Prog, k); q != nil && len(q.Files) < len(cur.Prog.Files) {
				c := cur.clone()
				c.Prog = q
				if accept(c) {
					break
				}
			}
		}
		// ---- typedefs: use the target type directly
		for fi := range cur.Prog.Files {
			for ti := len(cur.Prog.Files[fi].Typedefs) - 1; ti >= 0; ti-- {
				if ti >= len(cur.Prog.Files[fi].Typedefs) {
					continue
				}
				if q := inlineTypedef(cur.Prog, fi, ti); q != nil {
					c := cur.clone()
					c.Prog = q
					accept(c)
				}
			}
		}
		// ---- files
		for k := len(cur.Prog.Files) - 1; k >= 1; k-- {
			if q, ok := removeFile(cur.Prog, k); ok {
				c := cur.clone()
				c.Prog = q
				accept(c)
			}
		}
		// ---- includes that nothing needs
		for fi := range cur.Prog.Files {
			for i := 0; i < len(cur.Prog.Files[fi].Includes); {
				c := cur.clone()
				inc := c.Prog.Files[fi].Includes
				c.Prog.Files[fi].Includes = append(append([]int{}, inc[:i]...), inc[i+1:]...)
				if !accept(c) {
					i++
				}
			}
		}
		// ---- definitions (last first: later definitions depend on earlier ones less often)
		for fi := len(cur.Prog.Files) - 1; fi >= 0; fi-- {
			for oi := len(cur.Prog.Files[fi].Order) - 1; oi >= 0; oi-- {
				if oi >= len(cur.Prog.Files[fi].Order) {
					continue
				}
				c := cur.clone()
				c.Prog = removeDef(cur.Prog, fi, oi)
				accept(c)
			}
		}
		// ---- functions, extends, enum values
		for fi := range cur.Prog.Files {
			for vi := range cur.Prog.Files[fi].Services {
				if cur.Prog.Files[fi].Services[vi].Extends != nil {
					c := cur.clone()
					c.Prog.Files[fi].Services[vi].Extends = nil
					accept(c)
				}
				for mi := len(cur.Prog.Files[fi].Services[vi].Functions) - 1; mi >= 0; mi-- {
					c := cur.clone()
					fns := c.Prog.Files[fi].Services[vi].Functions
					c.Prog.Files[fi].Services[vi].Functions = append(fns[:mi], fns[mi+1:]...)
					accept(c)
				}
				for mi := range cur.Prog.Files[fi].Services[vi].Functions {
					fn := cur.Prog.Files[fi].Services[vi].Functions[mi]
					if fn.Ret != nil {
						c := cur.clone()
						c.Prog.Files[fi].Services[vi].Functions[mi].Ret = nil
						if !accept(c) {
							for _, t := range simplerTypes(fn.Ret) {
								c := cur.clone()
								c.Prog.Files[fi].Services[vi].Functions[mi].Ret = t
								if accept(c) {
									break
								}
							}
						}
					}
					if fn.Oneway {
						c := cur.clone()
						c.Prog.Files[fi].Services[vi].Functions[mi].Oneway = false
						accept(c)
					}
				}
			}
			for ei := range cur.Prog.Files[fi].Enums {
				for vi := len(cur.Prog.Files[fi].Enums[ei].Values) - 1; vi >= 0; vi-- {
					if len(cur.Prog.Files[fi].Enums[ei].Values) <= 1 {
						break
					}
					c := cur.clone()
					vs := c.Prog.Files[fi].Enums[ei].Values
					c.Prog.Files[fi].Enums[ei].Values = append(vs[:vi], vs[vi+1:]...)
					accept(c)
				}
				for vi := range cur.Prog.Files[fi].Enums[ei].Values {
					if cur.Prog.Files[fi].Enums[ei].Values[vi].HasValue {
						c := cur.clone()
						c.Prog.Files[fi].Enums[ei].Values[vi].HasValue = false
						accept(c)
					}
				}
			}
			for si := range cur.Prog.Files[fi].Structs {
				if cur.Prog.Files[fi].Structs[si].Kind != 's' {
					c := cur.clone()
					c.Prog.Files[fi].Structs[si].Kind = 's'
					accept(c)
				}
			}
		}
		// ---- fields / arguments / throws: drop, then simplify in place
		for li := 0; li < len(fieldLists(cur.Prog)); li++ {
			fl := fieldLists(cur.Prog)[li]
			for i := len(fl.get(cur.Prog)) - 1; i >= 0; i-- {
				c := cur.clone()
				fs := fl.get(c.Prog)
				fl.set(c.Prog, append(append([]*idlgen.Field{}, fs[:i]...), fs[i+1:]...))
				accept(c)
			}
			for i := 0; i < len(fl.get(cur.Prog)); i++ {
				fd := fl.get(cur.Prog)[i]
				if fd.Default != nil {
					c := cur.clone()
					fl.get(c.Prog)[i].Default = nil
					if !accept(c) {
						for _, k := range simplerConsts(fd.Default) {
							c := cur.clone()
							fl.get(c.Prog)[i].Default = k
							if accept(c) {
								break
							}
						}
					}
				}
				if len(fd.Annotations) > 0 {
					c := cur.clone()
					fl.get(c.Prog)[i].Annotations = nil
					accept(c)
				}
				if fd.Req != idlgen.Default {
					c := cur.clone()
					fl.get(c.Prog)[i].Req = idlgen.Default
					accept(c)
				}
				fd = fl.get(cur.Prog)[i]
				for _, t := range simplerTypes(fd.Type) {
					c := cur.clone()
					fl.get(c.Prog)[i].Type = t
					if fd.Default != nil {
						continue // the default would no longer fit: the default is dropped first if it can be
					}
					if accept(c) {
						break
					}
				}
			}
		}
		// ---- typedefs and constants: simpler types / values
		for fi := range cur.Prog.Files {
			for ti := range cur.Prog.Files[fi].Typedefs {
				for _, t := range simplerTypes(cur.Prog.Files[fi].Typedefs[ti].Type) {
					c := cur.clone()
					c.Prog.Files[fi].Typedefs[ti].Type = t
					if accept(c) {
						break
					}
				}
			}
			for ci := range cur.Prog.Files[fi].Consts {
				for _, k := range simplerConsts(cur.Prog.Files[fi].Consts[ci].Value) {
					c := cur.clone()
					c.Prog.Files[fi].Consts[ci].Value = k
					if accept(c) {
						break
					}
				}
			}
		}
	}
	// ---- canonical layout: explicit ids 1..n, namespaces, paths
	{
		c := cur.clone()
		for _, fl := range fieldLists(c.Prog) {
			for i, fd := range fl.get(c.Prog) {
				fd.ID, fd.HasID = int16(i+1), true
			}
		}
		if sh.try(c) {
			cur = c
		}
	}
	sh.canonicalNames(&cur)
	return cur
}

// canonical name of the n-th identifier of a kind.
func canonName(kind byte, n int) string {
	switch kind {
	case 't':
		return fmt.Sprintf("T%d", n)
	case 'e':
		return fmt.Sprintf("E%d", n)
	case 's':
		return fmt.Sprintf("S%d", n)
	case 'c':
		return fmt.Sprintf("C%d", n)
	case 'v':
		return fmt.Sprintf("V%d", n)
	case 'f':
		return fmt.Sprintf("f%d", n)
	case 'w':
		return fmt.Sprintf("W%d", n)
	case 'm':
		return fmt.Sprintf("m%d", n)
	case 'a':
		return fmt.Sprintf("a%d", n)
	case 'x':
		return fmt.Sprintf("e%d", n)
	}
	return fmt.Sprintf("n%d", n)
}

// canonicalMap maps every identifier to its canonical name: definitions numbered per kind over the program,
// members numbered per owner; file k becomes f<k>.thrift (the main file a.thrift) with go namespace pk<k>.
func canonicalMap(p *Program) map[ident]string {
	m := map[ident]string{}
	ctr := map[string]int{}
	for _, id := range idents(p) {
		switch id.Kind {
		case 'P':
			m[id] = fmt.Sprintf("f%d.thrift", id.File)
			if id.File == 0 {
				m[id] = "a.thrift"
			}
		case 'N':
			m[id] = fmt.Sprintf("pk%d", id.File)
		case 't', 'e', 's', 'c', 'v':
			k := string(id.Kind)
			m[id] = canonName(id.Kind, ctr[k])
			ctr[k]++
		default:
			k := fmt.Sprintf("%c:%d:%s", id.Kind, id.File, id.Owner)
			if id.Kind == 'a' || id.Kind == 'x' {
				k = fmt.Sprintf("ax:%d:%s", id.File, id.Owner) // arguments and throws share the function scope
			}
			m[id] = canonName(id.Kind, ctr[k])
			ctr[k]++
		}
	}
	return m
}

func (sh *shrinker) canonicalNames(cur **subject) {
	s := *cur
	full := canonicalMap(s.Prog)
	same := true
	for id, n := range full {
		if id.Name != n {
			same = false
		}
	}
	if same {
		return
	}
	if sh.exhausted() {
		sh.partial = true
		return
	}
	c := s.clone()
	c.Prog = rename(s.Prog, full)
	if sh.try(c) {
		*cur = c
		return
	}
	// one by one: keep what can be renamed; what cannot is what the failure depends on
	applied := map[ident]string{}
	ids := idents(s.Prog)
	for _, id := range ids {
		if id.Name == full[id] {
			continue
		}
		if sh.exhausted() {
			sh.partial = true
			break
		}
		trial := map[ident]string{}
		for k, v := range applied {
			trial[k] = v
		}
		trial[id] = full[id]
		c := s.clone()
		c.Prog = rename(s.Prog, trial)
		if sh.try(c) {
			applied[id] = full[id]
		} else {
			what := id.Name
			switch id.Kind {
			case 'P':
				what = "file " + id.Name
			case 'N':
				what = "namespace " + id.Name
			}
			sh.kept = append(sh.kept, what)
		}
	}
	c = s.clone()
	c.Prog = rename(s.Prog, applied)
	if len(applied) > 0 {
		sh.maxTries++ // the combination has been tried step by step: one more run to adopt it
		if sh.try(c) {
			*cur = c
		}
	}
	sort.Strings(sh.kept)
}

// pathBase is the base name of an IDL path without extension.
func pathBase(p string) string { return strings.TrimSuffix(path.Base(p), path.Ext(p)) }
