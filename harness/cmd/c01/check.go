package main

// check.go: the single-program pipeline used by the shrinker, the dedicated known-defect units and `replay`:
// write IDL text, run the thriftgo binary built from the repo under test, parse every written .go file with
// go/parser and type-check all generated packages IN PROCESS with go/types against the export data of the
// pinned runtime libraries (one `go list -export` per run). The in-process type check only steers the
// shrinker; every verdict that is reported comes from the real toolchain (`go build`, see confirm()).

import (
	"bytes"
	"fmt"
	"go/ast"
	"go/importer"
	"go/parser"
	"go/token"
	"go/types"
	"io"
	"os"
	"os/exec"
	"path/filepath"
	"regexp"
	"sort"
	"strings"
	"sync"
)

var goEnv = []string{"GOFLAGS=-mod=mod", "GOPROXY=off", "GOSUMDB=off", "GOTOOLCHAIN=local", "CGO_ENABLED=0"}

// libraries generated code may import (std table of generator/golang/imports.go + fastgo)
var runtimeLibs = []string{
	"context", "fmt", "database/sql/driver", "database/sql", "strings", "bytes", "reflect", "errors", "unsafe", "sync", "math", "encoding/binary",
	"github.com/apache/thrift/lib/go/thrift",
	"github.com/cloudwego/thriftgo/generator/golang/extension/unknown",
	"github.com/cloudwego/thriftgo/generator/golang/extension/meta",
	"github.com/cloudwego/thriftgo/thrift_reflection",
	"github.com/cloudwego/thriftgo/utils/json_utils",
	"github.com/cloudwego/thriftgo/fieldmask",
	"github.com/cloudwego/thriftgo/extension/thrift_option",
	"github.com/cloudwego/thriftgo/utils",
	"github.com/cloudwego/gopkg/protocol/thrift/apache/adaptor",
	"github.com/cloudwego/gopkg/protocol/thrift",
	"github.com/cloudwego/gopkg/protocol/thrift/apache",
	"github.com/cloudwego/gopkg/unsafex",
}

// rawUnit is one (program text, backend, options) input.
type rawUnit struct {
	Files   map[string]string // relative path -> IDL text
	Main    string
	Backend string
	Options []string
	Recurse bool
}

func (u *rawUnit) cmdline() string {
	be := u.Backend
	if be == "" {
		be = "go"
	}
	s := "thriftgo "
	if u.Recurse {
		s += "-r "
	}
	g := be
	if len(u.Options) > 0 {
		g += ":" + strings.Join(u.Options, ",")
	}
	if !u.Recurse && len(u.Files) > 1 {
		return "for f in " + strings.Join(u.mains(), " ") + "; do " + s + "-g " + g + " -o out $f; done"
	}
	return s + "-g " + g + " -o out " + u.Main
}

// mains: the files thriftgo is invoked on: the main file, and without -r every other file as well (a program is
// then compiled file by file, which is how non-recursive generation is used).
func (u *rawUnit) mains() []string {
	out := []string{u.Main}
	if !u.Recurse {
		var rest []string
		for p := range u.Files {
			if p != u.Main {
				rest = append(rest, p)
			}
		}
		sort.Strings(rest)
		out = append(out, rest...)
	}
	return out
}

// result of one pipeline run.
type result struct {
	Exit      int
	Stderr    string
	Dir       string   // module-relative output dir ("s12")
	GoFiles   []string // relative to the scratch module
	ParseErrs []string
	TypeErrs  []string
}

type checker struct {
	thriftgo string
	root     string // scratch root: <root>/mod is a module `batch`, <root>/idl/<n> holds IDL text
	repo     string
	mu       sync.Mutex
	n        int
	export   map[string]string // import path -> export data file
	tcs      chan *tcCtx       // type-check contexts (a FileSet + a gc importer with its package cache each)
	Runs     int
	ws       chan *worker // pool of in-process generators (steering only); nil = always the binary
	all      []*worker
	FastRuns int
}

// startWorkers creates the pool of generator workers.
func (c *checker) startWorkers(self string, n int) {
	c.ws = make(chan *worker, n)
	for i := 0; i < n; i++ {
		w := &worker{self: self}
		c.all = append(c.all, w)
		c.ws <- w
	}
}

func (c *checker) stopWorkers() (deaths int) {
	for _, w := range c.all {
		w.stop()
		deaths += w.dead
	}
	return
}

func newChecker(root, repo, thriftgo string) (*checker, error) {
	c := &checker{thriftgo: thriftgo, root: root, repo: repo, export: map[string]string{}}
	mod := filepath.Join(root, "mod")
	if err := os.MkdirAll(filepath.Join(mod, "deps"), 0o755); err != nil {
		return nil, err
	}
	gomod := "module batch\n\ngo 1.20\n\nrequire github.com/apache/thrift v0.13.0\nrequire github.com/cloudwego/gopkg v0.2.0\nrequire github.com/cloudwego/thriftgo v0.0.0\n\nreplace github.com/cloudwego/thriftgo => " + repo + "\n"
	if err := os.WriteFile(filepath.Join(mod, "go.mod"), []byte(gomod), 0o644); err != nil {
		return nil, err
	}
	if sum, err := os.ReadFile(filepath.Join(repo, "go.sum")); err == nil {
		os.WriteFile(filepath.Join(mod, "go.sum"), sum, 0o644)
	}
	var sb strings.Builder
	sb.WriteString("package deps\n\nimport (\n")
	for _, l := range runtimeLibs {
		fmt.Fprintf(&sb, "\t_ %q\n", l)
	}
	sb.WriteString(")\n")
	if err := os.WriteFile(filepath.Join(mod, "deps", "deps.go"), []byte(sb.String()), 0o644); err != nil {
		return nil, err
	}
	cmd := exec.Command("go", "list", "-export", "-deps", "-f", "{{.ImportPath}}={{.Export}}", "./deps")
	cmd.Dir = mod
	cmd.Env = append(os.Environ(), goEnv...)
	var stderr bytes.Buffer
	cmd.Stderr = &stderr
	out, err := cmd.Output()
	if err != nil {
		return nil, fmt.Errorf("go list -export: %v\n%s", err, stderr.String())
	}
	for _, ln := range strings.Split(string(out), "\n") {
		if i := strings.IndexByte(ln, '='); i > 0 && ln[i+1:] != "" {
			c.export[ln[:i]] = ln[i+1:]
		}
	}
	const nctx = 8
	c.tcs = make(chan *tcCtx, nctx)
	for i := 0; i < nctx; i++ {
		c.tcs <- c.newCtx()
	}
	return c, nil
}

type tcCtx struct {
	fset  *token.FileSet
	gcImp types.Importer
	uses  int
}

func (c *checker) newCtx() *tcCtx {
	t := &tcCtx{fset: token.NewFileSet()}
	t.gcImp = importer.ForCompiler(t.fset, "gc", func(path string) (io.ReadCloser, error) {
		f, ok := c.export[path]
		if !ok {
			return nil, fmt.Errorf("no export data for %q", path)
		}
		return os.Open(f)
	})
	return t
}

// run executes the pipeline for one raw unit with the thriftgo BINARY. typecheck=false stops after go/parser.
func (c *checker) run(u *rawUnit, typecheck bool) *result { return c.runWith(u, typecheck, false) }

// runFast is run with the generator of the worker process instead of the binary (shrinker candidates).
func (c *checker) runFast(u *rawUnit) *result { return c.runWith(u, true, c.ws != nil) }

func (c *checker) runWith(u *rawUnit, typecheck, viaWorker bool) *result {
	c.mu.Lock()
	c.n++
	n := c.n
	c.Runs++
	c.mu.Unlock()
	key := fmt.Sprintf("s%d", n)
	res := &result{Exit: -1, Dir: key}
	idl := filepath.Join(c.root, "idl", key)
	for p, text := range u.Files {
		full := filepath.Join(idl, filepath.FromSlash(p))
		if err := os.MkdirAll(filepath.Dir(full), 0o755); err != nil {
			res.Stderr = err.Error()
			return res
		}
		if err := os.WriteFile(full, []byte(text), 0o644); err != nil {
			res.Stderr = err.Error()
			return res
		}
	}
	be := u.Backend
	if be == "" {
		be = "go"
	}
	opts := append(append([]string{}, u.Options...), "package_prefix=batch/"+key)
	out := filepath.Join(c.root, "mod", key)
	for _, mainFile := range u.mains() {
		var args []string
		if u.Recurse {
			args = append(args, "-r")
		}
		args = append(args, "-g", be+":"+strings.Join(opts, ","), "-o", out, mainFile)
		exit, stderr := -1, ""
		if viaWorker {
			w := <-c.ws
			exit, stderr = w.invoke(idl, args, filepath.Join(idl, ".thriftgo.log"))
			c.ws <- w
			c.mu.Lock()
			c.FastRuns++
			c.mu.Unlock()
		} else {
			cmd := exec.Command(c.thriftgo, args...)
			cmd.Dir = idl
			var eb bytes.Buffer
			cmd.Stderr, cmd.Stdout = &eb, &eb
			err := cmd.Run()
			stderr = eb.String()
			switch e := err.(type) {
			case nil:
				exit = 0
			case *exec.ExitError:
				exit = e.ExitCode()
			default:
				stderr += "\n" + err.Error()
			}
		}
		res.Stderr += stderr
		res.Exit = exit
		if exit != 0 {
			break
		}
	}
	if res.Exit < 0 {
		return res
	}
	if res.Exit != 0 {
		return res
	}
	mod := filepath.Join(c.root, "mod")
	filepath.Walk(out, func(p string, fi os.FileInfo, err error) error {
		if err == nil && !fi.IsDir() && strings.HasSuffix(p, ".go") {
			rel, _ := filepath.Rel(mod, p)
			res.GoFiles = append(res.GoFiles, filepath.ToSlash(rel))
		}
		return nil
	})
	sort.Strings(res.GoFiles)
	c.typecheck(res, key, typecheck)
	return res
}

// cleanup removes the files of one run.
func (c *checker) cleanup(r *result) {
	if r == nil || r.Dir == "" {
		return
	}
	os.RemoveAll(filepath.Join(c.root, "mod", r.Dir))
	os.RemoveAll(filepath.Join(c.root, "idl", r.Dir))
}

type localImporter struct {
	c      *checker
	t      *tcCtx
	prefix string // "batch/s12/"
	mod    string
	pkgs   map[string]*types.Package
	busy   map[string]bool
	files  map[string][]*ast.File // dir -> parsed files
	errs   *[]string
}

func (li *localImporter) Import(path string) (*types.Package, error) {
	if !strings.HasPrefix(path, li.prefix) {
		return li.t.gcImp.Import(path)
	}
	if p, ok := li.pkgs[path]; ok {
		return p, nil
	}
	if li.busy[path] {
		return nil, fmt.Errorf("import cycle not allowed: %s", path)
	}
	dir := strings.TrimPrefix(path, "batch/")
	fs, ok := li.files[dir]
	if !ok {
		return nil, fmt.Errorf("package %s is not in std or the module (no generated files in %s)", path, dir)
	}
	li.busy[path] = true
	defer delete(li.busy, path)
	cfg := types.Config{Importer: li, Error: func(err error) {
		msg := err.Error()
		if te, ok := err.(types.Error); ok {
			pos := te.Fset.Position(te.Pos)
			rel, _ := filepath.Rel(li.mod, pos.Filename)
			msg = fmt.Sprintf("%s:%d:%d: %s", filepath.ToSlash(rel), pos.Line, pos.Column, te.Msg)
		}
		*li.errs = append(*li.errs, msg)
	}}
	p, _ := cfg.Check(path, li.t.fset, fs, nil)
	li.pkgs[path] = p
	return p, nil
}

func (c *checker) typecheck(res *result, key string, full bool) {
	mod := filepath.Join(c.root, "mod")
	t := <-c.tcs
	t.uses++
	if t.uses > 400 { // the FileSet only grows: start afresh now and then
		t = c.newCtx()
	}
	defer func() { c.tcs <- t }()
	files := map[string][]*ast.File{}
	for _, f := range res.GoFiles {
		af, err := parser.ParseFile(t.fset, filepath.Join(mod, f), nil, parser.SkipObjectResolution)
		if err != nil {
			res.ParseErrs = append(res.ParseErrs, f+": "+firstLine(err.Error()))
			continue
		}
		dir := filepath.ToSlash(filepath.Dir(f))
		files[dir] = append(files[dir], af)
	}
	if !full || len(res.ParseErrs) > 0 {
		return
	}
	li := &localImporter{c: c, t: t, prefix: "batch/" + key + "/", mod: mod, pkgs: map[string]*types.Package{}, busy: map[string]bool{}, files: files, errs: &res.TypeErrs}
	dirs := make([]string, 0, len(files))
	for d := range files {
		dirs = append(dirs, d)
	}
	sort.Strings(dirs)
	for _, d := range dirs {
		li.Import("batch/" + d)
	}
}

func firstLine(s string) string {
	if i := strings.IndexByte(s, '\n'); i >= 0 {
		return s[:i]
	}
	return s
}

var reUnitDir = regexp.MustCompile(`(?:^|[\s/])([su]\d+)/`)
var reLoadErr = regexp.MustCompile(`import cycle not allowed|is not in std|no required module provides|cannot find package|cannot find module providing|malformed import path|no Go files in|^pattern |matched no packages`)

// goBuild runs `go build` (or `go vet`) for the directories dirs of the module mod and returns the output lines
// per directory. A package that cannot even be LOADED (import cycle, missing package) makes the go command stop
// before compiling anything: such directories are taken out and the rest is built again.
func goBuild(mod string, dirs []string, vet bool) map[string][]string {
	out := map[string][]string{}
	var left []string
	for _, d := range dirs {
		if fi, err := os.Stat(filepath.Join(mod, d)); err == nil && fi.IsDir() {
			left = append(left, d)
		}
	}
	for round := 0; round < 8 && len(left) > 0; round++ {
		args := []string{"build"}
		if vet {
			args = []string{"vet"}
		}
		for _, d := range left {
			args = append(args, "./"+d+"/...")
		}
		cmd := exec.Command("go", args...)
		cmd.Dir = mod
		cmd.Env = append(os.Environ(), goEnv...)
		b, _ := cmd.CombinedOutput()
		if os.Getenv("C01_DEBUG") != "" {
			fmt.Fprintf(os.Stderr, "goBuild round %d: %d dirs, %d bytes of output\n%.600s\n", round, len(left), len(b), b)
		}
		got := map[string][]string{}
		loadErr := map[string]bool{}
		cur := ""
		for _, ln := range strings.Split(string(b), "\n") {
			if strings.TrimSpace(ln) == "" || strings.HasPrefix(ln, "#") {
				continue
			}
			raw := strings.TrimSpace(ln)
			t := strings.TrimPrefix(strings.TrimPrefix(raw, "vet: "), "./")
			if vet && !strings.HasPrefix(raw, "vet: ") && !reLoadErr.MatchString(t) && !strings.HasPrefix(raw, "package ") && !strings.HasPrefix(raw, "imports ") {
				// an analyser's opinion (copylocks, structtag, …): not a verdict of the type checker, not C01's
				got["analyser"] = append(got["analyser"], t)
				continue
			}
			if m := reUnitDir.FindStringSubmatch(t); m != nil {
				cur = m[1]
			}
			got[cur] = append(got[cur], t)
			if reLoadErr.MatchString(t) && cur != "" {
				loadErr[cur] = true
			}
		}
		if len(loadErr) == 0 {
			for k, v := range got {
				out[k] = append(out[k], v...)
			}
			break
		}
		var next []string
		for _, d := range left {
			if loadErr[d] {
				out[d] = append(out[d], got[d]...)
			} else {
				next = append(next, d)
			}
		}
		left = next
	}
	return out
}

// confirm runs the REAL toolchain on the outputs of earlier runs that are still on disk.
func (c *checker) confirm(dirs []string, vet bool) map[string][]string {
	return goBuild(filepath.Join(c.root, "mod"), dirs, vet)
}
