package main

// known.go: the dedicated known-defect stream: one small hand-built program per candidate defect of
// docs/BATCH-notes.md §5 (D1–D21) and DESIGN.md §7, plus the ones C01 found itself (X…). They are ordinary
// subjects: they run through the same pipeline, shrinker and key computation as generated programs, so that each
// candidate is reproduced by this check on every run, independent of the seed.

import (
	"verifharness/internal/idlgen"
)

type knownUnit struct {
	ID      string // D1 … / X1 …
	Note    string
	Subject *subject
	Expect  string // "fail" (a C01 violation is expected on the unchanged tree) | "other" (not C01's: value/runtime defect) | "pass"
}

// ---- tiny builder DSL

func tBase(k idlgen.Kind) *Type            { return &Type{Kind: k} }
func tList(e *Type) *Type                  { return &Type{Kind: idlgen.List, Elem: e} }
func tMap(k, v *Type) *Type                { return &Type{Kind: idlgen.Map, Key: k, Elem: v} }
func tRef(file int, name string) *Type     { return &Type{Kind: idlgen.Named, Named: &idlgen.NamedRef{File: file, Name: name}} }
func cInt(s string) *Const                 { return &Const{Kind: idlgen.CInt, Text: s} }
func cStr(s string) *Const                 { return &Const{Kind: idlgen.CString, Text: s, Quote: '"'} }
func cStrQ(s string, q byte) *Const        { return &Const{Kind: idlgen.CString, Text: s, Quote: q} }
func cId(s string) *Const                  { return &Const{Kind: idlgen.CIdent, Text: s} }
func cList(items ...*Const) *Const         { return &Const{Kind: idlgen.CList, Sep: ",", Items: items} }
func cMap(items ...*Const) *Const          { return &Const{Kind: idlgen.CMap, Sep: ",", Items: items} }
func fd(id int, name string, t *Type) *idlgen.Field {
	return &idlgen.Field{ID: int16(id), HasID: true, Name: name, Type: t}
}
func fdOpt(id int, name string, t *Type) *idlgen.Field {
	return &idlgen.Field{ID: int16(id), HasID: true, Name: name, Type: t, Req: idlgen.Optional}
}
func fdDef(id int, name string, t *Type, d *Const) *idlgen.Field {
	return &idlgen.Field{ID: int16(id), HasID: true, Name: name, Type: t, Default: d}
}

// mkFile assembles a file; defs are *idlgen.Typedef, *idlgen.Enum, *idlgen.Struct, *idlgen.ConstDef, *idlgen.Service.
func mkFile(path, ns string, inc []int, defs ...interface{}) *File {
	f := &File{Path: path, GoNS: ns, Includes: inc}
	for _, d := range defs {
		switch d := d.(type) {
		case *idlgen.Typedef:
			f.Typedefs = append(f.Typedefs, d)
			f.Order = append(f.Order, idlgen.DefRef{Kind: 't', Idx: len(f.Typedefs) - 1})
		case *idlgen.Enum:
			f.Enums = append(f.Enums, d)
			f.Order = append(f.Order, idlgen.DefRef{Kind: 'e', Idx: len(f.Enums) - 1})
		case *idlgen.Struct:
			f.Structs = append(f.Structs, d)
			f.Order = append(f.Order, idlgen.DefRef{Kind: 's', Idx: len(f.Structs) - 1})
		case *idlgen.ConstDef:
			f.Consts = append(f.Consts, d)
			f.Order = append(f.Order, idlgen.DefRef{Kind: 'c', Idx: len(f.Consts) - 1})
		case *idlgen.Service:
			f.Services = append(f.Services, d)
			f.Order = append(f.Order, idlgen.DefRef{Kind: 'v', Idx: len(f.Services) - 1})
		default:
			panic("mkFile: bad definition")
		}
	}
	return f
}

func enum(name string, vals ...string) *idlgen.Enum {
	e := &idlgen.Enum{Name: name}
	for i, v := range vals {
		e.Values = append(e.Values, idlgen.EnumValue{Name: v, Value: int64(i)})
	}
	return e
}
func strct(name string, fs ...*idlgen.Field) *idlgen.Struct {
	return &idlgen.Struct{Kind: 's', Name: name, Fields: fs}
}
func excn(name string, fs ...*idlgen.Field) *idlgen.Struct {
	return &idlgen.Struct{Kind: 'e', Name: name, Fields: fs}
}
func tdef(name string, t *Type) *idlgen.Typedef { return &idlgen.Typedef{Name: name, Type: t} }
func cdef(name string, t *Type, v *Const) *idlgen.ConstDef {
	return &idlgen.ConstDef{Name: name, Type: t, Value: v}
}
func svc(name string, ext *idlgen.NamedRef, fns ...*idlgen.Function) *idlgen.Service {
	return &idlgen.Service{Name: name, Extends: ext, Functions: fns}
}
func fnVoid(name string, args []*idlgen.Field, throws []*idlgen.Field) *idlgen.Function {
	return &idlgen.Function{Name: name, Args: args, Throws: throws}
}
func sub(be string, opts []string, files ...*File) *subject {
	return &subject{Prog: &Program{Files: files}, Backend: be, Options: opts, Recurse: true}
}

var (
	i32  = tBase(idlgen.I32)
	str  = tBase(idlgen.String)
	bin  = tBase(idlgen.Binary)
	boo  = tBase(idlgen.Bool)
	none []int
)

// knownUnits is the dedicated stream.
func knownUnits() []knownUnit {
	return []knownUnit{
		{ID: "D1", Expect: "fail", Note: "constant whose type is a typedef of a container: nil dereference in Resolver.resolveConst",
			Subject: sub("go", nil, mkFile("a.thrift", "pa", none, tdef("L", tList(i32)), cdef("C", tRef(0, "L"), cList(cInt("1")))))},
		{ID: "D2", Expect: "fail", Note: "identifier inside a literal of a struct of another file: index out of range in Resolver.getIDValue",
			Subject: sub("go", nil,
				mkFile("a.thrift", "pa", []int{1}, cdef("C", tRef(1, "S0"), cMap(cStr("f"), cId("b.C0")))),
				mkFile("b.thrift", "pb", none, cdef("C0", boo, cId("true")), strct("S0", fd(1, "f", boo))))},
		{ID: "D3", Expect: "fail", Note: "struct literal inside a container literal under value_type_in_container",
			Subject: sub("go", []string{"value_type_in_container"}, mkFile("a.thrift", "pa", none,
				strct("A", fd(1, "x", i32)), strct("B", fdDef(1, "l", tList(tRef(0, "A")), cList(cMap(cStr("x"), cInt("1")))))))},
		{ID: "D4", Expect: "fail", Note: "struct literal setting an optional enum member: address of a constant",
			Subject: sub("go", nil, mkFile("a.thrift", "pa", none, enum("E", "A"), strct("S", fdOpt(1, "e", tRef(0, "E"))),
				cdef("C", tRef(0, "S"), cMap(cStr("e"), cId("E.A")))))},
		{ID: "D5", Expect: "fail", Note: "literal of a struct of another file setting a member whose type lives in a third file: unused import",
			Subject: sub("go", nil,
				mkFile("a.thrift", "pa", []int{1}, cdef("C", tRef(1, "S1"), cMap(cStr("f2"), cInt("0")))),
				mkFile("b.thrift", "pb", []int{2}, strct("S1", fd(1, "f2", tRef(2, "E1")))),
				mkFile("c.thrift", "pc", none, enum("E1", "A")))},
		{ID: "D6", Expect: "fail", Note: "struct-typed constant given by the identifier of another constant: the type's package is imported but unused",
			Subject: sub("go", nil,
				mkFile("a.thrift", "pa", []int{1, 2}, cdef("C7", tRef(1, "S5"), cId("c.C0"))),
				mkFile("b.thrift", "pb", none, strct("S5")),
				mkFile("c.thrift", "pc", []int{1}, cdef("C0", tRef(1, "S5"), cMap())))},
		{ID: "D7a", Expect: "fail", Note: "constant of a typedef-of-base type of another file: untyped Go constant, import unused",
			Subject: sub("go", nil,
				mkFile("a.thrift", "pa", []int{1}, cdef("C", tRef(1, "TI"), cInt("1"))),
				mkFile("b.thrift", "pb", none, tdef("TI", i32)))},
		{ID: "D7b", Expect: "fail", Note: "constant of an enum type of another file given by number: untyped Go constant, import unused",
			Subject: sub("go", nil,
				mkFile("a.thrift", "pa", []int{1}, cdef("C", tRef(1, "E"), cInt("1"))),
				mkFile("b.thrift", "pb", none, &idlgen.Enum{Name: "E", Values: []idlgen.EnumValue{{Name: "A", Value: 1, HasValue: true}}}))},
		{ID: "D8", Expect: "fail", Note: "binary constant referenced by identifier as a map key: []byte vs string",
			Subject: sub("go", nil, mkFile("a.thrift", "pa", none, cdef("C0", bin, cStr("a")),
				strct("S", fdDef(1, "m", tMap(bin, i32), cMap(cId("C0"), cInt("1"))))))},
		{ID: "D9a", Expect: "fail", Note: "package named c (file without go namespace) shadowed by the parameter c of New<Svc>Client",
			Subject: sub("go", nil,
				mkFile("a.thrift", "pa", []int{1}, svc("Svc", &idlgen.NamedRef{File: 1, Name: "Svc1"})),
				mkFile("c.thrift", "", none, svc("Svc1", nil)))},
		{ID: "D9b", Expect: "fail", Note: "fastgo: package named b shadowed by the buffer parameter b of FastRead",
			Subject: sub("fastgo", nil,
				mkFile("a.thrift", "pa", []int{1}, strct("S", fd(1, "t", tRef(1, "T1")))),
				mkFile("b.thrift", "", none, strct("T1", fd(1, "x", i32))))},
		{ID: "D10", Expect: "fail", Note: "the same exception type twice in one throws list: duplicate case in the processor's type switch",
			Subject: sub("go", nil, mkFile("a.thrift", "pa", none, excn("X"),
				svc("S", nil, fnVoid("f", nil, []*idlgen.Field{fd(1, "a", tRef(0, "X")), fd(2, "b", tRef(0, "X"))}))))},
		{ID: "D11", Expect: "other", Note: "exponent double: value wrong, code compiles (C03/C06)",
			Subject: sub("go", nil, mkFile("a.thrift", "pa", none, cdef("A", tBase(idlgen.Double), &Const{Kind: idlgen.CDouble, Text: "1.5e-3"})))},
		{ID: "D12", Expect: "fail", Note: "fastgo: typedef of a map type: nil dereference in genBLengthMap",
			Subject: sub("fastgo", nil, mkFile("a.thrift", "pa", none, tdef("M", tMap(str, i32)), strct("S", fd(1, "m", tRef(0, "M")))))},
		{ID: "D14", Expect: "fail", Note: "value_type_in_container + gen_deep_equal: DeepEqual of list<struct> passes a value where a pointer is expected",
			Subject: sub("go", []string{"value_type_in_container", "gen_deep_equal"}, mkFile("a.thrift", "pa", none,
				strct("I", fd(1, "x", i32)), strct("S", fd(1, "l", tList(tRef(0, "I"))))))},
		{ID: "D15a", Expect: "fail", Note: "use_type_alias=false: typedef of a struct used as a field type",
			Subject: sub("go", []string{"use_type_alias=false"}, mkFile("a.thrift", "pa", none,
				strct("B", fd(1, "x", i32)), tdef("BB", tRef(0, "B")), strct("S", fd(1, "b", tRef(0, "BB")))))},
		{ID: "D15b", Expect: "fail", Note: "use_type_alias=false: typedef of a base type inside a container",
			Subject: sub("go", []string{"use_type_alias=false"}, mkFile("a.thrift", "pa", none,
				tdef("MyInt", i32), strct("S", fd(1, "l", tList(tRef(0, "MyInt"))))))},
		{ID: "D16", Expect: "fail", Note: "map with a container key: Go has no slice keys (thriftgo accepts the IDL)",
			Subject: sub("go", nil, mkFile("a.thrift", "pa", none, strct("S", fd(1, "m", tMap(tList(i32), i32)))))},
		{ID: "D17", Expect: "fail", Note: "fastgo: map<binary,…>: FastRead assigns []byte to a string key",
			Subject: sub("fastgo", nil, mkFile("a.thrift", "pa", none, strct("S", fd(1, "m", tMap(bin, i32)))))},
		{ID: "D18a", Expect: "fail", Note: "field init_default: field and method InitDefault (not reserved in buildStructLike)",
			Subject: sub("go", nil, mkFile("a.thrift", "pa", none, strct("S", fd(1, "init_default", i32))))},
		{ID: "D18b", Expect: "fail", Note: "struct _item used from another file: Go name _Item is not exported",
			Subject: sub("go", nil,
				mkFile("a.thrift", "pa", []int{1}, strct("S", fd(1, "x", tRef(1, "_item")))),
				mkFile("b.thrift", "pb", none, strct("_item")))},
		{ID: "D18c", Expect: "fail", Note: "enum _item used from another file: cmd/compile says `undefined: pb._Item` (nothing exported reaches the unexported type, so it is absent from the export data) where go/types on source says `not exported` — same root cause and key as D18b",
			Subject: sub("go", nil,
				mkFile("a.thrift", "pa", []int{1}, strct("S", fd(1, "x", tRef(1, "_item")))),
				mkFile("b.thrift", "pb", none, enum("_item", "V1")))},
		{ID: "D20b", Expect: "fail", Note: "as D20 with an include that is not referred to: no self import, but k-a.go and k-b.go both declare ThriftGoUnusedProtection — same root cause and key as D20",
			Subject: sub("fastgo", nil,
				mkFile("a.thrift", "p", []int{1}, strct("S", fd(1, "x", i32))),
				mkFile("b.thrift", "p", none, strct("T", fd(1, "x", i32))))},
		{ID: "X12", Expect: "fail", Note: "argument named nil shadows the predeclared nil the generated client body compares with and returns",
			Subject: sub("go", nil, mkFile("a.thrift", "pa", none, svc("S", nil, fnVoid("f", []*idlgen.Field{fd(1, "nil", i32)}, nil))))},
		{ID: "X13", Expect: "fail", Note: "a derived service defines a function of its base service again with another signature: the interface embeds the base and declares the method a second time",
			Subject: sub("go", nil,
				mkFile("a.thrift", "pa", []int{1}, svc("V0", &idlgen.NamedRef{File: 1, Name: "V1"}, fnVoid("m0", nil, nil))),
				mkFile("b.thrift", "pb", none, svc("V1", nil, fnVoid("m0", []*idlgen.Field{fd(1, "a0", i32)}, nil))))},
		{ID: "X11b", Expect: "fail", Note: "the plain case of X11: both files of one go namespace define `struct item_` — the known shared-go-namespace key whatever the spelling of the name",
			Subject: sub("go", nil,
				mkFile("a.thrift", "org.demo.p", []int{1}, strct("item_")),
				mkFile("b.thrift", "org.demo.p", none, strct("item_")))},
		{ID: "D19", Expect: "fail", Note: "functions a_b and aB of one service: duplicate method AB in the interface",
			Subject: sub("go", nil, mkFile("a.thrift", "pa", none, svc("A", nil, fnVoid("a_b", nil, nil), fnVoid("aB", nil, nil))))},
		{ID: "D20", Expect: "fail", Note: "fastgo -r: two files of one go namespace both declare ThriftGoUnusedProtection",
			Subject: sub("fastgo", nil,
				mkFile("a.thrift", "p", []int{1}, strct("S", fd(1, "t", tRef(1, "T")))),
				mkFile("b.thrift", "p", none, strct("T", fd(1, "x", i32))))},
		{ID: "S1", Expect: "fail", Note: "DESIGN §7: raw newline inside a string literal: generated Go does not parse (format WARN only)",
			Subject: sub("go", nil, mkFile("a.thrift", "pa", none, cdef("s", str, cStr("a\nb"))))},
		{ID: "S2", Expect: "fail", Note: "DESIGN §7: 'a\\\"b' is emitted as \"a\\\\\"b\": does not parse",
			Subject: sub("go", nil, mkFile("a.thrift", "pa", none, cdef("s", str, cStrQ(`a\"b`, '\''))))},
		{ID: "X1", Expect: "fail", Note: "enum value constant A_B vs struct a__b (identified A_B): template-minted identifier outside the namespace",
			Subject: sub("go", nil, mkFile("a.thrift", "pa", none, enum("A", "B"), strct("a__b")))},
		{ID: "X2", Expect: "fail", Note: "func FooPtr (enum Foo) vs struct FooPtr: template-minted identifier outside the namespace",
			Subject: sub("go", nil, mkFile("a.thrift", "pa", none, enum("Foo", "X"), strct("FooPtr")))},
		{ID: "X3", Expect: "fail", Note: "two arguments with one name are accepted (semantic.CheckFunctions checks neither names nor ids of arguments)",
			Subject: sub("go", nil, mkFile("a.thrift", "pa", none, svc("S", nil, fnVoid("f", []*idlgen.Field{fd(1, "a", i32), fd(2, "a", i32)}, nil))))},
		{ID: "X4", Expect: "fail", Note: "function client_: method Client_ of the generated client declared twice",
			Subject: sub("go", nil, mkFile("a.thrift", "pa", none, svc("S", nil, fnVoid("client_", nil, nil))))},
		{ID: "X6", Expect: "fail", Note: "fastgo: field b_length: field and method BLength (fastgo's methods are not reserved either)",
			Subject: sub("fastgo", nil, mkFile("a.thrift", "pa", none, strct("S", fd(1, "b_length", i32))))},
		{ID: "X7", Expect: "fail", Note: "template=raw_struct: typedef of a struct emits New<T>() calling New<S>(), which that template does not generate",
			Subject: sub("go", []string{"template=raw_struct"}, mkFile("a.thrift", "pa", none, strct("S"), tdef("T", tRef(0, "S"))))},
		{ID: "X8", Expect: "fail", Note: "fastgo: typedef of a list as an argument type: BLength declares a loop variable it does not use",
			Subject: sub("fastgo", nil, mkFile("a.thrift", "pa", none, tdef("L", tList(i32)), svc("V", nil, fnVoid("m", []*idlgen.Field{fd(1, "a", tRef(0, "L"))}, nil))))},
		{ID: "D9c", Expect: "fail", Note: "fastgo: package b shadowed by the buffer parameter where the package qualifies a TYPE (list element): b.S1 is not a type",
			Subject: sub("fastgo", nil,
				mkFile("a.thrift", "pa", []int{1}, strct("S", fd(1, "l", tList(tRef(1, "T1"))))),
				mkFile("b.thrift", "", none, strct("T1")))},
		{ID: "S3", Expect: "fail", Note: "escaped single quote inside a double-quoted literal is copied into the Go string: unknown escape sequence",
			Subject: sub("go", nil, mkFile("a.thrift", "pa", none, cdef("s", str, cStr(`a\'b`))))},
		{ID: "X9", Expect: "fail", Note: "go namespace whose last segment is init: `cannot import package as init` (the import manager aliases collisions with its own names only)",
			Subject: sub("go", nil,
				mkFile("a.thrift", "pa", []int{1}, strct("S", fd(1, "x", tRef(1, "T")))),
				mkFile("b.thrift", "x.init", none, strct("T")))},
		{ID: "X10", Expect: "fail", Note: "constant whose map key type is a typedef of binary of another file: key type becomes string, the import registered for the typedef is unused",
			Subject: sub("go", nil,
				mkFile("a.thrift", "pa", []int{1}, cdef("C", tMap(tRef(1, "B"), boo), cMap())),
				mkFile("b.thrift", "pb", none, tdef("B", bin)))},
		{ID: "X11", Expect: "fail", Note: "minted identifier of one file vs a definition of another file of the same go namespace (each file has its own Scope.globals)",
			Subject: sub("go", nil,
				mkFile("a.thrift", "p", []int{1}, strct("SvcClientProtocol")),
				mkFile("b.thrift", "p", none, svc("Svc", nil)))},
		{ID: "X5", Expect: "fail", Note: "union U with a member count_set_fields_u: field and method CountSetFieldsU (buildStructLike reserves CountSetFields, the template declares CountSetFields<T>)",
			Subject: sub("go", nil, mkFile("a.thrift", "pa", none, &idlgen.Struct{Kind: 'u', Name: "U", Fields: []*idlgen.Field{fd(1, "count_set_fields_u", i32)}}))},
	}
}
