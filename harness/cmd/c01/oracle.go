package main

// oracle.go: the property oracle on the implementation alone (exit status, go/parser, Go type checker / go build /
// go vet messages) turned into findings with STABLE keys: one key per root cause, independent of seed,
// identifiers, paths and line numbers.
//
//	thriftgo-crash:<panic site>[|…]      thriftgo died with a Go panic on a well-formed program
//	parse:<class>[|…]                    exit 0 but a written .go file does not parse
//	compile:<class>[|…]                  exit 0, files parse, the packages do not type-check
//	reject:<class>                       non-zero exit with a diagnostic (NOT a violation of C01; counted)
//
// followed by the causes that survive shrinking: `|backend=fastgo`, `|opt=<minimal option set>`,
// `|feat=<IDL features present in the minimal program>`, `|named` (the failure depends on specific identifiers:
// canonical renaming was refused for at least one).

import (
	"regexp"
	"sort"
	"strings"

	"verifharness/internal/idlgen"
)

type finding struct {
	Kind   string // thriftgo-crash | parse | compile | reject
	Class  string
	Detail string // first message, verbatim
}

func (f finding) violation() bool { return f.Kind != "reject" && f.Kind != "" }

func (f finding) head() string {
	if f.Kind == "" {
		return ""
	}
	return f.Kind + ":" + f.Class
}

// compile-error classes, most root-cause-like first: a unit is attributed to the first class present.
var compileClasses = []struct {
	class string
	re    *regexp.Regexp
}{
	{"import-error", regexp.MustCompile(`could not import|import cycle|is not in std|no required module|cannot find package|cannot find module providing|no export data|cannot import package as|is a program, not an importable package`)},
	{"redeclared", regexp.MustCompile(`redeclared in this block`)},
	{"method-redeclared", regexp.MustCompile(`method .* already declared`)},
	{"duplicate-method", regexp.MustCompile(`duplicate method`)},
	{"duplicate-field", regexp.MustCompile(`duplicate field|[A-Za-z_0-9]+ redeclared$`)},
	{"duplicate-param", regexp.MustCompile(`duplicate argument`)},
	{"field-method-clash", regexp.MustCompile(`field and method with the same name`)},
	{"duplicate-case", regexp.MustCompile(`duplicate case`)},
	// `undefined: pkg._Name` / `undefined: pkg.name`: cmd/compile imports export data, in which an unexported name that no
	// exported declaration reaches does not exist at all; go/types on source says "not exported" for the same program
	{"not-exported", regexp.MustCompile(`not exported by package|cannot refer to unexported|undefined: [A-Za-z_][A-Za-z0-9_]*\.[a-z_][A-Za-z0-9_]*$`)},
	{"invalid-map-key", regexp.MustCompile(`invalid map key type`)},
	{"address-of-constant", regexp.MustCompile(`cannot take address of`)},
	{"unused-import", regexp.MustCompile(`imported and not used`)},
	{"not-a-type", regexp.MustCompile(`is not a type`)},
	{"undefined-member", regexp.MustCompile(`undefined \(type .* has no field or method|has no field or method`)},
	{"undefined-name", regexp.MustCompile(`undefined: `)},
	{"type-mismatch", regexp.MustCompile(`cannot use .* as .* value in|cannot use .* \(.*\) as |mismatched types|cannot convert`)},
	{"unused-variable", regexp.MustCompile(`declared and not used`)},
	{"missing-return", regexp.MustCompile(`missing return`)},
}

var (
	rePos     = regexp.MustCompile(`^[^\s:]+\.go:\d+:\d+: `)
	reQuoted  = regexp.MustCompile(`"[^"]*"`)
	reWord    = regexp.MustCompile(`[a-z]{2,}`)
	rePanicFn = regexp.MustCompile(`(?m)^(github\.com/cloudwego/thriftgo/\S+)\([^()]*\)\s*$`)
)

// reTypeErr: lines of `go vet` that are verdicts of the type checker (vet prints them when a package does not
// type-check) as opposed to opinions of its analysers.
var reTypeErr = regexp.MustCompile(`redeclared|imported and not used|undefined|cannot use|declared and not used|is not a type|duplicate |not exported|invalid |missing return|already declared|could not import`)

func stripPos(msg string) string { return rePos.ReplaceAllString(msg, "") }

// otherClass abstracts an unclassified message: lower-case words only, at most eight.
func otherClass(msg string) string {
	msg = reQuoted.ReplaceAllString(stripPos(msg), "")
	ws := reWord.FindAllString(msg, -1)
	if len(ws) > 8 {
		ws = ws[:8]
	}
	return "other:" + strings.Join(ws, "-")
}

// methods the templates declare without reserving them in the struct's namespace (the known family D18a/X5/X6);
// a clash with any OTHER method name is a clash with a name the namespace was meant to protect.
var reMintedMethod = regexp.MustCompile(`^(InitDefault|CountSetFields.*|BLength|FastRead|FastWrite|FastWriteNocopy|FastAppend|Get_FieldMask|Set_FieldMask|Pass_FieldMask|GetOrSetBase.*|GetFieldDescriptor|GetTypeDescriptor)$`)
var reClashName = regexp.MustCompile(`same name (\S+)`)
var reRedeclName = regexp.MustCompile(`^(\S+) redeclared in this block`)
var reLocalName = regexp.MustCompile(`^[a-z_][A-Za-z0-9_]*$`)
var reRenamedName = regexp.MustCompile(`^[A-Za-z][A-Za-z0-9]*_+$`)

func classifyCompile(msgs []string) (string, string) {
	for _, c := range compileClasses {
		for _, m := range msgs {
			if strings.Contains(m, "other declaration of") || strings.Contains(m, "too many errors") {
				continue
			}
			if c.re.MatchString(stripPos(m)) {
				if c.class == "redeclared" && strings.Contains(m, "ThriftGoUnusedProtection redeclared") {
					// fastgo writes package-level code once per FILE: two files of one go namespace give either a k-file that
					// imports its own package (when the include is referred to) or this redeclaration (when it is not) —
					// one root cause (D20), one class
					return "import-error", m
				}
				if c.class == "redeclared" {
					// WHAT is declared twice tells root causes apart: a local of a method (parameters are lower-cased,
					// package-level names of thriftgo are exported or carry a fixed prefix), a name that is itself the
					// product of collision renaming (plain identifier + trailing underscores), or anything else (the
					// known family of identifiers minted by templates: A_B, FooPtr, NewXClient …)
					if nm := reRedeclName.FindStringSubmatch(stripPos(m)); nm != nil {
						switch {
						case reLocalName.MatchString(nm[1]) && !strings.HasPrefix(nm[1], "fieldIDToName_") && !strings.HasPrefix(nm[1], "annotations_") && !strings.Contains(nm[1], "Processor"):
							return "redeclared-local", m
						case reRenamedName.MatchString(nm[1]):
							return "redeclared-renamed", m
						}
					}
				}
				if c.class == "field-method-clash" {
					if nm := reClashName.FindStringSubmatch(m); nm != nil && !reMintedMethod.MatchString(nm[1]) {
						return "managed-member-clash", m
					}
				}
				return c.class, m
			}
		}
	}
	for _, m := range msgs {
		if strings.Contains(m, "other declaration of") || strings.Contains(m, "too many errors") || strings.TrimSpace(m) == "" {
			continue
		}
		return otherClass(m), m
	}
	return "", ""
}

// panicSite: the innermost thriftgo frame below the runtime's panic frames.
func panicSite(stderr string) string {
	i := strings.Index(stderr, "panic(")
	s := stderr
	if i >= 0 {
		s = stderr[i:]
	}
	for _, m := range rePanicFn.FindAllStringSubmatch(s, -1) {
		fn := m[1]
		if strings.Contains(fn, "handlePanic") || strings.Contains(fn, "Scope).init.func") || strings.Contains(fn, "workerMain") {
			continue
		}
		fn = strings.TrimPrefix(fn, "github.com/cloudwego/thriftgo/")
		return fn
	}
	// no stack: classify by the message
	return otherClass(firstLine(strings.TrimSpace(stderr)))
}

func isPanic(stderr string) bool {
	return strings.Contains(stderr, "runtime error") || strings.Contains(stderr, "Recovered from panic") ||
		strings.Contains(stderr, "goroutine ") || strings.Contains(stderr, "panic:") || strings.Contains(stderr, "fatal error:")
}

// judge evaluates the oracle on one outcome. compile = messages of the Go type checker / go build.
func judge(exit int, stderr string, parseErrs, compile []string) finding {
	switch {
	case exit != 0 && strings.Contains(stderr, "failed to reserve"):
		return finding{Kind: "reject", Class: "reserve", Detail: firstLine(strings.TrimSpace(stderr))}
	case exit != 0 && isPanic(stderr), exit == 0 && strings.Contains(stderr, "Recovered from panic"):
		return finding{Kind: "thriftgo-crash", Class: panicSite(stderr), Detail: firstLine(strings.TrimSpace(stderr))}
	case exit != 0:
		msg := firstLine(strings.TrimSpace(stderr))
		return finding{Kind: "reject", Class: strings.TrimPrefix(otherClass(msg), "other:"), Detail: msg}
	case len(parseErrs) > 0:
		m := parseErrs[0]
		if i := strings.Index(m, ".go:"); i >= 0 {
			m = m[i+4:]
		}
		m = regexp.MustCompile(`^\d+:\d+: `).ReplaceAllString(strings.TrimPrefix(m, " "), "")
		m = regexp.MustCompile(`\(and \d+ more errors?\)`).ReplaceAllString(m, "")
		m = regexp.MustCompile(`found .*$`).ReplaceAllString(m, "found") // the offending token is program text
		return finding{Kind: "parse", Class: strings.TrimPrefix(otherClass(m), "other:"), Detail: parseErrs[0]}
	}
	if c, d := classifyCompile(compile); c != "" {
		return finding{Kind: "compile", Class: c, Detail: d}
	}
	return finding{}
}

// ---------------------------------------------------------------- features of a (minimal) program

func typeHas(p *Program, t *Type, pred func(t *Type) bool) bool {
	if t == nil {
		return false
	}
	return pred(t) || typeHas(p, t.Elem, pred) || typeHas(p, t.Key, pred)
}

func isContainer(t *Type) bool {
	return t != nil && (t.Kind == idlgen.List || t.Kind == idlgen.Set || t.Kind == idlgen.Map)
}

// features lists the IDL shapes present in p that idlgen keeps behind switches (docs/BATCH-notes.md §5) or that
// are otherwise remarkable. On a 1-minimal program every feature present is needed by the failure.
func features(p *Program) []string {
	set := map[string]bool{}
	eachType(p, func(fi int, t *Type) {
		if t.Kind == idlgen.Map {
			if d := deref(p, t.Key); isContainer(d) {
				set["container-map-key"] = true
			}
			if d := deref(p, t.Key); d != nil && d.Kind == idlgen.Binary {
				set["binary-map-key"] = true
			}
		}
	})
	for fi, f := range p.Files {
		if f.GoNS == "" && len(pathBase(f.Path)) == 1 {
			set["short-package"] = true
		}
		for fj, g := range p.Files {
			if fi < fj && f.GoNS != "" && f.GoNS == g.GoNS {
				set["shared-go-namespace"] = true
			}
		}
		for _, td := range f.Typedefs {
			if isContainer(td.Type) {
				set["typedef-container"] = true
			}
			if d := deref(p, td.Type); d != nil && d.Kind == idlgen.Named && refKind(p, d.Named) == 's' {
				set["typedef-struct"] = true
			}
		}
		for _, sv := range f.Services {
			if sv.Extends != nil {
				set["extends"] = true
			}
			for _, m := range sv.Functions {
				seen := map[string]bool{}
				for _, t := range m.Throws {
					if d := deref(p, t.Type); d != nil && d.Kind == idlgen.Named {
						k := d.Named.Name + "@" + string(rune('0'+d.Named.File))
						if seen[k] {
							set["dup-throws-type"] = true
						}
						seen[k] = true
					}
				}
				names := map[string]bool{}
				for _, a := range append(append([]*idlgen.Field{}, m.Args...), m.Throws...) {
					if names[a.Name] {
						set["dup-arg-name"] = true
					}
					names[a.Name] = true
				}
			}
		}
	}
	eachConst(p, func(fi int, t *Type, c *Const) {
		if t.Kind == idlgen.Named && refKind(p, t.Named) == 't' && isContainer(deref(p, t)) {
			set["const-of-typedef-container"] = true
		}
		if d := deref(p, t); d != nil && t.Kind == idlgen.Named && t.Named.File != fi && c.Kind != idlgen.CIdent && c.Kind != idlgen.CMap && c.Kind != idlgen.CList {
			set["scalar-const-of-foreign-type"] = true
		}
		depth := 0
		var rec func(c *Const, t *Type)
		rec = func(c *Const, t *Type) {
			d := deref(p, t)
			if c.Kind == idlgen.CIdent {
				if r := resolveIdent(p, fi, t, c.Text); r.kind == 'c' {
					cd := findConst(p.Files[r.file], r.name)
					if dd := deref(p, cd.Type); dd != nil {
						if dd.Kind == idlgen.Named && refKind(p, dd.Named) == 's' {
							set["struct-const-by-ident"] = true
						}
						if dd.Kind == idlgen.Binary {
							set["binary-const-ident"] = true
						}
					}
				}
			}
			if c.Kind == idlgen.CDouble && strings.ContainsAny(c.Text, "eE") {
				set["exponent-double"] = true
			}
			if c.Kind == idlgen.CString && strings.ContainsAny(c.Text, "\\\"'\n") {
				set["string-escape"] = true
			}
			switch {
			case c.Kind == idlgen.CList && d != nil && (d.Kind == idlgen.List || d.Kind == idlgen.Set):
				depth++
				for _, it := range c.Items {
					rec(it, d.Elem)
				}
				depth--
			case c.Kind == idlgen.CMap && d != nil && d.Kind == idlgen.Map:
				depth++
				for i := 0; i+1 < len(c.Items); i += 2 {
					rec(c.Items[i], d.Key)
					rec(c.Items[i+1], d.Elem)
				}
				depth--
			case c.Kind == idlgen.CMap && d != nil && d.Kind == idlgen.Named && refKind(p, d.Named) == 's':
				if depth > 0 {
					set["struct-literal-in-container"] = true
				}
				st := findStruct(p.Files[d.Named.File], d.Named.Name)
				for i := 0; i+1 < len(c.Items); i += 2 {
					_, fd := st.FieldByName(c.Items[i].Text)
					if fd == nil {
						continue
					}
					ft := deref(p, fd.Type)
					if ft != nil && ft.Kind == idlgen.Named && refKind(p, ft.Named) == 'e' && (fd.Req == idlgen.Optional || st.Kind == 'u') {
						set["optional-enum-in-literal"] = true
					}
					if d.Named.File != fi {
						// the file through which the literal's type is NAMED (a typedef may sit between)
						via := d.Named.File
						if t != nil && t.Kind == idlgen.Named {
							via = t.Named.File
						}
						if typeHas(p, fd.Type, func(x *Type) bool { return x.Kind == idlgen.Named && x.Named.File != via && x.Named.File != fi }) {
							set["foreign-literal-foreign-member"] = true
						}
						hasIdent := false
						var scan func(c *Const)
						scan = func(c *Const) {
							if c.Kind == idlgen.CIdent && c.Text != "true" && c.Text != "false" {
								hasIdent = true
							}
							for _, it := range c.Items {
								scan(it)
							}
						}
						scan(c.Items[i+1])
						if hasIdent {
							set["foreign-literal-ident"] = true
						}
					}
					rec(c.Items[i+1], fd.Type)
				}
			}
		}
		rec(c, t)
	})
	var out []string
	for k := range set {
		out = append(out, k)
	}
	sort.Strings(out)
	return out
}

// stableKey assembles the key of a finding on a minimised subject.
// sameNameInPackage: two files of one go namespace declare a definition under the same IDL name (each file has its own
// Scope.globals, so nothing keeps them apart): the known shared-go-namespace root cause, however the name is spelled.
func sameNameInPackage(p *Program) bool {
	type key struct{ ns, name string }
	seen := map[key]int{}
	for fi, f := range p.Files {
		if f.GoNS == "" {
			continue
		}
		var names []string
		for _, d := range f.Typedefs {
			names = append(names, d.Name)
		}
		for _, d := range f.Enums {
			names = append(names, d.Name)
		}
		for _, d := range f.Structs {
			names = append(names, d.Name)
		}
		for _, d := range f.Consts {
			names = append(names, d.Name)
		}
		for _, d := range f.Services {
			names = append(names, d.Name)
		}
		for _, n := range names {
			k := key{f.GoNS, n}
			if other, ok := seen[k]; ok && other != fi {
				return true
			}
			seen[k] = fi
		}
	}
	return false
}

func stableKey(f finding, s *subject, kept []string) string {
	if s != nil && f.Kind == "compile" && f.Class == "redeclared-renamed" && sameNameInPackage(s.Prog) {
		// `redeclared-renamed` is for a name that collides only after collision renaming inside ONE scope; here the
		// identifier is simply declared by both files of the package
		f.Class = "redeclared"
	}
	named, pkgnamed := false, false
	for _, k := range kept {
		if strings.HasPrefix(k, "file ") || strings.HasPrefix(k, "namespace ") {
			pkgnamed = true
		} else {
			named = true
		}
	}
	k := f.head()
	if s == nil {
		return k
	}
	if s.Backend != "" && s.Backend != "go" {
		k += "|backend=" + s.Backend
	}
	if len(s.Options) > 0 {
		o := append([]string(nil), s.Options...)
		sort.Strings(o)
		k += "|opt=" + strings.Join(o, ",")
	}
	ft := features(s.Prog)
	if len(ft) > 0 {
		k += "|feat=" + strings.Join(ft, ",")
	}
	for _, x := range ft {
		if x == "short-package" || x == "shared-go-namespace" {
			pkgnamed = false // the package name the failure depends on is what the feature says
		}
	}
	if named {
		k += "|named"
	}
	if pkgnamed {
		k += "|pkgnamed"
	}
	return k
}
