package main

// extract.go: the translator. Regenerates lean/ThriftVerif/Generated/C01.lean from the working tree of the repo:
// the keyword table of generator/golang/types.go (`isKeywords`), the keywords of the Go toolchain in use
// (go/token) and the `std` table of importManager.init (generator/golang/imports.go, constants of util.go).

import (
	"fmt"
	"go/ast"
	"go/parser"
	"go/token"
	"os/exec"
	"path/filepath"
	"sort"
	"strconv"
	"strings"

	"verifharness/internal/vl"
)

func newGoCmd(dir string, args ...string) *exec.Cmd {
	c := exec.Command("go", args...)
	c.Dir = dir
	c.Env = append(c.Environ(), goEnv...)
	return c
}

func parseGo(path string) (*ast.File, error) {
	return parser.ParseFile(token.NewFileSet(), path, nil, 0)
}

func extract(repo string) error {
	gdir := filepath.Join(repo, "generator", "golang")
	// ---- isKeywords
	tf, err := parseGo(filepath.Join(gdir, "types.go"))
	if err != nil {
		return err
	}
	var kws []string
	found := false
	ast.Inspect(tf, func(n ast.Node) bool {
		vs, ok := n.(*ast.ValueSpec)
		if !ok || len(vs.Names) != 1 || vs.Names[0].Name != "isKeywords" || len(vs.Values) != 1 {
			return true
		}
		cl, ok := vs.Values[0].(*ast.CompositeLit)
		if !ok {
			return true
		}
		found = true
		for _, e := range cl.Elts {
			kv, ok := e.(*ast.KeyValueExpr)
			if !ok {
				continue
			}
			if id, ok := kv.Value.(*ast.Ident); !ok || id.Name != "true" {
				continue
			}
			if bl, ok := kv.Key.(*ast.BasicLit); ok {
				s, _ := strconv.Unquote(bl.Value)
				kws = append(kws, s)
			}
		}
		return false
	})
	if !found {
		return fmt.Errorf("isKeywords not found in types.go")
	}
	sort.Strings(kws)
	// ---- keywords of the toolchain
	var gokw []string
	for t := token.Token(0); t < 200; t++ {
		if t.IsKeyword() {
			gokw = append(gokw, t.String())
		}
	}
	sort.Strings(gokw)
	// ---- string constants of util.go, then the std table of imports.go
	consts := map[string]string{}
	uf, err := parseGo(filepath.Join(gdir, "util.go"))
	if err != nil {
		return err
	}
	ast.Inspect(uf, func(n ast.Node) bool {
		vs, ok := n.(*ast.ValueSpec)
		if !ok {
			return true
		}
		for i, nm := range vs.Names {
			if i < len(vs.Values) {
				if bl, ok := vs.Values[i].(*ast.BasicLit); ok && bl.Kind == token.STRING {
					s, _ := strconv.Unquote(bl.Value)
					consts[nm.Name] = s
				}
			}
		}
		return true
	})
	imf, err := parseGo(filepath.Join(gdir, "imports.go"))
	if err != nil {
		return err
	}
	type kv struct{ k, v string }
	var std []kv
	var bad error
	ast.Inspect(imf, func(n ast.Node) bool {
		as, ok := n.(*ast.AssignStmt)
		if !ok || len(as.Lhs) != 1 || len(as.Rhs) != 1 {
			return true
		}
		if id, ok := as.Lhs[0].(*ast.Ident); !ok || id.Name != "std" {
			return true
		}
		cl, ok := as.Rhs[0].(*ast.CompositeLit)
		if !ok {
			return true
		}
		for _, e := range cl.Elts {
			p, ok := e.(*ast.KeyValueExpr)
			if !ok {
				continue
			}
			kb, ok := p.Key.(*ast.BasicLit)
			if !ok {
				bad = fmt.Errorf("std table: key is not a literal")
				continue
			}
			k, _ := strconv.Unquote(kb.Value)
			switch v := p.Value.(type) {
			case *ast.BasicLit:
				s, _ := strconv.Unquote(v.Value)
				std = append(std, kv{k, s})
			case *ast.Ident:
				s, ok := consts[v.Name]
				if !ok {
					bad = fmt.Errorf("std table: constant %s not found in util.go", v.Name)
				}
				std = append(std, kv{k, s})
			default:
				bad = fmt.Errorf("std table: unsupported value for %s", k)
			}
		}
		return false
	})
	if bad != nil {
		return bad
	}
	if len(std) == 0 {
		return fmt.Errorf("std table not found in imports.go")
	}
	sort.Slice(std, func(i, j int) bool { return std[i].k < std[j].k })
	// ---- which of the name-related repairs the tree carries (the model follows the tree under test)
	sf, err := parseGo(filepath.Join(gdir, "scope_internal.go"))
	if err != nil {
		return err
	}
	litsOf := func(f *ast.File, fn string) map[string]bool {
		out := map[string]bool{}
		for _, d := range f.Decls {
			fd, ok := d.(*ast.FuncDecl)
			if !ok || fd.Name.Name != fn {
				continue
			}
			ast.Inspect(fd, func(n ast.Node) bool {
				if bl, ok := n.(*ast.BasicLit); ok && bl.Kind == token.STRING {
					if v, err := strconv.Unquote(bl.Value); err == nil {
						out[v] = true
					}
				}
				return true
			})
		}
		return out
	}
	structLits := litsOf(sf, "buildStructLike")
	svcLits := litsOf(sf, "buildService")
	fnLits := litsOf(sf, "buildFunction")
	if !fnLits["p"] || !fnLits["err"] || !fnLits["ctx"] || !fnLits["_result"] {
		return fmt.Errorf("buildFunction: the reserved locals p/err/ctx/_result were not found")
	}
	if !structLits["Read"] || !structLits["Write"] || !structLits["String"] || !structLits["CountSetFields"] {
		return fmt.Errorf("buildStructLike: the reserved method names Read/Write/String/CountSetFields were not found")
	}
	bf, err := parseGo(filepath.Join(gdir, "backend.go"))
	if err != nil {
		return err
	}
	scanBody := false
	for _, d := range bf.Decls {
		if fd, ok := d.(*ast.FuncDecl); ok && fd.Name.Name == "mentionsPackage" {
			scanBody = true
		}
	}
	var sb strings.Builder
	sb.WriteString("/- GENERATED by harness/cmd/c01 extract from /repo. Do not edit. -/\nimport ThriftVerif.Core.VL\nnamespace Generated.C01\n\n")
	fmt.Fprintf(&sb, "/-- buildStructLike reserves the methods the templates declare (InitDefault, CountSetFields<T>, field-mask accessors, ExtraStructMethods) -/\ndef reservesDeclaredMethods : Bool := %s\n\n", vl.LeanBool(structLits["InitDefault"]))
	fmt.Fprintf(&sb, "/-- buildService reserves the accessor Client_ of the client template among the function names -/\ndef reservesClientAccessor : Bool := %s\n\n", vl.LeanBool(svcLits["Client_"]))
	fmt.Fprintf(&sb, "/-- buildFunction reserves nil among the locals of a method -/\ndef reservesNil : Bool := %s\n\n", vl.LeanBool(fnLits["nil"]))
	fmt.Fprintf(&sb, "/-- renderByTemplate drops the imports the rendered code does not mention (mentionsPackage) -/\ndef importsScanBody : Bool := %s\n\n", vl.LeanBool(scanBody))
	list := func(doc, name string, xs []string) {
		fmt.Fprintf(&sb, "/-- %s -/\ndef %s : List Bytes := [\n", doc, name)
		for i, x := range xs {
			sep := ","
			if i == len(xs)-1 {
				sep = ""
			}
			fmt.Fprintf(&sb, "  %s /- %s -/%s\n", vl.LeanBytes(x), x, sep)
		}
		sb.WriteString("]\n\n")
	}
	list("keys of `isKeywords` (generator/golang/types.go), sorted", "isKeywords", kws)
	list("the keywords of the Go toolchain in use (go/token), sorted", "goKeywords", gokw)
	sb.WriteString("/-- the `std` table of importManager.init (generator/golang/imports.go): (package name, import path), sorted by name -/\ndef stdLibs : List (Bytes × Bytes) := [\n")
	for i, e := range std {
		sep := ","
		if i == len(std)-1 {
			sep = ""
		}
		fmt.Fprintf(&sb, "  (%s, %s) /- %s %s -/%s\n", vl.LeanBytes(e.k), vl.LeanBytes(e.v), e.k, e.v, sep)
	}
	sb.WriteString("]\n\nend Generated.C01\n")
	fmt.Print(sb.String())
	return nil
}
