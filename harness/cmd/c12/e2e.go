// End-to-end stream of C12: the real Go backend as producer of Feed's input. Program sets whose IDL files
// render to the same output name are generated in process (parser → semantic → GoBackend / Generator →
// FileManager → Persist); the backend's item stream is also fed through the ordinary correspondence.
package main

import (
	"encoding/json"
	"fmt"
	"go/ast"
	"go/parser"
	"go/token"
	"os"
	"path/filepath"
	"sort"
	"strconv"
	"strings"

	"github.com/cloudwego/thriftgo/generator"
	"github.com/cloudwego/thriftgo/generator/backend"
	"github.com/cloudwego/thriftgo/generator/golang"
	idl "github.com/cloudwego/thriftgo/parser"
	"github.com/cloudwego/thriftgo/plugin"
	"github.com/cloudwego/thriftgo/semantic"

	"verifharness/internal/vl"
)

// Prog is a set of IDL files; main.thrift is the entry.
type Prog struct {
	IDL map[string]string `json:"idl"`
}

func (p Prog) key() string {
	var ks []string
	for k := range p.IDL {
		ks = append(ks, k)
	}
	sort.Strings(ks)
	var parts []string
	for _, k := range ks {
		parts = append(parts, k+"="+strconv.Quote(p.IDL[k]))
	}
	return "e2e: " + strings.Join(parts, " ; ")
}

func (p Prog) write(dir string) error {
	for rel, body := range p.IDL {
		f := filepath.Join(dir, rel)
		if err := os.MkdirAll(filepath.Dir(f), 0o755); err != nil {
			return err
		}
		if err := os.WriteFile(f, []byte(body), 0o644); err != nil {
			return err
		}
	}
	return nil
}

func loadAST(dir string) (*idl.Thrift, error) {
	t, err := idl.ParseFile(filepath.Join(dir, "main.thrift"), nil, true)
	if err != nil {
		return nil, err
	}
	if _, err = semantic.NewChecker(semantic.Options{FixWarnings: true}).CheckAll(t); err != nil {
		return nil, err
	}
	if err = semantic.ResolveSymbols(t); err != nil {
		return nil, err
	}
	return t, nil
}

var e2eOpts = []plugin.Option{{Name: "package_prefix", Desc: "example.com/m"}}

// backendStream runs the Go backend alone and returns the items it would feed.
func backendStream(dir string) ([]*plugin.Generated, error) {
	t, err := loadAST(dir)
	if err != nil {
		return nil, err
	}
	req := &plugin.Request{Language: "go", OutputPath: "gen-go", Recursive: true, AST: t, GeneratorParameters: plugin.Pack(e2eOpts)}
	res := new(golang.GoBackend).Generate(req, backend.DummyLogFunc())
	if res.GetError() != "" {
		return nil, fmt.Errorf("backend: %s", res.GetError())
	}
	return res.Contents, nil
}

// structNames: `struct X {` definitions of the IDL files under namespace demo
func (p Prog) demoStructs() []string {
	seen := map[string]bool{}
	var out []string
	for rel, body := range p.IDL {
		if !strings.Contains(body, "namespace go demo") {
			continue
		}
		_ = rel
		for _, line := range strings.Split(body, "\n") {
			f := strings.Fields(line)
			if len(f) >= 2 && f[0] == "struct" && !seen[f[1]] {
				seen[f[1]] = true
				out = append(out, f[1])
			}
		}
	}
	sort.Strings(out)
	return out
}

type e2eResult struct {
	stream  History
	shapeOK bool
	shape   *failure // the stream is not file-then-nameless-patches
	fail    *failure // first failure seen on the written files
	files   int
	renamed int
}

// checkProg is the end-to-end oracle: on the files the generator WROTE, every file parses, holds no
// marker, imports each package once, imports exactly the packages its own code mentions, and every
// struct of the colliding IDLs is defined in exactly one file.
func checkProg(p Prog) (res e2eResult, err error) {
	mk := func(class, what string, exp, obs interface{}) *failure {
		return &failure{class, vl.OracleFail{Key: p.key(), What: what, Input: p, Expected: exp, Observed: obs}}
	}
	dir, err := os.MkdirTemp("", "c12e2e")
	if err != nil {
		return res, err
	}
	defer os.RemoveAll(dir)
	if err = p.write(dir); err != nil {
		return res, err
	}
	// 1. the backend's stream
	items, err := backendStream(dir)
	if err != nil {
		return res, err
	}
	res.shapeOK = len(items) == 0 || items[0].IsSetName()
	var call Call
	call.Src = "thriftgo"
	for i, g := range items {
		it := Item{Content: g.Content}
		if g.Name != nil {
			it.Name = sp(*g.Name)
		}
		if g.InsertionPoint != nil {
			it.IP = sp(*g.InsertionPoint)
		}
		call.Items = append(call.Items, it)
		named, pointed := g.Name != nil, g.InsertionPoint != nil
		if named == pointed {
			res.shapeOK = false
		}
		if named && (i+1 >= len(items) || items[i+1].Name != nil) {
			res.shapeOK = false // a rendered file is followed by its imports patch
		}
	}
	res.stream = History{call}
	// 2. the whole generator, persisted
	t, err := loadAST(dir)
	if err != nil {
		return res, err
	}
	var g generator.Generator
	if err = g.RegisterBackend(new(golang.GoBackend)); err != nil {
		return res, err
	}
	out := filepath.Join(dir, "gen")
	r := g.Generate(&generator.Arguments{
		Out: &generator.LangSpec{Language: "go", Options: e2eOpts},
		Req: &plugin.Request{Language: "go", OutputPath: out, Recursive: true, AST: t},
		Log: backend.DummyLogFunc(),
	})
	if r.GetError() != "" {
		return res, fmt.Errorf("generate: %s", r.GetError())
	}
	if err = g.Persist(r); err != nil {
		return res, fmt.Errorf("persist: %v", err)
	}
	written := map[string]string{}
	filepath.Walk(out, func(path string, info os.FileInfo, err error) error {
		if err == nil && !info.IsDir() {
			b, _ := os.ReadFile(path)
			rel, _ := filepath.Rel(out, path)
			written[rel] = string(b)
		}
		return nil
	})
	res.files = len(written)
	if !res.shapeOK {
		res.shape = mk("e2e-stream-shape", "the Go backend's item stream is not `named file, then its nameless patches`: a named patch is routed by Feed to the file first registered under that name", "file (Name, no InsertionPoint) followed by patches (InsertionPoint, no Name)", streamShape(items))
	}
	if len(written) != len(r.Contents) {
		res.fail = mk("e2e-lost", "the response holds more files than were written (same path twice)", len(r.Contents), len(written))
		return res, nil
	}
	var rels []string
	for rel := range written {
		rels = append(rels, rel)
	}
	sort.Strings(rels)
	// package-level names per directory (identifiers other files of the package may qualify)
	pkgNames := map[string]map[string]bool{}
	parsed := map[string]*ast.File{}
	for _, rel := range rels {
		if !strings.HasSuffix(rel, ".go") {
			continue
		}
		if strings.Contains(written[rel], "@@thriftgo_insertion_point") {
			res.fail = mk("e2e-marker", "written file "+rel+" still holds an insertion-point marker", "no marker", rel)
			return res, nil
		}
		f, perr := parser.ParseFile(token.NewFileSet(), rel, written[rel], 0)
		if perr != nil {
			res.fail = mk("e2e-parse", "written file "+rel+" does not parse as Go", "parses", perr.Error())
			return res, nil
		}
		parsed[rel] = f
		d := filepath.Dir(rel)
		if pkgNames[d] == nil {
			pkgNames[d] = map[string]bool{}
		}
		for _, decl := range f.Decls {
			switch x := decl.(type) {
			case *ast.GenDecl:
				for _, sp := range x.Specs {
					switch y := sp.(type) {
					case *ast.TypeSpec:
						pkgNames[d][y.Name.Name] = true
					case *ast.ValueSpec:
						for _, n := range y.Names {
							pkgNames[d][n.Name] = true
						}
					}
				}
			case *ast.FuncDecl:
				if x.Recv == nil {
					pkgNames[d][x.Name.Name] = true
				}
			}
		}
		if base := filepath.Base(rel); strings.Contains(base, "_") && filepath.Dir(rel) == "demo" {
			res.renamed++
		}
	}
	for _, rel := range rels {
		f := parsed[rel]
		if f == nil {
			continue
		}
		imported := map[string]int{}
		for _, im := range f.Imports {
			pth, _ := strconv.Unquote(im.Path.Value)
			name := pth[strings.LastIndex(pth, "/")+1:]
			if im.Name != nil {
				name = im.Name.Name
			}
			if name == "_" || name == "." {
				continue
			}
			imported[name]++
		}
		needs := map[string]bool{}
		ast.Inspect(f, func(n ast.Node) bool {
			if se, ok := n.(*ast.SelectorExpr); ok {
				if id, ok := se.X.(*ast.Ident); ok && id.Obj == nil && !pkgNames[filepath.Dir(rel)][id.Name] {
					needs[id.Name] = true
				}
			}
			return true
		})
		var imp, need []string
		for n, c := range imported {
			if c != 1 {
				res.fail = mk("e2e-imports", fmt.Sprintf("written file %s imports %q %d times (a foreign imports patch was merged in)", rel, n, c), "each import once", c)
				return res, nil
			}
			imp = append(imp, n)
		}
		for n := range needs {
			need = append(need, n)
		}
		sort.Strings(imp)
		sort.Strings(need)
		if strings.Join(imp, ",") != strings.Join(need, ",") {
			res.fail = mk("e2e-imports", fmt.Sprintf("written file %s: its import block is not the set of packages its own code mentions (the file's imports patch went elsewhere, or a foreign one came in)", rel), need, imp)
			return res, nil
		}
	}
	for _, sn := range p.demoStructs() {
		n := 0
		for _, rel := range rels {
			if filepath.Dir(rel) == "demo" && strings.Contains(written[rel], "type "+sn+" struct") {
				n++
			}
		}
		if n != 1 {
			res.fail = mk("e2e-lost", fmt.Sprintf("struct %s of the colliding IDL files is defined in %d written files under demo/", sn, n), 1, n)
			return res, nil
		}
	}
	return res, nil
}

func streamShape(items []*plugin.Generated) []string {
	var out []string
	for _, g := range items {
		s := ""
		if g.Name != nil {
			s += "Name "
		}
		if g.InsertionPoint != nil {
			s += "InsertionPoint=" + *g.InsertionPoint
		}
		out = append(out, strings.TrimSpace(s))
	}
	return out
}

// genProg: 2–3 IDL files <dir>/x.thrift with the same go namespace (colliding output name demo/x.go),
// with and without foreign imports / services, sometimes textually identical, sometimes a control y.thrift.
func genProg(r *vl.Rng) Prog {
	p := Prog{IDL: map[string]string{}}
	p.IDL["other/other.thrift"] = "namespace go other\nstruct T { 1: i32 v }\n"
	dirs := []string{"a", "b", "c"}[:2+r.Intn(2)]
	var includes []string
	var prev string
	for i, d := range dirs {
		var sb strings.Builder
		sb.WriteString("namespace go demo\n")
		foreign := r.Chance(50)
		if foreign {
			sb.WriteString("include \"../other/other.thrift\"\n")
		}
		sn := fmt.Sprintf("S%d", i)
		if r.Chance(15) && prev != "" {
			p.IDL[d+"/x.thrift"] = prev // textually identical: rendered identically, dropped with its patch
			includes = append(includes, d+"/x.thrift")
			continue
		}
		fmt.Fprintf(&sb, "struct %s {\n  1: i32 v\n", sn)
		if foreign {
			sb.WriteString("  2: other.T t\n")
		}
		if r.Chance(40) {
			sb.WriteString("  3: list<string> l\n  4: map<string, i64> m\n")
		}
		sb.WriteString("}\n")
		if r.Chance(40) {
			fmt.Fprintf(&sb, "service Svc%d {\n  i32 f(1: i32 a)\n}\n", i)
		}
		if r.Chance(30) {
			fmt.Fprintf(&sb, "enum E%d { A = 1, B = 2 }\nconst i32 K%d = %d\n", i, i, i)
		}
		prev = sb.String()
		p.IDL[d+"/x.thrift"] = prev
		includes = append(includes, d+"/x.thrift")
	}
	if r.Chance(40) {
		p.IDL["d/y.thrift"] = "namespace go demo\nstruct Y { 1: i32 v }\n"
		includes = append(includes, "d/y.thrift")
	}
	var sb strings.Builder
	sb.WriteString("namespace go root\n")
	for _, inc := range includes {
		fmt.Fprintf(&sb, "include %q\n", inc)
	}
	sb.WriteString("struct M { 1: i32 v }\n")
	p.IDL["main.thrift"] = sb.String()
	return p
}

// shrinkProg drops included files while the same class of failure persists.
func shrinkProg(p Prog, f *failure) *failure {
	cur, curF := p, f
	for changed := true; changed; {
		changed = false
		var ks []string
		for k := range cur.IDL {
			if k != "main.thrift" && k != "other/other.thrift" {
				ks = append(ks, k)
			}
		}
		sort.Strings(ks)
		for _, k := range ks {
			cand := Prog{IDL: map[string]string{}}
			for n, b := range cur.IDL {
				if n != k {
					cand.IDL[n] = b
				}
			}
			cand.IDL["main.thrift"] = strings.Replace(cand.IDL["main.thrift"], fmt.Sprintf("include %q\n", k), "", 1)
			r, err := checkProg(cand)
			if err == nil {
				for _, cf := range []*failure{r.fail, r.shape} {
					if cf != nil && cf.class == curF.class {
						cur, curF, changed = cand, cf, true
						break
					}
				}
				if changed {
					break
				}
			}
		}
	}
	return curF
}

func (g *gen) e2eCase(p Prog, class string) {
	r, err := checkProg(p)
	if err != nil {
		g.out.Count("e2e:setup-error")
		if g.out.Stats["e2e:setup-error"] == 1 {
			g.out.Sample(map[string]interface{}{"e2e-setup-error": err.Error(), "prog": p.key()})
		}
		return
	}
	g.out.Count("e2e:" + class)
	g.out.Count(fmt.Sprintf("e2e:written-files:%d", r.files))
	g.out.Count(fmt.Sprintf("e2e:renamed-under-demo:%d", r.renamed))
	if g.out.Stats["e2e:"+class]%40 == 1 {
		g.out.Sample(map[string]interface{}{"e2e": p.key(), "written_files": r.files, "renamed": r.renamed})
	}
	// the backend's stream through the ordinary correspondence (FileManager vs model, Feed-level oracle)
	g.emit(r.stream, "backend-stream")
	for _, f := range []*failure{r.fail, r.shape} {
		if f == nil {
			continue
		}
		g.out.Count("oracle-fail:" + f.class)
		if g.shrunk < 60 {
			g.shrunk++
			g.out.Fail(shrinkProg(p, f).OracleFail)
		}
	}
	if r.fail == nil && r.shape == nil {
		g.out.Count("e2e:oracle-pass")
	}
}

func (g *gen) e2e(n int) {
	// fixed: the demo of the seeded change, then random sets
	g.e2eCase(Prog{IDL: map[string]string{
		"other/other.thrift": "namespace go other\nstruct T { 1: i32 v }\n",
		"a/x.thrift":         "namespace go demo\nstruct A { 1: i32 v }\n",
		"b/x.thrift":         "namespace go demo\ninclude \"../other/other.thrift\"\nstruct B { 1: other.T t }\n",
		"main.thrift":        "namespace go root\ninclude \"a/x.thrift\"\ninclude \"b/x.thrift\"\nstruct M { 1: i32 v }\n",
	}}, "fixed")
	for i := 0; i < n; i++ {
		g.e2eCase(genProg(g.r), "random")
	}
}

// replayInput dispatches a replay file's input: a Feed history (array) or an IDL set (object).
func replayInput(raw json.RawMessage, g *gen) error {
	s := strings.TrimSpace(string(raw))
	if s == "" || s == "null" {
		return nil
	}
	if s[0] == '{' {
		var p Prog
		if err := json.Unmarshal(raw, &p); err != nil {
			return err
		}
		g.e2eCase(p, "replay")
		return nil
	}
	var h History
	if err := json.Unmarshal(raw, &h); err != nil {
		return err
	}
	g.emit(h, "replay")
	return nil
}
