// c12: translator (extract), correspondence/oracle harness (run) and replay for property C12
// (output assembly loses nothing: insertion points and file-name conflicts; generator/file_manager.go).
package main

import (
	"encoding/json"
	"flag"
	"fmt"
	"go/ast"
	"go/parser"
	"go/token"
	"os"
	"path/filepath"
	"regexp"
	"regexp/syntax"
	"sort"
	"strconv"
	"strings"

	"github.com/cloudwego/thriftgo/generator"
	"github.com/cloudwego/thriftgo/generator/backend"
	"github.com/cloudwego/thriftgo/plugin"

	"verifharness/internal/vl"
)

// ---------------------------------------------------------------- data

// Item is one plugin.Generated of a Feed call. Name == nil: unset. IP == nil: unset (GetInsertionPoint() == "").
type Item struct {
	Name    *string `json:"name"`
	IP      *string `json:"ip"`
	Content string  `json:"content"`
}

type Call struct {
	Src   string `json:"src"`
	Items []Item `json:"items"`
}

type History []Call

type NC struct {
	Name    string `json:"name"`
	Content string `json:"content"`
}

func sp(s string) *string { return &s }

func (it Item) ip() string {
	if it.IP == nil {
		return ""
	}
	return *it.IP
}

func (h History) clone() History {
	out := make(History, len(h))
	for i, c := range h {
		out[i] = Call{Src: c.Src, Items: append([]Item(nil), c.Items...)}
	}
	return out
}

func (h History) nitems() int {
	n := 0
	for _, c := range h {
		n += len(c.Items)
	}
	return n
}

func opLine(h History) string {
	var sb strings.Builder
	fmt.Fprintf(&sb, "H %d", len(h))
	for _, c := range h {
		fmt.Fprintf(&sb, " %d", len(c.Items))
		for _, it := range c.Items {
			n := "~"
			if it.Name != nil {
				n = vl.Hex(*it.Name)
			}
			fmt.Fprintf(&sb, " %s %s %s", n, vl.Hex(it.ip()), vl.Hex(it.Content))
		}
	}
	return sb.String()
}

// key is the canonical, readable form of a history (replay key).
func key(h History) string {
	var cs []string
	for _, c := range h {
		var is []string
		for _, it := range c.Items {
			n := "~"
			if it.Name != nil {
				n = strconv.Quote(*it.Name)
			}
			p := "~"
			if it.IP != nil {
				p = strconv.Quote(*it.IP)
			}
			is = append(is, n+":"+p+":"+strconv.Quote(it.Content))
		}
		cs = append(cs, strings.Join(is, " | "))
	}
	return "feed: " + strings.Join(cs, " || ")
}

// ---------------------------------------------------------------- implementation under test

// runImpl feeds the history to a fresh FileManager of the repo under test and builds the response.
func runImpl(h History) (outs []string, resp []NC, buildPanic bool) {
	fm := generator.NewFileManager(backend.DummyLogFunc())
	for _, c := range h {
		gs := make([]*plugin.Generated, len(c.Items))
		for i, it := range c.Items {
			g := &plugin.Generated{Content: it.Content}
			if it.Name != nil {
				g.Name = sp(*it.Name)
			}
			if it.IP != nil {
				g.InsertionPoint = sp(*it.IP)
			}
			gs[i] = g
		}
		o := "ok"
		func() {
			defer func() {
				if r := recover(); r != nil {
					o = "panic"
				}
			}()
			if err := fm.Feed(c.Src, gs); err != nil {
				o = "err"
			}
		}()
		outs = append(outs, o)
	}
	func() {
		defer func() {
			if r := recover(); r != nil {
				buildPanic = true
			}
		}()
		r := fm.BuildResponse()
		for _, g := range r.Contents {
			resp = append(resp, NC{g.GetName(), g.Content})
		}
	}()
	return
}

func implLine(outs []string, resp []NC, buildPanic bool) string {
	if buildPanic {
		return "R build-panic"
	}
	o := "-"
	if len(outs) > 0 {
		o = strings.Join(outs, ",")
	}
	parts := []string{"R", o, strconv.Itoa(len(resp))}
	for _, f := range resp {
		parts = append(parts, vl.Hex(f.Name), vl.Hex(f.Content))
	}
	return strings.Join(parts, " ")
}

// ---------------------------------------------------------------- oracle (implementation only)

// What a marker is, per the property statement and the plugin documentation: the insertion point
// format applied to a name over [$.0-9a-zA-Z_]. Written down here independently of the model.
var (
	oracleMarker = regexp.MustCompile(regexp.QuoteMeta("@@thriftgo_insertion_point(") + `[$.0-9a-zA-Z_]*` + regexp.QuoteMeta(")"))
)

type patchT struct{ ip, content string }

type keptT struct {
	sub     string // name as submitted
	content string
	patches []patchT
	call    int
	item    int
}

// sibOrSelf: got is want itself or want renamed: <path minus ext>_<k><ext>, k >= 1 in canonical decimal.
func sibOrSelf(got, want string) bool {
	if got == want {
		return true
	}
	ext := filepath.Ext(want)
	pth := strings.TrimSuffix(want, ext)
	if !strings.HasPrefix(got, pth+"_") || !strings.HasSuffix(got, ext) || len(got) < len(pth)+1+len(ext) {
		return false
	}
	mid := got[len(pth)+1 : len(got)-len(ext)]
	k, err := strconv.Atoi(mid)
	return err == nil && k >= 1 && strconv.Itoa(k) == mid
}

// render: the submitted text with every occurrence of an insertion point replaced by the patches for
// that point, in submission order. An insertion point occurs where the text spells
// plugin.InsertionPoint(p): for names over the marker alphabet these are the regexp markers (removed even
// without a patch); for a patch point with any other bytes it is the literal marker text of that point.
// Occurrences are taken left to right, non-overlapping. No verdict (false) when one of these texts is a
// proper prefix of another one (the statement does not say which occurrence is meant).
func render(content string, ps []patchT) (string, bool) {
	seen := map[string]bool{}
	var keys []string
	add := func(k string) {
		if !seen[k] {
			seen[k] = true
			keys = append(keys, k)
		}
	}
	for _, m := range oracleMarker.FindAllString(content, -1) {
		add(m)
	}
	for _, p := range ps {
		add("@@thriftgo_insertion_point(" + p.ip + ")")
	}
	for _, k := range keys {
		for _, q := range keys {
			if k != q && strings.HasPrefix(q, k) {
				return "", false
			}
		}
	}
	var sb strings.Builder
	for pos := 0; pos < len(content); {
		hit := ""
		for _, k := range keys {
			if strings.HasPrefix(content[pos:], k) {
				hit = k
			}
		}
		if hit == "" {
			sb.WriteByte(content[pos])
			pos++
			continue
		}
		for _, p := range ps {
			if "@@thriftgo_insertion_point("+p.ip+")" == hit {
				sb.WriteString(p.content)
			}
		}
		pos += len(hit)
	}
	return sb.String(), true
}

type failure struct {
	class string
	vl.OracleFail
}

// oracle evaluates the property statement on what the implementation returned. It replays the
// statement's bookkeeping (which submitted file is kept or dropped, which file a patch targets),
// taking the names the implementation chose from the response, and never consults the model.
// skipped counts the content checks it could not make (marker texts of one file not prefix-free).
func oracle(h History, outs []string, resp []NC, buildPanic bool) (res *failure, skipped int) {
	mk := func(class, what string, exp, obs interface{}) *failure {
		return &failure{class, vl.OracleFail{What: what, Input: h, Expected: exp, Observed: obs}}
	}
	if buildPanic {
		return mk("panic", "BuildResponse panicked", "a response", "panic"), 0
	}
	for _, o := range outs {
		if o == "panic" {
			return mk("panic", "Feed panicked", "ok or error", "panic"), 0
		}
	}
	// names distinct
	seen := map[string]int{}
	for i, f := range resp {
		if j, ok := seen[f.Name]; ok {
			return mk("dup-name", fmt.Sprintf("the response holds two files named %q (positions %d and %d): the later conflicting file was not given a fresh, unique name", f.Name, j, i),
				"pairwise distinct file names", respNames(resp)), 0
		}
		seen[f.Name] = i
	}
	var kept []*keptT
	respName := func(i int) (string, bool) {
		if i < len(resp) {
			return resp[i].Name, true
		}
		return "", false
	}
	lost := func(k *keptT) *failure {
		return mk("lost", fmt.Sprintf("submitted file %q (call %d item %d) with new content is missing from the response", k.sub, k.call, k.item),
			fmt.Sprintf("%d files", len(kept)), respNames(resp))
	}
	for ci, c := range h {
		var target *keptT
		dropping := false
		wantErr := false
	items:
		for ii, it := range c.Items {
			if it.Name == nil {
				if dropping {
					continue
				}
				if target == nil {
					wantErr = true
					break items
				}
				if target.sub == "" || func() bool { n, _ := respName(indexOf(kept, target)); return n == "" }() {
					return nil, 0 // a file named "" as patch target: the statement does not say; no verdict
				}
				target.patches = append(target.patches, patchT{it.ip(), it.Content})
				continue
			}
			dropping = false
			n := *it.Name
			var existing *keptT
			for i, k := range kept {
				rn, ok := respName(i)
				if !ok {
					return lost(k), 0
				}
				if rn == n {
					existing = k
				}
			}
			switch {
			case existing == nil:
				k := &keptT{sub: n, content: it.Content, call: ci, item: ii}
				kept = append(kept, k)
				target = k
			case it.ip() != "":
				existing.patches = append(existing.patches, patchT{it.ip(), it.Content})
				target = existing
			default:
				dup, loose := false, false
				for i, k := range kept {
					rn, _ := respName(i)
					if (rn == n || k.sub == n) && k.content == it.Content {
						dup = true
					}
					if sibOrSelf(rn, n) && k.content == it.Content {
						loose = true
					}
				}
				if loose && !dup {
					// the same content is stored under a name of the shape n_<k> that was not derived from n
					// (it was submitted under that very name). Whether that makes the item a duplicate is not
					// said by the statement (the code says yes when n_1 … n_k are all taken): no verdict.
					return nil, -1
				}
				if dup {
					dropping = true
					continue
				}
				k := &keptT{sub: n, content: it.Content, call: ci, item: ii}
				kept = append(kept, k)
				target = k
			}
		}
		if wantErr && outs[ci] != "err" {
			return mk("no-error", fmt.Sprintf("call %d starts a patch with no target file but Feed returned no error", ci), "err", outs[ci]), 0
		}
		if !wantErr && outs[ci] != "ok" {
			return mk("spurious-error", fmt.Sprintf("call %d: every patch has a target but Feed returned an error", ci), "ok", outs[ci]), 0
		}
	}
	if len(resp) < len(kept) {
		return lost(kept[len(resp)]), 0
	}
	if len(resp) > len(kept) {
		return mk("extra", "the response holds a file that is a dropped duplicate or was never submitted", fmt.Sprintf("%d files", len(kept)), respNames(resp)), 0
	}
	for i, k := range kept {
		if !sibOrSelf(resp[i].Name, k.sub) {
			return mk("name", fmt.Sprintf("file submitted as %q (call %d item %d) appears as %q", k.sub, k.call, k.item, resp[i].Name), k.sub+" or "+k.sub+" renamed _<k>", resp[i].Name), 0
		}
		if i == firstWithSub(kept, k.sub) && !anyRespNameBefore(resp, i, k.sub) && resp[i].Name != k.sub {
			return mk("name", fmt.Sprintf("first file submitted as %q was renamed to %q although the name was free", k.sub, resp[i].Name), k.sub, resp[i].Name), 0
		}
		want, ok := render(k.content, k.patches)
		if !ok {
			skipped++
			continue
		}
		if resp[i].Content != want {
			return mk("content", fmt.Sprintf("content of %q differs from the submitted text with each marker replaced by its patches in submission order", resp[i].Name), want, resp[i].Content), skipped
		}
	}
	return nil, skipped
}

func indexOf(kept []*keptT, k *keptT) int {
	for i, x := range kept {
		if x == k {
			return i
		}
	}
	return -1
}

func firstWithSub(kept []*keptT, sub string) int {
	for i, k := range kept {
		if k.sub == sub {
			return i
		}
	}
	return -1
}

func anyRespNameBefore(resp []NC, i int, name string) bool {
	for j := 0; j < i; j++ {
		if resp[j].Name == name {
			return true
		}
	}
	return false
}

func respNames(resp []NC) []string {
	out := make([]string, len(resp))
	for i, f := range resp {
		out[i] = f.Name
	}
	return out
}

// check runs the implementation and the oracle.
func check(h History) (*failure, int) {
	outs, resp, bp := runImpl(h)
	return oracle(h, outs, resp, bp)
}

// ---------------------------------------------------------------- shrinking

var (
	nameCands = []string{"a.go", "a_1.go", "b.go", "a_2.go"}
	contCands = []string{"X", "Y", "Z", "W", "V", "@@thriftgo_insertion_point(p)", "@@thriftgo_insertion_point(q)"}
	ipCands   = []string{"p", "q"}
)

var contentTok = regexp.MustCompile(`(?s)@@thriftgo_insertion_point\([^)]*\)|.`)

func rank(s *string, cands []string) int {
	if s == nil {
		return 0
	}
	for i, c := range cands {
		if c == *s {
			return 1 + i
		}
	}
	return 1000 + len(*s)
}

// rankVec orders histories for shrinking: fewer items, fewer calls, then item by item the strings of
// the canonical candidate lists before any other string (shorter first). Lexicographic, well-founded.
func rankVec(h History) []int {
	v := []int{h.nitems(), len(h)}
	for _, c := range h {
		v = append(v, len(c.Items))
		for _, it := range c.Items {
			it := it
			v = append(v, rank(it.Name, nameCands), rank(it.IP, ipCands), rank(&it.Content, contCands))
		}
	}
	return v
}

func less(a, b History) bool {
	va, vb := rankVec(a), rankVec(b)
	for i := 0; i < len(va) && i < len(vb); i++ {
		if va[i] != vb[i] {
			return va[i] < vb[i]
		}
	}
	if len(va) != len(vb) {
		return len(va) < len(vb)
	}
	return key(a) < key(b)
}

func distinctStrings(h History, f func(Item) *string) []string {
	var out []string
	seen := map[string]bool{}
	for _, c := range h {
		for _, it := range c.Items {
			if p := f(it); p != nil && !seen[*p] {
				seen[*p] = true
				out = append(out, *p)
			}
		}
	}
	return out
}

func mapItems(h History, f func(Item) Item) History {
	out := h.clone()
	for i := range out {
		for j := range out[i].Items {
			out[i].Items[j] = f(out[i].Items[j])
		}
	}
	return out
}

func permutations(n int) [][]int {
	if n == 0 {
		return [][]int{{}}
	}
	var out [][]int
	for _, p := range permutations(n - 1) {
		for i := 0; i <= len(p); i++ {
			q := append(append(append([]int(nil), p[:i]...), n-1), p[i:]...)
			out = append(out, q)
		}
	}
	return out
}

// shrink minimises a failing history, keeping the class of the failure, and brings it to a
// canonical form (source names, contents X/Y/Z…, simple file names, smallest item order).
func shrink(h History, f *failure) (History, *failure) {
	cur, curF := h.clone(), f
	tries := 0
	try := func(cand History) bool {
		if !less(cand, cur) {
			return false
		}
		if tries++; tries > 6000 { // bounded effort: long generated files are not shrunk byte by byte
			return false
		}
		g, _ := check(cand)
		if g != nil && g.class == curF.class {
			cur, curF = cand, g
			return true
		}
		return false
	}
	for changed := true; changed; {
		changed = false
		// drop a call, merge two calls
		for i := 0; i < len(cur) && !changed; i++ {
			cand := append(cur.clone()[:i], cur.clone()[i+1:]...)
			changed = try(cand)
		}
		for i := 0; i+1 < len(cur) && !changed; i++ {
			cand := cur.clone()
			cand[i].Items = append(cand[i].Items, cand[i+1].Items...)
			cand = append(cand[:i+1], cand[i+2:]...)
			changed = try(cand)
		}
		// drop an item
		for i := 0; i < len(cur) && !changed; i++ {
			for j := 0; j < len(cur[i].Items) && !changed; j++ {
				cand := cur.clone()
				cand[i].Items = append(cand[i].Items[:j], cand[i].Items[j+1:]...)
				changed = try(cand)
			}
		}
		if changed {
			continue
		}
		// unset an insertion point on a named item
		for i := 0; i < len(cur) && !changed; i++ {
			for j := 0; j < len(cur[i].Items) && !changed; j++ {
				if cur[i].Items[j].IP != nil && cur[i].Items[j].Name != nil {
					cand := cur.clone()
					cand[i].Items[j].IP = nil
					changed = try(cand)
				}
			}
		}
		// simpler names (all occurrences of one name at once)
		for _, n := range distinctStrings(cur, func(it Item) *string { return it.Name }) {
			for _, c := range nameCands {
				if changed {
					break
				}
				n, c := n, c
				changed = try(mapItems(cur, func(it Item) Item {
					if it.Name != nil && *it.Name == n {
						it.Name = sp(c)
					}
					return it
				}))
			}
		}
		// all names at once (keeps sibling relations between names intact)
		if ns := distinctStrings(cur, func(it Item) *string { return it.Name }); !changed && len(ns) <= 3 {
			var rec func(i int, m map[string]string, used map[string]bool)
			rec = func(i int, m map[string]string, used map[string]bool) {
				if changed {
					return
				}
				if i == len(ns) {
					changed = try(mapItems(cur, func(it Item) Item {
						if it.Name != nil {
							it.Name = sp(m[*it.Name])
						}
						return it
					}))
					return
				}
				for _, c := range nameCands {
					if !used[c] {
						used[c], m[ns[i]] = true, c
						rec(i+1, m, used)
						used[c] = false
					}
				}
			}
			rec(0, map[string]string{}, map[string]bool{})
		}
		// the same for all items sharing a content (keeps duplicates duplicates)
		for _, d := range distinctStrings(cur, func(it Item) *string { return &it.Content }) {
			var cands []string
			toks := contentTok.FindAllString(d, -1)
			if len(toks) > 300 { // a generated file: cut it down to its markers first, then by halves
				var ms []string
				for _, t := range toks {
					if len(t) > 1 {
						ms = append(ms, t)
					}
				}
				cands = append(cands, strings.Join(ms, ""), strings.Join(toks[:len(toks)/2], ""), strings.Join(toks[len(toks)/2:], ""))
				toks = nil
			}
			for k := 0; k < len(toks) && len(toks) > 1; k++ {
				cands = append(cands, strings.Join(toks[:k], "")+strings.Join(toks[k+1:], ""))
			}
			cands = append(cands, contCands...)
			for _, c := range cands {
				if changed {
					break
				}
				d, c := d, c
				changed = try(mapItems(cur, func(it Item) Item {
					if it.Content == d {
						it.Content = c
					}
					return it
				}))
			}
		}
		// shorter contents: delete one token (a marker-like piece or a byte) at a time
		for i := 0; i < len(cur) && !changed; i++ {
			for j := 0; j < len(cur[i].Items) && !changed; j++ {
				toks := contentTok.FindAllString(cur[i].Items[j].Content, -1)
				if len(toks) > 300 {
					continue
				}
				for k := 0; k < len(toks) && len(toks) > 1 && !changed; k++ {
					cand := cur.clone()
					cand[i].Items[j].Content = strings.Join(toks[:k], "") + strings.Join(toks[k+1:], "")
					changed = try(cand)
				}
			}
		}
		// simpler contents, item by item
		for i := 0; i < len(cur) && !changed; i++ {
			for j := 0; j < len(cur[i].Items) && !changed; j++ {
				for _, c := range contCands {
					if changed {
						break
					}
					cand := cur.clone()
					cand[i].Items[j].Content = c
					changed = try(cand)
				}
			}
		}
		// simpler points
		for _, n := range distinctStrings(cur, func(it Item) *string { return it.IP }) {
			for _, c := range ipCands {
				if changed {
					break
				}
				n, c := n, c
				changed = try(mapItems(cur, func(it Item) Item {
					if it.IP != nil && *it.IP == n {
						it.IP = sp(c)
						it.Content = strings.ReplaceAll(it.Content, "("+n+")", "("+c+")")
					} else {
						it.Content = strings.ReplaceAll(it.Content, "("+n+")", "("+c+")")
					}
					return it
				}))
			}
		}
		// source names
		for i := range cur {
			if cur[i].Src != "s" && !changed {
				cand := cur.clone()
				cand[i].Src = "s"
				g, _ := check(cand)
				if g != nil && g.class == curF.class {
					cur, curF, changed = cand, g, true
				}
			}
		}
		// drop an item and rename one name in the same move (a_2.go-shaped witnesses reduce to a_1.go ones)
		if !changed {
			for _, n := range distinctStrings(cur, func(it Item) *string { return it.Name }) {
				for _, c := range nameCands {
					for i := 0; i < len(cur) && !changed; i++ {
						for j := 0; j < len(cur[i].Items) && !changed; j++ {
							n, c := n, c
							cand := mapItems(cur, func(it Item) Item {
								if it.Name != nil && *it.Name == n {
									it.Name = sp(c)
								}
								return it
							})
							cand[i].Items = append(cand[i].Items[:j], cand[i].Items[j+1:]...)
							changed = try(cand)
						}
					}
				}
			}
		}
		// item order within a single small call
		if !changed && len(cur) == 1 && len(cur[0].Items) <= 6 {
			for _, p := range permutations(len(cur[0].Items)) {
				cand := cur.clone()
				for i, j := range p {
					cand[0].Items[i] = cur[0].Items[j]
				}
				if try(cand) {
					changed = true
					break
				}
			}
		}
	}
	curF.Key = key(cur)
	curF.Input = cur
	return cur, curF
}

// ---------------------------------------------------------------- generation

const marker = "@@thriftgo_insertion_point("

var basePool = []string{"a.go", "b.go", "k-a.go", "dir/a.go", "d.x/f", "a", "a.b.go", ".hid", "x.", "", "gen/t/t.go", "p.q/r_1", "a_1.go", "é.go"}
var pointPool = []string{"a", "b", "imports", "x.y", "$", "", "A_0", "a-b", "a)b", "é", "a b", "a@@thriftgo_insertion_point(b",
	"my-plugin.hook", "handlers/v2", "(x", "x(y", "@", "@@", "a@b", "x)", "世界", "a\tb", ")"}
var textPool = []string{"X", "Y", "Z", "package p\n", "\n", "", "//", "é", "\xff", ")", "(", "@", "@@", "_1"}
var nearPool = []string{ // marker-like text that is not a marker (or is one in a surprising way)
	"@@thriftgo_insertion_point(a-b)", "@@thriftgo_insertion_point(a", "@thriftgo_insertion_point(a)", "@@thriftgo_insertion_point a)",
	"@@thriftgo_insertion_@@thriftgo_insertion_point(a)point(b)", "@@@thriftgo_insertion_point(a)", "@@thriftgo_insertion_point(a)b)",
	"@@thriftgo_insertion_point(é)", "@@thriftgo_insertion_point(a b)", "@@Thriftgo_insertion_point(a)", "@@thriftgo_insertion_point((a))",
	"@@thriftgo_insertion_point(a@@thriftgo_insertion_point(b)",
}

func sibName(name string, k int) string {
	ext := filepath.Ext(name)
	return fmt.Sprintf("%s_%d%s", strings.TrimSuffix(name, ext), k, ext)
}

type gen struct {
	r      *vl.Rng
	out    *vl.Out
	shrunk int
}

func (g *gen) history(maxItems int) History {
	r := g.r
	// per-history pools, small so that collisions are frequent
	var names []string
	nb := 1 + r.Intn(3)
	for i := 0; i < nb; i++ {
		b := r.Pick(basePool)
		names = append(names, b)
		if r.Chance(45) {
			switch r.Intn(8) {
			case 0, 1, 2:
				names = append(names, sibName(b, 1))
			case 3:
				names = append(names, sibName(b, 2))
			case 4:
				names = append(names, sibName(sibName(b, 1), 1))
			case 5:
				names = append(names, sibName(b, 1+r.Intn(12)))
			case 6:
				ext := filepath.Ext(b)
				names = append(names, strings.TrimSuffix(b, ext)+r.Pick([]string{"_01", "_0", "_", "_1_", "_+1", "_1x"})+ext)
			case 7:
				names = append(names, sibName(b, 1), sibName(b, 2))
			}
		}
	}
	var points []string
	np := 1 + r.Intn(4)
	for i := 0; i < np; i++ {
		if r.Chance(65) {
			points = append(points, pointPool[r.Intn(7)]) // inside the marker alphabet
		} else {
			points = append(points, r.Pick(pointPool))
		}
	}
	var contents []string
	nc := 2 + r.Intn(4)
	for i := 0; i < nc; i++ {
		var sb strings.Builder
		for j, n := 0, r.Intn(6); j < n; j++ {
			switch x := r.Intn(10); {
			case x < 4:
				sb.WriteString(r.Pick(textPool))
			case x < 8:
				sb.WriteString(marker + r.Pick(points) + ")")
			case x < 9:
				sb.WriteString(r.Pick(nearPool))
			default:
				sb.WriteString(marker + r.Pick(pointPool) + ")")
			}
		}
		contents = append(contents, sb.String())
	}
	patchTexts := []string{"P1", "P2", "P3", "", "import x\n", marker + "a)", r.Pick(contents),
		"<" + marker + r.Pick(points) + ")>", marker + r.Pick(points) + ")" + marker + r.Pick(points) + ")", "Q" + marker + r.Pick(pointPool) + ")"}
	total := 1 + r.Intn(maxItems)
	ncalls := 1 + r.Intn(4)
	if ncalls > total {
		ncalls = total
	}
	h := make(History, ncalls)
	srcs := []string{"thriftgo", "sdk", "plugin-a", "plugin-b"}
	for i := range h {
		h[i].Src = srcs[i%len(srcs)]
	}
	for k := 0; k < total; k++ {
		ci := k * ncalls / total
		first := len(h[ci].Items) == 0
		var it Item
		x := r.Intn(100)
		if first && x >= 55 && !r.Chance(6) {
			x = r.Intn(55)
		}
		switch {
		case x < 55: // a file
			it = Item{Name: sp(r.Pick(names)), Content: r.Pick(contents)}
			if r.Chance(8) {
				it.IP = sp("")
			}
		case x < 70: // named patch (or a file when the name is new)
			it = Item{Name: sp(r.Pick(names)), IP: sp(r.Pick(points)), Content: r.Pick(patchTexts)}
		default: // unnamed patch
			it = Item{IP: sp(r.Pick(points)), Content: r.Pick(patchTexts)}
			if r.Chance(4) {
				it.IP = nil
			}
		}
		h[ci].Items = append(h[ci].Items, it)
	}
	return h
}

// ambiguous: some replacer key (a patch's insertion point, or a marker occurring in a submitted
// content) is a proper prefix of another one. Only possible when a patch point contains ')'. Then the
// argument order of strings.NewReplacer, which BuildResponse takes from a Go map range, decides which
// key wins: the output is not a function of the input, and no deterministic model can be compared.
func ambiguous(h History) bool {
	seen := map[string]bool{}
	var ks []string
	add := func(k string) {
		if !seen[k] {
			seen[k] = true
			ks = append(ks, k)
		}
	}
	for _, c := range h {
		for _, it := range c.Items {
			add(marker + it.ip() + ")")
			for _, m := range oracleMarker.FindAllString(it.Content, -1) {
				add(m)
			}
		}
	}
	for _, p := range ks {
		for _, q := range ks {
			if p != q && strings.HasPrefix(q, p) {
				return true
			}
		}
	}
	return false
}

// noRenameShaped: no submitted name equals <base>_<k><ext> of a submitted name (input statistics; these are
// the histories on which the defect repaired by 54c21d0 could show).
func noRenameShaped(h History) bool {
	names := distinctStrings(h, func(it Item) *string { return it.Name })
	n := h.nitems()
	for _, a := range names {
		for _, b := range names {
			for k := 1; k <= n; k++ {
				if a == sibName(b, k) {
					return false
				}
			}
		}
	}
	return true
}

func (g *gen) emit(h History, class string) {
	outs, resp, bp := runImpl(h)
	nontrivial := false
	seen := map[string]bool{}
	for _, c := range h {
		for _, it := range c.Items {
			if it.Name == nil {
				nontrivial = true
				g.out.Count("item:unnamed-patch")
			} else {
				if seen[*it.Name] {
					nontrivial = true
				}
				seen[*it.Name] = true
				if it.ip() != "" {
					g.out.Count("item:named-with-point")
				} else {
					g.out.Count("item:named-file")
				}
			}
		}
	}
	g.out.Case(opLine(h), implLine(outs, resp, bp), nontrivial)
	g.out.Count("class:" + class)
	g.out.Count(fmt.Sprintf("items:%02d", (h.nitems()+3)/4*4))
	g.out.Count(fmt.Sprintf("calls:%d", len(h)))
	for _, o := range outs {
		g.out.Count("feed-outcome:" + o)
	}
	nrs := noRenameShaped(h)
	g.out.Count(fmt.Sprintf("names-of-renamed-shape-submitted:%v", !nrs))
	renamed, nmark := 0, 0
	subs := map[string]bool{}
	for _, c := range h {
		for _, it := range c.Items {
			if it.Name != nil {
				subs[*it.Name] = true
				nmark += len(oracleMarker.FindAllString(it.Content, -1))
			}
		}
	}
	for _, f := range resp {
		if !subs[f.Name] {
			renamed++
		}
	}
	g.out.Count(fmt.Sprintf("renamed-files:%d", min(renamed, 4)))
	g.out.Count(fmt.Sprintf("markers-in-files:%02d", min((nmark+4)/5*5, 30)))
	if g.out.Evals%2503 == 40 {
		g.out.Sample(map[string]interface{}{"history": key(h), "outcomes": outs, "response": resp})
	}
	f, skipped := oracle(h, outs, resp, bp)
	if skipped < 0 {
		g.out.Count("oracle:no-verdict(same content under a submitted name of renamed shape)")
	}
	if skipped > 0 {
		g.out.Count("oracle:content-check-skipped(marker texts not prefix-free)")
	}
	if f != nil {
		g.out.Count("oracle-fail:" + f.class)
		if len(g.out.Oracle) < 24 && g.shrunk < 60 {
			g.shrunk++
			_, sf := shrink(h, f)
			g.out.Fail(sf.OracleFail)
		}
	} else if skipped >= 0 {
		g.out.Count("oracle:pass")
	}
}

func min(a, b int) int {
	if a < b {
		return a
	}
	return b
}

func (g *gen) fixed() []History {
	f := func(n, c string) Item { return Item{Name: sp(n), Content: c} }
	np := func(n, p, c string) Item { return Item{Name: sp(n), IP: sp(p), Content: c} }
	up := func(p, c string) Item { return Item{IP: sp(p), Content: c} }
	m := func(p string) string { return marker + p + ")" }
	one := func(items ...Item) History { return History{{Src: "t", Items: items}} }
	return []History{
		{},
		one(),
		one(f("first", "first file"), f("second", "b\n"+m("2nd")+"\ne"), f("third", "t\n"+m("3rd")), up("3rd", "patch to third"), np("second", "2nd", "patch to second")),
		one(f("second", "s"), f("second", "another"), f("second", "another"), f("third", "t")),
		one(f("a_1.go", "X"), f("a.go", "Y"), f("a.go", "Z")), // DESIGN §7 (repaired by 54c21d0)
		one(f("a.go", "X"), f("a_1.go", "Y"), f("a.go", "Z")),
		one(f("a.go", "X"), f("a_1.go", "X"), f("a.go", "Y")), // Props.C12.oldWitness
		one(f("a.go", "X"), f("a.go", "Y"), f("a_1.go", "Z"), f("a.go", "Z"), f("a_1.go", "Z")),
		one(up("p", "P")),
		one(f("", "X"), up("p", "P")),
		one(f("a.go", "X"), f("a.go", "X"), up("p", "P")),
		{{Src: "s1", Items: []Item{f("a.go", m("p")+"-"+m("p")+m("q"))}}, {Src: "s2", Items: []Item{f("a.go", m("p")+"-"+m("p")+m("q")), up("p", "dropped"), np("a.go", "p", "P1"), up("p", "P2"), up("zz", "nowhere"), up("q", "Q")}}},
		{{Src: "s1", Items: []Item{f("a.go", "1"+m("p"))}}, {Src: "s2", Items: []Item{f("a.go", "2"+m("p")), up("p", "to-renamed"), np("a.go", "p", "to-original")}}},
		one(f("a.go", "@@thriftgo_insertion_@@thriftgo_insertion_point(a)point(b)"), up("b", "B")),
		one(f("a.go", "x@@thriftgo_insertion_point(a-b)y"), up("a-b", "P")),
		one(f("a.go", m("a")), up("a", m("a"))),
		one(f("a.go", "1"+m("my-plugin.hook")+"2"+m("handlers/v2")+"3"+m("my-plugin.hook")), up("my-plugin.hook", "H"), np("a.go", "handlers/v2", "V"), up("nowhere-", "N")),
		one(f("a.go", m("(x")+m("@")+m("世界")+m("a b")), up("(x", "1"), up("@", "2"), up("世界", "3"), up("a b", "4")),
		one(f(".hid", "1"), f(".hid", "2"), f("d.x/f", "1"), f("d.x/f", "2"), f("x.", "1"), f("x.", "2"), f("", "1"), f("", "2")),
	}
}

// corpus reads the inputs of the replay files of past failures (replays/C12-*.json); they run first.
func corpus(dir string) []json.RawMessage {
	var out []json.RawMessage
	files, _ := filepath.Glob(filepath.Join(dir, "C12-*.json"))
	sort.Strings(files)
	for _, fn := range files {
		b, err := os.ReadFile(fn)
		if err != nil {
			continue
		}
		var doc struct {
			Input json.RawMessage `json:"input"`
		}
		if json.Unmarshal(b, &doc) == nil && doc.Input != nil {
			out = append(out, doc.Input)
		}
	}
	return out
}

func run(dir string, seed uint64, tier string, part, parts int, corpusDir string) error {
	g := &gen{r: vl.NewRng(seed*1000 + uint64(part)), out: vl.NewOut(dir)}
	if part == 0 {
		if corpusDir != "" {
			for _, raw := range corpus(corpusDir) {
				g.out.Count("corpus(past failures)")
				_ = replayInput(raw, g)
			}
		}
		// regression item (Props.C12.oldWitness): the history that answered two files named a_1.go before 54c21d0
		_, wresp, _ := runImpl(History{{Src: "w", Items: []Item{{Name: sp("a.go"), Content: "X"}, {Name: sp("a_1.go"), Content: "X"}, {Name: sp("a.go"), Content: "Y"}}}})
		g.out.Count("witness-names:" + strings.Join(respNames(wresp), ","))
		for _, h := range g.fixed() {
			g.emit(h, "fixed")
		}
		// renaming chains: the same name k times with distinct contents, interleaved with its siblings
		for k := 2; k <= 14; k++ {
			var items []Item
			for i := 0; i < k; i++ {
				items = append(items, Item{Name: sp("a.b"), Content: fmt.Sprint(i)})
			}
			for i := 0; i < k; i++ {
				items = append(items, Item{Name: sp("a.b"), Content: fmt.Sprint(i)}, Item{IP: sp("p"), Content: "skipped"})
			}
			g.emit(History{{Src: "chain", Items: items}}, "chain")
		}
	}
	if part == 0 {
		ne := 60
		if tier == "thorough" {
			ne = 600
		}
		g.e2e(ne)
	}
	n, maxItems := 20000, 12
	if tier == "thorough" {
		n = 500000
	}
	n = n / parts
	for i := 0; i < n; i++ {
		mi := maxItems
		if tier == "thorough" && g.r.Chance(25) {
			mi = 40
		}
		h := g.history(mi)
		for tries := 0; ambiguous(h) && tries < 20; tries++ {
			g.out.Count("generator:regenerated(ambiguous replacer keys)")
			h = g.history(mi)
		}
		if ambiguous(h) {
			continue
		}
		g.emit(h, "random")
	}
	g.out.Close()
	return nil
}

// replay runs one recorded history (the "input" of a replay file) as a correspondence case and
// through the oracle; results go to -dir like those of run.
func replay(file, dir string) error {
	b, err := os.ReadFile(file)
	if err != nil {
		return err
	}
	var doc struct {
		Input json.RawMessage `json:"input"`
	}
	if err := json.Unmarshal(b, &doc); err != nil {
		return err
	}
	g := &gen{r: vl.NewRng(1), out: vl.NewOut(dir)}
	if err := replayInput(doc.Input, g); err != nil {
		return err
	}
	g.out.Close()
	return nil
}

// ---------------------------------------------------------------- extract

func leanNats(s string) string {
	parts := make([]string, len(s))
	for i := 0; i < len(s); i++ {
		parts[i] = strconv.Itoa(int(s[i]))
	}
	return "[" + strings.Join(parts, ", ") + "]"
}

// extract reads the insertion-point regexp out of generator/file_manager.go of the tree under test,
// checks that it has the shape the model is written for (literal, one starred ASCII class, one
// literal byte) and prints Generated/C12.lean.
func extract(repo string) error {
	path := filepath.Join(repo, "generator", "file_manager.go")
	fset := token.NewFileSet()
	file, err := parser.ParseFile(fset, path, nil, 0)
	if err != nil {
		return err
	}
	var classLit string
	found := false
	ast.Inspect(file, func(n ast.Node) bool {
		vs, ok := n.(*ast.ValueSpec)
		if !ok || len(vs.Names) != 1 || vs.Names[0].Name != "insertReg" || len(vs.Values) != 1 {
			return true
		}
		mc, ok := vs.Values[0].(*ast.CallExpr) // regexp.MustCompile(…)
		if !ok || len(mc.Args) != 1 || exprString(mc.Fun) != "regexp.MustCompile" {
			return true
		}
		sc, ok := mc.Args[0].(*ast.CallExpr) // fmt.Sprintf(plugin.InsertionPointFormat, `…`)
		if !ok || len(sc.Args) != 2 || exprString(sc.Fun) != "fmt.Sprintf" || exprString(sc.Args[0]) != "plugin.InsertionPointFormat" {
			return true
		}
		lit, ok := sc.Args[1].(*ast.BasicLit)
		if !ok || lit.Kind != token.STRING {
			return true
		}
		s, err := strconv.Unquote(lit.Value)
		if err != nil {
			return true
		}
		classLit, found = s, true
		return false
	})
	if !found {
		return fmt.Errorf("%s: `var insertReg = regexp.MustCompile(fmt.Sprintf(plugin.InsertionPointFormat, <string literal>))` not found", path)
	}
	format := plugin.InsertionPointFormat
	if strings.Count(format, "%") != 1 || strings.Count(format, "%s") != 1 {
		return fmt.Errorf("plugin.InsertionPointFormat %q is not <text>%%s<text>", format)
	}
	i := strings.Index(format, "%s")
	ptPre, ptSuf := format[:i], format[i+2:]
	if got := plugin.InsertionPoint("Xy", "z"); got != ptPre+"Xy.z"+ptSuf {
		return fmt.Errorf("plugin.InsertionPoint(\"Xy\",\"z\") = %q, expected %q", got, ptPre+"Xy.z"+ptSuf)
	}
	src := fmt.Sprintf(format, classLit)
	re, err := syntax.Parse(src, syntax.Perl)
	if err != nil {
		return fmt.Errorf("regexp %q: %v", src, err)
	}
	// flatten concatenations and capture groups into atoms
	var atoms []*syntax.Regexp
	var flat func(r *syntax.Regexp)
	flat = func(r *syntax.Regexp) {
		switch r.Op {
		case syntax.OpConcat:
			for _, s := range r.Sub {
				flat(s)
			}
		case syntax.OpCapture:
			flat(r.Sub[0])
		case syntax.OpEmptyMatch:
		default:
			atoms = append(atoms, r)
		}
	}
	flat(re)
	pre, suf := "", ""
	var class []rune
	stars := 0
	for _, a := range atoms {
		switch {
		case a.Op == syntax.OpLiteral && a.Flags&syntax.FoldCase == 0:
			if stars == 0 {
				pre += string(a.Rune)
			} else {
				suf += string(a.Rune)
			}
		case a.Op == syntax.OpStar && a.Flags&syntax.NonGreedy == 0 && (a.Sub[0].Op == syntax.OpCharClass || a.Sub[0].Op == syntax.OpLiteral) && stars == 0:
			stars++
			if a.Sub[0].Op == syntax.OpLiteral {
				for _, r := range a.Sub[0].Rune {
					class = append(class, r, r)
				}
			} else {
				class = a.Sub[0].Rune
			}
		default:
			return fmt.Errorf("regexp %q has a shape the model does not cover (atom %s)", src, a.String())
		}
	}
	if stars != 1 || len(suf) != 1 || pre == "" {
		return fmt.Errorf("regexp %q is not <literal><class>*<one literal byte>", src)
	}
	var alpha []int
	for i := 0; i+1 < len(class); i += 2 {
		if class[i+1] >= 128 {
			return fmt.Errorf("regexp %q: class reaches outside ASCII", src)
		}
		for c := class[i]; c <= class[i+1]; c++ {
			alpha = append(alpha, int(c))
		}
	}
	sort.Ints(alpha)
	for i := 0; i < len(pre); i++ {
		if pre[i] >= 128 {
			return fmt.Errorf("regexp %q: non-ASCII literal", src)
		}
	}
	if suf[0] >= 128 {
		return fmt.Errorf("regexp %q: non-ASCII literal", src)
	}
	// the compiled pattern and the shape read off it must agree on probe strings
	rx := regexp.MustCompile(src)
	for _, probe := range []string{pre + suf, pre + "aZ_9$." + suf, pre + "a-b" + suf, pre, pre[1:] + suf, "x" + pre + "q" + suf + "y"} {
		want := strings.Contains(probe, pre) && func() bool {
			rest := probe[strings.Index(probe, pre)+len(pre):]
			j := 0
			for j < len(rest) && sort.SearchInts(alpha, int(rest[j])) < len(alpha) && alpha[sort.SearchInts(alpha, int(rest[j]))] == int(rest[j]) {
				j++
			}
			return j < len(rest) && rest[j] == suf[0]
		}()
		if rx.MatchString(probe) != want {
			return fmt.Errorf("regexp %q: shape read by the translator disagrees with regexp on %q", src, probe)
		}
	}
	w := &strings.Builder{}
	p := func(f string, a ...interface{}) { fmt.Fprintf(w, f, a...) }
	p("/- GENERATED by harness/cmd/c12 extract from /repo (generator/file_manager.go insertReg, plugin.InsertionPointFormat). Do not edit. -/\n")
	p("import ThriftVerif.Lib.FileManager\nnamespace Generated.C12\nopen FileManager\n\n")
	p("-- regexp source: %s\n", src)
	p("def cfg : MarkerCfg := {\n")
	p("  pre := %s,\n", leanNats(pre))
	as := make([]string, len(alpha))
	for i, a := range alpha {
		as[i] = strconv.Itoa(a)
	}
	p("  alpha := [%s],\n", strings.Join(as, ", "))
	p("  close := %d,\n", suf[0])
	p("  ptPre := %s,\n", leanNats(ptPre))
	p("  ptSuf := %s }\n\n", leanNats(ptSuf))
	items, err := backendItems(repo)
	if err != nil {
		return err
	}
	p("-- generator/golang/backend.go renderByTemplate: (has Name, has InsertionPoint) of each plugin.Generated appended, in order\n")
	p("def backendItems : List (Bool × Bool) := [%s]\n\n", strings.Join(items, ", "))
	p("end Generated.C12\n")
	fmt.Print(w.String())
	return nil
}

// backendItems reads, in source order, the plugin.Generated literals of GoBackend.renderByTemplate and
// which of Name / InsertionPoint each one sets.
func backendItems(repo string) ([]string, error) {
	path := filepath.Join(repo, "generator", "golang", "backend.go")
	file, err := parser.ParseFile(token.NewFileSet(), path, nil, 0)
	if err != nil {
		return nil, err
	}
	var out []string
	found := false
	for _, d := range file.Decls {
		fd, ok := d.(*ast.FuncDecl)
		if !ok || fd.Name.Name != "renderByTemplate" || fd.Body == nil {
			continue
		}
		found = true
		ast.Inspect(fd.Body, func(n ast.Node) bool {
			cl, ok := n.(*ast.CompositeLit)
			if !ok || exprString(cl.Type) != "plugin.Generated" {
				return true
			}
			name, point := false, false
			for _, e := range cl.Elts {
				if kv, ok := e.(*ast.KeyValueExpr); ok {
					switch exprString(kv.Key) {
					case "Name":
						name = true
					case "InsertionPoint":
						point = true
					}
				} else {
					name, point = true, true // positional literal: all fields
				}
			}
			out = append(out, fmt.Sprintf("(%v, %v)", name, point))
			return true
		})
	}
	if !found || len(out) == 0 {
		return nil, fmt.Errorf("%s: no plugin.Generated literal in func renderByTemplate", path)
	}
	return out, nil
}

func exprString(e ast.Expr) string {
	switch x := e.(type) {
	case *ast.Ident:
		return x.Name
	case *ast.SelectorExpr:
		return exprString(x.X) + "." + x.Sel.Name
	}
	return "?"
}

// ---------------------------------------------------------------- main

func main() {
	repo := flag.String("repo", "/repo", "")
	dir := flag.String("dir", ".", "")
	seed := flag.Uint64("seed", 1, "")
	tier := flag.String("tier", "quick", "")
	file := flag.String("file", "", "")
	part := flag.Int("part", 0, "")
	parts := flag.Int("parts", 1, "")
	corpusDir := flag.String("corpus", "", "")
	if len(os.Args) < 2 {
		fmt.Fprintln(os.Stderr, "usage: c12 extract|run|replay [flags]")
		os.Exit(3)
	}
	flag.CommandLine.Parse(os.Args[2:])
	var err error
	switch os.Args[1] {
	case "extract":
		err = extract(*repo)
	case "run":
		err = run(*dir, *seed, *tier, *part, *parts, *corpusDir)
	case "replay":
		err = replay(*file, *dir)
	default:
		err = fmt.Errorf("usage: c12 extract|run|replay")
	}
	if err != nil {
		fmt.Fprintln(os.Stderr, "c12:", err)
		os.Exit(3)
	}
}
