package main

// glue: ties the IDL services of a unit to what scan found in the generated Go, and prints the per-unit Go
// file (handlers + registrations) that is added to the batch driver.

import (
	"fmt"
	"go/ast"
	"sort"
	"strings"

	"verifharness/internal/batch"
)

type unitSvc struct {
	si     *svcInfo
	gs     *goService
	goName map[string]string // IDL function name -> Go method name (own functions)
	base   *goService        // the interface the generated interface embeds, resolved among the scanned services (nil: none / not found)
	shape  []string          // disagreements between the generated extends chain and the IDL's (oracle failures; the service is still driven)
	leaked []string          // streaming functions (IDL names) that the processor registers although they must have been removed
	note   string            // non-empty: not usable
}

// sameStrings: equal as multisets (the order in which a processor registers its functions is immaterial)
func sameStrings(a, b []string) bool {
	if len(a) != len(b) {
		return false
	}
	a, b = append([]string{}, a...), append([]string{}, b...)
	sort.Strings(a)
	sort.Strings(b)
	for i := range a {
		if a[i] != b[i] {
			return false
		}
	}
	return true
}

// matchServices: every IDL service ↔ the generated interface/client/processor whose processor registers exactly
// the service's own functions (IDL names as string literals, IDL order).
func matchServices(u *batch.UnitInfo, table []*svcInfo, scanned []*goService) []*unitSvc {
	var out []*unitSvc
	taken := map[*goService]bool{}
	for _, si := range table {
		us := &unitSvc{si: si, goName: map[string]string{}}
		out = append(out, us)
		var own []string
		for _, m := range si.Own {
			own = append(own, m.Name)
		}
		removed := map[string]bool{}
		for _, m := range si.Removed {
			removed[m.Name] = true
		}
		for _, gs := range scanned {
			if taken[gs] {
				continue
			}
			// the registered names must be the kept functions; a streaming function among them is recorded (oracle failure)
			var kept, extra []string
			for _, l := range gs.procLits {
				if removed[l] {
					extra = append(extra, l)
				} else {
					kept = append(kept, l)
				}
			}
			if sameStrings(kept, own) {
				us.gs, us.leaked = gs, extra
				taken[gs] = true
				break
			}
		}
		if us.gs == nil {
			us.note = fmt.Sprintf("no New*Processor registers exactly the functions %v", own)
			continue
		}
		gs := us.gs
		if (si.Base >= 0) != (len(gs.embeds) == 1) || len(gs.embeds) > 1 {
			us.note = fmt.Sprintf("interface %s embeds %d interfaces, IDL base %d", gs.iface, len(gs.embeds), si.Base)
			continue
		}
		for i, c := range gs.ctors {
			if c == "" {
				us.note = fmt.Sprintf("client constructor #%d of %s not found", i, gs.client)
			}
		}
		lit2go := map[string]string{}
		for g, l := range gs.callLit {
			if prev, dup := lit2go[l]; dup {
				us.note = fmt.Sprintf("client methods %s and %s both call %q", prev, g, l)
			}
			lit2go[l] = g
		}
		im := map[string]bool{}
		for _, m := range gs.methods {
			im[m.name] = true
		}
		for _, m := range si.Own {
			g, ok := lit2go[m.Name]
			if !ok {
				us.note = fmt.Sprintf("no client method calls %q", m.Name)
				break
			}
			if !im[g] {
				us.note = fmt.Sprintf("client method %s (calls %q) is not a method of interface %s", g, m.Name, gs.iface)
				break
			}
			re := u.Registry[m.ArgsSidx]
			if !re.Found || re.GoType != gs.argsType[g] || re.Pkg != gs.pkg {
				us.note = fmt.Sprintf("client method %s declares _args %s.%s, registry has %s.%s for %s_args", g, gs.pkg, gs.argsType[g], re.Pkg, re.GoType, m.Name)
				break
			}
			us.goName[m.Name] = g
		}
		if us.note == "" && len(gs.methods) != len(si.Own)+len(us.leaked) {
			var names []string
			for _, m := range gs.methods {
				names = append(names, m.name)
			}
			us.note = fmt.Sprintf("interface %s has the methods %v, the IDL service has %d non-streaming functions", gs.iface, names, len(si.Own))
		}
	}
	// the generated chain: which interface does each interface embed?
	byGS := map[*goService]*unitSvc{}
	for _, us := range out {
		if us.gs != nil {
			byGS[us.gs] = us
		}
	}
	for _, us := range out {
		if us.gs == nil || len(us.gs.embeds) != 1 {
			continue
		}
		pkg, name := us.gs.pkg, ""
		switch e := us.gs.embeds[0].(type) {
		case *ast.Ident:
			name = e.Name
		case *ast.SelectorExpr:
			if id, ok := e.X.(*ast.Ident); ok {
				pkg, name = us.gs.imports[id.Name], e.Sel.Name
			}
		}
		for _, gs := range scanned {
			if gs.pkg == pkg && gs.iface == name {
				us.base = gs
			}
		}
	}
	// extends: the generated interface must embed the interface of the IDL base (which may live in another file and may
	// share its name with a service of this file), and its method set along the generated chain must be the union of
	// the IDL chain's functions
	for _, us := range out {
		if us.note != "" || us.gs == nil {
			continue
		}
		if us.si.Base >= 0 {
			want := out[us.si.Base]
			if want.gs != nil && us.base != want.gs {
				got := "nothing that was generated for this unit"
				if us.base != nil {
					got = us.base.pkg + "." + us.base.iface
					if o := byGS[us.base]; o != nil {
						got += fmt.Sprintf(" (IDL service %s of %s)", o.si.Name, where(o.si.File))
					}
				}
				us.shape = append(us.shape, fmt.Sprintf("service %s extends %s (declared in the %s), but the generated interface %s.%s embeds %s, not %s.%s",
					us.si.Name, want.si.Name, where(want.si.File), us.gs.pkg, us.gs.iface, got, want.gs.pkg, want.gs.iface))
			}
		}
		goSet, idlSet := map[string]bool{}, map[string]bool{}
		for cur, n := us.gs, 0; cur != nil && n < 64; n++ {
			for _, m := range cur.methods {
				goSet[m.name] = true
			}
			if o := byGS[cur]; o != nil {
				cur = o.base
			} else {
				cur = nil
			}
		}
		complete := true
		for cur := us; cur != nil; {
			for _, g := range cur.goName {
				idlSet[g] = true
			}
			if len(cur.goName) != len(cur.si.Own) {
				complete = false
			}
			if cur.si.Base >= 0 {
				cur = out[cur.si.Base]
			} else {
				cur = nil
			}
		}
		if complete {
			var miss, extra []string
			for g := range idlSet {
				if !goSet[g] {
					miss = append(miss, g)
				}
			}
			for g := range goSet {
				if !idlSet[g] {
					extra = append(extra, g)
				}
			}
			sort.Strings(miss)
			sort.Strings(extra)
			if len(miss)+len(extra) > 0 && len(us.leaked) == 0 {
				us.shape = append(us.shape, fmt.Sprintf("interface %s.%s (service %s): methods of the extends chain missing %v, not from the chain %v", us.gs.pkg, us.gs.iface, us.si.Name, miss, extra))
			}
		}
	}
	// a service is usable only if its whole chain is
	for changed := true; changed; {
		changed = false
		for _, us := range out {
			if us.note == "" && us.si.Base >= 0 && out[us.si.Base].note != "" {
				us.note = "base service not usable: " + out[us.si.Base].note
				changed = true
			}
		}
	}
	return out
}

// unitSource prints driver/c08_<u>.go.
func unitSource(u *batch.UnitInfo, svcs []*unitSvc) (string, error) {
	im := &importer{alias: map[string]string{}}
	var body strings.Builder
	for _, us := range svcs {
		if us.note != "" {
			continue
		}
		hn := fmt.Sprintf("c08H_%s_%d", u.Key, us.si.Idx)
		fmt.Fprintf(&body, "type %s struct{ core *c08Core }\n\n", hn)
		var meths []string
		byGS := map[*goService]*unitSvc{}
		for _, o := range svcs {
			if o.gs != nil {
				byGS[o.gs] = o
			}
		}
		// handler methods: what the GENERATED interface chain demands (so that the glue compiles whatever was generated)
		done := map[string]bool{}
		for gcur, n := us.gs, 0; gcur != nil && n < 64; n++ {
			byGo := map[string]string{}
			if o := byGS[gcur]; o != nil {
				for idl, g := range o.goName {
					byGo[g] = idl
				}
			}
			for _, gm := range gcur.methods {
				if done[gm.name] {
					continue
				}
				done[gm.name] = true
				var ps, as []string
				for i, p := range gm.params {
					t, err := typeText(im, gcur, p)
					if err != nil {
						return "", fmt.Errorf("%s.%s: %v", gcur.iface, gm.name, err)
					}
					ps = append(ps, fmt.Sprintf("a%d %s", i, t))
					as = append(as, fmt.Sprintf("a%d", i))
				}
				sig := "ctx context.Context"
				if len(ps) > 0 {
					sig += ", " + strings.Join(ps, ", ")
				}
				switch len(gm.results) {
				case 0:
					fmt.Fprintf(&body, "func (h *%s) %s(%s) (err error) {\n\terr = h.core.handle(%q, []interface{}{%s}, nil)\n\treturn\n}\n\n",
						hn, gm.name, sig, byGo[gm.name], strings.Join(as, ", "))
				case 1:
					t, err := typeText(im, gcur, gm.results[0])
					if err != nil {
						return "", fmt.Errorf("%s.%s: %v", gcur.iface, gm.name, err)
					}
					fmt.Fprintf(&body, "func (h *%s) %s(%s) (r %s, err error) {\n\terr = h.core.handle(%q, []interface{}{%s}, &r)\n\treturn\n}\n\n",
						hn, gm.name, sig, t, byGo[gm.name], strings.Join(as, ", "))
				default:
					return "", fmt.Errorf("%s.%s: %d results", gcur.iface, gm.name, len(gm.results))
				}
			}
			if o := byGS[gcur]; o != nil {
				gcur = o.base
			} else {
				gcur = nil
			}
		}
		// method table: the IDL chain (what the property promises to be callable)
		for cur := us; cur != nil; {
			for _, m := range cur.si.Own {
				res := ""
				if m.ResSidx >= 0 {
					res = fmt.Sprintf("%s:%d", u.Key, m.ResSidx)
				}
				meths = append(meths, fmt.Sprintf("\t\t{idl: %q, goName: %q, argsKey: \"%s:%d\", resKey: %q, oneway: %v, void: %v, nthrows: %d},\n",
					m.Name, cur.goName[m.Name], u.Key, m.ArgsSidx, res, m.Oneway, m.Void, m.NThrows))
			}
			if cur.si.Base >= 0 {
				cur = svcs[cur.si.Base]
			} else {
				cur = nil
			}
		}
		a := im.of(us.gs.pkg)
		fmt.Fprintf(&body, "func init() {\n\tc08Register(&c08Service{key: \"%s:%d\",\n", u.Key, us.si.Idx)
		fmt.Fprintf(&body, "\t\tnewClient: func(c thrift.TClient) interface{} { return %s.%s(c) },\n", a, us.gs.ctors[0])
		fmt.Fprintf(&body, "\t\tnewClientP: func(t thrift.TTransport, i, o thrift.TProtocol) interface{} { return %s.%s(t, i, o) },\n", a, us.gs.ctors[1])
		fmt.Fprintf(&body, "\t\tnewClientF: func(t thrift.TTransport, f thrift.TProtocolFactory) interface{} { return %s.%s(t, f) },\n", a, us.gs.ctors[2])
		fmt.Fprintf(&body, "\t\tnewProcessor: func(h interface{}) c08Processor { return %s.%s(h.(%s.%s)) },\n", a, us.gs.procCtor, a, us.gs.iface)
		fmt.Fprintf(&body, "\t\tnewHandler: func(core *c08Core) interface{} { return &%s{core} },\n", hn)
		fmt.Fprintf(&body, "\t\tmethods: []*c08Method{\n%s\t\t},\n\t})\n}\n\n", strings.Join(meths, ""))
	}
	var sb strings.Builder
	sb.WriteString("// Code generated by verifharness/cmd/c08. DO NOT EDIT.\npackage main\n\nimport (\n\t\"context\"\n\n\t\"github.com/apache/thrift/lib/go/thrift\"\n")
	ps := append([]string{}, im.order...)
	sort.Strings(ps)
	for _, p := range ps {
		fmt.Fprintf(&sb, "\t%s %q\n", im.alias[p], p)
	}
	sb.WriteString(")\n\nvar _ = context.Background\nvar _ thrift.TProtocol\n\n")
	sb.WriteString(body.String())
	return sb.String(), nil
}
